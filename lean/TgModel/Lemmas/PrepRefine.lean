/- Refinement: the concrete preprocessor model `Src.eat` is the abstract machine `PP.next`
run over the lexer's token stream `Lex.allTokens`. -/
import TgModel.PrepSpec
import TgModel.Lemmas.PrepLemmas
import TgModel.Lemmas.LexErrKind

namespace Tg

/-- lexer tokens of a text, up to (excluding) `Eof` -/
def Lex.tokens : Nat → List Char → List Tok
  | 0, _ => []
  | n+1, s => if s.isEmpty then [] else
      { kind := (Lex.next s).kind, text := (Lex.next s).text } :: Lex.tokens n (Lex.next s).rest

def Lex.allTokens (s : List Char) : List Tok := Lex.tokens s.length s

theorem Lex.tokens_fuel : ∀ (n : Nat) (s : List Char), s.length ≤ n → Lex.tokens n s = Lex.tokens s.length s := by
  intro n
  induction n using Nat.strongRecOn with
  | _ n ih =>
    intro s hs
    cases s with
    | nil => cases n <;> simp [Lex.tokens]
    | cons c r =>
      cases n with
      | zero => simp at hs
      | succ m =>
        have hlt := Lex.next_rest_length_lt (c :: r) (by simp)
        simp only [List.length_cons, Lex.tokens, List.isEmpty_cons, Bool.false_eq_true, if_false]
        congr 1
        have h1 : (Lex.next (c :: r)).rest.length ≤ m := by simp at hs hlt; omega
        have h2 : (Lex.next (c :: r)).rest.length ≤ r.length := by simp at hlt; omega
        rw [ih m (by omega) _ h1]
        by_cases hr : r.length = m
        · rw [hr]; exact (ih m (by omega) _ h1).symm ▸ rfl
        · rw [ih r.length (by simp at hs; omega) _ h2]

theorem Lex.allTokens_nil : Lex.allTokens [] = [] := by simp [Lex.allTokens, Lex.tokens]

theorem Lex.allTokens_cons (s : List Char) (h : s ≠ []) :
    Lex.allTokens s = { kind := (Lex.next s).kind, text := (Lex.next s).text } :: Lex.allTokens (Lex.next s).rest := by
  cases s with
  | nil => exact absurd rfl h
  | cons c r =>
    have hlt := Lex.next_rest_length_lt (c :: r) (by simp)
    simp only [Lex.allTokens, List.length_cons, Lex.tokens, List.isEmpty_cons, Bool.false_eq_true, if_false]
    congr 1
    exact Lex.tokens_fuel _ _ (by simp at hlt; omega)

open PP in
/-- abstraction of a lexer token -/
def absTok (t : Tok) : PP.LK :=
  match t.kind with
  | .Ifdef => .ifdef
  | .Ifndef => .ifndef
  | .Else => .else_
  | .Endif => .endif
  | .Define => .define
  | .Id => .id t.text
  | k => if k.isTrivia then .ws else .other k t.text

def absToks (s : List Char) : List PP.LK := (Lex.allTokens s).map absTok

theorem absTok_trivia (t : Tok) (h : t.kind.isTrivia = true) : absTok t = .ws := by
  unfold absTok
  split <;> simp_all [TokenKind.isTrivia]

theorem absTok_not_trivia (t : Tok) (h : t.kind.isTrivia = false) : (absTok t).isTrivia = false := by
  unfold absTok
  split <;> simp_all [PP.LK.isTrivia]

namespace Src

theorem lexEat_nil (s : Src) (h : s.rest = []) : (s.lexEat).1.kind = .Eof ∧ (s.lexEat).2.rest = [] := by
  simp [lexEat, h, Lex.next_nil]

theorem absToks_lexEat (s : Src) (h : s.rest ≠ []) :
    absToks s.rest = absTok (s.lexEat).1 :: absToks (s.lexEat).2.rest := by
  simp only [absToks, Lex.allTokens_cons s.rest h, List.map_cons, lexEat]

theorem lexEat_not_eof (s : Src) (h : s.rest ≠ []) : (s.lexEat).1.kind ≠ .Eof := by
  intro he; exact h ((lexEat_eof s).mp he)

theorem lexEat_rest_lt (s : Src) (h : s.rest ≠ []) : (s.lexEat).2.rest.length < s.rest.length := by
  simpa [lexEat] using Lex.next_rest_length_lt s.rest h

theorem absTok_isErr (t : Tok) : (absTok t).isErr = (t.kind == .Error) := by
  unfold absTok
  split
  · rename_i h; simp [PP.LK.isErr, h]
  · rename_i h; simp [PP.LK.isErr, h]
  · rename_i h; simp [PP.LK.isErr, h]
  · rename_i h; simp [PP.LK.isErr, h]
  · rename_i h; simp [PP.LK.isErr, h]
  · rename_i h; simp [PP.LK.isErr, h]
  · split
    · rename_i h
      have : t.kind ≠ .Error := by
        intro he; rw [he] at h; exact absurd h (by decide)
      simp [PP.LK.isErr, this]
    · simp [PP.LK.isErr]

/-- the lexer parks a message exactly with an `Error` token -/
theorem lexEat_lexErr (s : Src) :
    (s.lexEat).2.lexErr.isSome = (s.lexErr.isSome || ((s.lexEat).1.kind == .Error)) := by
  simp only [lexEat]
  cases he : (Lex.next s.rest).err with
  | some m =>
    have := Lex.next_err_kind s.rest (by simp [he])
    simp [this]
  | none =>
    have : (Lex.next s.rest).kind ≠ .Error := by
      intro hk; have := Lex.next_error_msg s.rest hk; simp [he] at this
    simp [this]

/-- the refinement relation: the abstract state is the concrete one, the lexer's parked message
reduced to "there is one" -/
structure R (st : PP.PS) (s : Src) : Prop where
  macros : st.macros = s.macros
  opens : st.opens = s.openConds
  err : st.err = s.prepErr
  lex : st.lexErr = s.lexErr.isSome

/-- the abstract state of a concrete one -/
def absState (s : Src) : PP.PS :=
  { macros := s.macros, opens := s.openConds, err := s.prepErr, lexErr := s.lexErr.isSome }

theorem R_absState (s : Src) : R (absState s) s := ⟨rfl, rfl, rfl, rfl⟩

theorem R_init (text : List Char) : R { macros := [] } (Src.init text) := ⟨rfl, rfl, rfl, rfl⟩

theorem R_lexEat {st : PP.PS} {s : Src} (h : R st s) :
    R (st.lexed (absTok (s.lexEat).1)) (s.lexEat).2 :=
  ⟨h.macros, h.opens, h.err, by
    show (st.lexErr || (absTok (s.lexEat).1).isErr) = _
    rw [lexEat_lexErr, absTok_isErr, h.lex]⟩

theorem R_lexEat_plain {st : PP.PS} {s : Src} (h : R st s) (hk : (s.lexEat).1.kind ≠ .Error) :
    R st (s.lexEat).2 :=
  ⟨h.macros, h.opens, h.err, by rw [lexEat_lexErr, h.lex]; simp [hk]⟩

theorem eofMsg_eq : PP.eofMsg = Tg.eofMsg := rfl

/-- `PreProcessor::error` on both sides: whatever was parked before, afterwards exactly `m` is -/
theorem R_error {st : PP.PS} {s : Src} (hm : st.macros = s.macros) (ho : st.opens = s.openConds)
    (m : String) : R (st.error m) (s.error m) := ⟨hm, ho, rfl, rfl⟩

/-- `next_not_trivia` refines the abstract one -/
theorem nnt_refine (fuel : Nat) (s : Src) (racc : List Char) (hf : s.rest.length < fuel) :
    (∀ k, (PP.nextNotTrivia (absToks s.rest)).1 = some k →
      absTok (nextNotTrivia fuel s racc).2.1 = k ∧ (nextNotTrivia fuel s racc).2.1.kind ≠ .Eof) ∧
    ((PP.nextNotTrivia (absToks s.rest)).1 = none → (nextNotTrivia fuel s racc).2.1.kind = .Eof) ∧
    absToks (nextNotTrivia fuel s racc).2.2.rest = (PP.nextNotTrivia (absToks s.rest)).2 ∧
    (nextNotTrivia fuel s racc).2.2.macros = s.macros ∧
    (nextNotTrivia fuel s racc).2.2.prepErr = s.prepErr ∧
    (nextNotTrivia fuel s racc).2.2.openConds = s.openConds ∧
    (nextNotTrivia fuel s racc).2.2.lexErr.isSome =
      (s.lexErr.isSome || ((nextNotTrivia fuel s racc).2.1.kind == .Error)) := by
  induction fuel generalizing s racc with
  | zero => omega
  | succ n ih =>
    by_cases hr : s.rest = []
    · obtain ⟨hk, hrest⟩ := lexEat_nil s hr
      have hnt : (s.lexEat).1.kind.isTrivia = false := by rw [hk]; rfl
      simp only [nextNotTrivia, hnt, Bool.false_eq_true, if_false]
      simp [absToks, hr, hrest, Lex.allTokens_nil, PP.nextNotTrivia, hk, lexEat_macros, lexEat_prepErr,
        lexEat_openConds, lexEat_lexErr]
    · have ha := absToks_lexEat s hr
      have hlt := lexEat_rest_lt s hr
      by_cases htr : (s.lexEat).1.kind.isTrivia = true
      · simp only [nextNotTrivia, htr, if_true]
        have := ih (s.lexEat).2 ((s.lexEat).1.text.reverseAux racc) (by omega)
        have hne : ((s.lexEat).1.kind == TokenKind.Error) = false := by
          cases hk : (s.lexEat).1.kind <;> simp_all [TokenKind.isTrivia]
        rw [ha, absTok_trivia _ htr]
        simpa [PP.nextNotTrivia, PP.LK.isTrivia, lexEat_macros, lexEat_prepErr, lexEat_openConds,
          lexEat_lexErr, hne] using this
      · simp only [Bool.not_eq_true] at htr
        simp only [nextNotTrivia, htr, Bool.false_eq_true, if_false]
        rw [ha]
        simp only [PP.nextNotTrivia, absTok_not_trivia _ htr, Bool.false_eq_true, if_false]
        refine ⟨?_, by simp, by simp, lexEat_macros s, lexEat_prepErr s, lexEat_openConds s, lexEat_lexErr s⟩
        intro k hk
        simp only [Option.some.injEq] at hk
        exact ⟨hk, lexEat_not_eof s hr⟩

theorem eatUntil_plain (t : Tok) (d : Nat) (r : List PP.LK)
    (h1 : t.kind ≠ .Ifdef) (h2 : t.kind ≠ .Ifndef) (h3 : t.kind ≠ .Endif) (h4 : t.kind ≠ .Else) :
    PP.eatUntil d (absTok t :: r) = PP.eatUntil d r := by
  unfold absTok
  split
  · rename_i h; exact absurd h h1
  · rename_i h; exact absurd h h2
  · rename_i h; exact absurd h h4
  · rename_i h; exact absurd h h3
  · simp [PP.eatUntil]
  · simp [PP.eatUntil]
  · split <;> simp [PP.eatUntil]

/-- how the skip loop ended, abstractly -/
def endAbs : SkipEnd → PP.End
  | .Else => .else_
  | .Endif => .endif
  | .Eof => .eof

/-- the loop of `eat_until_else_or_endif` refines the abstract one -/
theorem eu_refine (fuel depth : Nat) (s : Src) (racc : List Char) (hf : s.rest.length < fuel) :
    absToks (eatUntil fuel depth s racc).2.1.rest = (PP.eatUntil depth (absToks s.rest)).1 ∧
    endAbs (eatUntil fuel depth s racc).2.2 = (PP.eatUntil depth (absToks s.rest)).2 ∧
    (eatUntil fuel depth s racc).2.1.macros = s.macros ∧
    (eatUntil fuel depth s racc).2.1.openConds = s.openConds ∧
    (eatUntil fuel depth s racc).2.1.prepErr = s.prepErr := by
  induction fuel generalizing depth s racc with
  | zero => omega
  | succ n ih =>
    by_cases hr : s.rest = []
    · obtain ⟨hk, hrest⟩ := lexEat_nil s hr
      simp only [eatUntil, hk]
      simp [absToks, hr, hrest, Lex.allTokens_nil, PP.eatUntil, lexEat_macros, lexEat_openConds,
        lexEat_prepErr, endAbs]
    · have ha := absToks_lexEat s hr
      have hlt := lexEat_rest_lt s hr
      have hne := lexEat_not_eof s hr
      have hrec := fun d => ih d (s.lexEat).2 ((s.lexEat).1.text.reverseAux racc) (by omega)
      simp only [eatUntil]
      rw [ha]
      split
      · rename_i hk; simp only [absTok, hk, PP.eatUntil]
        simpa [lexEat_macros, lexEat_openConds, lexEat_prepErr] using hrec (depth + 1)
      · rename_i hk; simp only [absTok, hk, PP.eatUntil]
        simpa [lexEat_macros, lexEat_openConds, lexEat_prepErr] using hrec (depth + 1)
      · rename_i hk
        simp only [absTok, hk, PP.eatUntil]
        split
        · simpa [lexEat_macros, lexEat_openConds, lexEat_prepErr] using hrec (depth - 1)
        · exact ⟨rfl, rfl, lexEat_macros s, lexEat_openConds s, lexEat_prepErr s⟩
      · rename_i hk
        simp only [absTok, hk, PP.eatUntil]
        split
        · rename_i hd; simp only [beq_iff_eq] at hd
          simp [hd, lexEat_macros, lexEat_openConds, lexEat_prepErr, endAbs]
        · rename_i hd; simp only [beq_iff_eq] at hd; simp only [hd, if_false]
          simpa [lexEat_macros, lexEat_openConds, lexEat_prepErr] using hrec depth
      · rename_i hk; exact absurd hk hne
      · rename_i h1 h2 h3 h4 h5
        rw [eatUntil_plain _ _ _ h1 h2 h3 h4]
        simpa [lexEat_macros, lexEat_openConds, lexEat_prepErr] using hrec depth

/-- `eat_until_else_or_endif` with the caller's counter update refines `PP.skip` -/
theorem skip_refine (fuel : Nat) (s : Src) (racc : List Char) (hf : s.rest.length < fuel)
    (st : PP.PS) (h : R st s) :
    absToks (reopen (skipCond fuel s racc).2.1 (skipCond fuel s racc).2.2).rest = (PP.skip st (absToks s.rest)).2 ∧
    R (PP.skip st (absToks s.rest)).1 (reopen (skipCond fuel s racc).2.1 (skipCond fuel s racc).2.2) := by
  obtain ⟨e1, e2, e3, e4, e5⟩ := eu_refine fuel 1 s racc hf
  simp only [skipCond, reopen_rest, afterSkip_rest]
  unfold PP.skip
  cases hend : (eatUntil fuel 1 s racc).2.2 <;> rw [hend] at e2 <;> simp only [endAbs] at e2
  all_goals
    cases hab : PP.eatUntil 1 (absToks s.rest) with
    | mk r' e =>
      rw [hab] at e1 e2
      simp only [] at e1 e2
      subst e2
      simp only []
      refine ⟨e1, ?_⟩
      constructor <;>
        simp [reopen, afterSkip, Src.error, PP.PS.error, e3, e4, e5, h.macros, h.opens, h.err, eofMsg_eq]

theorem absTok_id_iff (t : Tok) (m : List Char) : absTok t = .id m ↔ (t.kind = .Id ∧ t.text = m) := by
  unfold absTok
  split <;> simp_all
  split <;> simp

/-- how a delivered token relates to the abstract output -/
def KindRel (t : Tok) : PP.Out → Prop
  | .eof => t.kind = .Eof
  | .pp => t.kind = .PreProcessor
  | .error => t.kind = .Error
  | .tok k => absTok t = k ∧ t.kind ≠ .PreProcessor ∧ t.kind ≠ .Eof

theorem nameMsg_eq (ifdef : Bool) :
    (if ifdef then "expected macro name after #ifdef" else "expected macro name after #ifndef") =
      PP.nameMsg (!ifdef) := by
  cases ifdef <;> rfl

theorem processIf_refine (ifdef : Bool) (d : Tok) (s : Src) (st : PP.PS) (hR : R st s) :
    KindRel (processIf ifdef d s).1 (PP.processIf (!ifdef) st (absToks s.rest)).1 ∧
    absToks (processIf ifdef d s).2.rest = (PP.processIf (!ifdef) st (absToks s.rest)).2.2 ∧
    R (PP.processIf (!ifdef) st (absToks s.rest)).2.1 (processIf ifdef d s).2 := by
  obtain ⟨h1, h2, h3, h4, h5, h6, h7⟩ := nnt_refine (fuelOf s) s d.text.reverse (by simp [fuelOf])
  have hm := hR.macros
  -- the state after `next_not_trivia`, when the token found is no `Error` token
  have hR1 : (nextNotTrivia (fuelOf s) s d.text.reverse).2.1.kind ≠ .Error →
      R st (nextNotTrivia (fuelOf s) s d.text.reverse).2.2 := by
    intro hk
    exact ⟨by rw [h4]; exact hm, by rw [h6]; exact hR.opens, by rw [h5]; exact hR.err,
      by rw [h7, hR.lex]; simp [hk]⟩
  unfold processIf PP.processIf
  simp only []
  cases ha : PP.nextNotTrivia (absToks s.rest) with
  | mk ok r' =>
    rw [ha] at h1 h2 h3
    simp only [] at h1 h2 h3
    cases ok with
    | none =>
      have hk := h2 rfl
      simp only [hk]
      refine ⟨by simp [KindRel], by simpa using h3, ?_⟩
      rw [nameMsg_eq]
      exact R_error (by rw [h4]; exact hm) (by rw [h6]; exact hR.opens) _
    | some k =>
      obtain ⟨hk1, hk2⟩ := h1 k rfl
      by_cases hid : (nextNotTrivia (fuelOf s) s d.text.reverse).2.1.kind = .Id
      · have hk : k = .id (nextNotTrivia (fuelOf s) s d.text.reverse).2.1.text := by
          rw [← hk1]; exact (absTok_id_iff _ _).mpr ⟨hid, rfl⟩
        subst hk
        have hR1' := hR1 (by rw [hid]; simp)
        simp only [hid, beq_self_eq_true, if_true]
        have hdis : PP.disabled st.macros (nextNotTrivia (fuelOf s) s d.text.reverse).2.1.text (!ifdef) =
            ((ifdef && !(nextNotTrivia (fuelOf s) s d.text.reverse).2.2.macros.contains (nextNotTrivia (fuelOf s) s d.text.reverse).2.1.text) ||
             (!ifdef && (nextNotTrivia (fuelOf s) s d.text.reverse).2.2.macros.contains (nextNotTrivia (fuelOf s) s d.text.reverse).2.1.text)) := by
          rw [h4, hm]; unfold PP.disabled
          cases ifdef <;> cases (s.macros.contains _) <;> rfl
        rw [hdis]
        split
        · obtain ⟨e1, e2⟩ := skip_refine (fuelOf (nextNotTrivia (fuelOf s) s d.text.reverse).2.2)
            (nextNotTrivia (fuelOf s) s d.text.reverse).2.2
            ((nextNotTrivia (fuelOf s) s d.text.reverse).2.1.text.reverseAux (nextNotTrivia (fuelOf s) s d.text.reverse).1)
            (by simp [fuelOf]) st hR1'
          rw [h3] at e1 e2
          exact ⟨by simp [KindRel], e1, e2⟩
        · refine ⟨by simp [KindRel], by simpa using h3, ?_⟩
          exact ⟨hR1'.macros, by simp [hR1'.opens], hR1'.err, hR1'.lex⟩
      · have hne : ∀ m, k ≠ .id m := by
          intro m hm'; rw [← hk1] at hm'; exact hid ((absTok_id_iff _ _).mp hm').1
        have hbeq : ((nextNotTrivia (fuelOf s) s d.text.reverse).2.1.kind == TokenKind.Id) = false := by
          simpa using hid
        simp only [hbeq, Bool.false_eq_true, if_false]
        have hRe : R (st.error (PP.nameMsg (!ifdef)))
            ((nextNotTrivia (fuelOf s) s d.text.reverse).2.2.error
              (if ifdef then "expected macro name after #ifdef" else "expected macro name after #ifndef")) := by
          rw [nameMsg_eq]
          exact R_error (by rw [h4]; exact hm) (by rw [h6]; exact hR.opens) _
        cases k with
        | id m => exact absurd rfl (hne m)
        | _ => exact ⟨by simp [KindRel], by simpa using h3, hRe⟩

/-- abstract `#define` step (the `.define` arm of `PP.next`) -/
theorem processDefine_refine (d : Tok) (s : Src) (st : PP.PS) (hR : R st s) :
    KindRel (processDefine d s).1 (PP.next st (.define :: absToks s.rest)).1 ∧
    absToks (processDefine d s).2.rest = (PP.next st (.define :: absToks s.rest)).2.2 ∧
    R (PP.next st (.define :: absToks s.rest)).2.1 (processDefine d s).2 := by
  obtain ⟨h1, h2, h3, h4, h5, h6, h7⟩ := nnt_refine (fuelOf s) s d.text.reverse (by simp [fuelOf])
  have hm := hR.macros
  unfold processDefine
  simp only [PP.next]
  cases ha : PP.nextNotTrivia (absToks s.rest) with
  | mk ok r' =>
    rw [ha] at h1 h2 h3
    simp only [] at h1 h2 h3
    cases ok with
    | none =>
      have hk := h2 rfl
      simp only [hk]
      refine ⟨by simp [KindRel], by simpa using h3, ?_⟩
      exact R_error (by rw [h4]; exact hm) (by rw [h6]; exact hR.opens) _
    | some k =>
      obtain ⟨hk1, hk2⟩ := h1 k rfl
      by_cases hid : (nextNotTrivia (fuelOf s) s d.text.reverse).2.1.kind = .Id
      · have hk : k = .id (nextNotTrivia (fuelOf s) s d.text.reverse).2.1.text := by
          rw [← hk1]; exact (absTok_id_iff _ _).mpr ⟨hid, rfl⟩
        subst hk
        simp only [hid, beq_self_eq_true, if_true]
        refine ⟨by simp [KindRel], by simpa using h3, ?_⟩
        exact ⟨by simp [h4, hm], by simp [h6, hR.opens], by simp [h5, hR.err], by simp [h7, hid, hR.lex]⟩
      · have hne : ∀ m, k ≠ .id m := by
          intro m hm'; rw [← hk1] at hm'; exact hid ((absTok_id_iff _ _).mp hm').1
        have hbeq : ((nextNotTrivia (fuelOf s) s d.text.reverse).2.1.kind == TokenKind.Id) = false := by
          simpa using hid
        simp only [hbeq, Bool.false_eq_true, if_false]
        have hRe : R (st.error PP.defineMsg)
            ((nextNotTrivia (fuelOf s) s d.text.reverse).2.2.error "expected macro name after #define") :=
          R_error (by rw [h4]; exact hm) (by rw [h6]; exact hR.opens) _
        cases k with
        | id m => exact absurd rfl (hne m)
        | _ => exact ⟨by simp [KindRel], by simpa using h3, hRe⟩

theorem next_plain (st : PP.PS) (t : Tok) (r : List PP.LK)
    (h1 : t.kind ≠ .Ifdef) (h2 : t.kind ≠ .Ifndef) (h3 : t.kind ≠ .Else) (h4 : t.kind ≠ .Endif)
    (h5 : t.kind ≠ .Define) : PP.next st (absTok t :: r) = (.tok (absTok t), st.lexed (absTok t), r) := by
  unfold absTok
  split
  · rename_i h; exact absurd h h1
  · rename_i h; exact absurd h h2
  · rename_i h; exact absurd h h3
  · rename_i h; exact absurd h h4
  · rename_i h; exact absurd h h5
  · simp [PP.next]
  · split <;> simp [PP.next]

theorem R_atEof {st : PP.PS} {s : Src} (h : R st s) : R (PP.atEof st) (atEof s) := by
  unfold PP.atEof atEof
  rw [h.opens, h.err]
  split
  · exact @R_error { st with opens := 0 } { s with openConds := 0 } h.macros rfl _
  · exact h

/-- **refinement**: one `PreProcessor::eat` is one abstract step over the lexer's token stream -/
theorem eat_refine (s : Src) (st : PP.PS) (hR : R st s) :
    KindRel (s.eat).1 (PP.next st (absToks s.rest)).1 ∧
    absToks (s.eat).2.rest = (PP.next st (absToks s.rest)).2.2 ∧
    R (PP.next st (absToks s.rest)).2.1 (s.eat).2 := by
  by_cases hr : s.rest = []
  · obtain ⟨hk, hrest⟩ := lexEat_nil s hr
    have hR1 := R_atEof (R_lexEat_plain hR (by rw [hk]; simp))
    unfold eat
    cases hle : s.lexEat with
    | mk t s1 =>
      rw [hle] at hk hrest hR1
      simp only [] at hk hrest hR1 ⊢
      simp only [hk, absToks, hr, Lex.allTokens_nil, List.map_nil, PP.next, KindRel, atEof_rest, hrest]
      exact ⟨trivial, trivial, hR1⟩
  · have ha := absToks_lexEat s hr
    have hne := lexEat_not_eof s hr
    have hpp : (s.lexEat).1.kind ≠ .PreProcessor := by simpa [lexEat] using Lex.next_not_pp s.rest
    have hRl := @R_lexEat st s hR
    have hRp := @R_lexEat_plain st s hR
    unfold eat
    rw [ha]
    cases hle : s.lexEat with
    | mk t s1 =>
      rw [hle] at hne hpp hRl hRp
      simp only [] at hne hpp hRl hRp ⊢
      split
      · rename_i hk
        have := processIf_refine true t s1 st (hRp (by rw [hk]; simp))
        simpa [absTok, hk, PP.next] using this
      · rename_i hk
        have := processIf_refine false t s1 st (hRp (by rw [hk]; simp))
        simpa [absTok, hk, PP.next] using this
      · rename_i hk
        have hR1 : R { st with opens := st.opens - 1 } { s1 with openConds := s1.openConds - 1 } := by
          have := hRp (by rw [hk]; simp)
          exact ⟨this.macros, by simp [this.opens], this.err, this.lex⟩
        obtain ⟨e1, e2⟩ := skip_refine (fuelOf s1) { s1 with openConds := s1.openConds - 1 } t.text.reverse
          (by simp [fuelOf]) _ hR1
        simp only [absTok, hk, PP.next, KindRel]
        exact ⟨trivial, e1, e2⟩
      · rename_i hk
        have := hRp (by rw [hk]; simp)
        simp only [absTok, hk, PP.next, KindRel]
        exact ⟨trivial, trivial, ⟨this.macros, by simp [this.opens], this.err, this.lex⟩⟩
      · rename_i hk
        have := processDefine_refine t s1 st (hRp (by rw [hk]; simp))
        simpa [absTok, hk] using this
      · rename_i hk; exact absurd hk hne
      · rename_i h1 h2 h3 h4 h5 h6
        rw [next_plain st t _ h1 h2 h3 h4 h5]
        exact ⟨⟨rfl, hpp, hne⟩, rfl, hRl⟩

/-- delivered tokens that are not preprocessor trivia, abstracted -/
def delivered (toks : List Tok) : List PP.LK :=
  (toks.filter (fun t => t.kind != .PreProcessor)).map absTok

theorem runAll_refineR (n : Nat) (s : Src) (st : PP.PS) (hR : R st s) (outs : List PP.Out)
    (h : PP.runAll n st (absToks s.rest) = some outs) (hne : PP.noErr outs) :
    ∃ toks, runAll n s = some toks ∧ delivered toks = PP.plains outs := by
  induction n generalizing s st outs with
  | zero => simp [PP.runAll] at h
  | succ n ih =>
    obtain ⟨hk, hrest, hmac⟩ := eat_refine s st hR
    simp only [PP.runAll] at h
    simp only [runAll]
    split at h
    · rename_i heof
      simp only [Option.some.injEq] at h; subst h
      rw [heof] at hk
      simp only [KindRel] at hk
      exact ⟨[], by simp [hk], by simp [delivered, PP.plains]⟩
    · rename_i hneof
      cases hrec : PP.runAll n (PP.next st (absToks s.rest)).2.1 (PP.next st (absToks s.rest)).2.2 with
      | none => simp [hrec] at h
      | some outs' =>
        simp only [hrec, Option.map_some, Option.some.injEq] at h
        subst h
        have hne' : PP.noErr outs' := fun o ho => hne o (by simp [ho])
        obtain ⟨toks, ht, hd⟩ := ih (s.eat).2 (PP.next st (absToks s.rest)).2.1 hmac outs' (by rw [hrest]; exact hrec) hne'
        have hnoteof : ((s.eat).1.kind == TokenKind.Eof) = false := by
          cases ho : (PP.next st (absToks s.rest)).1 with
          | eof => exact absurd ho hneof
          | pp => rw [ho] at hk; simp [KindRel] at hk; simp [hk]
          | error => rw [ho] at hk; simp [KindRel] at hk; simp [hk]
          | tok k => rw [ho] at hk; simp [KindRel] at hk; simpa using hk.2.2
        refine ⟨(s.eat).1 :: toks, by simp [hnoteof, ht], ?_⟩
        cases ho : (PP.next st (absToks s.rest)).1 with
        | eof => exact absurd ho hneof
        | pp =>
          rw [ho] at hk; simp [KindRel] at hk
          simp [delivered, hk, PP.plains] at hd ⊢; exact hd
        | error => exact absurd ho (hne _ (by simp))
        | tok k =>
          rw [ho] at hk; simp [KindRel] at hk
          simp [delivered, hk.2.1, hk.1, PP.plains] at hd ⊢; exact hd

/-- what is delivered depends on the macro set only, so agreement on it is enough -/
theorem runAll_refine (n : Nat) (s : Src) (st : PP.PS) (hm : st.macros = s.macros) (outs : List PP.Out)
    (h : PP.runAll n st (absToks s.rest) = some outs) (hne : PP.noErr outs) :
    ∃ toks, runAll n s = some toks ∧ delivered toks = PP.plains outs :=
  runAll_refineR n s (absState s) (R_absState s) outs
    (by rw [← PP.runAll_congr n st (absState s) hm]; exact h) hne

theorem KindRel_isError {t : Tok} {o : PP.Out} (h : KindRel t o) : o.isError = (t.kind == .Error) := by
  cases o with
  | eof => simp only [KindRel] at h; simp [PP.Out.isError, h]
  | pp => simp only [KindRel] at h; simp [PP.Out.isError, h]
  | error => simp only [KindRel] at h; simp [PP.Out.isError, h]
  | tok k => simp only [KindRel] at h; simp only [PP.Out.isError, ← h.1, absTok_isErr]

theorem R_takeError {st : PP.PS} {s : Src} (h : R st s) : R (PP.take st) (s.takeError).2 := by
  unfold PP.take takeError
  rw [h.err]
  cases hp : s.prepErr with
  | some m => exact ⟨h.macros, h.opens, by simp, h.lex⟩
  | none => exact ⟨h.macros, h.opens, by simp [h.err, hp], by simp⟩

theorem R_pull {st : PP.PS} {s : Src} (h : R st s) {t : Tok} {o : PP.Out} (hk : KindRel t o) :
    R (PP.pull o st) (pull t.kind s) := by
  unfold PP.pull pull
  rw [KindRel_isError hk]
  split
  · exact R_takeError h
  · exact h

theorem pull_rest (k : TokenKind) (s : Src) : (pull k s).rest = s.rest := by
  unfold pull takeError
  split
  · split <;> rfl
  · rfl

/-- **refinement of whole runs**: a run of the abstract machine to `Eof` (under the parser's
discipline of fetching the message of every `Error` token) is a run of the concrete model -/
theorem drain_refine (n : Nat) (s : Src) (st : PP.PS) (hR : R st s) (fin : PP.PS)
    (h : PP.drain n st (absToks s.rest) = some fin) :
    ∃ s', drain n s = some s' ∧ R fin s' := by
  induction n generalizing s st with
  | zero => simp [PP.drain] at h
  | succ n ih =>
    obtain ⟨hk, hrest, hR'⟩ := eat_refine s st hR
    simp only [PP.drain] at h
    simp only [drain]
    split at h
    · rename_i heof
      simp only [Option.some.injEq] at h; subst h
      rw [heof] at hk
      simp only [KindRel] at hk
      exact ⟨_, by simp [hk], hR'⟩
    · rename_i hneof
      have hnoteof : ((s.eat).1.kind == TokenKind.Eof) = false := by
        cases ho : (PP.next st (absToks s.rest)).1 with
        | eof => exact absurd ho hneof
        | pp => rw [ho] at hk; simp [KindRel] at hk; simp [hk]
        | error => rw [ho] at hk; simp [KindRel] at hk; simp [hk]
        | tok k => rw [ho] at hk; simp [KindRel] at hk; simpa using hk.2.2
      simp only [hnoteof, Bool.false_eq_true, if_false]
      exact ih _ _ (R_pull hR' hk) (by rw [pull_rest, hrest]; exact h)

/-- what `take_error` answers, read off the abstract state -/
theorem takeError_of_R {st : PP.PS} {s : Src} (h : R st s) :
    (st.err = some PP.eofMsg → (s.takeError).1 = some eofMsg) ∧
    (st.err = none → st.lexErr = false → (s.takeError).1 = none) := by
  unfold takeError
  constructor
  · intro he; rw [h.err] at he; simp [he, eofMsg_eq]
  · intro he hl
    rw [h.err] at he; rw [h.lex] at hl
    simp only [he]
    simpa using hl

end Src
end Tg
