/-
C04: the lemmas behind `Props/C04.lean`, assembled.

* reporting discipline (b): `C04Report.lean`
* the fragment: `C04Frag.lean`; its programs are documented sentences: `C04Doc.lean`
* forward direction on the fragment: token view `C04Kinds.lean`, abstract interpreter and simulation
  `C04Abs.lean`, evaluation rules `C04Exec.lean`, contracts: types / ranges `C04Contracts.lean`, values
  `C04Values*.lean`, records `C04Contracts2.lean`, statements `C04Contracts3.lean`; assembly `C04Forward.lean`
* converse for types: `C04Converse.lean`
* here: the sample program and its text, and the counterexample to the full forward statement.
-/
import TgModel.Lemmas.C04Forward
import TgModel.Lemmas.C04Converse

namespace Tg
namespace C04L
open Grammar

namespace Frag

def Stmts.ofList : List Stmt → Stmts
  | [] => .nil
  | s :: ss => .cons s (Stmts.ofList ss)

/-- the literals that are one token -/
inductive SL where
  | int (bin : Bool) | str | code | tru | fls | uninit | id

def SL.toLit : SL → Lit
  | .int b => .safe (.int b)
  | .str => .str
  | .code => .safe .code
  | .tru => .safe .tru
  | .fls => .safe .fls
  | .uninit => .safe (.op .uninit)
  | .id => .safe (.op .id)

/-- `n` suffixes `.Id` -/
def fields : Nat → Suffixes
  | 0 => .nil
  | n+1 => .cons .field (fields n)

def pasteTl : List (SL × Nat) → SVals
  | [] => .nil
  | (l, n) :: rest => .cons l.toLit (fields n) (pasteTl rest)

/-- `l.f.f # l.f …` -/
def paste (hd : SL × Nat) (tl : List (SL × Nat)) : Val := .mk hd.1.toLit (fields hd.2) (pasteTl tl)

/-- a value that is one literal -/
def lit (l : SL) : Val := paste (l, 0) []

/-- a value that is one simple value -/
def vH (h : HLit) : Val := .mk (.safe h) .nil .nil

def VList.ofList : List Val → VList
  | [] => .nil
  | v :: vs => .cons v (VList.ofList vs)

def nfields : Nat → List NSuffix
  | 0 => []
  | n+1 => .field :: nfields n

/-- a name `Id.f…  # l.f… …` -/
def npaste (n : Nat) (tl : List (SL × Nat)) : NameVal :=
  ⟨.safe (.op .id), nfields n, tl.map (fun p => (p.1.toLit, nfields p.2)), rfl⟩

def nlit : NameVal := npaste 0 []

/-- a class reference without arguments -/
def ref : ClassRef := ⟨none⟩

/-- `def Id;` -/
def defId : Stmt := .def_ (some nlit) [] .semi

/-- `(add x, 1)` -/
def dagAdd : Val := vH (.dag .id .nil .nil (.bareVal (.op .id) .nil .nil false (.val (lit (.int false)) false .nil)))

def sampleStmts : Stmts := Stmts.ofList [
  .include,
  .cls [] [] .semi,
  .cls [⟨⟨.int, rfl⟩, none⟩, ⟨⟨.bits false, rfl⟩, some (lit (.int true))⟩,
        ⟨⟨.list (.list .string), rfl⟩, some (paste (.str, 0) [(.str, 0)])⟩, ⟨⟨.cls, rfl⟩, some (lit .uninit)⟩]
    [ref, ⟨some ⟨[lit (.int false), paste (.str, 0) [(.id, 0)]], [(lit .id, lit (.int false))]⟩⟩]
    (.braces [
      .fieldDef true (.ty ⟨.int, rfl⟩) (some (lit .id)),
      .fieldDef false .code (some (lit .code)),
      .fieldDef false (.ty ⟨.dag, rfl⟩) none,
      .fieldDef false (.ty ⟨.bit, rfl⟩) (some (lit .tru)),
      .fieldDef false (.ty ⟨.string, rfl⟩) none,
      .fieldDef false (.ty ⟨.cls, rfl⟩) (some (paste (.fls, 0) [(.id, 2), (.int false, 0)])),
      .letField none (lit (.int false)),
      .letField (some ⟨.dots false false, [.single false]⟩) (lit (.int true)),
      .defvar (lit (.int false)),
      .assert_ (lit .id) (lit .str),
      .dump (lit .str)]),
  .def_ none [] .semi,
  .def_ (some nlit) [⟨some ⟨[], []⟩⟩] (.braces [.fieldDef false (.ty ⟨.bits false, rfl⟩) none]),
  .def_ (some (npaste 0 [(.str, 0), (.id, 1)])) [⟨some ⟨[lit (.int false)], []⟩⟩, ref] .semi,
  .defvar (lit (.int false)),
  .dump (paste (.id, 1) []),
  .assert_ (lit .tru) (paste (.str, 0) [(.id, 0)]),
  -- lists, bang operators, bit literals, class values, `!cond`, dags, slices and ranges
  .defvar (.mk (.list (lit (.int false)) (VList.ofList [lit (.int false), lit (.int false)])) .nil .nil),
  .defvar (.mk (.safe (.bang ⟨.XAdd, rfl⟩ none (lit .id) (VList.ofList [lit (.int false)]))) .nil
    (.cons (.safe (.op (.castop false (some ⟨.string, rfl⟩) (lit .id) .nil))) .nil .nil)),
  .defvar (.mk (.bits (lit (.int false)) (VList.ofList [lit (.int false), lit .uninit])) .nil .nil),
  .defvar (.mk (.safe (.op (.classVal (VList.ofList [lit (.int false), lit .str])))) (fields 1)
    (.cons (.safe (.op (.classVal .nil))) .nil .nil)),
  .defvar (vH (.cond (.cons (lit .id) (lit (.int false))
    (.one (lit .tru) (.mk (.list (lit (.int false)) .nil) .nil .nil))))),
  .defvar (vH (.dag .id .nil .nil (.bareVal (.op .id) .nil .nil true
    (.val (lit .id) true (.val dagAdd true (.var .nil)))))),
  .defvar (vH (.dag .id .nil .nil .none)),
  .defvar (vH (.dag .id .nil .nil (.named (.val (lit .id) false (.var .nil))))),
  .defvar (vH (.dag (.castop false (some ⟨.cls, rfl⟩) (lit .str) .nil) .nil .nil (.bareVar (.val (lit .id) false .nil)))),
  .defvar (vH (.dag .uninit .nil .nil (.named .nil))),
  .defvar (vH (.dag (.castop true none (lit .id) .nil) .nil .nil (.bareVal (.int false) .nil .nil true .nil))),
  .defvar (.mk (.safe (.op .id))
    (.cons (.slice (.cons (.single (lit (.int false))) (.cons (.dots (lit (.int false)) (lit (.int false)))
      (.cons (.minus (lit (.int false)) (lit (.int false))) (.one (.juxt (lit (.int false))))))) true)
    (.cons (.range ⟨.single false, [.juxt false]⟩)
    (.cons .field
    (.cons (.slice (.one (.single (lit .id))) false) .nil)))) .nil),
  .def_ (some ⟨.safe (.op .id), [.slice (.one (.single (lit (.int false)))) false, .field],
      [(.safe (.op .id), [.slice (.one (.single (lit (.int false)))) false])], rfl⟩) [ref] .semi,
  .defset ⟨.list .cls, rfl⟩ (Stmts.ofList [defId, .defset ⟨.dag, rfl⟩ .nil]),
  .ifThen (lit .id) (.single defId),
  .ifElse (lit .id) (.braces (Stmts.ofList [defId, .dump (lit (.int false))]))
    (.single (.ifElse (lit .id) (.single (.dump (lit (.int false)))) (.braces .nil))),
  .ifThen (lit .id) (.single (.ifElse (lit .id) (.single defId) (.single defId))),
  .let_ ⟨⟨none, lit (.int false)⟩,
      [⟨some ⟨.dots false false, []⟩, lit (.int true)⟩,
       ⟨some ⟨.single false, [.minus false false, .juxt false]⟩, lit .id⟩]⟩
    (.braces (Stmts.ofList [defId])),
  .let_ ⟨⟨none, lit (.int false)⟩, []⟩ (.single defId),
  .foreach (.value (lit .id)) (.single (.def_ (some (npaste 0 [(.id, 0)])) [] .semi)),
  .foreach (.piece (.dots false false)) (.braces (Stmts.ofList [.dump (lit .id)])),
  .foreach (.braces ⟨.single false, [.minus true true, .dots false false]⟩)
    (.single (.ifThen (lit .id) (.single (.dump (lit .id))))),
  .defm none [ref],
  .defm (some (npaste 0 [(.str, 0)]))
    [⟨some ⟨[], [(lit .id, lit (.int false)), (lit .id, paste (.id, 1) [])]⟩⟩, ref],
  .defm (some nlit) [],
  .multiclass [⟨⟨.int, rfl⟩, some (lit (.int false))⟩] [ref, ⟨some ⟨[lit .id], []⟩⟩] (Stmts.ofList [
    .def_ (some (npaste 0 [(.id, 0)])) [] .semi,
    .defm (some nlit) [ref],
    .assert_ (lit .id) (lit .str),
    .dump (lit .id),
    .foreach (.value (lit .id)) (.single (.def_ (some (npaste 0 [(.id, 0)])) [] .semi)),
    .let_ ⟨⟨none, lit (.int false)⟩, []⟩ (.single defId),
    .ifElse (lit .id) (.single defId) (.single defId)]),
  .multiclass [] [] (Stmts.ofList [defId])]

/-- a program using every statement form of the fragment, with nesting -/
def sample : Program := ⟨sampleStmts, by decide⟩

/-- a text for `sample` (with comments and layout):
```
// C04 sample: every statement form of the fragment
include "base.td"
class A;
class B<int x, bits<4> y = 0b101, list<list<string>> z = "s" # "t", A w = ?> : A, A<1, "s" # t, x = 2> {
  field int f = x;
  code c = [{ some code }];
  dag d;
  bit t = true;
  string s;
  A v = false # a.b.c # 0x1F;
  let f = 1;
  let g{3...0, 7} = 0b1010;
  defvar q = 2;
  assert q, "bad";
  dump "x";
}
def;
def D : A<> { bits<0x10> k; }
def d # "x" # a.b : B<1>, A;
defvar v = 1;
dump v.f;
assert true, "msg" # v;
defvar lst = [1, 2, 3];
defvar sum = !add(a, 1) # !cast<string>(x);
defvar bb = {1, 0, ?};
defvar cv = Foo<1, "a">.f # Bar<>;
defvar cnd = !cond(a: 1, true: [2]);
defvar dg = (ins GPR:$a, i32imm:$b, (add x, 1):$s, $c);
defvar d2 = (outs);
defvar d3 = (op:$o x, $y);
defvar d4 = (!cast<Op>("x") $a, b);
defvar d5 = (?:$q);
defvar d6 = (!getdagop(d) 1:$n);
defvar sl = x[0, 1...2, 3 - 4, 5 -6,]{7, 8-9}.f[a];
def n[0].x # y[1] : A;
defset list<A> S = {
  def E;
  /* nested */ defset dag T = { }
}
if v then def F;
if v then { def G; dump 1; } else if w then dump 2; else { }
if a then if b then def H; else def I;
let mayLoad = 1, Bits<3...0> = 0b1010, x<1, 2 - 3, 4 5> = y in {
  def L1;
}
let z = 1 in def L2;
foreach i = lst in def FE # i;
foreach j = 0...3 in { dump j; }
foreach k = {1, 0b11 - 0b01, 7...0} in if k then dump k;
defm : A;
defm inst # "x" : B<n = 1, m = v.f>, A;
defm anon;
multiclass M<int n = 1> : A, B<n> {
  def NAME # a;
  defm sub : M;
  assert n, "m";
  dump n;
  foreach i = lst in def x # i;
  let a = 1 in def y;
  if n then def z; else def w;
}
multiclass N { def q; }
```
-/
def sampleText : List Char :=
  ['/', '/', ' ', 'C', '0', '4', ' ', 's', 'a', 'm', 'p', 'l', 'e', ':', ' ', 'e', 'v', 'e', 'r',
   'y', ' ', 's', 't', 'a', 't', 'e', 'm', 'e', 'n', 't', ' ', 'f', 'o', 'r', 'm', ' ', 'o', 'f',
   ' ', 't', 'h', 'e', ' ', 'f', 'r', 'a', 'g', 'm', 'e', 'n', 't', '\n', 'i', 'n', 'c', 'l', 'u',
   'd', 'e', ' ', '"', 'b', 'a', 's', 'e', '.', 't', 'd', '"', '\n', 'c', 'l', 'a', 's', 's', ' ',
   'A', ';', '\n', 'c', 'l', 'a', 's', 's', ' ', 'B', '<', 'i', 'n', 't', ' ', 'x', ',', ' ', 'b',
   'i', 't', 's', '<', '4', '>', ' ', 'y', ' ', '=', ' ', '0', 'b', '1', '0', '1', ',', ' ', 'l',
   'i', 's', 't', '<', 'l', 'i', 's', 't', '<', 's', 't', 'r', 'i', 'n', 'g', '>', '>', ' ', 'z',
   ' ', '=', ' ', '"', 's', '"', ' ', '#', ' ', '"', 't', '"', ',', ' ', 'A', ' ', 'w', ' ', '=',
   ' ', '?', '>', ' ', ':', ' ', 'A', ',', ' ', 'A', '<', '1', ',', ' ', '"', 's', '"', ' ', '#',
   ' ', 't', ',', ' ', 'x', ' ', '=', ' ', '2', '>', ' ', '{', '\n', ' ', ' ', 'f', 'i', 'e', 'l',
   'd', ' ', 'i', 'n', 't', ' ', 'f', ' ', '=', ' ', 'x', ';', '\n', ' ', ' ', 'c', 'o', 'd', 'e',
   ' ', 'c', ' ', '=', ' ', '[', '{', ' ', 's', 'o', 'm', 'e', ' ', 'c', 'o', 'd', 'e', ' ', '}',
   ']', ';', '\n', ' ', ' ', 'd', 'a', 'g', ' ', 'd', ';', '\n', ' ', ' ', 'b', 'i', 't', ' ',
   't', ' ', '=', ' ', 't', 'r', 'u', 'e', ';', '\n', ' ', ' ', 's', 't', 'r', 'i', 'n', 'g', ' ',
   's', ';', '\n', ' ', ' ', 'A', ' ', 'v', ' ', '=', ' ', 'f', 'a', 'l', 's', 'e', ' ', '#', ' ',
   'a', '.', 'b', '.', 'c', ' ', '#', ' ', '0', 'x', '1', 'F', ';', '\n', ' ', ' ', 'l', 'e', 't',
   ' ', 'f', ' ', '=', ' ', '1', ';', '\n', ' ', ' ', 'l', 'e', 't', ' ', 'g', '{', '3', '.', '.',
   '.', '0', ',', ' ', '7', '}', ' ', '=', ' ', '0', 'b', '1', '0', '1', '0', ';', '\n', ' ', ' ',
   'd', 'e', 'f', 'v', 'a', 'r', ' ', 'q', ' ', '=', ' ', '2', ';', '\n', ' ', ' ', 'a', 's', 's',
   'e', 'r', 't', ' ', 'q', ',', ' ', '"', 'b', 'a', 'd', '"', ';', '\n', ' ', ' ', 'd', 'u', 'm',
   'p', ' ', '"', 'x', '"', ';', '\n', '}', '\n', 'd', 'e', 'f', ';', '\n', 'd', 'e', 'f', ' ',
   'D', ' ', ':', ' ', 'A', '<', '>', ' ', '{', ' ', 'b', 'i', 't', 's', '<', '0', 'x', '1', '0',
   '>', ' ', 'k', ';', ' ', '}', '\n', 'd', 'e', 'f', ' ', 'd', ' ', '#', ' ', '"', 'x', '"', ' ',
   '#', ' ', 'a', '.', 'b', ' ', ':', ' ', 'B', '<', '1', '>', ',', ' ', 'A', ';', '\n', 'd', 'e',
   'f', 'v', 'a', 'r', ' ', 'v', ' ', '=', ' ', '1', ';', '\n', 'd', 'u', 'm', 'p', ' ', 'v', '.',
   'f', ';', '\n', 'a', 's', 's', 'e', 'r', 't', ' ', 't', 'r', 'u', 'e', ',', ' ', '"', 'm', 's',
   'g', '"', ' ', '#', ' ', 'v', ';', '\n', 'd', 'e', 'f', 'v', 'a', 'r', ' ', 'l', 's', 't', ' ',
   '=', ' ', '[', '1', ',', ' ', '2', ',', ' ', '3', ']', ';', '\n', 'd', 'e', 'f', 'v', 'a', 'r',
   ' ', 's', 'u', 'm', ' ', '=', ' ', '!', 'a', 'd', 'd', '(', 'a', ',', ' ', '1', ')', ' ', '#',
   ' ', '!', 'c', 'a', 's', 't', '<', 's', 't', 'r', 'i', 'n', 'g', '>', '(', 'x', ')', ';', '\n',
   'd', 'e', 'f', 'v', 'a', 'r', ' ', 'b', 'b', ' ', '=', ' ', '{', '1', ',', ' ', '0', ',', ' ',
   '?', '}', ';', '\n', 'd', 'e', 'f', 'v', 'a', 'r', ' ', 'c', 'v', ' ', '=', ' ', 'F', 'o', 'o',
   '<', '1', ',', ' ', '"', 'a', '"', '>', '.', 'f', ' ', '#', ' ', 'B', 'a', 'r', '<', '>', ';',
   '\n', 'd', 'e', 'f', 'v', 'a', 'r', ' ', 'c', 'n', 'd', ' ', '=', ' ', '!', 'c', 'o', 'n', 'd',
   '(', 'a', ':', ' ', '1', ',', ' ', 't', 'r', 'u', 'e', ':', ' ', '[', '2', ']', ')', ';', '\n',
   'd', 'e', 'f', 'v', 'a', 'r', ' ', 'd', 'g', ' ', '=', ' ', '(', 'i', 'n', 's', ' ', 'G', 'P',
   'R', ':', '$', 'a', ',', ' ', 'i', '3', '2', 'i', 'm', 'm', ':', '$', 'b', ',', ' ', '(', 'a',
   'd', 'd', ' ', 'x', ',', ' ', '1', ')', ':', '$', 's', ',', ' ', '$', 'c', ')', ';', '\n', 'd',
   'e', 'f', 'v', 'a', 'r', ' ', 'd', '2', ' ', '=', ' ', '(', 'o', 'u', 't', 's', ')', ';', '\n',
   'd', 'e', 'f', 'v', 'a', 'r', ' ', 'd', '3', ' ', '=', ' ', '(', 'o', 'p', ':', '$', 'o', ' ',
   'x', ',', ' ', '$', 'y', ')', ';', '\n', 'd', 'e', 'f', 'v', 'a', 'r', ' ', 'd', '4', ' ', '=',
   ' ', '(', '!', 'c', 'a', 's', 't', '<', 'O', 'p', '>', '(', '"', 'x', '"', ')', ' ', '$', 'a',
   ',', ' ', 'b', ')', ';', '\n', 'd', 'e', 'f', 'v', 'a', 'r', ' ', 'd', '5', ' ', '=', ' ', '(',
   '?', ':', '$', 'q', ')', ';', '\n', 'd', 'e', 'f', 'v', 'a', 'r', ' ', 'd', '6', ' ', '=', ' ',
   '(', '!', 'g', 'e', 't', 'd', 'a', 'g', 'o', 'p', '(', 'd', ')', ' ', '1', ':', '$', 'n', ')',
   ';', '\n', 'd', 'e', 'f', 'v', 'a', 'r', ' ', 's', 'l', ' ', '=', ' ', 'x', '[', '0', ',', ' ',
   '1', '.', '.', '.', '2', ',', ' ', '3', ' ', '-', ' ', '4', ',', ' ', '5', ' ', '-', '6', ',',
   ']', '{', '7', ',', ' ', '8', '-', '9', '}', '.', 'f', '[', 'a', ']', ';', '\n', 'd', 'e', 'f',
   ' ', 'n', '[', '0', ']', '.', 'x', ' ', '#', ' ', 'y', '[', '1', ']', ' ', ':', ' ', 'A', ';',
   '\n', 'd', 'e', 'f', 's', 'e', 't', ' ', 'l', 'i', 's', 't', '<', 'A', '>', ' ', 'S', ' ', '=',
   ' ', '{', '\n', ' ', ' ', 'd', 'e', 'f', ' ', 'E', ';', '\n', ' ', ' ', '/', '*', ' ', 'n',
   'e', 's', 't', 'e', 'd', ' ', '*', '/', ' ', 'd', 'e', 'f', 's', 'e', 't', ' ', 'd', 'a', 'g',
   ' ', 'T', ' ', '=', ' ', '{', ' ', '}', '\n', '}', '\n', 'i', 'f', ' ', 'v', ' ', 't', 'h',
   'e', 'n', ' ', 'd', 'e', 'f', ' ', 'F', ';', '\n', 'i', 'f', ' ', 'v', ' ', 't', 'h', 'e', 'n',
   ' ', '{', ' ', 'd', 'e', 'f', ' ', 'G', ';', ' ', 'd', 'u', 'm', 'p', ' ', '1', ';', ' ', '}',
   ' ', 'e', 'l', 's', 'e', ' ', 'i', 'f', ' ', 'w', ' ', 't', 'h', 'e', 'n', ' ', 'd', 'u', 'm',
   'p', ' ', '2', ';', ' ', 'e', 'l', 's', 'e', ' ', '{', ' ', '}', '\n', 'i', 'f', ' ', 'a', ' ',
   't', 'h', 'e', 'n', ' ', 'i', 'f', ' ', 'b', ' ', 't', 'h', 'e', 'n', ' ', 'd', 'e', 'f', ' ',
   'H', ';', ' ', 'e', 'l', 's', 'e', ' ', 'd', 'e', 'f', ' ', 'I', ';', '\n', 'l', 'e', 't', ' ',
   'm', 'a', 'y', 'L', 'o', 'a', 'd', ' ', '=', ' ', '1', ',', ' ', 'B', 'i', 't', 's', '<', '3',
   '.', '.', '.', '0', '>', ' ', '=', ' ', '0', 'b', '1', '0', '1', '0', ',', ' ', 'x', '<', '1',
   ',', ' ', '2', ' ', '-', ' ', '3', ',', ' ', '4', ' ', '5', '>', ' ', '=', ' ', 'y', ' ', 'i',
   'n', ' ', '{', '\n', ' ', ' ', 'd', 'e', 'f', ' ', 'L', '1', ';', '\n', '}', '\n', 'l', 'e',
   't', ' ', 'z', ' ', '=', ' ', '1', ' ', 'i', 'n', ' ', 'd', 'e', 'f', ' ', 'L', '2', ';', '\n',
   'f', 'o', 'r', 'e', 'a', 'c', 'h', ' ', 'i', ' ', '=', ' ', 'l', 's', 't', ' ', 'i', 'n', ' ',
   'd', 'e', 'f', ' ', 'F', 'E', ' ', '#', ' ', 'i', ';', '\n', 'f', 'o', 'r', 'e', 'a', 'c', 'h',
   ' ', 'j', ' ', '=', ' ', '0', '.', '.', '.', '3', ' ', 'i', 'n', ' ', '{', ' ', 'd', 'u', 'm',
   'p', ' ', 'j', ';', ' ', '}', '\n', 'f', 'o', 'r', 'e', 'a', 'c', 'h', ' ', 'k', ' ', '=', ' ',
   '{', '1', ',', ' ', '0', 'b', '1', '1', ' ', '-', ' ', '0', 'b', '0', '1', ',', ' ', '7', '.',
   '.', '.', '0', '}', ' ', 'i', 'n', ' ', 'i', 'f', ' ', 'k', ' ', 't', 'h', 'e', 'n', ' ', 'd',
   'u', 'm', 'p', ' ', 'k', ';', '\n', 'd', 'e', 'f', 'm', ' ', ':', ' ', 'A', ';', '\n', 'd',
   'e', 'f', 'm', ' ', 'i', 'n', 's', 't', ' ', '#', ' ', '"', 'x', '"', ' ', ':', ' ', 'B', '<',
   'n', ' ', '=', ' ', '1', ',', ' ', 'm', ' ', '=', ' ', 'v', '.', 'f', '>', ',', ' ', 'A', ';',
   '\n', 'd', 'e', 'f', 'm', ' ', 'a', 'n', 'o', 'n', ';', '\n', 'm', 'u', 'l', 't', 'i', 'c',
   'l', 'a', 's', 's', ' ', 'M', '<', 'i', 'n', 't', ' ', 'n', ' ', '=', ' ', '1', '>', ' ', ':',
   ' ', 'A', ',', ' ', 'B', '<', 'n', '>', ' ', '{', '\n', ' ', ' ', 'd', 'e', 'f', ' ', 'N', 'A',
   'M', 'E', ' ', '#', ' ', 'a', ';', '\n', ' ', ' ', 'd', 'e', 'f', 'm', ' ', 's', 'u', 'b', ' ',
   ':', ' ', 'M', ';', '\n', ' ', ' ', 'a', 's', 's', 'e', 'r', 't', ' ', 'n', ',', ' ', '"', 'm',
   '"', ';', '\n', ' ', ' ', 'd', 'u', 'm', 'p', ' ', 'n', ';', '\n', ' ', ' ', 'f', 'o', 'r',
   'e', 'a', 'c', 'h', ' ', 'i', ' ', '=', ' ', 'l', 's', 't', ' ', 'i', 'n', ' ', 'd', 'e', 'f',
   ' ', 'x', ' ', '#', ' ', 'i', ';', '\n', ' ', ' ', 'l', 'e', 't', ' ', 'a', ' ', '=', ' ', '1',
   ' ', 'i', 'n', ' ', 'd', 'e', 'f', ' ', 'y', ';', '\n', ' ', ' ', 'i', 'f', ' ', 'n', ' ', 't',
   'h', 'e', 'n', ' ', 'd', 'e', 'f', ' ', 'z', ';', ' ', 'e', 'l', 's', 'e', ' ', 'd', 'e', 'f',
   ' ', 'w', ';', '\n', '}', '\n', 'm', 'u', 'l', 't', 'i', 'c', 'l', 'a', 's', 's', ' ', 'N',
   ' ', '{', ' ', 'd', 'e', 'f', ' ', 'q', ';', ' ', '}', '\n']

end Frag

/-! ### the full forward statement fails: dag operators -/

/-- `def d { dag a = (1 2); }` -/
def dagWitness : List Char :=
  ['d', 'e', 'f', ' ', 'd', ' ', '{', ' ', 'd', 'a', 'g', ' ', 'a', ' ', '=', ' ', '(', '1', ' ', '2', ')', ';', ' ', '}']

theorem dagWitness_kinds : (PState.init dagWitness).kinds =
    [.Def, .Id, .LBrace, .Dag, .Id, .Equal, .LParen, .IntVal, .IntVal, .RParen, .Semi, .RBrace] := by
  decide +kernel

open Doc in
/-- its token kinds are derivable: `Dag ::= "(" DagArg DagArgList? ")"`, `DagArg ::= Value …` -/
theorem dagWitness_sentence : Doc.Sentence (PState.init dagWitness).kinds := by
  rw [dagWitness_kinds]
  have one : Derives (.nt .Value_) [TokenKind.IntVal] := d_val (Frag.lit (.int false))
  have dagarg : Derives (.nt .DagArg_) [TokenKind.IntVal] :=
    Derives.nt (Derives.altL (Derives.seq (v := []) one Derives.optNone))
  have daglist : Derives (.nt .DagArgList_) [TokenKind.IntVal] :=
    Derives.nt (Derives.seq (v := []) dagarg Derives.starNil)
  have dag : Derives (.nt .Dag_) [TokenKind.LParen, .IntVal, .IntVal, .RParen] :=
    Derives.nt (d_tokSeq (List.mem_singleton.mpr rfl) (Derives.seq (u := [TokenKind.IntVal]) dagarg
      (Derives.seq (u := [TokenKind.IntVal]) (Derives.optSome daglist) (d_tok1 _))))
  have simple : Derives (.nt .SimpleValue_) [TokenKind.LParen, .IntVal, .IntVal, .RParen] :=
    Derives.nt <| Derives.altR <| Derives.altR <| Derives.altR <| Derives.altR <| Derives.altR <|
      Derives.altR <| Derives.altR <| Derives.altL dag
  have inner : Derives (.nt .InnerValue_) [TokenKind.LParen, .IntVal, .IntVal, .RParen] :=
    Derives.nt (Derives.seq (v := []) simple Derives.starNil)
  have value : Derives (.nt .Value_) [TokenKind.LParen, .IntVal, .IntVal, .RParen] :=
    Derives.nt (Derives.seq (v := []) inner Derives.starNil)
  have fielddef : Derives (.nt .FieldDef_)
      [TokenKind.Dag, .Id, .Equal, .LParen, .IntVal, .IntVal, .RParen, .Semi] :=
    Derives.nt <| Derives.altR <| Derives.seq (u := []) Derives.optNone <|
      Derives.seq (u := [TokenKind.Dag]) (Derives.altL (d_type .dag rfl)) <|
        Derives.seq (u := [TokenKind.Id]) d_identifier <|
          Derives.seq (u := [TokenKind.Equal, .LParen, .IntVal, .IntVal, .RParen])
            (Derives.optSome (d_tokSeq (List.mem_singleton.mpr rfl) value)) (d_tok1 _)
  have item : Derives (.nt .BodyItem_)
      [TokenKind.Dag, .Id, .Equal, .LParen, .IntVal, .IntVal, .RParen, .Semi] :=
    Derives.nt (Derives.altR (Derives.altL fielddef))
  have body : Derives (.nt .Body_)
      [TokenKind.LBrace, .Dag, .Id, .Equal, .LParen, .IntVal, .IntVal, .RParen, .Semi, .RBrace] :=
    Derives.nt <| Derives.altR <| d_tokSeq (List.mem_singleton.mpr rfl) <|
      Derives.seq (u := [TokenKind.Dag, .Id, .Equal, .LParen, .IntVal, .IntVal, .RParen, .Semi])
        (Derives.starCons (v := []) item Derives.starNil) (d_tok1 _)
  have rb : Derives (.nt .RecordBody_)
      [TokenKind.LBrace, .Dag, .Id, .Equal, .LParen, .IntVal, .IntVal, .RParen, .Semi, .RBrace] :=
    Derives.nt (Derives.seq (u := []) (d_parents []) body)
  have def_ : Derives (.nt .Def_)
      [TokenKind.Def, .Id, .LBrace, .Dag, .Id, .Equal, .LParen, .IntVal, .IntVal, .RParen, .Semi, .RBrace] :=
    Derives.nt <| d_tokSeq (List.mem_singleton.mpr rfl) <|
      Derives.seq (u := [TokenKind.Id]) (Derives.optSome (d_val_nm Frag.nlit)) rb
  have stmt : Derives (.nt .Statement_)
      [TokenKind.Def, .Id, .LBrace, .Dag, .Id, .Equal, .LParen, .IntVal, .IntVal, .RParen, .Semi, .RBrace] :=
    Derives.nt <| Derives.altR <| Derives.altR <| Derives.altR <| Derives.altL def_
  exact Derives.nt (Derives.nt (Derives.starCons (v := []) stmt Derives.starNil))

/-- … but the parser reports an error (it wants an identifier, `!cast`, `?` or `!getdagop` as
the dag operator) -/
theorem dagWitness_rejected :
    (match parse dagWitness with
     | .ok r => r.errors.isEmpty
     | _ => false) = false := by decide +kernel

/-- … and not because of the end of the text: no message is left in the token source -/
theorem dagWitness_clean : Src.endMessage dagWitness = none := by decide +kernel

/-- the forward direction at full strength is false of the current parser -/
theorem full_forward_false :
    ¬ (∀ input : List Char, Doc.Sentence (PState.init input).kinds → Src.endMessage input = none →
        ∃ r, parse input = .ok r ∧ r.errors = []) := by
  intro hall
  obtain ⟨r, hr, he⟩ := hall dagWitness dagWitness_sentence dagWitness_clean
  have := dagWitness_rejected
  rw [hr] at this
  simp [he] at this

/-- the same with the witness exhibited -/
theorem full_forward_counterexample :
    ∃ input : List Char, Doc.Sentence (PState.init input).kinds ∧ Src.endMessage input = none ∧
      ¬ ∃ r, parse input = .ok r ∧ r.errors = [] := by
  refine ⟨dagWitness, dagWitness_sentence, dagWitness_clean, ?_⟩
  rintro ⟨r, hr, he⟩
  have := dagWitness_rejected
  rw [hr] at this
  simp [he] at this

end C04L
end Tg
