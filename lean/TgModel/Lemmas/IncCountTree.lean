/-
`list_includes` of a parsed file returns at most as many entries as the text has characters:
the count of `Include` nodes on annotated trees, `descendants` finds at most that many, and the
transfer from the green tree (`IncCount.lean`).
-/
import TgModel.Lemmas.IncCount
import TgModel.Lemmas.ShapeTree
import TgModel.Ide.Workspace

namespace Tg
namespace Ide

/-- number of `Include` nodes of an annotated tree -/
def PTree.incs : PTree → Nat
  | .token _ _ _ _ => 0
  | .node k _ _ _ cs => (if k = .Include then 1 else 0) + (cs.toList.attach.map fun ⟨c, _⟩ => c.incs).sum
termination_by t => t
decreasing_by
  simp_wf
  rename_i h
  have := Array.sizeOf_lt_of_mem (Array.mem_toList_iff.mp h)
  omega

theorem PTree.incs_node (k : SyntaxKind) (s e h : Nat) (cs : Array PTree) :
    (PTree.node k s e h cs).incs = (if k = .Include then 1 else 0) + (cs.toList.map PTree.incs).sum := by
  rw [PTree.incs]
  congr 2
  apply List.ext_getElem
  · simp
  · intro i h1 h2
    simp

theorem PTree.incs_token (k : SyntaxKind) (s e : Nat) (t : String) : (PTree.token k s e t).incs = 0 := by
  rw [PTree.incs]

def incP (n : PTree) : Bool := n.kind == .Include

theorem foldl_range_size (F : Array Cursor → Nat → Array Cursor) (w : Nat → Nat)
    (hF : ∀ acc i, (F acc i).size ≤ acc.size + w i) (n : Nat) (acc : Array Cursor) :
    ((List.range n).foldl F acc).size ≤ acc.size + ((List.range n).map w).sum := by
  induction n with
  | zero => simp
  | succ n ih =>
    rw [List.range_succ, List.foldl_append, List.map_append, List.sum_append]
    simp only [List.foldl_cons, List.foldl_nil, List.map_cons, List.map_nil, List.sum_cons, List.sum_nil]
    have := hF ((List.range n).foldl F acc) n
    omega

/-- `descendants` finds at most the `Include` nodes there are -/
theorem descendantsGo_size : ∀ (fuel : Nat) (c : Cursor) (acc : Array Cursor),
    (descendantsGo incP fuel c acc).size ≤ acc.size + c.here.incs
  | 0, _, acc => by simp [descendantsGo]
  | fuel + 1, c, acc => by
    unfold descendantsGo
    simp only
    cases hh : c.here with
    | token k s e t =>
      simp [PTree.isNode, PTree.children]
    | node k s e h cs =>
      have hacc1 : (if (PTree.node k s e h cs).isNode && incP (PTree.node k s e h cs) then acc.push c else acc).size ≤
          acc.size + (if k = .Include then 1 else 0) := by
        simp only [PTree.isNode, incP, PTree.kind, Bool.true_and]
        split
        · rename_i hk; simp [beq_iff_eq.mp hk]
        · omega
      generalize (if (PTree.node k s e h cs).isNode && incP (PTree.node k s e h cs) then acc.push c else acc) = acc1
        at hacc1
      have hch : (PTree.node k s e h cs).children = cs := rfl
      rw [hch]
      refine Nat.le_trans (foldl_range_size _ (fun i => ((cs[i]?).map PTree.incs).getD 0) ?_ _ _) ?_
      · intro acc' i
        by_cases hi : i < cs.size
        · have hchild : c.child i = some ⟨cs[i], (c.here, i) :: c.up⟩ := by
            simp [Cursor.child, hh, PTree.children, Array.getElem?_eq_getElem hi]
          rw [hchild]
          simp only [Array.getElem?_eq_getElem hi, Option.map_some, Option.getD_some]
          split
          · exact descendantsGo_size fuel ⟨cs[i], (c.here, i) :: c.up⟩ acc'
          · omega
        · have hnone : c.child i = none := by
            simp [Cursor.child, hh, PTree.children, Array.getElem?_eq_none (Nat.le_of_not_lt hi)]
          rw [hnone]
          simp
      · rw [PTree.incs_node]
        have hsum : (List.range cs.size).map (fun i => ((cs[i]?).map PTree.incs).getD 0) = cs.toList.map PTree.incs := by
          apply List.ext_getElem
          · simp
          · intro i h1 h2
            have hi : i < cs.size := by simpa using h1
            simp [Array.getElem?_eq_getElem hi]
        rw [hsum]
        omega

theorem listIncludes_length (root : PTree) : (listIncludes root).length ≤ root.incs := by
  unfold listIncludes
  split
  · simp
  · rename_i sf hsf
    have hsf' : sf = root := by
      unfold Ast.sourceFileCast at hsf
      split at hsf
      · cases hsf; rfl
      · cases hsf
    subst hsf'
    refine Nat.le_trans (List.length_filterMap_le _ _) ?_
    have := descendantsGo_size (sf.height + 2) (Cursor.root sf) #[]
    simp only [Array.size_empty, Nat.zero_add] at this
    exact this

/-! ### transfer from the green tree -/

mutual
theorem incs_ofTreeAt : ∀ (t : Tree) (pos : Nat), (ofTreeAt t pos).1.incs = t.incs
  | .token k txt, pos => by simp [ofTreeAt, PTree.incs_token]
  | .node k cs, pos => by
    have hch := ofTreeAt_node_children k cs pos
    have hnode : ∃ s e h arr, (ofTreeAt (.node k cs) pos).1 = PTree.node k s e h arr := by
      simp only [ofTreeAt]; exact ⟨_, _, _, _, rfl⟩
    obtain ⟨s, e, h, arr, heq⟩ := hnode
    rw [heq] at hch ⊢
    rw [PTree.incs_node]
    simp only [PTree.children] at hch
    rw [hch, incs_annotL cs pos]
    simp
theorem incs_annotL : ∀ (ts : List Tree) (pos : Nat), ((annotL ts pos).map PTree.incs).sum = incsL ts
  | [], _ => by simp [annotL]
  | t :: ts, pos => by
    simp only [annotL, List.map_cons, List.sum_cons, incsL_cons]
    rw [incs_ofTreeAt t pos, incs_annotL ts]
end

/-- **a parsed file has at most as many include statements as characters** -/
theorem parseFile_includes {text : String} {t : PTree} {errs : List SynError}
    (h : parseFile text = .ok (t, errs)) : (listIncludes t).length ≤ text.toList.length := by
  unfold parseFile at h
  split at h
  · rename_i r hr
    cases h
    refine Nat.le_trans (listIncludes_length _) ?_
    show (ofTreeAt r.tree 0).1.incs ≤ _
    rw [incs_ofTreeAt]
    unfold Grammar.parse at hr
    split at hr
    · rename_i s hx
      split at hr
      · rename_i tr hcur hpar
        simp only [Grammar.ParseOut.ok.injEq] at hr
        subst hr
        have := source_file_incs text.toList hx
        rw [hcur] at this
        simpa using this
      · cases hr
    · cases hr
    · cases hr
  · cases h
  · cases h

end Ide
end Tg
