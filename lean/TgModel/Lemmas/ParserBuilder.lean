/-
The parser model never reaches a panic of the tree builder (`finish_node` without an open node,
stale / missing checkpoint, `finish` with other than one root).

`absStep` (ParserShape.lean) tracks the nodes and checkpoints a program has opened; under the
relation `Rel` between that abstract stack and the builder the checks of `finishNode` /
`startNodeAt` succeed.  `absStep_sound` covers the runs that end in a state; here the runs that end
in a panic are covered: the panic is not one of the builder's.
-/
import TgModel.Lemmas.ParserShape
import TgModel.Lemmas.ProgressSound

namespace Tg
open Tg.Ide

/-- the panics that are not the builder's -/
def ParserWhy (w : Why) : Prop := w = .errorTokenWithoutMessage ∨ w = .assertFailed

theorem ParserWhy.not_builder {w : Why} (h : ParserWhy w) : ¬ Progress.builderWhy w := by
  rcases h with rfl | rfl <;> simp [Progress.builderWhy]

/-! ### the token-moving primitives only panic in `save` -/

theorem PState.save_panic {s : PState} {w : Why} (h : s.save = .panic w) : w = .errorTokenWithoutMessage := by
  unfold PState.save at h
  split at h
  · split at h
    · cases h
    · cases h; rfl
  · cases h

theorem PState.skip_panic : ∀ (fuel : Nat) (s : PState) (w : Why), PState.skip fuel s = .panic w →
    w = .errorTokenWithoutMessage
  | 0, _, _, h => by simp [PState.skip] at h
  | fuel + 1, s, w, h => by
    unfold PState.skip at h
    split at h
    · split at h
      · exact PState.skip_panic fuel _ w h
      · rename_i hne
        exact PState.save_panic h
    · cases h

theorem PState.eat_panic {s : PState} {w : Why} (h : s.eat = .panic w) : w = .errorTokenWithoutMessage := by
  unfold PState.eat at h
  split at h
  · exact PState.skip_panic _ _ w h
  · exact PState.save_panic h

/-! ### the builder checks succeed under the relation -/

namespace SInv
variable {B : Base} {σ : List Item} {s : PState}

theorem finishNode_ok {k : SyntaxKind} (h : SInv B (.frame k :: σ) s) : ∃ s', s.finishNode = .ok s' := by
  have hrel := h.rel
  unfold PState.finishNode
  generalize s.b.parents = ps at hrel
  generalize s.b.cur = cur at hrel
  cases hrel with
  | frame hr hfr => exact ⟨_, rfl⟩

theorem startNodeAt_ok (h : SInv B (.cp :: σ) s) (k : SyntaxKind) :
    ∃ cp rest s', s.cps = cp :: rest ∧ s.startNodeAt cp k = .ok s' := by
  have hrel := h.rel
  generalize hps : s.b.parents = ps at hrel
  generalize hcur : s.b.cur = cur at hrel
  generalize hcps : s.cps = cps at hrel
  cases hrel with
  | @cp _ _ old added _ hr hadd hfc =>
    have hok : ∃ s', s.startNodeAt (ps.length, old.length) k = .ok s' := by
      unfold PState.startNodeAt
      simp only [hps, bne_self_eq_false, Bool.false_eq_true, if_false, hcur, List.length_append]
      have : ¬ (old.length > added.length + old.length) := by omega
      simp only [this, if_false]
      exact ⟨_, rfl⟩
    obtain ⟨s', hs'⟩ := hok
    exact ⟨_, _, s', rfl, hs'⟩

end SInv

/-! ### runs that end in a panic -/

/-- a program accepted by `absStep`, started in a state related to the abstract stack, does not
end in a builder panic -/
theorem absStep_panic (B : Base) (rc : List TokenKind) :
    ∀ (fuel : Nat) (p : Prog) (σ σ' τ : List Item) (s : PState) (w : Why), absStep p σ = some σ' →
      SInv B (σ ++ τ) s → exec Grammar.defs rc fuel p s = .panic w → ParserWhy w := by
  intro fuel
  induction fuel using Nat.strongRecOn with
  | _ fuel ih =>
    intro p σ σ' τ s w ha hi hx
    cases fuel with
    | zero => simp [exec] at hx
    | succ n =>
      have ihn : ∀ (p : Prog) (σ σ' τ : List Item) (s : PState) (w : Why), absStep p σ = some σ' →
          SInv B (σ ++ τ) s → exec Grammar.defs rc n p s = .panic w → ParserWhy w :=
        fun p σ σ' τ s w => ih n (Nat.lt_succ_self n) p σ σ' τ s w
      have snd : ∀ (p : Prog) (σ σ' τ : List Item) (s s' : PState), absStep p σ = some σ' →
          SInv B (σ ++ τ) s → exec Grammar.defs rc n p s = .ok s' → SInv B (σ' ++ τ) s' :=
        fun p σ σ' τ s s' => absStep_sound B rc n p σ σ' τ s s'
      have heat : ∀ {s : PState}, s.eat = .panic w → ParserWhy w := fun h => Or.inl (PState.eat_panic h)
      cases p with
      | nop => simp [exec] at hx
      | startNode k => simp [exec] at hx
      | finishNode =>
        simp only [exec] at hx
        simp only [absStep] at ha
        split at ha
        · obtain ⟨s', hs'⟩ := SInv.finishNode_ok hi
          rw [hs'] at hx; cases hx
        · cases ha
      | pushCp => simp [exec] at hx
      | popCp => simp [exec] at hx
      | startNodeAtCp k =>
        simp only [exec] at hx
        simp only [absStep] at ha
        split at ha
        · obtain ⟨cp, rest, s', hcps, hs'⟩ := SInv.startNodeAt_ok hi k
          rw [hcps] at hx
          simp only [hs'] at hx
          cases hx
        · cases ha
      | eat => simp only [exec] at hx; exact heat hx
      | skip => simp only [exec] at hx; exact Or.inl (PState.skip_panic _ _ _ hx)
      | eatIf k =>
        simp only [exec] at hx
        split at hx
        · split at hx
          · cases hx
          · exact heat hx
        · cases hx
      | expect k msg =>
        simp only [exec] at hx
        split at hx
        · exact heat hx
        · split at hx <;> cases hx
      | assertTok k =>
        simp only [exec] at hx
        split at hx
        · exact heat hx
        · cases hx; exact Or.inr rfl
      | error msg => simp [exec] at hx
      | errorAndEat msg =>
        simp only [exec] at hx
        simp only [absStep, Option.some.injEq] at ha; subst ha
        split at hx
        · rename_i s1 he
          have hi1 := ((hi.error msg).startNode (k := .Error) (by decide)).eat he
          obtain ⟨s', hs'⟩ := SInv.finishNode_ok hi1
          rw [hs'] at hx; cases hx
        · exact heat hx
      | errorAndRecover msg =>
        simp only [exec] at hx
        simp only [absStep, Option.some.injEq] at ha; subst ha
        split at hx
        · split at hx
          · rename_i s2 he
            have hi1 := ((hi.error msg).startNode (k := .Error) (by decide)).eat he
            obtain ⟨s', hs'⟩ := SInv.finishNode_ok hi1
            rw [hs'] at hx; cases hx
          · exact heat hx
        · cases hx
      | retB b => simp [exec] at hx
      | seq a b =>
        simp only [exec] at hx
        simp only [absStep, Option.bind_eq_some_iff] at ha
        obtain ⟨σ1, ha1, ha2⟩ := ha
        split at hx
        · rename_i s1 h1
          exact ihn b σ1 σ' τ s1 w ha2 (snd a σ σ1 τ s s1 ha1 hi h1) hx
        · exact ihn a σ σ1 τ s w ha1 hi hx
      | ifAt ks t e =>
        simp only [exec] at hx
        simp only [absStep] at ha
        split at ha
        · rename_i hbang
          split at ha
          · rename_i hcond
            simp only [Option.some.injEq] at ha; subst ha
            simp only [Bool.and_eq_true, decide_eq_true_eq] at hcond
            split at hx
            · rename_i hcur
              have hmem : s.cur ∈ Tables.bangOps := subsetK_mem hcond.1 hcur
              rw [isBangCall_eq hbang] at hx
              cases n with
              | zero => simp [exec] at hx
              | succ n1 =>
                simp only [exec, defs_bang] at hx
                cases n1 with
                | zero => simp [exec] at hx
                | succ n2 =>
                  simp only [exec] at hx
                  cases n2 with
                  | zero => simp [exec] at hx
                  | succ n3 =>
                    simp only [exec] at hx
                    have hc1 : Tables.bangOps.contains (s.startNode .BangOperator).cur = true := by
                      simpa [PState.startNode] using hmem
                    simp only [hc1, if_true] at hx
                    cases n3 with
                    | zero => simp [exec] at hx
                    | succ n4 =>
                      simp only [exec] at hx
                      cases n4 with
                      | zero => simp [exec] at hx
                      | succ n5 =>
                        simp only [exec] at hx
                        split at hx
                        · rename_i s2 he
                          obtain ⟨h1, h2, h3, ⟨tr, h4, h5⟩, h6⟩ := PState.eat_spec he
                          have hi2 : SInv B ([.frame .BangOperator] ++ (σ ++ τ)) s2 := by
                            refine ⟨h1, h6, ?_⟩
                            rw [h2, h3, h4]
                            simp only [PState.startNode, List.singleton_append]
                            refine Rel.frame hi.rel ⟨?_, ?_, ?_⟩
                            · exact cleanL_append.mpr ⟨cleanL_of_tokens h5, by simp⟩
                            · intro x hx'
                              simp only [List.reverse_append, List.reverse_cons, List.reverse_nil, List.nil_append,
                                List.singleton_append, firstTokL_cons, Tree.firstTok_token, Option.some.injEq] at hx'
                              subst hx'
                              rw [hi.plain]; exact hi.nt
                            · intro _
                              refine ⟨s.cur.toSyntax, ?_, bangOps_toSyntax _ hmem⟩
                              simp
                          exact ih (n5 + 1) (by omega) bangRest [.frame .BangOperator] [] (σ ++ τ) s2 w
                            bangRest_checked hi2 hx
                        · exact heat hx
            · exact ihn e σ σ τ s w hcond.2 hi hx
          · cases ha
        · obtain ⟨h1, h2⟩ := joinAbs_some ha
          split at hx
          · exact ihn t σ σ' τ s w h1 hi hx
          · exact ihn e σ σ' τ s w h2 hi hx
      | ifFlag t e =>
        simp only [exec] at hx
        simp only [absStep] at ha
        obtain ⟨h1, h2⟩ := joinAbs_some ha
        split at hx
        · exact ihn t σ σ' τ s w h1 hi hx
        · exact ihn e σ σ' τ s w h2 hi hx
      | loop c b =>
        simp only [exec] at hx
        simp only [absStep] at ha
        split at ha
        · rename_i hcond
          simp only [Bool.and_eq_true, decide_eq_true_eq] at hcond
          simp only [Option.some.injEq] at ha; subst ha
          split at hx
          · rename_i s1 h1
            have i1 := snd c σ σ τ s s1 hcond.1 hi h1
            split at hx
            · split at hx
              · rename_i s2 h2
                have i2 := snd b σ σ τ s1 s2 hcond.2 i1 h2
                have hloop : absStep (.loop c b) σ = some σ := by
                  simp [absStep, hcond.1, hcond.2]
                exact ihn (.loop c b) σ σ τ s2 w hloop i2 hx
              · exact ihn b σ σ τ s1 w hcond.2 i1 hx
            · cases hx
          · exact ihn c σ σ τ s w hcond.1 hi hx
        · cases ha
      | call f =>
        simp only [exec] at hx
        simp only [absStep] at ha
        split at ha
        · cases ha
        · rename_i hf
          simp only [Option.some.injEq] at ha; subst ha
          have hchk : absStep (Grammar.defs f) [] = some [] := by
            rcases defs_checked f (Fn.mem_all f) with h | h
            · exact absurd h hf
            · exact h
          exact ihn (Grammar.defs f) [] [] (σ ++ τ) s w hchk (by simpa using hi) hx
      | pushLocal => simp [exec] at hx
      | popLocal => simp [exec] at hx
      | setLocal => simp [exec] at hx
      | ifLocal t e =>
        simp only [exec] at hx
        simp only [absStep] at ha
        obtain ⟨h1, h2⟩ := joinAbs_some ha
        split at hx
        · exact ihn t σ σ' τ s w h1 hi hx
        · exact ihn e σ σ' τ s w h2 hi hx

/-! ### the top level -/

section InversionPanic
variable {defs : Defs} {rc : List TokenKind}

theorem exec_call_panic {fuel : Nat} {f : Fn} {s : PState} {w : Why} (h : exec defs rc fuel (.call f) s = .panic w) :
    ∃ n, fuel = n + 1 ∧ exec defs rc n (defs f) s = .panic w := by
  cases fuel with
  | zero => simp [exec] at h
  | succ n => exact ⟨n, rfl, by simpa [exec] using h⟩

theorem exec_seq_panic {fuel : Nat} {a b : Prog} {s : PState} {w : Why}
    (h : exec defs rc fuel (.seq a b) s = .panic w) :
    ∃ n, fuel = n + 1 ∧ (exec defs rc n a s = .panic w ∨
      ∃ s1, exec defs rc n a s = .ok s1 ∧ exec defs rc n b s1 = .panic w) := by
  cases fuel with
  | zero => simp [exec] at h
  | succ n =>
    simp only [exec] at h
    split at h
    · rename_i s1 h1
      exact ⟨n, rfl, Or.inr ⟨s1, h1, h⟩⟩
    · exact ⟨n, rfl, Or.inl h⟩

theorem exec_startNode_panic {fuel : Nat} {k : SyntaxKind} {s : PState} {w : Why} :
    exec defs rc fuel (.startNode k) s ≠ .panic w := by
  cases fuel <;> simp [exec]

theorem exec_finishNode_panic {fuel : Nat} {s : PState} {w : Why}
    (h : exec defs rc fuel .finishNode s = .panic w) : s.finishNode = .panic w := by
  cases fuel with
  | zero => simp [exec] at h
  | succ n => simpa [exec] using h

theorem exec_skip_panic {fuel : Nat} {s : PState} {w : Why}
    (h : exec defs rc fuel .skip s = .panic w) : w = .errorTokenWithoutMessage := by
  cases fuel with
  | zero => simp [exec] at h
  | succ n => simp only [exec] at h; exact PState.skip_panic _ _ _ h

theorem exec_ifAt_nop_error_panic {fuel : Nat} {ks : List TokenKind} {msg : String} {s : PState} {w : Why} :
    exec defs rc fuel (.ifAt ks .nop (.error msg)) s ≠ .panic w := by
  cases fuel with
  | zero => simp [exec]
  | succ n =>
    simp only [exec]
    split <;> cases n <;> simp [exec]

end InversionPanic

theorem finishNode_ok_of_parents {s : PState} {k : SyntaxKind} {sibs : List Tree}
    {ps : List (SyntaxKind × List Tree)} (hp : s.b.parents = (k, sibs) :: ps) : ∃ s', s.finishNode = .ok s' := by
  unfold PState.finishNode
  rw [hp]
  exact ⟨_, rfl⟩

/-- the state in which `statement_list_top` enters its loop (after the leading trivia): the two
nodes opened so far are the only open ones, and the invariant of `absStep_sound` holds relative to
what has been built -/
theorem top_loop_entry (input : List Char) {s3 : PState}
    (hskip : PState.skip (((PState.init input).startNode .SourceFile).startNode .StatementList).skipFuel
      (((PState.init input).startNode .SourceFile).startNode .StatementList) = .ok s3) :
    s3.b.parents = [(.StatementList, []), (.SourceFile, [])] ∧
    SInv ⟨s3.b.parents, s3.b.cur, s3.cps⟩ ([] ++ []) s3 := by
  obtain ⟨hnt, hp3, hc3, ⟨tr, hcur3, htr⟩, hpl⟩ := PState.skip_spec _ _ _ hskip
  have hb0 : (PState.init input).b = {} := by simp [PState.init]
  have hplain3 : plainK s3.cur := by
    apply hpl
    simpa [PState.startNode] using PState.init_plain input
  refine ⟨by rw [hp3]; simp [PState.startNode, hb0], hnt, hplain3, ?_⟩
  simpa using Rel.nil (B := ⟨s3.b.parents, s3.b.cur, s3.cps⟩) (new := []) (by simp)

/-- after the loop the same two nodes are open -/
theorem top_loop_exit {rc : List TokenKind} {n : Nat} {s3 s3' : PState}
    (hi3 : SInv ⟨s3.b.parents, s3.b.cur, s3.cps⟩ ([] ++ []) s3)
    (hloop : exec Grammar.defs rc n (Grammar.whileNotAt [] (.call .statement)) s3 = .ok s3') :
    s3'.b.parents = s3.b.parents := by
  have hi3' := absStep_sound _ _ _ _ [] [] [] s3 s3' whileStatements_checked hi3 hloop
  have hrel := hi3'.rel
  simp only [List.append_nil] at hrel
  generalize hps' : s3'.b.parents = ps' at hrel
  generalize s3'.b.cur = cur' at hrel
  generalize s3'.cps = cps' at hrel
  cases hrel with
  | nil hnew => rfl

/-- `statement_list_top` under the open `SourceFile` node: it closes what it opens, and does not
end in a builder panic -/
theorem statement_list_top_run (input : List Char) (rc : List TokenKind) (n : Nat) :
    (∀ s4, exec Grammar.defs rc n (.call .statement_list_top) ((PState.init input).startNode .SourceFile) = .ok s4 →
      s4.b.parents = [(.SourceFile, [])]) ∧
    (∀ w, exec Grammar.defs rc n (.call .statement_list_top) ((PState.init input).startNode .SourceFile) = .panic w →
      ParserWhy w) := by
  constructor
  · intro s4 hslt
    obtain ⟨n5, _, hslt⟩ := exec_call hslt
    rw [defs_statement_list_top] at hslt
    obtain ⟨n6, s2, _, h2, hslt⟩ := exec_seq hslt
    have hs2 := exec_startNode h2
    subst hs2
    obtain ⟨n7, s3, _, hskip, hslt⟩ := exec_seq hslt
    obtain ⟨n8, s3', _, hloop, hfin1⟩ := exec_seq hslt
    obtain ⟨hp3, hi3⟩ := top_loop_entry input (exec_skip hskip)
    have hp3' := (top_loop_exit hi3 hloop).trans hp3
    have hb4 := finishNode_builder hp3' (exec_finishNode hfin1)
    rw [hb4]
  · intro w hslt
    obtain ⟨n5, _, hslt⟩ := exec_call_panic hslt
    rw [defs_statement_list_top] at hslt
    obtain ⟨n6, _, hslt⟩ := exec_seq_panic hslt
    rcases hslt with hslt | ⟨s2, h2, hslt⟩
    · exact absurd hslt exec_startNode_panic
    have hs2 := exec_startNode h2
    subst hs2
    obtain ⟨n7, _, hslt⟩ := exec_seq_panic hslt
    rcases hslt with hslt | ⟨s3, hskip, hslt⟩
    · exact Or.inl (exec_skip_panic hslt)
    obtain ⟨hp3, hi3⟩ := top_loop_entry input (exec_skip hskip)
    obtain ⟨n8, _, hslt⟩ := exec_seq_panic hslt
    rcases hslt with hslt | ⟨s3', hloop, hslt⟩
    · exact absStep_panic _ _ _ _ [] [] [] s3 w whileStatements_checked hi3 hslt
    have hp3' := (top_loop_exit hi3 hloop).trans hp3
    obtain ⟨s', hs'⟩ := finishNode_ok_of_parents hp3'
    rw [exec_finishNode_panic hslt] at hs'
    cases hs'

/-- **the run of `source_file` from the initial state**: if it ends in a state, exactly one root
has been built and no node is open; if it ends in a panic, it is not a panic of the builder -/
theorem source_file_run (input : List Char) (rc : List TokenKind) (fuel : Nat) :
    (∀ s, exec Grammar.defs rc fuel (.call .source_file) (PState.init input) = .ok s →
      ∃ t, s.b.cur = [t] ∧ s.b.parents = []) ∧
    (∀ w, exec Grammar.defs rc fuel (.call .source_file) (PState.init input) = .panic w → ParserWhy w) := by
  have hb0 : (PState.init input).b = {} := by simp [PState.init]
  constructor
  · intro s hx
    obtain ⟨n1, _, hx⟩ := exec_call hx
    rw [defs_source_file] at hx
    obtain ⟨n2, s1, _, h1, hx⟩ := exec_seq hx
    have hs1 := exec_startNode h1
    subst hs1
    obtain ⟨n3, s4, _, hslt, hx⟩ := exec_seq hx
    obtain ⟨n4, s5, _, hif, hfin2⟩ := exec_seq hx
    have hp4 := (statement_list_top_run input rc n3).1 s4 hslt
    have hb5 : s5.b = s4.b := exec_ifAt_nop_error hif
    have hb6 := finishNode_builder (by rw [hb5]; exact hp4) (exec_finishNode hfin2)
    rw [hb6]
    exact ⟨_, rfl, rfl⟩
  · intro w hx
    obtain ⟨n1, _, hx⟩ := exec_call_panic hx
    rw [defs_source_file] at hx
    obtain ⟨n2, _, hx⟩ := exec_seq_panic hx
    rcases hx with hx | ⟨s1, h1, hx⟩
    · exact absurd hx exec_startNode_panic
    have hs1 := exec_startNode h1
    subst hs1
    obtain ⟨n3, _, hx⟩ := exec_seq_panic hx
    rcases hx with hx | ⟨s4, hslt, hx⟩
    · exact (statement_list_top_run input rc n3).2 w hx
    have hp4 := (statement_list_top_run input rc n3).1 s4 hslt
    obtain ⟨n4, _, hx⟩ := exec_seq_panic hx
    rcases hx with hx | ⟨s5, hif, hx⟩
    · exact absurd hx exec_ifAt_nop_error_panic
    have hb5 : s5.b = s4.b := exec_ifAt_nop_error hif
    obtain ⟨s', hs'⟩ := finishNode_ok_of_parents (s := s5) (by rw [hb5]; exact hp4)
    rw [exec_finishNode_panic hx] at hs'
    cases hs'

end Tg
