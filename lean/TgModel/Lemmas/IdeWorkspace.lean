/-
`buildWorkspace` produces well-formed workspaces: every tree is the annotated parse of a text
(`Spans`, offset 0), syntax errors are ranges of that text, resolved includes and the root name files
of the workspace.  The three facts that depend on the *grammar* (not only on the generic parser
machinery) are collected in `ParserShape`.
-/
import TgModel.Lemmas.IdeHandlers
import TgModel.Props.C01
import TgModel.Lemmas.ParserFinish

namespace Tg
namespace Ide

/-- what the indexer and the handlers assume about the shape of a file's tree -/
structure TreeShape (t : PTree) : Prop where
  bang : BangOK t
  trivia : TriviaOK t
  rootNode : t.isNode = true
  rootKind : t.kind = .SourceFile

/-- the grammar-specific facts about parser output: the root is a `SourceFile` node, a
`BangOperator` node starts with a bang-operator token, the nodes cut by `range_excluding_trivia`
do not start with trivia -/
def ParserShape : Prop :=
  ∀ (input : List Char) (r : Grammar.ParseResult), Grammar.parse input = .ok r → TreeShape (PTree.ofTree r.tree)

structure FileOK (info : FileInfo) : Prop where
  spans : ∃ txt, Spans info.tree txt ∧ info.tree.start = 0
  errs : ∀ e ∈ info.errors, ValidRange info.tree.chars e.start e.stop
  shape : TreeShape info.tree

def emptyTree : PTree := .node .SourceFile 0 0 1 #[]

theorem emptyTree_spans : Spans emptyTree [] := by
  have := Spans.node .SourceFile 0 0 1 #[] [] rfl (by intro i hi; simp at hi) (Tiles.nil 0) (by omega) (by simp)
  simpa [emptyTree] using this

theorem desc_emptyTree {t : PTree} (h : Desc emptyTree t) : t = emptyTree := by
  induction h with
  | refl => rfl
  | step _ hc ih =>
    subst ih
    simp [emptyTree, PTree.children] at hc

theorem emptyTree_shape : TreeShape emptyTree := by
  refine ⟨?_, ?_, rfl, rfl⟩
  · intro n hn _ hk
    rw [desc_emptyTree hn] at hk
    simp [emptyTree, PTree.kind] at hk
  · intro A hA _ hk
    rw [desc_emptyTree hA] at hk
    simp [emptyTree, PTree.kind, Tables.foldingKinds] at hk

theorem FileOK.empty (path : String) : FileOK { path := path, tree := emptyTree, errors := [] } :=
  ⟨⟨[], emptyTree_spans, rfl⟩, by intro e he; simp at he, emptyTree_shape⟩

theorem parseFile_ok (hp : ParserShape) {text : String} {tree : PTree} {errs : List SynError}
    (h : parseFile text = .ok (tree, errs)) (path : String) (im : List ((Nat × Nat) × Nat)) :
    FileOK { path := path, tree := tree, errors := errs, includeMap := im } ∧ tree.chars = text.toList := by
  unfold parseFile at h
  split at h
  · rename_i r hr
    simp only [Except.ok.injEq, Prod.mk.injEq] at h
    obtain ⟨rfl, rfl⟩ := h
    have htext : r.tree.text = text.toList := Tg.C01.parse_lossless _ _ hr
    have hsp := ofTree_spans r.tree
    have hchars : (PTree.ofTree r.tree).chars = text.toList := by rw [ofTree_chars, htext]
    refine ⟨⟨⟨r.tree.text, hsp.1, hsp.2⟩, ?_, hp _ _ hr⟩, hchars⟩
    intro e he
    simp only at he ⊢
    rw [hchars]
    -- the errors of the final parser state are ranges of pieces of the input
    unfold Grammar.parse at hr
    split at hr
    · rename_i s hx
      have hinv := inv_exec Grammar.defs Tables.recoverTokens text.toList _ _ _ s (PState.inv_init _) hx
      have herr := PState.finish_errs hinv (source_file_ends_at_eof Tables.recoverTokens _ _ s hx)
      split at hr
      · simp only [Grammar.ParseOut.ok.injEq] at hr
        subst hr
        simp only [List.mem_reverse] at he
        obtain ⟨pre, mid, post, h1, h2, h3⟩ := herr e he
        exact ⟨by omega, pre, mid, post, h1, h2, h3⟩
      · cases hr
    · cases hr
    · cases hr
  · cases h
  · cases h


/-! ### the collection loop -/

structure CInv (c : Collect) : Prop where
  contents : c.contents.size = c.paths.size
  infos : c.infos.size = c.paths.size
  queue : ∀ f ∈ c.queue, f < c.paths.size
  fileSet : ∀ f ∈ c.fileSet.toList, f < c.paths.size
  files : ∀ (i : Nat) (info : FileInfo), c.infos[i]? = some (some info) →
    FileOK info ∧ ∀ e ∈ info.includeMap, e.2 < c.paths.size

theorem assignOrGetFileId_ok {c : Collect} (h : CInv c) (p : String) :
    CInv (c.assignOrGetFileId p).2 ∧ (c.assignOrGetFileId p).1 < (c.assignOrGetFileId p).2.paths.size ∧
    c.paths.size ≤ (c.assignOrGetFileId p).2.paths.size ∧
    (c.assignOrGetFileId p).2.queue = c.queue ∧ (c.assignOrGetFileId p).2.fileSet = c.fileSet := by
  unfold Collect.assignOrGetFileId
  split
  · rename_i id hid
    exact ⟨h, (Array.findIdx?_eq_some_iff_getElem.mp hid).1, Nat.le_refl _, rfl, rfl⟩
  · refine ⟨⟨by simp [h.contents], by simp [h.infos], ?_, ?_, ?_⟩, by simp, by simp, rfl, rfl⟩
    · intro f hf
      have := h.queue f hf
      simp only [Array.size_push]; omega
    · intro f hf
      have := h.fileSet f hf
      simp only [Array.size_push]; omega
    · intro i info hi
      simp only [Array.getElem?_push] at hi
      split at hi
      · cases hi
      · obtain ⟨h1, h2⟩ := h.files i info hi
        refine ⟨h1, fun e he => ?_⟩
        have := h2 e he
        simp only [Array.size_push]; omega

theorem resolveIncludeFile_ok (includePath : String) : ∀ (dirs : List String) {c : Collect}, CInv c →
    CInv (c.resolveIncludeFile includePath dirs).2 ∧
    c.paths.size ≤ (c.resolveIncludeFile includePath dirs).2.paths.size ∧
    (c.resolveIncludeFile includePath dirs).2.queue = c.queue ∧
    (c.resolveIncludeFile includePath dirs).2.fileSet = c.fileSet ∧
    ∀ id, (c.resolveIncludeFile includePath dirs).1 = some id →
      id < (c.resolveIncludeFile includePath dirs).2.paths.size
  | [], c, h => by
    simp only [Collect.resolveIncludeFile]
    exact ⟨h, Nat.le_refl _, trivial, trivial, by intro _ hh; cases hh⟩
  | dir :: dirs, c, h => by
    simp only [Collect.resolveIncludeFile]
    split
    · rename_i content _
      obtain ⟨h1, h2, h3, h4, h5⟩ := assignOrGetFileId_ok h (Path.join dir includePath)
      generalize c.assignOrGetFileId (Path.join dir includePath) = res at h1 h2 h3 h4 h5
      obtain ⟨id, c'⟩ := res
      simp only at h1 h2 h3 h4 h5 ⊢
      refine ⟨⟨by simp [h1.contents], h1.infos, h1.queue, h1.fileSet, h1.files⟩, h3, h4, h5, ?_⟩
      · intro id' hid'
        cases hid'
        exact h2
    · exact resolveIncludeFile_ok includePath dirs h


/-- resolving the includes of one file; `g` is the step function of the fold in `collectLoop` -/
theorem resolveIncludes_ok (dirs : List String)
    (g : Collect × List ((Nat × Nat) × Nat) → (Nat × Nat) × String → Collect × List ((Nat × Nat) × Nat))
    (hg : ∀ st inc,
      (∃ id c', st.1.resolveIncludeFile inc.2 dirs = (some id, c') ∧
        g st inc = ({ c' with queue := c'.queue ++ [id] }, st.2 ++ [(inc.1, id)])) ∨
      (∃ c', st.1.resolveIncludeFile inc.2 dirs = (none, c') ∧ g st inc = (c', st.2))) :
    ∀ (incs : List ((Nat × Nat) × String))
    (st : Collect × List ((Nat × Nat) × Nat)), CInv st.1 → (∀ e ∈ st.2, e.2 < st.1.paths.size) →
    CInv (incs.foldl g st).1 ∧ (∀ e ∈ (incs.foldl g st).2, e.2 < (incs.foldl g st).1.paths.size) ∧
      st.1.paths.size ≤ (incs.foldl g st).1.paths.size
  | [], st, h, hm => ⟨h, hm, Nat.le_refl _⟩
  | inc :: incs, st, h, hm => by
    simp only [List.foldl_cons]
    obtain ⟨h1, h2, h3, h4, h5⟩ := resolveIncludeFile_ok inc.2 dirs h
    rcases hg st inc with ⟨id, c', hr, hgs⟩ | ⟨c', hr, hgs⟩
    · rw [hr] at h1 h2 h3 h4 h5
      simp only at h1 h2 h3 h4 h5
      rw [hgs]
      have hid := h5 id rfl
      have hc : CInv { c' with queue := c'.queue ++ [id] } := by
        refine ⟨h1.contents, h1.infos, ?_, h1.fileSet, h1.files⟩
        intro f hf
        simp only [List.mem_append, List.mem_singleton] at hf
        rcases hf with hf | rfl
        · exact h1.queue f hf
        · exact hid
      have ih := resolveIncludes_ok dirs g hg incs ({ c' with queue := c'.queue ++ [id] }, st.2 ++ [(inc.1, id)]) hc
        (by
          intro e he
          simp only [List.mem_append, List.mem_singleton] at he
          rcases he with he | rfl
          · exact Nat.lt_of_lt_of_le (hm e he) h2
          · exact hid)
      exact ⟨ih.1, ih.2.1, Nat.le_trans h2 ih.2.2⟩
    · rw [hr] at h1 h2 h3 h4 h5
      simp only at h1 h2 h3 h4 h5
      rw [hgs]
      have ih := resolveIncludes_ok dirs g hg incs (c', st.2) h1 (fun e he => Nat.lt_of_lt_of_le (hm e he) h2)
      exact ⟨ih.1, ih.2.1, Nat.le_trans h2 ih.2.2⟩

theorem CInv.setInfo {c3 : Collect} (h3 : CInv c3) (fileId : Nat) {info : FileInfo} (hfile : FileOK info)
    (hm : ∀ e ∈ info.includeMap, e.2 < c3.paths.size) :
    CInv { c3 with infos := c3.infos.set! fileId (some info) } := by
  refine ⟨h3.contents, by simp [h3.infos], h3.queue, h3.fileSet, ?_⟩
  intro i info' hi
  simp only [Array.set!_eq_setIfInBounds, Array.getElem?_setIfInBounds] at hi
  split at hi
  · split at hi
    · simp only [Option.some.injEq] at hi
      subst hi
      exact ⟨hfile, hm⟩
    · cases hi
  · exact h3.files i info' hi

theorem collectLoop_ok (hp : ParserShape) (includeDir : Option String) : ∀ (fuel : Nat) (c c' : Collect),
    CInv c → collectLoop includeDir fuel c = .ok c' → CInv c' ∧ c.paths.size ≤ c'.paths.size
  | 0, _, _, _, h => by simp [collectLoop] at h
  | fuel + 1, c, c', hc, h => by
    unfold collectLoop at h
    split at h
    · cases h; exact ⟨hc, Nat.le_refl _⟩
    · rename_i fileId queue hq
      have hfid : fileId < c.paths.size := hc.queue fileId (by rw [hq]; simp)
      have hc1 : CInv { c with queue := queue } :=
        ⟨hc.contents, hc.infos, fun f hf => hc.queue f (by rw [hq]; simp [hf]), hc.fileSet, hc.files⟩
      simp only at h
      split at h
      · exact collectLoop_ok hp includeDir fuel { c with queue := queue } c' hc1 h
      · split at h
        · cases h
        · rename_i tree errors hparse
          have hc2 : CInv { c with queue := queue, fileSet := c.fileSet.push fileId } := by
            refine ⟨hc.contents, hc.infos, hc1.queue, ?_, hc.files⟩
            intro f hf
            simp only [Array.toList_push, List.mem_append, List.mem_singleton] at hf
            rcases hf with hf | rfl
            · exact hc.fileSet f hf
            · exact hfid
          exact (fun hres =>
              (fun (X : CInv c' ∧ _) => ⟨X.1, Nat.le_trans hres.2.2 X.2⟩)
                (collectLoop_ok hp includeDir fuel _ c'
                  (CInv.setInfo hres.1 fileId (parseFile_ok hp hparse _ _).1 hres.2.1) h))
            (resolveIncludes_ok
              _ _
              (by
                intro st inc
                split
                · rename_i id c'' heq
                  exact Or.inl ⟨id, c'', heq, rfl⟩
                · rename_i c'' heq
                  exact Or.inr ⟨c'', heq, rfl⟩)
              (listIncludes tree)
              ({ c with queue := queue, fileSet := c.fileSet.push fileId }, []) hc2 (by intro e he; cases he))


/-! ### `buildWorkspace` -/

/-- a workspace all of whose files are well-formed, with valid include targets, root and file set -/
theorem wf_of_files {ws : Workspace} (hroot : ws.root < ws.files.size)
    (hfiles : ∀ f (h : f < ws.files.size), FileOK ws.files[f] ∧ ∀ e ∈ ws.files[f].includeMap, e.2 < ws.files.size)
    (hset : ∀ f ∈ ws.fileSet, f < ws.files.size) :
    ws.WF ∧ Index.Workspace.RootOK ws ∧ ∀ f, TriviaOK (ws.tree f) := by
  refine ⟨⟨hroot, fun f h => (hfiles f h).1.spans, fun f h => (hfiles f h).2, fun f h => (hfiles f h).1.shape.bang,
    fun f h => (hfiles f h).1.errs, hset⟩, ?_, ?_⟩
  · rw [Index.Workspace.RootOK_iff, ws.tree_of_lt hroot]
    exact ⟨(hfiles _ hroot).1.shape.rootNode, (hfiles _ hroot).1.shape.rootKind⟩
  · intro f
    by_cases hf : f < ws.files.size
    · rw [ws.tree_of_lt hf]; exact (hfiles f hf).1.shape.trivia
    · have : ws.files[f]? = none := by simp; omega
      simp only [Workspace.tree, this]
      exact emptyTree_shape.trivia

theorem buildWorkspace_wf (hp : ParserShape) {vfs : List (String × String)} {rootPath : String}
    {includeDir : Option String} {ws : Workspace} (h : buildWorkspace vfs rootPath includeDir = .ok ws) :
    ws.WF ∧ Index.Workspace.RootOK ws ∧ ∀ f, TriviaOK (ws.tree f) := by
  unfold buildWorkspace at h
  simp only at h
  have h0 : CInv ({ vfs := vfs } : Collect) := by
    refine ⟨rfl, rfl, ?_, ?_, ?_⟩
    · intro f hf; cases hf
    · intro f hf; simp at hf
    · intro i info hi; simp at hi
  obtain ⟨h1, hr1, _, hq1, _⟩ := assignOrGetFileId_ok h0 rootPath
  generalize ({ vfs := vfs } : Collect).assignOrGetFileId rootPath = res at h h1 hr1 hq1
  obtain ⟨root, c1⟩ := res
  simp only at h h1 hr1 hq1
  split at h
  · cases h
  · rename_i c hloop
    simp only [Except.ok.injEq] at h
    have hc1' : CInv ({ c1 with
        contents := c1.contents.set! root ((c1.readContent rootPath).getD "")
        queue := [root] } : Collect) := by
      refine ⟨(by simp [h1.contents]), h1.infos, ?_, h1.fileSet, h1.files⟩
      intro f hf
      simp only [List.mem_singleton] at hf
      subst hf
      exact hr1
    obtain ⟨hc, hsz⟩ := collectLoop_ok hp includeDir _ _ c hc1' hloop
    subst h
    refine wf_of_files ?_ ?_ ?_
    · show root < (Array.mapIdx _ c.infos).size
      rw [Array.size_mapIdx, hc.infos]
      exact Nat.lt_of_lt_of_le hr1 hsz
    · intro f hf
      have hfi : f < c.infos.size := by simpa [Array.size_mapIdx] using hf
      have hsz' : ∀ g : Nat → Option FileInfo → FileInfo, (Array.mapIdx g c.infos).size = c.paths.size :=
        fun g => by rw [Array.size_mapIdx, hc.infos]
      simp only [hsz', Array.getElem_mapIdx]
      cases ho : c.infos[f] with
      | none => exact ⟨FileOK.empty _, by intro e he; simp at he⟩
      | some info => exact hc.files f info (by rw [Array.getElem?_eq_getElem hfi, ho])
    · intro f hf
      show f < (Array.mapIdx _ c.infos).size
      rw [Array.size_mapIdx, hc.infos]
      exact hc.fileSet f hf

end Ide
end Tg
