/- Proofs about the SymbolMap model (position map invariants under arbitrary operation logs). -/
import TgModel.SymbolMap

namespace Tg
namespace SymbolMap

/-- all position registrations an operation log performs, in order: (location, symbol id).
`define` of the k-th allocated symbol registers (loc, k); anonymous definitions register nothing. -/
def registrations : List Op → Nat → List (Loc × Nat)
  | [], _ => []
  | .define _ loc :: t, k => (loc, k) :: registrations t (k + 1)
  | .defineAnon _ _ :: t, k => registrations t (k + 1)
  | .reference s loc :: t, k => (loc, s) :: registrations t k

/-- reference registrations only -/
def refRegistrations : List Op → List (Loc × Nat)
  | [] => []
  | .reference s loc :: t => (loc, s) :: refRegistrations t
  | _ :: t => refRegistrations t

/-- every reference names an already allocated symbol (the real code panics otherwise) -/
def RefsValid : List Op → Nat → Prop
  | [], _ => True
  | .define _ _ :: t, k => RefsValid t (k + 1)
  | .defineAnon _ _ :: t, k => RefsValid t (k + 1)
  | .reference s _ :: t, k => s < k ∧ RefsValid t k

/-- registered non-empty locations of one file are equal or disjoint (they are token ranges) -/
def DisjointLocs (ops : List Op) : Prop :=
  ∀ a ∈ registrations ops 0, ∀ b ∈ registrations ops 0, a.1.file = b.1.file →
    a.1.isEmpty = false → b.1.isEmpty = false →
    a.1 = b.1 ∨ a.1.stop ≤ b.1.start ∨ b.1.stop ≤ a.1.start

/-- once a location has been registered as a *reference* of symbol `s`, no later operation
registers the same location for a different symbol -/
def RefStable (ops : List Op) : Prop :=
  ∀ (pre post : List Op) (s : Nat) (loc : Loc), ops = pre ++ Op.reference s loc :: post →
    ∀ e ∈ registrations post (registrations.count pre), e.1 = loc → e.2 = s
where registrations.count : List Op → Nat
  | [] => 0
  | .reference _ _ :: t => registrations.count t
  | _ :: t => registrations.count t + 1

/-- the text under every registered location is the symbol's name -/
def TextOk (txt : Loc → List Char) (ops : List Op) : Prop :=
  (∀ name loc, Op.define name loc ∈ ops → txt loc = name) ∧
  (∀ s loc, Op.reference s loc ∈ ops → ∃ S, (run ops).syms[s]? = some S ∧ txt loc = S.name)

/-- the allocating operations, in order (index = symbol id) -/
def allocs : List Op → List Op
  | [] => []
  | .reference _ _ :: t => allocs t
  | op :: t => op :: allocs t

/-- only named (non-anonymous) symbols are ever referenced -/
def NamedRefs (ops : List Op) : Prop :=
  ∀ s loc, Op.reference s loc ∈ ops → ∃ name l, (allocs ops)[s]? = some (Op.define name l)

/-! ### helper lemmas -/

theorem mem_insertPos_self (pos : List (Loc × Nat)) (l : Loc) (s : Nat) :
    (l, s) ∈ insertPos pos l s := by
  induction pos with
  | nil => simp [insertPos]
  | cons h t ih =>
    obtain ⟨l', s'⟩ := h
    simp only [insertPos]
    split
    · simp
    · simp [ih]

theorem mem_insertPos_of_ne (pos : List (Loc × Nat)) (l : Loc) (s : Nat) (e : Loc × Nat)
    (h : e ∈ pos) (hne : e.1 ≠ l) : e ∈ insertPos pos l s := by
  induction pos with
  | nil => cases h
  | cons x t ih =>
    obtain ⟨l', s'⟩ := x
    simp only [insertPos]
    rcases List.mem_cons.1 h with h | h
    · subst h
      rw [if_neg hne]
      simp
    · split
      · exact List.mem_cons_of_mem _ h
      · exact List.mem_cons_of_mem _ (ih h)

theorem mem_of_mem_insertPos (pos : List (Loc × Nat)) (l : Loc) (s : Nat) (e : Loc × Nat)
    (h : e ∈ insertPos pos l s) : e = (l, s) ∨ e ∈ pos := by
  induction pos with
  | nil => simp [insertPos] at h; exact Or.inl h
  | cons x t ih =>
    obtain ⟨l', s'⟩ := x
    simp only [insertPos] at h
    split at h
    · rcases List.mem_cons.1 h with h | h
      · exact Or.inl h
      · exact Or.inr (List.mem_cons_of_mem _ h)
    · rcases List.mem_cons.1 h with h | h
      · exact Or.inr (by rw [h]; exact List.mem_cons_self)
      · rcases ih h with h | h
        · exact Or.inl h
        · exact Or.inr (List.mem_cons_of_mem _ h)

theorem key_of_mem_insertPos (pos : List (Loc × Nat)) (l : Loc) (s : Nat) (k : Loc)
    (h : k ∈ (insertPos pos l s).map (·.1)) : k = l ∨ k ∈ pos.map (·.1) := by
  rcases List.mem_map.1 h with ⟨e, he, rfl⟩
  rcases mem_of_mem_insertPos pos l s e he with h | h
  · left; rw [h]
  · right; exact List.mem_map.2 ⟨e, h, rfl⟩

theorem nodup_insertPos (pos : List (Loc × Nat)) (l : Loc) (s : Nat)
    (h : (pos.map (·.1)).Nodup) : ((insertPos pos l s).map (·.1)).Nodup := by
  induction pos with
  | nil => simp [insertPos]
  | cons x t ih =>
    obtain ⟨l', s'⟩ := x
    simp only [List.map_cons, List.nodup_cons] at h
    simp only [insertPos]
    split
    · rename_i heq
      subst heq
      simp only [List.map_cons, List.nodup_cons]
      exact h
    · rename_i hne
      simp only [List.map_cons, List.nodup_cons]
      refine ⟨?_, ih h.2⟩
      intro hk
      rcases key_of_mem_insertPos t l s l' hk with hk | hk
      · exact hne hk
      · exact h.1 hk

theorem eq_of_nodup_keys (pos : List (Loc × Nat)) (h : (pos.map (·.1)).Nodup)
    (a b : Loc × Nat) (ha : a ∈ pos) (hb : b ∈ pos) (hab : a.1 = b.1) : a = b := by
  induction pos with
  | nil => cases ha
  | cons x t ih =>
    simp only [List.map_cons, List.nodup_cons] at h
    rcases List.mem_cons.1 ha with ha' | ha'
    · rcases List.mem_cons.1 hb with hb' | hb'
      · rw [ha', hb']
      · subst ha'
        exact absurd (List.mem_map.2 ⟨b, hb', hab.symm⟩ : a.1 ∈ t.map (·.1)) h.1
    · rcases List.mem_cons.1 hb with hb' | hb'
      · subst hb'
        exact absurd (List.mem_map.2 ⟨a, ha', hab⟩ : b.1 ∈ t.map (·.1)) h.1
      · exact ih h.2 ha' hb'

theorem length_addRef (syms : List Sym) (s : Nat) (l : Loc) :
    (addRef syms s l).length = syms.length := by
  induction syms generalizing s with
  | nil => simp [addRef]
  | cons x t ih =>
    cases s with
    | zero => simp [addRef]
    | succ n => simp [addRef, ih]

theorem getElem?_addRef (syms : List Sym) (s : Nat) (l : Loc) (i : Nat) :
    (addRef syms s l)[i]? =
      (syms[i]?).map (fun x => if i = s then { x with refs := x.refs ++ [l] } else x) := by
  induction syms generalizing s i with
  | nil => simp [addRef]
  | cons x t ih =>
    cases s with
    | zero =>
      cases i with
      | zero => simp [addRef]
      | succ j => simp [addRef]
    | succ n =>
      cases i with
      | zero => simp [addRef]
      | succ j => simp [addRef, ih]

theorem addPos_syms (st : State) (l : Loc) (s : Nat) : (addPos st l s).syms = st.syms := by
  unfold addPos
  split <;> rfl

theorem step_syms_length (st : State) (op : Op) :
    (step st op).syms.length = st.syms.length + (match op with | .reference _ _ => 0 | _ => 1) := by
  cases op with
  | define name loc => simp [step, addPos_syms]
  | defineAnon name loc => simp [step]
  | reference s loc =>
    simp only [step]
    split
    · simp [addPos_syms, length_addRef]
    · simp

/-- a symbol keeps its name and definition, its references only grow -/
def Ext (S0 S : Sym) : Prop := S.name = S0.name ∧ S.define = S0.define ∧ ∀ r ∈ S0.refs, r ∈ S.refs

theorem Ext.refl (S : Sym) : Ext S S := ⟨rfl, rfl, fun _ h => h⟩

theorem Ext.trans {A B C : Sym} (h1 : Ext A B) (h2 : Ext B C) : Ext A C :=
  ⟨h2.1.trans h1.1, h2.2.1.trans h1.2.1, fun r hr => h2.2.2 r (h1.2.2 r hr)⟩

theorem step_stable (st : State) (op : Op) (i : Nat) (S0 : Sym) (h : st.syms[i]? = some S0) :
    ∃ S, (step st op).syms[i]? = some S ∧ Ext S0 S := by
  have hi : i < st.syms.length := by
    rcases Nat.lt_or_ge i st.syms.length with hlt | hge
    · exact hlt
    · rw [List.getElem?_eq_none hge] at h; cases h
  cases op with
  | define name loc =>
    refine ⟨S0, ?_, Ext.refl _⟩
    simp only [step, addPos_syms]
    rw [List.getElem?_append_left hi]; exact h
  | defineAnon name loc =>
    refine ⟨S0, ?_, Ext.refl _⟩
    simp only [step]
    rw [List.getElem?_append_left hi]; exact h
  | reference s loc =>
    simp only [step]
    split
    · simp only [addPos_syms, getElem?_addRef, h, Option.map_some]
      refine ⟨_, rfl, ?_⟩
      split
      · exact ⟨rfl, rfl, fun r hr => List.mem_append_left _ hr⟩
      · exact Ext.refl _
    · exact ⟨S0, h, Ext.refl _⟩

theorem foldl_stable (ops : List Op) (st : State) (i : Nat) (S0 : Sym) (h : st.syms[i]? = some S0) :
    ∃ S, (ops.foldl step st).syms[i]? = some S ∧ Ext S0 S := by
  induction ops generalizing st S0 with
  | nil => exact ⟨S0, h, Ext.refl _⟩
  | cons op t ih =>
    obtain ⟨S1, h1, e1⟩ := step_stable st op i S0 h
    obtain ⟨S2, h2, e2⟩ := ih (step st op) S1 h1
    exact ⟨S2, h2, e1.trans e2⟩

theorem run_split (pre post : List Op) (op : Op) :
    run (pre ++ op :: post) = post.foldl step (step (run pre) op) := by
  simp [run, List.foldl_append]

theorem addPos_pos_mem (st : State) (l : Loc) (s : Nat) (e : Loc × Nat)
    (h : e ∈ (addPos st l s).pos) : e ∈ st.pos ∨ (e = (l, s) ∧ l.isEmpty = false) := by
  unfold addPos at h
  split at h
  · exact Or.inl h
  · rename_i hne
    rcases mem_of_mem_insertPos _ _ _ _ h with h | h
    · exact Or.inr ⟨h, by simpa using hne⟩
    · exact Or.inl h

theorem addPos_nodup (st : State) (l : Loc) (s : Nat) (h : (st.pos.map (·.1)).Nodup) :
    ((addPos st l s).pos.map (·.1)).Nodup := by
  unfold addPos
  split
  · exact h
  · exact nodup_insertPos _ _ _ h

theorem step_pos_cases (st : State) (op : Op) (e : Loc × Nat) (h : e ∈ (step st op).pos) :
    e ∈ st.pos ∨
      (∃ name, op = .define name e.1 ∧ e.2 = st.syms.length ∧ e.1.isEmpty = false) ∨
      (op = .reference e.2 e.1 ∧ e.2 < st.syms.length ∧ e.1.isEmpty = false) := by
  cases op with
  | define name loc =>
    simp only [step] at h
    rcases addPos_pos_mem _ _ _ _ h with h | ⟨h, hne⟩
    · exact Or.inl h
    · subst h; exact Or.inr (Or.inl ⟨name, rfl, rfl, hne⟩)
  | defineAnon name loc => exact Or.inl h
  | reference s loc =>
    simp only [step] at h
    split at h
    · rename_i hlt
      rcases addPos_pos_mem _ _ _ _ h with h | ⟨h, hne⟩
      · exact Or.inl h
      · subst h; exact Or.inr (Or.inr ⟨rfl, hlt, hne⟩)
    · exact Or.inl h

theorem step_nodup (st : State) (op : Op) (h : (st.pos.map (·.1)).Nodup) :
    ((step st op).pos.map (·.1)).Nodup := by
  cases op with
  | define name loc => exact addPos_nodup _ _ _ h
  | defineAnon name loc => exact h
  | reference s loc =>
    simp only [step]
    split
    · exact addPos_nodup _ _ _ h
    · exact h

theorem step_define_sym (st : State) (name : List Char) (loc : Loc) :
    (step st (.define name loc)).syms[st.syms.length]? = some { name := name, define := loc } := by
  simp [step, addPos_syms]

theorem step_reference_sym (st : State) (s : Nat) (loc : Loc) (h : s < st.syms.length) :
    ∃ x, st.syms[s]? = some x ∧
      (step st (.reference s loc)).syms[s]? = some { x with refs := x.refs ++ [loc] } := by
  refine ⟨st.syms[s], List.getElem?_eq_getElem h, ?_⟩
  simp only [step, if_pos h, addPos_syms, getElem?_addRef, List.getElem?_eq_getElem h,
    Option.map_some, if_true]

/-- invariant behind `pos_inv` -/
def PosInv (st : State) : Prop :=
  ∀ e ∈ st.pos, ∃ S, st.syms[e.2]? = some S ∧ (e.1 = S.define ∨ e.1 ∈ S.refs)

theorem step_posInv (st : State) (op : Op) (h : PosInv st) : PosInv (step st op) := by
  intro e he
  rcases step_pos_cases st op e he with hold | ⟨name, hop, hk, _⟩ | ⟨hop, hlt, _⟩
  · obtain ⟨S, hS, hor⟩ := h e hold
    obtain ⟨S', hS', hext⟩ := step_stable st op e.2 S hS
    refine ⟨S', hS', ?_⟩
    rcases hor with hd | hr
    · left; rw [hext.2.1]; exact hd
    · right; exact hext.2.2 _ hr
  · subst hop
    rw [hk]
    exact ⟨_, step_define_sym st name e.1, Or.inl rfl⟩
  · subst hop
    obtain ⟨x, _, hx⟩ := step_reference_sym st e.2 e.1 hlt
    exact ⟨_, hx, Or.inr (by simp)⟩

theorem foldl_posInv (ops : List Op) (st : State) (h : PosInv st) : PosInv (ops.foldl step st) := by
  induction ops generalizing st with
  | nil => exact h
  | cons op t ih => exact ih _ (step_posInv st op h)

theorem foldl_wellformed (ops : List Op) (st : State)
    (h : (∀ e ∈ st.pos, e.1.isEmpty = false) ∧ (st.pos.map (·.1)).Nodup) :
    (∀ e ∈ (ops.foldl step st).pos, e.1.isEmpty = false) ∧
      ((ops.foldl step st).pos.map (·.1)).Nodup := by
  induction ops generalizing st with
  | nil => exact h
  | cons op t ih =>
    refine ih _ ⟨?_, step_nodup st op h.2⟩
    intro e he
    rcases step_pos_cases st op e he with hold | ⟨_, _, _, hne⟩ | ⟨_, _, hne⟩
    · exact h.1 e hold
    · exact hne
    · exact hne

theorem foldl_registered (ops : List Op) (st : State) (e : Loc × Nat)
    (h : e ∈ (ops.foldl step st).pos) : e ∈ st.pos ∨ e ∈ registrations ops st.syms.length := by
  induction ops generalizing st with
  | nil => exact Or.inl h
  | cons op t ih =>
    have hlen := step_syms_length st op
    rcases ih (step st op) h with h1 | h1
    · rcases step_pos_cases st op e h1 with hold | ⟨name, hop, hk, _⟩ | ⟨hop, _, _⟩
      · exact Or.inl hold
      · subst hop
        right
        simp only [registrations, ← hk]
        exact List.mem_cons_self
      · subst hop
        right
        simp only [registrations]
        exact List.mem_cons_self
    · right
      cases op with
      | define name loc =>
        simp only [registrations]
        rw [hlen] at h1
        exact List.mem_cons_of_mem _ h1
      | defineAnon name loc =>
        simp only [registrations]
        rw [hlen] at h1
        exact h1
      | reference s loc =>
        simp only [registrations]
        rw [hlen] at h1
        exact List.mem_cons_of_mem _ h1

/-- where an entry of the position map comes from -/
theorem pos_origin (ops : List Op) (st : State) (e : Loc × Nat)
    (h : e ∈ (ops.foldl step st).pos) :
    e ∈ st.pos ∨
      (∃ pre name post, ops = pre ++ Op.define name e.1 :: post ∧
        e.2 = (pre.foldl step st).syms.length) ∨
      (∃ pre post, ops = pre ++ Op.reference e.2 e.1 :: post ∧
        e.2 < (pre.foldl step st).syms.length) := by
  induction ops generalizing st with
  | nil => exact Or.inl h
  | cons op t ih =>
    rcases ih (step st op) h with h1 | ⟨pre, name, post, ht, hk⟩ | ⟨pre, post, ht, hk⟩
    · rcases step_pos_cases st op e h1 with hold | ⟨name, hop, hk, _⟩ | ⟨hop, hlt, _⟩
      · exact Or.inl hold
      · exact Or.inr (Or.inl ⟨[], name, t, by rw [hop]; rfl, hk⟩)
      · exact Or.inr (Or.inr ⟨[], t, by rw [hop]; rfl, hlt⟩)
    · exact Or.inr (Or.inl ⟨op :: pre, name, post, by rw [ht]; rfl, hk⟩)
    · exact Or.inr (Or.inr ⟨op :: pre, post, by rw [ht]; rfl, hk⟩)

/-- where a reference of a symbol comes from -/
theorem refs_origin (ops : List Op) (st : State) (s : Nat) (S : Sym) (r : Loc)
    (h : (ops.foldl step st).syms[s]? = some S) (hr : r ∈ S.refs) :
    (∃ S0, st.syms[s]? = some S0 ∧ r ∈ S0.refs) ∨
      (∃ pre post, ops = pre ++ Op.reference s r :: post ∧
        s < (pre.foldl step st).syms.length) := by
  induction ops generalizing st with
  | nil => exact Or.inl ⟨S, h, hr⟩
  | cons op t ih =>
    rcases ih (step st op) h with ⟨S1, h1, hr1⟩ | ⟨pre, post, ht, hk⟩
    · cases op with
      | define name loc =>
        simp only [step, addPos_syms] at h1
        rcases Nat.lt_or_ge s st.syms.length with hlt | hge
        · rw [List.getElem?_append_left hlt] at h1
          exact Or.inl ⟨S1, h1, hr1⟩
        · rw [List.getElem?_append_right hge] at h1
          cases hs : s - st.syms.length with
          | zero =>
            rw [hs] at h1
            simp only [List.getElem?_cons_zero, Option.some.injEq] at h1
            subst h1
            cases hr1
          | succ n => rw [hs] at h1; simp at h1
      | defineAnon name loc =>
        simp only [step] at h1
        rcases Nat.lt_or_ge s st.syms.length with hlt | hge
        · rw [List.getElem?_append_left hlt] at h1
          exact Or.inl ⟨S1, h1, hr1⟩
        · rw [List.getElem?_append_right hge] at h1
          cases hs : s - st.syms.length with
          | zero =>
            rw [hs] at h1
            simp only [List.getElem?_cons_zero, Option.some.injEq] at h1
            subst h1
            cases hr1
          | succ n => rw [hs] at h1; simp at h1
      | reference s' loc =>
        simp only [step] at h1
        split at h1
        · rename_i hlt
          simp only [addPos_syms, getElem?_addRef] at h1
          cases hx : st.syms[s]? with
          | none => rw [hx] at h1; simp at h1
          | some x =>
            rw [hx] at h1
            simp only [Option.map_some, Option.some.injEq] at h1
            split at h1
            · rename_i heq
              subst heq
              subst h1
              simp only [List.mem_append, List.mem_singleton] at hr1
              rcases hr1 with hr1 | hr1
              · exact Or.inl ⟨x, rfl, hr1⟩
              · subst hr1
                exact Or.inr ⟨[], t, rfl, hlt⟩
            · subst h1
              exact Or.inl ⟨x, rfl, hr1⟩
        · exact Or.inl ⟨S1, h1, hr1⟩
    · exact Or.inr ⟨op :: pre, post, by rw [ht]; rfl, hk⟩

theorem addPos_keep (st : State) (l : Loc) (s' : Nat) (r : Loc) (s : Nat)
    (h : (r, s) ∈ st.pos) (hreg : l = r → s' = s) : (r, s) ∈ (addPos st l s').pos := by
  unfold addPos
  split
  · exact h
  · by_cases hl : l = r
    · subst hl
      rw [hreg rfl]
      exact mem_insertPos_self _ _ _
    · exact mem_insertPos_of_ne _ _ _ _ h (fun h' => hl h'.symm)

theorem foldl_keep (post : List Op) (st : State) (r : Loc) (s : Nat) (h : (r, s) ∈ st.pos)
    (hreg : ∀ e ∈ registrations post st.syms.length, e.1 = r → e.2 = s) :
    (r, s) ∈ (post.foldl step st).pos := by
  induction post generalizing st with
  | nil => exact h
  | cons op t ih =>
    have hlen := step_syms_length st op
    cases op with
    | define name loc =>
      simp only [registrations] at hreg
      refine ih (step st (.define name loc)) ?_ ?_
      · exact addPos_keep _ _ _ _ _ h (fun hl => hreg (loc, st.syms.length) List.mem_cons_self hl)
      · rw [hlen]
        intro e he
        exact hreg e (List.mem_cons_of_mem _ he)
    | defineAnon name loc =>
      simp only [registrations] at hreg
      refine ih (step st (.defineAnon name loc)) h ?_
      rw [hlen]
      exact hreg
    | reference s' loc =>
      simp only [registrations] at hreg
      refine ih (step st (.reference s' loc)) ?_ ?_
      · simp only [step]
        split
        · exact addPos_keep _ _ _ _ _ h (fun hl => hreg (loc, s') List.mem_cons_self hl)
        · exact h
      · rw [hlen]
        intro e he
        exact hreg e (List.mem_cons_of_mem _ he)

theorem foldl_syms_length (pre : List Op) (st : State) :
    (pre.foldl step st).syms.length = st.syms.length + RefStable.registrations.count pre := by
  induction pre generalizing st with
  | nil => simp [RefStable.registrations.count]
  | cons op t ih =>
    simp only [List.foldl_cons]
    rw [ih, step_syms_length]
    cases op <;> simp only [RefStable.registrations.count] <;> omega

theorem run_syms_length (pre : List Op) :
    (run pre).syms.length = RefStable.registrations.count pre := by
  have := foldl_syms_length pre {}
  simpa [run] using this

/-! ### point lookup -/

/-- the step function of `lookup` -/
def pick (file p : Nat) (best : Option (Loc × Nat)) (e : Loc × Nat) : Option (Loc × Nat) :=
  if overlaps e.1 file p then
    match best with
    | none => some e
    | some b => if before b.1 e.1 then some b else some e
  else best

theorem lookup_eq (pos : List (Loc × Nat)) (file p : Nat) :
    lookup pos file p = pos.foldl (pick file p) none := rfl

theorem pick_cases (file p : Nat) (b : Option (Loc × Nat)) (e : Loc × Nat) :
    pick file p b e = b ∨ (pick file p b e = some e ∧ overlaps e.1 file p = true) := by
  unfold pick
  split
  · rename_i ho
    cases b with
    | none => exact Or.inr ⟨rfl, ho⟩
    | some b =>
      simp only
      split
      · exact Or.inl rfl
      · exact Or.inr ⟨rfl, ho⟩
  · exact Or.inl rfl

theorem pick_isSome_of_isSome (file p : Nat) (b : Option (Loc × Nat)) (e : Loc × Nat)
    (h : b.isSome = true) : (pick file p b e).isSome = true := by
  rcases pick_cases file p b e with h1 | ⟨h1, _⟩
  · rw [h1]; exact h
  · rw [h1]; rfl

theorem pick_isSome_of_overlaps (file p : Nat) (b : Option (Loc × Nat)) (e : Loc × Nat)
    (h : overlaps e.1 file p = true) : (pick file p b e).isSome = true := by
  unfold pick
  rw [if_pos h]
  cases b with
  | none => rfl
  | some b =>
    simp only
    split <;> rfl

theorem foldl_pick_mem (file p : Nat) (l : List (Loc × Nat)) (b : Option (Loc × Nat))
    (r : Loc × Nat) (h : l.foldl (pick file p) b = some r) :
    b = some r ∨ (r ∈ l ∧ overlaps r.1 file p = true) := by
  induction l generalizing b with
  | nil => exact Or.inl h
  | cons x t ih =>
    simp only [List.foldl_cons] at h
    rcases ih _ h with h1 | ⟨h1, h2⟩
    · rcases pick_cases file p b x with h3 | ⟨h3, h4⟩
      · left; rw [← h3]; exact h1
      · right
        rw [h3] at h1
        cases h1
        exact ⟨List.mem_cons_self, h4⟩
    · exact Or.inr ⟨List.mem_cons_of_mem _ h1, h2⟩

theorem foldl_pick_isSome_of_isSome (file p : Nat) (l : List (Loc × Nat))
    (b : Option (Loc × Nat)) (h : b.isSome = true) : (l.foldl (pick file p) b).isSome = true := by
  induction l generalizing b with
  | nil => exact h
  | cons x t ih => exact ih _ (pick_isSome_of_isSome file p b x h)

theorem foldl_pick_isSome_of_mem (file p : Nat) (l : List (Loc × Nat))
    (b : Option (Loc × Nat)) (e : Loc × Nat) (he : e ∈ l) (ho : overlaps e.1 file p = true) :
    (l.foldl (pick file p) b).isSome = true := by
  induction l generalizing b with
  | nil => cases he
  | cons x t ih =>
    simp only [List.foldl_cons]
    rcases List.mem_cons.1 he with he | he
    · subst he
      exact foldl_pick_isSome_of_isSome file p t _ (pick_isSome_of_overlaps file p b e ho)
    · exact ih _ he

/-! ### symbols of allocating operations -/

theorem define_sym_final (pre post : List Op) (name : List Char) (l : Loc) :
    ∃ S, (run (pre ++ Op.define name l :: post)).syms[(run pre).syms.length]? = some S ∧
      S.name = name ∧ S.define = l := by
  rw [run_split]
  obtain ⟨S, hS, hext⟩ := foldl_stable post _ _ _ (step_define_sym (run pre) name l)
  exact ⟨S, hS, hext.1, hext.2.1⟩

theorem allocs_mem (ops : List Op) (k : Nat) (op : Op) (h : (allocs ops)[k]? = some op) :
    op ∈ ops := by
  induction ops generalizing k with
  | nil => simp [allocs] at h
  | cons x t ih =>
    cases x with
    | define n' l' =>
      simp only [allocs] at h
      cases k with
      | zero =>
        simp only [List.getElem?_cons_zero, Option.some.injEq] at h
        rw [← h]; exact List.mem_cons_self
      | succ k =>
        simp only [List.getElem?_cons_succ] at h
        exact List.mem_cons_of_mem _ (ih k h)
    | defineAnon n' l' =>
      simp only [allocs] at h
      cases k with
      | zero =>
        simp only [List.getElem?_cons_zero, Option.some.injEq] at h
        rw [← h]; exact List.mem_cons_self
      | succ k =>
        simp only [List.getElem?_cons_succ] at h
        exact List.mem_cons_of_mem _ (ih k h)
    | reference s' l' =>
      simp only [allocs] at h
      exact List.mem_cons_of_mem _ (ih k h)

theorem allocs_sym (ops : List Op) (st : State) (k : Nat) (name : List Char) (l : Loc)
    (h : (allocs ops)[k]? = some (Op.define name l)) :
    ∃ S, (ops.foldl step st).syms[st.syms.length + k]? = some S ∧ S.name = name ∧ S.define = l := by
  induction ops generalizing st k with
  | nil => simp [allocs] at h
  | cons x t ih =>
    have hlen := step_syms_length st x
    cases x with
    | define n' l' =>
      simp only [allocs] at h
      cases k with
      | zero =>
        simp only [List.getElem?_cons_zero, Option.some.injEq, Op.define.injEq] at h
        obtain ⟨hn, hl⟩ := h
        subst hn; subst hl
        obtain ⟨S, hS, hext⟩ := foldl_stable t _ _ _ (step_define_sym st n' l')
        exact ⟨S, hS, hext.1, hext.2.1⟩
      | succ k =>
        simp only [List.getElem?_cons_succ] at h
        obtain ⟨S, hS, hh⟩ := ih (step st (.define n' l')) k h
        rw [hlen] at hS
        refine ⟨S, ?_, hh⟩
        rw [show st.syms.length + (k + 1) = st.syms.length + 1 + k by omega]
        exact hS
    | defineAnon n' l' =>
      simp only [allocs] at h
      cases k with
      | zero =>
        simp only [List.getElem?_cons_zero, Option.some.injEq] at h
        cases h
      | succ k =>
        simp only [List.getElem?_cons_succ] at h
        obtain ⟨S, hS, hh⟩ := ih (step st (.defineAnon n' l')) k h
        rw [hlen] at hS
        refine ⟨S, ?_, hh⟩
        rw [show st.syms.length + (k + 1) = st.syms.length + 1 + k by omega]
        exact hS
    | reference s' l' =>
      simp only [allocs] at h
      obtain ⟨S, hS, hh⟩ := ih (step st (.reference s' l')) k h
      rw [hlen] at hS
      exact ⟨S, hS, hh⟩

/-! ### the main theorems -/

/-- (unconditional) every entry of the position map points at a symbol that lists the entry's
location as its definition or as one of its references -/
theorem pos_inv (ops : List Op) :
    ∀ e ∈ (run ops).pos, ∃ S, (run ops).syms[e.2]? = some S ∧ (e.1 = S.define ∨ e.1 ∈ S.refs) := by
  have h : PosInv (run ops) := foldl_posInv ops {} (by intro e he; cases he)
  exact h

/-- (unconditional) the position map never holds an empty interval and never two entries with
the same interval -/
theorem pos_wellformed (ops : List Op) :
    (∀ e ∈ (run ops).pos, e.1.isEmpty = false) ∧ ((run ops).pos.map (·.1)).Nodup := by
  exact foldl_wellformed ops {} ⟨(by intro e he; cases he), List.nodup_nil⟩

/-- every entry of the position map was registered -/
theorem pos_registered (ops : List Op) : ∀ e ∈ (run ops).pos, e ∈ registrations ops 0 := by
  intro e he
  rcases foldl_registered ops {} e he with h | h
  · cases h
  · exact h

/-- under `RefStable`, every non-empty reference location of a symbol that is still visible in the
position map maps back to that very symbol -/
theorem refs_point_back (ops : List Op) (hv : RefsValid ops 0) (hs : RefStable ops) :
    ∀ (s : Nat) (S : Sym), (run ops).syms[s]? = some S → ∀ r ∈ S.refs, r.isEmpty = false →
      (r, s) ∈ (run ops).pos := by
  intro s S hS r hr hne
  have _ := hv
  rcases refs_origin ops {} s S r hS hr with ⟨S0, h0, _⟩ | ⟨pre, post, hops, hlt⟩
  · simp at h0
  · have hreg := hs pre post s r hops
    have hlt' : s < (run pre).syms.length := hlt
    rw [hops, run_split]
    apply foldl_keep
    · simp only [step, if_pos hlt']
      unfold addPos
      rw [hne]
      exact mem_insertPos_self _ _ _
    · rw [step_syms_length, run_syms_length]
      exact hreg

theorem overlap_unique (ops : List Op) (hd : DisjointLocs ops) (file p : Nat) (a b : Loc × Nat)
    (ha : a ∈ (run ops).pos) (hb : b ∈ (run ops).pos)
    (hoa : overlaps a.1 file p = true) (hob : overlaps b.1 file p = true) : a = b := by
  obtain ⟨hne, hnd⟩ := pos_wellformed ops
  have hra := pos_registered ops a ha
  have hrb := pos_registered ops b hb
  simp only [overlaps, Bool.and_eq_true, beq_iff_eq, decide_eq_true_eq] at hoa hob
  have hfile : a.1.file = b.1.file := by rw [hoa.1.1, hob.1.1]
  rcases hd a hra b hrb hfile (hne a ha) (hne b hb) with h | h | h
  · exact eq_of_nodup_keys _ hnd a b ha hb h
  · omega
  · omega

/-- with equal-or-disjoint intervals a point lookup returns the unique entry containing the point -/
theorem lookup_unique (ops : List Op) (hd : DisjointLocs ops) (file p : Nat) (e : Loc × Nat)
    (h : lookup (run ops).pos file p = some e) :
    e ∈ (run ops).pos ∧ overlaps e.1 file p = true ∧
      ∀ e' ∈ (run ops).pos, overlaps e'.1 file p = true → e' = e := by
  rw [lookup_eq] at h
  rcases foldl_pick_mem file p _ _ e h with h1 | ⟨h1, h2⟩
  · cases h1
  · exact ⟨h1, h2, fun e' he' ho' => overlap_unique ops hd file p e' e he' h1 ho' h2⟩

theorem lookup_of_mem (ops : List Op) (hd : DisjointLocs ops) (file p : Nat) (e : Loc × Nat)
    (hm : e ∈ (run ops).pos) (ho : overlaps e.1 file p = true) : lookup (run ops).pos file p = some e := by
  have hsome := foldl_pick_isSome_of_mem file p (run ops).pos none e hm ho
  rw [← lookup_eq] at hsome
  cases hl : lookup (run ops).pos file p with
  | none => rw [hl] at hsome; cases hsome
  | some r =>
    obtain ⟨h1, h2, _⟩ := lookup_unique ops hd file p r hl
    rw [overlap_unique ops hd file p r e h1 hm h2 ho]

theorem refs_text (txt : Loc → List Char) (ops : List Op) (ht : TextOk txt ops) (s : Nat) (S : Sym)
    (hS : (run ops).syms[s]? = some S) : ∀ r ∈ S.refs, txt r = S.name := by
  intro r hr
  rcases refs_origin ops {} s S r hS hr with ⟨S0, h0, _⟩ | ⟨pre, post, hops, _⟩
  · simp at h0
  · obtain ⟨S', hS', ht'⟩ := ht.2 s r (by rw [hops]; simp)
    rw [hS] at hS'
    cases hS'
    exact ht'

/-- names under registered locations -/
theorem names_ok (txt : Loc → List Char) (ops : List Op) (ht : TextOk txt ops) :
    ∀ e ∈ (run ops).pos, ∃ S, (run ops).syms[e.2]? = some S ∧ txt e.1 = S.name ∧
      (∀ r ∈ S.refs, txt r = S.name) := by
  intro e he
  rcases pos_origin ops {} e he with h0 | ⟨pre, name, post, hops, hk⟩ | ⟨pre, post, hops, _⟩
  · cases h0
  · have hk' : e.2 = (run pre).syms.length := hk
    obtain ⟨S, hS, hn, _⟩ := define_sym_final pre post name e.1
    rw [← hops, ← hk'] at hS
    refine ⟨S, hS, ?_, refs_text txt ops ht e.2 S hS⟩
    rw [hn]
    exact ht.1 name e.1 (by rw [hops]; simp)
  · obtain ⟨S, hS, htx⟩ := ht.2 e.2 e.1 (by rw [hops]; simp)
    exact ⟨S, hS, htx, refs_text txt ops ht e.2 S hS⟩

/-- the text under the definition location of every symbol visible in the position map is its name -/
theorem define_text (txt : Loc → List Char) (ops : List Op) (ht : TextOk txt ops) (hn : NamedRefs ops) :
    ∀ e ∈ (run ops).pos, ∃ S, (run ops).syms[e.2]? = some S ∧ txt S.define = S.name := by
  intro e he
  rcases pos_origin ops {} e he with h0 | ⟨pre, name, post, hops, hk⟩ | ⟨pre, post, hops, _⟩
  · cases h0
  · have hk' : e.2 = (run pre).syms.length := hk
    obtain ⟨S, hS, hn', hd'⟩ := define_sym_final pre post name e.1
    rw [← hops, ← hk'] at hS
    refine ⟨S, hS, ?_⟩
    rw [hn', hd']
    exact ht.1 name e.1 (by rw [hops]; simp)
  · obtain ⟨name, l, hal⟩ := hn e.2 e.1 (by rw [hops]; simp)
    obtain ⟨S, hS, hn', hd'⟩ := allocs_sym ops {} e.2 name l hal
    have hS' : (run ops).syms[e.2]? = some S := by
      simpa [run] using hS
    refine ⟨S, hS', ?_⟩
    rw [hn', hd']
    exact ht.1 name l (allocs_mem ops e.2 _ hal)

end SymbolMap
end Tg
