/-
A quantitative refinement of `check_sound` for the WORK of a run, not its depth: the number of
`PState.steps` (bumped by every `lex` and every `start_node` / `start_node_at`, what the Rust hook
counts) is linear in the input consumed.

Accounting.  `pc p` bounds what a primitive costs beyond one step per unit of progress.  For a
function `g`, `Z g` bounds the cost of a run of `g` that consumes nothing (in such a run only calls
to lower ranks happen: `zb`), and `ob` bounds the fixed overhead of a program fragment whatever it
consumes (a loop counts its condition twice and its body once: every further iteration pays for
itself).  Every unit of progress is worth 500 steps.  A run of `g` that consumes input stays below
`500 * progress` by a *rebate* of `(7 - rank g) * 62`: the caller uses it to pay its own fixed
overhead (at most 62 per function, `hO`) and hands the rest up; since a call before any consumption
in the caller goes to a strictly lower rank (`Progress.check`), the rebate shrinks by 62 per level
and never runs out (`rank ≤ 6`).  A continuing loop iteration consumes, so it carries a rebate of
at least 62, which pays for the iteration's fixed overhead (`loopsOk`).

`ν` is the measure of progress: anything that never decreases, increases whenever input is
consumed, and pays for the primitives (`hprim`); instantiated with the number of consumed characters.
-/
import TgModel.Lemmas.ProgressBound

namespace Tg
namespace Progress

/-- fixed cost of a primitive (beyond one step per unit of progress) -/
def pc : Prog → Nat
  | .startNode _ => 1
  | .startNodeAtCp _ => 1
  | .eat => 1
  | .eatIf _ => 1
  | .expect _ _ => 1
  | .assertTok _ => 1
  | .errorAndEat _ => 2
  | .errorAndRecover _ => 2
  | _ => 0

/-- bound on the steps of a run of `p` inside `self` that consumes nothing since `self` was entered:
only calls to lower ranks happen, a loop evaluates its condition once -/
def zb (ranks : Ranks) (Z : Fn → Nat) (self : Fn) : Prog → Nat
  | .seq a b => zb ranks Z self a + zb ranks Z self b
  | .ifAt _ t e => max (zb ranks Z self t) (zb ranks Z self e)
  | .ifFlag t e => max (zb ranks Z self t) (zb ranks Z self e)
  | .ifLocal t e => max (zb ranks Z self t) (zb ranks Z self e)
  | .loop c _ => zb ranks Z self c
  | .call g => if ranks g < ranks self then Z g else 0
  | p => pc p

/-- fixed overhead of a run of `p`, whatever it consumes -/
def ob (Z : Fn → Nat) : Prog → Nat
  | .seq a b => ob Z a + ob Z b
  | .ifAt _ t e => max (ob Z t) (ob Z e)
  | .ifFlag t e => max (ob Z t) (ob Z e)
  | .ifLocal t e => max (ob Z t) (ob Z e)
  | .loop c b => 2 * ob Z c + ob Z b
  | .call g => Z g
  | p => pc p

/-- one iteration of every loop has fixed overhead at most 62 -/
def loopsOk (Z : Fn → Nat) : Prog → Bool
  | .seq a b => loopsOk Z a && loopsOk Z b
  | .ifAt _ t e => loopsOk Z t && loopsOk Z e
  | .ifFlag t e => loopsOk Z t && loopsOk Z e
  | .ifLocal t e => loopsOk Z t && loopsOk Z e
  | .loop c b => loopsOk Z c && loopsOk Z b && decide (ob Z c + ob Z b ≤ 62)
  | _ => true

/-- the table `Z`, by iteration over the ranks -/
def Zn (defs : Defs) (ranks : Ranks) : Nat → Fn → Nat
  | 0, _ => 0
  | n+1, f => zb ranks (Zn defs ranks n) f (defs f)

theorem zb_prim (ranks : Ranks) (Z : Fn → Nat) (self : Fn) {p : Prog} (hp : isPrim p = true) :
    zb ranks Z self p = pc p := by
  cases p <;> first | (simp [isPrim] at hp; done) | rfl

theorem ob_prim (Z : Fn → Nat) {p : Prog} (hp : isPrim p = true) : ob Z p = pc p := by
  cases p <;> first | (simp [isPrim] at hp; done) | rfl

theorem zb_le_ob (ranks : Ranks) (Z : Fn → Nat) (self : Fn) (p : Prog) : zb ranks Z self p ≤ ob Z p := by
  induction p with
  | seq a b iha ihb => simp only [zb, ob]; omega
  | ifAt ks t e iht ihe => simp only [zb, ob]; omega
  | ifFlag t e iht ihe => simp only [zb, ob]; omega
  | ifLocal t e iht ihe => simp only [zb, ob]; omega
  | loop c b ihc ihb => simp only [zb, ob]; omega
  | call g => simp only [zb, ob]; split <;> omega
  | _ => exact Nat.le_refl _

/-! ### the primitives: steps against consumed characters -/

theorem save_steps {s s1 : PState} (h : s.save = .ok s1) : s1.steps = s.steps := by
  unfold PState.save at h
  split at h
  · split at h
    · simp only [Res.ok.injEq] at h; subst h; rfl
    · cases h
  · simp only [Res.ok.injEq] at h; subst h; rfl

theorem lex_steps (s : PState) : s.lex.steps = s.steps + 1 := rfl

/-- `skip`: one `lex` per trivia token, each at least one character long -/
theorem skip_steps {input} (fuel : Nat) {s s' : PState} (h : Inv input s) (hs : PState.skip fuel s = .ok s') :
    s'.steps + mu s' ≤ s.steps + mu s := by
  induction fuel generalizing s with
  | zero => simp [PState.skip] at hs
  | succ n ih =>
    simp only [PState.skip] at hs
    split at hs
    · rename_i htr
      split at hs
      · rename_i s1 hs1
        have hne : s.cur ≠ .Eof := by intro he; rw [he] at htr; exact absurd htr (by decide)
        have hpos : 0 < s.curText.length := List.length_pos_iff.mpr (h.ne hne)
        obtain ⟨hm, _⟩ := mu_save_lex h hs1
        have := ih (PState.inv_save_lex h hs1) hs
        rw [lex_steps, save_steps hs1, hm] at this
        unfold mu at this ⊢
        omega
      · rename_i hne; exact (hne _ hs).elim
    · simp only [Res.ok.injEq] at hs; subst hs; exact Nat.le_refl _

/-- `eat`: one `lex` for the look-ahead token, one per trivia token skipped -/
theorem eat_steps {input} {s s' : PState} (h : Inv input s) (hs : s.eat = .ok s') :
    s'.steps + mu s' ≤ s.steps + 1 + mu s := by
  unfold PState.eat at hs
  split at hs
  · rename_i s1 hs1
    obtain ⟨hm, _⟩ := mu_save_lex h hs1
    have := skip_steps _ (PState.inv_save_lex h hs1) hs
    rw [lex_steps, save_steps hs1, hm] at this
    unfold mu at this ⊢
    omega
  · rename_i hne; exact (hne _ hs).elim

theorem finishNode_steps {s s' : PState} (h : s.finishNode = .ok s') : s'.steps = s.steps := by
  unfold PState.finishNode at h
  split at h
  · cases h
  · simp only [Res.ok.injEq] at h; subst h; rfl

theorem startNodeAt_steps {s s' : PState} {cp : Nat × Nat} {k : SyntaxKind} (h : s.startNodeAt cp k = .ok s') :
    s'.steps = s.steps + 1 := by
  unfold PState.startNodeAt at h
  split at h
  · cases h
  · split at h
    · cases h
    · simp only [Res.ok.injEq] at h; subst h; rfl

variable (defs : Defs) (rc : List TokenKind)

/-- every primitive: its steps are paid by `pc` and the characters it consumes -/
theorem prim_steps (input : List Char) {p : Prog} (hp : isPrim p = true) (n : Nat) (s s' : PState)
    (hi : Inv input s) (h : exec defs rc n p s = .ok s') : s'.steps + mu s' ≤ s.steps + pc p + mu s := by
  cases n with
  | zero => simp [exec] at h
  | succ n =>
    cases p with
    | nop => simp only [exec, Res.ok.injEq] at h; subst h; simp [pc]
    | startNode k => simp only [exec, Res.ok.injEq] at h; subst h; simp [pc, PState.startNode, mu]
    | finishNode =>
      simp only [exec] at h
      rw [finishNode_steps h, mu_finishNode h]; simp [pc]
    | pushCp => simp only [exec, Res.ok.injEq] at h; subst h; simp [pc, mu]
    | popCp => simp only [exec, Res.ok.injEq] at h; subst h; simp [pc, mu]
    | startNodeAtCp k =>
      simp only [exec] at h
      split at h
      · rw [startNodeAt_steps h, mu_startNodeAt h]; simp [pc]
      · cases h
    | eat => simp only [exec] at h; have := eat_steps hi h; simp only [pc]; omega
    | skip => simp only [exec] at h; have := skip_steps _ hi h; simp only [pc]; omega
    | eatIf k =>
      simp only [exec] at h
      split at h
      · split at h
        · rename_i s1 he
          simp only [Res.ok.injEq] at h; subst h
          have := eat_steps hi he
          simp only [pc]
          show s1.steps + mu s1 ≤ _
          omega
        · rename_i hne; first | exact (hne _ h).elim | cases h
      · simp only [Res.ok.injEq] at h; subst h; simp [pc, mu]
    | expect k msg =>
      simp only [exec] at h
      split at h
      · have := eat_steps hi h; simp only [pc]; omega
      · split at h
        · simp only [Res.ok.injEq] at h; subst h; simp [pc]
        · simp only [Res.ok.injEq] at h; subst h; simp [pc, PState.error, mu]
    | assertTok k =>
      simp only [exec] at h
      split at h
      · have := eat_steps hi h; simp only [pc]; omega
      · cases h
    | error msg => simp only [exec, Res.ok.injEq] at h; subst h; simp [pc, PState.error, mu]
    | errorAndEat msg =>
      simp only [exec] at h
      split at h
      · rename_i s1 he
        have h1 := eat_steps (PState.inv_startNode (PState.inv_error hi msg) .Error) he
        have h2 := finishNode_steps h
        have h3 := mu_finishNode h
        have h4 : mu ((s.error msg).startNode .Error) = mu s := rfl
        have h5 : ((s.error msg).startNode .Error).steps = s.steps + 1 := rfl
        simp only [pc]
        omega
      · rename_i hne; first | exact (hne _ h).elim | cases h
    | errorAndRecover msg =>
      simp only [exec] at h
      split at h
      · split at h
        · rename_i s2 he
          have h1 := eat_steps (PState.inv_startNode (PState.inv_error hi msg) .Error) he
          have h2 := finishNode_steps h
          have h3 := mu_finishNode h
          have h4 : mu ((s.error msg).startNode .Error) = mu s := rfl
          have h5 : ((s.error msg).startNode .Error).steps = s.steps + 1 := rfl
          simp only [pc]
          omega
        · rename_i hne; first | exact (hne _ h).elim | cases h
      · simp only [Res.ok.injEq] at h; subst h; simp [pc, PState.error, mu]
    | retB b => simp only [exec, Res.ok.injEq] at h; subst h; simp [pc, mu]
    | pushLocal => simp only [exec, Res.ok.injEq] at h; subst h; simp [pc, mu]
    | popLocal => simp only [exec, Res.ok.injEq] at h; subst h; simp [pc, mu]
    | setLocal => simp only [exec, Res.ok.injEq] at h; subst h; simp [pc, mu]
    | seq a b => simp [isPrim] at hp
    | ifAt ks t e => simp [isPrim] at hp
    | ifFlag t e => simp [isPrim] at hp
    | ifLocal t e => simp [isPrim] at hp
    | loop c b => simp [isPrim] at hp
    | call f => simp [isPrim] at hp

/-! ### the cost claims, on numbers

`m`, `m'`: characters left before/after; `st`, `st'`: steps; `v`, `v'`: progress measure. -/

/-- a run of a program fragment inside a function of rank `rs` entered with `Mf` characters left:
`zp` bounds it if nothing has been consumed since the function was entered; otherwise it is paid by
500 per unit of progress plus the fixed overhead `op`, with a rebate of 62 if this run consumed, of
`(8 - rs) * 62` if it made the first consumption since the function was entered -/
structure CostN (Mf rs zp op m m' st st' v v' : Nat) : Prop where
  z : m' = Mf → st' ≤ st + zp
  w : m' < Mf → st' + 500 * v ≤ st + 500 * v' + op
  r : m' < m → m < Mf → st' + 500 * v + 62 ≤ st + 500 * v' + op
  f : m' < m → m = Mf → st' + 500 * v + (8 - rs) * 62 ≤ st + 500 * v' + op

/-- the same for a loop, with the overhead of one iteration kept apart -/
structure LoopN (Mf rs zc oc obd m m' st st' v v' : Nat) : Prop where
  z : m' = Mf → st' ≤ st + zc
  w : m' < Mf → m' = m → st' + 500 * v ≤ st + 500 * v' + oc
  r : m' < m → m < Mf → st' + 500 * v + 62 ≤ st + 500 * v' + oc + (oc + obd)
  f : m' < m → m = Mf → st' + 500 * v + (8 - rs) * 62 ≤ st + 500 * v' + oc + (oc + obd)

/-- a run of a function of rank `rg`: at most `Zg` if it consumes nothing, otherwise below
`500 * progress` by the rebate `(7 - rg) * 62` -/
structure FnN (Zg rg m m' st st' v v' : Nat) : Prop where
  z : m' = m → st' ≤ st + Zg
  c : m' < m → st' + 500 * v + (7 - rg) * 62 ≤ st + 500 * v'

theorem arith_mono {Mf rs z o z' o' m m' st st' v v' : Nat} (h : CostN Mf rs z o m m' st st' v v')
    (hz : z ≤ z') (ho : o ≤ o') : CostN Mf rs z' o' m m' st st' v v' :=
  ⟨fun a => by have := h.z a; omega, fun a => by have := h.w a; omega,
   fun a b => by have := h.r a b; omega, fun a b => by have := h.f a b; omega⟩

theorem arith_prim {Mf rs pcp m m' st st' v v' : Nat} (h1 : m' = m → st' ≤ st + pcp)
    (h2 : st' + v ≤ st + pcp + v') (hle : m' ≤ m) (hm : v ≤ v') (hp : m' < m → v < v') (hc : m ≤ Mf)
    (hrs : rs ≤ 6) : CostN Mf rs pcp pcp m m' st st' v v' := by
  refine ⟨fun a => ?_, fun a => ?_, fun a b => ?_, fun a b => ?_⟩
  · have := h1 (by omega); omega
  · clear h1 hp; omega
  · have := hp a; clear h1 hp; omega
  · have := hp a; clear h1 hp; omega

theorem arith_seq {Mf rs zp zq op oq m m1 m' st st1 st' v v1 v' : Nat}
    (c1 : CostN Mf rs zp op m m1 st st1 v v1) (c2 : CostN Mf rs zq oq m1 m' st1 st' v1 v')
    (e1 : m1 ≤ m) (e2 : m' ≤ m1) (hm : m ≤ Mf) (n1 : v ≤ v1) (n2 : v1 ≤ v') (z1 : zp ≤ op) (z2 : zq ≤ oq) :
    CostN Mf rs (zp + zq) (op + oq) m m' st st' v v' := by
  refine ⟨fun a => ?_, fun a => ?_, fun a b => ?_, fun a b => ?_⟩
  · have := c1.z (by omega); have := c2.z a; omega
  · by_cases h1 : m1 = Mf
    · have := c1.z h1; have := c2.w a; omega
    · have := c1.w (by omega); have := c2.w a; omega
  · by_cases h1 : m1 < m
    · have := c1.r h1 b; have := c2.w (by omega); omega
    · have := c1.w (by omega); have := c2.r (by omega) (by omega); omega
  · by_cases h1 : m1 < m
    · have := c1.f h1 b; have := c2.w (by omega); omega
    · have := c1.z (by omega); have := c2.f (by omega) (by omega); omega

theorem arith_call {Mf rs Zg rg m m' st st' v v' : Nat} (hf : FnN Zg rg m m' st st' v v')
    (hle : m' ≤ m) (hm : v ≤ v') (hc : m ≤ Mf) (hrg : rg ≤ 6) (hrs : rs ≤ 6)
    (hmeas : m < Mf ∨ rg < rs) :
    CostN Mf rs (if rg < rs then Zg else 0) Zg m m' st st' v v' := by
  refine ⟨fun a => ?_, fun a => ?_, fun a b => ?_, fun a b => ?_⟩
  · have h1 : rg < rs := by omega
    rw [if_pos h1]; have := hf.z (by omega); omega
  · by_cases h1 : m' = m
    · have := hf.z h1; omega
    · have := hf.c (by omega); omega
  · have := hf.c a; omega
  · have := hf.c a; omega

theorem arith_loop_exit {Mf rs zc oc obd m m' st st' v v' : Nat} (cc : CostN Mf rs zc oc m m' st st' v v') :
    LoopN Mf rs zc oc obd m m' st st' v v' :=
  ⟨cc.z, fun a _ => cc.w a, fun a b => by have := cc.r a b; omega, fun a b => by have := cc.f a b; omega⟩

theorem arith_loop_step {Mf rs zc oc obd zb' m m1 m2 m' st st1 st2 st' v v1 v2 v' : Nat}
    (cc : CostN Mf rs zc oc m m1 st st1 v v1) (cb : CostN Mf rs zb' obd m1 m2 st1 st2 v1 v2)
    (rest : LoopN Mf rs zc oc obd m2 m' st2 st' v2 v')
    (e1 : m1 ≤ m) (e2 : m2 ≤ m1) (e3 : m' ≤ m2) (hlt : m2 < m) (hm : m ≤ Mf)
    (n1 : v ≤ v1) (n2 : v1 ≤ v2) (z1 : zc ≤ oc) (z2 : zb' ≤ obd)
    (hL : oc + obd ≤ 62) : LoopN Mf rs zc oc obd m m' st st' v v' := by
  have it := arith_seq cc cb e1 e2 hm n1 n2 z1 z2
  refine ⟨fun a => by omega, fun a b => by omega, fun a b => ?_, fun a b => ?_⟩
  · have i1 := it.r hlt b
    by_cases h1 : m' = m2
    · have := rest.w (by omega) h1; omega
    · have := rest.r (by omega) (by omega); omega
  · have i1 := it.f hlt b
    by_cases h1 : m' = m2
    · have := rest.w (by omega) h1; omega
    · have := rest.r (by omega) (by omega); omega

theorem arith_loop_final {Mf rs zc oc obd m m' st st' v v' : Nat} (h : LoopN Mf rs zc oc obd m m' st st' v v')
    (hle : m' ≤ m) (hm : m ≤ Mf) : CostN Mf rs zc (2 * oc + obd) m m' st st' v v' := by
  refine ⟨h.z, fun a => ?_, fun a b => ?_, fun a b => ?_⟩
  · by_cases h1 : m' = m
    · have := h.w a h1; omega
    · by_cases h2 : m = Mf
      · have := h.f (by omega) h2; omega
      · have := h.r (by omega) (by omega); omega
  · have := h.r a b; omega
  · have := h.f a b; omega

theorem arith_fn {rs zp op Zf m m' st st' v v' : Nat} (h : CostN m rs zp op m m' st st' v v')
    (hle : m' ≤ m) (hZ : zp ≤ Zf) (hO : op ≤ 62) (hrs : rs ≤ 6) : FnN Zf rs m m' st st' v v' := by
  refine ⟨fun a => ?_, fun a => ?_⟩
  · have := h.z a; omega
  · have := h.f a rfl; omega

/-! ### the cost claims, on runs -/

section cost
variable (input : List Char) (summs : Summs) (ranks : Ranks) (self : Fn) (Mf : Nat)
variable (Z : Fn → Nat) (ν : PState → Nat)

def CostOK (rs zp op : Nat) (s s' : PState) : Prop :=
  CostN Mf rs zp op (mu s) (mu s') s.steps s'.steps (ν s) (ν s')

def FnCost (g : Fn) (s s' : PState) : Prop :=
  FnN (Z g) (ranks g) (mu s) (mu s') s.steps s'.steps (ν s) (ν s')

/-- the induction hypothesis about calls -/
def CallIHC : Prop :=
  ∀ g sm, sm ∈ summs g → ∀ s, Inv input s → sm.pre.holds s.cur →
    (mu s < Mf ∨ (mu s ≤ Mf ∧ ranks g < ranks self)) →
    ∀ n s', exec defs rc n (defs g) s = .ok s' → FnCost ranks Z ν g s s'

/-- what a measure of progress has to satisfy -/
structure Measure : Prop where
  mono : ∀ n p s s', Inv input s → exec defs rc n p s = .ok s' → ν s ≤ ν s'
  prog : ∀ n p s s', Inv input s → exec defs rc n p s = .ok s' → mu s' < mu s → ν s < ν s'
  prim : ∀ p, isPrim p = true → ∀ n s s', Inv input s → exec defs rc n p s = .ok s' →
    (mu s' = mu s → s'.steps ≤ s.steps + pc p) ∧ s'.steps + ν s ≤ s.steps + pc p + ν s'

/-- a successful run ends in a state described by one of the analysis' exits -/
theorem run_sound (IHq : CallIH defs rc input summs (ltOfRanks ranks) self Mf)
    {p : Prog} {a : AS} {outs : List AS} (h : analyze summs (ltOfRanks ranks) rc self p a = some outs)
    {M : Nat} {s : PState} (hi : Inv input s) (hs : Sat a Mf M s) {n : Nat} {s' : PState}
    (hx : exec defs rc n p s = .ok s') : QA input outs Mf M s' := by
  obtain ⟨n0, hn0⟩ := analyze_sound defs rc input summs (ltOfRanks ranks) self Mf IHq p a outs h M s hi hs
  have h1 := fine_mono defs rc hn0 (Nat.le_max_right n n0)
  rw [exec_mono defs rc n p s _ hx (by simp) (max n n0) (Nat.le_max_left n n0)] at h1
  exact h1

variable (hν : Measure defs rc input ν) (hR : ∀ f, ranks f ≤ 6)
include hν hR

/-- the loop case of `analyze_cost`, given the claims for condition and body -/
theorem loop_cost (IHq : CallIH defs rc input summs (ltOfRanks ranks) self Mf)
    (cnd body : Prog) (a : AS) (outsC : List AS)
    (hc : analyze summs (ltOfRanks ranks) rc self cnd { fact := .any, fl := none, must := false, c := a.c } = some outsC)
    (hbody : outsC.all (fun oc =>
        if oc.fl == some false then true else
        match analyze summs (ltOfRanks ranks) rc self body { oc with fl := some true } with
        | some outsB => outsB.all (fun ob => ob.must)
        | none => false) = true)
    (hL : ob Z cnd + ob Z body ≤ 62)
    (ihc : ∀ (a : AS) (outs : List AS), analyze summs (ltOfRanks ranks) rc self cnd a = some outs →
      ∀ (M : Nat) (s : PState), Inv input s → Sat a Mf M s → ∀ (n : Nat) (s' : PState), exec defs rc n cnd s = .ok s' →
        CostOK Mf ν (ranks self) (zb ranks Z self cnd) (ob Z cnd) s s')
    (ihb : ∀ (a : AS) (outs : List AS), analyze summs (ltOfRanks ranks) rc self body a = some outs →
      ∀ (M : Nat) (s : PState), Inv input s → Sat a Mf M s → ∀ (n : Nat) (s' : PState), exec defs rc n body s = .ok s' →
        CostOK Mf ν (ranks self) (zb ranks Z self body) (ob Z body) s s') :
    ∀ (k : Nat) (s : PState), mu s ≤ k → Inv input s → mu s ≤ Mf → (a.c = true → mu s < Mf) →
      ∀ (n : Nat) (s' : PState), exec defs rc n (.loop cnd body) s = .ok s' →
        LoopN Mf (ranks self) (zb ranks Z self cnd) (ob Z cnd) (ob Z body)
          (mu s) (mu s') s.steps s'.steps (ν s) (ν s') := by
  intro k
  induction k using Nat.strongRecOn with
  | _ k ihk =>
    intro s hk hi hc1 hc2 n s' hx
    cases n with
    | zero => simp [exec] at hx
    | succ n =>
      simp only [exec] at hx
      have hhead : Sat { fact := .any, fl := none, must := false, c := a.c } Mf (mu s) s :=
        ⟨trivial, (by intro b hb; cases hb), Nat.le_refl _, (by intro h; cases h), hc1, hc2⟩
      split at hx
      · rename_i s1 h1
        obtain ⟨hi1, oc, hoc, hsoc⟩ := run_sound defs rc input summs ranks self Mf IHq hc hi hhead h1
        have cc := ihc _ outsC hc (mu s) s hi hhead n s1 h1
        split at hx
        · rename_i hf
          have hne : (oc.fl == some false) = false := by
            cases hfl : oc.fl with
            | none => rfl
            | some b => have := hsoc.fl b hfl; rw [hf] at this; subst this; rfl
          have hb := List.all_eq_true.mp hbody oc hoc
          simp only [hne, Bool.false_eq_true, if_false] at hb
          cases hab : analyze summs (ltOfRanks ranks) rc self body { oc with fl := some true } with
          | none => rw [hab] at hb; cases hb
          | some outsB =>
            rw [hab] at hb; simp only [] at hb
            split at hx
            · rename_i s2 h2
              have hsat1 : Sat { oc with fl := some true } Mf (mu s) s1 :=
                ⟨hsoc.fact, by intro b hb'; simp only [Option.some.injEq] at hb'; subst hb'; exact hf,
                 hsoc.m1, hsoc.m2, hsoc.c1, hsoc.c2⟩
              obtain ⟨hi2, ob', hob, hsob⟩ := run_sound defs rc input summs ranks self Mf IHq hab hi1 hsat1 h2
              have hlt : mu s2 < mu s := hsob.m2 (List.all_eq_true.mp hb ob' hob)
              have cb := ihb _ outsB hab (mu s) s1 hi1 hsat1 n s2 h2
              have e1 := mu_exec_le defs rc input n cnd s s1 hi h1
              have e2 := mu_exec_le defs rc input n body s1 s2 hi1 h2
              have e3 := mu_exec_le defs rc input n (.loop cnd body) s2 s' hi2 hx
              have rest := ihk (mu s2) (by omega) s2 (Nat.le_refl _) hi2 (by omega) (fun _ => by omega) n s' hx
              exact arith_loop_step cc cb rest e1 e2 e3 hlt hc1 (hν.mono n cnd s s1 hi h1)
                (hν.mono n body s1 s2 hi1 h2) (zb_le_ob ranks Z self cnd) (zb_le_ob ranks Z self body) hL
            · rename_i hne'; first | exact (hne' _ hx).elim | cases hx
        · simp only [Res.ok.injEq] at hx; subst hx
          exact arith_loop_exit cc
      · rename_i hne; first | exact (hne _ hx).elim | cases hx

theorem analyze_cost (IHq : CallIH defs rc input summs (ltOfRanks ranks) self Mf)
    (IHC : CallIHC defs rc input summs ranks self Mf Z ν) :
    ∀ (p : Prog) (a : AS) (outs : List AS), analyze summs (ltOfRanks ranks) rc self p a = some outs →
    loopsOk Z p = true →
    ∀ (M : Nat) (s : PState), Inv input s → Sat a Mf M s →
    ∀ (n : Nat) (s' : PState), exec defs rc n p s = .ok s' →
      CostOK Mf ν (ranks self) (zb ranks Z self p) (ob Z p) s s' := by
  have hrs := hR self
  have prim : ∀ (p : Prog), isPrim p = true → ∀ (a : AS) (outs : List AS),
      analyze summs (ltOfRanks ranks) rc self p a = some outs → loopsOk Z p = true →
      ∀ (M : Nat) (s : PState), Inv input s → Sat a Mf M s →
      ∀ (n : Nat) (s' : PState), exec defs rc n p s = .ok s' →
        CostOK Mf ν (ranks self) (zb ranks Z self p) (ob Z p) s s' := by
    intro p hp a outs _ _ M s hi hs n s' hx
    obtain ⟨h1, h2⟩ := hν.prim p hp n s s' hi hx
    rw [zb_prim ranks Z self hp, ob_prim Z hp]
    exact arith_prim h1 h2 (mu_exec_le defs rc input n p s s' hi hx) (hν.mono n p s s' hi hx)
      (hν.prog n p s s' hi hx) hs.c1 hrs
  intro p
  induction p with
  | seq p q ihp ihq =>
    intro a outs h hl M s hi hs n s' hx
    simp only [analyze] at h
    cases hp : analyze summs (ltOfRanks ranks) rc self p a with
    | none => rw [hp] at h; cases h
    | some outsP =>
      rw [hp] at h; simp only [] at h
      have hq := seqOuts_some (fun o => analyze summs (ltOfRanks ranks) rc self q o) outsP outs h
      simp only [loopsOk, Bool.and_eq_true] at hl
      cases n with
      | zero => simp [exec] at hx
      | succ n =>
        simp only [exec] at hx
        split at hx
        · rename_i s1 h1
          obtain ⟨hi1, o, ho, hso⟩ := run_sound defs rc input summs ranks self Mf IHq hp hi hs h1
          obtain ⟨l', hl', _⟩ := hq o ho
          have c1 := ihp a outsP hp hl.1 M s hi hs n s1 h1
          have c2 := ihq o l' hl' hl.2 M s1 hi1 hso n s' hx
          exact arith_seq c1 c2 (mu_exec_le defs rc input n p s s1 hi h1) (mu_exec_le defs rc input n q s1 s' hi1 hx)
            hs.c1 (hν.mono n p s s1 hi h1) (hν.mono n q s1 s' hi1 hx) (zb_le_ob ranks Z self p) (zb_le_ob ranks Z self q)
        · rename_i hne; first | exact (hne _ hx).elim | cases hx
  | ifAt ks t e iht ihe =>
    intro a outs h hl M s hi hs n s' hx
    simp only [analyze] at h
    obtain ⟨l1, l2, h1, h2, h3⟩ := both_some h
    subst h3
    simp only [loopsOk, Bool.and_eq_true] at hl
    cases n with
    | zero => simp [exec] at hx
    | succ n =>
      simp only [exec] at hx
      by_cases hc : ks.contains s.cur = true
      · have hin : s.cur ∈ ks := by simpa using hc
        have hft := Fact.meetIn_sound a.fact ks s.cur hs.fact hin
        have hnb : (a.fact.meetIn ks).isBot = false := by
          cases hb : (a.fact.meetIn ks).isBot with
          | false => rfl
          | true => exact absurd hft (Fact.isBot_sound _ _ hb)
        simp only [hnb, Bool.false_eq_true, if_false] at h1
        simp only [hc, if_true] at hx
        have c := iht _ l1 h1 hl.1 M s hi ⟨hft, hs.fl, hs.m1, hs.m2, hs.c1, hs.c2⟩ n s' hx
        exact arith_mono c (by simp only [zb]; omega) (by simp only [ob]; omega)
      · have hnin : s.cur ∉ ks := by simpa using hc
        have hfe := Fact.meetNotIn_sound a.fact ks s.cur hs.fact hnin
        have hne : a.fact.entails (.inS ks) = false := by
          cases he : a.fact.entails (.inS ks) with
          | false => rfl
          | true => exact absurd (Fact.entails_sound he s.cur hs.fact) hnin
        simp only [hne, Bool.false_eq_true, if_false] at h2
        have hcf : ks.contains s.cur = false := by simpa using hc
        simp only [hcf, Bool.false_eq_true, if_false] at hx
        have c := ihe _ l2 h2 hl.2 M s hi ⟨hfe, hs.fl, hs.m1, hs.m2, hs.c1, hs.c2⟩ n s' hx
        exact arith_mono c (by simp only [zb]; omega) (by simp only [ob]; omega)
  | ifFlag t e iht ihe =>
    intro a outs h hl M s hi hs n s' hx
    simp only [analyze] at h
    simp only [loopsOk, Bool.and_eq_true] at hl
    cases n with
    | zero => simp [exec] at hx
    | succ n =>
      simp only [exec] at hx
      by_cases hf : s.flag = true
      · simp only [hf, if_true] at hx
        have c : CostOK Mf ν (ranks self) (zb ranks Z self t) (ob Z t) s s' := by
          cases hfl : a.fl with
          | none =>
            rw [hfl] at h; simp only [] at h
            obtain ⟨l1, l2, h1, h2, h3⟩ := both_some h
            exact iht _ l1 h1 hl.1 M s hi
              ⟨hs.fact, by intro b hb; simp only [Option.some.injEq] at hb; subst hb; exact hf, hs.m1, hs.m2, hs.c1, hs.c2⟩
              n s' hx
          | some b =>
            have hb := hs.fl b hfl
            rw [hf] at hb; subst hb
            rw [hfl] at h; simp only [] at h
            exact iht a outs h hl.1 M s hi hs n s' hx
        exact arith_mono c (by simp only [zb]; omega) (by simp only [ob]; omega)
      · have hff : s.flag = false := by simpa using hf
        simp only [hff, Bool.false_eq_true, if_false] at hx
        have c : CostOK Mf ν (ranks self) (zb ranks Z self e) (ob Z e) s s' := by
          cases hfl : a.fl with
          | none =>
            rw [hfl] at h; simp only [] at h
            obtain ⟨l1, l2, h1, h2, h3⟩ := both_some h
            exact ihe _ l2 h2 hl.2 M s hi
              ⟨hs.fact, by intro b hb; simp only [Option.some.injEq] at hb; subst hb; exact hff, hs.m1, hs.m2, hs.c1, hs.c2⟩
              n s' hx
          | some b =>
            have hb := hs.fl b hfl
            rw [hff] at hb; subst hb
            rw [hfl] at h; simp only [] at h
            exact ihe a outs h hl.2 M s hi hs n s' hx
        exact arith_mono c (by simp only [zb]; omega) (by simp only [ob]; omega)
  | ifLocal t e iht ihe =>
    intro a outs h hl M s hi hs n s' hx
    simp only [analyze] at h
    obtain ⟨l1, l2, h1, h2, h3⟩ := both_some h
    subst h3
    simp only [loopsOk, Bool.and_eq_true] at hl
    cases n with
    | zero => simp [exec] at hx
    | succ n =>
      simp only [exec] at hx
      split at hx
      · exact arith_mono (iht a l1 h1 hl.1 M s hi hs n s' hx) (by simp only [zb]; omega) (by simp only [ob]; omega)
      · exact arith_mono (ihe a l2 h2 hl.2 M s hi hs n s' hx) (by simp only [zb]; omega) (by simp only [ob]; omega)
  | call g =>
    intro a outs h hl M s hi hs n s' hx
    simp only [analyze] at h
    cases hfs : findSumm (summs g) a.fact with
    | none => rw [hfs] at h; cases h
    | some sm =>
      rw [hfs] at h; simp only [] at h
      obtain ⟨hmem, hent⟩ := findSumm_sound hfs
      split at h
      · rename_i hcond
        have hpre := Fact.entails_sound hent s.cur hs.fact
        have hmeas : mu s < Mf ∨ (mu s ≤ Mf ∧ ranks g < ranks self) := by
          simp only [Bool.or_eq_true] at hcond
          rcases hcond with hc | hl
          · exact Or.inl (hs.c2 hc)
          · exact Or.inr ⟨hs.c1, by simpa [ltOfRanks] using hl⟩
        cases n with
        | zero => simp [exec] at hx
        | succ n =>
          simp only [exec] at hx
          have hf := IHC g sm hmem s hi hpre hmeas n s' hx
          exact arith_call hf (mu_exec_le defs rc input n (defs g) s s' hi hx) (hν.mono n (defs g) s s' hi hx)
            hs.c1 (hR g) hrs (by rcases hmeas with h1 | ⟨_, h2⟩; exact Or.inl h1; exact Or.inr h2)
      · cases h
  | loop cnd body ihc ihb =>
    intro a outs h hl M s hi hs n s' hx
    simp only [analyze] at h
    simp only [loopsOk, Bool.and_eq_true, decide_eq_true_eq] at hl
    obtain ⟨⟨hlc, hlb⟩, hL⟩ := hl
    cases hc : analyze summs (ltOfRanks ranks) rc self cnd { fact := .any, fl := none, must := false, c := a.c } with
    | none => rw [hc] at h; cases h
    | some outsC =>
      rw [hc] at h; simp only [] at h
      split at h
      · rename_i hbody
        have H := loop_cost defs rc input summs ranks self Mf Z ν hν hR IHq cnd body a outsC hc hbody hL
          (fun a outs h => ihc a outs h hlc) (fun a outs h => ihb a outs h hlb)
          (mu s) s (Nat.le_refl _) hi hs.c1 hs.c2 n s' hx
        exact arith_loop_final H (mu_exec_le defs rc input n _ s s' hi hx) hs.c1
      · cases h
  | nop => exact prim _ rfl
  | startNode k => exact prim _ rfl
  | finishNode => exact prim _ rfl
  | pushCp => exact prim _ rfl
  | popCp => exact prim _ rfl
  | startNodeAtCp k => exact prim _ rfl
  | eat => exact prim _ rfl
  | skip => exact prim _ rfl
  | eatIf k => exact prim _ rfl
  | expect k msg => exact prim _ rfl
  | assertTok k => exact prim _ rfl
  | error msg => exact prim _ rfl
  | errorAndEat msg => exact prim _ rfl
  | errorAndRecover msg => exact prim _ rfl
  | retB b => exact prim _ rfl
  | pushLocal => exact prim _ rfl
  | popLocal => exact prim _ rfl
  | setLocal => exact prim _ rfl

end cost

/-- **the quantitative soundness of the checker for work**: every successful run of a function
whose summaries pass `checkFn` costs at most `Z f` steps if it consumes nothing, and otherwise at
most 500 steps per unit of progress, minus the rebate of its rank -/
theorem check_cost (summs : Summs) (ranks : Ranks) (input : List Char) (Z : Fn → Nat) (ν : PState → Nat)
    (hν : Measure defs rc input ν)
    (hcheck : ∀ f, checkFn defs summs (ltOfRanks ranks) rc f = true) (hR : ∀ f, ranks f ≤ 6)
    (hZ : ∀ f, zb ranks Z f (defs f) ≤ Z f) (hO : ∀ f, ob Z (defs f) ≤ 62)
    (hLp : ∀ f, loopsOk Z (defs f) = true) :
    ∀ (M r : Nat) (f : Fn) (sm : Summ), sm ∈ summs f → ∀ (s : PState), ranks f ≤ r → mu s ≤ M →
      Inv input s → sm.pre.holds s.cur →
      ∀ (n : Nat) (s' : PState), exec defs rc n (defs f) s = .ok s' → FnCost ranks Z ν f s s' := by
  intro M
  induction M using Nat.strongRecOn with
  | _ M ihM =>
    intro r
    induction r using Nat.strongRecOn with
    | _ r ihr =>
      intro f sm hsm s hr hM hi hpre n s' hx
      have hc := List.all_eq_true.mp (hcheck f) sm hsm
      unfold checkSumm at hc
      cases ha : analyze summs (ltOfRanks ranks) rc f (defs f) { fact := sm.pre, fl := none, must := false, c := false } with
      | none => rw [ha] at hc; cases hc
      | some outs =>
        have IHq : CallIH defs rc input summs (ltOfRanks ranks) f (mu s) := by
          intro g sm' hsm' s1 hi1 hpre1 _
          exact check_sound defs rc summs ranks input hcheck (mu s1) (ranks g) g sm' hsm' s1
            (Nat.le_refl _) (Nat.le_refl _) hi1 hpre1
        have IHC : CallIHC defs rc input summs ranks f (mu s) Z ν := by
          intro g sm' hsm' s1 hi1 hpre1 hmeas n1 s1' hx1
          rcases hmeas with hlt | ⟨hle, hrk⟩
          · exact ihM (mu s1) (by omega) (ranks g) g sm' hsm' s1 (Nat.le_refl _) (Nat.le_refl _) hi1 hpre1 n1 s1' hx1
          · rcases Nat.lt_or_eq_of_le (Nat.le_trans hle hM) with hlt | heq
            · exact ihM (mu s1) hlt (ranks g) g sm' hsm' s1 (Nat.le_refl _) (Nat.le_refl _) hi1 hpre1 n1 s1' hx1
            · exact ihr (ranks g) (by omega) g sm' hsm' s1 (Nat.le_refl _) (by omega) hi1 hpre1 n1 s1' hx1
        have hsat : Sat { fact := sm.pre, fl := none, must := false, c := false } (mu s) (mu s) s :=
          ⟨hpre, (by intro b hb; cases hb), Nat.le_refl _, (by intro h; cases h), Nat.le_refl _, (by intro h; cases h)⟩
        have hco := analyze_cost defs rc input summs ranks f (mu s) Z ν hν hR IHq IHC (defs f) _ outs ha (hLp f)
          (mu s) s hi hsat n s' hx
        exact arith_fn hco (mu_exec_le defs rc input n (defs f) s s' hi hx) (hZ f) (hO f) (hR f)

/-! ### the measure "characters consumed" -/

theorem mu_le_length {input : List Char} {s : PState} (h : Inv input s) : mu s ≤ input.length := by
  have := congrArg List.length h.text
  simp only [List.length_append] at this
  unfold mu
  omega

/-- characters consumed so far -/
def consumed (input : List Char) (s : PState) : Nat := input.length - mu s

theorem consumed_measure (input : List Char) : Measure defs rc input (consumed input) := by
  refine ⟨?_, ?_, ?_⟩
  · intro n p s s' hi hx
    have := mu_exec_le defs rc input n p s s' hi hx
    unfold consumed; omega
  · intro n p s s' hi hx hlt
    have := mu_le_length hi
    unfold consumed; omega
  · intro p hp n s s' hi hx
    have h1 := prim_steps defs rc input hp n s s' hi hx
    have h2 := mu_exec_le defs rc input n p s s' hi hx
    have h3 := mu_le_length hi
    unfold consumed
    exact ⟨fun h => by omega, by omega⟩

end Progress
end Tg
