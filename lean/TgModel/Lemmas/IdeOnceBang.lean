/-
Linearity of the indexer's traversal, part 3: loops over the nodes an accessor lists, and the
bang-operator arms (`Bang.lean`).
-/
import TgModel.Lemmas.IdeOncePrim

namespace Tg
namespace Ide
open Tg.SymbolMap (Op Loc)

variable {ws0 : Workspace}

/-! ### loops over nodes in source order -/

theorem take_dj {l : List PTree} (hpw : l.Pairwise (fun a b => a.stop ≤ b.start)) {i : Nat} (hi : i < l.length) :
    ∀ a ∈ l.take i, Dj a l[i] := by
  intro a ha
  obtain ⟨j, hj, rfl⟩ := List.getElem_of_mem ha
  have hj' : j < i := by simp at hj; omega
  have := List.pairwise_iff_getElem.mp hpw j i (by omega) hi hj'
  rw [List.getElem_take]
  exact Or.inl this

theorem vis_take_all {c c' : IndexCtx} {f : Nat} {l : List PTree} {i : Nat} (h : Vis c c' f (l.take i)) :
    Vis c c' f l :=
  h.weaken (fun v hv => ⟨v, List.mem_of_mem_take hv, Inside.refl v⟩)

/-- a `for` loop whose body indexes the element -/
theorem forIn_vis {σ : Type} {l : List PTree} (hpw : l.Pairwise (fun a b => a.stop ≤ b.start))
    {init : σ} {body : PTree → σ → IxM (ForInStep σ)}
    (hbody : ∀ x ∈ l, ∀ b, VSpec ws0 (body x b) x) :
    ∀ c f, Cur ws0 c f → PC (forIn l init body) c (fun _ c' => Vis c c' f l) := by
  intro c f hc
  refine PC.forIn_idx (fun i _ c1 => Vis c c1 f (l.take i)) (fun _ c1 => Vis c c1 f l)
    (by simpa using Vis.refl c f []) ?_ (fun b c1 h => by simpa using h)
  intro i hi b c1 hI
  refine (hbody l[i] (List.getElem_mem hi) b c1 f (hc.vis hI)).mono ?_
  intro s c2 h2
  have h3 : Vis c c2 f (l.take (i + 1)) := by
    rw [List.take_add_one, List.getElem?_eq_getElem hi]
    exact hI.trans h2 hc.idx (fun a ha b hb => by
      simp only [Option.toList_some, List.mem_singleton] at hb; subst hb; exact take_dj hpw hi a ha)
  cases s with
  | yield b' => exact h3
  | done b' => exact vis_take_all h3

theorem mapM_vis {β : Type} {l : List PTree} (hpw : l.Pairwise (fun a b => a.stop ≤ b.start))
    {g : PTree → IxM β} (hg : ∀ x ∈ l, VSpec ws0 (g x) x) :
    ∀ c f, Cur ws0 c f → PC (l.mapM g) c (fun _ c' => Vis c c' f l) := by
  intro c f hc
  refine (PC.mapM_idx (fun i c1 => Vis c c1 f (l.take i)) (by simpa using Vis.refl c f []) ?_).mono
    (fun _ c1 h => by simpa using h)
  intro i hi c1 hI
  refine (hg l[i] (List.getElem_mem hi) c1 f (hc.vis hI)).mono ?_
  intro _ c2 h2
  rw [List.take_add_one, List.getElem?_eq_getElem hi]
  exact hI.trans h2 hc.idx (fun a ha b hb => by
    simp only [Option.toList_some, List.mem_singleton] at hb; subst hb; exact take_dj hpw hi a ha)

/-- the specification for a function that is handed a child of `n` -/
theorem VSpec.up {α : Type} {m : IxM α} {n ch : PTree} (h : VSpec ws0 m ch) (hi : Inside n ch) : VSpec ws0 m n :=
  fun c f hc => (h c f hc).mono (fun _ _ hv => hv.inside (fun v hv' => by
    simp only [List.mem_singleton] at hv'; subst hv'; exact hi))

namespace Bang
open Tg.Ide.Bang

/-! ### `mod common` -/

theorem unexpectTypeAnnotation_silent (node : PTree) : Silent (unexpectTypeAnnotation node) := by
  unfold unexpectTypeAnnotation; silent
macro_rules | `(tactic| silent_prim) => `(tactic| exact Bang.unexpectTypeAnnotation_silent _)

theorem expectValues_silent (node : PTree) (lo : Nat) (hi : Option Nat) : Silent (expectValues node lo hi) := by
  unfold expectValues; silent
macro_rules | `(tactic| silent_prim) => `(tactic| exact Bang.expectValues_silent _ _ _)

theorem checkNext_silent (vt : ValueTypes) (ok : SymMap → Ty → Bool) (msg : Ty → String) :
    Silent (checkNext vt ok msg) := by
  unfold checkNext; silent
macro_rules | `(tactic| silent_prim) => `(tactic| exact Bang.checkNext_silent _ _ _)

theorem expectValues_pc (node : PTree) (lo : Nat) (hi : Option Nat) (c : IndexCtx) :
    PC (expectValues node lo hi) c (fun vs c' => Sil c c' ∧ vs = Ast.bangOperatorValues node) := by
  have k1 : ∀ rg msg, PC (error rg msg >>= fun _ => pure (Ast.bangOperatorValues node)) c
      (fun vs c' => Sil c c' ∧ vs = Ast.bangOperatorValues node) := fun rg msg =>
    PC.bind ((error_silent rg msg).run c) (fun _ c1 h1 => PC.pure ⟨h1, rfl⟩)
  have k2 : PC (pure (Ast.bangOperatorValues node)) c
      (fun vs c' => Sil c c' ∧ vs = Ast.bangOperatorValues node) := PC.pure ⟨Sil.refl c, rfl⟩
  unfold expectValues
  dsimp only
  split
  · split
    · split
      · exact k1 _ _
      · exact k2
    · split
      · exact k1 _ _
      · exact k2
  · split
    · exact k1 _ _
    · exact k2

variable {r : Rec}

theorem values_ordered {node : PTree} (hn : NodeOK node) :
    (Ast.bangOperatorValues node).Pairwise (fun a b => a.stop ≤ b.start) := Ast.children_sorted hn _

theorem values_ok {node v : PTree} (hn : NodeOK node) (hv : v ∈ Ast.bangOperatorValues node) : NodeOK v :=
  hn.sub (Ast.children_sub hv)

theorem typeKinds_value : ∀ k, Ast.isAny Ast.typeKinds k = true → Ast.is .Value k = true → False := by
  intro k; cases k <;> decide

theorem type_dj_values {node t : PTree} (hn : NodeOK node) (ht : Ast.bangOperatorType node = some t) :
    ∀ v ∈ Ast.bangOperatorValues node, Dj t v := fun v hv =>
  dj_of_preds hn (Ast.child_sub ht) (Ast.children_sub hv) (Ast.child_kind ht) (Ast.children_kind hv) typeKinds_value

theorem indexValues_vis (hr : RecV ws0 r) {l : List PTree} (hpw : l.Pairwise (fun a b => a.stop ≤ b.start))
    (hok : ∀ v ∈ l, NodeOK v) : ∀ c f, Cur ws0 c f → PC (indexValues r l) c (fun _ c' => Vis c c' f l) := by
  unfold indexValues
  refine mapM_vis hpw ?_
  intro x hx c f hc
  refine PC.bind (hr.value x (hok x hx) c f hc) ?_
  intro t c1 h1
  exact PC.pure h1

theorem indexValuesAndCheckTypes_vis (hr : RecV ws0 r) {l : List PTree}
    (hpw : l.Pairwise (fun a b => a.stop ≤ b.start)) (hok : ∀ v ∈ l, NodeOK v) (expected : Ty) :
    ∀ c f, Cur ws0 c f → PC (indexValuesAndCheckTypes r l expected) c (fun _ c' => Vis c c' f l) := by
  unfold indexValuesAndCheckTypes
  intro c0 f0 hc0
  refine PC.bind (forIn_vis (ws0 := ws0) hpw ?_ c0 f0 hc0) (fun _ c1 h1 => PC.pure h1)
  intro x hx b c f hc
  refine PC.bind (hr.value x (hok x hx) c f hc) ?_
  intro t c1 h1
  have hs : ∀ {α : Type} (m : IxM α), Silent m → PC m c1 (fun _ c' => Vis c c' f [x]) :=
    fun m hm => (hm.run c1).mono (fun _ _ h2 => h1.sil_right h2)
  split
  · exact hs _ (by silent)
  · exact hs _ (by silent)

/-- the type annotation, if there is one -/
def tyL (node : PTree) : List PTree := (Ast.bangOperatorType node).toList

theorem expectTypeAnnotation_vis (hr : RecV ws0 r) {node : PTree} (hn : NodeOK node) :
    ∀ c f, Cur ws0 c f → PC (expectTypeAnnotation r node) c (fun _ c' => Vis c c' f (tyL node)) := by
  intro c f hc
  unfold expectTypeAnnotation tyL
  split
  · rename_i t ht
    rw [ht]
    exact hr.typ t (hn.sub (Ast.child_sub ht)) c f hc
  · have : Silent (do error (nodeRange node) "expected type annotation"; return (none : Option Ty)) := by silent
    exact (this.run c).mono (fun _ _ h => Vis.of_sil h f _)

theorem silent_pre {node : PTree} {α : Type} {m : IxM α} (h : Silent m) :
    ∀ c f, Cur ws0 c f → PC m c (fun _ c' => Vis c c' f (tyL node)) :=
  fun c f _ => (h.run c).mono (fun _ _ hs => Vis.of_sil hs f _)

/-- what the type annotation and the values of a bang operator node visit lies inside the node -/
theorem arm_collapse {node : PTree} (hn : NodeOK node) {c c' : IndexCtx} {f : Nat}
    (h : Vis c c' f (tyL node ++ Ast.bangOperatorValues node)) : Vis c c' f [node] := by
  refine h.inside ?_
  intro v hv
  rcases List.mem_append.mp hv with hv | hv
  · unfold tyL at hv
    cases ht : Ast.bangOperatorType node with
    | none => rw [ht] at hv; cases hv
    | some t =>
      rw [ht] at hv
      simp only [Option.toList_some, List.mem_singleton] at hv
      subst hv
      exact hn.inside_sub (Ast.child_sub ht)
  · exact hn.inside_sub (Ast.children_sub hv)

theorem tyL_dj {node : PTree} (hn : NodeOK node) :
    ∀ a ∈ tyL node, ∀ b ∈ Ast.bangOperatorValues node, Dj a b := by
  intro a ha b hb
  unfold tyL at ha
  cases ht : Ast.bangOperatorType node with
  | none => rw [ht] at ha; cases ha
  | some t =>
    rw [ht] at ha
    simp only [Option.toList_some, List.mem_singleton] at ha
    subst ha
    exact type_dj_values hn ht b hb

/-- the common shape of the arms: type annotation, `expect_values`, the values, then checks -/
theorem arm_std {β γ δ : Type} {node : PTree} {pre : IxM β} {core : List PTree → IxM γ} {tail : β → γ → IxM δ}
    {lo : Nat} {hi : Option Nat} (hn : NodeOK node)
    (hpre : ∀ c f, Cur ws0 c f → PC pre c (fun _ c1 => Vis c c1 f (tyL node)))
    (hcore : ∀ c f, Cur ws0 c f →
      PC (core (Ast.bangOperatorValues node)) c (fun _ c1 => Vis c c1 f (Ast.bangOperatorValues node)))
    (htail : ∀ x vt, Silent (tail x vt)) :
    VSpec ws0 (pre >>= fun x => expectValues node lo hi >>= fun values => core values >>= fun vt => tail x vt)
      node := by
  intro c f hc
  refine PC.bind (hpre c f hc) ?_
  intro x c1 h1
  refine PC.bind (expectValues_pc node lo hi c1) ?_
  rintro values c2 ⟨h2, rfl⟩
  have h12 := h1.sil_right h2
  refine PC.bind (hcore c2 f (hc.vis h12)) ?_
  intro vt c3 h3
  refine ((htail x vt).run c3).mono ?_
  intro _ c4 h4
  exact arm_collapse hn ((h12.trans h3 hc.idx (tyL_dj hn)).sil_right h4)

/-! ### the arms -/

section arms
variable (hr : RecV ws0 r) {node : PTree} (hn : NodeOK node)
include hr hn

/-- arms that begin with `unexpect_type_annotation` and index all values -/
macro "arm_u" : tactic => `(tactic|
  exact arm_std hn (silent_pre (Bang.unexpectTypeAnnotation_silent _))
    (indexValues_vis hr (values_ordered hn) (fun _ hv => values_ok hn hv)) (by intros; silent))

/-- arms that begin with `expect_type_annotation` and index all values -/
macro "arm_e" : tactic => `(tactic|
  exact arm_std hn (expectTypeAnnotation_vis hr hn)
    (indexValues_vis hr (values_ordered hn) (fun _ hv => values_ok hn hv)) (by intros; silent))

/-- arms that begin with `unexpect_type_annotation` and check all values against one type -/
macro "arm_c" : tactic => `(tactic|
  exact arm_std hn (silent_pre (Bang.unexpectTypeAnnotation_silent _))
    (indexValuesAndCheckTypes_vis hr (values_ordered hn) (fun _ hv => values_ok hn hv) _) (by intros; silent))

theorem arithN_vis : VSpec ws0 (arithN r node) node := by unfold arithN; arm_c
theorem arith2_vis : VSpec ws0 (arith2 r node) node := by unfold arith2; arm_c
theorem xCast_vis : VSpec ws0 (xCast r node) node := by unfold xCast; arm_e
theorem xCon_vis : VSpec ws0 (xCon r node) node := by unfold xCon; arm_c
theorem xDag_vis : VSpec ws0 (xDag r node) node := by unfold xDag; arm_u
theorem xEmpty_vis : VSpec ws0 (xEmpty r node) node := by unfold xEmpty; arm_u
theorem xEqNe_vis : VSpec ws0 (xEqNe r node) node := by unfold xEqNe; arm_u
theorem xExists_vis : VSpec ws0 (xExists r node) node := by unfold xExists; arm_e
theorem xFind_vis : VSpec ws0 (xFind r node) node := by unfold xFind; arm_u
theorem xCompare_vis : VSpec ws0 (xCompare r node) node := by unfold xCompare; arm_u
theorem xGetDagArg_vis : VSpec ws0 (xGetDagArg r node) node := by unfold xGetDagArg; arm_e
theorem xGetDagName_vis : VSpec ws0 (xGetDagName r node) node := by unfold xGetDagName; arm_u
theorem xGetDagOp_vis : VSpec ws0 (xGetDagOp r node) node := by
  unfold xGetDagOp
  dsimp only
  split
  · rename_i t ht
    refine arm_std hn ?_ (indexValues_vis hr (values_ordered hn) (fun _ hv => values_ok hn hv)) ?_
    · intro c f hc
      unfold tyL
      rw [ht]
      exact hr.typ t (hn.sub (Ast.child_sub ht)) c f hc
    · intros; silent
  · refine arm_std hn ?_ (indexValues_vis hr (values_ordered hn) (fun _ hv => values_ok hn hv)) ?_
    · intro c f hc
      exact PC.pure (Vis.refl c f _)
    · intros; silent
theorem xHead_vis : VSpec ws0 (xHead r node) node := by unfold xHead; arm_u
theorem xIf_vis : VSpec ws0 (xIf r node) node := by unfold xIf; arm_u
theorem xInitialized_vis : VSpec ws0 (xInitialized r node) node := by unfold xInitialized; arm_u
theorem xInterleave_vis : VSpec ws0 (xInterleave r node) node := by unfold xInterleave; arm_u
theorem xIsA_vis : VSpec ws0 (xIsA r node) node := by unfold xIsA; arm_e
theorem xListConcat_vis : VSpec ws0 (xListConcat r node) node := by unfold xListConcat; arm_u
theorem xListFlatten_vis : VSpec ws0 (xListFlatten r node) node := by unfold xListFlatten; arm_u
theorem xListRemove_vis : VSpec ws0 (xListRemove r node) node := by unfold xListRemove; arm_u
theorem xListSplat_vis : VSpec ws0 (xListSplat r node) node := by unfold xListSplat; arm_u
theorem xLog2_vis : VSpec ws0 (xLog2 r node) node := by unfold xLog2; arm_u
theorem xNot_vis : VSpec ws0 (xNot r node) node := by unfold xNot; arm_u
theorem xRange_vis : VSpec ws0 (xRange r node) node := by unfold xRange; arm_u
theorem xRepr_vis : VSpec ws0 (xRepr r node) node := by unfold xRepr; arm_u
theorem xSetDagArg_vis : VSpec ws0 (xSetDagArg r node) node := by unfold xSetDagArg; arm_u
theorem xSetDagName_vis : VSpec ws0 (xSetDagName r node) node := by unfold xSetDagName; arm_u
theorem xSetDagOp_vis : VSpec ws0 (xSetDagOp r node) node := by unfold xSetDagOp; arm_u
theorem xSize_vis : VSpec ws0 (xSize r node) node := by unfold xSize; arm_u
theorem xStrConcat_vis : VSpec ws0 (xStrConcat r node) node := by unfold xStrConcat; arm_u
theorem xSubst_vis : VSpec ws0 (xSubst r node) node := by unfold xSubst; arm_u
theorem xSubstr_vis : VSpec ws0 (xSubstr r node) node := by unfold xSubstr; arm_u
theorem xTail_vis : VSpec ws0 (xTail r node) node := by unfold xTail; arm_u
theorem xToLowerUpper_vis : VSpec ws0 (xToLowerUpper r node) node := by unfold xToLowerUpper; arm_u

end arms

/-! ### the arms that open a scope -/

/-- closes `∀ v ∈ [a, b, …], Inside node v` from hypotheses `Inside node a`, … -/
macro "inside_all" : tactic => `(tactic| (
  simp only [List.cons_append, List.nil_append, List.append_nil, List.forall_mem_cons, List.not_mem_nil,
    false_imp_iff, implies_true, and_true]
  repeat' (first | assumption | apply And.intro)))

theorem variableIdentifier_id {c : IndexCtx} {f : Nat} (hc : Cur ws0 c f) (var : PTree) :
    PC (variableIdentifier var) c (fun x c' => c = c' ∧ ∀ name loc, x = some (name, loc) → IdLoc f var loc) := by
  unfold variableIdentifier
  split
  · rename_i inner hinner
    split
    · rename_i sv hsv
      split
      · rename_i hk
        refine (utilsIdentifier_id hc (Ast.child_sub hsv).2 (by simpa using hk)).mono ?_
        rintro x c' ⟨rfl, h⟩
        exact ⟨rfl, fun name loc hx => (h name loc hx).up
          ((Ast.children_sub (List.mem_of_head? hinner)).desc.trans (Ast.child_sub hsv).desc)⟩
      · exact PC.pure ⟨rfl, by intro _ _ hl; cases hl⟩
    · exact PC.pure ⟨rfl, by intro _ _ hl; cases hl⟩
  · exact PC.pure ⟨rfl, by intro _ _ hl; cases hl⟩

theorem values_dj {node a b : PTree} (hn : NodeOK node) {i j : Nat} (ha : (Ast.bangOperatorValues node)[i]? = some a)
    (hb : (Ast.bangOperatorValues node)[j]? = some b) (hij : i ≠ j) : Dj a b :=
  Ast.nthChild_dj (p := Ast.is .Value) hn ha hb hij

theorem values_inside {node a : PTree} (hn : NodeOK node) {i : Nat} (ha : (Ast.bangOperatorValues node)[i]? = some a) :
    Inside node a := hn.inside_sub (Ast.children_sub (List.mem_of_getElem? ha))

theorem values_ok' {node a : PTree} (hn : NodeOK node) {i : Nat} (ha : (Ast.bangOperatorValues node)[i]? = some a) :
    NodeOK a := values_ok hn (List.mem_of_getElem? ha)

/-- closes `∀ a ∈ [..], ∀ b ∈ [x], Dj a b` for values of the node at different positions -/
macro "dj_all" hn:ident : tactic => `(tactic| (
  simp only [List.cons_append, List.nil_append, List.append_nil, List.forall_mem_cons, List.not_mem_nil,
    false_imp_iff, implies_true, and_true]
  repeat' (first | assumption | exact values_dj $hn (by assumption) (by assumption) (by decide) | apply And.intro)))

/-- the common beginning of the scope arms -/
theorem prefix_pc {α : Type} {node : PTree} {lo : Nat} {hi : Option Nat} {k : List PTree → IxM α} {c : IndexCtx}
    {Q : α → IndexCtx → Prop}
    (h : ∀ c1, Sil c c1 → PC (k (Ast.bangOperatorValues node)) c1 Q) :
    PC (unexpectTypeAnnotation node >>= fun _ => expectValues node lo hi >>= k) c Q := by
  refine PC.bind ((unexpectTypeAnnotation_silent node).run c) ?_
  intro _ c1 h1
  refine PC.bind (expectValues_pc node lo hi c1) ?_
  rintro vs c2 ⟨h2, rfl⟩
  exact h c2 (h1.trans h2)

section scopeArms
variable (hr : RecV ws0 r) {node : PTree} (hn : NodeOK node)
include hr hn

theorem xFilter_vis : VSpec ws0 (xFilter r node) node := by
  intro c f hc
  unfold xFilter
  refine prefix_pc ?_
  intro c1 h1
  have hc1 := hc.sil h1
  have hex : ∀ {c' : IndexCtx}, Vis c1 c' f [node] → Vis c c' f [node] := fun h => Vis.sil_left h1 h
  split
  · rename_i var hvar
    split
    · rename_i list hlist
      split
      · rename_i pred hpred
        have hiv := values_inside hn hvar
        have hil := values_inside hn hlist
        have hip := values_inside hn hpred
        refine PC.bind (hr.value list (values_ok' hn hlist) c1 f hc1) ?_
        intro lt c2 h2
        have hc2 := hc1.vis h2
        split
        · split
          · refine PC.bind (variableIdentifier_id hc2 var) ?_
            rintro x c' ⟨hcc, hx⟩
            subst hcc
            split
            · rename_i name loc
              have hloc := hx name loc rfl
              refine PC.bind ((scopesPush_silent _).run c2) ?_
              intro _ c3 h3
              refine PC.bind (scopesAddVariable_push _ c3) ?_
              intro _ c4 h4
              have hv4 : Vis c2 c4 f [var] :=
                Vis.sil_left h3 (Vis.reg h4 (values_ok' hn hvar) hloc (by intro L hL; cases hL; rfl))
              have h24 := h2.trans hv4 hc1.idx (by
                intro a ha b hb
                simp only [List.mem_singleton] at ha hb; subst ha; subst hb
                exact values_dj hn hlist hvar (by decide))
              refine PC.bind (hr.value pred (values_ok' hn hpred) c4 f (hc1.vis h24)) ?_
              intro _ c5 h5
              have h25 := h24.trans h5 hc1.idx (by
                intro a ha b hb
                simp only [List.mem_singleton] at hb; subst hb
                simp only [List.mem_append, List.mem_singleton] at ha
                rcases ha with rfl | rfl
                · exact values_dj hn hlist hpred (by decide)
                · exact values_dj hn hvar hpred (by decide))
              refine PC.bind (scopesPop_silent.run c5) ?_
              intro _ c6 h6
              exact PC.pure (hex ((h25.sil_right h6).inside (by inside_all)))
            · exact PC.pure (hex (h2.inside (by inside_all)))
          · exact PC.pure (hex (h2.inside (by inside_all)))
        · exact PC.pure (hex (h2.inside (by inside_all)))
      · exact PC.pure (hex (Vis.refl _ _ _))
    · exact PC.pure (hex (Vis.refl _ _ _))
  · exact PC.pure (hex (Vis.refl _ _ _))

theorem xForEach_vis : VSpec ws0 (xForEach r node) node := by
  intro c f hc
  unfold xForEach
  refine prefix_pc ?_
  intro c1 h1
  have hc1 := hc.sil h1
  have hex : ∀ {c' : IndexCtx}, Vis c1 c' f [node] → Vis c c' f [node] := fun h => Vis.sil_left h1 h
  split
  · rename_i var hvar
    split
    · rename_i list hlist
      split
      · rename_i pred hpred
        have hiv := values_inside hn hvar
        have hil := values_inside hn hlist
        have hip := values_inside hn hpred
        refine PC.bind (hr.value list (values_ok' hn hlist) c1 f hc1) ?_
        intro lt c2 h2
        have hc2 := hc1.vis h2
        split
        · split
          · refine PC.bind (variableIdentifier_id hc2 var) ?_
            rintro x c' ⟨hcc, hx⟩
            subst hcc
            split
            · rename_i name loc
              have hloc := hx name loc rfl
              refine PC.bind ((scopesPush_silent _).run c2) ?_
              intro _ c3 h3
              refine PC.bind (scopesAddVariable_push _ c3) ?_
              intro _ c4 h4
              have hv4 : Vis c2 c4 f [var] :=
                Vis.sil_left h3 (Vis.reg h4 (values_ok' hn hvar) hloc (by intro L hL; cases hL; rfl))
              have h24 := h2.trans hv4 hc1.idx (by dj_all hn)
              refine PC.bind (hr.value pred (values_ok' hn hpred) c4 f (hc1.vis h24)) ?_
              intro _ c5 h5
              have h25 := h24.trans h5 hc1.idx (by dj_all hn)
              refine PC.bind (scopesPop_silent.run c5) ?_
              intro _ c6 h6
              exact PC.pure (hex ((h25.sil_right h6).inside (by inside_all)))
            · exact PC.pure (hex (h2.inside (by inside_all)))
          · exact PC.pure (hex (h2.inside (by inside_all)))
        · exact PC.pure (hex (h2.inside (by inside_all)))
      · exact PC.pure (hex (Vis.refl _ _ _))
    · exact PC.pure (hex (Vis.refl _ _ _))
  · exact PC.pure (hex (Vis.refl _ _ _))

theorem xFoldl_vis : VSpec ws0 (xFoldl r node) node := by
  intro c f hc
  unfold xFoldl
  refine prefix_pc ?_
  intro c1 h1
  have hc1 := hc.sil h1
  have hex : ∀ {c' : IndexCtx}, Vis c1 c' f [node] → Vis c c' f [node] := fun h => Vis.sil_left h1 h
  split
  · rename_i init hinit
    split
    · rename_i list hlist
      split
      · rename_i acc hacc
        split
        · rename_i var hvar
          split
          · rename_i expr hexpr
            have hii := values_inside hn hinit
            have hil := values_inside hn hlist
            have hia := values_inside hn hacc
            have hiv := values_inside hn hvar
            have hie := values_inside hn hexpr
            refine PC.bind (hr.value init (values_ok' hn hinit) c1 f hc1) ?_
            intro it c2 h2
            split
            · refine PC.bind (hr.value list (values_ok' hn hlist) c2 f (hc1.vis h2)) ?_
              intro lt c3 h3
              have h13 := h2.trans h3 hc1.idx (by dj_all hn)
              have hc3 := hc1.vis h13
              split
              · split
                · refine PC.bind (variableIdentifier_id hc3 acc) ?_
                  rintro x c' ⟨hcc, hx⟩
                  subst hcc
                  split
                  · rename_i aname aloc
                    have haloc := hx aname aloc rfl
                    refine PC.bind (variableIdentifier_id hc3 var) ?_
                    rintro y c' ⟨hcc, hy⟩
                    subst hcc
                    split
                    · rename_i vname vloc
                      have hvloc := hy vname vloc rfl
                      refine PC.bind ((scopesPush_silent _).run c3) ?_
                      intro _ c4 h4
                      refine PC.bind (scopesAddVariable_push _ c4) ?_
                      intro _ c5 h5
                      have hv5 : Vis c3 c5 f [acc] :=
                        Vis.sil_left h4 (Vis.reg h5 (values_ok' hn hacc) haloc (by intro L hL; cases hL; rfl))
                      have h15 := h13.trans hv5 hc1.idx (by dj_all hn)
                      refine PC.bind (scopesAddVariable_push _ c5) ?_
                      intro _ c6 h6
                      have hv6 : Vis c5 c6 f [var] :=
                        Vis.reg h6 (values_ok' hn hvar) hvloc (by intro L hL; cases hL; rfl)
                      have h16 := h15.trans hv6 hc1.idx (by dj_all hn)
                      refine PC.bind (hr.value expr (values_ok' hn hexpr) c6 f (hc1.vis h16)) ?_
                      intro _ c7 h7
                      have h17 := h16.trans h7 hc1.idx (by dj_all hn)
                      refine PC.bind (scopesPop_silent.run c7) ?_
                      intro _ c8 h8
                      exact PC.pure (hex ((h17.sil_right h8).inside (by inside_all)))
                    · exact PC.pure (hex (h13.inside (by inside_all)))
                  · exact PC.pure (hex (h13.inside (by inside_all)))
                · exact PC.pure (hex (h13.inside (by inside_all)))
              · exact PC.pure (hex (h13.inside (by inside_all)))
            · exact PC.pure (hex (h2.inside (by inside_all)))
          · exact PC.pure (hex (Vis.refl _ _ _))
        · exact PC.pure (hex (Vis.refl _ _ _))
      · exact PC.pure (hex (Vis.refl _ _ _))
    · exact PC.pure (hex (Vis.refl _ _ _))
  · exact PC.pure (hex (Vis.refl _ _ _))

/-- `impl Indexable for ast::BangOperator` -/
theorem indexBangOperator_vis : VSpec ws0 (indexBangOperator r node) node := by
  unfold indexBangOperator
  split
  · split
    all_goals first
      | with_reducible exact arithN_vis hr hn | with_reducible exact arith2_vis hr hn | with_reducible exact xCast_vis hr hn | with_reducible exact xCon_vis hr hn
      | with_reducible exact xDag_vis hr hn | with_reducible exact xEmpty_vis hr hn | with_reducible exact xEqNe_vis hr hn | with_reducible exact xExists_vis hr hn
      | with_reducible exact xFilter_vis hr hn | with_reducible exact xFind_vis hr hn | with_reducible exact xFoldl_vis hr hn | with_reducible exact xForEach_vis hr hn
      | with_reducible exact xCompare_vis hr hn | with_reducible exact xGetDagArg_vis hr hn | with_reducible exact xGetDagName_vis hr hn
      | with_reducible exact xGetDagOp_vis hr hn | with_reducible exact xHead_vis hr hn | with_reducible exact xIf_vis hr hn | with_reducible exact xInitialized_vis hr hn
      | with_reducible exact xInterleave_vis hr hn | with_reducible exact xIsA_vis hr hn | with_reducible exact xListConcat_vis hr hn
      | with_reducible exact xListFlatten_vis hr hn | with_reducible exact xListRemove_vis hr hn | with_reducible exact xListSplat_vis hr hn
      | with_reducible exact xLog2_vis hr hn | with_reducible exact xNot_vis hr hn | with_reducible exact xRange_vis hr hn | with_reducible exact xRepr_vis hr hn
      | with_reducible exact xSetDagArg_vis hr hn | with_reducible exact xSetDagName_vis hr hn | with_reducible exact xSetDagOp_vis hr hn
      | with_reducible exact xSize_vis hr hn | with_reducible exact xStrConcat_vis hr hn | with_reducible exact xSubst_vis hr hn | with_reducible exact xSubstr_vis hr hn
      | with_reducible exact xTail_vis hr hn | with_reducible exact xToLowerUpper_vis hr hn
      | exact fun c f _ => PC.panic
  · exact fun c f _ => PC.pure (Vis.refl c f _)

end scopeArms

end Bang

end Ide
end Tg
