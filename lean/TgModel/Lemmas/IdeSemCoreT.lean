/-
The fourth core of `core_no_diagnostics_partial` (`Props/C13.lean`): template parameters and positional
template arguments.

* `check_template_args` is silent on positional arguments whose types can be cast to the parameter types
  when the remaining parameters have defaults (`checkTemplateArgs_positional`);
* the argument values (`args4_step`), `resolve_class_ref_as_class` with arguments
  (`resolveClassRefAsClass_args`), the declaration of a template parameter (`PInv.declareTA`,
  `templateArgDecl4_step`);
* the checker `coreStatementList4` and its soundness `indexStatementList4_quiet`.
-/
import TgModel.Lemmas.IdeSemCoreP
namespace Tg
namespace Ide
open Index

/-! ### `check_template_args` on positional arguments -/

theorem nodup_map_inj {α β : Type} (f : α → β) : ∀ (l : List α), (l.map f).Nodup → ∀ a ∈ l, ∀ b ∈ l, f a = f b → a = b := by
  intro l
  induction l with
  | nil => intro _ a ha; cases ha
  | cons x t ih =>
    intro hnd a ha b hb hab
    rw [List.map_cons, List.nodup_cons] at hnd
    rcases List.mem_cons.1 ha with rfl | ha' <;> rcases List.mem_cons.1 hb with rfl | hb'
    · rfl
    · exact absurd (hab ▸ List.mem_map_of_mem hb') hnd.1
    · exact absurd (hab ▸ List.mem_map_of_mem ha') hnd.1
    · exact ih hnd.2 a ha' b hb' hab

theorem eraseDups_nodup : ∀ (l : List String), l.Nodup → l.eraseDups = l := by
  intro l
  induction l with
  | nil => intro _; rfl
  | cons a t ih =>
    intro h
    rw [List.nodup_cons] at h
    rw [List.eraseDups_cons]
    have : t.filter (fun b => !b == a) = t := by
      rw [List.filter_eq_self]
      intro b hb
      have : b ≠ a := fun e => h.1 (e ▸ hb)
      simpa using this
    rw [this, ih h.2]

/-- positional arguments whose types can be cast to the parameter types, in order -/
inductive PosOK : List Ty → List (Option ArgValue) → Prop
  | nil (tys : List Ty) : PosOK tys []
  | cons (ty vt : Ty) (rg : Nat × Nat) (tys : List Ty) (avs : List (Option ArgValue)) :
      (∀ sm : SymMap, sm.canBeCastedTo vt ty = true) → PosOK tys avs → PosOK (ty :: tys) (some (none, vt, rg) :: avs)

theorem PosOK.length_le {tys : List Ty} {avs : List (Option ArgValue)} (h : PosOK tys avs) : avs.length ≤ tys.length := by
  induction h with
  | nil => simp
  | cons => simp; assumption

theorem forIn_pos (tas : List TemplateArgument)
    (F : Option ArgValue → (List String × Nat) → IxM (ForInStep (List String × Nat)))
    (hF : ∀ vt rg U i a c, tas[i]? = some a → c.symbolMap.canBeCastedTo vt a.typ = true →
      (F (some (none, vt, rg)) (U, i)).run c = .ok (.yield (U.erase a.name, i + 1), c)) :
    ∀ (avs : List (Option ArgValue)) (i : Nat) (c : IndexCtx), PosOK ((tas.drop i).map (·.typ)) avs →
      (forIn avs ((tas.drop i).map (·.name), i) F).run c =
        .ok (((tas.drop (i + avs.length)).map (·.name), i + avs.length), c) := by
  intro avs
  induction avs with
  | nil => intro i c _; rfl
  | cons av avs ih =>
    intro i c h
    cases hd : tas.drop i with
    | nil => rw [hd] at h; cases h
    | cons a rest =>
      rw [hd] at h
      cases h with
      | cons ty vt rg tys avs' hc hrest =>
        have hi : tas[i]? = some a := by
          have := List.getElem?_drop (xs := tas) (i := i) (j := 0)
          rw [hd] at this
          simpa using this.symm
        have hrest' : tas.drop (i + 1) = rest := by
          have : tas.drop (i + 1) = (tas.drop i).drop 1 := by rw [List.drop_drop]
          rw [this, hd]; rfl
        rw [List.forIn_cons]
        simp only [StateT.run_bind, hF vt rg _ i a c hi (hc _), Except.ok_bind, List.map_cons, List.erase_cons_head]
        rw [← hrest'] at hrest ⊢
        have := ih (i + 1) c hrest
        rw [this]
        simp [Nat.add_assoc, Nat.add_comm 1]

theorem forIn_unit_all {α : Type} (G : α → PUnit → IxM (ForInStep PUnit)) (U : List α) (c : IndexCtx)
    (hG : ∀ u ∈ U, (G u PUnit.unit).run c = .ok (.yield PUnit.unit, c)) :
    (forIn U PUnit.unit G).run c = .ok (PUnit.unit, c) := by
  induction U with
  | nil => rfl
  | cons u U ih =>
    rw [List.forIn_cons]
    simp only [StateT.run_bind, hG u List.mem_cons_self, Except.ok_bind]
    exact ih fun v hv => hG v (List.mem_cons_of_mem _ hv)

theorem forIn_pos0 (tas : List TemplateArgument)
    (F : Option ArgValue → (List String × Nat) → IxM (ForInStep (List String × Nat)))
    (hF : ∀ vt rg U i a c, tas[i]? = some a → c.symbolMap.canBeCastedTo vt a.typ = true →
      (F (some (none, vt, rg)) (U, i)).run c = .ok (.yield (U.erase a.name, i + 1), c))
    (avs : List (Option ArgValue)) (c : IndexCtx) (h : PosOK (tas.map (·.typ)) avs) :
    (forIn avs (tas.map (·.name), 0) F).run c = .ok (((tas.drop avs.length).map (·.name), avs.length), c) := by
  have := forIn_pos tas F hF avs 0 c (by simpa using h)
  simpa using this

theorem checkTemplateArgs_positional (tas : List TemplateArgument) (avs : List (Option ArgValue)) (rg : Nat × Nat)
    (c : IndexCtx) (hnd : (tas.map (·.name)).Nodup) (hpos : PosOK (tas.map (·.typ)) avs)
    (hdef : ∀ a ∈ tas.drop avs.length, a.hasDefaultValue = true) :
    (checkTemplateArgs tas avs rg).run c = .ok ((), c) := by
  have hlen : ¬ avs.length > tas.length := by
    have := hpos.length_le
    simp at this
    omega
  unfold checkTemplateArgs
  simp only [hlen, if_false, eraseDups_nodup _ hnd]
  rw [StateT.run_bind, forIn_pos0 tas _ _ avs c hpos]
  · simp only [Except.ok_bind]
    rw [StateT.run_bind, forIn_unit_all]
    · rfl
    · intro u hu
      obtain ⟨b, hb, rfl⟩ := List.mem_map.1 hu
      cases hf : List.find? (fun a => a.name == b.name) tas with
      | none => rfl
      | some arg =>
        have h1 : arg ∈ tas := List.mem_of_find?_eq_some hf
        have h2 : arg.name = b.name := by simpa using List.find?_some hf
        have h3 : arg = b := nodup_map_inj (·.name) tas hnd arg h1 b (List.mem_of_mem_drop hb) h2
        have h4 := hdef b hb
        subst h3
        simp only [h4, Bool.not_true, Bool.false_eq_true, if_false]
        rfl
  · intro vt rg U i a c hi hc
    simp only [hi, StateT.run_bind, canBeCastedTo_run, hc, Except.ok_bind, Bool.not_true, Bool.false_eq_true, if_false]
    rfl


/-! ### the checker of the fourth core and its soundness -/

/-- positional arguments for parameters of the types `tys`: each a literal or an identifier in `scope`
castable to the parameter type -/
def coreArgs4 (scope : Env) : List Ty → List PTree → Bool
  | _, [] => true
  | [], _ :: _ => false
  | ty :: tys, a :: rest =>
    a.kind == .PositionalArgValue &&
    (match Ast.positionalArgValueValue a with
      | some v => coreInit2 scope ty v
      | none => false) &&
    coreArgs4 scope tys rest

theorem TAsOK.args {sm : SymMap} {rid : Nat} {cps : Params} (h : TAsOK sm rid cps) :
    ((sm.record rid).nameToTemplateArg.toList.map fun e => sm.templateArg e.2).map (·.name) = cps.map (·.1) ∧
    ((sm.record rid).nameToTemplateArg.toList.map fun e => sm.templateArg e.2).map (·.typ) = cps.map (·.2.1) ∧
    ((sm.record rid).nameToTemplateArg.toList.map fun e => sm.templateArg e.2).map (·.hasDefaultValue) =
      cps.map (·.2.2) := by
  have h1 := congrArg (List.map (·.2.1)) h.tab
  have h2 := congrArg (List.map (·.2.2.1)) h.tab
  have h3 := congrArg (List.map (·.2.2.2)) h.tab
  simp only [List.map_map] at h1 h2 h3 ⊢
  exact ⟨h1, h2, h3⟩

/-- a reference to a class of the table, with positional arguments: the fields of the class -/
def coreClassRef4 (cenv : CEnv) (scope : Env) (cr : PTree) : Option Env :=
  match Ast.classRefName cr with
  | some nameNode =>
    match Ast.identifierValue nameNode, Ast.identifierRange nameNode with
    | some name, some _ =>
      match cenv.get name with
      | some (cps, flds) =>
        if coreArgs4 scope (cps.map (·.2.1))
            (match Ast.classRefArgValueList cr with
              | some l => Ast.argValueListArgValues l
              | none => []) &&
          (cps.drop (match Ast.classRefArgValueList cr with
              | some l => (Ast.argValueListArgValues l).length
              | none => 0)).all (·.2.2)
        then some flds else none
      | none => none
    | _, _ => none
  | none => none


theorem indexMapInsert_fresh (m : Array (String × Nat)) (k : String) (v : Nat) (h : ∀ e ∈ m.toList, e.1 ≠ k) :
    indexMapInsert m k v = m.push (k, v) := by
  unfold indexMapInsert
  have : m.findIdx? (fun e => e.1 == k) = none := by
    rw [Array.findIdx?_eq_none_iff]
    intro x hx
    have := h x (Array.mem_toList_iff.2 hx)
    simpa using this
  rw [this]

/-- the state after `add_template_argument(ta)` and its registration in the record `rid` -/
def withTA (c : IndexCtx) (rid : Nat) (ta : TemplateArgument) : IndexCtx :=
  (c.setSM (c.symbolMap.addTemplateArgument ta).2).setSM
    ((c.setSM (c.symbolMap.addTemplateArgument ta).2).symbolMap.modRecord rid fun rec =>
      { rec with nameToTemplateArg := indexMapInsert rec.nameToTemplateArg ta.name (c.symbolMap.addTemplateArgument ta).1 })

theorem PInv.declareTA {cenv : CEnv} {N : Std.HashMap String Nat} {rid : Nat} {ps : Params} {bv gv : Env} {outer : List Scope} {xt : XTab} {dt : DTabs} {env : Env} {c : IndexCtx}
    (h : PInv cenv N rid ps bv gv outer xt dt env c) (ta : TemplateArgument) (hname : ta.name ∉ ps.map (·.1))
    (hprim : isPrimTy ta.typ = true) :
    PInv cenv N rid (ps ++ [(ta.name, ta.typ, ta.hasDefaultValue)]) bv gv outer xt dt env (withTA c rid ta) := by
  have hrid : rid < c.symbolMap.recordList.size := by have := h.newest; omega
  have htl : (withTA c rid ta).symbolMap.templateArgList = c.symbolMap.templateArgList.push ta := rfl
  have hrec : ∀ i, i < c.symbolMap.recordList.size →
      (withTA c rid ta).symbolMap.record i =
        (if rid = i then { (c.symbolMap.record i) with nameToTemplateArg :=
            (indexMapInsert (c.symbolMap.record i).nameToTemplateArg ta.name c.symbolMap.templateArgList.size) }
        else c.symbolMap.record i) := by
    intro i hi
    show (Array.modify c.symbolMap.recordList rid _)[i]! = _
    rw [sGetElem!_modify _ _ _ _ hi]
    rfl
  have hag : ∀ i, i < rid → (withTA c rid ta).symbolMap.record i = c.symbolMap.record i := by
    intro i hi
    rw [hrec i (by omega), if_neg (by omega)]
  have hsize : (withTA c rid ta).symbolMap.recordList.size = c.symbolMap.recordList.size := by
    show (Array.modify _ _ _).size = _
    rw [Array.size_modify]
    rfl
  have hold : OlderBelow (withTA c rid ta).symbolMap (withTA c rid ta).symbolMap.recordList.size := by
    intro i hi p hp
    rw [hsize] at hi
    rw [hrec i hi] at hp
    split at hp
    · exact h.k.older i hi p hp
    · exact h.k.older i hi p hp
  have htsz : c.symbolMap.templateArgList.size ≤ (withTA c rid ta).symbolMap.templateArgList.size := by
    rw [htl]; simp
  have hta : ∀ i, i < c.symbolMap.templateArgList.size →
      (withTA c rid ta).symbolMap.templateArg i = c.symbolMap.templateArg i := by
    intro i hi
    show (c.symbolMap.templateArgList.push ta)[i]! = _
    exact sGetElem!_push_lt _ _ _ hi
  have hnew : (withTA c rid ta).symbolMap.templateArg c.symbolMap.templateArgList.size = ta := by
    show (c.symbolMap.templateArgList.push ta)[c.symbolMap.templateArgList.size]! = _
    exact getElem!_push_size _ _
  refine ⟨?_, h.top, by rw [hsize]; exact h.newest, ?_, ?_, h.trace, h.ntc, h.x,
    h.d.transport h.older1 (fun i hi => by rw [hrec i (by omega)]; split <;> rfl)
      (fun i hi => by rw [hrec i (by omega)]; split <;> rfl) (fun _ _ _ => rfl)⟩
  · exact h.k.transport (Nat.le_of_eq hsize.symm) hold hag (Nat.le_refl _) (fun _ _ => rfl) htsz hta (fun _ _ _ => rfl)
  · refine h.exact.transport' (rid + 1) (Nat.lt_succ_self _) (fun i hi => h.k.older i (by omega)) ?_ (Nat.le_refl _)
      (fun _ _ => rfl)
    intro i hi
    rw [hrec i (by omega)]
    split <;> exact ⟨rfl, rfl⟩
  · have hkeys : (c.symbolMap.record rid).nameToTemplateArg.toList.map (·.1) = ps.map (·.1) := by
      have := congrArg (List.map (·.1)) h.tas.tab
      simp only [List.map_map] at this
      exact this
    have hfresh : ∀ e ∈ (c.symbolMap.record rid).nameToTemplateArg.toList, e.1 ≠ ta.name := by
      intro e he e1
      apply hname
      rw [← hkeys, ← e1]
      exact List.mem_map_of_mem he
    have hm : ((withTA c rid ta).symbolMap.record rid).nameToTemplateArg =
        (c.symbolMap.record rid).nameToTemplateArg.push (ta.name, c.symbolMap.templateArgList.size) := by
      rw [hrec rid hrid, if_pos rfl]
      exact indexMapInsert_fresh _ _ _ hfresh
    refine ⟨?_, ?_, ?_, ?_⟩
    · rw [hm, Array.toList_push, List.map_append, List.map_append, ← h.tas.tab]
      congr 1
      · apply List.map_congr_left
        intro e he
        rw [hta e.2 (h.tas.ids e he)]
      · simp only [List.map_cons, List.map_nil, hnew]
    · intro e he
      rw [hm, Array.toList_push, List.mem_append, List.mem_singleton] at he
      rw [htl, Array.size_push]
      rcases he with he | rfl
      · exact Nat.lt_succ_of_lt (h.tas.ids e he)
      · exact Nat.lt_succ_self _
    · rw [List.map_append, List.nodup_append]
      refine ⟨h.tas.nodup, by simp, ?_⟩
      intro a ha b hb
      simp only [List.map_cons, List.map_nil, List.mem_singleton] at hb
      subst hb
      exact fun e => hname (e ▸ ha)
    · intro p hp
      rcases List.mem_append.1 hp with hp | hp
      · exact h.tas.prim p hp
      · simp only [List.mem_singleton] at hp
        subst hp
        exact hprim

theorem coreInit2_mono_right (a b : Env) (ty : Ty) (v : PTree) (h : coreInit2 a ty v = true) :
    coreInit2 (a ++ b) ty v = true := by
  unfold coreInit2 at h ⊢
  cases hl : litValueType v with
  | some lt => rw [hl] at h; exact h
  | none =>
    rw [hl] at h
    simp only at h ⊢
    cases hi : identValueNode v with
    | none => rw [hi] at h; cases h
    | some id =>
      rw [hi] at h
      simp only at h ⊢
      cases h1 : Ast.identifierValue id with
      | none => rw [h1] at h; cases h
      | some nm =>
      cases h2 : Ast.identifierRange id with
      | none => rw [h1, h2] at h; cases h
      | some se =>
      rw [h1, h2] at h
      simp only at h ⊢
      cases hg : a.get nm with
      | none => rw [hg] at h; cases h
      | some t =>
        rw [hg] at h
        rw [Env.get_append, hg]
        exact h

/-- `T p [= init]` in a template parameter list: the parameters afterwards -/
def coreTemplateArgDecl4 (ps : Params) (n : PTree) : Option Params :=
  match Ast.templateArgDeclName n, Ast.templateArgDeclType n with
  | some nameNode, some tn =>
    match Ast.identifierValue nameNode, Ast.identifierRange nameNode with
    | some name, some _ =>
      if isPrimTypeNode tn && !(ps.map (·.1)).contains name then
        match primTypeOf tn with
        | some ty =>
          match Ast.templateArgDeclValue n with
          | none => some (ps ++ [(name, ty, false)])
          | some v =>
            if coreInit2 (Params.env (ps ++ [(name, ty, true)])) ty v then some (ps ++ [(name, ty, true)]) else none
        | none => none
      else none
    | _, _ => none
  | _, _ => none

section core4
variable (k : Nat)

theorem args4_step (cenv : CEnv) (N : Std.HashMap String Nat) (rid : Nat) (ps : Params) (bv gv : Env) (outer : List Scope) (xt : XTab) (dt : DTabs) (env : Env) :
    ∀ (args : List PTree) (tys : List Ty) (c : IndexCtx), PInv cenv N rid ps bv gv outer xt dt env c →
      coreArgs4 (bv ++ (env ++ (ps.env ++ gv))) tys args = true →
      ∃ avs c1, (args.mapM fun a => indexArgValue (mkRec (k + 1)) a).run c = .ok (avs, c1) ∧ PosOK tys avs ∧
        avs.length = args.length ∧ c1.diagnostics = c.diagnostics ∧ PInv cenv N rid ps bv gv outer xt dt env c1 := by
  intro args
  induction args with
  | nil =>
    intro tys c hinv _
    exact ⟨[], c, rfl, PosOK.nil _, rfl, rfl, hinv⟩
  | cons a rest ih =>
    intro tys c hinv hchk
    cases tys with
    | nil => simp [coreArgs4] at hchk
    | cons ty tys =>
      simp only [coreArgs4, Bool.and_eq_true, beq_iff_eq] at hchk
      obtain ⟨⟨hkind, hv⟩, hrest⟩ := hchk
      cases hpv : Ast.positionalArgValueValue a with
      | none => rw [hpv] at hv; cases hv
      | some v =>
        rw [hpv] at hv
        simp only at hv
        obtain ⟨vt, c1, hvr, hcast, hd1, hinv1⟩ := init3_value k cenv N rid ps bv gv outer xt dt env ty v c hinv hv
        obtain ⟨avs, c2, hr2, hpos, hlen, hd2, hinv2⟩ := ih tys c1 hinv1 hrest
        have ha : (indexArgValue (mkRec (k + 1)) a).run c = .ok (some (none, vt, nodeRange a), c1) := by
          unfold indexArgValue
          simp only [hkind, hpv, StateT.run_bind, hvr, Except.ok_bind]
          rfl
        refine ⟨some (none, vt, nodeRange a) :: avs, c2, ?_, PosOK.cons ty vt _ tys avs hcast hpos, by simp [hlen],
          hd2.trans hd1, hinv2⟩
        rw [List.mapM_cons]
        simp only [StateT.run_bind, ha, Except.ok_bind, hr2]
        rfl


theorem resolveClassRefAsClass_args (cenv : CEnv) (N : Std.HashMap String Nat) (rid : Nat) (ps : Params) (bv gv : Env) (outer : List Scope) (xt : XTab) (dt : DTabs) (env flds : Env)
    (cr : PTree) (c : IndexCtx) (hinv : PInv cenv N rid ps bv gv outer xt dt env c)
    (hchk : coreClassRef4 cenv (bv ++ (env ++ (ps.env ++ gv))) cr = some flds) :
    ∃ cid c1, (resolveClassRefAsClass (mkRec (k + 1)) cr).run c = .ok (some cid, c1) ∧ cid < rid ∧
      Exact c1.symbolMap cid flds ∧ c1.diagnostics = c.diagnostics ∧ PInv cenv N rid ps bv gv outer xt dt env c1 ∧
      (∀ name, (Ast.classRefName cr).bind Ast.identifierValue = some name → N[name]? = some cid) := by
  obtain ⟨f, frest, hft⟩ : ∃ f rest, c.fileTrace = f :: rest := by
    cases hc : c.fileTrace with
    | nil => exact absurd hc hinv.trace
    | cons f rest => exact ⟨f, rest, rfl⟩
  unfold coreClassRef4 at hchk
  cases hnn : Ast.classRefName cr with
  | none => rw [hnn] at hchk; cases hchk
  | some nameNode =>
  rw [hnn] at hchk
  simp only at hchk
  cases hiv : Ast.identifierValue nameNode with
  | none => rw [hiv] at hchk; cases hchk
  | some name =>
  cases hir : Ast.identifierRange nameNode with
  | none => rw [hiv, hir] at hchk; cases hchk
  | some se =>
  rw [hiv, hir] at hchk
  simp only at hchk
  cases hcg : cenv.get name with
  | none => rw [hcg] at hchk; cases hchk
  | some e =>
  obtain ⟨cps, flds0⟩ := e
  rw [hcg] at hchk
  simp only at hchk
  obtain ⟨cid, hc1, hc2, hc3, hc4⟩ := hinv.k.classes name cps flds0 hcg
  have hid := identOf_of f nameNode name se hiv hir
  have hnameN : ∀ nm, (some nameNode).bind Ast.identifierValue = some nm → N[nm]? = some cid := by
    intro nm hnm
    simp only [Option.bind_some, hiv, Option.some.injEq] at hnm
    subst hnm
    rw [← hinv.ntc]
    exact hc1
  have hinv0 := hinv.addReference (.record cid) ⟨f, se.1, se.2⟩
  have hc3' : TAsOK (c.setSM (c.symbolMap.addReference (.record cid) ⟨f, se.1, se.2⟩)).symbolMap cid cps :=
    hc3.transport rfl (Nat.le_refl _) (fun _ _ => rfl)
  obtain ⟨a1, a2, a3⟩ := hc3'.args
  -- `check_template_args` after the arguments
  have hcta : ∀ (args : List PTree) (avs : List (Option ArgValue)) (c1 : IndexCtx), PosOK (cps.map (·.2.1)) avs →
      avs.length = args.length → (cps.drop args.length).all (·.2.2) = true →
      (checkTemplateArgs
        (((c.setSM (c.symbolMap.addReference (.record cid) ⟨f, se.1, se.2⟩)).symbolMap.record cid).nameToTemplateArg.toList.map
          fun e => (c.setSM (c.symbolMap.addReference (.record cid) ⟨f, se.1, se.2⟩)).symbolMap.templateArg e.2)
        avs (nodeRange cr)).run c1 = .ok ((), c1) := by
    intro args avs c1 hpos hlen hdef
    apply checkTemplateArgs_positional _ avs _ c1 (by rw [a1]; exact hc3.nodup) (by rw [a2]; exact hpos)
    intro a ha
    have := List.mem_map_of_mem (f := (·.hasDefaultValue)) ha
    rw [List.map_drop, a3, ← List.map_drop, hlen] at this
    obtain ⟨p, hp, hpe⟩ := List.mem_map.1 this
    rw [← hpe]
    exact List.all_eq_true.1 hdef p hp
  have hfin : ∀ (args : List PTree), coreArgs4 (bv ++ (env ++ (ps.env ++ gv))) (cps.map (·.2.1)) args = true →
      (cps.drop args.length).all (·.2.2) = true →
      ∃ avs c1, (args.mapM fun a => indexArgValue (mkRec (k + 1)) a).run
          (c.setSM (c.symbolMap.addReference (.record cid) ⟨f, se.1, se.2⟩)) = .ok (avs, c1) ∧
        (checkTemplateArgs
          (((c.setSM (c.symbolMap.addReference (.record cid) ⟨f, se.1, se.2⟩)).symbolMap.record cid).nameToTemplateArg.toList.map
            fun e => (c.setSM (c.symbolMap.addReference (.record cid) ⟨f, se.1, se.2⟩)).symbolMap.templateArg e.2)
          avs (nodeRange cr)).run c1 = .ok ((), c1) ∧
        Exact c1.symbolMap cid flds0 ∧ c1.diagnostics = c.diagnostics ∧ PInv cenv N rid ps bv gv outer xt dt env c1 := by
    intro args h1 h2
    obtain ⟨avs, c1, hr1, hpos, hlen, hd1, hinv1⟩ := args4_step k cenv N rid ps bv gv outer xt dt env args _ _ hinv0 h1
    obtain ⟨cid', g1, g2, g3, g4⟩ := hinv1.k.classes name cps flds0 hcg
    have hcid : cid' = cid := by
      rw [hinv1.ntc] at g1
      rw [hinv.ntc] at hc1
      exact Option.some.inj (g1.symm.trans hc1)
    subst hcid
    exact ⟨avs, c1, hr1, hcta args avs c1 hpos hlen h2, g4, hd1, hinv1⟩
  unfold resolveClassRefAsClass templateArgsOf
  cases hal : Ast.classRefArgValueList cr with
  | none =>
    rw [hal] at hchk
    simp only at hchk
    by_cases hok : (coreArgs4 (bv ++ (env ++ (ps.env ++ gv))) (cps.map (·.2.1)) [] && (cps.drop 0).all (·.2.2)) = true
    · simp only [hok, if_true] at hchk
      cases hchk
      simp only [Bool.and_eq_true] at hok
      obtain ⟨avs, c1, hr1, hct, hex, hd1, hinv1⟩ := hfin [] hok.1 hok.2
      simp only [List.mapM_nil, StateT.run_pure] at hr1
      cases hr1
      refine ⟨cid, _, ?_, hc2, hex, hd1, hinv1, hnameN⟩
      simp only [hnn, StateT.run_bind, utilsIdentifier_runOf nameNode c f frest hft, hid, Except.ok_bind, withSM_run,
        SymMap.findClass, hc1, addReference_run, StateT.run_pure, pure_bind, hct]
      rfl
    · simp only [hok, Bool.false_eq_true, if_false] at hchk
      cases hchk
  | some l =>
    rw [hal] at hchk
    simp only at hchk
    by_cases hok : (coreArgs4 (bv ++ (env ++ (ps.env ++ gv))) (cps.map (·.2.1)) (Ast.argValueListArgValues l) &&
        (cps.drop (Ast.argValueListArgValues l).length).all (·.2.2)) = true
    · simp only [hok, if_true] at hchk
      cases hchk
      simp only [Bool.and_eq_true] at hok
      obtain ⟨avs, c1, hr1, hct, hex, hd1, hinv1⟩ := hfin _ hok.1 hok.2
      refine ⟨cid, c1, ?_, hc2, hex, hd1, hinv1, hnameN⟩
      unfold indexArgValueList
      simp only [hnn, StateT.run_bind, utilsIdentifier_runOf nameNode c f frest hft, hid, Except.ok_bind, withSM_run,
        SymMap.findClass, hc1, addReference_run, StateT.run_pure, hr1, hct]
      rfl
    · simp only [hok, Bool.false_eq_true, if_false] at hchk
      cases hchk


theorem templateArgDecl4_step (cenv : CEnv) (N : Std.HashMap String Nat) (n : PTree) (rid : Nat) (ps ps' : Params) (gv : Env) (outer : List Scope) (xt : XTab) (dt : DTabs)
    (c c' : IndexCtx) (hinv : PInv cenv N rid ps [] gv outer xt dt [] c) (hchk : coreTemplateArgDecl4 ps n = some ps')
    (hrun : (indexTemplateArgDecl (mkRec (k + 1)) n).run c = .ok ((), c')) :
    c'.diagnostics = c.diagnostics ∧ PInv cenv N rid ps' [] gv outer xt dt [] c' := by
  obtain ⟨f, rest, hft⟩ : ∃ f rest, c.fileTrace = f :: rest := by
    cases hc : c.fileTrace with
    | nil => exact absurd hc hinv.trace
    | cons f rest => exact ⟨f, rest, rfl⟩
  unfold coreTemplateArgDecl4 at hchk
  cases hnn : Ast.templateArgDeclName n with
  | none => rw [hnn] at hchk; cases hchk
  | some nameNode =>
  cases htn : Ast.templateArgDeclType n with
  | none => rw [hnn, htn] at hchk; cases hchk
  | some tn =>
  rw [hnn, htn] at hchk
  simp only at hchk
  cases hiv : Ast.identifierValue nameNode with
  | none => rw [hiv] at hchk; cases hchk
  | some name =>
  cases hir : Ast.identifierRange nameNode with
  | none => rw [hiv, hir] at hchk; cases hchk
  | some se =>
  rw [hiv, hir] at hchk
  simp only at hchk
  by_cases hok : (isPrimTypeNode tn && !(ps.map (·.1)).contains name) = true
  · simp only [hok, if_true] at hchk
    simp only [Bool.and_eq_true, Bool.not_eq_true', List.contains_eq_mem, decide_eq_false_iff_not] at hok
    obtain ⟨hprim, hfresh⟩ := hok
    cases hty : primTypeOf tn with
    | none => rw [hty] at hchk; cases hchk
    | some ty =>
    rw [hty] at hchk
    simp only at hchk
    have hpty := primTypeOf_prim tn ty hty
    have hid := identOf_of f nameNode name se hiv hir
    have htyp : ((mkRec (k + 1)).typ tn).run c = .ok (some ty, c) := by
      have := indexType_prim (mkRec k) tn hprim c
      rw [hty] at this
      exact this
    have hinv2 := hinv.declareTA
      { name := name, typ := ty, hasDefaultValue := (Ast.templateArgDeclValue n).isSome, defineLoc := ⟨f, se.1, se.2⟩ }
      hfresh hpty
    unfold indexTemplateArgDecl at hrun
    simp only [StateT.run_bind, hnn, utilsIdentifier_runOf nameNode c f rest hft, hid, Except.ok_bind, htn, htyp,
      addTemplateArgument_run, currentRecordId_run, IndexCtx.setSM_scopes, hinv.currentRecordId, recordMut_run] at hrun
    change (StateT.run _ (withTA c rid
      { name := name, typ := ty, hasDefaultValue := (Ast.templateArgDeclValue n).isSome, defineLoc := ⟨f, se.1, se.2⟩ })) = _
      at hrun
    cases hv : Ast.templateArgDeclValue n with
    | none =>
      rw [hv] at hrun hchk hinv2
      cases hrun
      cases hchk
      exact ⟨rfl, hinv2⟩
    | some v =>
      rw [hv] at hrun hchk hinv2
      simp only at hrun hchk
      by_cases hci : coreInit2 (Params.env (ps ++ [(name, ty, true)])) ty v = true
      · simp only [hci, if_true] at hchk
        cases hchk
        obtain ⟨vt, c1, hvr, hcast, hd, hi⟩ := init3_value k cenv N rid _ [] gv outer xt dt [] ty v _ hinv2 (coreInit2_mono_right _ gv ty v hci)
        simp only [StateT.run_bind, hvr, Except.ok_bind, canBeCastedTo_run, hcast, Bool.not_true, Bool.false_eq_true,
          if_false] at hrun
        cases hrun
        exact ⟨hd, hi⟩
      · simp only [hci, Bool.false_eq_true, if_false] at hchk
        cases hchk
  · simp only [hok, Bool.false_eq_true, if_false] at hchk
    cases hchk

def coreTemplateArgs4 : Params → List PTree → Option Params
  | ps, [] => some ps
  | ps, d :: rest =>
    match coreTemplateArgDecl4 ps d with
    | some ps' => coreTemplateArgs4 ps' rest
    | none => none

theorem templateArgList4_step (cenv : CEnv) (N : Std.HashMap String Nat) (tl : PTree) (rid : Nat) (ps ps' : Params) (gv : Env) (outer : List Scope) (xt : XTab) (dt : DTabs)
    (c c' : IndexCtx) (hinv : PInv cenv N rid ps [] gv outer xt dt [] c)
    (hchk : coreTemplateArgs4 ps (Ast.templateArgListArgs tl) = some ps')
    (hrun : (indexTemplateArgList (mkRec (k + 1)) tl).run c = .ok ((), c')) :
    c'.diagnostics = c.diagnostics ∧ PInv cenv N rid ps' [] gv outer xt dt [] c' := by
  unfold indexTemplateArgList at hrun
  obtain ⟨u, c'', hloop, hpure⟩ := IxM.run_bind_ok hrun
  simp only [StateT.run_pure] at hpure
  cases hpure
  clear hrun
  generalize Ast.templateArgListArgs tl = l at hchk hloop
  induction l generalizing ps c with
  | nil =>
    simp only [List.forIn_nil, StateT.run_pure] at hloop
    cases hloop
    cases hchk
    exact ⟨rfl, hinv⟩
  | cons d rest ih =>
    rw [List.forIn_cons] at hloop
    obtain ⟨st, c1, h1, hloop⟩ := IxM.run_bind_ok hloop
    obtain ⟨_, c1', j1, j2⟩ := IxM.run_bind_ok h1
    simp only [StateT.run_pure] at j2
    cases j2
    unfold coreTemplateArgs4 at hchk
    cases hd : coreTemplateArgDecl4 ps d with
    | none => rw [hd] at hchk; cases hchk
    | some ps1 =>
      rw [hd] at hchk
      obtain ⟨q1, hinv1⟩ := templateArgDecl4_step k cenv N d rid ps ps1 gv outer xt dt c c1 hinv hd j1
      obtain ⟨q2, r⟩ := ih ps1 c1 hinv1 hchk hloop
      exact ⟨q2.trans q1, r⟩

/-- the parents of the fourth core: classes of the table with positional arguments -/
def coreParents4 (cenv : CEnv) (pe : Env) : Env → List PTree → Option Env
  | env, [] => some env
  | env, cr :: rest =>
    match coreClassRef4 cenv (env ++ pe) cr with
    | some flds => coreParents4 cenv pe (env ++ flds) rest
    | none => none

theorem parents4_step (cenv : CEnv) (N : Std.HashMap String Nat) (pcl : PTree) (rid : Nat) (ps : Params) (gv : Env) (outer : List Scope) (xt : XTab) (dt : DTabs) (env env' : Env)
    (c c' : IndexCtx) (hinv : PInv cenv N rid ps [] gv outer xt dt env c)
    (hchk : coreParents4 cenv (ps.env ++ gv) env (Ast.parentClassListClasses pcl) = some env')
    (hrun : (indexParentClassList (mkRec (k + 1)) pcl).run c = .ok ((), c')) :
    c'.diagnostics = c.diagnostics ∧ PInv cenv N rid ps [] gv outer xt dt env' c' := by
  unfold indexParentClassList at hrun
  obtain ⟨r0, c0, h0, hrun1⟩ := IxM.run_bind_ok hrun
  rw [currentRecordId_run, hinv.currentRecordId] at h0
  cases h0
  simp only at hrun1
  obtain ⟨u, c'', hloop, hpure⟩ := IxM.run_bind_ok hrun1
  simp only [StateT.run_pure] at hpure
  cases hpure
  clear hrun hrun1
  generalize Ast.parentClassListClasses pcl = l at hchk hloop
  induction l generalizing env c with
  | nil =>
    simp only [List.forIn_nil, StateT.run_pure] at hloop
    cases hloop
    cases hchk
    exact ⟨rfl, hinv⟩
  | cons cr rest ih =>
    rw [List.forIn_cons] at hloop
    obtain ⟨st, c1, h1, hloop⟩ := IxM.run_bind_ok hloop
    unfold coreParents4 at hchk
    cases hp : coreClassRef4 cenv (env ++ (ps.env ++ gv)) cr with
    | none => rw [hp] at hchk; cases hchk
    | some flds =>
      rw [hp] at hchk
      simp only at hchk
      obtain ⟨cid, c2, hres, hlt, hex, hd, hinv2, _⟩ := resolveClassRefAsClass_args k cenv N rid ps [] gv outer xt dt env flds cr c hinv hp
      have hne : (cid == rid) = false := by simp; omega
      simp only [StateT.run_bind, hres, Except.ok_bind, hne, Bool.false_eq_true, if_false, recordMut_run,
        StateT.run_pure] at h1
      cases h1
      have hinv3 := hinv2.pushParent cid hlt flds hex
      obtain ⟨q, hi⟩ := ih (env ++ flds) _ hinv3 hchk hloop
      exact ⟨q.trans hd, hi⟩

/-- a record body of the fourth core -/
def coreRecordBody4 (cenv : CEnv) (pe : Env) (rb : PTree) : Option Env :=
  match Ast.recordBodyParentClassList rb with
  | none => some []
  | some pcl =>
    match coreParents4 cenv pe [] (Ast.parentClassListClasses pcl) with
    | some env =>
      match Ast.recordBodyBody rb with
      | none => some env
      | some b => coreItems3 pe env (Ast.bodyItems b)
    | none => none

theorem recordBody4_step (cenv : CEnv) (N : Std.HashMap String Nat) (rb : PTree) (rid : Nat) (ps : Params) (outer : List Scope) (xt : XTab) (dt : DTabs) (env' : Env)
    (c c' : IndexCtx) (hinv : PInv cenv N rid ps [] [] outer xt dt [] c) (hchk : coreRecordBody4 cenv ps.env rb = some env')
    (hrun : (indexRecordBody (mkRec (k + 1)) rb).run c = .ok ((), c')) :
    c'.diagnostics = c.diagnostics ∧ PInv cenv N rid ps [] [] outer xt dt env' c' := by
  unfold coreRecordBody4 at hchk
  unfold indexRecordBody at hrun
  cases hp : Ast.recordBodyParentClassList rb with
  | none => rw [hp] at hrun hchk; cases hrun; cases hchk; exact ⟨rfl, hinv⟩
  | some pcl =>
    rw [hp] at hrun hchk
    simp only at hrun hchk
    cases hps : coreParents4 cenv ps.env [] (Ast.parentClassListClasses pcl) with
    | none => rw [hps] at hchk; cases hchk
    | some env =>
      rw [hps] at hchk
      simp only at hchk
      obtain ⟨_, c1, h1, hrun⟩ := IxM.run_bind_ok hrun
      obtain ⟨hd1, hinv1⟩ := parents4_step k cenv N pcl rid ps [] outer xt dt [] env c c1 hinv (by rw [List.append_nil]; exact hps) h1
      cases hb : Ast.recordBodyBody rb with
      | none => rw [hb] at hrun hchk; cases hrun; cases hchk; exact ⟨hd1, hinv1⟩
      | some b =>
        rw [hb] at hrun hchk
        simp only at hrun hchk
        unfold indexBody at hrun
        obtain ⟨u, c2, h2, h3⟩ := IxM.run_bind_ok hrun
        simp only [StateT.run_pure] at h3
        cases h3
        obtain ⟨hd2, hinv2⟩ := items3_step k cenv N _ rid ps outer xt dt env env' c1 c' u hinv1 hchk h2
        exact ⟨hd2.trans hd1, hinv2⟩


/-- `class C [<params>] [: parents] { … }` of the fourth core; the class table afterwards -/
def coreClass4 (cenv : CEnv) (n : PTree) : Option CEnv :=
  match Ast.className n with
  | some nameNode =>
    match Ast.identifierValue nameNode, Ast.identifierRange nameNode with
    | some name, some _ =>
      match (match Ast.classTemplateArgList n with
        | some tl => coreTemplateArgs4 [] (Ast.templateArgListArgs tl)
        | none => some []) with
      | some ps =>
        match Ast.classRecordBody n with
        | none => some ((name, some (ps, [])) :: cenv)
        | some rb =>
          match coreRecordBody4 ((name, none) :: cenv) ps.env rb with
          | some env => some ((name, some (ps, env)) :: cenv)
          | none => none
      | none => none
    | _, _ => none
  | none => none

/-- `class`, for any checker `chk` of record bodies -/
def coreClassG (chk : CEnv → XTab → Params → PTree → Option Env) (cenv : CEnv) (xt : XTab) (n : PTree) : Option CEnv :=
  match Ast.className n with
  | some nameNode =>
    match Ast.identifierValue nameNode, Ast.identifierRange nameNode with
    | some name, some _ =>
      match (match Ast.classTemplateArgList n with
        | some tl => coreTemplateArgs4 [] (Ast.templateArgListArgs tl)
        | none => some []) with
      | some ps =>
        match Ast.classRecordBody n with
        | none => some ((name, some (ps, [])) :: cenv)
        | some rb =>
          match chk ((name, none) :: cenv) ((name, none) :: xt) ps rb with
          | some env => some ((name, some (ps, env)) :: cenv)
          | none => none
      | none => none
    | _, _ => none
  | none => none

theorem coreClass4_eq (cenv : CEnv) (n : PTree) :
    coreClass4 cenv n = coreClassG (fun ce _ ps rb => coreRecordBody4 ce ps.env rb) cenv [] n := rfl

/-- the name of a `class` statement -/
def classNameOf (n : PTree) : Option String := (Ast.className n).bind Ast.identifierValue

/-- the ancestors filed for the class -/
def classOwn (ownFn : XTab → PTree → List Nat) (xt : XTab) (n : PTree) : List Nat :=
  match classNameOf n, Ast.classRecordBody n with
  | some name, some rb => ownFn ((name, none) :: xt) rb
  | _, _ => []

theorem indexClassG_step (chk : CEnv → XTab → Params → PTree → Option Env) (gv : Env) (dt : DTabs)
    (ownFn : XTab → PTree → List Nat) (sc0 : List Scope)
    (hbody : ∀ (cenv' : CEnv) (xt' : XTab) (ps : Params) (rb : PTree) (env : Env) (N : Std.HashMap String Nat) (rid : Nat)
      (outer : List Scope) (c6 c7 : IndexCtx), outer = sc0 →
      PInv cenv' N rid ps [] gv outer xt' dt [] c6 → chk cenv' xt' ps rb = some env →
      (indexRecordBody (mkRec (k + 1)) rb).run c6 = .ok ((), c7) →
      c7.diagnostics = c6.diagnostics ∧ ∃ bv, PInv cenv' N rid ps bv gv outer xt' { dt with own := ownFn xt' rb } env c7)
    (cenv cenv' : CEnv) (xt : XTab) (n : PTree) (c c' : IndexCtx) (hT : TabInv cenv c)
    (houter : OuterOK c.symbolMap c.scopes.scopes gv) (hsc : c.scopes.scopes = sc0)
    (hxt : XInv xt c.symbolMap.recordList.size c.symbolMap)
    (hdt : DInv dt c.symbolMap.recordList.size c.symbolMap) (hown : dt.own = [])
    (hchk : coreClassG chk cenv xt n = some cenv') (hrun : (indexClass (mkRec (k + 1)) n).run c = .ok ((), c')) :
    c'.diagnostics = c.diagnostics ∧ TabInv cenv' c' ∧ c'.scopes.scopes = c.scopes.scopes ∧
      (∀ name, classNameOf n = some name →
        XInv ((name, some c.symbolMap.recordList.size) :: xt) c'.symbolMap.recordList.size c'.symbolMap) ∧
      c'.symbolMap.recordList.size = c.symbolMap.recordList.size + 1 ∧
      DInv (closeTab { dt with own := classOwn ownFn xt n } c.symbolMap.recordList.size) c'.symbolMap.recordList.size
        c'.symbolMap := by
  obtain ⟨f, rest, hft⟩ : ∃ f rest, c.fileTrace = f :: rest := by
    cases hc : c.fileTrace with
    | nil => exact absurd hc hT.trace
    | cons f rest => exact ⟨f, rest, rfl⟩
  unfold coreClassG at hchk
  cases hnn : Ast.className n with
  | none => rw [hnn] at hchk; cases hchk
  | some nameNode =>
  rw [hnn] at hchk
  simp only at hchk
  cases hiv : Ast.identifierValue nameNode with
  | none => rw [hiv] at hchk; cases hchk
  | some name =>
  cases hir : Ast.identifierRange nameNode with
  | none => rw [hiv, hir] at hchk; cases hchk
  | some se =>
  rw [hiv, hir] at hchk
  simp only at hchk
  have hid := identOf_of f nameNode name se hiv hir
  unfold indexClass at hrun
  rw [hnn] at hrun
  simp only at hrun
  obtain ⟨x1, c1, h1, hrun⟩ := IxM.run_bind_ok hrun
  rw [utilsIdentifier_runOf nameNode c f rest hft, hid] at h1
  cases h1
  simp only at hrun
  obtain ⟨id, c2, h2, hrun⟩ := IxM.run_bind_ok hrun
  have h2' : (addRecord { name := name, kind := .cls, defineLoc := ⟨f, se.1, se.2⟩ } true).run c =
      .ok ((c.symbolMap.addRecord { name := name, kind := .cls, defineLoc := ⟨f, se.1, se.2⟩ } true).1,
        c.setSM (c.symbolMap.addRecord { name := name, kind := .cls, defineLoc := ⟨f, se.1, se.2⟩ } true).2) := rfl
  rw [h2'] at h2
  cases h2
  obtain ⟨t1, t2, t3, t4, t5⟩ := addRecord_tab c.symbolMap { name := name, kind := .cls, defineLoc := ⟨f, se.1, se.2⟩ } true
  simp only at t4
  have ho : OpenedRec { name := name, kind := .cls, defineLoc := ⟨f, se.1, se.2⟩ } c
      (c.setSM (c.symbolMap.addRecord { name := name, kind := .cls, defineLoc := ⟨f, se.1, se.2⟩ } true).2) :=
    ⟨rfl, rfl, t2, t3, t5, addRecord_vars _ _ _, rfl⟩
  obtain ⟨_, c3, h3, hrun⟩ := IxM.run_bind_ok hrun
  rw [t1] at h3
  have hcls : ∀ cname e, CEnv.get ((name, none) :: cenv) cname = some e →
      cenv.get cname = some e ∧
        (c.setSM (c.symbolMap.addRecord { name := name, kind := .cls, defineLoc := ⟨f, se.1, se.2⟩ } true).2).symbolMap.nameToClass[cname]? =
          c.symbolMap.nameToClass[cname]? := by
    intro cname e hg
    rw [CEnv.get_cons] at hg
    by_cases e : cname = name
    · rw [if_pos e] at hg; cases hg
    · rw [if_neg e] at hg
      refine ⟨hg, ?_⟩
      simp only [IndexCtx.setSM_symbolMap, t4]
      rw [Std.HashMap.getElem?_insert]
      have : (name == cname) = false := by simpa using fun e' => e e'.symm
      simp [this]
  obtain ⟨q3, hinv3⟩ := PInv.ofOpen (cenv' := (name, none) :: cenv) hT houter (xt := xt) (xt' := (name, none) :: xt) hxt
    (fun nm id hg => by
      rw [XTab.get_cons] at hg
      by_cases e : nm = name
      · rw [if_pos e] at hg; cases hg
      · rw [if_neg e] at hg
        refine ⟨hg, ?_⟩
        simp only [IndexCtx.setSM_symbolMap, t4]
        rw [Std.HashMap.getElem?_insert]
        have : (name == nm) = false := by simpa using fun e' => e e'.symm
        simp [this]) (dtB := dt)
    (by
      have hd0 := hdt.opened hT.k.older { name := name, kind := .cls, defineLoc := ⟨f, se.1, se.2⟩ }
        (sm' := (c.symbolMap.addRecord { name := name, kind := .cls, defineLoc := ⟨f, se.1, se.2⟩ } true).2) t2 rfl dt.defs
        (fun nm id hg => Or.inl ⟨hg, by rw [addRecord_nameToDef]⟩)
      have e : ({ defs := dt.defs, anc := dt.anc, own := [] } : DTabs) = dt := by
        cases dt; simp only at hown; subst hown; rfl
      rw [e] at hd0
      exact hd0) _ rfl rfl rfl ho hcls h3
  have hN : (c.setSM (c.symbolMap.addRecord { name := name, kind := .cls, defineLoc := ⟨f, se.1, se.2⟩ } true).2).symbolMap.nameToClass[name]? =
      some c.symbolMap.recordList.size := by
    simp only [IndexCtx.setSM_symbolMap, t4]
    simp
  have hclose : ∀ (ps : Params) (bv gv : Env) (own : List Nat) (env : Env) (c4 : IndexCtx), c4.diagnostics = c.diagnostics →
      PInv ((name, none) :: cenv)
        (c.setSM (c.symbolMap.addRecord { name := name, kind := .cls, defineLoc := ⟨f, se.1, se.2⟩ } true).2).symbolMap.nameToClass
        c.symbolMap.recordList.size ps bv gv c.scopes.scopes ((name, none) :: xt) { dt with own := own } env c4 →
      scopesPop.run c4 = .ok ((), c') → c'.diagnostics = c.diagnostics ∧ TabInv ((name, some (ps, env)) :: cenv) c' ∧
        c'.scopes.scopes = c.scopes.scopes ∧
        (∀ name', classNameOf n = some name' →
          XInv ((name', some c.symbolMap.recordList.size) :: xt) c'.symbolMap.recordList.size c'.symbolMap) ∧
        c'.symbolMap.recordList.size = c.symbolMap.recordList.size + 1 ∧
        DInv (closeTab { dt with own := own } c.symbolMap.recordList.size) c'.symbolMap.recordList.size c'.symbolMap := by
    intro ps bv gv own env c4 q4 hinv4 h5
    have s5 := scopesPop_eqs h5
    refine ⟨s5.1.trans q4, hinv4.close ?_ s5.2.2.1 s5.2.1, hinv4.popped h5, ?_, by rw [s5.2.2.1, ← hinv4.newest],
      hinv4.closeD s5.2.2.1⟩
    · intro cname flds hg
      rw [CEnv.get_cons] at hg ⊢
      by_cases e : cname = name
      · rw [if_pos e] at hg
        cases hg
        exact Or.inr ⟨by rw [e]; exact hN, rfl⟩
      · rw [if_neg e] at hg ⊢
        exact Or.inl hg
    · intro name' hn'
      have : name' = name := by
        unfold classNameOf at hn'
        rw [hnn] at hn'
        simp only [Option.bind_some, hiv, Option.some.injEq] at hn'
        exact hn'.symm
      subst this
      refine hinv4.closeX ?_ s5.2.2.1
      intro nm id hg
      rw [XTab.get_cons] at hg ⊢
      by_cases e : nm = name'
      · rw [if_pos e] at hg
        cases hg
        exact Or.inr ⟨by rw [e]; exact hN, rfl⟩
      · rw [if_neg e] at hg ⊢
        exact Or.inl hg
  -- the template parameters
  have hhead : ∃ ps c3', (match Ast.classTemplateArgList n with
        | some tl => coreTemplateArgs4 [] (Ast.templateArgListArgs tl)
        | none => some []) = some ps ∧ c3'.diagnostics = c.diagnostics ∧
      PInv ((name, none) :: cenv)
        (c.setSM (c.symbolMap.addRecord { name := name, kind := .cls, defineLoc := ⟨f, se.1, se.2⟩ } true).2).symbolMap.nameToClass
        c.symbolMap.recordList.size ps [] gv c.scopes.scopes ((name, none) :: xt) dt [] c3' ∧
      (match Ast.classRecordBody n with
        | some body => do
          indexRecordBody (mkRec (k + 1)) body
          scopesPop
        | none => scopesPop).run c3' = .ok ((), c') := by
    cases htl : Ast.classTemplateArgList n with
    | none =>
      rw [htl] at hrun hchk
      simp only at hrun hchk
      cases hb : Ast.classRecordBody n <;> rw [hb] at hrun <;> exact ⟨[], c3, rfl, q3, hinv3, hrun⟩
    | some tl =>
      rw [htl] at hrun hchk
      simp only at hrun hchk
      obtain ⟨_, c3', h3', hrun⟩ := IxM.run_bind_ok hrun
      cases hps : coreTemplateArgs4 [] (Ast.templateArgListArgs tl) with
      | none => rw [hps] at hchk; cases hchk
      | some ps =>
        obtain ⟨q, hi⟩ := templateArgList4_step k _ _ tl _ [] ps gv _ _ _ c3 c3' hinv3 hps h3'
        cases hb : Ast.classRecordBody n <;> rw [hb] at hrun <;> exact ⟨ps, c3', hps, q.trans q3, hi, hrun⟩
  obtain ⟨ps, c3', hps, q3', hinv3', hrun'⟩ := hhead
  rw [hps] at hchk
  simp only at hchk
  cases hb : Ast.classRecordBody n with
  | none =>
    rw [hb] at hrun' hchk
    simp only at hrun' hchk
    cases hchk
    have hcn : classNameOf n = some name := by unfold classNameOf; rw [hnn]; exact hiv
    have e1 : classOwn ownFn xt n = [] := by unfold classOwn; rw [hcn, hb]
    have e2 : ({ dt with own := [] } : DTabs) = dt := by cases dt; simp only at hown; subst hown; rfl
    rw [e1]
    exact hclose ps [] gv [] [] c3' q3' (by rw [e2]; exact hinv3') hrun'
  | some rb =>
    rw [hb] at hrun' hchk
    simp only at hrun' hchk
    cases hrb : chk ((name, none) :: cenv) ((name, none) :: xt) ps rb with
    | none => rw [hrb] at hchk; cases hchk
    | some env =>
      rw [hrb] at hchk
      cases hchk
      obtain ⟨_, c4, h4, hrun'⟩ := IxM.run_bind_ok hrun'
      obtain ⟨q4, bv4, hinv4⟩ := hbody _ _ ps rb env _ _ _ c3' c4 hsc hinv3' hrb h4
      have hcn : classNameOf n = some name := by unfold classNameOf; rw [hnn]; exact hiv
      have e1 : classOwn ownFn xt n = ownFn ((name, none) :: xt) rb := by unfold classOwn; rw [hcn, hb]
      rw [e1]
      exact hclose ps bv4 gv _ env c4 (q4.trans q3') hinv4 hrun'

theorem indexClass4_step (cenv cenv' : CEnv) (n : PTree) (c c' : IndexCtx) (hT : TabInv cenv c)
    (hchk : coreClass4 cenv n = some cenv') (hrun : (indexClass (mkRec (k + 1)) n).run c = .ok ((), c')) :
    c'.diagnostics = c.diagnostics ∧ TabInv cenv' c' := by
  rw [coreClass4_eq] at hchk
  have h := indexClassG_step k _ [] {} (fun _ _ => []) c.scopes.scopes
    (fun cenv' xt' ps rb env N rid outer c6 c7 _ hinv hrb h7 =>
      let ⟨q, hi⟩ := recordBody4_step k cenv' N rb rid ps outer xt' {} env c6 c7 hinv hrb h7
      ⟨q, [], hi⟩) cenv cenv' [] n c c' hT (OuterOK.nil _ _) rfl (XInv.nil _ _) (DInv.nil _ _) rfl hchk hrun
  exact ⟨h.1, h.2.1⟩

/-- `def d [: parents] { … }` of the fourth core (any name, or anonymous) -/
def coreDef4 (cenv : CEnv) (n : PTree) : Bool :=
  match Ast.defRecordBody n with
  | none => true
  | some rb => (coreRecordBody4 cenv [] rb).isSome

theorem indexDef4_step (cenv : CEnv) (n : PTree) (c c' : IndexCtx) (hT : TabInv cenv c) (hchk : coreDef4 cenv n = true)
    (hrun : (indexDef (mkRec (k + 1)) n).run c = .ok ((), c')) : c'.diagnostics = c.diagnostics ∧ TabInv cenv c' := by
  suffices h : c'.diagnostics = c.diagnostics ∧ TabInv cenv c' ∧
      ((Ast.defRecordBody n).isSome = true → c'.scopes.scopes = c.scopes.scopes) ∧
      XInv [] c'.symbolMap.recordList.size c'.symbolMap ∧
      c'.symbolMap.recordList.size = c.symbolMap.recordList.size + 1 from ⟨h.1, h.2.1⟩
  have h := indexDefG_step k cenv (coreRecordBody4 cenv []) [] [] {} (fun _ => []) c.scopes.scopes
    (fun rb env N rid outer c6 c7 _ hinv hrb h7 =>
      let ⟨q, hi⟩ := recordBody4_step k cenv N rb rid [] outer [] {} env c6 c7 hinv hrb h7
      ⟨q, [], hi⟩) n c c' hT (OuterOK.nil _ _) rfl (XInv.nil _ _) rfl (fun _ _ _ _ _ _ _ _ => DInv.nil _ _) ?_ hrun
  · exact ⟨h.1, h.2.1, h.2.2.1, h.2.2.2.1, h.2.2.2.2.1⟩
  intro rb hb
  unfold coreDef4 at hchk
  rw [hb] at hchk
  exact hchk

/-- one statement of the fourth core; the class table afterwards -/
def coreStatement4 (cenv : CEnv) (s : PTree) : Option CEnv :=
  if s.kind == .Class then coreClass4 cenv s
  else if s.kind == .Def && coreDef4 cenv s then some cenv
  else none

def coreStatements4 : CEnv → List PTree → Bool
  | _, [] => true
  | cenv, s :: rest =>
    match coreStatement4 cenv s with
    | some cenv' => coreStatements4 cenv' rest
    | none => false

/-- **the fourth core**: the third core with template parameters - see `coreProgramB` in `Props/C13.lean`
for the description -/
def coreStatementList4 (sl : PTree) : Bool := coreStatements4 [] (Ast.statementListStatements sl)

theorem indexStatement4_step (cenv cenv' : CEnv) (s : PTree) (c c' : IndexCtx) (hT : TabInv cenv c)
    (hchk : coreStatement4 cenv s = some cenv')
    (hrun : (indexStatement (mkRec (k + 1)) s).run c = .ok ((), c')) : c'.diagnostics = c.diagnostics ∧ TabInv cenv' c' := by
  unfold coreStatement4 at hchk
  unfold indexStatement at hrun
  by_cases hk : s.kind = .Class
  · simp only [hk, beq_self_eq_true, if_true] at hchk
    simp only [hk] at hrun
    exact indexClass4_step k cenv cenv' s c c' hT hchk hrun
  · have hk1 : (s.kind == SyntaxKind.Class) = false := by simpa using hk
    simp only [hk1, Bool.false_eq_true, if_false] at hchk
    by_cases hd : (s.kind == .Def && coreDef4 cenv s) = true
    · simp only [hd, if_true] at hchk
      cases hchk
      simp only [Bool.and_eq_true, beq_iff_eq] at hd
      simp only [hd.1] at hrun
      exact indexDef4_step k cenv s c c' hT hd.2 hrun
    · simp only [hd, Bool.false_eq_true, if_false] at hchk
      cases hchk

theorem indexStatementList4_quiet (sl : PTree) (hchk : coreStatementList4 sl = true) (c c' : IndexCtx)
    (hsm : c.symbolMap = {}) (htr : c.fileTrace ≠ []) (hrun : ((mkRec (k + 2)).statementList sl).run c = .ok ((), c')) :
    c'.diagnostics = c.diagnostics := by
  have hrun' : (indexStatementList (mkRec (k + 1)) sl).run c = .ok ((), c') := hrun
  unfold indexStatementList at hrun'
  unfold coreStatementList4 at hchk
  obtain ⟨u, c'', hloop, hpure⟩ := IxM.run_bind_ok hrun'
  simp only [StateT.run_pure] at hpure
  cases hpure
  have hT := TabInv.init c hsm htr
  clear hrun hrun' hsm htr
  generalize Ast.statementListStatements sl = l at hchk hloop
  generalize ([] : CEnv) = cenv at hchk hT
  induction l generalizing c cenv with
  | nil =>
    simp only [List.forIn_nil, StateT.run_pure] at hloop
    cases hloop; rfl
  | cons s rest ih =>
    rw [List.forIn_cons] at hloop
    obtain ⟨st, c1, h1, hloop⟩ := IxM.run_bind_ok hloop
    obtain ⟨_, c1', j1, j2⟩ := IxM.run_bind_ok h1
    simp only [StateT.run_pure] at j2
    cases j2
    unfold coreStatements4 at hchk
    cases hs : coreStatement4 cenv s with
    | none => rw [hs] at hchk; cases hchk
    | some cenv1 =>
      rw [hs] at hchk
      obtain ⟨q1, hT1⟩ := indexStatement4_step k cenv cenv1 s c c1 hT hs j1
      have q2 : c'.diagnostics = c1.diagnostics := by
        apply ih <;> first | exact hloop | exact hchk | exact hT1
      exact q2.trans q1

end core4
end Ide
end Tg
