/-
C04 forward direction, step 1: an abstract interpreter `aexec` for the parser DSL that works on
the remaining token *kinds* only and gives up (`none`) wherever the real parser would record an
error, use a checkpoint, or look at a token before trivia was skipped.

`sim`: whenever the abstract run succeeds, the real run (`exec`, same fuel) succeeds from every
concrete state it abstracts, ends in a state abstracted by the abstract result, and records no
error.  The tree builder is tracked by `BInv`: relative nesting depth, the untouched part of the
parent stack, and the fact that the frame at relative depth 0 only grew.
-/
import TgModel.Lemmas.C04Kinds

namespace Tg
namespace C04L

structure AState where
  ks : List TokenKind
  flag : Bool
  depth : Nat
  locals : List Bool
  cps : List Nat        -- saved checkpoints: how many nodes up from the innermost open node each points
  norm : Bool
deriving DecidableEq, Repr

/-- a node was opened: every checkpoint is one level further up -/
def cpsUp (cps : List Nat) : List Nat := cps.map (· + 1)
/-- a node was closed -/
def cpsDown (cps : List Nat) : List Nat := cps.map (· - 1)

def apeek (a : AState) : TokenKind := a.ks.headD .Eof

def aeat (a : AState) : Option AState :=
  match a.ks with
  | [] => none
  | k :: ks => if k == .Error then none else some { a with ks := ks }

def aexec (defs : Defs) : Nat → Prog → AState → Option AState
  | 0, _, _ => none
  | fuel+1, p, a =>
    match p with
    | .nop => some a
    | .startNode _ => some { a with depth := a.depth + 1, cps := cpsUp a.cps }
    | .finishNode =>
      match a.depth with
      | 0 => none
      | d+1 => if a.cps.contains 0 then none else some { a with depth := d, cps := cpsDown a.cps }
    | .pushCp => if a.cps.contains 0 then none else some { a with cps := 0 :: a.cps }
    | .popCp => some { a with cps := a.cps.tail }
    | .startNodeAtCp _ =>
      match a.cps with
      | 0 :: _ => some { a with depth := a.depth + 1, cps := cpsUp a.cps }
      | _ => none
    | .eat => if a.norm then aeat a else none
    | .skip => some { a with norm := true }
    | .eatIf k =>
      if a.norm then
        if apeek a == k then
          match aeat a with
          | some a1 => some { a1 with flag := true }
          | none => none
        else some { a with flag := false }
      else none
    | .expect k _ => if a.norm then (if apeek a == k then aeat a else none) else none
    | .assertTok k => if a.norm then (if apeek a == k then aeat a else none) else none
    | .error _ => none
    | .errorAndEat _ => none
    | .errorAndRecover _ => none
    | .retB b => some { a with flag := b }
    | .seq p q =>
      match aexec defs fuel p a with
      | some a1 => aexec defs fuel q a1
      | none => none
    | .ifAt ks t e =>
      if a.norm then (if ks.contains (apeek a) then aexec defs fuel t a else aexec defs fuel e a) else none
    | .ifFlag t e => if a.flag then aexec defs fuel t a else aexec defs fuel e a
    | .loop c b =>
      match aexec defs fuel c a with
      | some a1 =>
        if a1.flag then
          match aexec defs fuel b a1 with
          | some a2 => aexec defs fuel (.loop c b) a2
          | none => none
        else some a1
      | none => none
    | .call f => aexec defs fuel (defs f) a
    | .pushLocal => some { a with locals := false :: a.locals }
    | .popLocal => some { a with locals := a.locals.tail }
    | .setLocal => some { a with locals := true :: a.locals.tail }
    | .ifLocal t e =>
      if a.locals.head? == some true then aexec defs fuel t a else aexec defs fuel e a

/-! ### the tree builder -/

/-- the children list of the open node `d` levels up (0 = innermost) -/
def frameOf (cur : List Tree) : List (SyntaxKind × List Tree) → Nat → List Tree
  | _, 0 => cur
  | [], _+1 => []
  | (_, sibs) :: ps, d+1 => frameOf sibs ps d

theorem frameOf_pos (c c' : List Tree) (ps : List (SyntaxKind × List Tree)) (d : Nat) :
    frameOf c ps (d+1) = frameOf c' ps (d+1) := by
  cases ps with
  | nil => rfl
  | cons p ps => rfl

/-- relative to a base frame `C0` under parent stack `P0`: we are `d` nodes deeper, the parent
stack below is untouched, the base frame only grew -/
structure BInv (C0 : List Tree) (P0 : List (SyntaxKind × List Tree)) (b : Builder) (d : Nat) : Prop where
  le : d ≤ b.parents.length
  drop : b.parents.drop d = P0
  fr : ∃ new, frameOf b.cur b.parents d = new ++ C0

theorem BInv.grow {C0 P0 b d} (h : BInv C0 P0 b d) (n : List Tree) :
    BInv C0 P0 { cur := n ++ b.cur, parents := b.parents } d := by
  refine ⟨h.le, h.drop, ?_⟩
  obtain ⟨new, e⟩ := h.fr
  cases d with
  | zero => exact ⟨n ++ new, by simp only [frameOf] at e ⊢; rw [e, List.append_assoc]⟩
  | succ d => exact ⟨new, by rw [frameOf_pos _ b.cur]; exact e⟩

theorem BInv.grow' {C0 P0 b b' d} (h : BInv C0 P0 b d) (hp : b'.parents = b.parents)
    (hc : ∃ n, b'.cur = n ++ b.cur) : BInv C0 P0 b' d := by
  obtain ⟨n, hc⟩ := hc
  have := h.grow n
  cases b'
  simp only [] at hp hc
  subst hp hc
  exact this

theorem BInv.start {C0 P0 b d} (h : BInv C0 P0 b d) (k : SyntaxKind) :
    BInv C0 P0 { cur := [], parents := (k, b.cur) :: b.parents } (d+1) := by
  refine ⟨by simpa using h.le, by simpa using h.drop, ?_⟩
  exact h.fr

theorem BInv.finish {C0 P0 b d k sibs ps} (h : BInv C0 P0 b (d+1)) (hp : b.parents = (k, sibs) :: ps)
    (t : Tree) : BInv C0 P0 { cur := t :: sibs, parents := ps } d := by
  have hle := h.le
  have hdrop := h.drop
  obtain ⟨new, e⟩ := h.fr
  rw [hp] at hle hdrop e
  refine ⟨by simpa using hle, by simpa using hdrop, ?_⟩
  simp only [frameOf] at e
  cases d with
  | zero => exact ⟨t :: new, by simp only [frameOf] at e ⊢; rw [e]; rfl⟩
  | succ d => exact ⟨new, by rw [frameOf_pos _ sibs]; exact e⟩

theorem frameOf_grow_len (n cur : List Tree) (ps : List (SyntaxKind × List Tree)) (j : Nat) :
    (frameOf cur ps j).length ≤ (frameOf (n ++ cur) ps j).length := by
  cases j with
  | zero => simp [frameOf]
  | succ j => rw [frameOf_pos (n ++ cur) cur]; exact Nat.le_refl _

/-! ### checkpoints -/

/-- a saved checkpoint `(parents.length, cur.length)` that points `j` open nodes up: it is still
inside that node's children, and if that node is the base frame it lies above the base content -/
@[reducible] def CpRel (C0 : List Tree) (b : Builder) (depth : Nat) (real : Nat × Nat) (j : Nat) : Prop :=
  real.1 + j = b.parents.length ∧ real.2 ≤ (frameOf b.cur b.parents j).length ∧
    (j = depth → C0.length ≤ real.2)

/-- pointwise relation between the real and the abstract checkpoint stacks; abstract entries are
pairwise different -/
inductive CpAll (R : Nat × Nat → Nat → Prop) : List (Nat × Nat) → List Nat → Prop where
  | nil : CpAll R [] []
  | cons {a : Nat × Nat} {j : Nat} {as : List (Nat × Nat)} {js : List Nat} :
      R a j → j ∉ js → CpAll R as js → CpAll R (a :: as) (j :: js)

theorem CpAll.map {R S : Nat × Nat → Nat → Prop} (f : Nat → Nat) {as : List (Nat × Nat)} {js : List Nat}
    (h : CpAll R as js) (hinj : ∀ x ∈ js, ∀ y ∈ js, f x = f y → x = y)
    (hR : ∀ a j, j ∈ js → R a j → S a (f j)) : CpAll S as (js.map f) := by
  induction h with
  | nil => exact CpAll.nil
  | @cons a j as js hr hni _ ih =>
    refine CpAll.cons (hR a j (List.mem_cons_self ..) hr) ?_ (ih ?_ ?_)
    · intro hm
      obtain ⟨y, hy, hfy⟩ := List.mem_map.mp hm
      have := hinj y (List.mem_cons_of_mem _ hy) j (List.mem_cons_self ..) hfy
      subst this; exact hni hy
    · intro x hx y hy; exact hinj x (List.mem_cons_of_mem _ hx) y (List.mem_cons_of_mem _ hy)
    · intro a j hj; exact hR a j (List.mem_cons_of_mem _ hj)

theorem CpAll.imp {R S : Nat × Nat → Nat → Prop} {as : List (Nat × Nat)} {js : List Nat}
    (h : CpAll R as js) (hR : ∀ a j, j ∈ js → R a j → S a j) : CpAll S as js := by
  have := h.map (S := S) id (fun x _ y _ hxy => hxy) hR
  simpa using this

theorem CpAll.tail {R : Nat × Nat → Nat → Prop} {as : List (Nat × Nat)} {js : List Nat}
    (h : CpAll R as js) : CpAll R as.tail js.tail := by
  cases h with
  | nil => exact CpAll.nil
  | cons _ _ ht => exact ht

abbrev CpInv (C0 : List Tree) (b : Builder) (depth : Nat) (scps : List (Nat × Nat)) (acps : List Nat) : Prop :=
  CpAll (CpRel C0 b depth) scps acps

theorem CpInv.grow' {C0 b b' d scps acps} (h : CpInv C0 b d scps acps) (hp : b'.parents = b.parents)
    (hc : ∃ n, b'.cur = n ++ b.cur) : CpInv C0 b' d scps acps := by
  obtain ⟨n, hc⟩ := hc
  apply CpAll.imp h
  intro real j _ hr
  obtain ⟨h1, h2, h3⟩ := hr
  refine ⟨by rw [hp]; exact h1, ?_, h3⟩
  rw [hp, hc]; exact Nat.le_trans h2 (frameOf_grow_len ..)

theorem CpInv.start {C0 b d scps acps} (h : CpInv C0 b d scps acps) (k : SyntaxKind) :
    CpInv C0 { cur := [], parents := (k, b.cur) :: b.parents } (d+1) scps (cpsUp acps) := by
  apply CpAll.map (· + 1) h
  · intro x _ y _ hxy; omega
  · intro real j _ hr
    obtain ⟨h1, h2, h3⟩ := hr
    refine ⟨by simp only [List.length_cons]; omega, h2, fun hj => h3 (by omega)⟩

theorem CpInv.finish {C0 b d scps acps k sibs ps} (h : CpInv C0 b (d+1) scps acps)
    (hp : b.parents = (k, sibs) :: ps) (h0 : acps.contains 0 = false) (t : Tree) :
    CpInv C0 { cur := t :: sibs, parents := ps } d scps (cpsDown acps) := by
  have h0' : ∀ x ∈ acps, x ≠ 0 := by
    intro x hx hx0; subst hx0
    have : acps.contains 0 = true := by simpa using hx
    rw [this] at h0; cases h0
  apply CpAll.map (· - 1) h
  · intro x hx y hy hxy
    have := h0' x hx; have := h0' y hy; omega
  · intro real j hj hr
    obtain ⟨h1, h2, h3⟩ := hr
    obtain ⟨j', rfl⟩ : ∃ j', j = j' + 1 := ⟨j - 1, by have := h0' j hj; omega⟩
    rw [hp] at h1 h2
    simp only [List.length_cons] at h1
    simp only [frameOf] at h2
    refine ⟨by simp only [Nat.add_sub_cancel]; omega, ?_, fun hj => h3 (by simp only [Nat.add_sub_cancel] at hj; omega)⟩
    simp only [Nat.add_sub_cancel]
    cases j' with
    | zero => simp only [frameOf] at h2 ⊢; simp only [List.length_cons]; omega
    | succ j' => rw [frameOf_pos _ sibs]; exact h2

theorem CpInv.push {C0 P0 b d scps acps} (h : CpInv C0 b d scps acps) (hb : BInv C0 P0 b d)
    (h0 : acps.contains 0 = false) :
    CpInv C0 b d ((b.parents.length, b.cur.length) :: scps) (0 :: acps) := by
  refine CpAll.cons ⟨rfl, by simp [frameOf], ?_⟩ ?_ h
  · intro hd
    obtain ⟨new, e⟩ := hb.fr
    rw [← hd] at e
    simp only [frameOf] at e
    show C0.length ≤ b.cur.length
    rw [e, List.length_append]; omega
  · intro hm
    have : acps.contains 0 = true := by simpa using hm
    rw [this] at h0; cases h0

/-! ### the abstraction relation -/

structure Abs (input : List Char) (C0 : List Tree) (P0 : List (SyntaxKind × List Tree))
    (s : PState) (a : AState) : Prop where
  inv : Inv input s
  ks : s.kinds = a.ks
  flag : s.flag = a.flag
  locals : s.locals = a.locals
  norm : a.norm = true → Norm s
  b : BInv C0 P0 s.b a.depth
  cp : CpInv C0 s.b a.depth s.cps a.cps

section
variable {input : List Char} {C0 : List Tree} {P0 : List (SyntaxKind × List Tree)}

theorem Abs.cur {s a} (h : Abs input C0 P0 s a) (hn : a.norm = true) : s.cur = apeek a := by
  rw [cur_eq_head (h.norm hn), h.ks]; rfl

theorem Abs.setFlag {s a} (h : Abs input C0 P0 s a) (b : Bool) :
    Abs input C0 P0 { s with flag := b } { a with flag := b } :=
  ⟨PState.inv_flag h.inv b, h.ks, rfl, h.locals, h.norm, h.b, h.cp⟩

theorem finishNode_kinds {s s' : PState} (h : s.finishNode = .ok s') : s'.kinds = s.kinds := by
  unfold PState.finishNode at h
  split at h
  · cases h
  · simp only [Res.ok.injEq] at h; subst h; rfl

/-- the abstract `eat` is matched by the real one -/
theorem sim_eat {s a a'} (h : Abs input C0 P0 s a) (hn : a.norm = true) (he : aeat a = some a') :
    ∃ s', s.eat = .ok s' ∧ Abs input C0 P0 s' a' ∧ s'.errors = s.errors := by
  unfold aeat at he
  split at he
  · cases he
  · rename_i k ks hks
    split at he
    · cases he
    · rename_i hkE
      simp only [Option.some.injEq] at he; subst he
      have hcur : s.cur = k := by rw [h.cur hn]; simp [apeek, hks]
      have hkin : s.kinds = k :: ks := by rw [h.ks, hks]
      have hE : s.cur ≠ .Error := by rw [hcur]; simpa using hkE
      have hF : s.cur ≠ .Eof := by
        intro hc; rw [kinds_eof hc] at hkin; cases hkin
      obtain ⟨s', hs', hi'⟩ := eat_ok h.inv
      obtain ⟨hk2, hn2, keep, _⟩ := eat_props (h.norm hn) hE hF hs'
      refine ⟨s', hs', ⟨hi', ?_, ?_, ?_, fun _ => hn2, ?_, ?_⟩, keep.errors⟩
      · rw [hkin, hcur] at hk2; simpa using hk2.symm
      · rw [keep.flag]; exact h.flag
      · rw [keep.locals]; exact h.locals
      · exact h.b.grow' keep.parents keep.cur
      · rw [keep.cps]; exact h.cp.grow' keep.parents keep.cur

/-- `start_node_at(checkpoint)` with the innermost checkpoint pointing at the innermost open node -/
theorem sim_startNodeAt {s a} (h : Abs input C0 P0 s a) (k : SyntaxKind) {rest : List Nat}
    (hcps : a.cps = 0 :: rest) :
    ∃ s', (match s.cps with
           | cp :: _ => s.startNodeAt cp k
           | [] => Res.panic Why.noCheckpoint) = .ok s' ∧
      Abs input C0 P0 s' { a with depth := a.depth + 1, cps := cpsUp a.cps } ∧ s'.errors = s.errors := by
  have hcp := h.cp
  rw [hcps] at hcp
  generalize hsc : s.cps = scps at hcp
  cases hcp with
  | @cons real _ reals _ hr hni htl =>
    obtain ⟨pl, cl⟩ := real
    obtain ⟨h1, h2, h3⟩ := hr
    simp only [Nat.add_zero] at h1
    simp only [frameOf] at h2
    simp only []
    have hne1 : ((pl, cl).1 != s.b.parents.length) = false := by simp [h1]
    have hne2 : ¬ ((pl, cl).2 > s.b.cur.length) := by simp; exact h2
    have hrun : s.startNodeAt (pl, cl) k = .ok { s with
        b := { cur := s.b.cur.take (s.b.cur.length - cl),
               parents := (k, s.b.cur.drop (s.b.cur.length - cl)) :: s.b.parents },
        steps := s.steps + 1 } := by
      unfold PState.startNodeAt
      rw [hne1]
      simp only [Bool.false_eq_true, if_false, hne2]
    refine ⟨_, hrun, ⟨PState.inv_startNodeAt h.inv _ k hrun, h.ks, h.flag, h.locals, h.norm, ?_, ?_⟩, rfl⟩
    · -- builder
      have hb := h.b
      refine ⟨by simpa using hb.le, by simpa using hb.drop, ?_⟩
      obtain ⟨new, e⟩ := hb.fr
      cases hd : a.depth with
      | zero =>
        rw [hd] at e
        simp only [frameOf] at e ⊢
        have hcl : C0.length ≤ cl := h3 hd.symm
        have hlen : s.b.cur.length - cl ≤ new.length := by
          rw [e, List.length_append]; omega
        exact ⟨new.drop (s.b.cur.length - cl), by
          show List.drop (s.b.cur.length - cl) s.b.cur = _
          conv => lhs; rw [e]
          rw [e]
          exact List.drop_append_of_le_length (by rw [← e]; exact hlen)⟩
      | succ d =>
        rw [hd] at e
        exact ⟨new, by
          show frameOf _ ((k, _) :: s.b.parents) (d + 1 + 1) = _
          simp only [frameOf]
          rw [frameOf_pos _ s.b.cur]; exact e⟩
    · -- checkpoints
      show CpInv C0 { cur := s.b.cur.take (s.b.cur.length - cl),
                      parents := (k, s.b.cur.drop (s.b.cur.length - cl)) :: s.b.parents } (a.depth + 1)
        s.cps (cpsUp a.cps)
      rw [hcps, hsc]
      show CpInv C0 _ _ _ ((0 + 1) :: cpsUp rest)
      refine CpAll.cons (R := CpRel C0 _ _)
        (show CpRel C0 _ _ _ _ from ⟨by simp only [List.length_cons]; omega, ?_, fun hj' => h3 (by omega)⟩) ?_ ?_
      · show cl ≤ (frameOf _ ((k, _) :: s.b.parents) (0 + 1)).length
        simp only [frameOf, List.length_drop]; omega
      · intro hm
        obtain ⟨y, hy, hy1⟩ := List.mem_map.mp hm
        have : y = 0 := by omega
        subst this; exact hni hy
      · apply CpAll.map (· + 1) htl
        · intro x _ y _ hxy; omega
        · intro real j hj hr
          obtain ⟨g1, g2, g3⟩ := hr
          refine (show CpRel C0 _ _ _ _ from ⟨by simp only [List.length_cons]; omega, ?_, fun hj' => g3 (by omega)⟩)
          cases j with
          | zero => exact absurd hj hni
          | succ j =>
            show real.2 ≤ (frameOf _ ((k, _) :: s.b.parents) (j + 1 + 1)).length
            simp only [frameOf]
            rw [frameOf_pos _ s.b.cur]; exact g2

theorem sim (defs : Defs) (rc : List TokenKind) :
    ∀ (n : Nat) (p : Prog) (s : PState) (a a' : AState), Abs input C0 P0 s a →
      aexec defs n p a = some a' →
      ∃ s', exec defs rc n p s = .ok s' ∧ Abs input C0 P0 s' a' ∧ s'.errors = s.errors := by
  intro n
  induction n with
  | zero => intro p s a a' _ h; simp [aexec] at h
  | succ n ih =>
    intro p s a a' habs h
    cases p with
    | nop =>
      simp only [aexec, Option.some.injEq] at h; subst h
      exact ⟨s, by simp [exec], habs, rfl⟩
    | startNode k =>
      simp only [aexec, Option.some.injEq] at h; subst h
      refine ⟨s.startNode k, by simp [exec], ⟨PState.inv_startNode habs.inv k, habs.ks, habs.flag,
        habs.locals, habs.norm, habs.b.start k, habs.cp.start k⟩, rfl⟩
    | finishNode =>
      simp only [aexec] at h
      split at h
      · cases h
      · rename_i d hd
        split at h
        · cases h
        · rename_i h0
          simp only [Option.some.injEq] at h; subst h
          have h0 : a.cps.contains 0 = false := by simpa using h0
          have hb := habs.b
          have hcp := habs.cp
          rw [hd] at hb hcp
          have hle := hb.le
          cases hp : s.b.parents with
          | nil => rw [hp] at hle; simp at hle
          | cons p ps =>
            obtain ⟨k, sibs⟩ := p
            have hfin : s.finishNode = .ok { s with b := { cur := Tree.node k s.b.cur.reverse :: sibs, parents := ps } } := by
              unfold PState.finishNode; rw [hp]
            refine ⟨_, by simp only [exec]; exact hfin, ⟨PState.inv_finishNode habs.inv hfin, ?_, habs.flag,
              habs.locals, habs.norm, hb.finish hp _, hcp.finish hp h0 _⟩, rfl⟩
            exact habs.ks
    | pushCp =>
      simp only [aexec] at h
      split at h
      · cases h
      · rename_i h0
        simp only [Option.some.injEq] at h; subst h
        have h0 : a.cps.contains 0 = false := by simpa using h0
        exact ⟨{ s with cps := (s.b.parents.length, s.b.cur.length) :: s.cps }, by simp only [exec],
          ⟨⟨habs.inv.text, habs.inv.pos, habs.inv.eof, habs.inv.err, habs.inv.errs, habs.inv.ne, habs.inv.capOk⟩,
            habs.ks, habs.flag, habs.locals, habs.norm, habs.b, habs.cp.push habs.b h0⟩, rfl⟩
    | popCp =>
      simp only [aexec, Option.some.injEq] at h; subst h
      exact ⟨{ s with cps := s.cps.tail }, by simp only [exec],
        ⟨⟨habs.inv.text, habs.inv.pos, habs.inv.eof, habs.inv.err, habs.inv.errs, habs.inv.ne, habs.inv.capOk⟩,
          habs.ks, habs.flag, habs.locals, habs.norm, habs.b, habs.cp.tail⟩, rfl⟩
    | startNodeAtCp k =>
      simp only [aexec] at h
      split at h
      · rename_i rest hcps
        simp only [Option.some.injEq] at h; subst h
        obtain ⟨s', hs', hab', her'⟩ := sim_startNodeAt habs k hcps
        exact ⟨s', by simp only [exec]; exact hs', hab', her'⟩
      · cases h
    | eat =>
      simp only [aexec] at h
      split at h
      · rename_i hn
        obtain ⟨s', hs', ha', he'⟩ := sim_eat habs hn h
        exact ⟨s', by simp only [exec]; exact hs', ha', he'⟩
      · cases h
    | skip =>
      simp only [aexec, Option.some.injEq] at h; subst h
      obtain ⟨s', hs', hi'⟩ := skip_ok habs.inv
      obtain ⟨hk, hn, keep, _⟩ := skip_props _ hs'
      refine ⟨s', by simp only [exec]; exact hs', ⟨hi', by rw [hk]; exact habs.ks, by rw [keep.flag]; exact habs.flag,
        by rw [keep.locals]; exact habs.locals, fun _ => hn, habs.b.grow' keep.parents keep.cur,
        by rw [keep.cps]; exact habs.cp.grow' keep.parents keep.cur⟩, keep.errors⟩
    | eatIf k =>
      simp only [aexec] at h
      split at h
      · rename_i hn
        split at h
        · rename_i hpk
          split at h
          · rename_i a1 hea
            simp only [Option.some.injEq] at h; subst h
            obtain ⟨s', hs', ha', he'⟩ := sim_eat habs hn hea
            have hc : (s.cur == k) = true := by rw [habs.cur hn]; exact hpk
            refine ⟨{ s' with flag := true }, ?_, ha'.setFlag true, he'⟩
            simp only [exec, hc, if_true, hs']
          · cases h
        · rename_i hpk
          simp only [Option.some.injEq] at h; subst h
          have hc : ¬ (s.cur == k) = true := by rw [habs.cur hn]; exact hpk
          refine ⟨{ s with flag := false }, ?_, habs.setFlag false, rfl⟩
          simp only [exec, hc]; simp
      · cases h
    | expect k msg =>
      simp only [aexec] at h
      split at h
      · rename_i hn
        split at h
        · rename_i hpk
          obtain ⟨s', hs', ha', he'⟩ := sim_eat habs hn h
          have hc : (s.cur == k) = true := by rw [habs.cur hn]; exact hpk
          exact ⟨s', by simp only [exec, hc, if_true, hs'], ha', he'⟩
        · cases h
      · cases h
    | assertTok k =>
      simp only [aexec] at h
      split at h
      · rename_i hn
        split at h
        · rename_i hpk
          obtain ⟨s', hs', ha', he'⟩ := sim_eat habs hn h
          have hc : (s.cur == k) = true := by rw [habs.cur hn]; exact hpk
          exact ⟨s', by simp only [exec, hc, if_true, hs'], ha', he'⟩
        · cases h
      · cases h
    | error msg => simp [aexec] at h
    | errorAndEat msg => simp [aexec] at h
    | errorAndRecover msg => simp [aexec] at h
    | retB b =>
      simp only [aexec, Option.some.injEq] at h; subst h
      exact ⟨{ s with flag := b }, by simp only [exec], habs.setFlag b, rfl⟩
    | seq p q =>
      simp only [aexec] at h
      split at h
      · rename_i a1 h1
        obtain ⟨s1, e1, abs1, er1⟩ := ih p s a a1 habs h1
        obtain ⟨s2, e2, abs2, er2⟩ := ih q s1 a1 a' abs1 h
        exact ⟨s2, by simp only [exec, e1, e2], abs2, er2.trans er1⟩
      · cases h
    | ifAt ks t e =>
      simp only [aexec] at h
      split at h
      · rename_i hn
        have hcur := habs.cur hn
        split at h
        · rename_i hc
          obtain ⟨s', e', abs', er'⟩ := ih t s a a' habs h
          exact ⟨s', by simp only [exec, hcur, hc, if_true, e'], abs', er'⟩
        · rename_i hc
          obtain ⟨s', e', abs', er'⟩ := ih e s a a' habs h
          exact ⟨s', by simp only [exec, hcur, hc, if_false, e']; simp [e'], abs', er'⟩
      · cases h
    | ifFlag t e =>
      simp only [aexec] at h
      split at h
      · rename_i hc
        obtain ⟨s', e', abs', er'⟩ := ih t s a a' habs h
        exact ⟨s', by simp only [exec, habs.flag, hc, if_true, e'], abs', er'⟩
      · rename_i hc
        obtain ⟨s', e', abs', er'⟩ := ih e s a a' habs h
        exact ⟨s', by simp only [exec, habs.flag, hc, if_false, e']; simp [e'], abs', er'⟩
    | loop c b =>
      simp only [aexec] at h
      split at h
      · rename_i a1 h1
        obtain ⟨s1, e1, abs1, er1⟩ := ih c s a a1 habs h1
        split at h
        · rename_i hf
          split at h
          · rename_i a2 h2
            obtain ⟨s2, e2, abs2, er2⟩ := ih b s1 a1 a2 abs1 h2
            obtain ⟨s3, e3, abs3, er3⟩ := ih _ s2 a2 a' abs2 h
            refine ⟨s3, ?_, abs3, er3.trans (er2.trans er1)⟩
            simp only [exec, e1, abs1.flag, hf, if_true, e2, e3]
          · cases h
        · rename_i hf
          simp only [Option.some.injEq] at h; subst h
          refine ⟨s1, ?_, abs1, er1⟩
          simp only [exec, e1, abs1.flag, hf]; simp
      · cases h
    | call f =>
      simp only [aexec] at h
      obtain ⟨s', e', abs', er'⟩ := ih _ s a a' habs h
      exact ⟨s', by simp only [exec, e'], abs', er'⟩
    | pushLocal =>
      simp only [aexec, Option.some.injEq] at h; subst h
      exact ⟨{ s with locals := false :: s.locals }, by simp only [exec], ⟨⟨habs.inv.text, habs.inv.pos, habs.inv.eof, habs.inv.err, habs.inv.errs,
        habs.inv.ne, habs.inv.capOk⟩, habs.ks, habs.flag, by simp [habs.locals], habs.norm, habs.b, habs.cp⟩, rfl⟩
    | popLocal =>
      simp only [aexec, Option.some.injEq] at h; subst h
      exact ⟨{ s with locals := s.locals.tail }, by simp only [exec], ⟨⟨habs.inv.text, habs.inv.pos, habs.inv.eof, habs.inv.err, habs.inv.errs,
        habs.inv.ne, habs.inv.capOk⟩, habs.ks, habs.flag, by simp [habs.locals], habs.norm, habs.b, habs.cp⟩, rfl⟩
    | setLocal =>
      simp only [aexec, Option.some.injEq] at h; subst h
      exact ⟨{ s with locals := true :: s.locals.tail }, by simp only [exec], ⟨⟨habs.inv.text, habs.inv.pos, habs.inv.eof, habs.inv.err, habs.inv.errs,
        habs.inv.ne, habs.inv.capOk⟩, habs.ks, habs.flag, by simp [habs.locals], habs.norm, habs.b, habs.cp⟩, rfl⟩
    | ifLocal t e =>
      simp only [aexec] at h
      split at h
      · rename_i hc
        obtain ⟨s', e', abs', er'⟩ := ih t s a a' habs h
        exact ⟨s', by simp only [exec, habs.locals, hc, if_true, e'], abs', er'⟩
      · rename_i hc
        obtain ⟨s', e', abs', er'⟩ := ih e s a a' habs h
        exact ⟨s', by simp only [exec, habs.locals, hc, if_false, e']; simp [e'], abs', er'⟩

end

end C04L
end Tg
