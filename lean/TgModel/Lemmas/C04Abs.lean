/-
C04 forward direction, step 1: an abstract interpreter `aexec` for the parser DSL that works on
the remaining token *kinds* only and gives up (`none`) wherever the real parser would record an
error, use a checkpoint, or look at a token before trivia was skipped.

`sim`: whenever the abstract run succeeds, the real run (`exec`, same fuel) succeeds from every
concrete state it abstracts, ends in a state abstracted by the abstract result, and records no
error.  The tree builder is tracked by `BInv`: relative nesting depth, the untouched part of the
parent stack, and the fact that the frame at relative depth 0 only grew.
-/
import TgModel.Lemmas.C04Kinds
import TgModel.Lemmas.C04AccTree

namespace Tg
namespace C04L

structure AState where
  ks : List TokenKind
  flag : Bool
  depth : Nat
  locals : List Bool
  /-- saved checkpoints: how many nodes up from the innermost open node each points, and the child-node
  kinds that node had when the checkpoint was taken -/
  cps : List (Nat × List SyntaxKind)
  norm : Bool
  /-- kinds of the child nodes of the innermost open node, most recent first -/
  cur : List SyntaxKind
  /-- the enclosing open nodes (relative to the start) with the child-node kinds they had -/
  ps : List (SyntaxKind × List SyntaxKind)
deriving DecidableEq, Repr

abbrev CpStack := List (Nat × List SyntaxKind)

/-- a node was opened: every checkpoint is one level further up -/
def cpsUp (cps : CpStack) : CpStack := cps.map fun p => (p.1 + 1, p.2)
/-- a node was closed -/
def cpsDown (cps : CpStack) : CpStack := cps.map fun p => (p.1 - 1, p.2)
/-- some checkpoint points at the innermost open node -/
def hasTop (cps : CpStack) : Bool := cps.any fun p => p.1 == 0

def apeek (a : AState) : TokenKind := a.ks.headD .Eof

def aeat (a : AState) : Option AState :=
  match a.ks with
  | [] => none
  | k :: ks => if k == .Error then none else some { a with ks := ks }

def aexec (defs : Defs) : Nat → Prog → AState → Option AState
  | 0, _, _ => none
  | fuel+1, p, a =>
    match p with
    | .nop => some a
    | .startNode k => some { a with depth := a.depth + 1, cps := cpsUp a.cps, cur := [], ps := (k, a.cur) :: a.ps }
    | .finishNode =>
      match a.depth with
      | 0 => none
      | d+1 =>
        if hasTop a.cps then none else
        match a.ps with
        | [] => none
        | (k, sibs) :: ps =>
          -- the node that is closed must hand all its child nodes to its accessors
          if goodNode k a.cur.reverse then some { a with depth := d, cps := cpsDown a.cps, cur := k :: sibs, ps := ps }
          else none
    | .pushCp => if hasTop a.cps then none else some { a with cps := (0, a.cur) :: a.cps }
    | .popCp => some { a with cps := a.cps.tail }
    | .startNodeAtCp k =>
      match a.cps with
      | (0, C) :: _ =>
        some { a with depth := a.depth + 1, cps := cpsUp a.cps, cur := a.cur.take (a.cur.length - C.length),
                      ps := (k, C) :: a.ps }
      | _ => none
    | .eat => if a.norm then aeat a else none
    | .skip => some { a with norm := true }
    | .eatIf k =>
      if a.norm then
        if apeek a == k then
          match aeat a with
          | some a1 => some { a1 with flag := true }
          | none => none
        else some { a with flag := false }
      else none
    | .expect k _ => if a.norm then (if apeek a == k then aeat a else none) else none
    | .assertTok k => if a.norm then (if apeek a == k then aeat a else none) else none
    | .error _ => none
    | .errorAndEat _ => none
    | .errorAndRecover _ => none
    | .retB b => some { a with flag := b }
    | .seq p q =>
      match aexec defs fuel p a with
      | some a1 => aexec defs fuel q a1
      | none => none
    | .ifAt ks t e =>
      if a.norm then (if ks.contains (apeek a) then aexec defs fuel t a else aexec defs fuel e a) else none
    | .ifFlag t e => if a.flag then aexec defs fuel t a else aexec defs fuel e a
    | .loop c b =>
      match aexec defs fuel c a with
      | some a1 =>
        if a1.flag then
          match aexec defs fuel b a1 with
          | some a2 => aexec defs fuel (.loop c b) a2
          | none => none
        else some a1
      | none => none
    | .call f => aexec defs fuel (defs f) a
    | .pushLocal => some { a with locals := false :: a.locals }
    | .popLocal => some { a with locals := a.locals.tail }
    | .setLocal => some { a with locals := true :: a.locals.tail }
    | .ifLocal t e =>
      if a.locals.head? == some true then aexec defs fuel t a else aexec defs fuel e a

/-! ### the tree builder -/

/-- the children list of the open node `d` levels up (0 = innermost) -/
def frameOf (cur : List Tree) : List (SyntaxKind × List Tree) → Nat → List Tree
  | _, 0 => cur
  | [], _+1 => []
  | (_, sibs) :: ps, d+1 => frameOf sibs ps d

theorem frameOf_pos (c c' : List Tree) (ps : List (SyntaxKind × List Tree)) (d : Nat) :
    frameOf c ps (d+1) = frameOf c' ps (d+1) := by
  cases ps with
  | nil => rfl
  | cons p ps => rfl

/-- relative to a base frame `C0` under parent stack `P0`: we are `d` nodes deeper, the parent
stack below is untouched, the base frame only grew -/
structure BInv (C0 : List Tree) (P0 : List (SyntaxKind × List Tree)) (b : Builder) (d : Nat) : Prop where
  le : d ≤ b.parents.length
  drop : b.parents.drop d = P0
  fr : ∃ new, frameOf b.cur b.parents d = new ++ C0

theorem BInv.grow {C0 P0 b d} (h : BInv C0 P0 b d) (n : List Tree) :
    BInv C0 P0 { cur := n ++ b.cur, parents := b.parents } d := by
  refine ⟨h.le, h.drop, ?_⟩
  obtain ⟨new, e⟩ := h.fr
  cases d with
  | zero => exact ⟨n ++ new, by simp only [frameOf] at e ⊢; rw [e, List.append_assoc]⟩
  | succ d => exact ⟨new, by rw [frameOf_pos _ b.cur]; exact e⟩

theorem BInv.grow' {C0 P0 b b' d} (h : BInv C0 P0 b d) (hp : b'.parents = b.parents)
    (hc : ∃ n, b'.cur = n ++ b.cur) : BInv C0 P0 b' d := by
  obtain ⟨n, hc⟩ := hc
  have := h.grow n
  cases b'
  simp only [] at hp hc
  subst hp hc
  exact this

theorem BInv.start {C0 P0 b d} (h : BInv C0 P0 b d) (k : SyntaxKind) :
    BInv C0 P0 { cur := [], parents := (k, b.cur) :: b.parents } (d+1) := by
  refine ⟨by simpa using h.le, by simpa using h.drop, ?_⟩
  exact h.fr

theorem BInv.finish {C0 P0 b d k sibs ps} (h : BInv C0 P0 b (d+1)) (hp : b.parents = (k, sibs) :: ps)
    (t : Tree) : BInv C0 P0 { cur := t :: sibs, parents := ps } d := by
  have hle := h.le
  have hdrop := h.drop
  obtain ⟨new, e⟩ := h.fr
  rw [hp] at hle hdrop e
  refine ⟨by simpa using hle, by simpa using hdrop, ?_⟩
  simp only [frameOf] at e
  cases d with
  | zero => exact ⟨t :: new, by simp only [frameOf] at e ⊢; rw [e]; rfl⟩
  | succ d => exact ⟨new, by rw [frameOf_pos _ sibs]; exact e⟩

theorem frameOf_grow_len (n cur : List Tree) (ps : List (SyntaxKind × List Tree)) (j : Nat) :
    (frameOf cur ps j).length ≤ (frameOf (n ++ cur) ps j).length := by
  cases j with
  | zero => simp [frameOf]
  | succ j => rw [frameOf_pos (n ++ cur) cur]; exact Nat.le_refl _

/-! ### child-node kinds of the frames -/

theorem kindsOf_append (a b : List Tree) : kindsOf (a ++ b) = kindsOf a ++ kindsOf b := by
  induction a with
  | nil => rfl
  | cons t ts ih => cases t <;> simp [kindsOf, ih]

theorem kindsOf_reverse (a : List Tree) : kindsOf a.reverse = (kindsOf a).reverse := by
  induction a with
  | nil => rfl
  | cons t ts ih => cases t <;> simp [kindsOf, kindsOf_append, ih]

theorem goodL_append (a b : List Tree) : goodL (a ++ b) = (goodL a && goodL b) := by
  induction a with
  | nil => simp [goodL]
  | cons t ts ih => simp [goodL, ih, Bool.and_assoc]

theorem goodL_reverse (a : List Tree) : goodL a.reverse = goodL a := by
  induction a with
  | nil => rfl
  | cons t ts ih => simp [goodL, goodL_append, ih, Bool.and_comm]

theorem kindsOf_allTok {n : List Tree} (h : allTok n = true) : kindsOf n = [] ∧ goodL n = true := by
  induction n with
  | nil => exact ⟨rfl, rfl⟩
  | cons t ts ih =>
    cases t with
    | token k txt => simp only [allTok] at h; simpa [kindsOf, goodL, goodT] using ih h
    | node k cs => simp [allTok] at h

theorem goodL_take_drop (n : Nat) (a : List Tree) (h : goodL a = true) :
    goodL (a.take n) = true ∧ goodL (a.drop n) = true := by
  have := goodL_append (a.take n) (a.drop n)
  rw [List.take_append_drop, h] at this
  simpa using this.symm

/-- the real frames (innermost first, down to the base) and the abstract ones: same child-node kinds,
and every tree in them satisfies the accessor criterion -/
inductive FR (P0 : List (SyntaxKind × List Tree)) :
    List Tree → List (SyntaxKind × List Tree) → List SyntaxKind → List (SyntaxKind × List SyntaxKind) → Prop where
  | base {cur : List Tree} {acur : List SyntaxKind} :
      kindsOf cur = acur → goodL cur = true → FR P0 cur P0 acur []
  | step {cur sibs : List Tree} {k : SyntaxKind} {ps : List (SyntaxKind × List Tree)} {acur asibs : List SyntaxKind}
      {aps : List (SyntaxKind × List SyntaxKind)} :
      kindsOf cur = acur → goodL cur = true → FR P0 sibs ps asibs aps →
      FR P0 cur ((k, sibs) :: ps) acur ((k, asibs) :: aps)

theorem FR.top {P0 cur ps acur aps} (h : FR P0 cur ps acur aps) : kindsOf cur = acur ∧ goodL cur = true := by
  cases h with
  | base h1 h2 => exact ⟨h1, h2⟩
  | step h1 h2 _ => exact ⟨h1, h2⟩

/-- replace the innermost frame -/
theorem FR.setTop {P0 cur ps acur aps cur' acur'} (h : FR P0 cur ps acur aps)
    (h1 : kindsOf cur' = acur') (h2 : goodL cur' = true) : FR P0 cur' ps acur' aps := by
  cases h with
  | base _ _ => exact FR.base h1 h2
  | step _ _ hr => exact FR.step h1 h2 hr

/-- tokens were pushed -/
theorem FR.grow {P0 cur ps acur aps} (h : FR P0 cur ps acur aps) {n : List Tree} (hn : allTok n = true) :
    FR P0 (n ++ cur) ps acur aps := by
  obtain ⟨k1, k2⟩ := kindsOf_allTok hn
  obtain ⟨t1, t2⟩ := h.top
  exact h.setTop (by rw [kindsOf_append, k1, t1]; rfl) (by rw [goodL_append, k2, t2]; rfl)

theorem FR.start {P0 cur ps acur aps} (h : FR P0 cur ps acur aps) (k : SyntaxKind) :
    FR P0 [] ((k, cur) :: ps) [] ((k, acur) :: aps) := FR.step rfl rfl h

/-- `finish_node`: the closed node satisfies the criterion because the abstract run checked it -/
theorem FR.finish {P0 cur sibs k ps acur asibs aps} (h : FR P0 cur ((k, sibs) :: ps) acur ((k, asibs) :: aps))
    (hg : goodNode k acur.reverse = true) :
    FR P0 (Tree.node k cur.reverse :: sibs) ps (k :: asibs) aps := by
  cases h with
  | step h1 h2 hr =>
    obtain ⟨t1, t2⟩ := hr.top
    refine hr.setTop (by simp [kindsOf, t1]) ?_
    simp only [goodL, goodT, Bool.and_eq_true]
    refine ⟨⟨?_, by rw [goodL_reverse]; exact h2⟩, t2⟩
    rw [kindsOf_reverse, h1]; exact hg

/-! ### checkpoints -/

/-- a saved checkpoint `(parents.length, cur.length)` that points `j` open nodes up: it is still
inside that node's children; if that node is the base frame it lies above the base content; the part
of the frame below it has child-node kinds `C` -/
@[reducible] def CpRel (C0 : List Tree) (b : Builder) (depth : Nat) (real : Nat × Nat) (q : Nat × List SyntaxKind) : Prop :=
  real.1 + q.1 = b.parents.length ∧ real.2 ≤ (frameOf b.cur b.parents q.1).length ∧
    (q.1 = depth → C0.length ≤ real.2) ∧
    kindsOf ((frameOf b.cur b.parents q.1).drop ((frameOf b.cur b.parents q.1).length - real.2)) = q.2

/-- pointwise relation between the real and the abstract checkpoint stacks; the abstract levels are
pairwise different -/
inductive CpAll (R : Nat × Nat → Nat × List SyntaxKind → Prop) : List (Nat × Nat) → CpStack → Prop where
  | nil : CpAll R [] []
  | cons {a : Nat × Nat} {q : Nat × List SyntaxKind} {as : List (Nat × Nat)} {qs : CpStack} :
      R a q → (∀ q' ∈ qs, q'.1 ≠ q.1) → CpAll R as qs → CpAll R (a :: as) (q :: qs)

theorem CpAll.map {R S : Nat × Nat → Nat × List SyntaxKind → Prop} (f : Nat → Nat) {as : List (Nat × Nat)} {qs : CpStack}
    (h : CpAll R as qs) (hinj : ∀ x ∈ qs, ∀ y ∈ qs, f x.1 = f y.1 → x.1 = y.1)
    (hR : ∀ a q, q ∈ qs → R a q → S a (f q.1, q.2)) : CpAll S as (qs.map fun p => (f p.1, p.2)) := by
  induction h with
  | nil => exact CpAll.nil
  | @cons a q as qs hr hni _ ih =>
    refine CpAll.cons (hR a q (List.mem_cons_self ..) hr) ?_ (ih ?_ ?_)
    · intro q' hm hq'
      obtain ⟨y, hy, rfl⟩ := List.mem_map.mp hm
      simp only [] at hq'
      exact hni y hy (hinj y (List.mem_cons_of_mem _ hy) q (List.mem_cons_self ..) hq')
    · intro x hx y hy; exact hinj x (List.mem_cons_of_mem _ hx) y (List.mem_cons_of_mem _ hy)
    · intro a q hq; exact hR a q (List.mem_cons_of_mem _ hq)

theorem CpAll.imp {R S : Nat × Nat → Nat × List SyntaxKind → Prop} {as : List (Nat × Nat)} {qs : CpStack}
    (h : CpAll R as qs) (hR : ∀ a q, q ∈ qs → R a q → S a q) : CpAll S as qs := by
  have := h.map (S := S) id (fun x _ y _ hxy => hxy) (fun a q hq hr => hR a q hq hr)
  simpa using this

theorem CpAll.tail {R : Nat × Nat → Nat × List SyntaxKind → Prop} {as : List (Nat × Nat)} {qs : CpStack}
    (h : CpAll R as qs) : CpAll R as.tail qs.tail := by
  cases h with
  | nil => exact CpAll.nil
  | cons _ _ ht => exact ht

abbrev CpInv (C0 : List Tree) (b : Builder) (depth : Nat) (scps : List (Nat × Nat)) (acps : CpStack) : Prop :=
  CpAll (CpRel C0 b depth) scps acps

theorem hasTop_false {cps : CpStack} (h : hasTop cps = false) : ∀ q ∈ cps, q.1 ≠ 0 := by
  intro q hq h0
  have : hasTop cps = true := List.any_eq_true.mpr ⟨q, hq, by simp [h0]⟩
  rw [this] at h; cases h

theorem drop_grow (n F : List Tree) (cl : Nat) (h : cl ≤ F.length) :
    (n ++ F).drop ((n ++ F).length - cl) = F.drop (F.length - cl) := by
  have : (n ++ F).length - cl = n.length + (F.length - cl) := by rw [List.length_append]; omega
  rw [this, List.drop_append, List.drop_eq_nil_of_le (by omega), Nat.add_sub_cancel_left]; rfl

theorem CpInv.grow' {C0 b b' d scps acps} (h : CpInv C0 b d scps acps) (hp : b'.parents = b.parents)
    (hc : ∃ n, b'.cur = n ++ b.cur ∧ allTok n = true) : CpInv C0 b' d scps acps := by
  obtain ⟨n, hc, _⟩ := hc
  apply CpAll.imp h
  intro real q _ hr
  obtain ⟨h1, h2, h3, h4⟩ := hr
  refine ⟨by rw [hp]; exact h1, ?_, h3, ?_⟩
  · rw [hp, hc]; exact Nat.le_trans h2 (frameOf_grow_len ..)
  · rw [hp, hc]
    cases hq : q.1 with
    | zero =>
      rw [hq] at h2 h4
      simp only [frameOf] at h2 h4 ⊢
      rw [drop_grow n b.cur real.2 h2]; exact h4
    | succ j => rw [hq] at h4; rw [frameOf_pos (n ++ b.cur) b.cur]; exact h4

theorem CpInv.start {C0 b d scps acps} (h : CpInv C0 b d scps acps) (k : SyntaxKind) :
    CpInv C0 { cur := [], parents := (k, b.cur) :: b.parents } (d+1) scps (cpsUp acps) := by
  apply CpAll.map (· + 1) h
  · intro x _ y _ hxy; omega
  · intro real q _ hr
    obtain ⟨h1, h2, h3, h4⟩ := hr
    exact ⟨by simp only [List.length_cons]; omega, h2, fun hj => h3 (by omega), h4⟩

theorem CpInv.finish {C0 b d scps acps k sibs ps} (h : CpInv C0 b (d+1) scps acps)
    (hp : b.parents = (k, sibs) :: ps) (h0 : hasTop acps = false) (t : Tree) :
    CpInv C0 { cur := t :: sibs, parents := ps } d scps (cpsDown acps) := by
  have h0' := hasTop_false h0
  apply CpAll.map (· - 1) h
  · intro x hx y hy hxy
    have := h0' x hx; have := h0' y hy; omega
  · intro real q hq hr
    obtain ⟨h1, h2, h3, h4⟩ := hr
    obtain ⟨j', hj'⟩ : ∃ j', q.1 = j' + 1 := ⟨q.1 - 1, by have := h0' q hq; omega⟩
    rw [hj', hp] at h1 h2 h4
    rw [hj'] at h3
    simp only [List.length_cons] at h1
    simp only [frameOf] at h2 h4
    simp only [hj', Nat.add_sub_cancel]
    refine ⟨by show real.1 + j' = ps.length; omega, ?_, fun hj => h3 (by omega), ?_⟩
    · cases j' with
      | zero => simp only [frameOf] at h2 ⊢; simp only [List.length_cons]; omega
      | succ j' => rw [frameOf_pos _ sibs]; exact h2
    · cases j' with
      | zero =>
        simp only [frameOf] at h2 h4 ⊢
        have := drop_grow [t] sibs real.2 h2
        simp only [List.cons_append, List.nil_append] at this
        rw [this]; exact h4
      | succ j' => rw [frameOf_pos _ sibs]; exact h4

theorem CpInv.push {C0 P0 b d scps acps} (h : CpInv C0 b d scps acps) (hb : BInv C0 P0 b d)
    (h0 : hasTop acps = false) (acur : List SyntaxKind) (hk : kindsOf b.cur = acur) :
    CpInv C0 b d ((b.parents.length, b.cur.length) :: scps) ((0, acur) :: acps) := by
  refine CpAll.cons ⟨rfl, by simp [frameOf], ?_, by simp [frameOf, hk]⟩ ?_ h
  · intro hd
    obtain ⟨new, e⟩ := hb.fr
    simp only [] at hd
    rw [← hd] at e
    simp only [frameOf] at e
    show C0.length ≤ b.cur.length
    rw [e, List.length_append]; omega
  · intro q hq; exact hasTop_false h0 q hq

/-! ### the abstraction relation -/

structure Abs (input : List Char) (C0 : List Tree) (P0 : List (SyntaxKind × List Tree))
    (s : PState) (a : AState) : Prop where
  inv : Inv input s
  ks : s.kinds = a.ks
  flag : s.flag = a.flag
  locals : s.locals = a.locals
  norm : a.norm = true → Norm s
  b : BInv C0 P0 s.b a.depth
  cp : CpInv C0 s.b a.depth s.cps a.cps
  fr : FR P0 s.b.cur s.b.parents a.cur a.ps

section
variable {input : List Char} {C0 : List Tree} {P0 : List (SyntaxKind × List Tree)}

theorem Abs.cur {s a} (h : Abs input C0 P0 s a) (hn : a.norm = true) : s.cur = apeek a := by
  rw [cur_eq_head (h.norm hn), h.ks]; rfl

theorem Abs.setFlag {s a} (h : Abs input C0 P0 s a) (b : Bool) :
    Abs input C0 P0 { s with flag := b } { a with flag := b } :=
  ⟨PState.inv_flag h.inv b, h.ks, rfl, h.locals, h.norm, h.b, h.cp, h.fr⟩

theorem finishNode_kinds {s s' : PState} (h : s.finishNode = .ok s') : s'.kinds = s.kinds := by
  unfold PState.finishNode at h
  split at h
  · cases h
  · simp only [Res.ok.injEq] at h; subst h; rfl

/-- the abstract `eat` is matched by the real one -/
theorem sim_eat {s a a'} (h : Abs input C0 P0 s a) (hn : a.norm = true) (he : aeat a = some a') :
    ∃ s', s.eat = .ok s' ∧ Abs input C0 P0 s' a' ∧ s'.errors = s.errors := by
  unfold aeat at he
  split at he
  · cases he
  · rename_i k ks hks
    split at he
    · cases he
    · rename_i hkE
      simp only [Option.some.injEq] at he; subst he
      have hcur : s.cur = k := by rw [h.cur hn]; simp [apeek, hks]
      have hkin : s.kinds = k :: ks := by rw [h.ks, hks]
      have hE : s.cur ≠ .Error := by rw [hcur]; simpa using hkE
      have hF : s.cur ≠ .Eof := by
        intro hc; rw [kinds_eof hc] at hkin; cases hkin
      obtain ⟨s', hs', hi'⟩ := eat_ok h.inv
      obtain ⟨hk2, hn2, keep, _⟩ := eat_props (h.norm hn) hE hF hs'
      refine ⟨s', hs', ⟨hi', ?_, ?_, ?_, fun _ => hn2, ?_, ?_, ?_⟩, keep.errors⟩
      · rw [hkin, hcur] at hk2; simpa using hk2.symm
      · rw [keep.flag]; exact h.flag
      · rw [keep.locals]; exact h.locals
      · exact h.b.grow' keep.parents (keep.cur.imp fun _ hh => hh.1)
      · rw [keep.cps]; exact h.cp.grow' keep.parents keep.cur
      · obtain ⟨n, e, ht⟩ := keep.cur
        rw [keep.parents, e]; exact h.fr.grow ht

theorem kindsOf_take_drop (n : Nat) (F : List Tree) : kindsOf F = kindsOf (F.take n) ++ kindsOf (F.drop n) := by
  rw [← kindsOf_append, List.take_append_drop]

/-- `start_node_at(checkpoint)` with the innermost checkpoint pointing at the innermost open node -/
theorem sim_startNodeAt {s a} (h : Abs input C0 P0 s a) (k : SyntaxKind) {C : List SyntaxKind} {rest : CpStack}
    (hcps : a.cps = (0, C) :: rest) :
    ∃ s', (match s.cps with
           | cp :: _ => s.startNodeAt cp k
           | [] => Res.panic Why.noCheckpoint) = .ok s' ∧
      Abs input C0 P0 s' ⟨a.ks, a.flag, a.depth + 1, a.locals, cpsUp a.cps, a.norm,
        a.cur.take (a.cur.length - C.length), (k, C) :: a.ps⟩ ∧
      s'.errors = s.errors := by
  have hcp := h.cp
  rw [hcps] at hcp
  generalize hsc : s.cps = scps at hcp
  cases hcp with
  | @cons real _ reals _ hr hni htl =>
    obtain ⟨pl, cl⟩ := real
    obtain ⟨h1, h2, h3, h4⟩ := hr
    simp only [Nat.add_zero] at h1
    simp only [frameOf] at h2 h4
    simp only []
    have hne1 : ((pl, cl).1 != s.b.parents.length) = false := by simp [h1]
    have hne2 : ¬ ((pl, cl).2 > s.b.cur.length) := by simp; exact h2
    have hrun : s.startNodeAt (pl, cl) k = .ok { s with
        b := { cur := s.b.cur.take (s.b.cur.length - cl),
               parents := (k, s.b.cur.drop (s.b.cur.length - cl)) :: s.b.parents },
        steps := s.steps + 1 } := by
      unfold PState.startNodeAt
      rw [hne1]
      simp only [Bool.false_eq_true, if_false, hne2]
    -- kinds of the two parts of the innermost frame
    obtain ⟨t1, t2⟩ := h.fr.top
    have hsplit := kindsOf_take_drop (s.b.cur.length - cl) s.b.cur
    rw [t1, h4] at hsplit
    have htake : kindsOf (s.b.cur.take (s.b.cur.length - cl)) = a.cur.take (a.cur.length - C.length) := by
      rw [hsplit]; simp
    obtain ⟨g1, g2⟩ := goodL_take_drop (s.b.cur.length - cl) s.b.cur t2
    refine ⟨_, hrun, ⟨PState.inv_startNodeAt h.inv _ k hrun, h.ks, h.flag, h.locals, h.norm, ?_, ?_, ?_⟩, rfl⟩
    · -- builder
      have hb := h.b
      refine ⟨by simpa using hb.le, by simpa using hb.drop, ?_⟩
      obtain ⟨new, e⟩ := hb.fr
      cases hd : a.depth with
      | zero =>
        rw [hd] at e
        simp only [frameOf] at e ⊢
        have hcl : C0.length ≤ cl := h3 hd.symm
        have hlen : s.b.cur.length - cl ≤ new.length := by
          rw [e, List.length_append]; omega
        exact ⟨new.drop (s.b.cur.length - cl), by
          show List.drop (s.b.cur.length - cl) s.b.cur = _
          conv => lhs; rw [e]
          rw [e]
          exact List.drop_append_of_le_length (by rw [← e]; exact hlen)⟩
      | succ d =>
        rw [hd] at e
        exact ⟨new, by
          show frameOf _ ((k, _) :: s.b.parents) (d + 1 + 1) = _
          simp only [frameOf]
          rw [frameOf_pos _ s.b.cur]; exact e⟩
    · -- checkpoints
      show CpInv C0 { cur := s.b.cur.take (s.b.cur.length - cl),
                      parents := (k, s.b.cur.drop (s.b.cur.length - cl)) :: s.b.parents } (a.depth + 1)
        s.cps (cpsUp a.cps)
      rw [hcps, hsc]
      show CpInv C0 _ _ _ ((0 + 1, C) :: cpsUp rest)
      refine CpAll.cons (R := CpRel C0 _ _)
        (show CpRel C0 _ _ _ _ from ⟨by simp only [List.length_cons]; omega, ?_, fun hj' => h3 (by simp only [] at hj'; omega), ?_⟩) ?_ ?_
      · show cl ≤ (frameOf _ ((k, _) :: s.b.parents) (0 + 1)).length
        simp only [frameOf, List.length_drop]; omega
      · show kindsOf ((frameOf _ ((k, _) :: s.b.parents) (0 + 1)).drop _) = C
        simp only [frameOf, List.length_drop]
        have : s.b.cur.length - (s.b.cur.length - cl) - cl = 0 := by omega
        rw [this, List.drop_zero]; exact h4
      · intro q' hm hq'
        obtain ⟨y, hy, rfl⟩ := List.mem_map.mp hm
        simp only [] at hq'
        exact hni y hy (by simp only []; omega)
      · apply CpAll.map (· + 1) htl
        · intro x _ y _ hxy; omega
        · intro real q hq hr
          obtain ⟨g1', g2', g3', g4'⟩ := hr
          have hq0 : q.1 ≠ 0 := fun h0 => hni q hq (by simp only []; omega)
          obtain ⟨j, hj⟩ : ∃ j, q.1 = j + 1 := ⟨q.1 - 1, by omega⟩
          rw [hj] at g2' g4'
          refine (show CpRel C0 _ _ _ _ from ⟨by simp only [List.length_cons]; omega, ?_, fun hj' => g3' (by simp only [] at hj'; omega), ?_⟩)
          · show real.2 ≤ (frameOf _ ((k, _) :: s.b.parents) (q.1 + 1)).length
            rw [hj]; simp only [frameOf]
            rw [frameOf_pos _ s.b.cur]; exact g2'
          · show kindsOf ((frameOf _ ((k, _) :: s.b.parents) (q.1 + 1)).drop _) = q.2
            rw [hj]; simp only [frameOf]
            rw [frameOf_pos _ s.b.cur]; exact g4'
    · -- frames
      show FR P0 (s.b.cur.take (s.b.cur.length - cl)) ((k, s.b.cur.drop (s.b.cur.length - cl)) :: s.b.parents)
        (a.cur.take (a.cur.length - C.length)) ((k, C) :: a.ps)
      exact FR.step htake g1 (h.fr.setTop h4 g2)

theorem sim (defs : Defs) (rc : List TokenKind) :
    ∀ (n : Nat) (p : Prog) (s : PState) (a a' : AState), Abs input C0 P0 s a →
      aexec defs n p a = some a' →
      ∃ s', exec defs rc n p s = .ok s' ∧ Abs input C0 P0 s' a' ∧ s'.errors = s.errors := by
  intro n
  induction n with
  | zero => intro p s a a' _ h; simp [aexec] at h
  | succ n ih =>
    intro p s a a' habs h
    cases p with
    | nop =>
      simp only [aexec, Option.some.injEq] at h; subst h
      exact ⟨s, by simp [exec], habs, rfl⟩
    | startNode k =>
      simp only [aexec, Option.some.injEq] at h; subst h
      refine ⟨s.startNode k, by simp [exec], ⟨PState.inv_startNode habs.inv k, habs.ks, habs.flag,
        habs.locals, habs.norm, habs.b.start k, habs.cp.start k, habs.fr.start k⟩, rfl⟩
    | finishNode =>
      simp only [aexec] at h
      split at h
      · cases h
      · rename_i d hd
        split at h
        · cases h
        · rename_i h0
          split at h
          · cases h
          · rename_i k asibs aps hps
            split at h
            · rename_i hgood
              simp only [Option.some.injEq] at h; subst h
              have h0 : hasTop a.cps = false := by simpa using h0
              have hb := habs.b
              have hcp := habs.cp
              have hfr := habs.fr
              rw [hd] at hb hcp
              rw [hps] at hfr
              cases hp : s.b.parents with
              | nil =>
                have hle := hb.le
                rw [hp] at hle; simp at hle
              | cons p ps =>
                obtain ⟨k', sibs⟩ := p
                rw [hp] at hfr
                have hk : k' = k := by cases hfr with | step _ _ _ => rfl
                subst hk
                have hfin : s.finishNode = .ok { s with b := { cur := Tree.node k' s.b.cur.reverse :: sibs, parents := ps } } := by
                  unfold PState.finishNode; rw [hp]
                refine ⟨_, by simp only [exec]; exact hfin, ⟨PState.inv_finishNode habs.inv hfin, ?_, habs.flag,
                  habs.locals, habs.norm, hb.finish hp _, hcp.finish hp h0 _, hfr.finish hgood⟩, rfl⟩
                exact habs.ks
            · cases h
    | pushCp =>
      simp only [aexec] at h
      split at h
      · cases h
      · rename_i h0
        simp only [Option.some.injEq] at h; subst h
        have h0 : hasTop a.cps = false := by simpa using h0
        exact ⟨{ s with cps := (s.b.parents.length, s.b.cur.length) :: s.cps }, by simp only [exec],
          ⟨⟨habs.inv.text, habs.inv.pos, habs.inv.eof, habs.inv.err, habs.inv.errs, habs.inv.ne, habs.inv.capOk, habs.inv.chain⟩,
            habs.ks, habs.flag, habs.locals, habs.norm, habs.b, habs.cp.push habs.b h0 a.cur habs.fr.top.1, habs.fr⟩, rfl⟩
    | popCp =>
      simp only [aexec, Option.some.injEq] at h; subst h
      exact ⟨{ s with cps := s.cps.tail }, by simp only [exec],
        ⟨⟨habs.inv.text, habs.inv.pos, habs.inv.eof, habs.inv.err, habs.inv.errs, habs.inv.ne, habs.inv.capOk, habs.inv.chain⟩,
          habs.ks, habs.flag, habs.locals, habs.norm, habs.b, habs.cp.tail, habs.fr⟩, rfl⟩
    | startNodeAtCp k =>
      simp only [aexec] at h
      split at h
      · rename_i C rest hcps
        simp only [Option.some.injEq] at h; subst h
        obtain ⟨s', hs', hab', her'⟩ := sim_startNodeAt habs k hcps
        exact ⟨s', by simp only [exec]; exact hs', hab', her'⟩
      · cases h
    | eat =>
      simp only [aexec] at h
      split at h
      · rename_i hn
        obtain ⟨s', hs', ha', he'⟩ := sim_eat habs hn h
        exact ⟨s', by simp only [exec]; exact hs', ha', he'⟩
      · cases h
    | skip =>
      simp only [aexec, Option.some.injEq] at h; subst h
      obtain ⟨s', hs', hi'⟩ := skip_ok habs.inv
      obtain ⟨hk, hn, keep, _⟩ := skip_props _ hs'
      refine ⟨s', by simp only [exec]; exact hs', ⟨hi', by rw [hk]; exact habs.ks, by rw [keep.flag]; exact habs.flag,
        by rw [keep.locals]; exact habs.locals, fun _ => hn,
        habs.b.grow' keep.parents (keep.cur.imp fun _ hh => hh.1),
        by rw [keep.cps]; exact habs.cp.grow' keep.parents keep.cur,
        by obtain ⟨n, e, ht⟩ := keep.cur; rw [keep.parents, e]; exact habs.fr.grow ht⟩, keep.errors⟩
    | eatIf k =>
      simp only [aexec] at h
      split at h
      · rename_i hn
        split at h
        · rename_i hpk
          split at h
          · rename_i a1 hea
            simp only [Option.some.injEq] at h; subst h
            obtain ⟨s', hs', ha', he'⟩ := sim_eat habs hn hea
            have hc : (s.cur == k) = true := by rw [habs.cur hn]; exact hpk
            refine ⟨{ s' with flag := true }, ?_, ha'.setFlag true, he'⟩
            simp only [exec, hc, if_true, hs']
          · cases h
        · rename_i hpk
          simp only [Option.some.injEq] at h; subst h
          have hc : ¬ (s.cur == k) = true := by rw [habs.cur hn]; exact hpk
          refine ⟨{ s with flag := false }, ?_, habs.setFlag false, rfl⟩
          simp only [exec, hc]; simp
      · cases h
    | expect k msg =>
      simp only [aexec] at h
      split at h
      · rename_i hn
        split at h
        · rename_i hpk
          obtain ⟨s', hs', ha', he'⟩ := sim_eat habs hn h
          have hc : (s.cur == k) = true := by rw [habs.cur hn]; exact hpk
          exact ⟨s', by simp only [exec, hc, if_true, hs'], ha', he'⟩
        · cases h
      · cases h
    | assertTok k =>
      simp only [aexec] at h
      split at h
      · rename_i hn
        split at h
        · rename_i hpk
          obtain ⟨s', hs', ha', he'⟩ := sim_eat habs hn h
          have hc : (s.cur == k) = true := by rw [habs.cur hn]; exact hpk
          exact ⟨s', by simp only [exec, hc, if_true, hs'], ha', he'⟩
        · cases h
      · cases h
    | error msg => simp [aexec] at h
    | errorAndEat msg => simp [aexec] at h
    | errorAndRecover msg => simp [aexec] at h
    | retB b =>
      simp only [aexec, Option.some.injEq] at h; subst h
      exact ⟨{ s with flag := b }, by simp only [exec], habs.setFlag b, rfl⟩
    | seq p q =>
      simp only [aexec] at h
      split at h
      · rename_i a1 h1
        obtain ⟨s1, e1, abs1, er1⟩ := ih p s a a1 habs h1
        obtain ⟨s2, e2, abs2, er2⟩ := ih q s1 a1 a' abs1 h
        exact ⟨s2, by simp only [exec, e1, e2], abs2, er2.trans er1⟩
      · cases h
    | ifAt ks t e =>
      simp only [aexec] at h
      split at h
      · rename_i hn
        have hcur := habs.cur hn
        split at h
        · rename_i hc
          obtain ⟨s', e', abs', er'⟩ := ih t s a a' habs h
          exact ⟨s', by simp only [exec, hcur, hc, if_true, e'], abs', er'⟩
        · rename_i hc
          obtain ⟨s', e', abs', er'⟩ := ih e s a a' habs h
          exact ⟨s', by simp only [exec, hcur, hc, if_false, e']; simp [e'], abs', er'⟩
      · cases h
    | ifFlag t e =>
      simp only [aexec] at h
      split at h
      · rename_i hc
        obtain ⟨s', e', abs', er'⟩ := ih t s a a' habs h
        exact ⟨s', by simp only [exec, habs.flag, hc, if_true, e'], abs', er'⟩
      · rename_i hc
        obtain ⟨s', e', abs', er'⟩ := ih e s a a' habs h
        exact ⟨s', by simp only [exec, habs.flag, hc, if_false, e']; simp [e'], abs', er'⟩
    | loop c b =>
      simp only [aexec] at h
      split at h
      · rename_i a1 h1
        obtain ⟨s1, e1, abs1, er1⟩ := ih c s a a1 habs h1
        split at h
        · rename_i hf
          split at h
          · rename_i a2 h2
            obtain ⟨s2, e2, abs2, er2⟩ := ih b s1 a1 a2 abs1 h2
            obtain ⟨s3, e3, abs3, er3⟩ := ih _ s2 a2 a' abs2 h
            refine ⟨s3, ?_, abs3, er3.trans (er2.trans er1)⟩
            simp only [exec, e1, abs1.flag, hf, if_true, e2, e3]
          · cases h
        · rename_i hf
          simp only [Option.some.injEq] at h; subst h
          refine ⟨s1, ?_, abs1, er1⟩
          simp only [exec, e1, abs1.flag, hf]; simp
      · cases h
    | call f =>
      simp only [aexec] at h
      obtain ⟨s', e', abs', er'⟩ := ih _ s a a' habs h
      exact ⟨s', by simp only [exec, e'], abs', er'⟩
    | pushLocal =>
      simp only [aexec, Option.some.injEq] at h; subst h
      exact ⟨{ s with locals := false :: s.locals }, by simp only [exec], ⟨⟨habs.inv.text, habs.inv.pos, habs.inv.eof, habs.inv.err, habs.inv.errs,
        habs.inv.ne, habs.inv.capOk, habs.inv.chain⟩, habs.ks, habs.flag, by simp [habs.locals], habs.norm, habs.b, habs.cp, habs.fr⟩, rfl⟩
    | popLocal =>
      simp only [aexec, Option.some.injEq] at h; subst h
      exact ⟨{ s with locals := s.locals.tail }, by simp only [exec], ⟨⟨habs.inv.text, habs.inv.pos, habs.inv.eof, habs.inv.err, habs.inv.errs,
        habs.inv.ne, habs.inv.capOk, habs.inv.chain⟩, habs.ks, habs.flag, by simp [habs.locals], habs.norm, habs.b, habs.cp, habs.fr⟩, rfl⟩
    | setLocal =>
      simp only [aexec, Option.some.injEq] at h; subst h
      exact ⟨{ s with locals := true :: s.locals.tail }, by simp only [exec], ⟨⟨habs.inv.text, habs.inv.pos, habs.inv.eof, habs.inv.err, habs.inv.errs,
        habs.inv.ne, habs.inv.capOk, habs.inv.chain⟩, habs.ks, habs.flag, by simp [habs.locals], habs.norm, habs.b, habs.cp, habs.fr⟩, rfl⟩
    | ifLocal t e =>
      simp only [aexec] at h
      split at h
      · rename_i hc
        obtain ⟨s', e', abs', er'⟩ := ih t s a a' habs h
        exact ⟨s', by simp only [exec, habs.locals, hc, if_true, e'], abs', er'⟩
      · rename_i hc
        obtain ⟨s', e', abs', er'⟩ := ih e s a a' habs h
        exact ⟨s', by simp only [exec, habs.locals, hc, if_false, e']; simp [e'], abs', er'⟩

end

end C04L
end Tg
