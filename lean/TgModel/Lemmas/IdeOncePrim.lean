/-
Linearity of the indexer's traversal, part 2: the primitives of `Context.lean`, the tree facts
(children of a node have disjoint ranges, identifier tokens are non-empty and lie inside their
node), and the specification `VSpec` of a function that indexes a node.
-/
import TgModel.Lemmas.IdeOnce

namespace Tg
namespace Ide
open Tg.SymbolMap (Op Loc)

/-! ### silent primitives -/

theorem Silent.modify (f : IndexCtx → IndexCtx) (h : ∀ c, Sil c (f c)) : Silent (_root_.modify f : IxM Unit) :=
  ⟨fun c => PC.modify (h c)⟩

theorem Silent.modifyGet' {α : Type} (f : IndexCtx → α × IndexCtx) (h : ∀ c, Sil c (f c).2) :
    Silent (MonadState.modifyGet f : IxM α) := ⟨fun c => PC.modifyGet' (h c)⟩

theorem Silent.modifySM {α : Type} (f : SymMap → α × SymMap) (h : ∀ sm, (f sm).2.ops = sm.ops) :
    Silent (Ide.modifySM f) := ⟨fun c => PC.modifySM ⟨rfl, rfl, rfl, h c.symbolMap⟩⟩

theorem currentFileId_silent : Silent currentFileId := by unfold currentFileId; silent
macro_rules | `(tactic| silent_prim) => `(tactic| exact currentFileId_silent)

theorem error_silent (rg : Nat × Nat) (msg : String) : Silent (error rg msg) := by
  unfold error
  refine Silent.bind currentFileId_silent fun file => ?_
  exact Silent.modify _ fun c => ⟨rfl, rfl, rfl, rfl⟩
macro_rules | `(tactic| silent_prim) => `(tactic| exact error_silent _ _)

theorem resolveId_silent (name : String) : Silent (resolveId name) := by unfold resolveId; silent
macro_rules | `(tactic| silent_prim) => `(tactic| exact resolveId_silent _)

theorem nextAnonymousDefName_silent : Silent nextAnonymousDefName := by
  unfold nextAnonymousDefName
  exact Silent.modifyGet' _ fun c => ⟨rfl, rfl, rfl, rfl⟩
macro_rules | `(tactic| silent_prim) => `(tactic| exact nextAnonymousDefName_silent)

theorem scopesPush_silent (k : ScopeKind) : Silent (scopesPush k) := by
  unfold scopesPush
  exact Silent.modify _ fun c => ⟨rfl, rfl, rfl, rfl⟩
macro_rules | `(tactic| silent_prim) => `(tactic| exact scopesPush_silent _)

theorem scopesPop_silent : Silent scopesPop := by
  unfold scopesPop
  refine Silent.bind Silent.get fun s => ?_
  split
  · exact Silent.modify _ fun c => ⟨rfl, rfl, rfl, rfl⟩
  · exact Silent.panic _
macro_rules | `(tactic| silent_prim) => `(tactic| exact scopesPop_silent)

theorem currentRecordId_silent : Silent currentRecordId := by unfold currentRecordId; silent
theorem currentDefsetId_silent : Silent currentDefsetId := by unfold currentDefsetId; silent
theorem currentMulticlassId_silent : Silent currentMulticlassId := by unfold currentMulticlassId; silent
theorem currentDefmId_silent : Silent currentDefmId := by unfold currentDefmId; silent
macro_rules | `(tactic| silent_prim) => `(tactic| exact currentRecordId_silent)
macro_rules | `(tactic| silent_prim) => `(tactic| exact currentDefsetId_silent)
macro_rules | `(tactic| silent_prim) => `(tactic| exact currentMulticlassId_silent)
macro_rules | `(tactic| silent_prim) => `(tactic| exact currentDefmId_silent)

theorem registerDefsetName_silent (id : Nat) : Silent (registerDefsetName id) := by
  unfold registerDefsetName
  exact Silent.modifySM _ fun sm => rfl
macro_rules | `(tactic| silent_prim) => `(tactic| exact registerDefsetName_silent _)

theorem recordMut_silent (id : Nat) (f : Record → Record) : Silent (recordMut id f) := by
  unfold recordMut; exact Silent.modifySM _ fun sm => rfl
theorem multiclassMut_silent (id : Nat) (f : Multiclass → Multiclass) : Silent (multiclassMut id f) := by
  unfold multiclassMut; exact Silent.modifySM _ fun sm => rfl
theorem defmMut_silent (id : Nat) (f : Defm → Defm) : Silent (defmMut id f) := by
  unfold defmMut; exact Silent.modifySM _ fun sm => rfl
theorem defsetMut_silent (id : Nat) (f : Defset → Defset) : Silent (defsetMut id f) := by
  unfold defsetMut; exact Silent.modifySM _ fun sm => rfl
macro_rules | `(tactic| silent_prim) => `(tactic| exact recordMut_silent _ _)
macro_rules | `(tactic| silent_prim) => `(tactic| exact multiclassMut_silent _ _)
macro_rules | `(tactic| silent_prim) => `(tactic| exact defmMut_silent _ _)
macro_rules | `(tactic| silent_prim) => `(tactic| exact defsetMut_silent _ _)

theorem canBeCastedTo_silent (a b : Ty) : Silent (canBeCastedTo a b) := by unfold canBeCastedTo; silent
macro_rules | `(tactic| silent_prim) => `(tactic| exact canBeCastedTo_silent _ _)

theorem utilsIdentifier_silent (n : PTree) : Silent (utilsIdentifier n) := by unfold utilsIdentifier; silent
macro_rules | `(tactic| silent_prim) => `(tactic| exact utilsIdentifier_silent _)

/-! ### the registering primitives -/

/-- exactly one operation is appended to the log -/
structure Push (c c' : IndexCtx) (o : Op) : Prop where
  ws : c'.ws = c.ws
  trace : c'.fileTrace = c.fileTrace
  idx : c'.indexedFiles = c.indexedFiles
  ops : c'.symbolMap.ops = c.symbolMap.ops.push o

theorem SymMap.pushFileSymbol_ops (sm : SymMap) (f : Nat) (s : SymbolId) : (sm.pushFileSymbol f s).ops = sm.ops := by
  unfold SymMap.pushFileSymbol
  split <;> rfl

theorem addRecord_push (r : Record) (g : Bool) (c : IndexCtx) :
    PC (addRecord r g) c (fun _ c' => Push c c' (.define r.name.toList r.defineLoc.toLoc)) := by
  unfold addRecord
  refine PC.modifySM ⟨rfl, rfl, rfl, ?_⟩
  cases g <;> cases hk : r.kind <;>
    simp [SymMap.addRecord, SymMap.logDefine, SymMap.pushFileSymbol_ops, hk]

theorem addMulticlassDef_push (r : Record) (c : IndexCtx) :
    PC (addMulticlassDef r) c (fun _ c' => Push c c' (.define r.name.toList r.defineLoc.toLoc)) := by
  unfold addMulticlassDef
  refine PC.modifySM ⟨rfl, rfl, rfl, ?_⟩
  simp [SymMap.addMulticlassDef, SymMap.logDefine, SymMap.pushFileSymbol_ops]

theorem addAnonymousDef_push (r : Record) (c : IndexCtx) :
    PC (addAnonymousDef r) c (fun _ c' => Push c c' (.defineAnon r.name.toList r.defineLoc.toLoc)) := by
  unfold addAnonymousDef
  refine PC.modifySM ⟨rfl, rfl, rfl, ?_⟩
  simp [SymMap.addAnonymousDef, SymMap.logDefine]

theorem addTemplateArgument_push (a : TemplateArgument) (c : IndexCtx) :
    PC (addTemplateArgument a) c (fun _ c' => Push c c' (.define a.name.toList a.defineLoc.toLoc)) := by
  unfold addTemplateArgument
  refine PC.modifySM ⟨rfl, rfl, rfl, ?_⟩
  simp [SymMap.addTemplateArgument, SymMap.logDefine]

theorem addRecordField_push (a : RecordField) (c : IndexCtx) :
    PC (addRecordField a) c (fun _ c' => Push c c' (.define a.name.toList a.defineLoc.toLoc)) := by
  unfold addRecordField
  refine PC.modifySM ⟨rfl, rfl, rfl, ?_⟩
  simp [SymMap.addRecordField, SymMap.logDefine]

theorem addVariable_push (a : Variable) (c : IndexCtx) :
    PC (addVariable a) c (fun _ c' => Push c c' (.define a.name.toList a.defineLoc.toLoc)) := by
  unfold addVariable
  refine PC.modifySM ⟨rfl, rfl, rfl, ?_⟩
  simp [SymMap.addVariable, SymMap.logDefine, SymMap.pushFileSymbol_ops]

theorem addDefset_push (a : Defset) (c : IndexCtx) :
    PC (addDefset a) c (fun _ c' => Push c c' (.define a.name.toList a.defineLoc.toLoc)) := by
  unfold addDefset
  refine PC.modifySM ⟨rfl, rfl, rfl, ?_⟩
  simp [SymMap.addDefset, SymMap.logDefine, SymMap.pushFileSymbol_ops]

theorem addMulticlass_push (a : Multiclass) (c : IndexCtx) :
    PC (addMulticlass a) c (fun _ c' => Push c c' (.define a.name.toList a.defineLoc.toLoc)) := by
  unfold addMulticlass
  refine PC.modifySM ⟨rfl, rfl, rfl, ?_⟩
  simp [SymMap.addMulticlass, SymMap.logDefine, SymMap.pushFileSymbol_ops]

theorem addDefm_push (a : Defm) (g : Bool) (c : IndexCtx) :
    PC (addDefm a g) c (fun _ c' => Push c c' (.define a.name.toList a.defineLoc.toLoc)) := by
  unfold addDefm
  refine PC.modifySM ⟨rfl, rfl, rfl, ?_⟩
  cases g <;> simp [SymMap.addDefm, SymMap.logDefine, SymMap.pushFileSymbol_ops]

theorem addAnonymousDefm_push (a : Defm) (c : IndexCtx) :
    PC (addAnonymousDefm a) c (fun _ c' => Push c c' (.defineAnon a.name.toList a.defineLoc.toLoc)) := by
  unfold addAnonymousDefm
  refine PC.modifySM ⟨rfl, rfl, rfl, ?_⟩
  simp [SymMap.addAnonymousDefm, SymMap.logDefine]

theorem addReference_push (s : SymbolId) (loc : FileRange) (c : IndexCtx) :
    PC (addReference s loc) c (fun _ c' => Push c c' (.reference (c.symbolMap.gidOf s) loc.toLoc)) := by
  unfold addReference
  exact PC.modifySM ⟨rfl, rfl, rfl, rfl⟩

theorem scopesAddVariable_push (v : Variable) (c : IndexCtx) :
    PC (scopesAddVariable v) c (fun _ c' => Push c c' (.define v.name.toList v.defineLoc.toLoc)) := by
  unfold scopesAddVariable
  refine PC.bind (addVariable_push v c) ?_
  intro id c1 h1
  refine PC.bind (R := fun _ c2 => Sil c1 c2) ?_ ?_
  · refine PC.modifyGet' ?_
    dsimp only
    split <;> exact ⟨rfl, rfl, rfl, rfl⟩
  · intro ok c2 h2
    have hp : Push c c2 (.define v.name.toList v.defineLoc.toLoc) :=
      ⟨h2.ws.trans h1.ws, h2.trace.trans h1.trace, h2.idx.trans h1.idx, h2.ops.trans h1.ops⟩
    split
    · exact PC.pure hp
    · exact PC.panic

/-! ### tree facts -/

/-- what the traversal needs of a node: consistent offsets, and identifier nodes begin with a
non-empty token -/
structure NodeOK (n : PTree) : Prop where
  spans : ∃ txt, Spans n txt
  ids : ∀ d, Desc n d → d.isNode = true → d.kind = .Identifier → ∀ t, d.firstToken = some t → t.start < t.stop

theorem NodeOK.desc {n d : PTree} (h : NodeOK n) (hd : Desc n d) : NodeOK d := by
  obtain ⟨txt, ht⟩ := h.spans
  exact ⟨ht.desc_spans hd, fun e he => h.ids e (hd.trans he)⟩

theorem NodeOK.sub {n c : PTree} (h : NodeOK n) (hs : Sub n c) : NodeOK c := h.desc hs.desc

theorem NodeOK.inside {n d : PTree} (h : NodeOK n) (hd : Desc n d) : Inside n d := by
  obtain ⟨txt, ht⟩ := h.spans
  have := ht.desc_within hd
  exact ⟨this.1, this.2.2⟩

theorem NodeOK.inside_sub {n c : PTree} (h : NodeOK n) (hs : Sub n c) : Inside n c := h.inside hs.desc

/-- children at different positions: the earlier one ends before the later one starts -/
theorem Spans.children_ordered {n : PTree} {txt : List Char} (h : Spans n txt) :
    n.children.toList.Pairwise (fun a b => a.stop ≤ b.start) := by
  cases h with
  | token => simp [PTree.children]
  | node k s e hh cs parts hlen hch htile hpos hhs =>
    simp only [PTree.children]
    rw [List.pairwise_iff_getElem]
    intro i j hi hj hij
    have hle : ∀ t ∈ cs.toList, t.start ≤ t.stop := by
      intro t ht
      obtain ⟨m, hm, rfl⟩ := List.getElem_of_mem ht
      have hm' : m < cs.size := by simpa using hm
      simpa using (hch m hm' (by omega)).start_le_stop
    exact htile.ordered hle hij hj

theorem pairwise_dj {l : List PTree} (h : l.Pairwise (fun a b => a.stop ≤ b.start)) :
    ∀ a ∈ l, ∀ b ∈ l, a ≠ b → Dj a b := by
  induction l with
  | nil => intro a ha; cases ha
  | cons x xs ih =>
    rw [List.pairwise_cons] at h
    intro a ha b hb hab
    simp only [List.mem_cons] at ha hb
    rcases ha with rfl | ha <;> rcases hb with rfl | hb
    · exact absurd rfl hab
    · exact Or.inl (h.1 b hb)
    · exact Or.inr (h.1 a ha)
    · exact ih h.2 a ha b hb hab

/-- two different children of a node have disjoint ranges -/
theorem NodeOK.dj {n a b : PTree} (h : NodeOK n) (ha : Sub n a) (hb : Sub n b) (hab : a ≠ b) : Dj a b := by
  obtain ⟨txt, ht⟩ := h.spans
  exact pairwise_dj ht.children_ordered a ha.1 b hb.1 hab

theorem NodeOK.dj_kind {n a b : PTree} (h : NodeOK n) (ha : Sub n a) (hb : Sub n b) (hk : a.kind ≠ b.kind) :
    Dj a b := h.dj ha hb (fun he => hk (by rw [he]))

theorem Ast.child_kind {n c : PTree} {p : SyntaxKind → Bool} (h : Ast.child n p = some c) : p c.kind = true := by
  unfold Ast.child at h
  have hp := Array.find?_some h
  simp only [Bool.and_eq_true] at hp
  exact hp.2

theorem Ast.children_kind {n c : PTree} {p : SyntaxKind → Bool} (h : c ∈ Ast.children n p) : p c.kind = true := by
  unfold Ast.children at h
  simp only [Array.toList_filter, List.mem_filter, Bool.and_eq_true] at h
  exact h.2.2

theorem Ast.nthChild_kind {n c : PTree} {p : SyntaxKind → Bool} {i : Nat} (h : Ast.nthChild n p i = some c) :
    p c.kind = true := Ast.children_kind (List.mem_of_getElem? h)

/-- the nodes an accessor lists are in source order -/
theorem Ast.children_sorted {n : PTree} (h : NodeOK n) (p : SyntaxKind → Bool) :
    (Ast.children n p).Pairwise (fun a b => a.stop ≤ b.start) := by
  obtain ⟨txt, ht⟩ := h.spans
  unfold Ast.children
  rw [Array.toList_filter]
  exact ht.children_ordered.sublist List.filter_sublist

theorem Ast.children_dj_idx {n : PTree} (h : NodeOK n) (p : SyntaxKind → Bool) {i j : Nat}
    (hi : i < (Ast.children n p).length) (hj : j < (Ast.children n p).length) (hij : i ≠ j) :
    Dj (Ast.children n p)[i] (Ast.children n p)[j] := by
  have := List.pairwise_iff_getElem.mp (Ast.children_sorted h p)
  rcases Nat.lt_or_gt_of_ne hij with hlt | hgt
  · exact Or.inl (this i j hi hj hlt)
  · exact Or.inr (this j i hj hi hgt)

theorem Ast.nthChild_dj {n a b : PTree} (h : NodeOK n) {p : SyntaxKind → Bool} {i j : Nat}
    (ha : Ast.nthChild n p i = some a) (hb : Ast.nthChild n p j = some b) (hij : i ≠ j) : Dj a b := by
  unfold Ast.nthChild at ha hb
  obtain ⟨hi, rfl⟩ := List.getElem?_eq_some_iff.mp ha
  obtain ⟨hj, rfl⟩ := List.getElem?_eq_some_iff.mp hb
  exact Ast.children_dj_idx h p hi hj hij

/-- different kind predicates select different children -/
theorem dj_of_preds {n a b : PTree} (h : NodeOK n) (ha : Sub n a) (hb : Sub n b) {p q : SyntaxKind → Bool}
    (hpa : p a.kind = true) (hqb : q b.kind = true) (hpq : ∀ k, p k = true → q k = true → False) : Dj a b :=
  h.dj_kind ha hb (fun he => hpq a.kind hpa (he ▸ hqb))

/-! ### `utils::identifier` -/

theorem utilsIdentifier_pc (nm : PTree) (c : IndexCtx) :
    PC (utilsIdentifier nm) c (fun r c' => c = c' ∧ ∀ name loc, r = some (name, loc) →
      c.fileTrace.head? = some loc.file ∧ ∃ t, nm.firstToken = some t ∧ t.start = loc.start ∧ t.stop = loc.stop) := by
  unfold utilsIdentifier
  split
  · rename_i name hname
    refine PC.bind (R := fun f c' => c = c' ∧ c.fileTrace.head? = some f) ?_ ?_
    · unfold currentFileId
      refine PC.bind (PC.get (Q := fun s c' => s = c ∧ c' = c) ⟨rfl, rfl⟩) ?_
      rintro s c' ⟨rfl, rfl⟩
      split
      · rename_i f rest hft
        exact PC.pure ⟨rfl, by rw [hft]; rfl⟩
      · exact PC.panic
    · rintro f c' ⟨rfl, hf⟩
      split
      · rename_i s e hr
        refine PC.pure ⟨rfl, ?_⟩
        intro name' loc hl
        cases hl
        unfold Ast.identifierRange at hr
        simp only [Option.map_eq_some_iff] at hr
        obtain ⟨t, ht, hrt⟩ := hr
        cases hrt
        exact ⟨hf, t, ht, rfl, rfl⟩
      · exact PC.pure ⟨rfl, by intro _ _ hl; cases hl⟩
  · exact PC.pure ⟨rfl, by intro _ _ hl; cases hl⟩

/-- the location `utils::identifier` returns for an `Identifier` node: non-empty, inside the node -/
theorem NodeOK.idLoc {nm t : PTree} (h : NodeOK nm) (hnode : nm.isNode = true) (hk : nm.kind = .Identifier)
    (ht : nm.firstToken = some t) :
    t.start < t.stop ∧ nm.start ≤ t.start ∧ t.stop ≤ nm.stop := by
  have hd := (PTree.firstToken_desc ht).1
  have hi := h.inside hd
  exact ⟨h.ids nm (Desc.refl _) hnode hk t ht, hi.1, hi.2⟩

/-! ### the specification of a function that indexes a node -/

/-- the indexer is in file `f` of the workspace `ws0`, which is marked as indexed -/
structure Cur (ws0 : Workspace) (c : IndexCtx) (f : Nat) : Prop where
  ws : c.ws = ws0
  head : c.fileTrace.head? = some f
  idx : f ∈ c.indexedFiles

theorem Cur.vis {ws0 : Workspace} {c c' : IndexCtx} {f : Nat} {vs : List PTree} (h : Cur ws0 c f)
    (hv : Vis c c' f vs) : Cur ws0 c' f :=
  ⟨hv.ws.trans h.ws, by rw [hv.trace]; exact h.head, hv.idx f h.idx⟩

theorem Cur.sil {ws0 : Workspace} {c c' : IndexCtx} {f : Nat} (h : Cur ws0 c f) (hs : Sil c c') : Cur ws0 c' f :=
  ⟨hs.ws.trans h.ws, by rw [hs.trace]; exact h.head, by rw [hs.idx]; exact h.idx⟩

/-- a run of `m` registers only inside `n` (or in newly indexed files), and never re-registers a
location after a reference to it -/
def VSpec (ws0 : Workspace) {α : Type} (m : IxM α) (n : PTree) : Prop :=
  ∀ c f, Cur ws0 c f → PC m c (fun _ c' => Vis c c' f [n])

theorem VSpec.of_silent {ws0 : Workspace} {α : Type} {m : IxM α} (h : Silent m) (n : PTree) : VSpec ws0 m n :=
  fun c f _ => (h.run c).mono (fun _ _ hs => Vis.of_sil hs f [n])

/-- a registration at the identifier `nm` -/
theorem Vis.of_push {c c' : IndexCtx} {f : Nat} {nm t : PTree} {o : Op} {loc : FileRange} (hp : Push c c' o)
    (hnm : NodeOK nm) (hnode : nm.isNode = true) (hk : nm.kind = .Identifier) (ht : nm.firstToken = some t)
    (hloc : c.fileTrace.head? = some loc.file) (hs : t.start = loc.start) (he : t.stop = loc.stop)
    (hf : c.fileTrace.head? = some f) (ho : ∀ L, regLoc o = some L → L = loc.toLoc) : Vis c c' f [nm] := by
  refine Vis.push hp.ws hp.trace hp.idx hp.ops ?_
  intro L hL
  have := ho L hL
  subst this
  obtain ⟨h1, h2, h3⟩ := hnm.idLoc hnode hk ht
  rw [hloc] at hf
  simp only [FileRange.toLoc]
  exact ⟨Option.some.inj hf, by omega, by omega, by omega⟩

/-- `loc` is, in file `f`, the range of the first token of an `Identifier` node inside `n` -/
def IdLoc (f : Nat) (n : PTree) (loc : FileRange) : Prop :=
  loc.file = f ∧
    ((∃ sv t, Desc n sv ∧ sv.isNode = true ∧ sv.kind = .Identifier ∧ sv.firstToken = some t ∧
      t.start = loc.start ∧ t.stop = loc.stop) ∨
     (∃ t nm, Desc n t ∧ t.isToken = true ∧ t.start + 1 = loc.start ∧ loc.stop + 1 = t.stop ∧
       t.text.toList = '"' :: nm ++ ['"'] ∧ nm ≠ []))

theorem IdLoc.up {f : Nat} {n ch : PTree} {loc : FileRange} (h : IdLoc f ch loc) (hd : Desc n ch) : IdLoc f n loc := by
  obtain ⟨h1, ⟨sv, t, h2, h3⟩ | ⟨t, nm, h2, h3⟩⟩ := h
  · exact ⟨h1, Or.inl ⟨sv, t, hd.trans h2, h3⟩⟩
  · exact ⟨h1, Or.inr ⟨t, nm, hd.trans h2, h3⟩⟩

/-- the bounds of a name location: non-empty, inside the node -/
theorem IdLoc.bounds {f : Nat} {n : PTree} {loc : FileRange} (h : IdLoc f n loc) (hn : NodeOK n) :
    loc.start < loc.stop ∧ n.start ≤ loc.start ∧ loc.stop ≤ n.stop := by
  obtain ⟨_, ⟨sv, t, hd, hnode, hk, ht, hs, he⟩ | ⟨t, nm, hd, htok, hs, he, hq, hne⟩⟩ := h
  · obtain ⟨h1, h2, h3⟩ := (hn.desc hd).idLoc hnode hk ht
    have hi := hn.inside hd
    unfold Inside at hi
    omega
  · have hi := hn.inside hd
    unfold Inside at hi
    -- the token spans its text: two quotes and a non-empty name
    obtain ⟨txt, hsp⟩ := hn.spans
    obtain ⟨_, pre, m, post, _, hs', _⟩ := hsp.desc hd
    have hmid : t.text.toList = m := by
      cases hs' with
      | token k s m => simp [PTree.text]
      | node => simp [PTree.isToken, PTree.isNode] at htok
    have hstop := hs'.stop_eq
    rw [← hmid, hq] at hstop
    have hq1 : utf8Len '"' = 1 := by decide
    have hpos : 0 < byteLen nm := byteLen_pos_of_ne_nil hne
    simp only [byteLen_cons, byteLen_append, byteLen_nil, hq1] at hstop
    omega

theorem utilsIdentifier_id {ws0 : Workspace} {c : IndexCtx} {f : Nat} (hc : Cur ws0 c f) {nm : PTree}
    (hnode : nm.isNode = true) (hk : nm.kind = .Identifier) :
    PC (utilsIdentifier nm) c (fun r c' => c = c' ∧ ∀ name loc, r = some (name, loc) → IdLoc f nm loc) := by
  refine (utilsIdentifier_pc nm c).mono ?_
  rintro r c' ⟨rfl, h⟩
  refine ⟨rfl, ?_⟩
  intro name loc hr
  obtain ⟨hf, t, ht, hs, he⟩ := h name loc hr
  rw [hc.head] at hf
  exact ⟨(Option.some.inj hf).symm, Or.inl ⟨nm, t, Desc.refl _, hnode, hk, ht, hs, he⟩⟩

/-- a registration at an identifier inside `n` -/
theorem Vis.reg {c c' : IndexCtx} {f : Nat} {n : PTree} {o : Op} {loc : FileRange} (hp : Push c c' o)
    (hn : NodeOK n) (hid : IdLoc f n loc) (ho : ∀ L, regLoc o = some L → L = loc.toLoc) : Vis c c' f [n] := by
  refine Vis.push hp.ws hp.trace hp.idx hp.ops ?_
  intro L hL
  have := ho L hL
  subst this
  obtain ⟨h1, h2, h3⟩ := hid.bounds hn
  simp only [FileRange.toLoc]
  exact ⟨hid.1, h1, h2, h3⟩

/-- the `let f = …` body item: a definition, then a reference, at the same identifier -/
theorem Vis.reg2 {c c1 c1' c2 : IndexCtx} {f : Nat} {n : PTree} {nm : List Char} {s : Nat} {loc : FileRange}
    (hp1 : Push c c1 (.define nm loc.toLoc)) (hs : Sil c1 c1') (hp2 : Push c1' c2 (.reference s loc.toLoc))
    (hn : NodeOK n) (hid : IdLoc f n loc) : Vis c c2 f [n] := by
  obtain ⟨h1, h2, h3⟩ := hid.bounds hn
  refine ⟨hp2.ws.trans (hs.ws.trans hp1.ws), hp2.trace.trans (hs.trace.trans hp1.trace),
    fun g hg => by rw [hp2.idx, hs.idx, hp1.idx]; exact hg, [.define nm loc.toLoc, .reference s loc.toLoc],
    by rw [hp2.ops, hs.ops, hp1.ops]; simp, NoReuse.defRef _ _ _ _, ?_⟩
  intro o ho L hL
  have : L = loc.toLoc := by
    simp only [List.mem_cons, List.mem_nil_iff, or_false] at ho
    rcases ho with rfl | rfl <;> simp only [regLoc, Option.some.injEq] at hL <;> exact hL.symm
  subst this
  simp only [FileRange.toLoc]
  exact Or.inl ⟨hid.1, h1, n, by simp, h2, h3⟩

/-- the re-entrant functions satisfy the specification -/
structure RecV (ws0 : Workspace) (r : Rec) : Prop where
  sourceFile : ∀ n, NodeOK n → VSpec ws0 (r.sourceFile n) n
  statementList : ∀ n, NodeOK n → VSpec ws0 (r.statementList n) n
  value : ∀ n, NodeOK n → VSpec ws0 (r.value n) n
  typ : ∀ n, NodeOK n → VSpec ws0 (r.typ n) n

end Ide
end Tg
