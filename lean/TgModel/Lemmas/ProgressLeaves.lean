/-
The measure "token leaves pushed into the builder" for `Lemmas/ProgressCost.lean`: every `lex` is
preceded by a `save`, which pushes one leaf, so the `lex` part of `PState.steps` is exactly the
number of leaves pushed; consuming input pushes at least one leaf.  With it, the work bound reads
in tokens: steps ≤ 500 * (number of token leaves of the tree) + 2.
-/
import TgModel.Lemmas.ProgressCost

namespace Tg

mutual
/-- number of token leaves of a tree -/
def numLeaves : Tree → Nat
  | .token _ _ => 1
  | .node _ cs => numLeavesL cs
def numLeavesL : List Tree → Nat
  | [] => 0
  | t :: ts => numLeaves t + numLeavesL ts
end

theorem numLeavesL_append (a b : List Tree) : numLeavesL (a ++ b) = numLeavesL a + numLeavesL b := by
  induction a with
  | nil => simp [numLeavesL]
  | cons t ts ih => simp [numLeavesL, ih, Nat.add_assoc]

theorem numLeavesL_reverse (l : List Tree) : numLeavesL l.reverse = numLeavesL l := by
  induction l with
  | nil => rfl
  | cons t ts ih => simp [numLeavesL_append, numLeavesL, ih, Nat.add_comm]

theorem numLeavesL_take_drop (n : Nat) (l : List Tree) :
    numLeavesL (l.take n) + numLeavesL (l.drop n) = numLeavesL l := by
  rw [← numLeavesL_append, List.take_append_drop]

def parentsLeaves : List (SyntaxKind × List Tree) → Nat
  | [] => 0
  | (_, sibs) :: ps => numLeavesL sibs + parentsLeaves ps

/-- token leaves in the builder -/
def builderLeaves (b : Builder) : Nat := numLeavesL b.cur + parentsLeaves b.parents

namespace Progress

/-- the progress measure: token leaves pushed so far -/
def leavesOf (s : PState) : Nat := builderLeaves s.b

theorem save_leaves {s s1 : PState} (h : s.save = .ok s1) : leavesOf s1 = leavesOf s + 1 := by
  unfold PState.save at h
  split at h
  · split at h
    · simp only [Res.ok.injEq] at h; subst h
      simp [leavesOf, builderLeaves, PState.error, PState.pushTok, numLeavesL, numLeaves]; omega
    · cases h
  · simp only [Res.ok.injEq] at h; subst h
    simp [leavesOf, builderLeaves, PState.pushTok, numLeavesL, numLeaves]; omega

theorem lex_leaves (s : PState) : leavesOf s.lex = leavesOf s := rfl

/-- `skip`: as many `lex` calls as leaves pushed -/
theorem skip_leaves (fuel : Nat) {s s' : PState} (hs : PState.skip fuel s = .ok s') :
    s'.steps + leavesOf s = s.steps + leavesOf s' ∧ leavesOf s ≤ leavesOf s' ∧
    (mu s' < mu s → leavesOf s < leavesOf s') := by
  induction fuel generalizing s with
  | zero => simp [PState.skip] at hs
  | succ n ih =>
    simp only [PState.skip] at hs
    split at hs
    · split at hs
      · rename_i s1 hs1
        have := ih hs
        rw [lex_steps, save_steps hs1, lex_leaves, save_leaves hs1] at this
        exact ⟨by omega, by omega, fun _ => by omega⟩
      · rename_i hne; exact (hne _ hs).elim
    · simp only [Res.ok.injEq] at hs; subst hs; exact ⟨rfl, Nat.le_refl _, fun h => absurd h (Nat.lt_irrefl _)⟩

/-- `eat`: as many `lex` calls as leaves pushed, at least one -/
theorem eat_leaves {s s' : PState} (hs : s.eat = .ok s') :
    s'.steps + leavesOf s = s.steps + leavesOf s' ∧ leavesOf s < leavesOf s' := by
  unfold PState.eat at hs
  split at hs
  · rename_i s1 hs1
    have := skip_leaves _ hs
    rw [lex_steps, save_steps hs1, lex_leaves, save_leaves hs1] at this
    omega
  · rename_i hne; exact (hne _ hs).elim

theorem finishNode_leaves {s s' : PState} (h : s.finishNode = .ok s') : leavesOf s' = leavesOf s := by
  unfold PState.finishNode at h
  split at h
  · cases h
  · rename_i k sibs ps hp
    simp only [Res.ok.injEq] at h; subst h
    simp [leavesOf, builderLeaves, hp, parentsLeaves, numLeavesL, numLeaves, numLeavesL_reverse]; omega

theorem startNodeAt_leaves {s s' : PState} {cp : Nat × Nat} {k : SyntaxKind} (h : s.startNodeAt cp k = .ok s') :
    leavesOf s' = leavesOf s := by
  unfold PState.startNodeAt at h
  split at h
  · cases h
  · split at h
    · cases h
    · simp only [Res.ok.injEq] at h; subst h
      have := numLeavesL_take_drop (s.b.cur.length - cp.2) s.b.cur
      simp only [leavesOf, builderLeaves, parentsLeaves]
      omega

theorem startNode_leaves (s : PState) (k : SyntaxKind) : leavesOf (s.startNode k) = leavesOf s := by
  simp [leavesOf, builderLeaves, PState.startNode, parentsLeaves, numLeavesL]

variable (defs : Defs) (rc : List TokenKind)

/-- what a single primitive does to steps and leaves: the leaves never decrease, they increase
when input is consumed, and they pay for the steps beyond `pc` -/
theorem prim_leaves (input : List Char) {p : Prog} (hp : isPrim p = true) (n : Nat) (s s' : PState)
    (hi : Inv input s) (h : exec defs rc n p s = .ok s') :
    leavesOf s ≤ leavesOf s' ∧ (mu s' < mu s → leavesOf s < leavesOf s') ∧
    s'.steps + leavesOf s ≤ s.steps + pc p + leavesOf s' := by
  -- a primitive that leaves `b` and the remaining input alone
  have same : ∀ {s' : PState}, leavesOf s' = leavesOf s → mu s' = mu s → s'.steps ≤ s.steps + pc p →
      leavesOf s ≤ leavesOf s' ∧ (mu s' < mu s → leavesOf s < leavesOf s') ∧
      s'.steps + leavesOf s ≤ s.steps + pc p + leavesOf s' := by
    intro s' h1 h2 h3
    exact ⟨by omega, fun hlt => by omega, by omega⟩
  -- a primitive that is an `eat`
  have eaten : ∀ {s0 s' : PState}, s0.eat = .ok s' → leavesOf s0 = leavesOf s → s0.steps + 1 ≤ s.steps + pc p + 1 →
      leavesOf s ≤ leavesOf s' ∧ (mu s' < mu s → leavesOf s < leavesOf s') ∧
      s'.steps + leavesOf s ≤ s.steps + pc p + leavesOf s' := by
    intro s0 s' he h1 h2
    have := eat_leaves he
    exact ⟨by omega, fun _ => by omega, by omega⟩
  cases n with
  | zero => simp [exec] at h
  | succ n =>
    cases p with
    | nop => simp only [exec, Res.ok.injEq] at h; subst h; exact same rfl rfl (by simp [pc])
    | startNode k =>
      simp only [exec, Res.ok.injEq] at h; subst h
      exact same (startNode_leaves s k) rfl (by simp [pc, PState.startNode])
    | finishNode =>
      simp only [exec] at h
      exact same (finishNode_leaves h) (mu_finishNode h) (by rw [finishNode_steps h]; simp [pc])
    | pushCp => simp only [exec, Res.ok.injEq] at h; subst h; exact same rfl rfl (by simp [pc])
    | popCp => simp only [exec, Res.ok.injEq] at h; subst h; exact same rfl rfl (by simp [pc])
    | startNodeAtCp k =>
      simp only [exec] at h
      split at h
      · exact same (startNodeAt_leaves h) (mu_startNodeAt h) (by rw [startNodeAt_steps h]; simp [pc])
      · cases h
    | eat => simp only [exec] at h; exact eaten h rfl (by simp [pc])
    | skip =>
      simp only [exec] at h
      have h1 := skip_leaves _ h
      exact ⟨h1.2.1, h1.2.2, by simp only [pc]; omega⟩
    | eatIf k =>
      simp only [exec] at h
      split at h
      · split at h
        · rename_i s1 he
          simp only [Res.ok.injEq] at h; subst h
          have := eat_leaves he
          exact ⟨by show leavesOf s ≤ leavesOf s1; omega, fun _ => by show leavesOf s < leavesOf s1; omega,
            by show s1.steps + leavesOf s ≤ s.steps + pc (.eatIf k) + leavesOf s1; simp only [pc]; omega⟩
        · rename_i hne; first | exact (hne _ h).elim | cases h
      · simp only [Res.ok.injEq] at h; subst h; exact same rfl rfl (by simp [pc])
    | expect k msg =>
      simp only [exec] at h
      split at h
      · exact eaten h rfl (by simp [pc])
      · split at h
        · simp only [Res.ok.injEq] at h; subst h; exact same rfl rfl (by simp [pc])
        · simp only [Res.ok.injEq] at h; subst h; exact same rfl rfl (by simp [pc, PState.error])
    | assertTok k =>
      simp only [exec] at h
      split at h
      · exact eaten h rfl (by simp [pc])
      · cases h
    | error msg => simp only [exec, Res.ok.injEq] at h; subst h; exact same rfl rfl (by simp [pc, PState.error])
    | errorAndEat msg =>
      simp only [exec] at h
      split at h
      · rename_i s1 he
        have h1 := eat_leaves he
        have h2 := finishNode_steps h
        have h3 := finishNode_leaves h
        have h4 : leavesOf ((s.error msg).startNode .Error) = leavesOf s := startNode_leaves _ _
        have h5 : ((s.error msg).startNode .Error).steps = s.steps + 1 := rfl
        exact ⟨by omega, fun _ => by omega, by simp only [pc]; omega⟩
      · rename_i hne; first | exact (hne _ h).elim | cases h
    | errorAndRecover msg =>
      simp only [exec] at h
      split at h
      · split at h
        · rename_i s2 he
          have h1 := eat_leaves he
          have h2 := finishNode_steps h
          have h3 := finishNode_leaves h
          have h4 : leavesOf ((s.error msg).startNode .Error) = leavesOf s := startNode_leaves _ _
          have h5 : ((s.error msg).startNode .Error).steps = s.steps + 1 := rfl
          exact ⟨by omega, fun _ => by omega, by simp only [pc]; omega⟩
        · rename_i hne; first | exact (hne _ h).elim | cases h
      · simp only [Res.ok.injEq] at h; subst h; exact same rfl rfl (by simp [pc, PState.error])
    | retB b => simp only [exec, Res.ok.injEq] at h; subst h; exact same rfl rfl (by simp [pc])
    | pushLocal => simp only [exec, Res.ok.injEq] at h; subst h; exact same rfl rfl (by simp [pc])
    | popLocal => simp only [exec, Res.ok.injEq] at h; subst h; exact same rfl rfl (by simp [pc])
    | setLocal => simp only [exec, Res.ok.injEq] at h; subst h; exact same rfl rfl (by simp [pc])
    | seq a b => simp [isPrim] at hp
    | ifAt ks t e => simp [isPrim] at hp
    | ifFlag t e => simp [isPrim] at hp
    | ifLocal t e => simp [isPrim] at hp
    | loop c b => simp [isPrim] at hp
    | call f => simp [isPrim] at hp

/-- over whole runs: the leaves never decrease and increase when input is consumed -/
theorem leaves_exec (input : List Char) : ∀ (n : Nat) (p : Prog) (s s' : PState), Inv input s →
    exec defs rc n p s = .ok s' → leavesOf s ≤ leavesOf s' ∧ (mu s' < mu s → leavesOf s < leavesOf s') := by
  intro n
  induction n with
  | zero => intro p s s' _ h; simp [exec] at h
  | succ n ih =>
    intro p s s' hi h
    have inv' : ∀ (p : Prog) (s s' : PState), Inv input s → exec defs rc n p s = .ok s' → Inv input s' :=
      fun p s s' => inv_exec defs rc input n p s s'
    have mle : ∀ (p : Prog) (s s' : PState), Inv input s → exec defs rc n p s = .ok s' → mu s' ≤ mu s :=
      fun p s s' => mu_exec_le defs rc input n p s s'
    have prim : isPrim p = true → leavesOf s ≤ leavesOf s' ∧ (mu s' < mu s → leavesOf s < leavesOf s') := by
      intro hp
      obtain ⟨h1, h2, _⟩ := prim_leaves defs rc input hp (n+1) s s' hi h
      exact ⟨h1, h2⟩
    cases p with
    | seq a b =>
      simp only [exec] at h
      split at h
      · rename_i s1 h1
        have i1 := inv' a s s1 hi h1
        have r1 := ih a s s1 hi h1
        have r2 := ih b s1 s' i1 h
        have e1 := mle a s s1 hi h1
        have e2 := mle b s1 s' i1 h
        refine ⟨by omega, fun hlt => ?_⟩
        by_cases hc : mu s1 < mu s
        · have := r1.2 hc; omega
        · have := r2.2 (by omega); omega
      · rename_i hne; first | exact (hne _ h).elim | cases h
    | ifAt ks t e => simp only [exec] at h; split at h <;> exact ih _ s s' hi h
    | ifFlag t e => simp only [exec] at h; split at h <;> exact ih _ s s' hi h
    | ifLocal t e => simp only [exec] at h; split at h <;> exact ih _ s s' hi h
    | loop c b =>
      simp only [exec] at h
      split at h
      · rename_i s1 h1
        have i1 := inv' c s s1 hi h1
        have r1 := ih c s s1 hi h1
        have e1 := mle c s s1 hi h1
        split at h
        · split at h
          · rename_i s2 h2
            have i2 := inv' b s1 s2 i1 h2
            have r2 := ih b s1 s2 i1 h2
            have r3 := ih (.loop c b) s2 s' i2 h
            have e2 := mle b s1 s2 i1 h2
            have e3 := mle (.loop c b) s2 s' i2 h
            refine ⟨by omega, fun hlt => ?_⟩
            by_cases hc1 : mu s1 < mu s
            · have := r1.2 hc1; omega
            · by_cases hc2 : mu s2 < mu s1
              · have := r2.2 hc2; omega
              · have := r3.2 (by omega); omega
          · rename_i hne; first | exact (hne _ h).elim | cases h
        · simp only [Res.ok.injEq] at h; subst h; exact r1
      · rename_i hne; first | exact (hne _ h).elim | cases h
    | call f => simp only [exec] at h; exact ih _ s s' hi h
    | nop => exact prim rfl
    | startNode k => exact prim rfl
    | finishNode => exact prim rfl
    | pushCp => exact prim rfl
    | popCp => exact prim rfl
    | startNodeAtCp k => exact prim rfl
    | eat => exact prim rfl
    | skip => exact prim rfl
    | eatIf k => exact prim rfl
    | expect k msg => exact prim rfl
    | assertTok k => exact prim rfl
    | error msg => exact prim rfl
    | errorAndEat msg => exact prim rfl
    | errorAndRecover msg => exact prim rfl
    | retB b => exact prim rfl
    | pushLocal => exact prim rfl
    | popLocal => exact prim rfl
    | setLocal => exact prim rfl

theorem leaves_measure (input : List Char) : Measure defs rc input leavesOf := by
  refine ⟨?_, ?_, ?_⟩
  · intro n p s s' hi hx; exact (leaves_exec defs rc input n p s s' hi hx).1
  · intro n p s s' hi hx; exact (leaves_exec defs rc input n p s s' hi hx).2
  · intro p hp n s s' hi hx
    have h1 := prim_steps defs rc input hp n s s' hi hx
    obtain ⟨_, _, h3⟩ := prim_leaves defs rc input hp n s s' hi hx
    exact ⟨fun h => by omega, h3⟩

end Progress
end Tg
