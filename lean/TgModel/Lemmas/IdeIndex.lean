/-
One preservation lemma per `indexX` of `Index.lean` (statements, types, values); each depends only
on the lemmas of the functions it calls.
-/
import TgModel.Lemmas.IdeBang
import TgModel.Ide.Index

namespace Tg
namespace Ide
namespace Index

variable {r : Rec} {k : Nat} {c0 c : IndexCtx} {n : PTree}

theorem indexSourceFile_spec (hr : RecOK r k) (h : Post c0 c) (hcf : clsFree c0) (hn : Fits (k + 1) c0 n) :
    Holds (indexSourceFile r n) c (fun _ c' => Post c0 c') := by
  unfold indexSourceFile
  split
  · rename_i l hl
    exact hr.statementList h hcf (hn.sub (Ast.child_sub hl))
  · exact Holds.pure h

theorem indexAssert_specV (hr : RecOK r k) (h : PostV c0 c) (hn : Fits (k + 1) c0 n) :
    Holds (indexAssert r n) c (fun _ c' => PostV c0 c') := by
  unfold indexAssert
  split
  · rename_i m hm
    refine Holds.bind (hr.valueV h (hn.sub (Ast.nthChild_sub hm))) ?_
    intro _ c1 h1
    split
    · rename_i cd hcd
      refine Holds.bind (hr.valueV h1 (hn.sub (Ast.nthChild_sub hcd))) ?_
      intro _ c2 h2
      exact Holds.pure h2
    · exact Holds.pure h1
  · exact Holds.pure h

theorem indexNameValue_spec (h : Post c0 c) (hn : Fits (k + 1) c0 n) :
    Holds (indexNameValue n) c (fun r c' => c = c' ∧ ∀ name loc, r = some (name, loc) → NameIn c0 loc name) := by
  unfold indexNameValue
  split
  · rename_i nm hnm
    split
    · rename_i sv hsv
      split
      · rename_i hk
        exact (utilsIdentifier_spec h ((hn.sub (Ast.head?_children_sub hnm)).mono.sub (Ast.child_sub hsv))
            (by simpa using hk)).mono
          (fun _ _ hp => ⟨hp.1, fun name loc hl => Or.inl (hp.2 name loc hl)⟩)
      · split
        · dsimp only
          split
          · rename_i tok htok
            have hsvF := (hn.sub (Ast.head?_children_sub hnm)).mono.sub (Ast.child_sub hsv)
            obtain ⟨hdtok, htokT⟩ := PTree.firstToken_desc htok
            -- the token spans its text
            have hstop : ∀ mid : List Char, tok.text.toList = mid → tok.stop = tok.start + byteLen mid := by
              intro mid hm
              obtain ⟨txt, hsp⟩ := hsvF.spans
              obtain ⟨_, pre, m, post, _, hs, _⟩ := hsp.desc hdtok
              have hmid : tok.text.toList = m := by
                cases hs with
                | token k s m => simp [PTree.text]
                | node => simp [PTree.isToken, PTree.isNode] at htokT
              rw [← hm, hmid]; exact hs.stop_eq
            split
            · exact Holds.pure ⟨rfl, by intro _ _ hl; cases hl⟩
            · rename_i hguard
              simp only [Bool.or_eq_true, bne_iff_ne, ne_eq, not_or, Decidable.not_not] at hguard
              have htext := hguard.2
              have hq1 : utf8Len '"' = 1 := by decide
              have hlen := hstop _ htext
              simp only [byteLen_cons, byteLen_append, byteLen_nil, hq1] at hlen
              split
              · omega
              · refine Holds.bind (currentFileId_spec h) ?_
                rintro f c' ⟨rfl, hf0, hf⟩
                refine Holds.pure ⟨rfl, ?_⟩
                intro name loc hl
                cases hl
                obtain ⟨f', hf', hd⟩ := hsvF.cur
                rw [hf0] at hf'
                cases hf'
                exact Or.inr ⟨hf0, tok, hd.trans hdtok, htokT, rfl, by simp only; omega, htext⟩
          · exact Holds.pure ⟨rfl, by intro _ _ hl; cases hl⟩
        · exact Holds.pure ⟨rfl, by intro _ _ hl; cases hl⟩
    · exact Holds.pure ⟨rfl, by intro _ _ hl; cases hl⟩
  · exact Holds.pure ⟨rfl, by intro _ _ hl; cases hl⟩

theorem indexDefvar_specV (hr : RecOK r k) (h : PostV c0 c) (hn : Fits (k + 1) c0 n) :
    Holds (indexDefvar r n) c (fun _ c' => PostV c0 c') := by
  unfold indexDefvar
  split
  · rename_i nm hnm
    refine Holds.bind (utilsIdentifier_spec h.toPost (hn.sub (Ast.child_sub hnm)) (Ast.child_is_kind hnm)) ?_
    rintro x c1 ⟨rfl, hx⟩
    split
    · rename_i name loc
      have hloc := hx name loc rfl
      split
      · rename_i v hv
        refine Holds.bind (hr.valueV h (hn.sub (Ast.child_sub hv))) ?_
        intro t c2 h2
        exact scopesAddVariable_specV h2 hloc
      · exact Holds.pure h
    · exact Holds.pure h
  · exact Holds.pure h


theorem indexDump_specV (hr : RecOK r k) (h : PostV c0 c) (hn : Fits (k + 1) c0 n) :
    Holds (indexDump r n) c (fun _ c' => PostV c0 c') := by
  unfold indexDump
  split
  · rename_i v hv
    refine Holds.bind (hr.valueV h (hn.sub (Ast.child_sub hv))) ?_
    intro _ c1 h1
    exact Holds.pure h1
  · exact Holds.pure h

/-- the argument is passed on to `r.value` unchanged: it has to fit `k` itself -/
theorem indexForeachIteratorInit_specV (hr : RecOK r k) (h : PostV c0 c) (hn : Fits k c0 n) :
    Holds (indexForeachIteratorInit r n) c (fun _ c' => PostV c0 c') := by
  unfold indexForeachIteratorInit
  split
  · exact Holds.pure h
  · exact Holds.pure h
  · refine Holds.bind (hr.valueV h hn) ?_
    intro t c1 h1
    split <;> exact Holds.pure h1

theorem indexForeachIterator_specV (hr : RecOK r k) (h : PostV c0 c) (hn : Fits (k + 1) c0 n) :
    Holds (indexForeachIterator r n) c
      (fun x c' => PostV c0 c' ∧ ∀ name id, x = some (name, id) →
        id < c'.symbolMap.sizes.vars ∧ (c'.symbolMap.var id).name = name) := by
  unfold indexForeachIterator
  have hnone : ∀ {c1 : IndexCtx}, PostV c0 c1 → (PostV c0 c1 ∧ ∀ (name : String) (id : Nat),
      (none : Option (String × Nat)) = some (name, id) →
        id < c1.symbolMap.sizes.vars ∧ (c1.symbolMap.var id).name = name) :=
    fun h1 => ⟨h1, by intro _ _ hl; cases hl⟩
  split
  · rename_i nm hnm
    refine Holds.bind (utilsIdentifier_spec h.toPost (hn.sub (Ast.child_sub hnm)) (Ast.child_is_kind hnm)) ?_
    rintro x c1 ⟨rfl, hx⟩
    split
    · rename_i name loc
      have hloc := hx name loc rfl
      split
      · rename_i init hinit
        refine Holds.bind (indexForeachIteratorInit_specV hr h (hn.sub (Ast.child_sub hinit))) ?_
        intro t c2 h2
        refine Holds.bind (Holds.postV h2 (addVariable_step h2.inv (hloc.nodeLoc h2.toPost) (hloc.tokAt h2.toPost))) ?_
        rintro id c3 ⟨h3, hid, _, hvar⟩
        refine Holds.pure ⟨h3, ?_⟩
        intro _ _ hl
        cases hl
        exact ⟨hid, by rw [hvar]⟩
      · exact Holds.pure (hnone h)
    · exact Holds.pure (hnone h)
  · exact Holds.pure (hnone h)

theorem indexAssert_spec (hr : RecOK r k) (h : Post c0 c) (hn : Fits (k + 1) c0 n) :
    Holds (indexAssert r n) c (fun _ c' => Post c0 c') :=
  Holds.post' h (indexAssert_specV hr (PostV.refl h.inv) (hn.ext h.ext))

theorem indexDefvar_spec (hr : RecOK r k) (h : Post c0 c) (hn : Fits (k + 1) c0 n) :
    Holds (indexDefvar r n) c (fun _ c' => Post c0 c') :=
  Holds.post' h (indexDefvar_specV hr (PostV.refl h.inv) (hn.ext h.ext))

theorem indexDump_spec (hr : RecOK r k) (h : Post c0 c) (hn : Fits (k + 1) c0 n) :
    Holds (indexDump r n) c (fun _ c' => Post c0 c') :=
  Holds.post' h (indexDump_specV hr (PostV.refl h.inv) (hn.ext h.ext))

theorem indexForeachIterator_spec (hr : RecOK r k) (h : Post c0 c) (hn : Fits (k + 1) c0 n) :
    Holds (indexForeachIterator r n) c
      (fun x c' => Post c0 c' ∧ ∀ name id, x = some (name, id) →
        id < c'.symbolMap.sizes.vars ∧ (c'.symbolMap.var id).name = name) :=
  Holds.post h (indexForeachIterator_specV hr (PostV.refl h.inv) (hn.ext h.ext))

theorem indexForeach_spec (hr : RecOK r k) (h : Post c0 c) (hcf : clsFree c0) (hn : Fits (k + 1) c0 n) :
    Holds (indexForeach r n) c (fun _ c' => Post c0 c') := by
  unfold indexForeach
  split
  · rename_i it hit
    refine Holds.bind (indexForeachIterator_spec hr h (hn.sub' (Ast.child_sub hit))) ?_
    rintro x c1 ⟨h1, hx⟩
    split
    · rename_i name vid
      have hdo : DefOnly c1.symbolMap (.foreach name vid) := by intro id hid; cases hid
      refine Holds.bind (scopesPush_spec h1 (kind := .foreach name vid) (hx name vid rfl).1 hdo
        (by intro _ _ hk; cases hk; exact (hx name vid rfl).2)) ?_
      rintro _ c2 ⟨hc2, h2⟩
      split
      · rename_i body hbody
        refine Holds.bind (hr.statementList (Post.refl h2.inv) (hcf.ext h2.ext)
          ((hn.sub (Ast.child_sub hbody)).ext h2.ext)) ?_
        intro _ c3 h3
        exact scopesPop_spec h1 hdo hc2 h3
      · exact Holds.pure h2
    · exact Holds.pure h1
  · exact Holds.pure h

theorem defOnly_block (sm : SymMap) : DefOnly sm .block := by intro id hid; cases hid

theorem indexIf_spec (hr : RecOK r k) (h : Post c0 c) (hcf : clsFree c0) (hn : Fits (k + 1) c0 n) :
    Holds (indexIf r n) c (fun _ c' => Post c0 c') := by
  unfold indexIf
  split
  · rename_i cond hcond
    refine Holds.bind (hr.value h (hn.sub (Ast.child_sub hcond))) ?_
    intro _ c1 h1
    split
    · rename_i tb htb
      refine Holds.bind (scopesPush_spec h1 (kind := .block) trivial (defOnly_block _)) ?_
      rintro _ c2 ⟨hc2, h2⟩
      refine Holds.bind (hr.statementList (Post.refl h2.inv) (hcf.ext h2.ext)
        ((hn.sub (Ast.nthChild_sub htb)).ext h2.ext)) ?_
      intro _ c3 h3
      refine Holds.bind (scopesPop_spec h1 (defOnly_block _) hc2 h3) ?_
      intro _ c4 h4
      split
      · rename_i eb heb
        refine Holds.bind (scopesPush_spec h4 (kind := .block) trivial (defOnly_block _)) ?_
        rintro _ c5 ⟨hc5, h5⟩
        refine Holds.bind (hr.statementList (Post.refl h5.inv) (hcf.ext h5.ext)
          ((hn.sub (Ast.nthChild_sub heb)).ext h5.ext)) ?_
        intro _ c6 h6
        exact scopesPop_spec h4 (defOnly_block _) hc5 h6
      · exact Holds.pure h4
    · exact Holds.pure h1
  · exact Holds.pure h

theorem indexLetItem_specV (hr : RecOK r k) (h : PostV c0 c) (hn : Fits (k + 1) c0 n) :
    Holds (indexLetItem r n) c (fun _ c' => PostV c0 c') := by
  unfold indexLetItem
  split
  · rename_i v hv
    refine Holds.bind (hr.valueV h (hn.sub (Ast.child_sub hv))) ?_
    intro _ c1 h1
    exact Holds.pure h1
  · exact Holds.pure h

theorem indexLetList_specV (hr : RecOK r k) (h : PostV c0 c) (hn : Fits (k + 1) c0 n) :
    Holds (indexLetList r n) c (fun _ c' => PostV c0 c') := by
  unfold indexLetList
  refine Holds.bind (Holds.forIn_mem (fun _ c' => PostV c0 c') h ?_) (fun _ c' h' => Holds.pure h')
  intro item hitem b c1 h1
  refine Holds.bind (indexLetItem_specV hr h1 (hn.sub' (Ast.children_sub hitem))) ?_
  intro _ c2 h2
  exact Holds.pure h2

theorem indexLet_spec (hr : RecOK r k) (h : Post c0 c) (hcf : clsFree c0) (hn : Fits (k + 1) c0 n) :
    Holds (indexLet r n) c (fun _ c' => Post c0 c') := by
  unfold indexLet
  split
  · rename_i ll hll
    refine Holds.bind (Holds.post' h (indexLetList_specV hr (PostV.refl h.inv)
      ((hn.sub' (Ast.child_sub hll)).ext h.ext))) ?_
    intro _ c1 h1
    split
    · rename_i sl hsl
      refine Holds.bind (scopesPush_spec h1 (kind := .block) trivial (defOnly_block _)) ?_
      rintro _ c2 ⟨hc2, h2⟩
      refine Holds.bind (hr.statementList (Post.refl h2.inv) (hcf.ext h2.ext)
        ((hn.sub (Ast.child_sub hsl)).ext h2.ext)) ?_
      intro _ c3 h3
      exact scopesPop_spec h1 (defOnly_block _) hc2 h3
    · exact Holds.pure h1
  · exact Holds.pure h


theorem indexTemplateArgDecl_specV (hr : RecOK r k) (h : PostV c0 c) (hn : Fits (k + 1) c0 n)
    (hk : TaCtx c0) :
    Holds (indexTemplateArgDecl r n) c (fun _ c' => PostV c0 c') := by
  unfold indexTemplateArgDecl
  split
  · rename_i nm hnm
    refine Holds.bind (utilsIdentifier_spec h.toPost (hn.sub (Ast.child_sub hnm)) (Ast.child_is_kind hnm)) ?_
    rintro x c1 ⟨rfl, hx⟩
    split
    · rename_i name loc
      have hloc := hx name loc rfl
      split
      · rename_i tn htn
        refine Holds.bind (hr.typV h (hn.sub (Ast.child_sub htn))) ?_
        intro t c2 h2
        split
        · rename_i typ
          dsimp only
          refine Holds.bind (Holds.postV h2 (addTemplateArgument_step h2.inv (hloc.nodeLoc h2.toPost) (hloc.tokAt h2.toPost))) ?_
          rintro taId c3 ⟨h3, hta, htaeq⟩
          have hk3 : HasKind isRecOrMcKind c3 := hk.has.ext h3.ext
          have htafile : (c3.symbolMap.templateArg taId).defineLoc.file = loc.file := by rw [htaeq]
          have hhead : c3.fileTrace.head? = some loc.file := by rw [h3.ext.trace]; exact hloc.1
          refine Holds.bind currentRecordId_spec ?_
          rintro rid c4 ⟨hcc, hrid⟩
          subst hcc
          split
          · rename_i recordId
            have hrid0 : c0.scopes.currentRecordId = some recordId := by
              rw [← currentRecordId_same h3.same]; exact hrid.symm
            obtain ⟨hv0, hf0⟩ := hk.recd recordId hrid0
            refine Holds.bind (Holds.postV' h3 (recordMut_insertTa_step h3.inv recordId name hta ?_ (by rw [htaeq]))) ?_
            · intro _ hcls
              rw [h3.ext.sm.recKind recordId hv0] at hcls
              have := hf0 hcls
              rw [← h3.ext.trace, hhead, ← h3.ext.sm.recLoc recordId hv0] at this
              rw [htafile]
              exact Option.some.inj this
            · intro _ c5 h5
              split
              · rename_i v hv
                refine Holds.bind (hr.valueV h5 (hn.sub (Ast.child_sub hv))) ?_
                intro vt c6 h6
                split
                · refine canBeCastedTo_spec _ _ ?_
                  intro b
                  split
                  · exact error_specV h6 (hn.sub' (Ast.child_sub hv)).rangeIn _
                  · exact Holds.pure h6
                · exact Holds.pure h6
              · exact Holds.pure h5
          · rename_i hnone
            have hr3 : c3.scopes.currentRecordId = none := by
              cases hh : c3.scopes.currentRecordId with
              | none => rfl
              | some v => exact absurd (hrid.trans hh) (hnone v)
            refine Holds.bind currentMulticlassId_spec ?_
            rintro mid c5 ⟨hcc, hmid⟩
            subst hcc
            split
            · rename_i mcId
              have hr0 : c0.scopes.currentRecordId = none := by
                rw [← currentRecordId_same h3.same]; exact hr3
              have hm0 : c0.scopes.currentMulticlassId = some mcId := by
                rw [← currentMulticlassId_same h3.same]; exact hmid.symm
              obtain ⟨hv0, hf0⟩ := hk.mc hr0 mcId hm0
              refine Holds.bind (Holds.postV' h3 (multiclassMut_insertTa_step h3.inv mcId name hta ?_ (by rw [htaeq]))) ?_
              · intro _
                have := hf0
                rw [← h3.ext.trace, hhead, ← h3.ext.sm.mcLoc mcId hv0] at this
                rw [htafile]
                exact Option.some.inj this
              · intro _ c5 h5
                split
                · rename_i v hv
                  refine Holds.bind (hr.valueV h5 (hn.sub (Ast.child_sub hv))) ?_
                  intro vt c6 h6
                  split
                  · refine canBeCastedTo_spec _ _ ?_
                    intro b
                    split
                    · exact error_specV h6 (hn.sub' (Ast.child_sub hv)).rangeIn _
                    · exact Holds.pure h6
                  · exact Holds.pure h6
                · exact Holds.pure h5
            · rename_i hnone2
              exfalso
              obtain ⟨id, hid⟩ := hk3.recOrMc_some hr3
              exact hnone2 id (hmid.trans hid)
        · exact Holds.pure h2
      · exact Holds.pure h
    · exact Holds.pure h
  · exact Holds.pure h

theorem indexTemplateArgList_specV (hr : RecOK r k) (h : PostV c0 c) (hn : Fits (k + 1) c0 n)
    (hk : TaCtx c0) :
    Holds (indexTemplateArgList r n) c (fun _ c' => PostV c0 c') := by
  unfold indexTemplateArgList
  refine Holds.bind (Holds.forIn_mem (fun _ c' => PostV c0 c') h ?_) (fun _ c' h' => Holds.pure h')
  intro item hitem b c1 h1
  refine Holds.bind (indexTemplateArgDecl_specV hr h1 (hn.sub' (Ast.children_sub hitem)) hk) ?_
  intro _ c2 h2
  exact Holds.pure h2

/-- the range carried by an indexed argument is a node range of the current file -/
def ArgOK (c0 : IndexCtx) (a : Option ArgValue) : Prop := ∀ x, a = some x → RangeIn c0 x.2.2

theorem indexArgValue_specV (hr : RecOK r k) (h : PostV c0 c) (hn : Fits (k + 1) c0 n) :
    Holds (indexArgValue r n) c (fun a c' => PostV c0 c' ∧ ArgOK c0 a) := by
  have hnone : ∀ {c1 : IndexCtx}, PostV c0 c1 → (PostV c0 c1 ∧ ArgOK c0 none) :=
    fun h1 => ⟨h1, by intro _ hl; cases hl⟩
  have hsome : ∀ {c1 : IndexCtx} (nm : Option String) (t : Ty), PostV c0 c1 →
      (PostV c0 c1 ∧ ArgOK c0 (some (nm, t, nodeRange n))) :=
    fun nm t h1 => ⟨h1, by intro _ hl; cases hl; exact hn.rangeIn⟩
  unfold indexArgValue
  split
  · split
    · rename_i v hv
      refine Holds.bind (hr.valueV h (hn.sub (Ast.nthChild_sub hv))) ?_
      intro t c1 h1
      split
      · exact Holds.pure (hsome _ _ h1)
      · exact Holds.pure (hnone h1)
    · exact Holds.pure (hnone h)
  · split
    · rename_i nv hnv
      split
      · rename_i inner hinner
        split
        · rename_i sv hsv
          dsimp only
          have hjp : ∀ (name : String), Holds (match Ast.namedArgValueValue n with
              | some value => do
                let __x ← r.value value
                match __x with
                  | some typ => pure (some (some name, typ, nodeRange n))
                  | x => pure none
              | x => pure none : IxM (Option ArgValue)) c (fun a c' => PostV c0 c' ∧ ArgOK c0 a) := by
            intro name
            split
            · rename_i v hv
              refine Holds.bind (hr.valueV h (hn.sub (Ast.nthChild_sub hv))) ?_
              intro t c1 h1
              split
              · exact Holds.pure (hsome _ _ h1)
              · exact Holds.pure (hnone h1)
            · exact Holds.pure (hnone h)
          split
          · split
            · exact Holds.bind (Holds.pure (Q := fun a c' => c' = c) rfl) (fun a c' hc => hc ▸ hjp a)
            · exact Holds.pure (hnone h)
          · split
            · exact Holds.bind (Holds.pure (Q := fun a c' => c' = c) rfl) (fun a c' hc => hc ▸ hjp a)
            · refine Holds.bind (error_specV h hn.rangeIn _) ?_
              intro _ c1 h1
              exact Holds.pure (hnone h1)
        · exact Holds.pure (hnone h)
      · exact Holds.pure (hnone h)
    · exact Holds.pure (hnone h)

theorem indexArgValueList_specV (hr : RecOK r k) (h : PostV c0 c) (hn : Fits (k + 1) c0 n) :
    Holds (indexArgValueList r n) c (fun as c' => PostV c0 c' ∧ ∀ a ∈ as, ArgOK c0 a) := by
  unfold indexArgValueList
  refine (Holds.mapM (fun c' => PostV c0 c') (ArgOK c0) h ?_).mono (fun as c' ⟨h1, _, h2⟩ => ⟨h1, h2⟩)
  intro a ha c1 h1
  exact indexArgValue_specV hr h1 (hn.sub' (Ast.children_sub ha))


theorem checkTemplateArgs_specV (h : PostV c0 c) (templateArgs : List TemplateArgument)
    {argValues : List (Option ArgValue)} {range : Nat × Nat}
    (hargs : ∀ a ∈ argValues, ArgOK c0 a) (hrange : RangeIn c0 range) :
    Holds (checkTemplateArgs templateArgs argValues range) c (fun _ c' => PostV c0 c') := by
  unfold checkTemplateArgs
  split
  · refine Holds.bind (error_specV h hrange _) ?_
    intro _ c1 h1
    exact Holds.pure h1
  · rename_i hlen
    dsimp only
    refine Holds.bind (Holds.forIn_idx (fun i (st : List String × Nat) c' => st.2 = i ∧ PostV c0 c')
      (fun _ c' => PostV c0 c') ⟨rfl, h⟩ ?_ (fun _ _ hI => hI.2)) ?_
    · rintro i hi ⟨u, idx⟩ c1 ⟨hidx, h1⟩
      simp only at hidx
      subst hidx
      have harg := hargs _ (List.getElem_mem hi)
      have hti : idx < templateArgs.length := by omega
      dsimp only
      split
      · rename_i avName avTyp avRange hav
        have hrg : RangeIn c0 avRange := harg _ hav
        -- the join point: the type check of the matched argument
        have hjp : ∀ (u' : List String) (ant : Option (String × Ty)) {c2 : IndexCtx}, PostV c0 c2 →
            Holds (match ant with
              | some (argName, argTyp) => do
                let __do_lift ← canBeCastedTo avTyp argTyp
                if (!__do_lift) = true then do
                    error avRange
                        (toString "value specified for template argument '" ++ toString argName ++
                                toString "' is type of " ++
                              toString avTyp ++
                            toString "; expected type " ++
                          toString argTyp)
                    pure (ForInStep.yield (u', idx + 1))
                  else pure (ForInStep.yield (u', idx + 1))
              | x => pure (ForInStep.yield (u', idx + 1)) : IxM (ForInStep (List String × Nat))) c2
              (Holds.stepPost (fun b' c3 => b'.2 = idx + 1 ∧ PostV c0 c3) (fun _ c3 => PostV c0 c3)) := by
          intro u' ant c2 h2
          split
          · refine canBeCastedTo_spec _ _ ?_
            intro b
            split
            · refine Holds.bind (error_specV h2 hrg _) ?_
              intro _ c3 h3
              exact Holds.pure ⟨rfl, h3⟩
            · exact Holds.pure ⟨rfl, h2⟩
          · exact Holds.pure ⟨rfl, h2⟩
        split
        · split
          · exact hjp _ (some (_, _)) h1
          · rename_i hnone
            rw [List.getElem?_eq_getElem hti] at hnone
            cases hnone
        · split
          · exact hjp _ _ h1
          · split
            · refine Holds.bind (error_specV h1 hrg _) ?_
              intro _ c2 h2
              exact hjp _ none h2
            · refine Holds.bind (error_specV h1 hrg _) ?_
              intro _ c2 h2
              exact hjp _ none h2
      · exact Holds.pure ⟨rfl, h1⟩
    · rintro ⟨u, idx⟩ c1 h1
      dsimp only
      refine Holds.bind (Holds.forIn_mem (fun _ c' => PostV c0 c') h1 ?_) (fun _ c' h' => Holds.pure h')
      intro ua _ b c2 h2
      split
      · split
        · refine Holds.bind (error_specV h2 hrange _) ?_
          intro _ c3 h3
          exact Holds.pure h3
        · exact Holds.pure h2
      · exact Holds.pure h2

theorem templateArgsOf_spec (names : Array (String × Nat)) {c : IndexCtx} :
    Holds (templateArgsOf names) c (fun _ c' => c = c') := ⟨_, _, rfl, rfl⟩

/-- shared tail of `resolve_class_ref_as_class`, `resolve_class_ref_as_multiclass` and the
`ClassValue` arm: index the argument list, then check it against the template arguments -/
theorem argsSome_specV {α : Type} (hr : RecOK r k) (h : PostV c0 c) (hn : Fits (k + 1) c0 n)
    (templateArgs : List TemplateArgument) {l : PTree} (hl : Sub n l) (res : α) :
    Holds (do
        let argValues ← indexArgValueList r l
        checkTemplateArgs templateArgs argValues (nodeRange n)
        pure res : IxM α) c (fun a c' => PostV c0 c' ∧ a = res) := by
  refine Holds.bind (indexArgValueList_specV hr h (hn.sub' hl)) ?_
  rintro as c1 ⟨h1, has⟩
  refine Holds.bind (checkTemplateArgs_specV h1 templateArgs has hn.rangeIn) ?_
  intro _ c2 h2
  exact Holds.pure ⟨h2, rfl⟩

theorem argsNone_specV {α : Type} (h : PostV c0 c) (hn : Fits (k + 1) c0 n)
    (templateArgs : List TemplateArgument) (res : α) :
    Holds (do
        let argValues ← pure []
        checkTemplateArgs templateArgs argValues (nodeRange n)
        pure res : IxM α) c (fun a c' => PostV c0 c' ∧ a = res) := by
  refine Holds.bind (Holds.pure (Q := fun a c' => c = c' ∧ a = []) ⟨rfl, rfl⟩) ?_
  rintro _ _ ⟨rfl, rfl⟩
  refine Holds.bind (checkTemplateArgs_specV h templateArgs (by intro a ha; cases ha) hn.rangeIn) ?_
  intro _ c2 h2
  exact Holds.pure ⟨h2, rfl⟩

theorem resolveClassRefAsClass_specV (hr : RecOK r k) (h : PostV c0 c) (hn : Fits (k + 1) c0 n) :
    Holds (resolveClassRefAsClass r n) c
      (fun x c' => PostV c0 c' ∧ ∀ id, x = some id → id < c'.symbolMap.sizes.recs) := by
  refine Holds.postV h ?_
  replace hn := hn.ext h.ext
  replace h := PostV.refl h.inv
  have hnone : ∀ {c1 : IndexCtx}, PostV c c1 → (PostV c c1 ∧ ∀ id, (none : Option Nat) = some id →
      id < c1.symbolMap.sizes.recs) :=
    fun h1 => ⟨h1, by intro _ hl; cases hl⟩
  unfold resolveClassRefAsClass
  split
  · rename_i nm hnm
    refine Holds.bind (utilsIdentifier_spec h.toPost (hn.sub (Ast.child_sub hnm)) (Ast.child_is_kind hnm)) ?_
    rintro x _ ⟨rfl, hx⟩
    split
    · rename_i name loc
      have hloc := hx name loc rfl
      refine Holds.bind (withSM_spec _) ?_
      rintro fc _ ⟨rfl, hfc⟩
      split
      · rename_i classId
        have hcid : classId < c.symbolMap.sizes.recs := h.inv.ids.cls name classId hfc.symm
        refine Holds.bind (addReference_specV h (s := .record classId) hcid hloc (h.inv.names.cls name classId hfc.symm).1
          (h.inv.names.cls name classId hfc.symm).2) ?_
        intro _ c2 h2
        refine Holds.bind (withSM_spec _) ?_
        rintro nta _ ⟨rfl, _⟩
        refine Holds.bind (templateArgsOf_spec _) ?_
        rintro tas _ rfl
        dsimp only
        have hfin : ∀ (x : Option Nat) (c3 : IndexCtx), (PostV c c3 ∧ x = some classId) →
            (PostV c c3 ∧ ∀ id, x = some id → id < c3.symbolMap.sizes.recs) := by
          rintro x c3 ⟨h3, rfl⟩
          refine ⟨h3, ?_⟩
          intro id hid
          cases hid
          exact Nat.lt_of_lt_of_le hcid h3.ext.sizes.recs
        split
        · rename_i l hl
          exact (argsSome_specV hr h2 hn tas (Ast.child_sub hl) (some classId)).mono hfin
        · exact (argsNone_specV h2 hn tas (some classId)).mono hfin
      · refine Holds.bind (error_specV h hloc.locIn.range _) ?_
        intro _ c2 h2
        exact Holds.pure (hnone h2)
    · exact Holds.pure (hnone h)
  · exact Holds.pure (hnone h)

theorem resolveClassRefAsMulticlass_specV (hr : RecOK r k) (h : PostV c0 c) (hn : Fits (k + 1) c0 n) :
    Holds (resolveClassRefAsMulticlass r n) c
      (fun x c' => PostV c0 c' ∧ ∀ id, x = some id → id < c'.symbolMap.sizes.mcs) := by
  refine Holds.postV h ?_
  replace hn := hn.ext h.ext
  replace h := PostV.refl h.inv
  have hnone : ∀ {c1 : IndexCtx}, PostV c c1 → (PostV c c1 ∧ ∀ id, (none : Option Nat) = some id →
      id < c1.symbolMap.sizes.mcs) :=
    fun h1 => ⟨h1, by intro _ hl; cases hl⟩
  unfold resolveClassRefAsMulticlass
  split
  · rename_i nm hnm
    refine Holds.bind (utilsIdentifier_spec h.toPost (hn.sub (Ast.child_sub hnm)) (Ast.child_is_kind hnm)) ?_
    rintro x _ ⟨rfl, hx⟩
    split
    · rename_i name loc
      have hloc := hx name loc rfl
      refine Holds.bind (withSM_spec _) ?_
      rintro fc _ ⟨rfl, hfc⟩
      split
      · rename_i mcId
        have hcid : mcId < c.symbolMap.sizes.mcs := h.inv.ids.mcn name mcId hfc.symm
        refine Holds.bind (addReference_specV h (s := .multiclass mcId) hcid hloc (h.inv.names.mcn name mcId hfc.symm)
          (h.inv.names.mcs mcId hcid)) ?_
        intro _ c2 h2
        refine Holds.bind (withSM_spec _) ?_
        rintro nta _ ⟨rfl, _⟩
        refine Holds.bind (templateArgsOf_spec _) ?_
        rintro tas _ rfl
        dsimp only
        have hfin : ∀ (x : Option Nat) (c3 : IndexCtx), (PostV c c3 ∧ x = some mcId) →
            (PostV c c3 ∧ ∀ id, x = some id → id < c3.symbolMap.sizes.mcs) := by
          rintro x c3 ⟨h3, rfl⟩
          refine ⟨h3, ?_⟩
          intro id hid
          cases hid
          exact Nat.lt_of_lt_of_le hcid h3.ext.sizes.mcs
        split
        · rename_i l hl
          exact (argsSome_specV hr h2 hn tas (Ast.child_sub hl) (some mcId)).mono hfin
        · exact (argsNone_specV h2 hn tas (some mcId)).mono hfin
      · refine Holds.bind (error_specV h hloc.locIn.range _) ?_
        intro _ c2 h2
        exact Holds.pure (hnone h2)
    · exact Holds.pure (hnone h)
  · exact Holds.pure (hnone h)


theorem namesClassOnly_spec (h : PostV c0 c) (hn : Fits (k + 1) c0 n) :
    Holds (namesClassOnly n) c (fun _ c' => c = c') := by
  unfold namesClassOnly
  split
  · rename_i nm hnm
    refine Holds.bind (utilsIdentifier_spec h.toPost (hn.sub (Ast.child_sub hnm)) (Ast.child_is_kind hnm)) ?_
    rintro x c' ⟨hcc, _⟩
    subst hcc
    split
    · exact Holds.withSM rfl
    · exact Holds.pure rfl
  · exact Holds.pure rfl

theorem defmMulticlassParent_specV (hr : RecOK r k) (h : PostV c0 c) (hn : Fits (k + 1) c0 n) (defmId : Nat) :
    Holds (defmMulticlassParent r defmId n) c (fun _ c' => PostV c0 c') := by
  unfold defmMulticlassParent
  refine Holds.bind (resolveClassRefAsMulticlass_specV hr h hn) ?_
  rintro x c2 ⟨h2, hx⟩
  split
  · rename_i pid
    exact Holds.postV' h2 (defmMut_pushParent_step h2.inv defmId (hx pid rfl))
  · exact Holds.pure h2

theorem multiclassParent_specV (hr : RecOK r k) (h : PostV c0 c) (hn : Fits (k + 1) c0 n) (mcId : Nat) :
    Holds (multiclassParent r mcId n) c (fun _ c' => PostV c0 c') := by
  unfold multiclassParent
  refine Holds.bind (resolveClassRefAsMulticlass_specV hr h hn) ?_
  rintro x c2 ⟨h2, hx⟩
  split
  · rename_i pid
    exact Holds.postV' h2 (multiclassMut_pushParent_step h2.inv mcId (hx pid rfl))
  · exact Holds.pure h2

theorem indexParentClassList_specV (hr : RecOK r k) (h : PostV c0 c) (hn : Fits (k + 1) c0 n)
    (hk : HasKind isRecMcDefmKind c0) :
    Holds (indexParentClassList r n) c (fun _ c' => PostV c0 c') := by
  refine (Holds.postV (R := fun _ _ => True) h ?_).mono (fun _ _ hp => hp.1)
  replace hk := hk.ext h.ext
  replace hn := hn.ext h.ext
  replace h := PostV.refl h.inv
  unfold indexParentClassList
  refine Holds.bind currentRecordId_spec ?_
  rintro rid _ ⟨rfl, hrid⟩
  split
  · rename_i recordId
    have hrec : recordId < c.symbolMap.sizes.recs := Scopes.currentRecordId_ok h.inv.scopes hrid.symm
    refine Holds.bind (Holds.forIn_mem (fun _ c' => PostV c c') h ?_) (fun _ c' h' => Holds.pure ⟨h', trivial⟩)
    intro cr hcr b c1 h1
    refine Holds.bind (resolveClassRefAsClass_specV hr h1 (hn.sub' (Ast.children_sub hcr))) ?_
    rintro x c2 ⟨h2, hx⟩
    split
    · rename_i classId
      split
      · refine Holds.bind (error_specV h2 (hn.sub' (Ast.children_sub hcr)).rangeIn _) ?_
        intro _ c3 h3
        exact Holds.pure h3
      · refine Holds.bind (Holds.postV' h2 (recordMut_pushParent_step h2.inv recordId (hx classId rfl))) ?_
        intro _ c3 h3
        exact Holds.pure h3
    · exact Holds.pure h2
  · rename_i hnone
    have hr0 : c.scopes.currentRecordId = none := by
      cases hh : c.scopes.currentRecordId with
      | none => rfl
      | some v => exact absurd (hrid.trans hh) (hnone v)
    refine Holds.bind currentMulticlassId_spec ?_
    rintro mid _ ⟨rfl, hmid⟩
    split
    · rename_i mcId
      refine Holds.bind currentDefmId_spec ?_
      rintro did _ ⟨rfl, _⟩
      split
      · exact Holds.pure ⟨h, trivial⟩
      · rename_i first rest hcl
        have hfirst : first ∈ Ast.parentClassListClasses n := by rw [hcl]; simp
        have hrest : ∀ x ∈ rest, x ∈ Ast.parentClassListClasses n := fun x hx => by rw [hcl]; simp [hx]
        refine Holds.bind (multiclassParent_specV hr h (hn.sub' (Ast.children_sub hfirst)) mcId) ?_
        intro _ c1 h1
        refine Holds.bind (Holds.forIn_mem (fun _ c' => PostV c c') h1 ?_) (fun _ c' h' => Holds.pure ⟨h', trivial⟩)
        intro cr hcr b c2 h2
        have hcrn := hn.sub' (Ast.children_sub (hrest cr hcr))
        refine Holds.bind (namesClassOnly_spec h2 hcrn) ?_
        rintro b' c' hcc
        subst hcc
        split
        · refine Holds.bind (resolveClassRefAsClass_specV hr h2 hcrn) ?_
          rintro x c3 ⟨h3, _⟩
          exact Holds.pure h3
        · refine Holds.bind (multiclassParent_specV hr h2 hcrn mcId) ?_
          intro _ c3 h3
          exact Holds.pure h3
    · rename_i hnone2
      have hm0 : c.scopes.currentMulticlassId = none := by
        cases hh : c.scopes.currentMulticlassId with
        | none => rfl
        | some v => exact absurd (hmid.trans hh) (hnone2 v)
      refine Holds.bind currentDefmId_spec ?_
      rintro did _ ⟨rfl, hdid⟩
      split
      · rename_i defmId
        split
        · exact Holds.pure ⟨h, trivial⟩
        · rename_i first rest hcl
          have hfirst : first ∈ Ast.parentClassListClasses n := by rw [hcl]; simp
          have hrest : ∀ x ∈ rest, x ∈ Ast.parentClassListClasses n := fun x hx => by rw [hcl]; simp [hx]
          refine Holds.bind (defmMulticlassParent_specV hr h (hn.sub' (Ast.children_sub hfirst)) defmId) ?_
          intro _ c1 h1
          refine Holds.bind (Holds.forIn_mem (fun _ c' => PostV c c') h1 ?_) (fun _ c' h' => Holds.pure ⟨h', trivial⟩)
          intro cr hcr b c2 h2
          have hcrn := hn.sub' (Ast.children_sub (hrest cr hcr))
          refine Holds.bind (namesClassOnly_spec h2 hcrn) ?_
          rintro b' c' hcc
          subst hcc
          split
          · refine Holds.bind (resolveClassRefAsClass_specV hr h2 hcrn) ?_
            rintro x c3 ⟨h3, _⟩
            exact Holds.pure h3
          · refine Holds.bind (defmMulticlassParent_specV hr h2 hcrn defmId) ?_
            intro _ c3 h3
            exact Holds.pure h3
      · rename_i hnone3
        exfalso
        obtain ⟨id, hid⟩ := hk.recMcDefm_some hr0 hm0
        exact hnone3 id (hdid.trans hid)

theorem _root_.Tg.Ide.RecCtx.hasRec {c0 : IndexCtx} {rid : Nat} (hc : RecCtx c0 rid) : HasKind isRecordKind c0 := by
  have := hc.cur
  rw [currentRecordId_eq] at this
  obtain ⟨k, hk, hkr⟩ := List.exists_of_findSome?_eq_some this
  refine ⟨k, hk, ?_⟩
  cases k <;> simp_all [kindRecordId, isRecordKind]

theorem indexFieldDef_specV {rid : Nat} (hr : RecOK r k) (h : PostV c0 c) (hn : Fits (k + 1) c0 n)
    (hk : RecCtx c0 rid) :
    Holds (indexFieldDef r n) c (fun _ c' => PostV c0 c') := by
  obtain ⟨hcur, hvalid, hfile⟩ := hk.now h
  refine (Holds.postV (R := fun _ _ => True) h ?_).mono (fun _ _ hp => hp.1)
  replace hn := hn.ext h.ext
  replace h := PostV.refl h.inv
  have hret : ∀ {c1 : IndexCtx}, PostV c c1 → Holds (pure () : IxM Unit) c1 (fun _ c' => PostV c c' ∧ True) :=
    fun h1 => Holds.pure ⟨h1, trivial⟩
  unfold indexFieldDef
  refine Holds.bind currentRecordId_spec ?_
  rintro rid' c' ⟨hcc, hrid⟩
  subst hcc
  rw [hcur] at hrid
  subst hrid
  dsimp only
  split
  · rename_i nm hnm
    refine Holds.bind (utilsIdentifier_spec h.toPost (hn.sub (Ast.child_sub hnm)) (Ast.child_is_kind hnm)) ?_
    rintro x c' ⟨hcc, hx⟩
    subst hcc
    split
    · rename_i name loc
      have hloc := hx name loc rfl
      split
      · rename_i tn htn
        refine Holds.bind (hr.typV h (hn.sub (Ast.child_sub htn))) ?_
        intro t c1 h1
        split
        · rename_i typ
          refine Holds.bind (Holds.postV h1 (addRecordField_step h1.inv
            (a := { name := name, typ := typ, parent := rid, defineLoc := loc })
            (Nat.lt_of_lt_of_le hvalid h1.ext.sizes.recs) (hloc.nodeLoc h1.toPost) (hloc.tokAt h1.toPost))) ?_
          rintro fid c2 ⟨h2, hfid, hfeq⟩
          refine Holds.bind (Holds.postV' h2 (recordMut_insertField_step h2.inv rid name hfid ?_ (by rw [hfeq]))) ?_
          · intro _
            rw [hfeq, h2.ext.sm.recLoc rid hvalid]
            have := hloc.1
            rw [hfile] at this
            exact (Option.some.inj this).symm
          intro _ c3 h3
          split
          · rename_i v hv
            refine Holds.bind (hr.valueV h3 (hn.sub (Ast.child_sub hv))) ?_
            intro vt c4 h4
            split
            · refine canBeCastedTo_spec _ _ ?_
              intro b
              split
              · exact (error_specV h4 (hn.sub' (Ast.child_sub hv)).rangeIn _).mono (fun _ _ hp => ⟨hp, trivial⟩)
              · exact hret h4
            · exact hret h4
          · exact hret h3
        · exact hret h1
      · exact hret h
    · exact hret h
  · exact hret h

theorem indexFieldLet_specV {rid : Nat} (hr : RecOK r k) (h : PostV c0 c) (hn : Fits (k + 1) c0 n)
    (hk : RecCtx c0 rid) :
    Holds (indexFieldLet r n) c (fun _ c' => PostV c0 c') := by
  obtain ⟨hcur, hvalid, hfile⟩ := hk.now h
  refine (Holds.postV (R := fun _ _ => True) h ?_).mono (fun _ _ hp => hp.1)
  replace hn := hn.ext h.ext
  replace h := PostV.refl h.inv
  have hret : ∀ {c1 : IndexCtx}, PostV c c1 → Holds (pure () : IxM Unit) c1 (fun _ c' => PostV c c' ∧ True) :=
    fun h1 => Holds.pure ⟨h1, trivial⟩
  unfold indexFieldLet
  split
  · rename_i nm hnm
    refine Holds.bind (utilsIdentifier_spec h.toPost (hn.sub (Ast.child_sub hnm)) (Ast.child_is_kind hnm)) ?_
    rintro x c' ⟨hcc, hx⟩
    subst hcc
    split
    · rename_i name loc
      have hloc := hx name loc rfl
      refine Holds.bind currentRecordId_spec ?_
      rintro rid' c' ⟨hcc, hrid⟩
      subst hcc
      rw [hcur] at hrid
      subst hrid
      dsimp only
      refine Holds.bind (withSM_spec _) ?_
      rintro ff c' ⟨hcc, hff⟩
      subst hcc
      split
      · rename_i fieldId
        have hfld : fieldId < c.symbolMap.sizes.flds := c.symbolMap.recordFindField_lt h.inv.ids hff.symm
        refine Holds.bind (withSM_spec _) ?_
        rintro ft c' ⟨hcc, _⟩
        subst hcc
        refine Holds.bind (withSM_spec _) ?_
        rintro par c' ⟨hcc, _⟩
        subst hcc
        split
        · refine Holds.bind (Holds.postV h (addRecordField_step h.inv
            (a := { name := name, typ := ft, parent := rid, defineLoc := loc }) hvalid (hloc.nodeLoc h.toPost)
            (hloc.tokAt h.toPost))) ?_
          rintro fid c2 ⟨h2, hfid, hfeq⟩
          refine Holds.bind (Holds.postV' h2 (recordMut_insertField_step h2.inv rid name hfid ?_ (by rw [hfeq]))) ?_
          · intro _
            rw [hfeq, h2.ext.sm.recLoc rid hvalid]
            have := hloc.1
            rw [hfile] at this
            exact (Option.some.inj this).symm
          intro _ c3 h3
          refine Holds.bind (addReference_specV h3 (s := .recordField fieldId)
            (Nat.lt_of_lt_of_le hfld h3.ext.sizes.flds) hloc
            ((h3.ext.sm.n.nm (.recordField fieldId) hfld).trans (c.symbolMap.recordFindField_nm h.inv.names hff.symm))
            (h3.inv.names.flds fieldId (Nat.lt_of_lt_of_le hfld h3.ext.sizes.flds))) ?_
          intro _ c4 h4
          split
          · rename_i v hv
            refine Holds.bind (hr.valueV h4 (hn.sub (Ast.child_sub hv))) ?_
            intro vt c5 h5
            split
            · refine canBeCastedTo_spec _ _ ?_
              intro b
              split
              · exact (error_specV h5 (hn.sub' (Ast.child_sub hv)).rangeIn _).mono (fun _ _ hp => ⟨hp, trivial⟩)
              · exact hret h5
            · exact hret h5
          · exact hret h4
        · have h3 := h
          refine Holds.bind (addReference_specV h3 (s := .recordField fieldId)
            (Nat.lt_of_lt_of_le hfld h3.ext.sizes.flds) hloc
            ((h3.ext.sm.n.nm (.recordField fieldId) hfld).trans (c.symbolMap.recordFindField_nm h.inv.names hff.symm))
            (h3.inv.names.flds fieldId (Nat.lt_of_lt_of_le hfld h3.ext.sizes.flds))) ?_
          intro _ c4 h4
          split
          · rename_i v hv
            refine Holds.bind (hr.valueV h4 (hn.sub (Ast.child_sub hv))) ?_
            intro vt c5 h5
            split
            · refine canBeCastedTo_spec _ _ ?_
              intro b
              split
              · exact (error_specV h5 (hn.sub' (Ast.child_sub hv)).rangeIn _).mono (fun _ _ hp => ⟨hp, trivial⟩)
              · exact hret h5
            · exact hret h5
          · exact hret h4
      · refine Holds.bind (error_specV h hloc.locIn.range _) ?_
        intro _ c1 h1
        split
        · rename_i v hv
          refine Holds.bind (hr.valueV h1 (hn.sub (Ast.child_sub hv))) ?_
          intro _ c2 h2
          exact hret h2
        · exact hret h1
    · exact hret h
  · exact hret h

theorem indexBodyItem_specV {rid : Nat} (hr : RecOK r k) (h : PostV c0 c) (hn : Fits (k + 1) c0 n)
    (hk : RecCtx c0 rid) :
    Holds (indexBodyItem r n) c (fun _ c' => PostV c0 c') := by
  unfold indexBodyItem
  split
  · exact indexFieldDef_specV hr h hn hk
  · exact indexFieldLet_specV hr h hn hk
  · exact indexAssert_specV hr h hn
  · exact indexDefvar_specV hr h hn
  · exact indexDump_specV hr h hn
  · exact Holds.pure h

theorem indexBody_specV {rid : Nat} (hr : RecOK r k) (h : PostV c0 c) (hn : Fits (k + 1) c0 n)
    (hk : RecCtx c0 rid) :
    Holds (indexBody r n) c (fun _ c' => PostV c0 c') := by
  unfold indexBody
  refine Holds.bind (Holds.forIn_mem (fun _ c' => PostV c0 c') h ?_) (fun _ c' h' => Holds.pure h')
  intro item hitem b c1 h1
  refine Holds.bind (indexBodyItem_specV hr h1 (hn.sub' (Ast.children_sub hitem)) hk) ?_
  intro _ c2 h2
  exact Holds.pure h2

theorem indexRecordBody_specV {rid : Nat} (hr : RecOK r k) (h : PostV c0 c) (hn : Fits (k + 1) c0 n)
    (hk : RecCtx c0 rid) :
    Holds (indexRecordBody r n) c (fun _ c' => PostV c0 c') := by
  unfold indexRecordBody
  split
  · rename_i pcl hpcl
    refine Holds.bind (indexParentClassList_specV hr h (hn.sub' (Ast.child_sub hpcl))
      (hk.hasRec.weaken isRecordKind_recMcDefm)) ?_
    intro _ c1 h1
    split
    · rename_i body hbody
      exact indexBody_specV hr h1 (hn.sub' (Ast.child_sub hbody)) hk
    · exact Holds.pure h1
  · exact Holds.pure h


theorem sameFileDefset_spec (h : Post c0 c) :
    Holds sameFileDefset c (fun x c' => c = c' ∧ ∀ id, x = some id →
      id < c.symbolMap.defsetList.size ∧ c.fileTrace.head? = some (c.symbolMap.defset id).defineLoc.file) := by
  unfold sameFileDefset
  refine Holds.bind currentDefsetId_spec ?_
  rintro ds c' ⟨hcc, hds⟩
  subst hcc
  split
  · rename_i defsetId
    refine Holds.bind (currentFileId_spec h) ?_
    rintro file c' ⟨hcc, _, hf⟩
    subst hcc
    refine Holds.bind (withSM_spec _) ?_
    rintro dsFile c' ⟨hcc, hdsf⟩
    subst hcc
    refine Holds.pure ⟨rfl, ?_⟩
    intro id hid
    split at hid
    · rename_i heq
      cases hid
      refine ⟨Scopes.currentDefsetId_ok h.inv.scopes hds.symm, ?_⟩
      have : dsFile = file := by simpa using heq
      rw [hf, ← hdsf, this]
    · cases hid
  · exact Holds.pure ⟨rfl, by intro _ hl; cases hl⟩


theorem defDefset_spec (h : Post c0 c) :
    Holds defDefset c (fun x c' => c = c' ∧ ∀ id, x = some id →
      id < c.symbolMap.defsetList.size ∧ c.fileTrace.head? = some (c.symbolMap.defset id).defineLoc.file) := by
  unfold defDefset
  refine Holds.bind (sameFileDefset_spec h) ?_
  rintro ds c' ⟨hcc, hds⟩
  subst hcc
  refine Holds.bind currentMulticlassId_spec ?_
  rintro mc c' ⟨hcc, _⟩
  subst hcc
  refine Holds.pure ⟨rfl, ?_⟩
  intro id hid
  split at hid
  · cases hid
  · exact hds id hid

theorem indexClass_spec (hr : RecOK r k) (h : Post c0 c) (hcf : clsFree c0) (hn : Fits (k + 1) c0 n) :
    Holds (indexClass r n) c (fun _ c' => Post c0 c') := by
  unfold indexClass
  split
  · rename_i nm hnm
    refine Holds.bind (utilsIdentifier_spec h (hn.sub (Ast.child_sub hnm)) (Ast.child_is_kind hnm)) ?_
    rintro x c' ⟨hcc, hx⟩
    subst hcc
    split
    · rename_i name loc
      have hloc := hx name loc rfl
      refine Holds.bind (Holds.post h (addRecord_step h.inv true ⟨rfl, rfl, rfl⟩ (hloc.nodeLoc h) (hloc.tokAt h))) ?_
      rintro recordId c1 ⟨h1, hid, hreq⟩
      refine Holds.bind (scopesPush_step h1.inv (kind := .record recordId) hid) ?_
      rintro _ c2 ⟨hc2, hi2⟩
      have hb : SameBase c1 c2 := SameBase.of_push hc2
      have hctx : RecCtx c2 recordId := RecCtx.of_push hc2 hid (by
        rw [hreq, h1.ext.trace]; exact hloc.1)
      have hn2 : Fits (k + 1) c2 n := (hn.ext h1.ext).sameBase hb
      dsimp only
      have hjp : ∀ {c3 : IndexCtx}, PostV c2 c3 → Holds (match Ast.classRecordBody n with
          | some body => do
            let __r ← indexRecordBody r body
            scopesPop
          | x => scopesPop : IxM Unit) c3 (fun _ c' => Post c0 c') := by
        intro c3 h3
        split
        · rename_i body hbody
          refine Holds.bind (indexRecordBody_specV hr h3 (hn2.sub' (Ast.child_sub hbody)) hctx) ?_
          intro _ c4 h4
          exact (scopesPop_specV (PostV.refl h1.inv) hc2 h4).mono (fun _ _ hp => h1.trans hp.toPost)
        · exact (scopesPop_specV (PostV.refl h1.inv) hc2 h3).mono (fun _ _ hp => h1.trans hp.toPost)
      split
      · rename_i list hlist
        refine Holds.bind (indexTemplateArgList_specV hr (PostV.refl hi2) (hn2.sub' (Ast.child_sub hlist))
          hctx.taCtx) ?_
        intro _ c3 h3
        exact hjp h3
      · exact hjp (PostV.refl hi2)
    · exact Holds.pure h
  · exact Holds.pure h

theorem indexDef_spec (hr : RecOK r k) (h : Post c0 c) (hcf : clsFree c0) (hn : Fits (k + 1) c0 n) :
    Holds (indexDef r n) c (fun _ c' => Post c0 c') := by
  refine (Holds.local_anchor (R := fun _ _ => True) h ?_).mono (fun _ _ hp => hp.1)
  replace hn := hn.ext h.ext
  replace h := Post.refl h.inv
  -- push the record scope, index the body, pop
  have hrest : ∀ (defId : Nat) {c2 : IndexCtx}, Post c c2 → defId < c2.symbolMap.sizes.recs →
      (c2.symbolMap.record defId).kind = .def_ →
      c2.fileTrace.head? = some (c2.symbolMap.record defId).defineLoc.file →
      Holds (do
        scopesPush (ScopeKind.record defId)
        match Ast.defRecordBody n with
          | some body => do
            indexRecordBody r body
            scopesPop
          | x => pure () : IxM Unit) c2 (fun _ c' => Post c c' ∧ True) := by
    intro defId c2 h2 hid2 hkind2 hfile2
    have hdo : DefOnly c2.symbolMap (.record defId) := by
      intro id hid; cases hid; exact ⟨hid2, hkind2⟩
    refine Holds.bind (scopesPush_spec h2 (kind := .record defId) hid2 hdo) ?_
    rintro _ c3 ⟨hc3, h3⟩
    have hctx : RecCtx c3 defId := RecCtx.of_push hc3 hid2 hfile2
    split
    · rename_i body hbody
      refine Holds.bind (indexRecordBody_specV hr (PostV.refl h3.inv) ((hn.ext h3.ext).sub' (Ast.child_sub hbody)) hctx) ?_
      intro _ c4 h4
      exact (scopesPop_spec h2 hdo hc3 h4.toPost).mono (fun _ _ hp => ⟨hp, trivial⟩)
    · exact Holds.pure ⟨h3, trivial⟩
  -- allocate the record (named: inside a multiclass or not; or anonymous); `kont` is what follows a named one
  have halloc : ∀ (g : Bool) (kont : Nat → IxM Unit),
      (∀ (defId : Nat) (name : String) (loc : FileRange) {c1 : IndexCtx}, PostV c c1 → c.fileTrace.head? = some loc.file →
        defId < c1.symbolMap.sizes.recs →
        c1.symbolMap.record defId = { name := name, kind := .def_, defineLoc := loc } →
        Holds (kont defId) c1 (fun _ c' => Post c c' ∧ True)) →
      ∀ (named : Option (String × FileRange)), (∀ name loc, named = some (name, loc) → NameIn c loc name) →
      Holds (match named with
        | some (name, defineLoc) => do
          let __do_lift ← currentMulticlassId
          if __do_lift.isSome = true then do
              let defId ← addMulticlassDef { name := name, kind := RecordKind.def_, defineLoc := defineLoc }
              kont defId
            else do
              let defId ← addRecord { name := name, kind := RecordKind.def_, defineLoc := defineLoc } g
              kont defId
        | none => do
          let name ← nextAnonymousDefName
          let file ← currentFileId
          let defId ← addAnonymousDef
            { name := name, kind := RecordKind.def_, defineLoc := { file := file, start := n.start, stop := n.stop } }
          scopesPush (ScopeKind.record defId)
          match Ast.defRecordBody n with
            | some body => do
              indexRecordBody r body
              scopesPop
            | x => pure () : IxM Unit) c (fun _ c' => Post c c' ∧ True) := by
    intro g kont hk named hx
    split
    · rename_i name loc
      have hloc := hx name loc rfl
      refine Holds.bind currentMulticlassId_spec ?_
      rintro mc c' ⟨hcc, _⟩
      subst hcc
      split
      · refine Holds.bind (addMulticlassDef_step h.inv ⟨rfl, rfl, rfl⟩ (hloc.nodeLoc h) (hloc.tokAt h)) ?_
        rintro defId c1 ⟨h1, hid, hreq⟩
        exact hk defId name loc h1 hloc.head hid hreq
      · refine Holds.bind (addRecord_step h.inv _ ⟨rfl, rfl, rfl⟩ (hloc.nodeLoc h) (hloc.tokAt h)) ?_
        rintro defId c1 ⟨h1, hid, hreq⟩
        exact hk defId name loc h1 hloc.head hid hreq
    · refine Holds.bind (nextAnonymousDefName_spec h) ?_
      intro name c1 h1
      refine Holds.bind (currentFileId_spec h1) ?_
      rintro file c' ⟨hcc, hf0, hf⟩
      subst hcc
      have hloc : LocIn c { file := file, start := n.start, stop := n.stop } := by
        obtain ⟨f', hf', hd⟩ := hn.cur
        rw [hf0] at hf'
        cases hf'
        exact ⟨hf0, n, hd, rfl, rfl⟩
      refine Holds.bind (addAnonymousDef_step h1.inv ⟨rfl, rfl, rfl⟩ (hloc.nodeLoc h1)) ?_
      rintro defId c2 ⟨h2, hid, hreq⟩
      refine hrest defId (h1.trans h2.toPost) hid (by rw [hreq]) ?_
      rw [hreq, h2.ext.trace]; exact hf
  unfold indexDef
  refine Holds.bind (defDefset_spec h) ?_
  rintro dsid c' ⟨hcc, hdsid⟩
  subst hcc
  cases dsid with
  | none =>
    dsimp only
    have hk : ∀ (defId : Nat) (name : String) (loc : FileRange) {c1 : IndexCtx}, PostV c c1 → c.fileTrace.head? = some loc.file →
        defId < c1.symbolMap.sizes.recs →
        c1.symbolMap.record defId = { name := name, kind := .def_, defineLoc := loc } →
        Holds (do
          scopesPush (ScopeKind.record defId)
          match Ast.defRecordBody n with
            | some body => do
              indexRecordBody r body
              scopesPop
            | x => pure () : IxM Unit) c1 (fun _ c' => Post c c' ∧ True) := by
      intro defId name loc c1 h1 hloc hid hreq
      refine hrest defId h1.toPost hid (by rw [hreq]) ?_
      rw [hreq, h1.ext.trace]; exact hloc
    split
    · rename_i nv hnv
      refine Holds.bind (indexNameValue_spec h (hn.sub' (Ast.child_sub hnv))) ?_
      rintro x c' ⟨hcc, hx⟩
      subst hcc
      exact halloc _ _ hk x hx
    · refine Holds.bind (R := fun x c' => c = c' ∧ x = none) (Holds.pure (And.intro rfl rfl)) ?_
      rintro x c' ⟨hcc, hx⟩
      subst hcc; subst hx
      exact halloc true _ hk none (by intro _ _ hh; cases hh)
  | some defsetId =>
    obtain ⟨hdv, hdf⟩ := hdsid defsetId rfl
    dsimp only
    refine (fun (hk : ∀ (defId : Nat) (name : String) (loc : FileRange) {c1 : IndexCtx}, PostV c c1 → c.fileTrace.head? = some loc.file →
        defId < c1.symbolMap.sizes.recs →
        c1.symbolMap.record defId = { name := name, kind := .def_, defineLoc := loc } →
        Holds (do
          let __r ← defsetMut defsetId fun ds =>
            { name := ds.name, typ := ds.typ, defList := ds.defList.push defId, defineLoc := ds.defineLoc }
          scopesPush (ScopeKind.record defId)
          match Ast.defRecordBody n with
            | some body => do
              indexRecordBody r body
              scopesPop
            | x => pure () : IxM Unit) c1 (fun _ c' => Post c c' ∧ True)) => ?_) ?_
    · split
      · rename_i nv hnv
        refine Holds.bind (indexNameValue_spec h (hn.sub' (Ast.child_sub hnv))) ?_
        rintro x c' ⟨hcc, hx⟩
        subst hcc
        exact halloc _ _ hk x hx
      · refine Holds.bind (R := fun x c' => c = c' ∧ x = none) (Holds.pure (And.intro rfl rfl)) ?_
        rintro x c' ⟨hcc, hx⟩
        subst hcc; subst hx
        exact halloc false _ hk none (by intro _ _ hh; cases hh)
    intro defId name loc c1 h1 hloc hid hreq
    have hhead1 : c1.fileTrace.head? = some loc.file := by rw [h1.ext.trace]; exact hloc
    refine Holds.bind (defsetMut_pushDef_step h1.inv defsetId hid ?_) ?_
    · intro _
      rw [hreq, h1.ext.sm.dsLoc defsetId hdv]
      have := hloc
      rw [hdf] at this
      exact (Option.some.inj this).symm
    · intro _ c2 h12
      have hid1 : defId < c1.symbolMap.recordList.size := hid
      refine hrest defId (h1.trans h12).toPost (Nat.lt_of_lt_of_le hid h12.ext.sizes.recs) ?_ ?_
      · rw [h12.ext.sm.recKind defId hid1, hreq]
      · rw [h12.ext.sm.recLoc defId hid1, hreq, h12.ext.trace]; exact hhead1

theorem indexDefm_spec (hr : RecOK r k) (h : Post c0 c) (hcf : clsFree c0) (hn : Fits (k + 1) c0 n) :
    Holds (indexDefm r n) c (fun _ c' => Post c0 c') := by
  have hrest : ∀ (defmId : Nat) {c2 : IndexCtx}, Post c0 c2 → defmId < c2.symbolMap.sizes.dms →
      Holds (do
        scopesPush (ScopeKind.defm defmId)
        match Ast.defmParentClassList n with
          | some parentClassList => do
            indexParentClassList r parentClassList
            scopesPop
          | x => pure () : IxM Unit) c2 (fun _ c' => Post c0 c') := by
    intro defmId c2 h2 hid2
    have hdo : DefOnly c2.symbolMap (.defm defmId) := by intro id hid; cases hid
    refine Holds.bind (scopesPush_spec h2 (kind := .defm defmId) hid2 hdo) ?_
    rintro _ c3 ⟨hc3, h3⟩
    have hk3 : HasKind isRecMcDefmKind c3 := hc3 ▸ HasKind.push_self rfl
    split
    · rename_i pcl hpcl
      refine Holds.bind (indexParentClassList_specV hr (PostV.refl h3.inv) ((hn.ext h3.ext).sub' (Ast.child_sub hpcl)) hk3) ?_
      intro _ c4 h4
      exact scopesPop_spec h2 hdo hc3 h4.toPost
    · exact Holds.pure h3
  unfold indexDefm
  refine Holds.bind (sameFileDefset_spec h) ?_
  rintro dsid c' ⟨hcc, hdsid⟩
  subst hcc
  dsimp only
  have hjp : ∀ (named : Option (String × FileRange)), (∀ name loc, named = some (name, loc) → NameIn c0 loc name) →
      Holds (match named with
        | some (name, defineLoc) => do
          let defmId ← addDefm { name := name, defineLoc := defineLoc } dsid.isNone
          scopesPush (ScopeKind.defm defmId)
          match Ast.defmParentClassList n with
            | some parentClassList => do
              indexParentClassList r parentClassList
              scopesPop
            | x => pure ()
        | none => do
          let name ← nextAnonymousDefName
          let file ← currentFileId
          let defmId ←
            addAnonymousDefm { name := name, defineLoc := { file := file, start := n.start, stop := n.stop } }
          scopesPush (ScopeKind.defm defmId)
          match Ast.defmParentClassList n with
            | some parentClassList => do
              indexParentClassList r parentClassList
              scopesPop
            | x => pure () : IxM Unit) c (fun _ c' => Post c0 c') := by
    intro named hx
    split
    · rename_i name loc
      have hloc := hx name loc rfl
      refine Holds.bind (Holds.post h (addDefm_step h.inv _ rfl (hloc.nodeLoc h) (hloc.tokAt h))) ?_
      rintro defId c1 ⟨h1, hid⟩
      exact hrest defId h1 hid
    · refine Holds.bind (nextAnonymousDefName_spec h) ?_
      intro name c1 h1
      refine Holds.bind (currentFileId_spec h1) ?_
      rintro file c' ⟨hcc, hf0, hf⟩
      subst hcc
      have hloc : LocIn c0 { file := file, start := n.start, stop := n.stop } := by
        obtain ⟨f', hf', hd⟩ := hn.cur
        rw [hf0] at hf'
        cases hf'
        exact ⟨hf0, n, hd, rfl, rfl⟩
      refine Holds.bind (Holds.post h1 (addAnonymousDefm_step h1.inv rfl (hloc.nodeLoc h1))) ?_
      rintro defId c2 ⟨h2, hid⟩
      exact hrest defId h2 hid
  split
  · rename_i nv hnv
    refine Holds.bind (indexNameValue_spec h (hn.sub' (Ast.child_sub hnv))) ?_
    rintro x c' ⟨hcc, hx⟩
    subst hcc
    exact hjp x hx
  · refine Holds.bind (R := fun x c' => c = c' ∧ x = none) (Holds.pure (And.intro rfl rfl)) ?_
    rintro x c' ⟨hcc, hx⟩
    subst hcc; subst hx
    exact hjp none (by intro _ _ hh; cases hh)

theorem indexDefset_spec (hr : RecOK r k) (h : Post c0 c) (hcf : clsFree c0) (hn : Fits (k + 1) c0 n) :
    Holds (indexDefset r n) c (fun _ c' => Post c0 c') := by
  unfold indexDefset
  split
  · rename_i nm hnm
    refine Holds.bind (utilsIdentifier_spec h (hn.sub (Ast.child_sub hnm)) (Ast.child_is_kind hnm)) ?_
    rintro x c' ⟨hcc, hx⟩
    subst hcc
    split
    · rename_i name loc
      have hloc := hx name loc rfl
      split
      · rename_i tn htn
        refine Holds.bind (hr.typ h (hn.sub (Ast.child_sub htn))) ?_
        intro t c1 h1
        split
        · rename_i typ
          refine Holds.bind (Holds.post h1 (addDefset_step h1.inv (a := { name := name, typ := typ, defineLoc := loc })
            rfl (hloc.nodeLoc h1) (hloc.tokAt h1))) ?_
          rintro dsId c2 ⟨h2, hid, _⟩
          have hdo : DefOnly c2.symbolMap (.defset dsId) := by intro id hid'; cases hid'
          refine Holds.bind (scopesPush_spec h2 (kind := .defset dsId) hid hdo) ?_
          rintro _ c3 ⟨hc3, h3⟩
          dsimp only
          have hjp : ∀ {c4 : IndexCtx}, Post c3 c4 → Holds (do scopesPop; registerDefsetName dsId : IxM Unit) c4
              (fun _ c' => Post c0 c') := by
            intro c4 h4
            refine Holds.bind (scopesPop_spec (Post.refl h2.inv) hdo hc3 h4) ?_
            intro _ c5 h25
            exact Holds.post' (h2.trans h25)
              (registerDefsetName_step h25.inv (Nat.lt_of_lt_of_le hid h25.ext.sizes.dss))
          split
          · rename_i sl hsl
            refine Holds.bind (hr.statementList (Post.refl h3.inv) (hcf.ext h3.ext)
              ((hn.sub (Ast.child_sub hsl)).ext h3.ext)) ?_
            intro _ c4 h4
            exact hjp h4
          · exact hjp (Post.refl h3.inv)
        · exact Holds.pure h1
      · exact Holds.pure h
    · exact Holds.pure h
  · exact Holds.pure h

theorem indexMultiClass_spec (hr : RecOK r k) (h : Post c0 c) (hcf : clsFree c0) (hn : Fits (k + 1) c0 n) :
    Holds (indexMultiClass r n) c (fun _ c' => Post c0 c') := by
  unfold indexMultiClass
  split
  · rename_i nm hnm
    refine Holds.bind (utilsIdentifier_spec h (hn.sub (Ast.child_sub hnm)) (Ast.child_is_kind hnm)) ?_
    rintro x c' ⟨hcc, hx⟩
    subst hcc
    split
    · rename_i name loc
      have hloc := hx name loc rfl
      refine Holds.bind (Holds.post h (addMulticlass_step h.inv (a := { name := name, defineLoc := loc }) rfl rfl
        (hloc.nodeLoc h) (hloc.tokAt h))) ?_
      rintro mcId c1 ⟨h1, hid, hmloc⟩
      have hdo : DefOnly c1.symbolMap (.multiclass mcId) := by intro id hid'; cases hid'
      refine Holds.bind (scopesPush_spec h1 (kind := .multiclass mcId) hid hdo) ?_
      rintro _ c2 ⟨hc2, h2⟩
      have hcf2 : clsFree c2 := hcf.ext h2.ext
      have hn2 := hn.ext h2.ext
      -- a template argument goes to a `def` scope left behind, or to this multiclass
      have hk2 : TaCtx c2 := by
        refine ⟨hc2 ▸ HasKind.push_self rfl, ?_, ?_⟩
        · intro rid hrid
          rw [currentRecordId_eq] at hrid
          obtain ⟨kd, hkd, hkr⟩ := List.exists_of_findSome?_eq_some hrid
          have hd := hcf2 kd hkd rid (by cases kd <;> simp_all [kindRecordId])
          exact ⟨hd.1, fun hcls => by rw [hd.2] at hcls; cases hcls⟩
        · intro _ m hm
          have hm' : m = mcId := by
            rw [currentMulticlassId_eq, hc2] at hm
            simp only [Scopes.kinds, Scopes.push, List.map_cons, List.findSome?_cons, kindMulticlassId,
              Option.some.injEq] at hm
            exact hm.symm
          subst hm'
          have hsm : c2.symbolMap = c1.symbolMap := by rw [hc2]
          have htr : c2.fileTrace = c1.fileTrace := by rw [hc2]
          refine ⟨by rw [hsm]; exact hid, ?_⟩
          rw [hsm, htr, hmloc, h1.ext.trace]
          exact hloc.1
      dsimp only
      have hjp3 : ∀ {c3 : IndexCtx}, Post c2 c3 → Holds (match Ast.multiClassStatementList n with
          | some statementList => do
            let __r ← r.statementList statementList
            scopesPop
          | x => scopesPop : IxM Unit) c3 (fun _ c' => Post c0 c') := by
        intro c3 h3
        split
        · rename_i sl hsl
          refine Holds.bind (hr.statementList h3 hcf2 (hn2.sub (Ast.child_sub hsl))) ?_
          intro _ c4 h4
          exact scopesPop_spec h1 hdo hc2 h4
        · exact scopesPop_spec h1 hdo hc2 h3
      have hjp2 : ∀ {c3 : IndexCtx}, PostV c2 c3 → Holds (match Ast.multiClassParentClassList n with
          | some parentClassList => do
            let __r ← indexParentClassList r parentClassList
            match Ast.multiClassStatementList n with
              | some statementList => do
                let __r ← r.statementList statementList
                scopesPop
              | x => scopesPop
          | x =>
            match Ast.multiClassStatementList n with
              | some statementList => do
                let __r ← r.statementList statementList
                scopesPop
              | x => scopesPop : IxM Unit) c3 (fun _ c' => Post c0 c') := by
        intro c3 h3
        split
        · rename_i pcl hpcl
          refine Holds.bind (indexParentClassList_specV hr h3 (hn2.sub' (Ast.child_sub hpcl))
            (hk2.has.weaken isRecOrMc_recMcDefm)) ?_
          intro _ c4 h4
          exact hjp3 h4.toPost
        · exact hjp3 h3.toPost
      split
      · rename_i tal htal
        refine Holds.bind (indexTemplateArgList_specV hr (PostV.refl h2.inv) (hn2.sub' (Ast.child_sub htal)) hk2) ?_
        intro _ c3 h3
        exact hjp2 h3
      · exact hjp2 (PostV.refl h2.inv)
    · exact Holds.pure h
  · exact Holds.pure h

theorem lookup_mem {α β : Type} [BEq α] {k : α} {v : β} : ∀ {l : List (α × β)}, l.lookup k = some v →
    ∃ k', (k', v) ∈ l
  | [], h => by simp at h
  | (k', v') :: l, h => by
    simp only [List.lookup_cons] at h
    split at h
    · cases h; exact ⟨k', by simp⟩
    · obtain ⟨k'', hk⟩ := lookup_mem h
      exact ⟨k'', by simp [hk]⟩

theorem pending_markIndexed {c : IndexCtx} {u : Nat} (hu : u < c.ws.files.size) (hni : u ∉ c.indexedFiles) :
    pending c = pending { c with indexedFiles := u :: c.indexedFiles } + ((c.ws.tree u).height + 2) := by
  unfold pending
  exact pendingOf_cons_mem c.ws c.indexedFiles u _ (by simpa using hu) List.nodup_range hni

theorem indexInclude_spec (hr : RecOK r k) (h : Post c0 c) (hcf : clsFree c0) (hn : Fits (k + 1) c0 n) :
    Holds (indexInclude r n) c (fun _ c' => Post c0 c') := by
  unfold indexInclude
  refine Holds.bind (currentFileId_spec h) ?_
  rintro fileId c' ⟨hcc, hf0, hf⟩
  subst hcc
  refine Holds.bind (Holds.get (Q := fun a c' => c = a ∧ c = c') ⟨rfl, rfl⟩) ?_
  rintro a c' ⟨hca, hcc⟩
  subst hca
  subst hcc
  dsimp only
  split
  · exact error_spec h hn.rangeIn _
  · rename_i u hlook
    -- the target of a resolved include is a file of the workspace
    have hfile : fileId < c.ws.files.size := h.inv.trace _ (List.mem_of_head? hf)
    have hu : u < c.ws.files.size := by
      have hfl : c.ws.file? fileId = some c.ws.files[fileId] := by
        simp [Workspace.file?, Array.getElem?_eq_getElem hfile]
      rw [hfl] at hlook
      obtain ⟨k', hk'⟩ := lookup_mem hlook
      exact h.inv.ws.incl fileId hfile _ hk'
    unfold markIndexed
    by_cases hidx : c.indexedFiles.contains u = true
    · have hmem : u ∈ c.indexedFiles := by simpa using hidx
      refine Holds.bind (Holds.modifyGet' (Q := fun b c' => b = false ∧ c' = c) (by simp [hmem])) ?_
      rintro b c' ⟨hb, hcc⟩
      subst hb
      subst hcc
      exact Holds.pure h
    · have hni : u ∉ c.indexedFiles := by simpa using hidx
      refine Holds.bind (Holds.modifyGet' (Q := fun b c' => b = true ∧
        c' = { c with indexedFiles := u :: c.indexedFiles }) (by simp [hni])) ?_
      rintro _ c1 ⟨rfl, hc1⟩
      have h1 : Post c0 c1 := by
        subst hc1
        exact ⟨⟨h.inv.ws, h.inv.traceNe, h.inv.trace, h.inv.scopesNe, h.inv.scopesNd, h.inv.scopes, h.inv.ids, h.inv.locs,
          h.inv.files, h.inv.diags, h.inv.names, h.inv.scopesNm⟩,
          h.ext.of_same_scopes rfl rfl rfl (fun f hf => List.mem_cons_of_mem _ hf) (SymMap.Grow.refl _)⟩
      have hpend : pending c = pending c1 + ((c.ws.tree u).height + 2) := by
        subst hc1; exact pending_markIndexed hu hni
      simp only [Bool.not_true, Bool.false_eq_true, if_false]
      split
      · rename_i sf hsf
        have hsf' : sf = c.ws.tree u ∧ sf.isNode = true := by
          unfold Ast.sourceFileCast at hsf
          split at hsf
          · rename_i hc
            cases hsf
            simp only [Bool.and_eq_true] at hc
            exact ⟨rfl, hc.1⟩
          · cases hsf
        unfold pushFile
        refine Holds.bind (Holds.modify (Q := fun _ c' => c' = { c1 with fileTrace := u :: c1.fileTrace }) rfl) ?_
        rintro _ c2 hc2
        have hc1ws : c1.ws = c.ws := by rw [hc1]
        have hc1tr : c1.fileTrace = c.fileTrace := by rw [hc1]
        have hi2 : Inv c2 := by
          subst hc2
          refine ⟨h1.inv.ws, by simp, ?_, h1.inv.scopesNe, h1.inv.scopesNd, h1.inv.scopes, h1.inv.ids, h1.inv.locs,
            h1.inv.files, h1.inv.diags, h1.inv.names, h1.inv.scopesNm⟩
          intro f hf
          simp only [List.mem_cons] at hf
          rcases hf with rfl | hf
          · rw [hc1ws]; exact hu
          · exact h1.inv.trace f hf
        have hfits : Fits k c2 sf := by
          have hc2ws : c2.ws = c.ws := by rw [hc2, hc1ws]
          refine ⟨hsf'.2, ⟨u, by rw [hc2]; rfl, by rw [hc2ws, hsf'.1]; exact Desc.refl _⟩, ?_, ?_⟩
          · rw [hsf'.1]
            obtain ⟨txt, ht, _⟩ := h.inv.ws.tree_spans u
            exact ⟨txt, ht⟩
          · have hp2 : pending c2 = pending c1 := by rw [hc2]; rfl
            have := hn.fuel
            have := hn.height_pos
            have := pending_mono h.ext
            rw [hp2, hsf'.1]
            omega
        have hcf2 : clsFree c2 := by
          have := hcf.ext h.ext
          rw [hc2, hc1]
          exact this
        refine Holds.bind (hr.sourceFile (Post.refl hi2) hcf2 hfits) ?_
        intro _ c3 h3
        have htr3 : c3.fileTrace = u :: c.fileTrace := by rw [h3.ext.trace, hc2, hc1tr]
        refine ⟨(), { c3 with fileTrace := c.fileTrace }, ?_, ?_⟩
        · show (do let s ← get; match s.fileTrace with
              | _ :: rest => modify fun c => { c with fileTrace := rest }
              | [] => panic "file_trace is empty" : IxM Unit) c3 = _
          simp only [bind, StateT.bind, get, getThe, MonadStateOf.get, StateT.get, pure, Except.pure, Except.bind, htr3]
          rfl
        · have hc2ws : c2.ws = c.ws := by rw [hc2, hc1ws]
          have hc2sc : c2.scopes = c.scopes := by rw [hc2, hc1]
          have hc2sm : c2.symbolMap = c.symbolMap := by rw [hc2, hc1]
          have hc2ix : c2.indexedFiles = u :: c.indexedFiles := by rw [hc2, hc1]
          refine h.trans ⟨⟨h3.inv.ws, h.inv.traceNe, ?_, h3.inv.scopesNe, h3.inv.scopesNd, h3.inv.scopes, h3.inv.ids,
            h3.inv.locs, h3.inv.files, h3.inv.diags, h3.inv.names, h3.inv.scopesNm⟩, ⟨?_, rfl, ?_, ?_, ?_⟩⟩
          · intro f hf
            exact h3.inv.trace f (by rw [htr3]; exact List.mem_cons_of_mem _ hf)
          · exact h3.ext.ws.trans hc2ws
          · obtain ⟨e, he, hd⟩ := h3.ext.kindsX
            exact ⟨e, by rw [show c2.scopes.kinds = c.scopes.kinds by rw [hc2sc]] at he; exact he, hd⟩
          · intro f hf
            exact h3.ext.indexed f (by rw [hc2ix]; exact List.mem_cons_of_mem _ hf)
          · have := h3.ext.sm; rwa [hc2sm] at this
      · exact Holds.pure h1

theorem indexStatement_spec (hr : RecOK r k) (h : Post c0 c) (hcf : clsFree c0) (hn : Fits (k + 1) c0 n) :
    Holds (indexStatement r n) c (fun _ c' => Post c0 c') := by
  unfold indexStatement
  split
  · exact indexInclude_spec hr h hcf hn
  · exact indexAssert_spec hr h hn
  · exact indexClass_spec hr h hcf hn
  · exact indexDef_spec hr h hcf hn
  · exact indexDefm_spec hr h hcf hn
  · exact indexDefset_spec hr h hcf hn
  · exact indexDefvar_spec hr h hn
  · exact indexDump_spec hr h hn
  · exact indexForeach_spec hr h hcf hn
  · exact indexIf_spec hr h hcf hn
  · exact indexLet_spec hr h hcf hn
  · exact indexMultiClass_spec hr h hcf hn
  · exact Holds.pure h

theorem indexStatementList_spec (hr : RecOK r k) (h : Post c0 c) (hcf : clsFree c0) (hn : Fits (k + 1) c0 n) :
    Holds (indexStatementList r n) c (fun _ c' => Post c0 c') := by
  unfold indexStatementList
  refine Holds.bind (Holds.forIn_mem (fun _ c' => Post c0 c') h ?_) (fun _ c' h' => Holds.pure h')
  intro item hitem b c1 h1
  refine Holds.bind (indexStatement_spec hr h1 hcf (hn.sub' (Ast.children_sub hitem))) ?_
  intro _ c2 h2
  exact Holds.pure h2


/-! ### types and values -/

theorem indexType_specV (hr : RecOK r k) (h : PostV c0 c) (hn : Fits (k + 1) c0 n) :
    Holds (indexType r n) c (fun _ c' => PostV c0 c') := by
  unfold indexType
  split
  · exact Holds.pure h
  · exact Holds.pure h
  · exact Holds.pure h
  · exact Holds.pure h
  · exact Holds.pure h
  · split
    · split
      · split <;> exact Holds.pure h
      · exact Holds.pure h
    · exact Holds.pure h
  · split
    · rename_i inner hinner
      refine Holds.bind (hr.typV h (hn.sub (Ast.child_sub hinner))) ?_
      intro t c1 h1
      split <;> exact Holds.pure h1
    · exact Holds.pure h
  · split
    · rename_i nm hnm
      refine Holds.bind (utilsIdentifier_spec h.toPost (hn.sub (Ast.child_sub hnm)) (Ast.child_is_kind hnm)) ?_
      rintro x c' ⟨hcc, hx⟩
      subst hcc
      split
      · rename_i name loc
        have hloc := hx name loc rfl
        refine Holds.bind (withSM_spec _) ?_
        rintro fc c' ⟨hcc, hfc⟩
        subst hcc
        split
        · rename_i classId
          have hcid : classId < c.symbolMap.sizes.recs := h.inv.ids.cls name classId hfc.symm
          refine Holds.bind (addReference_specV h (s := .record classId) hcid hloc (h.inv.names.cls name classId hfc.symm).1
          (h.inv.names.cls name classId hfc.symm).2) ?_
          intro _ c2 h2
          exact Holds.pure h2
        · refine Holds.bind (error_specV h hloc.locIn.range _) ?_
          intro _ c2 h2
          exact Holds.pure h2
      · exact Holds.pure h
    · exact Holds.pure h
  · exact Holds.pure h

theorem indexIdentifierValue_specV (h : PostV c0 c) (hn : Fits (k + 1) c0 n) (hk : n.kind = .Identifier) :
    Holds (indexIdentifierValue n) c (fun _ c' => PostV c0 c') := by
  unfold indexIdentifierValue
  refine Holds.bind (utilsIdentifier_spec h.toPost hn hk) ?_
  rintro x c' ⟨hcc, hx⟩
  subst hcc
  split
  · rename_i name loc
    have hloc := hx name loc rfl
    refine Holds.bind (resolveId_spec h.toPost name) ?_
    rintro y c' ⟨hcc, hy⟩
    subst hcc
    split
    · rename_i symbolId
      refine Holds.bind (addReference_specV h (hy symbolId rfl).1 hloc (hy symbolId rfl).2.1 (hy symbolId rfl).2.2) ?_
      intro _ c2 h2
      split
      · refine Holds.bind (withSM_spec _) ?_
        rintro kd c' ⟨hcc, _⟩
        subst hcc
        split
        · refine Holds.bind (withSM_spec _) ?_
          rintro fd c' ⟨hcc, _⟩
          subst hcc
          split <;> exact Holds.pure h2
        · exact Holds.pure h2
      all_goals first
        | exact Holds.pure h2
        | (refine Holds.bind (withSM_spec _) ?_
           rintro t c' ⟨hcc, _⟩
           subst hcc
           exact Holds.pure h2)
    · split
      · exact Holds.pure h
      · refine Holds.bind (error_specV h hloc.locIn.range _) ?_
        intro _ c2 h2
        exact Holds.pure h2
  · exact Holds.pure h

theorem indexClassValue_specV (hr : RecOK r k) (h : PostV c0 c) (hn : Fits (k + 1) c0 n) :
    Holds (indexClassValue r n) c (fun _ c' => PostV c0 c') := by
  unfold indexClassValue
  split
  · rename_i nm hnm
    refine Holds.bind (utilsIdentifier_spec h.toPost (hn.sub (Ast.child_sub hnm)) (Ast.child_is_kind hnm)) ?_
    rintro x c' ⟨hcc, hx⟩
    subst hcc
    split
    · rename_i name loc
      have hloc := hx name loc rfl
      refine Holds.bind (withSM_spec _) ?_
      rintro fc c' ⟨hcc, hfc⟩
      subst hcc
      split
      · rename_i classId
        have hcid : classId < c.symbolMap.sizes.recs := h.inv.ids.cls name classId hfc.symm
        refine Holds.bind (addReference_specV h (s := .record classId) hcid hloc (h.inv.names.cls name classId hfc.symm).1
          (h.inv.names.cls name classId hfc.symm).2) ?_
        intro _ c2 h2
        refine Holds.bind (withSM_spec _) ?_
        rintro nta c' ⟨hcc, _⟩
        subst hcc
        refine Holds.bind (templateArgsOf_spec _) ?_
        rintro tas c' hcc
        subst hcc
        dsimp only
        split
        · rename_i l hl
          exact (argsSome_specV hr h2 hn tas (Ast.child_sub hl) _).mono (fun _ _ hp => hp.1)
        · exact (argsNone_specV h2 hn tas _).mono (fun _ _ hp => hp.1)
      · refine Holds.bind (error_specV h hloc.locIn.range _) ?_
        intro _ c2 h2
        exact Holds.pure h2
    · exact Holds.pure h
  · exact Holds.pure h

theorem valueLoop_specV (hr : RecOK r k) (h : PostV c0 c) {values : List PTree} (hv : ∀ v ∈ values, Fits k c0 v) :
    Holds (forIn values PUnit.unit fun value __s => do
        let _ ← r.value value
        pure (ForInStep.yield PUnit.unit)) c (fun _ c' => PostV c0 c') := by
  refine Holds.forIn_mem (fun _ c' => PostV c0 c') h ?_
  intro v hvm b c1 h1
  refine Holds.bind (hr.valueV h1 (hv v hvm)) ?_
  intro _ c2 h2
  exact Holds.pure h2

theorem indexSimpleValue_specV (hr : RecOK r k) (h : PostV c0 c) (hn : Fits (k + 1) c0 n) :
    Holds (indexSimpleValue r n) c (fun _ c' => PostV c0 c') := by
  unfold indexSimpleValue
  split
  · exact Holds.pure h
  · exact Holds.pure h
  · exact Holds.pure h
  · exact Holds.pure h
  · exact Holds.pure h
  · -- Bits
    split
    · rename_i vl hvl
      refine Holds.bind (Holds.forIn_mem (fun _ c' => PostV c0 c') h ?_) (fun _ c' h' => Holds.pure h')
      intro v hv b c1 h1
      refine Holds.bind (hr.valueV h1 ((hn.sub' (Ast.child_sub hvl)).sub (Ast.children_sub hv))) ?_
      intro t c2 h2
      split <;> exact Holds.pure h2
    · exact Holds.pure h
  · -- List
    split
    · rename_i vl hvl
      dsimp only
      have hrg : RangeIn c0 (nodeRange n) := hn.rangeIn
      refine Holds.bind (Holds.forIn_mem (fun _ c' => PostV c0 c') h ?_) ?_
      · intro v hv b c1 h1
        refine Holds.bind (hr.valueV h1 ((hn.sub' (Ast.child_sub hvl)).sub (Ast.children_sub hv))) ?_
        intro t c2 h2
        split <;> exact Holds.pure h2
      · intro vts c1 h1
        split
        · rename_i tn htn
          refine Holds.bind (hr.typV h1 (hn.sub (Ast.child_sub htn))) ?_
          intro t c2 h2
          split
          · refine Holds.bind (Holds.forIn_mem (fun _ c' => PostV c0 c') h2 ?_) (fun _ c' h' => Holds.pure h')
            intro typ _ cur c3 h3
            bang_leaf
            all_goals (try simp only [pure_bind])
            all_goals bang_leaf
          · exact Holds.pure h2
        · refine Holds.bind (Holds.forIn_mem (fun _ c' => PostV c0 c') h1 ?_) (fun _ c' h' => Holds.pure h')
          intro typ _ cur c3 h3
          bang_leaf
          all_goals (try simp only [pure_bind])
          all_goals bang_leaf
    · exact Holds.pure h
  · -- Dag
    dsimp only
    have hjp : ∀ {c1 : IndexCtx}, PostV c0 c1 → Holds (match Ast.dagArgList n with
        | some argList => do
          forIn (List.filterMap Ast.dagArgValue (Ast.dagArgListArgs argList)) PUnit.unit fun value __s => do
              let _ ← r.value value
              pure (ForInStep.yield PUnit.unit)
          pure (some Ty.dag)
        | x => pure (some Ty.dag) : IxM (Option Ty)) c1 (fun _ c' => PostV c0 c') := by
      intro c1 h1
      split
      · rename_i al hal
        refine Holds.bind (valueLoop_specV hr h1 ?_) (fun _ c2 h2 => Holds.pure h2)
        intro v hv
        simp only [List.mem_filterMap] at hv
        obtain ⟨a, ha, hav⟩ := hv
        exact ((hn.sub' (Ast.child_sub hal)).sub' (Ast.children_sub ha)).sub (Ast.child_sub hav)
      · exact Holds.pure h1
    split
    · rename_i v hv
      simp only [Option.bind_eq_some_iff] at hv
      obtain ⟨d, hd, hdv⟩ := hv
      refine Holds.bind (hr.valueV h ((hn.sub' (Ast.child_sub hd)).sub (Ast.child_sub hdv))) ?_
      intro _ c1 h1
      exact hjp h1
    · exact hjp h
  · rename_i hk
    exact indexIdentifierValue_specV h hn hk
  · exact indexClassValue_specV hr h hn
  · -- BangOperator
    rename_i hkind
    refine Bang.indexBangOperator_spec hr h hn ?_
    obtain ⟨f, hf, hd⟩ := hn.cur
    have hfm : f ∈ c.fileTrace := by rw [h.ext.trace]; exact List.mem_of_head? hf
    have hfs : f < c.ws.files.size := h.inv.trace f hfm
    have hb := h.inv.ws.bang f hfs
    rw [← c.ws.tree_of_lt hfs, h.ext.ws] at hb
    exact hb n hd hn.isNode hkind
  · -- CondOperator
    refine Holds.bind (Holds.forIn_mem (fun _ c' => PostV c0 c') h ?_) (fun _ c' h' => Holds.pure h')
    intro cl hcl b c1 h1
    dsimp only
    have hjp : ∀ {c2 : IndexCtx}, PostV c0 c2 → Holds (match Ast.condClauseValue cl with
        | some value => do
          let valueTyp ← r.value value
          if b.isNone = true then pure (ForInStep.yield valueTyp) else pure (ForInStep.yield b)
        | x => pure (ForInStep.yield b) : IxM (ForInStep (Option Ty))) c2 (fun s c' => PostV c0 c') := by
      intro c2 h2
      split
      · rename_i v hv
        refine Holds.bind (hr.valueV h2 ((hn.sub' (Ast.children_sub hcl)).sub (Ast.nthChild_sub hv))) ?_
        intro _ c3 h3
        split <;> exact Holds.pure h3
      · exact Holds.pure h2
    split
    · rename_i cd hcd
      refine Holds.bind (hr.valueV h1 ((hn.sub' (Ast.children_sub hcl)).sub (Ast.nthChild_sub hcd))) ?_
      intro _ c2 h2
      exact hjp h2
    · exact hjp h1
  · exact Holds.pure h


theorem indexInnerValue_specV (hr : RecOK r k) (h : PostV c0 c) (hn : Fits (k + 1) c0 n) :
    Holds (indexInnerValue r n) c (fun _ c' => PostV c0 c') := by
  unfold indexInnerValue
  split
  · rename_i sv hsv
    refine Holds.bind (indexSimpleValue_specV hr h (hn.sub' (Ast.child_sub hsv))) ?_
    intro t c1 h1
    split
    · dsimp only
      refine Holds.bind (Holds.forIn_mem (fun _ c' => PostV c0 c') h1 ?_) ?_
      · intro sfx hsfx b c2 h2
        have hs := hn.sub' (Ast.children_sub hsfx)
        split
        · split <;> exact Holds.pure h2
        · split
          · split <;> exact Holds.pure h2
          · exact Holds.pure h2
        · split
          · rename_i nm hnm
            refine Holds.bind (utilsIdentifier_spec h2.toPost (hs.sub (Ast.child_sub hnm)) (Ast.child_is_kind hnm)) ?_
            rintro x c' ⟨hcc, hx⟩
            subst hcc
            split
            · rename_i name loc
              have hloc := hx name loc rfl
              refine Holds.bind (withSM_spec _) ?_
              rintro ff c' ⟨hcc, hff⟩
              subst hcc
              split
              · rename_i fieldId
                have hfld : fieldId < c2.symbolMap.sizes.flds := c2.symbolMap.typFindField_lt h2.inv.ids hff.symm
                refine Holds.bind (addReference_specV h2 (s := .recordField fieldId) hfld hloc
                  (c2.symbolMap.typFindField_nm h2.inv.names hff.symm) (h2.inv.names.flds fieldId hfld)) ?_
                intro _ c3 h3
                refine Holds.bind (withSM_spec _) ?_
                rintro ft c' ⟨hcc, _⟩
                subst hcc
                exact Holds.pure h3
              · refine Holds.bind (error_specV h2 hs.rangeIn _) ?_
                intro _ c3 h3
                exact Holds.pure h3
            · exact Holds.pure h2
          · exact Holds.pure h2
      · intro st c2 h2
        split <;> exact Holds.pure h2
    · exact Holds.pure h1
  · exact Holds.pure h

theorem indexValue_specV (hr : RecOK r k) (h : PostV c0 c) (hn : Fits (k + 1) c0 n) :
    Holds (indexValue r n) c (fun _ c' => PostV c0 c') := by
  unfold indexValue
  dsimp only
  split
  · rename_i fv hfv
    refine Holds.bind (indexInnerValue_specV hr h (hn.sub' (Ast.head?_children_sub hfv))) ?_
    intro t c1 h1
    refine Holds.bind (Holds.forIn_mem (fun _ c' => PostV c0 c') h1 ?_) ?_
    · intro iv hiv b c2 h2
      refine Holds.bind (indexInnerValue_specV hr h2 (hn.sub' (Ast.children_sub (List.mem_of_mem_tail hiv)))) ?_
      intro _ c3 h3
      exact Holds.pure h3
    · intro _ c2 h2
      split
      · exact Holds.pure h2
      · exact Holds.pure h2
      · split <;> exact Holds.pure h2
  · exact Holds.pure h

/-! ### the knot -/

/-- with `fuel` units, `mkRec fuel` handles every node whose height plus the budget of the files
not yet entered is at most `fuel` -/
theorem mkRec_ok : ∀ fuel : Nat, RecOK (mkRec fuel) fuel
  | 0 => by
    have habs : ∀ {c0 : IndexCtx} {n : PTree}, Fits 0 c0 n → False := by
      intro c0 n hn
      have := hn.height_pos
      have := hn.fuel
      omega
    exact ⟨fun _ _ hn => (habs hn).elim, fun _ _ hn => (habs hn).elim, fun _ hn => (habs hn).elim,
      fun _ hn => (habs hn).elim⟩
  | fuel + 1 => by
    have ih := mkRec_ok fuel
    exact ⟨fun h hcf hn => indexSourceFile_spec ih h hcf hn, fun h hcf hn => indexStatementList_spec ih h hcf hn,
      fun h hn => indexValue_specV ih h hn, fun h hn => indexType_specV ih h hn⟩

end Index
end Ide
end Tg
