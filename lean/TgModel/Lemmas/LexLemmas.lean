/- Helper lemmas about the lexer model: every call consumes a non-empty prefix of a non-empty
input, only the empty input yields `Eof`, and an `Error` token always parks a message. -/
import TgModel.Lex

namespace Tg
namespace Lex

theorem numPrefix_append (c : Char) (r : List Char) :
    (numPrefix c r).2.1 ++ (numPrefix c r).2.2 = r := by
  unfold numPrefix
  split
  · split <;> simp
  · simp

/-- what every arm guarantees about its output -/
structure Good (c : Char) (r : List Char) (o : Out) : Prop where
  consumes : ∃ t, o.text = c :: t ∧ t ++ o.rest = r
  notEof : o.kind ≠ .Eof
  errMsg : o.kind = .Error → o.err.isSome = true
  notTriviaPP : o.kind ≠ .PreProcessor

theorem lookup_mem {tab : List (List Char × TokenKind)} {w k} (h : lookup tab w = some k) :
    ∃ p ∈ tab, p.2 = k := by
  induction tab with
  | nil => simp [lookup] at h
  | cons p t ih =>
    obtain ⟨a, b⟩ := p
    simp only [lookup] at h
    split at h
    · simp at h; exact ⟨(a, b), by simp, h⟩
    · obtain ⟨q, hq, hk⟩ := ih h; exact ⟨q, by simp [hq], hk⟩

def tableOk (tab : List (List Char × TokenKind)) : Bool :=
  tab.all fun p => p.2 != .Eof && p.2 != .Error && p.2 != .PreProcessor

theorem keywords_ok : tableOk Tables.keywords = true := by decide
theorem bangTable_ok : tableOk Tables.bangTable = true := by decide
theorem prepTable_ok : tableOk Tables.prepTable = true := by decide

theorem lookup_ok {tab w k} (hok : tableOk tab = true) (h : lookup tab w = some k) :
    k ≠ .Eof ∧ k ≠ .Error ∧ k ≠ .PreProcessor := by
  obtain ⟨p, hp, rfl⟩ := lookup_mem h
  have := List.all_eq_true.mp hok p hp
  simpa [and_assoc] using this

theorem punctLookup_mem {tab : List (Char × TokenKind)} {c k} (h : punctLookup tab c = some k) :
    ∃ p ∈ tab, p.2 = k := by
  induction tab with
  | nil => simp [punctLookup] at h
  | cons p t ih =>
    obtain ⟨a, b⟩ := p
    simp only [punctLookup] at h
    split at h
    · simp at h; exact ⟨(a, b), by simp, h⟩
    · obtain ⟨q, hq, hk⟩ := ih h; exact ⟨q, by simp [hq], hk⟩

theorem punctTable_ok :
    (punctTable.all fun p => p.2 != .Eof && p.2 != .Error && p.2 != .PreProcessor) = true := by decide

theorem punct_ok {c k} (h : punct c = some k) : k ≠ .Eof ∧ k ≠ .Error ∧ k ≠ .PreProcessor := by
  obtain ⟨p, hp, rfl⟩ := punctLookup_mem h
  have := List.all_eq_true.mp punctTable_ok p hp
  simpa [and_assoc] using this

theorem good_lexNumber (c : Char) (r : List Char) : Good c r (lexNumber c r) := by
  unfold lexNumber
  split
  · rename_i k hk
    refine ⟨⟨[], rfl, rfl⟩, ?_, ?_, ?_⟩ <;>
    · unfold signOnly at hk
      split at hk
      · split at hk
        · split at hk
          · simp at hk; subst hk; simp
          · split at hk <;> simp at hk; subst hk; simp
        · simp at hk
      · split at hk
        · simp at hk; subst hk; simp
        · split at hk <;> simp at hk; subst hk; simp
  · have h := numPrefix_append c r
    simp only []
    split
    · refine ⟨⟨_, rfl, ?_⟩, ?_, ?_, ?_⟩
      · simp only [List.append_assoc, List.takeWhile_append_dropWhile]; exact h
      all_goals (simp only []; split <;> simp)
    · refine ⟨⟨_, rfl, ?_⟩, by simp, by simp, by simp⟩
      simp only [List.append_assoc, List.takeWhile_append_dropWhile]; exact h

theorem good_arms : ∀ a ∈ arms, ∀ c r o, a c r = some o → Good c r o := by
  intro a ha c r o h
  simp only [arms, List.mem_cons, List.not_mem_nil, or_false] at ha
  rcases ha with rfl | rfl | rfl | rfl | rfl | rfl | rfl | rfl | rfl | rfl | rfl | rfl | rfl
  · -- whitespace
    unfold armWhitespace at h
    split at h
    · simp at h; subst h
      exact ⟨⟨_, rfl, List.takeWhile_append_dropWhile⟩, by simp, by simp, by simp⟩
    · simp at h
  · unfold armLineComment at h
    split at h
    · simp at h; subst h
      exact ⟨⟨_, rfl, by simp [List.takeWhile_append_dropWhile]⟩, by simp, by simp, by simp⟩
    · simp at h
  · unfold armBlockComment at h
    split at h
    · simp at h; subst h
      refine ⟨⟨_, rfl, ?_⟩, by simp, by simp, by simp⟩
      simp [scanBlock_append]
    · simp at h
  · unfold armDigit at h
    split at h
    · split at h
      · simp at h; subst h
        exact ⟨⟨_, rfl, List.takeWhile_append_dropWhile⟩, by simp, by simp, by simp⟩
      · simp at h; subst h; exact good_lexNumber c r
    · simp at h
  · unfold armSign at h
    split at h
    · simp at h; subst h; exact good_lexNumber c r
    · simp at h
  · unfold armIdent at h
    split at h
    · simp at h; subst h
      refine ⟨⟨_, rfl, List.takeWhile_append_dropWhile⟩, ?_, ?_, ?_⟩ <;>
      · simp only []
        cases hl : lookup Tables.keywords (c :: List.takeWhile isIdentCont r) with
        | none => simp
        | some k => have := lookup_ok keywords_ok hl; simp [this]
    · simp at h
  · unfold armString at h
    split at h
    · simp at h; subst h
      have := scanString_append r
      split <;> exact ⟨⟨_, rfl, this⟩, by simp, by simp, by simp⟩
    · simp at h
  · unfold armVarName at h
    split at h
    · simp at h; subst h
      split
      · split
        · exact ⟨⟨_, rfl, by simp [List.takeWhile_append_dropWhile]⟩, by simp, by simp, by simp⟩
        · exact ⟨⟨_, rfl, rfl⟩, by simp, by simp, by simp⟩
      · exact ⟨⟨_, rfl, rfl⟩, by simp, by simp, by simp⟩
    · simp at h
  · unfold armCode at h
    split at h
    · simp at h; subst h
      split <;>
      · refine ⟨⟨_, rfl, ?_⟩, by simp, by simp, by simp⟩
        simp [List.append_assoc, eatIf2_append, splitAt2_append]
    · simp at h
  · unfold armBang at h
    split at h
    · simp at h; subst h
      split
      · rename_i k hk
        have := lookup_ok bangTable_ok hk
        exact ⟨⟨_, rfl, List.takeWhile_append_dropWhile⟩, this.1, by simp [this.2.1], this.2.2⟩
      · exact ⟨⟨_, rfl, List.takeWhile_append_dropWhile⟩, by simp, by simp, by simp⟩
    · simp at h
  · unfold armHash at h
    split at h
    · simp at h; subst h
      split
      · rename_i k hk
        have := lookup_ok prepTable_ok hk
        exact ⟨⟨_, rfl, List.takeWhile_append_dropWhile⟩, this.1, by simp [this.2.1], this.2.2⟩
      · exact ⟨⟨_, rfl, rfl⟩, by simp, by simp, by simp⟩
    · simp at h
  · unfold armPunct at h
    split at h
    · rename_i k hk
      simp at h; subst h
      have := punct_ok hk
      exact ⟨⟨_, rfl, rfl⟩, this.1, by simp [this.2.1], this.2.2⟩
    · simp at h
  · unfold armDot at h
    split at h
    · simp at h; subst h
      rename_i hc; simp at hc; subst hc
      split
      · exact ⟨⟨_, rfl, rfl⟩, by simp, by simp, by simp⟩
      · exact ⟨⟨_, rfl, rfl⟩, by simp, by simp, by simp⟩
      · exact ⟨⟨_, rfl, rfl⟩, by simp, by simp, by simp⟩
    · simp at h

theorem good_firstArm (as : List (Char → List Char → Option Out)) (hs : ∀ a ∈ as, a ∈ arms)
    (c : Char) (r : List Char) (o : Out) (h : firstArm as c r = some o) : Good c r o := by
  induction as with
  | nil => simp [firstArm] at h
  | cons a rest ih =>
    simp only [firstArm] at h
    split at h
    · rename_i o' ho
      simp at h; subst h
      exact good_arms a (hs a (by simp)) c r _ ho
    · exact ih (fun a ha => hs a (by simp [ha])) h

theorem good_next (c : Char) (r : List Char) : Good c r (next (c :: r)) := by
  simp only [next]
  split
  · rename_i o ho; exact good_firstArm arms (fun _ h => h) c r o ho
  · exact ⟨⟨[], rfl, rfl⟩, by simp, by simp, by simp⟩

theorem next_append (s : List Char) : (next s).text ++ (next s).rest = s := by
  cases s with
  | nil => rfl
  | cons c r =>
    obtain ⟨t, h1, h2⟩ := (good_next c r).consumes
    rw [h1]; simp [h2]

theorem next_eof_iff (s : List Char) : (next s).kind = .Eof ↔ s = [] := by
  cases s with
  | nil => simp [next]
  | cons c r => simp [(good_next c r).notEof]

theorem next_nil : next [] = { kind := .Eof, text := [], rest := [] } := rfl

theorem next_text_ne_nil (s : List Char) (h : s ≠ []) : (next s).text ≠ [] := by
  cases s with
  | nil => exact absurd rfl h
  | cons c r => obtain ⟨t, h1, _⟩ := (good_next c r).consumes; simp [h1]

theorem next_rest_length_lt (s : List Char) (h : s ≠ []) : (next s).rest.length < s.length := by
  have h1 := next_append s
  have h2 := next_text_ne_nil s h
  have : (next s).text.length + (next s).rest.length = s.length := by
    rw [← List.length_append, h1]
  have : 0 < (next s).text.length := List.length_pos_iff.mpr h2
  omega

theorem next_rest_length_le (s : List Char) : (next s).rest.length ≤ s.length := by
  have h1 := next_append s
  have : (next s).text.length + (next s).rest.length = s.length := by
    rw [← List.length_append, h1]
  omega

theorem next_error_msg (s : List Char) (h : (next s).kind = .Error) : (next s).err.isSome = true := by
  cases s with
  | nil => simp [next] at h
  | cons c r => exact (good_next c r).errMsg h

theorem next_not_pp (s : List Char) : (next s).kind ≠ .PreProcessor := by
  cases s with
  | nil => simp [next]
  | cons c r => exact (good_next c r).notTriviaPP

end Lex
end Tg
