/-
C15 from text: source-level arrangements of preprocessor directives with arbitrary lexical payload,
their text (`render`), and the theorem that the lexer model splits that text into exactly the
abstract token stream `PP.Items.flatten` of the arrangement — which discharges the hypothesis
`absToks text = items.flatten` of the C15 theorems for every rendered text.

Layer 1 (`STok`, `lex_chain`): a text given as a list of source tokens — tokens of the language
reference (`LexSpec.SpecTok`, C14), blank runs, line comments, block comments (nested), a string
literal running into the end of its line (the lexically invalid token), and the five directive
keywords — is lexed into exactly those tokens, provided each token is well-formed and the
adjacency conditions `okNext` hold (a reference token or directive keyword is followed by a
blank/comment or ends the text; blank runs are maximal; a line comment is followed by its line
terminator or ends the text).
Layer 2 (`SItems`, `SFrame`): the tree structure of directives over such tokens, its flat token
list `stoks`, and its abstraction `toItems` to `PP.Items`.
-/
import TgModel.Lemmas.LexSpecLemmas
import TgModel.PrepSpec

namespace Tg
namespace Render
open LexSpec Lex

/-! ### source tokens -/

inductive Dir | ifdef | ifndef | else_ | endif | define
deriving DecidableEq, Repr

def Dir.word : Dir → List Char
  | .ifdef => ['i', 'f', 'd', 'e', 'f']
  | .ifndef => ['i', 'f', 'n', 'd', 'e', 'f']
  | .else_ => ['e', 'l', 's', 'e']
  | .endif => ['e', 'n', 'd', 'i', 'f']
  | .define => ['d', 'e', 'f', 'i', 'n', 'e']

def Dir.kind : Dir → TokenKind
  | .ifdef => .Ifdef | .ifndef => .Ifndef | .else_ => .Else | .endif => .Endif | .define => .Define

/-- payload: everything that is not a directive keyword -/
inductive Pay
  /-- a token of the language reference (C14) -/
  | spec (t : SpecTok)
  /-- a maximal run of space, tab, LF, CR -/
  | blank (cs : List Char)
  /-- `//` text, without the line terminator -/
  | lineComment (text : List Char)
  /-- `/*` body `*/`, comments nesting -/
  | blockComment (b : CBody)
  /-- the lexically invalid token: a string literal that runs into the end of its line (`cr`: the
  line ends with CR, otherwise with LF); the line terminator is part of the `Error` token -/
  | badStr (items : List StrItem) (cr : Bool)
deriving Repr

def eolChar (cr : Bool) : Char := if cr then '\r' else '\n'

def Pay.render : Pay → List Char
  | .spec t => t.render
  | .blank cs => cs
  | .lineComment text => '/' :: '/' :: text
  | .blockComment b => '/' :: '*' :: (b.render ++ ['*', '/'])
  | .badStr items cr => '"' :: ((items.map StrItem.render).flatten ++ [eolChar cr])

def Pay.kind : Pay → TokenKind
  | .spec t => t.kind
  | .blank _ => .Whitespace
  | .lineComment _ => .LineComment
  | .blockComment _ => .BlockComment
  | .badStr _ _ => .Error

def Pay.wf : Pay → Bool
  | .spec t => t.wf
  | .blank cs => !cs.isEmpty && cs.all Sep.isBlank
  | .lineComment text => text.all (fun c => c != '\r' && c != '\n')
  | .blockComment b => b.wf
  | .badStr items _ => items.all StrItem.wf

def Pay.isTrivia : Pay → Bool
  | .blank _ | .lineComment _ | .blockComment _ => true
  | _ => false

def Pay.isBlank : Pay → Bool
  | .blank _ => true
  | _ => false

/-- a blank run that begins with a line terminator -/
def Pay.startsLine : Pay → Bool
  | .blank (c :: _) => isNewline c
  | _ => false

inductive STok
  | pay (p : Pay)
  | dir (d : Dir)
deriving Repr

def STok.render : STok → List Char
  | .pay p => p.render
  | .dir d => '#' :: d.word

def STok.kind : STok → TokenKind
  | .pay p => p.kind
  | .dir d => d.kind

def STok.wf : STok → Bool
  | .pay p => p.wf
  | .dir _ => true

def STok.isTrivia : STok → Bool
  | .pay p => p.isTrivia
  | .dir _ => false

/-- the lexer token a source token is expected to become -/
def STok.tok (x : STok) : Tok := { kind := x.kind, text := x.render }

/-- … and its abstraction for the preprocessor machine -/
def STok.abs (x : STok) : PP.LK := absTok x.tok

def renderToks (l : List STok) : List Char := (l.map STok.render).flatten

theorem renderToks_cons (x : STok) (l : List STok) : renderToks (x :: l) = x.render ++ renderToks l := by
  simp [renderToks]

theorem renderToks_append (a b : List STok) : renderToks (a ++ b) = renderToks a ++ renderToks b := by
  simp [renderToks]

/-- adjacency: what may follow a source token (`none` = the text ends) -/
def okNext (x : STok) (y : Option STok) : Bool :=
  match x with
  | .pay (.spec t) =>
    (match y with
     | none => !t.isSignPunct
     | some y => y.isTrivia)
  | .pay (.blank _) =>
    (match y with
     | some (.pay p) => !p.isBlank
     | _ => true)
  | .pay (.lineComment _) =>
    (match y with
     | none => true
     | some (.pay p) => p.startsLine
     | some (.dir _) => false)
  | .pay (.blockComment _) => true
  | .pay (.badStr _ _) => true
  | .dir _ =>
    (match y with
     | none => true
     | some y => y.isTrivia)

def adjOk : List STok → Bool
  | [] => true
  | [x] => okNext x none
  | x :: y :: r => okNext x (some y) && adjOk (y :: r)

/-! ### one lexer call per source token -/

theorem dir_word_alpha (d : Dir) : ∀ x ∈ d.word, isAlphabetic x = true := by
  cases d <;> decide

theorem dir_lookup (d : Dir) : lookup Tables.prepTable d.word = some d.kind := by
  cases d <;> rfl

/-- a directive keyword followed by a non-letter is the directive token -/
theorem next_dir (d : Dir) (rest : List Char) (hh : HeadNot isAlphabetic rest) :
    next ('#' :: d.word ++ rest) = { kind := d.kind, text := '#' :: d.word, rest := rest } := by
  have harm : firstArm arms '#' (d.word ++ rest) = armHash '#' (d.word ++ rest) := rfl
  rw [List.cons_append]
  apply next_of_firstArm
  rw [harm]
  simp only [armHash, beq_self_eq_true, if_true, takeWhile_append_of_all (dir_word_alpha d) hh,
    dropWhile_append_of_all (dir_word_alpha d) hh, dir_lookup]

theorem scanString_go_bad (items : List StrItem) (h : ∀ i ∈ items, i.wf = true) (e : Char)
    (he : (e == '\r' || e == '\n') = true) (rest acc : List Char) :
    scanString.go ((items.map StrItem.render).flatten ++ e :: rest) false acc =
      (acc.reverse ++ ((items.map StrItem.render).flatten ++ [e]), rest, .eol) := by
  induction items generalizing acc with
  | nil =>
    have b1 : (e == '\\') = false := by
      simp only [Bool.or_eq_true, beq_iff_eq] at he
      rcases he with e' | e' <;> subst e' <;> decide
    have b2 : (e == '"') = false := by
      simp only [Bool.or_eq_true, beq_iff_eq] at he
      rcases he with e' | e' <;> subst e' <;> decide
    simp [scanString.go, b1, b2, he]
  | cons i items ih =>
    have hi := h i (by simp)
    have ih' := fun acc => ih (fun j hj => h j (by simp [hj])) acc
    cases i with
    | ch c =>
      simp only [StrItem.wf, Bool.and_eq_true, bne_iff_ne, ne_eq] at hi
      obtain ⟨⟨⟨h1, h2⟩, h3⟩, h4⟩ := hi
      have b1 : (c == '"') = false := by simpa using h1
      have b2 : (c == '\\') = false := by simpa using h2
      have b3 : (c == '\r') = false := by simpa using h3
      have b4 : (c == '\n') = false := by simpa using h4
      simp only [List.map_cons, List.flatten_cons, StrItem.render, List.cons_append, List.nil_append,
        scanString.go, b1, b2, b3, b4, Bool.false_and, Bool.false_eq_true, if_false,
        Bool.or_self, ih', List.reverse_cons, List.append_assoc]
    | esc c =>
      simp only [StrItem.wf, Bool.or_eq_true, beq_iff_eq] at hi
      have hn : (c == '\r' || c == '\n') = false := by
        rcases hi with (((e | e) | e) | e) | e <;> subst e <;> decide
      simp only [List.map_cons, List.flatten_cons, StrItem.render, List.cons_append, List.nil_append,
        scanString.go, beq_self_eq_true, Bool.not_false, Bool.and_self, if_true, Bool.not_true, Bool.and_false,
        Bool.false_eq_true, if_false, hn, ih', List.reverse_cons, List.append_assoc]

/-- a string literal that runs into the end of its line is one `Error` token, line terminator
included (needs nothing from what follows) -/
theorem next_badStr (items : List StrItem) (cr : Bool) (rest : List Char) (hwf : (Pay.badStr items cr).wf = true) :
    (next ((Pay.badStr items cr).render ++ rest)).kind = .Error ∧
    (next ((Pay.badStr items cr).render ++ rest)).text = (Pay.badStr items cr).render ∧
    (next ((Pay.badStr items cr).render ++ rest)).rest = rest := by
  simp only [Pay.wf, List.all_eq_true] at hwf
  have he : (eolChar cr == '\r' || eolChar cr == '\n') = true := by cases cr <;> decide
  have hsc : scanString ((items.map StrItem.render).flatten ++ eolChar cr :: rest) =
      ((items.map StrItem.render).flatten ++ [eolChar cr], rest, .eol) := by
    rw [scanString, scanString_go_bad items hwf _ he]; rfl
  have e : (Pay.badStr items cr).render ++ rest =
      '"' :: ((items.map StrItem.render).flatten ++ eolChar cr :: rest) := by simp [Pay.render]
  have harm : ∀ r, firstArm arms '"' r = armString '"' r := fun _ => rfl
  have hn : next ('"' :: ((items.map StrItem.render).flatten ++ eolChar cr :: rest)) =
      { kind := .Error, text := '"' :: ((items.map StrItem.render).flatten ++ [eolChar cr]), rest := rest,
        err := some "End of line in string literal" } := by
    apply next_of_firstArm
    rw [harm]
    simp only [armString, beq_self_eq_true, if_true, hsc]
  rw [e, hn]
  exact ⟨rfl, by simp [Pay.render], rfl⟩

/-! ### what the next token contributes to the conditions of those lemmas -/

theorem Pay.render_ne_nil (p : Pay) (hp : p.wf = true) : p.render ≠ [] := by
  cases p with
  | spec t => obtain ⟨c, r, hc, _⟩ := t.render_head hp; rw [Pay.render, hc]; simp
  | blank cs =>
    simp only [Pay.wf, Bool.and_eq_true, Bool.not_eq_true', List.isEmpty_eq_false_iff] at hp
    exact hp.1
  | lineComment text => simp [Pay.render]
  | blockComment b => simp [Pay.render]
  | badStr items cr => simp [Pay.render]

theorem STok.render_ne_nil (x : STok) (hx : x.wf = true) : x.render ≠ [] := by
  cases x with
  | pay p => exact p.render_ne_nil hx
  | dir d => simp [STok.render]

/-- a blank or comment starts like a separator -/
theorem STok.startsSep_of_trivia (y : STok) (hy : y.wf = true) (ht : y.isTrivia = true) (more : List Char) :
    startsSep (y.render ++ more) = true := by
  cases y with
  | dir d => cases ht
  | pay p =>
    cases p with
    | spec t => cases ht
    | badStr items cr => cases ht
    | blank cs =>
      simp only [STok.wf, Pay.wf, Bool.and_eq_true, Bool.not_eq_true', List.isEmpty_eq_false_iff, List.all_eq_true] at hy
      cases cs with
      | nil => exact absurd rfl hy.1
      | cons c cs => simp [STok.render, Pay.render, startsSep, hy.2 c (by simp)]
    | lineComment text => simp [STok.render, Pay.render, startsSep]
    | blockComment b => simp [STok.render, Pay.render, startsSep]

/-- anything but a blank run starts with a non-blank -/
theorem STok.headNot_ws (y : STok) (hy : y.wf = true) (hb : ∀ p, y = .pay p → p.isBlank = false) (more : List Char) :
    HeadNot isAsciiWhitespace (y.render ++ more) := by
  cases y with
  | dir d => exact HeadNot.cons (by decide)
  | pay p =>
    cases p with
    | spec t =>
      obtain ⟨c, r, hc, hws⟩ := t.render_head hy
      simp only [STok.render, Pay.render, hc]
      exact HeadNot.cons hws
    | blank cs => exact absurd (hb _ rfl) (by simp [Pay.isBlank])
    | lineComment text => exact HeadNot.cons (by decide)
    | blockComment b => exact HeadNot.cons (by decide)
    | badStr items cr => exact HeadNot.cons (by decide)

theorem Pay.headNot_line (p : Pay) (hs : p.startsLine = true) (more : List Char) :
    HeadNot (fun d => !isNewline d) (p.render ++ more) := by
  cases p with
  | blank cs =>
    cases cs with
    | nil => cases hs
    | cons c cs =>
      simp only [Pay.startsLine] at hs
      exact HeadNot.cons (by simp [hs])
  | _ => cases hs

/-- **one lexer call per source token**: a well-formed source token in front of the rendering of
tokens it may be followed by is lexed as exactly that token -/
theorem next_stok (x : STok) (hx : x.wf = true) (l : List STok) (hl : ∀ y ∈ l, y.wf = true)
    (hadj : okNext x l.head? = true) :
    (next (x.render ++ renderToks l)).kind = x.kind ∧ (next (x.render ++ renderToks l)).text = x.render ∧
    (next (x.render ++ renderToks l)).rest = renderToks l := by
  -- what follows a token that needs a separator after it
  have hfollow : (∀ y, l.head? = some y → y.isTrivia = true) → Follow (renderToks l) := by
    intro h
    cases l with
    | nil => exact Or.inl rfl
    | cons y l' =>
      rw [renderToks_cons]
      exact Or.inr (STok.startsSep_of_trivia y (hl y (by simp)) (h y rfl) _)
  cases x with
  | dir d =>
    have hh : HeadNot isAlphabetic (renderToks l) := by
      apply Follow.headNot (by decide)
      apply hfollow
      intro y hy
      rw [hy] at hadj
      exact hadj
    have := next_dir d (renderToks l) hh
    simp only [STok.render, STok.kind]
    rw [this]
    exact ⟨rfl, rfl, rfl⟩
  | pay p =>
    cases p with
    | spec t =>
      have hf : Follow (renderToks l) := by
        apply hfollow
        intro y hy
        rw [hy] at hadj
        exact hadj
      have hs : t.isSignPunct = true → renderToks l ≠ [] := by
        intro hsp
        cases l with
        | nil => simp [okNext, hsp] at hadj
        | cons y l' =>
          rw [renderToks_cons]
          intro h
          exact STok.render_ne_nil y (hl y (by simp)) (List.append_eq_nil_iff.mp h).1
      have := next_specTok t (renderToks l) hx hf hs
      simp only [STok.render, STok.kind, Pay.render, Pay.kind]
      rw [this]
      exact ⟨rfl, rfl, rfl⟩
    | blank cs =>
      simp only [STok.wf, Pay.wf, Bool.and_eq_true, Bool.not_eq_true', List.isEmpty_eq_false_iff, List.all_eq_true] at hx
      cases cs with
      | nil => exact absurd rfl hx.1
      | cons c cs =>
        have hr : HeadNot isAsciiWhitespace (renderToks l) := by
          cases l with
          | nil => exact HeadNot.nil _
          | cons y l' =>
            rw [renderToks_cons]
            apply STok.headNot_ws y (hl y (by simp))
            intro q hq
            subst hq
            simpa [okNext] using hadj
        have := next_ws c cs (renderToks l) (hx.2 c (by simp)) (fun x hx' => hx.2 x (by simp [hx'])) hr
        simp only [STok.render, STok.kind, Pay.render, Pay.kind]
        rw [this]
        exact ⟨rfl, rfl, rfl⟩
    | lineComment text =>
      simp only [STok.wf, Pay.wf, List.all_eq_true] at hx
      have hr : HeadNot (fun d => !isNewline d) (renderToks l) := by
        cases l with
        | nil => exact HeadNot.nil _
        | cons y l' =>
          rw [renderToks_cons]
          cases y with
          | dir d => simp [okNext] at hadj
          | pay q => exact q.headNot_line (by simpa [okNext] using hadj) _
      have := next_lineComment text (renderToks l) hx hr
      simp only [STok.render, STok.kind, Pay.render, Pay.kind]
      rw [this]
      exact ⟨rfl, rfl, rfl⟩
    | blockComment b =>
      have := next_blockComment b hx (renderToks l)
      simp only [STok.render, STok.kind, Pay.render, Pay.kind]
      rw [this]
      exact ⟨rfl, rfl, rfl⟩
    | badStr items cr => exact next_badStr items cr (renderToks l) hx

/-- **Layer 1**: a text written as a list of well-formed source tokens with admissible neighbours
is lexed into exactly those tokens -/
theorem lex_chain (l : List STok) (hwf : ∀ x ∈ l, x.wf = true) (hadj : adjOk l = true) :
    allTokens (renderToks l) = l.map STok.tok := by
  induction l with
  | nil => simp [renderToks, allTokens_nil]
  | cons x l ih =>
    have hx := hwf x (by simp)
    have hl : ∀ y ∈ l, y.wf = true := fun y hy => hwf y (by simp [hy])
    have hadj1 : okNext x l.head? = true ∧ adjOk l = true := by
      cases l with
      | nil => exact ⟨by simpa [adjOk] using hadj, rfl⟩
      | cons y l' => simpa [adjOk] using hadj
    obtain ⟨h1, h2, h3⟩ := next_stok x hx l hl hadj1.1
    rw [renderToks_cons, allTokens_cons _ (by simp [STok.render_ne_nil x hx]), h1, h2, h3, ih hl hadj1.2]
    rfl

theorem absToks_chain (l : List STok) (hwf : ∀ x ∈ l, x.wf = true) (hadj : adjOk l = true) :
    absToks (renderToks l) = l.map STok.abs := by
  rw [absToks, lex_chain l hwf hadj, List.map_map]
  rfl

/-! ### Layer 2: arrangements of directives -/

mutual
/-- a source-level item: a payload token, `#define` gap name, or a complete conditional
`#ifdef`/`#ifndef` gap name … [`#else` …] `#endif` -/
inductive SItem
  | pay (p : Pay)
  | define (gap : List Pay) (m : List Char)
  | cond (neg : Bool) (gap : List Pay) (m : List Char) (thn : SItems) (hasElse : Bool) (els : SItems)
inductive SItems
  | nil | cons (i : SItem) (is : SItems)
end

def opener (neg : Bool) : Dir := if neg then .ifndef else .ifdef

/-- directive keyword, the blanks/comments between keyword and macro name, the macro name -/
def header (d : Dir) (gap : List Pay) (m : List Char) : List STok :=
  .dir d :: (gap.map STok.pay ++ [.pay (.spec (.ident m))])

mutual
def SItem.stoks : SItem → List STok
  | .pay p => [.pay p]
  | .define gap m => header .define gap m
  | .cond neg gap m t hasElse e =>
    header (opener neg) gap m ++ (t.stoks ++ ((if hasElse then STok.dir .else_ :: e.stoks else []) ++ [.dir .endif]))
def SItems.stoks : SItems → List STok
  | .nil => []
  | .cons i is => i.stoks ++ is.stoks
end

mutual
/-- the abstract arrangement (`PP.Items`) of a source arrangement: payload tokens abstracted,
gaps reduced to their length -/
def SItem.toItem : SItem → PP.Item
  | .pay p => .tok (STok.abs (.pay p))
  | .define gap m => .define gap.length m
  | .cond neg gap m t hasElse e => .cond neg gap.length m t.toItems hasElse e.toItems
def SItems.toItems : SItems → PP.Items
  | .nil => .nil
  | .cons i is => .cons i.toItem is.toItems
end

def SItems.isNil : SItems → Bool
  | .nil => true
  | _ => false

mutual
/-- between a directive keyword and its macro name there are only blanks and comments; a
conditional without `#else` has an empty else part -/
def SItem.shapeOk : SItem → Bool
  | .pay _ => true
  | .define gap _ => gap.all Pay.isTrivia
  | .cond _ gap _ t hasElse e => gap.all Pay.isTrivia && t.shapeOk && e.shapeOk && (hasElse || e.isNil)
def SItems.shapeOk : SItems → Bool
  | .nil => true
  | .cons i is => i.shapeOk && is.shapeOk
end

/-- a conditional that is still open when the text ends (`PP.Frame` at source level) -/
structure SFrame where
  neg : Bool
  gap : List Pay
  m : List Char
  thn : SItems
  hasElse : Bool
  els : SItems

def SFrame.stoks (f : SFrame) : List STok :=
  header (opener f.neg) f.gap f.m ++ (f.thn.stoks ++ (if f.hasElse then STok.dir .else_ :: f.els.stoks else []))

def SFrame.toFrame (f : SFrame) : PP.Frame :=
  { neg := f.neg, w := f.gap.length, m := f.m, thn := f.thn.toItems, hasElse := f.hasElse, els := f.els.toItems }

def SFrame.shapeOk (f : SFrame) : Bool :=
  f.gap.all Pay.isTrivia && f.thn.shapeOk && f.els.shapeOk && (f.hasElse || f.els.isNil)

def framesStoks : List SFrame → List STok
  | [] => []
  | f :: fs => f.stoks ++ framesStoks fs

/-! #### abstraction of the flat token list -/

def Dir.lk : Dir → PP.LK
  | .ifdef => .ifdef | .ifndef => .ifndef | .else_ => .else_ | .endif => .endif | .define => .define

theorem abs_dir (d : Dir) : (STok.dir d).abs = d.lk := by cases d <;> rfl
theorem lk_else : Dir.else_.lk = PP.LK.else_ := rfl
theorem lk_endif : Dir.endif.lk = PP.LK.endif := rfl
theorem lk_define : Dir.define.lk = PP.LK.define := rfl

theorem abs_name (m : List Char) : (STok.pay (.spec (.ident m))).abs = .id m := rfl

theorem abs_trivia (p : Pay) (h : p.isTrivia = true) : (STok.pay p).abs = .ws := by
  apply absTok_trivia
  cases p <;> first | rfl | cases h

theorem gap_abs (gap : List Pay) (h : gap.all Pay.isTrivia = true) :
    (gap.map STok.pay).map STok.abs = List.replicate gap.length PP.LK.ws := by
  induction gap with
  | nil => rfl
  | cons p gap ih =>
    simp only [List.all_cons, Bool.and_eq_true] at h
    simp only [List.map_cons, List.length_cons, List.replicate_succ, abs_trivia p h.1, ih h.2]

theorem header_abs (d : Dir) (gap : List Pay) (m : List Char) (h : gap.all Pay.isTrivia = true) :
    (header d gap m).map STok.abs = d.lk :: (List.replicate gap.length PP.LK.ws ++ [PP.LK.id m]) := by
  have hg := gap_abs gap h
  simp only [List.map_map] at hg
  simp only [header, List.map_cons, List.map_append, List.map_map, abs_dir, hg, List.map_nil, abs_name]

theorem opener_lk (neg : Bool) : (opener neg).lk = if neg then PP.LK.ifndef else PP.LK.ifdef := by
  cases neg <;> rfl

mutual
theorem SItem.flatten_toItem (i : SItem) (h : i.shapeOk = true) : i.toItem.flatten = i.stoks.map STok.abs := by
  match i with
  | .pay p => simp [SItem.toItem, SItem.stoks, PP.Item.flatten]
  | .define gap m =>
    simp only [SItem.shapeOk] at h
    simp [SItem.toItem, SItem.stoks, PP.Item.flatten, header_abs _ gap m h, lk_define]
  | .cond neg gap m t hasElse e =>
    simp only [SItem.shapeOk, Bool.and_eq_true] at h
    have ht := SItems.flatten_toItems t h.1.1.2
    have he := SItems.flatten_toItems e h.1.2
    cases hasElse <;>
      simp [SItem.toItem, SItem.stoks, PP.Item.flatten, header_abs _ gap m h.1.1.1, opener_lk, ht, he, abs_dir,
        lk_else, lk_endif]
theorem SItems.flatten_toItems (is : SItems) (h : is.shapeOk = true) : is.toItems.flatten = is.stoks.map STok.abs := by
  match is with
  | .nil => simp [SItems.toItems, SItems.stoks, PP.Items.flatten]
  | .cons i is =>
    simp only [SItems.shapeOk, Bool.and_eq_true] at h
    simp [SItems.toItems, SItems.stoks, PP.Items.flatten, SItem.flatten_toItem i h.1, SItems.flatten_toItems is h.2]
end

theorem SFrame.flatten_toFrame (f : SFrame) (h : f.shapeOk = true) : f.toFrame.flatten = f.stoks.map STok.abs := by
  simp only [SFrame.shapeOk, Bool.and_eq_true] at h
  have ht := SItems.flatten_toItems f.thn h.1.1.2
  have he := SItems.flatten_toItems f.els h.1.2
  cases hel : f.hasElse <;>
    simp [SFrame.toFrame, SFrame.stoks, PP.Frame.flatten, header_abs _ f.gap f.m h.1.1.1, opener_lk, ht, he, abs_dir,
      lk_else, hel]

theorem frames_flatten (fs : List SFrame) (h : fs.all SFrame.shapeOk = true) :
    PP.Frames.flatten (fs.map SFrame.toFrame) = (framesStoks fs).map STok.abs := by
  induction fs with
  | nil => rfl
  | cons f fs ih =>
    simp only [List.all_cons, Bool.and_eq_true] at h
    simp [PP.Frames.flatten, framesStoks, SFrame.flatten_toFrame f h.1, ih h.2]

/-! #### the abstract arrangement is well-nested (`ok`): payload abstracts to plain tokens -/

def notDir (k : TokenKind) : Bool :=
  k != .Ifdef && k != .Ifndef && k != .Else && k != .Endif && k != .Define

theorem absTok_plain (t : Tok) (h : notDir t.kind = true) : (absTok t).plain = true := by
  simp only [notDir, Bool.and_eq_true, bne_iff_ne, ne_eq] at h
  unfold absTok
  split <;> first | (simp_all; done) | rfl | (split <;> rfl)

theorem keywords_notDir : Tables.keywords.all (fun p => notDir p.2) = true := by decide +kernel
theorem bangTable_notDir : Tables.bangTable.all (fun p => notDir p.2) = true := by decide +kernel

theorem SpecTok.notDir (t : SpecTok) (hwf : t.WF) : notDir t.kind = true := by
  cases t with
  | keyword w k =>
    simp only [SpecTok.WF, SpecTok.wf, List.contains_iff_mem] at hwf
    exact List.all_eq_true.mp keywords_notDir _ hwf
  | bang w k =>
    simp only [SpecTok.WF, SpecTok.wf, List.contains_iff_mem] at hwf
    exact List.all_eq_true.mp bangTable_notDir _ hwf
  | punct p => cases p <;> rfl
  | _ => rfl

theorem Pay.abs_plain (p : Pay) (hp : p.wf = true) : (STok.pay p).abs.plain = true := by
  apply absTok_plain
  cases p with
  | spec t => exact SpecTok.notDir t hp
  | _ => rfl

theorem isNil_ok (e : SItems) (h : e.isNil = true) : e.toItems.ok = true := by
  cases e with
  | nil => rfl
  | cons i is => cases h

mutual
theorem SItem.toItem_ok (i : SItem) (hs : i.shapeOk = true) (h : ∀ x ∈ i.stoks, x.wf = true) :
    i.toItem.ok = true := by
  match i with
  | .pay p => exact Pay.abs_plain p (h (.pay p) (by simp [SItem.stoks]))
  | .define gap m => rfl
  | .cond neg gap m t hasElse e =>
    simp only [SItem.shapeOk, Bool.and_eq_true, Bool.or_eq_true] at hs
    simp only [SItem.toItem, PP.Item.ok, Bool.and_eq_true]
    refine ⟨SItems.toItems_ok t hs.1.1.2 fun x hx => h x (by simp [SItem.stoks, hx]), ?_⟩
    cases hasElse with
    | true => exact SItems.toItems_ok e hs.1.2 fun x hx => h x (by simp [SItem.stoks, hx])
    | false => exact isNil_ok e (by simpa using hs.2)
theorem SItems.toItems_ok (is : SItems) (hs : is.shapeOk = true) (h : ∀ x ∈ is.stoks, x.wf = true) :
    is.toItems.ok = true := by
  match is with
  | .nil => rfl
  | .cons i is =>
    simp only [SItems.shapeOk, Bool.and_eq_true] at hs
    simp only [SItems.toItems, PP.Items.ok, Bool.and_eq_true]
    exact ⟨SItem.toItem_ok i hs.1 fun x hx => h x (by simp [SItems.stoks, hx]),
      SItems.toItems_ok is hs.2 fun x hx => h x (by simp [SItems.stoks, hx])⟩
end

theorem SFrame.toFrame_ok (f : SFrame) (hs : f.shapeOk = true) (h : ∀ x ∈ f.stoks, x.wf = true) :
    f.toFrame.ok = true := by
  simp only [SFrame.shapeOk, Bool.and_eq_true, Bool.or_eq_true] at hs
  simp only [SFrame.toFrame, PP.Frame.ok, Bool.and_eq_true]
  refine ⟨SItems.toItems_ok f.thn hs.1.1.2 fun x hx => h x (by simp [SFrame.stoks, hx]), ?_⟩
  cases hel : f.hasElse with
  | true => exact SItems.toItems_ok f.els hs.1.2 fun x hx => h x (by simp [SFrame.stoks, hel, hx])
  | false => exact isNil_ok f.els (by simpa [hel] using hs.2)

theorem frames_ok (fs : List SFrame) (hs : fs.all SFrame.shapeOk = true) (h : ∀ x ∈ framesStoks fs, x.wf = true) :
    ∀ g ∈ fs.map SFrame.toFrame, g.ok = true := by
  induction fs with
  | nil => intro g hg; simp at hg
  | cons f fs ih =>
    simp only [List.all_cons, Bool.and_eq_true] at hs
    intro g hg
    simp only [List.map_cons, List.mem_cons] at hg
    rcases hg with rfl | hg
    · exact SFrame.toFrame_ok f hs.1 fun x hx => h x (by simp [framesStoks, hx])
    · exact ih hs.2 (fun x hx => h x (by simp [framesStoks, hx])) g hg

/-! ### the theorems: rendered texts lex into their arrangement -/

/-- the text of a well-nested source arrangement -/
def SItems.render (s : SItems) : List Char := renderToks s.stoks

/-- side condition on a source arrangement (decidable): directive shape, every token well-formed
(the macro names are `SpecTok.ident`s: identifiers of the reference, digit-leading ones included,
no reserved words), admissible neighbours -/
def SItems.wf (s : SItems) : Bool := s.shapeOk && s.stoks.all STok.wf && adjOk s.stoks

/-- **the lexer splits a rendered well-nested arrangement into that arrangement** -/
theorem SItems.absToks_render (s : SItems) (h : s.wf = true) :
    s.toItems.ok = true ∧ absToks s.render = s.toItems.flatten := by
  simp only [SItems.wf, Bool.and_eq_true, List.all_eq_true] at h
  exact ⟨SItems.toItems_ok s h.1.1 h.1.2,
    by rw [SItems.render, absToks_chain _ h.1.2 h.2, SItems.flatten_toItems s h.1.1]⟩

/-- a whole text: well-nested items followed by conditionals that are still open at the end -/
structure Text where
  pre : SItems
  frames : List SFrame

def Text.stoks (t : Text) : List STok := t.pre.stoks ++ framesStoks t.frames
def Text.render (t : Text) : List Char := renderToks t.stoks
def Text.wf (t : Text) : Bool :=
  t.pre.shapeOk && t.frames.all SFrame.shapeOk && t.stoks.all STok.wf && adjOk t.stoks

/-- **the lexer splits a rendered text with open conditionals into its arrangement** -/
theorem Text.absToks_render (t : Text) (h : t.wf = true) :
    t.pre.toItems.ok = true ∧ (∀ g ∈ t.frames.map SFrame.toFrame, g.ok = true) ∧
    absToks t.render = t.pre.toItems.flatten ++ PP.Frames.flatten (t.frames.map SFrame.toFrame) := by
  simp only [Text.wf, Bool.and_eq_true, List.all_eq_true] at h
  obtain ⟨⟨⟨h1, h2⟩, h3⟩, h4⟩ := h
  have h2' : t.frames.all SFrame.shapeOk = true := List.all_eq_true.mpr h2
  refine ⟨SItems.toItems_ok t.pre h1 fun x hx => h3 x (by simp [Text.stoks, hx]),
    frames_ok t.frames h2' fun x hx => h3 x (by simp [Text.stoks, hx]), ?_⟩
  rw [Text.render, absToks_chain _ h3 h4, Text.stoks, List.map_append, SItems.flatten_toItems t.pre h1,
    frames_flatten t.frames h2']

end Render
end Tg
