/-
C04 converse for whole statements (part 1): the shape predicate, the extended grammar with abstract
`Value` *and* abstract name-mode value, and the small inversions the statement proofs use.

`Shape w`: none of the token patterns of `badPatterns` occurs in `w` (decidable, closed under taking
infixes).  The patterns name the places where the statement parser takes more than the documented
grammar has (outside of values):
* `StrVal StrVal`        — string-concat (`include "a" "b"`; also inside values)
* `< code`, `, code`, `defset code` — type-code (`code` where the documented `Type` is wanted; a field
  definition `code x;` is documented and is not excluded)
* `, >`                  — trailing comma in a template argument list
* `class Id < >`, `multiclass Id < >` — empty template argument list
-/
import TgModel.Lemmas.C04Conv4

namespace Tg
namespace C04L
open Prog Grammar Frag Doc

local notation "rcv" => Tables.recoverTokens

/-! ### patterns -/

/-- `pat` occurs in `w` as a block of adjacent tokens -/
def occurs (pat : List TokenKind) : List TokenKind → Bool
  | [] => pat.isEmpty
  | x :: r => pat.isPrefixOf (x :: r) || occurs pat r

theorem isPrefixOf_append {pat v : List TokenKind} (x : List TokenKind) (h : pat.isPrefixOf v = true) :
    pat.isPrefixOf (v ++ x) = true := by
  rw [List.isPrefixOf_iff_prefix] at h ⊢
  exact h.trans (List.prefix_append v x)

theorem occurs_append_right (pat : List TokenKind) : ∀ (u : List TokenKind) {v : List TokenKind},
    occurs pat v = true → occurs pat (u ++ v) = true
  | [], _, h => h
  | x :: u, v, h => by
    have := occurs_append_right pat u h
    simp only [List.cons_append, occurs, Bool.or_eq_true]
    exact Or.inr this

theorem occurs_append_left (pat : List TokenKind) : ∀ {v : List TokenKind} (x : List TokenKind),
    occurs pat v = true → occurs pat (v ++ x) = true
  | [], x, h => by
    cases pat with
    | nil => cases x <;> simp [occurs]
    | cons a p => simp [occurs] at h
  | a :: v, x, h => by
    simp only [occurs, Bool.or_eq_true] at h
    simp only [List.cons_append, occurs, Bool.or_eq_true]
    rcases h with h | h
    · left
      have := isPrefixOf_append x h
      simpa using this
    · exact Or.inr (occurs_append_left pat x h)

theorem occurs_infix {pat u v x : List TokenKind} (h : occurs pat (u ++ v ++ x) = false) : occurs pat v = false := by
  cases hv : occurs pat v
  · rfl
  · rw [occurs_append_left pat x (occurs_append_right pat u hv)] at h; cases h

theorem occurs_prefix {pat v : List TokenKind} (x : List TokenKind) (h : pat.isPrefixOf v = true) (hv : v ≠ []) :
    occurs pat (v ++ x) = true := by
  cases v with
  | nil => exact (hv rfl).elim
  | cons a v =>
    simp only [List.cons_append, occurs, Bool.or_eq_true]
    left
    have := isPrefixOf_append x h
    simpa using this

/-- the token patterns the shape predicate excludes -/
def badPatterns : List (List TokenKind) :=
  [[.StrVal, .StrVal], [.Less, .Code], [.Comma, .Code], [.Defset, .Code], [.Comma, .Greater],
   [.Class, .Id, .Less, .Greater], [.MultiClass, .Id, .Less, .Greater]]

/-- **the shape predicate**: no excluded pattern occurs -/
def Shape (w : List TokenKind) : Prop := ∀ pat ∈ badPatterns, occurs pat w = false

instance decShape (w : List TokenKind) : Decidable (Shape w) := by unfold Shape; infer_instance

theorem Shape.infix {u v x : List TokenKind} (h : Shape (u ++ v ++ x)) : Shape v :=
  fun pat hp => occurs_infix (h pat hp)

theorem Shape.left {u v : List TokenKind} (h : Shape (u ++ v)) : Shape u :=
  Shape.infix (u := []) (by simpa using h)

theorem Shape.right {u v : List TokenKind} (h : Shape (u ++ v)) : Shape v :=
  Shape.infix (u := u) (x := []) (by simpa using h)

theorem Shape.tail {p : TokenKind} {v : List TokenKind} (h : Shape (p :: v)) : Shape v :=
  Shape.right (u := [p]) h

/-- a word that starts (after `u`) with an excluded pattern does not have the shape -/
theorem Shape.not_pat {pat : List TokenKind} (hp : pat ∈ badPatterns) (hne : pat ≠ []) (u x : List TokenKind)
    (h : Shape (u ++ (pat ++ x))) : False := by
  have := h pat hp
  rw [occurs_append_right pat u (occurs_prefix x (by rw [List.isPrefixOf_iff_prefix]; exact List.prefix_refl _) hne)] at this
  cases this

/-! ### the extended grammar, name-mode values included -/

/-- the documented grammar, with every word of `V` admitted as a `Value` and every word of `N` as a
name-mode value (`Value_NameMode_`, the name of a `def`/`defm`) -/
inductive DVN (V N : List TokenKind → Prop) : E → List TokenKind → Prop where
  | val {w : List TokenKind} : V w → DVN V N (.nt .Value_) w
  | nval {w : List TokenKind} : N w → DVN V N (.nt .Value_NameMode_) w
  | tok {ks : List TokenKind} {k : TokenKind} : k ∈ ks → DVN V N (.tok ks) [k]
  | nt {n : NT} {w : List TokenKind} : DVN V N (rule n) w → DVN V N (.nt n) w
  | eps : DVN V N .eps []
  | seq {a b : E} {u v : List TokenKind} : DVN V N a u → DVN V N b v → DVN V N (.seq a b) (u ++ v)
  | altL {a b : E} {w : List TokenKind} : DVN V N a w → DVN V N (.alt a b) w
  | altR {a b : E} {w : List TokenKind} : DVN V N b w → DVN V N (.alt a b) w
  | optNone {a : E} : DVN V N (.opt a) []
  | optSome {a : E} {w : List TokenKind} : DVN V N a w → DVN V N (.opt a) w
  | starNil {a : E} : DVN V N (.star a) []
  | starCons {a : E} {u v : List TokenKind} : DVN V N a u → DVN V N (.star a) v → DVN V N (.star a) (u ++ v)
  | plus {a : E} {u v : List TokenKind} : DVN V N a u → DVN V N (.star a) v → DVN V N (.plus a) (u ++ v)

theorem DVN.ofDV {V N : List TokenKind → Prop} {e : E} {w : List TokenKind} (h : DV V e w) : DVN V N e w := by
  induction h with
  | val h => exact .val h
  | tok h => exact .tok h
  | nt _ ih => exact .nt ih
  | eps => exact .eps
  | seq _ _ i1 i2 => exact .seq i1 i2
  | altL _ ih => exact .altL ih
  | altR _ ih => exact .altR ih
  | optNone => exact .optNone
  | optSome _ ih => exact .optSome ih
  | starNil => exact .starNil
  | starCons _ _ i1 i2 => exact .starCons i1 i2
  | plus _ _ i1 i2 => exact .plus i1 i2

theorem DVN.of {V N : List TokenKind → Prop} {e : E} {w : List TokenKind} (h : Derives e w) : DVN V N e w :=
  DVN.ofDV (DV.of h)

/-- if the admitted words are documented, the extension adds nothing -/
theorem DVN.collapse {V N : List TokenKind → Prop} (hV : ∀ w, V w → Derives (.nt .Value_) w)
    (hN : ∀ w, N w → Derives (.nt .Value_NameMode_) w) {e : E} {w : List TokenKind} (h : DVN V N e w) :
    Derives e w := by
  induction h with
  | val h => exact hV _ h
  | nval h => exact hN _ h
  | tok h => exact .tok h
  | nt _ ih => exact .nt ih
  | eps => exact .eps
  | seq _ _ i1 i2 => exact .seq i1 i2
  | altL _ ih => exact .altL ih
  | altR _ ih => exact .altR ih
  | optNone => exact .optNone
  | optSome _ ih => exact .optSome ih
  | starNil => exact .starNil
  | starCons _ _ i1 i2 => exact .starCons i1 i2
  | plus _ _ i1 i2 => exact .plus i1 i2

theorem DVN.mono {V N V' N' : List TokenKind → Prop} (hV : ∀ w, V w → V' w) (hN : ∀ w, N w → N' w) {e : E}
    {w : List TokenKind} (h : DVN V N e w) : DVN V' N' e w := by
  induction h with
  | val h => exact .val (hV _ h)
  | nval h => exact .nval (hN _ h)
  | tok h => exact .tok h
  | nt _ ih => exact .nt ih
  | eps => exact .eps
  | seq _ _ i1 i2 => exact .seq i1 i2
  | altL _ ih => exact .altL ih
  | altR _ ih => exact .altR ih
  | optNone => exact .optNone
  | optSome _ ih => exact .optSome ih
  | starNil => exact .starNil
  | starCons _ _ i1 i2 => exact .starCons i1 i2
  | plus _ _ i1 i2 => exact .plus i1 i2

/-- `w` is what a clean run of the name-mode value parser (`name_value`: the name of a `def`/`defm`)
consumed -/
def VWN (w : List TokenKind) : Prop :=
  ∃ (fuel : Nat) (a b : PState), Norm a ∧ exec defs rcv fuel (call .name_value) a = .ok b ∧ Clean a b ∧
    a.kinds = w ++ b.kinds

/-- **hypothesis**: whatever a clean run of `name_value` consumes is a documented name-mode value -/
def NameOK : Prop := ∀ w, VWN w → Derives (.nt .Value_NameMode_) w

/-- the extended grammar of the statement converse -/
abbrev DS (e : E) (w : List TokenKind) : Prop := DVN VW VWN e w

theorem ds_cast {e : E} {w w' : List TokenKind} (h : DS e w) (hw : w = w') : DS e w' := hw ▸ h

theorem ds_tok1 (k : TokenKind) : DS (.tok [k]) [k] := .tok (List.mem_singleton.mpr rfl)

theorem ds_tokSeq {k : TokenKind} {b : E} {v : List TokenKind} (h : DS b v) : DS (.seq (.tok [k]) b) (k :: v) :=
  DVN.seq (ds_tok1 k) h

theorem ds_seq_nil {a b : E} {u : List TokenKind} (ha : DS a u) (hb : DS b []) : DS (.seq a b) u :=
  ds_cast (DVN.seq ha hb) (List.append_nil u)

theorem ds_nil_seq {a b : E} {u : List TokenKind} (ha : DS a []) (hb : DS b u) : DS (.seq a b) u :=
  ds_cast (DVN.seq ha hb) (List.nil_append u)

theorem ds_identifier : DS (.nt .Identifier_) [TokenKind.Id] := DVN.of d_identifier

theorem ds_idSeq {b : E} {v : List TokenKind} (h : DS b v) : DS (.seq (.nt .Identifier_) b) (TokenKind.Id :: v) :=
  DVN.seq (u := [TokenKind.Id]) ds_identifier h

/-! ### small inversions -/

theorem skip_inv {n : Nat} {s s' : PState} (h : exec defs rcv (n+1) skip s = .ok s') :
    s'.kinds = s.kinds ∧ Norm s' ∧ (s.afterError = false → s'.afterError = false) := by
  rw [exec] at h
  obtain ⟨h1, h2, _, h4⟩ := skip_props _ h
  refine ⟨h1, h2, fun ha => ?_⟩
  cases hb : s'.afterError
  · rfl
  · rw [h4 hb] at ha; cases ha

theorem errorAndEat_inv {n : Nat} {m : String} {s s' : PState}
    (h : exec defs rcv (n+1) (errorAndEat m) s = .ok s') (hc : Clean s s') : False := by
  rw [exec] at h
  split at h
  · rename_i s1 he
    have g := (grow_startNode (s.error m) .Error).trans ((grow_eat he).trans (grow_finishNode h))
    have := grow_len g
    unfold Clean at hc
    simp [PState.error] at this; omega
  · rename_i hne; first | exact (hne _ h).elim | cases h

/-- the administrative steps leave the token view alone -/
structure Same (s s' : PState) : Prop where
  kinds : s'.kinds = s.kinds
  after : s'.afterError = s.afterError
  cur : s'.cur = s.cur

theorem Same.norm {s s' : PState} (h : Same s s') (hn : Norm s) : Norm s' := by
  unfold Norm at *; rw [h.cur]; exact hn

theorem same_startNode {n : Nat} {k : SyntaxKind} {s s' : PState}
    (h : exec defs rcv (n+1) (startNode k) s = .ok s') : Same s s' := by
  have e := startNode_inv defs rcv h; subst e; exact ⟨rfl, rfl, rfl⟩

theorem same_finishNode {n : Nat} {s s' : PState} (h : exec defs rcv (n+1) finishNode s = .ok s') : Same s s' := by
  obtain ⟨h1, h2, h3, _⟩ := finishNode_same (finishNode_inv defs rcv h)
  exact ⟨h1, h2, h3⟩

theorem same_retB {n : Nat} {b : Bool} {s s' : PState} (h : exec defs rcv (n+1) (retB b) s = .ok s') : Same s s' := by
  have e := retB_inv defs rcv h; subst e; exact ⟨rfl, rfl, rfl⟩

theorem same_nop {n : Nat} {s s' : PState} (h : exec defs rcv (n+1) nop s = .ok s') : Same s s' := by
  have e := nop_inv defs rcv h; subst e; exact ⟨rfl, rfl, rfl⟩

theorem same_pushCp {n : Nat} {s s' : PState} (h : exec defs rcv (n+1) pushCp s = .ok s') : Same s s' := by
  rw [exec] at h; simp only [Res.ok.injEq] at h; subst h; exact ⟨rfl, rfl, rfl⟩

theorem same_popCp {n : Nat} {s s' : PState} (h : exec defs rcv (n+1) popCp s = .ok s') : Same s s' := by
  rw [exec] at h; simp only [Res.ok.injEq] at h; subst h; exact ⟨rfl, rfl, rfl⟩

theorem same_pushLocal {n : Nat} {s s' : PState} (h : exec defs rcv (n+1) pushLocal s = .ok s') : Same s s' := by
  rw [exec] at h; simp only [Res.ok.injEq] at h; subst h; exact ⟨rfl, rfl, rfl⟩

theorem same_popLocal {n : Nat} {s s' : PState} (h : exec defs rcv (n+1) popLocal s = .ok s') : Same s s' := by
  rw [exec] at h; simp only [Res.ok.injEq] at h; subst h; exact ⟨rfl, rfl, rfl⟩

theorem same_setLocal {n : Nat} {s s' : PState} (h : exec defs rcv (n+1) setLocal s = .ok s') : Same s s' := by
  rw [exec] at h; simp only [Res.ok.injEq] at h; subst h; exact ⟨rfl, rfl, rfl⟩

theorem same_startNodeAtCp {n : Nat} {k : SyntaxKind} {s s' : PState}
    (h : exec defs rcv (n+1) (startNodeAtCp k) s = .ok s') : Same s s' := by
  rw [exec] at h
  split at h
  · unfold PState.startNodeAt at h
    split at h
    · cases h
    · split at h
      · cases h
      · simp only [Res.ok.injEq] at h; subst h; exact ⟨rfl, rfl, rfl⟩
  · cases h

theorem ifLocal_inv {n : Nat} {t e : Prog} {s s' : PState} (h : exec defs rcv (n+1) (ifLocal t e) s = .ok s') :
    exec defs rcv n t s = .ok s' ∨ exec defs rcv n e s = .ok s' := by
  rw [exec] at h
  split at h
  · exact Or.inl h
  · exact Or.inr h

/-- `name_value` through its abstraction -/
theorem name_clean {input : List Char} {n : Nat} {s s' : PState} (hi : Inv input s)
    (h : exec defs rcv n (call .name_value) s = .ok s') (hc : Clean s s') (ha : s.afterError = false) (hn : Norm s) :
    ∃ w, s.kinds = w ++ s'.kinds ∧ VWN w ∧ s'.afterError = false := by
  obtain ⟨w, hw⟩ := suffix_exec defs rcv input _ _ _ _ hi h
  exact ⟨w, hw, ⟨n, s, s', hn, h, hc, hw⟩, clean_afterError defs rcv h hc ha⟩

/-- `expect` with the look-ahead exposed -/
theorem expect_cleanC {n : Nat} {k : TokenKind} {msg : Option String} {s s' : PState} (hp : plain k = true)
    (h : exec defs rcv (n+1) (expect k msg) s = .ok s') (hc : Clean s s') (ha : s.afterError = false) :
    s.cur = k ∧ s.kinds = k :: s'.kinds ∧ s'.afterError = false ∧ Norm s' := by
  obtain ⟨hk, _⟩ := expect_inv defs rcv h hc ha
  obtain ⟨h1, h2, h3⟩ := expect_cleanN hp h hc ha
  exact ⟨hk, h1, h2, h3⟩

end C04L
end Tg
