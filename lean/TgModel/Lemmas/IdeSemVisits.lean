/-
"The indexer visits this site": `Visits m site` - every successful run of `m` executes `site`, entering
it in a state that is related to the start of `m` by the state invariants (`LiveRel`) with the same
current file, and ending `m` in a later stage (`LaterRel`) of the state in which the site ended.
Combinators for `>>=` and `for … in`, and the descent from a statement list of a file down to the
identifier site of a field initialiser `T x = id;` in the body of a `class` / `def`
(`statementList_visits`), under static conditions on the tree (`ClassUse`, `DefUse`, `BodyUse`,
`FieldUse`) that make sure the site is reached.
-/
import TgModel.Lemmas.IdeSemLive
import TgModel.Lemmas.IdeSemDiag
namespace Tg
namespace Ide
open Index

/-! ### a computation that is executed inside another -/

/-- what holds between the start of an indexer function and a site inside it: the invariants are
kept and the current file is the same -/
def PreR (c cs : IndexCtx) : Prop := LiveRel c cs ∧ cs.fileTrace = c.fileTrace

instance : KeepRel LiveRel where
  refl := fun _ => ⟨fun h => h, fun h => h, KeepRel.refl _⟩
  trans := fun h1 h2 => ⟨fun h => h2.1 (h1.1 h), fun h => h2.2.1 (h1.2.1 h), KeepRel.trans h1.2.2 h2.2.2⟩

instance : KeepRel PreR where
  refl := fun c => ⟨KeepRel.refl c, rfl⟩
  trans := fun h1 h2 => ⟨KeepRel.trans h1.1 h2.1, h2.2.trans h1.2⟩

theorem keeps_preR {α : Type} {m : IxM α} (h1 : Keeps LiveRel m) (h2 : Keeps AttrRel m) : Keeps PreR m :=
  ⟨fun c a c' h => ⟨h1.run _ _ _ h, (h2.run _ _ _ h).trace⟩⟩

/-- every successful run of `m` executes `site`: it is entered in a state related to the start by
`PreR`, and the symbol map at the end of `m` is a later stage of the one at the end of the site -/
def Visits {α β : Type} (m : IxM α) (site : IxM β) : Prop :=
  ∀ c a c', m.run c = .ok (a, c') → ∃ cs b cs', PreR c cs ∧ site.run cs = .ok (b, cs') ∧ LaterRel cs' c'

theorem Visits.self {β : Type} (site : IxM β) : Visits site site :=
  fun c a c' h => ⟨c, a, c', KeepRel.refl c, h, SmLater.refl _⟩

theorem Visits.of_run_eq {α β : Type} {m : IxM α} {site : IxM β}
    (h : ∀ c a c', m.run c = .ok (a, c') → ∃ b, site.run c = .ok (b, c')) : Visits m site :=
  fun c a c' hr => let ⟨b, hb⟩ := h c a c' hr; ⟨c, b, c', KeepRel.refl c, hb, SmLater.refl _⟩

theorem Visits.bind_first {α β γ : Type} {m : IxM α} {f : α → IxM γ} {site : IxM β} (hin : Visits m site)
    (hf : ∀ a, Keeps LaterRel (f a)) : Visits (m >>= f) site := by
  intro c a c' h
  obtain ⟨x, c1, h1, h2⟩ := IxM.run_bind_ok h
  obtain ⟨cs, b, cs', p, hs, l⟩ := hin c x c1 h1
  exact ⟨cs, b, cs', p, hs, SmLater.trans l ((hf x).run _ _ _ h2)⟩

theorem Visits.bind_second {α β γ : Type} {m : IxM α} {f : α → IxM γ} {site : IxM β} (hm : Keeps PreR m)
    (hin : ∀ a, Visits (f a) site) : Visits (m >>= f) site := by
  intro c a c' h
  obtain ⟨x, c1, h1, h2⟩ := IxM.run_bind_ok h
  obtain ⟨cs, b, cs', p, hs, l⟩ := hin x c1 a c' h2
  exact ⟨cs, b, cs', KeepRel.trans (hm.run _ _ _ h1) p, hs, l⟩

theorem forIn_unit_split' {α : Type} (body : α → PUnit → IxM (ForInStep PUnit)) (pre : List α) (x : α)
    (post : List α) (c c' : IndexCtx) (u : PUnit)
    (hy : ∀ x c st c1, (body x PUnit.unit).run c = .ok (st, c1) → st = .yield PUnit.unit)
    (h : (forIn (pre ++ x :: post) PUnit.unit body).run c = .ok (u, c')) :
    ∃ c1 c2, (forIn pre PUnit.unit body).run c = .ok (PUnit.unit, c1) ∧
      (body x PUnit.unit).run c1 = .ok (.yield PUnit.unit, c2) ∧
      (forIn post PUnit.unit body).run c2 = .ok (PUnit.unit, c') := by
  induction pre generalizing c with
  | nil =>
    simp only [List.nil_append, List.forIn_cons] at h
    obtain ⟨st, c2, h1, h⟩ := IxM.run_bind_ok h
    have := hy _ _ _ _ h1
    subst this
    exact ⟨c, c2, rfl, h1, h⟩
  | cons y pre ih =>
    simp only [List.cons_append, List.forIn_cons] at h
    obtain ⟨st, c0, h1, h⟩ := IxM.run_bind_ok h
    have := hy _ _ _ _ h1
    subst this
    obtain ⟨c1, c2, i1, i2, i3⟩ := ih c0 h
    refine ⟨c1, c2, ?_, i2, i3⟩
    simp only [List.forIn_cons, StateT.run_bind, h1, Except.ok_bind]
    exact i1

/-- a loop without loop state whose body never breaks executes what the body of one of its elements executes -/
theorem Visits.forIn_unit {α β : Type} (body : α → PUnit → IxM (ForInStep PUnit)) (pre : List α) (x : α) (post : List α)
    {site : IxM β}
    (hy : ∀ x c st c1, (body x PUnit.unit).run c = .ok (st, c1) → st = .yield PUnit.unit)
    (hp : ∀ y, Keeps PreR (body y PUnit.unit)) (hl : ∀ y, Keeps LaterRel (body y PUnit.unit))
    (hin : Visits (body x PUnit.unit) site) :
    Visits (forIn (pre ++ x :: post) PUnit.unit body) site := by
  intro c a c' h
  obtain ⟨c1, c2, i1, i2, i3⟩ := forIn_unit_split' body pre x post c c' a hy h
  obtain ⟨cs, b, cs', p, hs, l⟩ := hin c1 _ c2 i2
  have p1 : PreR c c1 := (Keeps.forIn pre PUnit.unit body (fun y _ => hp y)).run _ _ _ i1
  have l3 : LaterRel c2 c' := (Keeps.forIn post PUnit.unit body (fun y _ => hl y)).run _ _ _ i3
  exact ⟨cs, b, cs', KeepRel.trans p1 p, hs, SmLater.trans l l3⟩


theorem Visits.bind_second' {α β γ : Type} {m : IxM α} {f : α → IxM γ} {site : IxM β} (P : α → Prop)
    (hm : Keeps PreR m) (hres : ∀ c a c1, m.run c = .ok (a, c1) → P a)
    (hin : ∀ a, P a → Visits (f a) site) : Visits (m >>= f) site := by
  intro c a c' h
  obtain ⟨x, c1, h1, h2⟩ := IxM.run_bind_ok h
  obtain ⟨cs, b, cs', p, hs, l⟩ := hin x (hres _ _ _ h1) c1 a c' h2
  exact ⟨cs, b, cs', KeepRel.trans (hm.run _ _ _ h1) p, hs, l⟩

theorem Visits.of_fail {α β : Type} {m : IxM α} {site : IxM β} (h : ∀ c a c', m.run c ≠ .ok (a, c')) : Visits m site :=
  fun c a c' hr => absurd hr (h c a c')

theorem utilsIdentifier_some (id : PTree) (name : String) (se : Nat × Nat) (h1 : Ast.identifierValue id = some name)
    (h2 : Ast.identifierRange id = some se) (c : IndexCtx) (a : Option (String × FileRange)) (c1 : IndexCtx)
    (h : (utilsIdentifier id).run c = .ok (a, c1)) : ∃ f, a = some (name, ⟨f, se.1, se.2⟩) := by
  cases hft : c.fileTrace with
  | nil =>
    unfold utilsIdentifier currentFileId at h
    simp only [h1, StateT.run_bind, IxM.run_get, Except.ok_bind, hft] at h
    cases h
  | cons f rest =>
    rw [utilsIdentifier_runOf id c f rest hft] at h
    cases h
    exact ⟨f, by simp [identOf, h1, h2]⟩

theorem keeps_live {α : Type} {m : IxM α} (g : Keeps GidRel m) (c : Keeps ContRel m)
    (b : Keeps (BRel 0 (fun _ => True)) m) : Keeps LiveRel m :=
  ⟨fun c0 a c' h => ⟨g.run _ _ _ h, c.run _ _ _ h, b.run _ _ _ h⟩⟩

/-- `Keeps PreR` from a lemma that holds for every `CoreRel` -/
macro "pre_prim " t:term : tactic => `(tactic| exact keeps_preR (keeps_live $t $t $t) $t)

/-- the declaration of a field (`add_record_field` + registration in the record), then `K` -/
theorem Visits.declField {β γ : Type} (f : RecordField) (rid : Nat) (name : String) (K : IxM γ) {site : IxM β}
    (hK : Visits K site) :
    Visits (addRecordField f >>= fun fid =>
      (recordMut rid fun rec => { rec with nameToRecordField := indexMapInsert rec.nameToRecordField name fid }) >>=
        fun _ => K) site := by
  intro c a c' h
  obtain ⟨fid, c1, h1, h⟩ := IxM.run_bind_ok h
  obtain ⟨_, c2, h2, h⟩ := IxM.run_bind_ok h
  obtain ⟨cs, b, cs', p, hs, l⟩ := hK c2 a c' h
  have hg := addRecordField_id (R := GidRel) f c c1 fid h1
  have hc := addRecordField_id (R := ContRel) f c c1 fid h1
  have hb := addRecordField_id (R := BRel 0 (fun _ => True)) f c c1 fid h1
  have ha := addRecordField_id (R := AttrRel) f c c1 fid h1
  have p1 : PreR c c1 := ⟨⟨hg.1, hc.1, hb.1⟩, ha.1.trace⟩
  have p2 : PreR c1 c2 := ⟨⟨insertField_step rid name fid c1 c2 hg.2 h2, insertField_step rid name fid c1 c2 hg.2 h2,
    insertField_step rid name fid c1 c2 hg.2 h2⟩, (insertField_step (R := AttrRel) rid name fid c1 c2 hg.2 h2).trace⟩
  exact ⟨cs, b, cs', KeepRel.trans (KeepRel.trans p1 p2) p, hs, l⟩

section descent
variable (k : Nat)

theorem recK_preR :
    (∀ n, Keeps PreR ((mkRec k).value n)) ∧ (∀ n, Keeps PreR ((mkRec k).typ n)) ∧
    (∀ n, Keeps PreR ((mkRec k).statementList n)) ∧ (∀ n, Keeps PreR ((mkRec k).sourceFile n)) := by
  obtain ⟨a1, a2, a3, a4⟩ := mkRec_live k
  obtain ⟨b1, b2, b3, b4⟩ := mkRec_attr k
  exact ⟨fun n => keeps_preR (a1 n) (b1 n), fun n => keeps_preR (a2 n) (b2 n), fun n => keeps_preR (a3 n) (b3 n),
    fun n => keeps_preR (a4 n) (b4 n)⟩

/-- a field definition `T x = id;` (primitive `T`) executes the identifier site of its initialiser -/
theorem fieldDef_visits (n : PTree) (nameNode : PTree) (name : String) (se : Nat × Nat)
    (hnn : Ast.fieldDefName n = some nameNode) (hiv : Ast.identifierValue nameNode = some name)
    (hir : Ast.identifierRange nameNode = some se)
    (tn : PTree) (htn : Ast.fieldDefType n = some tn) (hprim : isPrimTypeNode tn = true) (ty : Ty)
    (hty : primTypeOf tn = some ty) (v : PTree) (hv : Ast.fieldDefValue n = some v) (id : PTree)
    (hidv : identValueNode v = some id) :
    Visits (indexFieldDef (mkRec (k + 1)) n) (indexIdentifierValue id) := by
  obtain ⟨pv, pt, psl, psf⟩ := recK_preR (k + 1)
  obtain ⟨lv, lt, lsl, lsf⟩ := mkRec_later (k + 1)
  unfold indexFieldDef
  refine Visits.bind_second (by pre_prim currentRecordId_keeps) fun x => ?_
  cases x with
  | none => exact Visits.of_fail (fun c a c' h => by cases h)
  | some rid =>
  simp only [hnn]
  refine Visits.bind_second' (fun a => ∃ f, a = some (name, ⟨f, se.1, se.2⟩))
    (by pre_prim (utilsIdentifier_keeps _)) (utilsIdentifier_some nameNode name se hiv hir) ?_
  rintro _ ⟨f, rfl⟩
  simp only [htn]
  refine Visits.bind_second' (fun a => a = some ty) (pt tn) ?_ ?_
  · intro c a c1 h
    have := indexType_prim (mkRec k) tn hprim c
    rw [hty] at this
    have h' : (indexType (mkRec k) tn).run c = .ok (a, c1) := h
    rw [this] at h'
    cases h'; rfl
  rintro _ rfl
  simp only
  refine Visits.declField _ rid name _ ?_
  simp only [hv]
  refine Visits.bind_first ?_ (fun a => by cases a <;> keeps)
  exact Visits.of_run_eq (fun c a c' h => ⟨a, by rw [← indexValue_ident (mkRec k) v id hidv c]; exact h⟩)

/-- `Keeps PreR` for a function of the pass -/
theorem preR_of_pass {α : Type} {m : IxM α}
    (h : ∀ (R : IndexCtx → IndexCtx → Prop) [CoreRel R] [VarRel R] [BlockRel R],
      (∀ n, Keeps R ((mkRec (k + 1)).value n)) → (∀ n, Keeps R ((mkRec (k + 1)).typ n)) →
      (∀ n, Keeps R ((mkRec (k + 1)).statementList n)) → (∀ n, Keeps R ((mkRec (k + 1)).sourceFile n)) → Keeps R m) :
    Keeps PreR m := by
  obtain ⟨b1, b2, b3, b4⟩ := mkRec_attr (k + 1)
  obtain ⟨g1, g2, g3, g4⟩ := mkRec_gid (k + 1)
  obtain ⟨c1, c2, c3, c4⟩ := mkRec_cont (k + 1)
  obtain ⟨d1, d2, d3, d4⟩ := mkRec_brel (T := 0) (Good := fun _ => True) (fun _ _ => trivial) (k + 1)
  haveI := BRel.varRel (T := 0) (Good := fun _ => True) (fun _ _ => trivial)
  haveI := BRel.blockRel (T := 0) (Good := fun _ => True) (fun _ _ => trivial)
  exact keeps_preR (keeps_live (h GidRel g1 g2 g3 g4) (h ContRel c1 c2 c3 c4) (h _ d1 d2 d3 d4)) (h AttrRel b1 b2 b3 b4)

/-- static description of a field definition whose initialiser is the identifier `id` -/
structure FieldUse (n id : PTree) : Prop where
  kind : n.kind = .FieldDef
  name : ∃ nameNode name se, Ast.fieldDefName n = some nameNode ∧ Ast.identifierValue nameNode = some name ∧
    Ast.identifierRange nameNode = some se
  typ : ∃ tn ty, Ast.fieldDefType n = some tn ∧ isPrimTypeNode tn = true ∧ primTypeOf tn = some ty
  value : ∃ v, Ast.fieldDefValue n = some v ∧ identValueNode v = some id

theorem fieldUse_visits (n id : PTree) (h : FieldUse n id) :
    Visits (indexFieldDef (mkRec (k + 1)) n) (indexIdentifierValue id) := by
  obtain ⟨nameNode, name, se, h1, h2, h3⟩ := h.name
  obtain ⟨tn, ty, h4, h5, h6⟩ := h.typ
  obtain ⟨v, h7, h8⟩ := h.value
  exact fieldDef_visits k n nameNode name se h1 h2 h3 tn h4 h5 ty h6 v h7 id h8

theorem bodyItem_preR (item : PTree) : Keeps PreR (indexBodyItem (mkRec (k + 1)) item) := by
  obtain ⟨a1, a2, a3, a4⟩ := mkRec_live (k + 1)
  obtain ⟨b1, b2, b3, b4⟩ := mkRec_attr (k + 1)
  obtain ⟨g1, g2, g3, g4⟩ := mkRec_gid (k + 1)
  obtain ⟨c1, c2, c3, c4⟩ := mkRec_cont (k + 1)
  obtain ⟨d1, d2, d3, d4⟩ := mkRec_brel (T := 0) (Good := fun _ => True) (fun _ _ => trivial) (k + 1)
  exact keeps_preR (keeps_live (Index.indexBodyItem_keeps g1 g2 item) (Index.indexBodyItem_keeps c1 c2 item)
    (haveI := BRel.varRel (T := 0) (Good := fun _ => True) (fun _ _ => trivial)
     Index.indexBodyItem_keeps d1 d2 item)) (Index.indexBodyItem_keeps b1 b2 item)

/-- the body of a record executes the identifier site of each such field definition -/
theorem body_visits (b : PTree) (ipre : List PTree) (item : PTree) (ipost : List PTree) (id : PTree)
    (hitems : Ast.bodyItems b = ipre ++ item :: ipost) (hu : FieldUse item id) :
    Visits (indexBody (mkRec (k + 1)) b) (indexIdentifierValue id) := by
  obtain ⟨lv, lt, lsl, lsf⟩ := mkRec_later (k + 1)
  unfold indexBody
  rw [hitems]
  refine Visits.bind_first ?_ (fun _ => Keeps.pure _)
  refine Visits.forIn_unit _ ipre item ipost ?_ ?_ ?_ ?_
  · intro x c st c1 h
    obtain ⟨_, _, _, j⟩ := IxM.run_bind_ok h
    simp only [StateT.run_pure] at j; cases j; rfl
  · intro y
    exact Keeps.bind (bodyItem_preR k y) fun _ => Keeps.pure _
  · intro y
    exact Keeps.bind (Index.indexBodyItem_keeps lv lt y) fun _ => Keeps.pure _
  · refine Visits.bind_first ?_ (fun _ => Keeps.pure _)
    unfold indexBodyItem
    simp only [hu.kind]
    exact fieldUse_visits k item id hu

/-- static description: the record body `rb` has a parent class list node and a body in which `item`
is a `FieldUse` of `id` -/
structure BodyUse (rb id : PTree) : Prop where
  parents : ∃ pcl, Ast.recordBodyParentClassList rb = some pcl
  body : ∃ b ipre item ipost, Ast.recordBodyBody rb = some b ∧ Ast.bodyItems b = ipre ++ item :: ipost ∧ FieldUse item id

theorem recordBody_visits (rb id : PTree) (hu : BodyUse rb id) :
    Visits (indexRecordBody (mkRec (k + 1)) rb) (indexIdentifierValue id) := by
  obtain ⟨pcl, hp⟩ := hu.parents
  obtain ⟨b, ipre, item, ipost, hb, hitems, hfu⟩ := hu.body
  unfold indexRecordBody
  simp only [hp, hb]
  refine Visits.bind_second (preR_of_pass k fun R _ _ _ hv ht hsl hsf => Index.indexParentClassList_keeps hv ht pcl) fun _ => ?_
  exact body_visits k b ipre item ipost id hitems hfu

theorem scopesPush_preR (kind : ScopeKind) (hk : ∀ nm id, kind ≠ ScopeKind.foreach nm id) : Keeps PreR (scopesPush kind) :=
  preR_of_pass 0 fun R _ _ _ _ _ _ _ => scopesPush_keeps kind hk

/-- static description of `class C { … T x = id; … }` -/
structure ClassUse (n id : PTree) : Prop where
  kind : n.kind = .Class
  name : ∃ nameNode name se, Ast.className n = some nameNode ∧ Ast.identifierValue nameNode = some name ∧
    Ast.identifierRange nameNode = some se
  body : ∃ rb, Ast.classRecordBody n = some rb ∧ BodyUse rb id

theorem class_visits (n id : PTree) (hu : ClassUse n id) :
    Visits (indexClass (mkRec (k + 1)) n) (indexIdentifierValue id) := by
  obtain ⟨nameNode, name, se, h1, h2, h3⟩ := hu.name
  obtain ⟨rb, hrb, hbu⟩ := hu.body
  obtain ⟨lv, lt, lsl, lsf⟩ := mkRec_later (k + 1)
  unfold indexClass
  simp only [h1, hrb]
  refine Visits.bind_second' (fun a => ∃ f, a = some (name, ⟨f, se.1, se.2⟩))
    (by pre_prim (utilsIdentifier_keeps _)) (utilsIdentifier_some nameNode name se h2 h3) ?_
  rintro _ ⟨f, rfl⟩
  simp only
  refine Visits.bind_second (by pre_prim (addRecord_keeps _ _ ⟨rfl, rfl⟩)) fun rid => ?_
  refine Visits.bind_second (scopesPush_preR _ (fun _ _ h => nomatch h)) fun _ => ?_
  have htail : Visits (do indexRecordBody (mkRec (k + 1)) rb; scopesPop) (indexIdentifierValue id) :=
    Visits.bind_first (recordBody_visits k rb id hbu) (fun _ => scopesPop_keeps)
  cases Ast.classTemplateArgList n with
  | none => exact htail
  | some list =>
    exact Visits.bind_second (preR_of_pass k fun R _ _ _ hv ht _ _ => Index.indexTemplateArgList_keeps hv ht list)
      fun _ => htail

/-- static description of the name of a `def`: anonymous, or one identifier -/
def DefNameOK (n : PTree) : Prop :=
  Ast.defName n = none ∨
  ∃ nameValue inner sv name se, Ast.defName n = some nameValue ∧ (Ast.valueInnerValues nameValue).head? = some inner ∧
    Ast.innerValueSimpleValue inner = some sv ∧ sv.kind = .Identifier ∧ Ast.identifierValue sv = some name ∧
    Ast.identifierRange sv = some se

/-- static description of `def d { … T x = id; … }` -/
structure DefUse (n id : PTree) : Prop where
  kind : n.kind = .Def
  name : DefNameOK n
  body : ∃ rb, Ast.defRecordBody n = some rb ∧ BodyUse rb id

theorem def_visits (n id : PTree) (hu : DefUse n id) :
    Visits (indexDef (mkRec (k + 1)) n) (indexIdentifierValue id) := by
  obtain ⟨rb, hrb, hbu⟩ := hu.body
  have htail : ∀ rid : Nat, Visits (do
      scopesPush (.record rid)
      indexRecordBody (mkRec (k + 1)) rb
      scopesPop : IxM Unit) (indexIdentifierValue id) := fun rid =>
    Visits.bind_second (scopesPush_preR _ (fun _ _ h => nomatch h)) fun _ =>
      Visits.bind_first (recordBody_visits k rb id hbu) (fun _ => scopesPop_keeps)
  unfold indexDef
  simp only [hrb]
  refine Visits.bind_second (by pre_prim (by unfold defDefset sameFileDefset; keeps)) fun ds => ?_
  rcases hu.name with hnone | ⟨nameValue, inner, sv, name, se, h1, h2, h3, h4, h5, h6⟩
  · simp only [hnone, pure_bind]
    refine Visits.bind_second (by pre_prim nextAnonymousDefName_keeps) fun nm => ?_
    refine Visits.bind_second (by pre_prim currentFileId_keeps) fun f => ?_
    refine Visits.bind_second (by pre_prim (addAnonymousDef_keeps _ ⟨rfl, rfl⟩)) fun rid => ?_
    exact htail rid
  · simp only [h1]
    refine Visits.bind_second' (fun a => ∃ f, a = some (name, ⟨f, se.1, se.2⟩))
      (by pre_prim (by unfold indexNameValue; keeps)) ?_ ?_
    · intro c a c1 h
      unfold indexNameValue at h
      simp only [h2, h3, h4, beq_self_eq_true, if_true] at h
      exact utilsIdentifier_some sv name se h5 h6 c a c1 h
    rintro _ ⟨f, rfl⟩
    simp only
    refine Visits.bind_second (by pre_prim currentMulticlassId_keeps) fun m => ?_
    split
    · refine Visits.bind_second (by pre_prim (addMulticlassDef_keeps _ ⟨rfl, rfl⟩)) fun rid => ?_
      cases ds with
      | none => exact htail rid
      | some dsid => exact Visits.bind_second (by pre_prim (defsetMut_keeps _ _ (fun _ => ⟨rfl, rfl⟩))) fun _ => htail rid
    · refine Visits.bind_second (by pre_prim (addRecord_keeps _ _ ⟨rfl, rfl⟩)) fun rid => ?_
      cases ds with
      | none => exact htail rid
      | some dsid => exact Visits.bind_second (by pre_prim (defsetMut_keeps _ _ (fun _ => ⟨rfl, rfl⟩))) fun _ => htail rid

theorem statement_visits (s id : PTree) (hu : ClassUse s id ∨ DefUse s id) :
    Visits (indexStatement (mkRec (k + 1)) s) (indexIdentifierValue id) := by
  unfold indexStatement
  rcases hu with hu | hu
  · simp only [hu.kind]; exact class_visits k s id hu
  · simp only [hu.kind]; exact def_visits k s id hu

theorem statementList_visits (sl : PTree) (spre : List PTree) (s : PTree) (spost : List PTree) (id : PTree)
    (hsplit : Ast.statementListStatements sl = spre ++ s :: spost) (hu : ClassUse s id ∨ DefUse s id) :
    Visits (indexStatementList (mkRec (k + 1)) sl) (indexIdentifierValue id) := by
  obtain ⟨lv, lt, lsl, lsf⟩ := mkRec_later (k + 1)
  unfold indexStatementList
  rw [hsplit]
  refine Visits.bind_first ?_ (fun _ => Keeps.pure _)
  refine Visits.forIn_unit _ spre s spost ?_ ?_ ?_ ?_
  · intro x c st c1 h
    obtain ⟨_, _, _, j⟩ := IxM.run_bind_ok h
    simp only [StateT.run_pure] at j; cases j; rfl
  · intro y
    exact Keeps.bind (preR_of_pass k fun R _ _ _ hv ht hsl hsf => Index.indexStatement_keeps hv ht hsl hsf y)
      fun _ => Keeps.pure _
  · intro y
    exact Keeps.bind (Index.indexStatement_keeps lv lt lsl lsf y) fun _ => Keeps.pure _
  · exact Visits.bind_first (statement_visits k s id hu) (fun _ => Keeps.pure _)

end descent


/-! ### an executable form of the static conditions -/

theorem split_of_getElem? {α : Type} (l : List α) (i : Nat) (x : α) (h : l[i]? = some x) :
    ∃ pre post, l = pre ++ x :: post := by
  induction l generalizing i with
  | nil => simp at h
  | cons y t ih =>
    cases i with
    | zero => simp at h; subst h; exact ⟨[], t, rfl⟩
    | succ i =>
      simp only [List.getElem?_cons_succ] at h
      obtain ⟨pre, post, rfl⟩ := ih i h
      exact ⟨y :: pre, post, rfl⟩

def identOKB (n : PTree) : Bool := (Ast.identifierValue n).isSome && (Ast.identifierRange n).isSome

theorem identOKB_sound {n : PTree} (h : identOKB n = true) :
    ∃ name se, Ast.identifierValue n = some name ∧ Ast.identifierRange n = some se := by
  unfold identOKB at h
  simp only [Bool.and_eq_true, Option.isSome_iff_exists] at h
  obtain ⟨⟨a, ha⟩, ⟨b, hb⟩⟩ := h
  exact ⟨a, b, ha, hb⟩

/-- the identifier that the initialiser of the field definition `n` consists of -/
def fieldUseId (n : PTree) : Option PTree :=
  if n.kind == .FieldDef then
    match Ast.fieldDefName n, Ast.fieldDefType n, Ast.fieldDefValue n with
    | some nameNode, some tn, some v =>
      if identOKB nameNode && isPrimTypeNode tn && (primTypeOf tn).isSome then identValueNode v else none
    | _, _, _ => none
  else none

theorem fieldUseId_sound {n id : PTree} (h : fieldUseId n = some id) : FieldUse n id := by
  unfold fieldUseId at h
  split at h
  · rename_i hk
    split at h
    · rename_i nameNode tn v h1 h2 h3
      split at h
      · rename_i hc
        simp only [Bool.and_eq_true, Option.isSome_iff_exists] at hc
        obtain ⟨⟨hn, hp⟩, ty, hty⟩ := hc
        obtain ⟨name, se, a, b⟩ := identOKB_sound hn
        exact ⟨by simpa using hk, ⟨nameNode, name, se, h1, a, b⟩, ⟨tn, ty, h2, hp, hty⟩, ⟨v, h3, h⟩⟩
      · cases h
    · cases h
  · cases h

/-- … of the `i`-th body item of the record body `rb` -/
def bodyUseId (rb : PTree) (i : Nat) : Option PTree :=
  if (Ast.recordBodyParentClassList rb).isSome then
    match Ast.recordBodyBody rb with
    | some b => (Ast.bodyItems b)[i]?.bind fieldUseId
    | none => none
  else none

theorem bodyUseId_sound {rb id : PTree} {i : Nat} (h : bodyUseId rb i = some id) : BodyUse rb id := by
  unfold bodyUseId at h
  split at h
  · rename_i hp
    split at h
    · rename_i b hb
      cases hi : (Ast.bodyItems b)[i]? with
      | none => rw [hi] at h; cases h
      | some item =>
        rw [hi] at h
        obtain ⟨pre, post, hsp⟩ := split_of_getElem? _ _ _ hi
        exact ⟨Option.isSome_iff_exists.1 hp, b, pre, item, post, hb, hsp, fieldUseId_sound h⟩
    · cases h
  · cases h

def defNameOKB (n : PTree) : Bool :=
  match Ast.defName n with
  | none => true
  | some nameValue =>
    match (Ast.valueInnerValues nameValue).head? with
    | some inner =>
      match Ast.innerValueSimpleValue inner with
      | some sv => sv.kind == .Identifier && identOKB sv
      | none => false
    | none => false

theorem defNameOKB_sound {n : PTree} (h : defNameOKB n = true) : DefNameOK n := by
  unfold defNameOKB at h
  split at h
  · rename_i hn; exact Or.inl hn
  · rename_i nameValue hn
    split at h
    · rename_i inner hi
      split at h
      · rename_i sv hs
        simp only [Bool.and_eq_true, beq_iff_eq] at h
        obtain ⟨name, se, a, b⟩ := identOKB_sound h.2
        exact Or.inr ⟨nameValue, inner, sv, name, se, hn, hi, hs, h.1, a, b⟩
      · cases h
    · cases h

/-- … in the body of the `class` / `def` statement `s` -/
def stmtUseId (s : PTree) (i : Nat) : Option PTree :=
  if s.kind == .Class then
    match Ast.className s with
    | some nameNode => if identOKB nameNode then (Ast.classRecordBody s).bind (bodyUseId · i) else none
    | none => none
  else if s.kind == .Def then
    if defNameOKB s then (Ast.defRecordBody s).bind (bodyUseId · i) else none
  else none

theorem stmtUseId_sound {s id : PTree} {i : Nat} (h : stmtUseId s i = some id) : ClassUse s id ∨ DefUse s id := by
  unfold stmtUseId at h
  split at h
  · rename_i hk
    left
    split at h
    · rename_i nameNode hn
      split at h
      · rename_i hok
        obtain ⟨name, se, a, b⟩ := identOKB_sound hok
        cases hrb : Ast.classRecordBody s with
        | none => rw [hrb] at h; cases h
        | some rb =>
          rw [hrb] at h
          exact ⟨by simpa using hk, ⟨nameNode, name, se, hn, a, b⟩, rb, hrb, bodyUseId_sound h⟩
      · cases h
    · cases h
  · split at h
    · rename_i hk
      right
      split at h
      · rename_i hok
        cases hrb : Ast.defRecordBody s with
        | none => rw [hrb] at h; cases h
        | some rb =>
          rw [hrb] at h
          exact ⟨by simpa using hk, defNameOKB_sound hok, rb, hrb, bodyUseId_sound h⟩
      · cases h
    · cases h

end Ide
end Tg
