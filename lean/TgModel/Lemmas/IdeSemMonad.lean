/-
Run lemmas for the two monads of the IDE model: `Except String` (handlers) and
`IxM = StateT IndexCtx (Except String)` (indexer), plus a small Hoare-style layer
(`IxM.Post`: partial-correctness triples over successful runs).
-/
import TgModel.Ide.Handlers

namespace Tg
namespace Ide

/-! ### `Except` -/

/-- a `for` loop over a list in `Except` that appends a per-element result to the accumulator is
`mapM` followed by `flatten` -/
theorem forIn_acc_ok {α β ε : Type} (g : α → Except ε (List β))
    (body : α → List β → Except ε (ForInStep (List β)))
    (hbody : ∀ x s, body x s = match g x with | .error e => .error e | .ok h => .ok (.yield (s ++ h)))
    (l : List α) (init : List β) :
    forIn l init body =
      (match l.mapM g with | .error e => .error e | .ok hs => .ok (init ++ hs.flatten)) := by
  induction l generalizing init with
  | nil => simp [pure, Except.pure]
  | cons x t ih =>
    simp only [List.forIn_cons, List.mapM_cons, bind, Except.bind, hbody]
    cases hg : g x with
    | error e => simp
    | ok h =>
      simp only [ih]
      cases List.mapM g t with
      | error e => simp
      | ok hs => simp [pure, Except.pure]

/-- `mapM` in `Except` succeeds iff every element succeeds; the results are in the same order -/
theorem mapM_ok_iff {α β ε : Type} (g : α → Except ε β) (l : List α) (rs : List β) :
    l.mapM g = .ok rs ↔ rs.length = l.length ∧ ∀ k (hk : k < l.length), ∃ r, rs[k]? = some r ∧ g l[k] = .ok r := by
  induction l generalizing rs with
  | nil =>
    simp only [List.mapM_nil, pure, Except.pure, Except.ok.injEq, List.length_nil]
    constructor
    · rintro rfl; exact ⟨rfl, fun k hk => absurd hk (Nat.not_lt_zero k)⟩
    · rintro ⟨h, _⟩; exact (List.length_eq_zero_iff.mp h).symm
  | cons x t ih =>
    simp only [List.mapM_cons, bind, Except.bind]
    cases hg : g x with
    | error e =>
      simp only [reduceCtorEq, List.length_cons, false_iff, not_and]
      intro _ h
      obtain ⟨r, _, hr⟩ := h 0 (by omega)
      simp [hg] at hr
    | ok r =>
      cases ht : List.mapM g t with
      | error e =>
        simp only [reduceCtorEq, List.length_cons, false_iff, not_and]
        intro hl h
        cases rs with
        | nil => simp at hl
        | cons r' rs' =>
          have := (ih rs').2 ⟨by simpa using hl, fun k hk => by
            obtain ⟨q, hq1, hq2⟩ := h (k + 1) (by omega)
            exact ⟨q, by simpa using hq1, by simpa using hq2⟩⟩
          simp [ht] at this
      | ok rs' =>
        simp only [pure, Except.pure, Except.ok.injEq, List.length_cons]
        constructor
        · rintro rfl
          obtain ⟨h1, h2⟩ := (ih rs').1 ht
          refine ⟨by simp [h1], fun k hk => ?_⟩
          cases k with
          | zero => exact ⟨r, by simp, by simpa using hg⟩
          | succ k =>
            obtain ⟨q, hq1, hq2⟩ := h2 k (by simpa using hk)
            exact ⟨q, by simpa using hq1, by simpa using hq2⟩
        · rintro ⟨hl, h⟩
          cases rs with
          | nil => simp at hl
          | cons r' rs'' =>
            obtain ⟨q, hq1, hq2⟩ := h 0 (by omega)
            simp only [List.getElem?_cons_zero, Option.some.injEq, List.getElem_cons_zero] at hq1 hq2
            rw [hg] at hq2
            cases hq2
            subst hq1
            have := (ih rs'').2 ⟨by simpa using hl, fun k hk => by
              obtain ⟨q, hq1, hq2⟩ := h (k + 1) (by omega)
              exact ⟨q, by simpa using hq1, by simpa using hq2⟩⟩
            rw [ht] at this
            cases this
            rfl

/-! ### `IxM`: relations kept by every successful run -/

/-- reflexive, transitive relations between the indexer state before and after a computation -/
class KeepRel (R : IndexCtx → IndexCtx → Prop) : Prop where
  refl : ∀ c, R c c
  trans : ∀ {a b c}, R a b → R b c → R a c

/-- every successful run of `m` relates the initial and the final state by `R` -/
structure Keeps {α : Type} (R : IndexCtx → IndexCtx → Prop) (m : IxM α) : Prop where
  run : ∀ c a c', m.run c = .ok (a, c') → R c c'

namespace Keeps
variable {R : IndexCtx → IndexCtx → Prop} [KeepRel R] {α β : Type}

theorem pure (a : α) : Keeps R (Pure.pure a : IxM α) := by
  refine ⟨fun c a' c' h => ?_⟩
  simp only [StateT.run_pure] at h
  cases h; exact KeepRel.refl c

theorem bind {m : IxM α} {f : α → IxM β} (hm : Keeps R m) (hf : ∀ a, Keeps R (f a)) :
    Keeps R (m >>= f) := by
  refine ⟨fun c b c' h => ?_⟩
  simp only [StateT.run_bind] at h
  simp only [Bind.bind, Except.bind] at h
  split at h
  · cases h
  · rename_i v hv
    exact KeepRel.trans (hm.run c v.1 v.2 hv) ((hf v.1).run v.2 b c' h)

omit [KeepRel R] in
theorem throw (e : String) : Keeps R (throw e : IxM α) := by
  refine ⟨fun c a c' h => ?_⟩
  cases h

theorem get : Keeps R (MonadState.get : IxM IndexCtx) := by
  refine ⟨fun c a c' h => ?_⟩
  cases h
  exact KeepRel.refl c

theorem forIn {γ : Type} (l : List γ) (init : β) (body : γ → β → IxM (ForInStep β))
    (hb : ∀ x s, Keeps R (body x s)) : Keeps R (forIn l init body) := by
  induction l generalizing init with
  | nil => exact pure init
  | cons x t ih =>
    rw [List.forIn_cons]
    refine bind (hb x init) ?_
    intro r
    cases r with
    | done b => exact pure b
    | yield b => exact ih b

theorem mapM {γ : Type} (l : List γ) (f : γ → IxM β) (hf : ∀ x, Keeps R (f x)) : Keeps R (l.mapM f) := by
  induction l with
  | nil => rw [List.mapM_nil]; exact pure _
  | cons x t ih =>
    rw [List.mapM_cons]
    exact bind (hf x) fun a => bind ih fun b => pure _

omit [KeepRel R] in
theorem mono {R' : IndexCtx → IndexCtx → Prop} (h : ∀ c c', R' c c' → R c c') {m : IxM α}
    (hm : Keeps R' m) : Keeps R m := ⟨fun c a c' hr => h _ _ (hm.run c a c' hr)⟩

end Keeps

theorem Keeps.modifyGet {R : IndexCtx → IndexCtx → Prop} {α : Type} (f : IndexCtx → α × IndexCtx)
    (h : ∀ c, R c (f c).2) : Keeps R (MonadStateOf.modifyGet f : IxM α) := by
  refine ⟨fun c a c' hr => ?_⟩
  have : f c = (a, c') := by
    simpa [StateT.run, MonadStateOf.modifyGet, StateT.modifyGet, Pure.pure, Except.pure] using hr
  have h2 := h c
  rw [this] at h2
  exact h2

theorem Keeps.modify {R : IndexCtx → IndexCtx → Prop} (f : IndexCtx → IndexCtx)
    (h : ∀ c, R c (f c)) : Keeps R (modify f : IxM Unit) := by
  refine ⟨fun c a c' hr => ?_⟩
  cases hr
  exact h c

theorem IxM.run_bind_ok {α β : Type} {m : IxM α} {f : α → IxM β} {c c' : IndexCtx} {b : β}
    (h : (m >>= f).run c = .ok (b, c')) : ∃ a c1, m.run c = .ok (a, c1) ∧ (f a).run c1 = .ok (b, c') := by
  simp only [StateT.run_bind] at h
  simp only [Bind.bind, Except.bind] at h
  split at h
  · cases h
  · rename_i v hv
    exact ⟨v.1, v.2, hv, h⟩

/-- extensible: closes goals `Keeps R (primitive ..)` -/
syntax "keeps_prim" : tactic
macro_rules | `(tactic| keeps_prim) => `(tactic| fail "no primitive lemma")

/-- one step of the syntax-directed decomposition -/
syntax "keeps_step" : tactic
macro_rules | `(tactic| keeps_step) => `(tactic| first
  | with_reducible exact Keeps.pure _
  | with_reducible exact Keeps.throw _
  | with_reducible exact Keeps.get
  | with_reducible (apply Keeps.bind)
  | with_reducible (apply Keeps.forIn)
  | with_reducible (apply Keeps.mapM)
  | with_reducible assumption
  | with_reducible keeps_prim
  | (intro _)
  | split
  | (dsimp only)
  | with_reducible (apply_assumption)
  )

macro "keeps" : tactic => `(tactic| repeat' keeps_step)


end Ide
end Tg
