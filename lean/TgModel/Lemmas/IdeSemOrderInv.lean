/-
Source order of the outline, part 2: the positional invariant (`OInv`, `PAt`) and its triples.
-/
import TgModel.Lemmas.IdeSemNeutral
import TgModel.Lemmas.IdeSemRun
namespace Tg
namespace Ide
open Handlers (symbolDefineLoc)

/-! ### the relation of the neutral functions -/

/-- workspace, file trace and indexed files are unchanged, and so is the outline of every file -/
def NRel (c c' : IndexCtx) : Prop :=
  c'.ws = c.ws ∧ c'.fileTrace = c.fileTrace ∧ c'.indexedFiles = c.indexedFiles ∧
  (ListValid c.symbolMap → ListValid c'.symbolMap ∧ ∀ f, olocs c'.symbolMap f = olocs c.symbolMap f)

instance : NeutRel NRel where
  refl := fun _ => ⟨rfl, rfl, rfl, fun h => ⟨h, fun _ => rfl⟩⟩
  trans := fun h1 h2 => ⟨h2.1.trans h1.1, h2.2.1.trans h1.2.1, h2.2.2.1.trans h1.2.2.1, fun hv => by
    obtain ⟨v1, o1⟩ := h1.2.2.2 hv
    obtain ⟨v2, o2⟩ := h2.2.2.2 v1
    exact ⟨v2, fun f => (o2 f).trans (o1 f)⟩⟩
  of_eq := fun c c' h1 h2 h3 h4 => ⟨h1, h2, h3, fun hv => by rw [h4]; exact ⟨hv, fun _ => rfl⟩⟩
  smN := fun c sm' hs => ⟨rfl, rfl, rfl, fun hv => hs.olocs hv⟩

/-! ### the positional invariant -/

/-- consecutive outline symbols: each one's declaring identifier ends before the next one's starts -/
def SortedLocs (l : List FileRange) : Prop := l.Pairwise fun a b => a.stop ≤ b.start

def LocsBelow (l : List FileRange) (p : Nat) : Prop := ∀ x ∈ l, x.stop ≤ p

theorem LocsBelow.mono {l : List FileRange} {p q : Nat} (h : LocsBelow l p) (hpq : p ≤ q) : LocsBelow l q :=
  fun x hx => Nat.le_trans (h x hx) hpq

theorem SortedLocs.snoc {l : List FileRange} {p : Nat} (hs : SortedLocs l) (hb : LocsBelow l p) (x : FileRange)
    (hx : p ≤ x.start) : SortedLocs (l ++ [x]) := by
  unfold SortedLocs
  rw [List.pairwise_append]
  refine ⟨hs, by simp, fun a ha b hb' => ?_⟩
  simp at hb'
  subst hb'
  exact Nat.le_trans (hb a ha) hx

theorem LocsBelow.snoc {l : List FileRange} {p : Nat} (hb : LocsBelow l p) (x : FileRange) (h1 : p ≤ x.start)
    (h2 : x.start ≤ x.stop) : LocsBelow (l ++ [x]) x.stop := by
  intro y hy
  rcases List.mem_append.1 hy with hy | hy
  · have := hb y hy; omega
  · simp at hy; subst hy; exact Nat.le_refl _

structure OInv (c : IndexCtx) : Prop where
  valid : ListValid c.symbolMap
  sorted : ∀ f, SortedLocs (olocs c.symbolMap f)
  fresh : ∀ f, f ∉ c.indexedFiles → olocs c.symbolMap f = []
  trace : ∀ f ∈ c.fileTrace, f ∈ c.indexedFiles

/-- in workspace `ws0`, indexing file `f` (included through `rest`), all outline symbols of `f`
registered so far end at or before offset `p`; relative to the state `c0` where the current function
started: no file has been un-indexed and the other indexed files' outlines are untouched -/
structure PAt (ws0 : Workspace) (c0 : IndexCtx) (f : Nat) (rest : List Nat) (p : Nat) (c : IndexCtx) : Prop where
  ws : c.ws = ws0
  trace : c.fileTrace = f :: rest
  inv : OInv c
  below : LocsBelow (olocs c.symbolMap f) p
  indexed : ∀ g ∈ c0.indexedFiles, g ∈ c.indexedFiles
  frame : ∀ g ∈ c0.indexedFiles, g ≠ f → olocs c.symbolMap g = olocs c0.symbolMap g

variable {ws0 : Workspace} {c0 : IndexCtx} {f : Nat} {rest : List Nat}

theorem PAt.mono {p q : Nat} {c : IndexCtx} (h : PAt ws0 c0 f rest p c) (hpq : p ≤ q) : PAt ws0 c0 f rest q c :=
  ⟨h.ws, h.trace, h.inv, h.below.mono hpq, h.indexed, h.frame⟩

theorem Triple.mono_pre {α : Type} {P P' Q : IndexCtx → Prop} {m : IxM α} (h : Triple P m Q)
    (hp : ∀ c, P' c → P c) : Triple P' m Q := ⟨fun c a c' hc hr => h.run c a c' (hp c hc) hr⟩

theorem Triple.mono_post {α : Type} {P Q Q' : IndexCtx → Prop} {m : IxM α} (h : Triple P m Q)
    (hq : ∀ c, Q c → Q' c) : Triple P m Q' := ⟨fun c a c' hc hr => hq c' (h.run c a c' hc hr)⟩

/-- neutral functions do not move the position -/
theorem PAt.neutral {α : Type} {m : IxM α} (h : Keeps NRel m) (p : Nat) :
    Triple (PAt ws0 c0 f rest p) m (PAt ws0 c0 f rest p) :=
  Triple.of_keeps h fun c c' hp hr => by
    obtain ⟨h1, h2, h3, h4⟩ := hr
    obtain ⟨v, ho⟩ := h4 hp.inv.valid
    refine ⟨h1.trans hp.ws, h2.trans hp.trace, ⟨v, fun g => by rw [ho g]; exact hp.inv.sorted g,
      fun g hg => by rw [ho g]; exact hp.inv.fresh g (by rw [← h3]; exact hg),
      fun g hg => by rw [h3]; exact hp.inv.trace g (by rw [← h2]; exact hg)⟩, by rw [ho f]; exact hp.below,
      fun g hg => by rw [h3]; exact hp.indexed g hg, fun g hg hne => by rw [ho g]; exact hp.frame g hg hne⟩

/-- a triple whose postcondition sees the result -/
structure TripleR {α : Type} (P : IndexCtx → Prop) (m : IxM α) (Q : α → IndexCtx → Prop) : Prop where
  run : ∀ c a c', P c → m.run c = .ok (a, c') → Q a c'

theorem TripleR.bind {α β : Type} {P S : IndexCtx → Prop} {Q : α → IndexCtx → Prop} {m : IxM α}
    {f : α → IxM β} (hm : TripleR P m Q) (hf : ∀ a, Triple (Q a) (f a) S) : Triple P (m >>= f) S := by
  refine ⟨fun c b c' hp h => ?_⟩
  obtain ⟨a, c1, h1, h2⟩ := IxM.run_bind_ok h
  exact (hf a).run c1 b c' (hm.run c a c1 hp h1) h2

theorem Triple.toR {α : Type} {P Q : IndexCtx → Prop} {m : IxM α} (h : Triple P m Q) :
    TripleR P m (fun _ c => Q c) := ⟨fun c a c' hp hr => h.run c a c' hp hr⟩

/-- a fact that the precondition implies may be used -/
theorem Triple.pre_fact {α : Type} {P Q : IndexCtx → Prop} {φ : Prop} {m : IxM α}
    (h : φ → Triple P m Q) : Triple (fun c => P c ∧ φ) m Q :=
  ⟨fun c a c' hp hr => (h hp.2).run c a c' hp.1 hr⟩

variable {ws0 : Workspace} {c0 : IndexCtx} {f : Nat} {rest : List Nat}

theorem utilsIdentifier_inv (nm : PTree) (c c' : IndexCtx) (a : Option (String × FileRange))
    (h : (utilsIdentifier nm).run c = .ok (a, c')) (hft : c.fileTrace = f :: rest) :
    c' = c ∧ ∀ name loc, a = some (name, loc) →
      loc.file = f ∧ Ast.identifierRange nm = some (loc.start, loc.stop) := by
  unfold utilsIdentifier at h
  split at h
  · rename_i name _
    simp only [StateT.run_bind, currentFileId_run c f rest hft, Except.ok_bind] at h
    split at h
    · rename_i s e hr
      simp only [StateT.run_pure] at h
      cases h
      refine ⟨rfl, fun name' loc hx => ?_⟩
      cases hx
      exact ⟨rfl, hr⟩
    · simp only [StateT.run_pure] at h
      cases h
      exact ⟨rfl, fun _ _ hx => by cases hx⟩
  · simp only [StateT.run_pure] at h
    cases h
    exact ⟨rfl, fun _ _ hx => by cases hx⟩

theorem oUtilsIdentifier_spec (nm : PTree) (p : Nat) :
    TripleR (PAt ws0 c0 f rest p) (utilsIdentifier nm)
      (fun a c => PAt ws0 c0 f rest p c ∧ ∀ name loc, a = some (name, loc) →
        loc.file = f ∧ Ast.identifierRange nm = some (loc.start, loc.stop)) :=
  ⟨fun c a c' hp h => by
    obtain ⟨rfl, h2⟩ := utilsIdentifier_inv nm c c' a h hp.trace
    exact ⟨hp, h2⟩⟩

/-- registering an outline symbol at `loc` (in the current file, at or after the position) moves the
position to the end of `loc` -/
theorem PAt.push_loc {p : Nat} {c c' : IndexCtx} (hp : PAt ws0 c0 f rest p c) (loc : FileRange)
    (hws : c'.ws = c.ws) (htr : c'.fileTrace = c.fileTrace) (hix : c'.indexedFiles = c.indexedFiles)
    (hv : ListValid c'.symbolMap)
    (ho : ∀ g, olocs c'.symbolMap g = olocs c.symbolMap g ++ (if g = loc.file then [loc] else []))
    (hf : loc.file = f) (h1 : p ≤ loc.start) (h2 : loc.start ≤ loc.stop) :
    PAt ws0 c0 f rest loc.stop c' := by
  have hfi : f ∈ c.indexedFiles := hp.inv.trace f (by rw [hp.trace]; exact List.mem_cons_self)
  refine ⟨hws.trans hp.ws, htr.trans hp.trace, ⟨hv, fun g => ?_, fun g hg => ?_, fun g hg => ?_⟩, ?_,
    fun g hg => by rw [hix]; exact hp.indexed g hg, fun g hg hne => ?_⟩
  · rw [ho g]
    split
    · rename_i hgf
      have : g = f := hgf.trans hf
      subst this
      exact (hp.inv.sorted g).snoc hp.below loc h1
    · simpa using hp.inv.sorted g
  · rw [ho g]
    have hne : g ≠ loc.file := by
      intro he; rw [hix] at hg; rw [he, hf] at hg; exact hg hfi
    simp only [hne, if_false, List.append_nil]
    exact hp.inv.fresh g (by rw [← hix]; exact hg)
  · rw [hix]; exact hp.inv.trace g (by rw [← htr]; exact hg)
  · rw [ho f]
    simp only [hf, if_true]
    exact hp.below.snoc loc h1 h2
  · rw [ho g]
    have : g ≠ loc.file := by rw [hf]; exact hne
    simp only [this, if_false, List.append_nil]
    exact hp.frame g hg hne

theorem oModifySM_run {α : Type} (g : SymMap → α × SymMap) (c : IndexCtx) :
    (modifySM g).run c = .ok ((g c.symbolMap).1, { c with symbolMap := (g c.symbolMap).2 }) := rfl

theorem PAt.step_addRecord_global {p : Nat} (r : Record) (hf : r.defineLoc.file = f) (h1 : p ≤ r.defineLoc.start)
    (h2 : r.defineLoc.start ≤ r.defineLoc.stop) :
    Triple (PAt ws0 c0 f rest p) (addRecord r true) (PAt ws0 c0 f rest r.defineLoc.stop) :=
  ⟨fun c a c' hp h => by
    unfold addRecord at h
    rw [oModifySM_run] at h
    cases h
    obtain ⟨v, ho⟩ := olocs_addRecord_global hp.inv.valid r
    exact hp.push_loc r.defineLoc rfl rfl rfl v ho hf h1 h2⟩

theorem PAt.step_addMulticlassDef {p : Nat} (r : Record) (hf : r.defineLoc.file = f) (h1 : p ≤ r.defineLoc.start)
    (h2 : r.defineLoc.start ≤ r.defineLoc.stop) :
    Triple (PAt ws0 c0 f rest p) (addMulticlassDef r) (PAt ws0 c0 f rest r.defineLoc.stop) :=
  ⟨fun c a c' hp h => by
    unfold addMulticlassDef at h
    rw [oModifySM_run] at h
    cases h
    obtain ⟨v, ho⟩ := olocs_addMulticlassDef hp.inv.valid r
    exact hp.push_loc r.defineLoc rfl rfl rfl v ho hf h1 h2⟩

theorem PAt.step_addDefset {p : Nat} (d : Defset) (hf : d.defineLoc.file = f) (h1 : p ≤ d.defineLoc.start)
    (h2 : d.defineLoc.start ≤ d.defineLoc.stop) :
    Triple (PAt ws0 c0 f rest p) (addDefset d) (PAt ws0 c0 f rest d.defineLoc.stop) :=
  ⟨fun c a c' hp h => by
    unfold addDefset at h
    rw [oModifySM_run] at h
    cases h
    obtain ⟨v, ho⟩ := olocs_addDefset hp.inv.valid d
    exact hp.push_loc d.defineLoc rfl rfl rfl v ho hf h1 h2⟩

theorem PAt.step_addMulticlass {p : Nat} (m : Multiclass) (hf : m.defineLoc.file = f) (h1 : p ≤ m.defineLoc.start)
    (h2 : m.defineLoc.start ≤ m.defineLoc.stop) :
    Triple (PAt ws0 c0 f rest p) (addMulticlass m) (PAt ws0 c0 f rest m.defineLoc.stop) :=
  ⟨fun c a c' hp h => by
    unfold addMulticlass at h
    rw [oModifySM_run] at h
    cases h
    obtain ⟨v, ho⟩ := olocs_addMulticlass hp.inv.valid m
    exact hp.push_loc m.defineLoc rfl rfl rfl v ho hf h1 h2⟩


/-! ### offsets of what the accessors return -/

theorem PTree.WF.mem_child {n c : PTree} (h : n.WF) (hc : c ∈ n.children.toList) :
    c.WF ∧ n.start ≤ c.start ∧ c.stop ≤ n.stop := by
  obtain ⟨i, hi, rfl⟩ := List.getElem_of_mem hc
  have hget : n.children[i]? = some n.children.toList[i] := by
    rw [← Array.getElem?_toList]; exact List.getElem?_eq_getElem hi
  have hnode := PTree.isNode_of_children hget
  have hb := (h.tiles hnode).bounds h.children_le hc
  exact ⟨(h.child hget).1, hb.1, hb.2⟩

theorem Ast.child_bounds {n c : PTree} {p : SyntaxKind → Bool} (h : n.WF) (hc : Ast.child n p = some c) :
    c.WF ∧ n.start ≤ c.start ∧ c.stop ≤ n.stop := h.mem_child (Ast.child_mem hc)

/-- children selected by the same accessor are in offset order -/
theorem Ast.children_ordered {n : PTree} (p : SyntaxKind → Bool) (h : n.WF) :
    (Ast.children n p).Pairwise fun a b => a.stop ≤ b.start := by
  unfold Ast.children
  rw [Array.toList_filter]
  by_cases hn : n.isNode = true
  · have ht := h.tiles hn
    have hle := h.children_le
    have : n.children.toList.Pairwise fun a b => a.stop ≤ b.start := by
      rw [List.pairwise_iff_getElem]
      intro i j hi hj hij
      exact ht.ordered hle hij (List.getElem?_eq_getElem hi) (List.getElem?_eq_getElem hj)
    exact this.sublist List.filter_sublist
  · cases n with
    | token => simp [PTree.children]
    | node => simp [PTree.isNode] at hn

theorem identifierRange_bounds {nm : PTree} {s e : Nat} (h : nm.WF) (hr : Ast.identifierRange nm = some (s, e)) :
    s = nm.start ∧ s ≤ e ∧ e ≤ nm.stop := by
  unfold Ast.identifierRange PTree.firstToken at hr
  cases hf : (Cursor.root nm).firstToken with
  | none => rw [hf] at hr; cases hr
  | some t =>
    rw [hf] at hr
    simp only [Option.map_some, Option.some.injEq, Prod.mk.injEq] at hr
    obtain ⟨rfl, rfl⟩ := hr
    have hroot := Cursor.SOK.root h
    obtain ⟨tok, _, hstart⟩ := hroot.firstToken hf
    obtain ⟨restt, hflat⟩ := Cursor.firstToken_flat hf
    have hd := (mem_tokens (c := Cursor.root nm) (d := t) (by rw [hflat]; exact List.mem_cons_self)).1
    have hb := hd.bounds hroot
    exact ⟨hstart, tok.wf.le, hb.2⟩


end Ide
end Tg
