/-
More sites that the indexer provably visits (`Visits`, `IdeSemVisits.lean`), for EVERY amount of fuel of
`mkRec` (with no fuel left the functions fail, and a failing run visits everything):

* identifier initialisers of field definitions `T x = id;` (as before),
* identifier values of `defvar x = id;` and `dump id;` - as statements and as items of a body,
* identifier values of `let x = id;` items of a body (`FieldLetUse`), whether or not the field exists,
* all of these inside the body of a `foreach` statement (to any depth).

`StmtUse s id`: static conditions on the statement `s` that make sure the identifier site `id` is
reached; `stmtUseAt s path`: an executable finder with `stmtUseAt_sound`.
-/
import TgModel.Lemmas.IdeSemVisits
namespace Tg
namespace Ide
open Index

namespace Ix10


/-! ### the head of a `foreach` -/

theorem hT0 : ∀ v, 0 ≤ v → (fun _ : Nat => True) v := fun _ _ => trivial

/-- the state after the iterator of a `foreach` has been indexed and its scope pushed -/
theorem foreachHead_live {r : Rec}
    (gv : ∀ n, Keeps GidRel (r.value n)) (gt : ∀ n, Keeps GidRel (r.typ n))
    (cv : ∀ n, Keeps ContRel (r.value n)) (ct : ∀ n, Keeps ContRel (r.typ n))
    (bv : ∀ n, Keeps (BRel 0 (fun _ => True)) (r.value n)) (bt : ∀ n, Keeps (BRel 0 (fun _ => True)) (r.typ n))
    (it : PTree) (c c1 : IndexCtx) (name : String) (vid : Nat)
    (h1 : (indexForeachIterator r it).run c = .ok (some (name, vid), c1)) :
    LiveRel c { c1 with scopes := c1.scopes.push (.foreach name vid) } := by
  obtain ⟨hlo, hhi⟩ := indexForeachIterator_id hT0 bv bt it c c1 name vid h1
  have g1 : GidRel c c1 := (Index.indexForeachIterator_keeps gv gt it).run _ _ _ h1
  have k1 : ContRel c c1 := (Index.indexForeachIterator_keeps cv ct it).run _ _ _ h1
  have b1 : BRel 0 (fun _ => True) c c1 := (Index.indexForeachIterator_keeps bv bt it).run _ _ _ h1
  refine ⟨fun h => g1 h, fun h => k1 h, b1.1, fun hinv => ?_⟩
  exact (BRel.pushForeach hT0 name vid c1 hhi (Nat.zero_le _)).2 (b1.2 hinv)

/-- the iterator of a `foreach` with a name and an initialiser declares its variable -/
theorem iterator_some (r : Rec) (it nn : PTree) (name : String) (se : Nat × Nat) (init : PTree)
    (hn : Ast.foreachIteratorName it = some nn) (hiv : Ast.identifierValue nn = some name)
    (hir : Ast.identifierRange nn = some se) (hinit : Ast.foreachIteratorInit it = some init)
    (c : IndexCtx) (x : Option (String × Nat)) (c1 : IndexCtx)
    (h : (indexForeachIterator r it).run c = .ok (x, c1)) : ∃ vid, x = some (name, vid) := by
  unfold indexForeachIterator at h
  simp only [hn] at h
  obtain ⟨a, c0, h0, h⟩ := IxM.run_bind_ok h
  obtain ⟨f, rfl⟩ := utilsIdentifier_some nn name se hiv hir c a c0 h0
  simp only [hinit] at h
  obtain ⟨x2, c2, _, h⟩ := IxM.run_bind_ok h
  obtain ⟨x3, c3, _, h⟩ := IxM.run_bind_ok h
  simp only [StateT.run_pure] at h
  cases h
  exact ⟨_, rfl⟩

/-- static description of `foreach x = init in body` -/
structure ForeachHead (n body : PTree) : Prop where
  kind : n.kind = .Foreach
  iter : ∃ it nn name se init, Ast.foreachIterator n = some it ∧ Ast.foreachIteratorName it = some nn ∧
    Ast.identifierValue nn = some name ∧ Ast.identifierRange nn = some se ∧ Ast.foreachIteratorInit it = some init
  body : Ast.foreachBody n = some body

/-! ### the functions of `mkRec k` for every `k` -/

section descent
variable (k : Nat)

/-- `Keeps PreR` for a function of the pass, for every amount of fuel -/
theorem preR_of_pass {α : Type} {m : IxM α}
    (h : ∀ (R : IndexCtx → IndexCtx → Prop) [CoreRel R] [VarRel R] [BlockRel R],
      (∀ n, Keeps R ((mkRec k).value n)) → (∀ n, Keeps R ((mkRec k).typ n)) →
      (∀ n, Keeps R ((mkRec k).statementList n)) → (∀ n, Keeps R ((mkRec k).sourceFile n)) → Keeps R m) :
    Keeps PreR m := by
  obtain ⟨b1, b2, b3, b4⟩ := mkRec_attr k
  obtain ⟨g1, g2, g3, g4⟩ := mkRec_gid k
  obtain ⟨c1, c2, c3, c4⟩ := mkRec_cont k
  obtain ⟨d1, d2, d3, d4⟩ := mkRec_brel (T := 0) (Good := fun _ => True) (fun _ _ => trivial) k
  haveI := BRel.varRel (T := 0) (Good := fun _ => True) (fun _ _ => trivial)
  haveI := BRel.blockRel (T := 0) (Good := fun _ => True) (fun _ _ => trivial)
  exact keeps_preR (keeps_live (h GidRel g1 g2 g3 g4) (h ContRel c1 c2 c3 c4) (h _ d1 d2 d3 d4)) (h AttrRel b1 b2 b3 b4)

/-- a value that is one identifier executes the identifier site -/
theorem value_visits (v id : PTree) (hidv : identValueNode v = some id) :
    Visits ((mkRec k).value v) (indexIdentifierValue id) := by
  cases k with
  | zero => exact Visits.of_fail (fun c a c' h => by cases h)
  | succ k =>
    exact Visits.of_run_eq (fun c a c' h => ⟨a, by rw [← indexValue_ident (mkRec k) v id hidv c]; exact h⟩)

theorem typ_prim (tn : PTree) (hprim : isPrimTypeNode tn = true) (ty : Ty) (hty : primTypeOf tn = some ty)
    (c : IndexCtx) (a : Option Ty) (c1 : IndexCtx) (h : ((mkRec k).typ tn).run c = .ok (a, c1)) : a = some ty := by
  cases k with
  | zero => cases h
  | succ k =>
    have := indexType_prim (mkRec k) tn hprim c
    rw [hty] at this
    have h' : (indexType (mkRec k) tn).run c = .ok (a, c1) := h
    rw [this] at h'
    cases h'; rfl

/-- a field definition `T x = id;` (primitive `T`) executes the identifier site of its initialiser -/
theorem fieldUse_visits (n id : PTree) (hu : FieldUse n id) :
    Visits (indexFieldDef (mkRec k) n) (indexIdentifierValue id) := by
  obtain ⟨nameNode, name, se, hnn, hiv, hir⟩ := hu.name
  obtain ⟨tn, ty, htn, hprim, hty⟩ := hu.typ
  obtain ⟨v, hv, hidv⟩ := hu.value
  obtain ⟨pv, pt, psl, psf⟩ := recK_preR k
  unfold indexFieldDef
  refine Visits.bind_second (by pre_prim currentRecordId_keeps) fun x => ?_
  cases x with
  | none => exact Visits.of_fail (fun c a c' h => by cases h)
  | some rid =>
  simp only [hnn]
  refine Visits.bind_second' (fun a => ∃ f, a = some (name, ⟨f, se.1, se.2⟩))
    (by pre_prim (utilsIdentifier_keeps _)) (utilsIdentifier_some nameNode name se hiv hir) ?_
  rintro _ ⟨f, rfl⟩
  simp only [htn]
  refine Visits.bind_second' (fun a => a = some ty) (pt tn) (typ_prim k tn hprim ty hty) ?_
  rintro _ rfl
  simp only
  refine Visits.declField _ rid name _ ?_
  simp only [hv]
  refine Visits.bind_first (value_visits k v id hidv) (fun a => by cases a <;> keeps)

/-- static description of `defvar x = id;` -/
structure DefvarUse (n id : PTree) : Prop where
  kind : n.kind = .Defvar
  name : ∃ nameNode name se, Ast.defvarName n = some nameNode ∧ Ast.identifierValue nameNode = some name ∧
    Ast.identifierRange nameNode = some se
  value : ∃ v, Ast.defvarValue n = some v ∧ identValueNode v = some id

theorem defvar_visits (n id : PTree) (hu : DefvarUse n id) :
    Visits (indexDefvar (mkRec k) n) (indexIdentifierValue id) := by
  obtain ⟨nameNode, name, se, hnn, hiv, hir⟩ := hu.name
  obtain ⟨v, hv, hidv⟩ := hu.value
  unfold indexDefvar
  simp only [hnn]
  refine Visits.bind_second' (fun a => ∃ f, a = some (name, ⟨f, se.1, se.2⟩))
    (by pre_prim (utilsIdentifier_keeps _)) (utilsIdentifier_some nameNode name se hiv hir) ?_
  rintro _ ⟨f, rfl⟩
  simp only [hv]
  exact Visits.bind_first (value_visits k v id hidv) (fun a => by keeps)

/-- static description of `dump id;` -/
structure DumpUse (n id : PTree) : Prop where
  kind : n.kind = .Dump
  value : ∃ v, Ast.dumpValue n = some v ∧ identValueNode v = some id

theorem dump_visits (n id : PTree) (hu : DumpUse n id) :
    Visits (indexDump (mkRec k) n) (indexIdentifierValue id) := by
  obtain ⟨v, hv, hidv⟩ := hu.value
  unfold indexDump
  simp only [hv]
  exact Visits.bind_first (value_visits k v id hidv) (fun a => Keeps.pure _)

/-- static description of the body item `let x = id;` -/
structure FieldLetUse (n id : PTree) : Prop where
  kind : n.kind = .FieldLet
  name : ∃ nameNode name se, Ast.fieldLetName n = some nameNode ∧ Ast.identifierValue nameNode = some name ∧
    Ast.identifierRange nameNode = some se
  value : ∃ v, Ast.fieldLetValue n = some v ∧ identValueNode v = some id

theorem fieldLet_visits (n id : PTree) (hu : FieldLetUse n id) :
    Visits (indexFieldLet (mkRec k) n) (indexIdentifierValue id) := by
  obtain ⟨nameNode, name, se, hnn, hiv, hir⟩ := hu.name
  obtain ⟨v, hv, hidv⟩ := hu.value
  unfold indexFieldLet
  simp only [hnn]
  refine Visits.bind_second' (fun a => ∃ f, a = some (name, ⟨f, se.1, se.2⟩))
    (by pre_prim (utilsIdentifier_keeps _)) (utilsIdentifier_some nameNode name se hiv hir) ?_
  rintro _ ⟨f, rfl⟩
  simp only
  refine Visits.bind_second (by pre_prim currentRecordId_keeps) fun x => ?_
  cases x with
  | none => exact Visits.of_fail (fun c a c' h => by cases h)
  | some rid =>
  simp only
  refine Visits.bind_second (by pre_prim (withSM_keeps _)) fun fo => ?_
  cases fo with
  | none =>
    simp only [hv]
    refine Visits.bind_second (by pre_prim (error_keeps _ _)) fun _ => ?_
    exact Visits.bind_first (value_visits k v id hidv) (fun a => Keeps.pure _)
  | some fid =>
    simp only
    refine Visits.bind_second (by pre_prim (withSM_keeps _)) fun fieldTyp => ?_
    refine Visits.bind_second (by pre_prim (withSM_keeps _)) fun par => ?_
    split
    · refine Visits.declField _ rid name _ ?_
      refine Visits.bind_second (by pre_prim (addReference_keeps _ _)) fun _ => ?_
      simp only [hv]
      exact Visits.bind_first (value_visits k v id hidv) (fun a => by cases a <;> keeps)
    · refine Visits.bind_second (by pre_prim (addReference_keeps _ _)) fun _ => ?_
      simp only [hv]
      exact Visits.bind_first (value_visits k v id hidv) (fun a => by cases a <;> keeps)

/-- an item of a body that executes the identifier site `id` -/
inductive ItemUse (item id : PTree) : Prop
  | field (h : FieldUse item id)
  | fieldLet (h : FieldLetUse item id)
  | defvar (h : DefvarUse item id)
  | dump (h : DumpUse item id)

theorem bodyItem_visits (item id : PTree) (hu : ItemUse item id) :
    Visits (indexBodyItem (mkRec k) item) (indexIdentifierValue id) := by
  unfold indexBodyItem
  rcases hu with h | h | h | h
  · simp only [h.kind]; exact fieldUse_visits k item id h
  · simp only [h.kind]; exact fieldLet_visits k item id h
  · simp only [h.kind]; exact defvar_visits k item id h
  · simp only [h.kind]; exact dump_visits k item id h

/-- the body of a record executes what one of its items executes -/
theorem body_visits {β : Type} {site : IxM β} (b : PTree) (ipre : List PTree) (item : PTree) (ipost : List PTree)
    (hitems : Ast.bodyItems b = ipre ++ item :: ipost) (hu : Visits (indexBodyItem (mkRec k) item) site) :
    Visits (indexBody (mkRec k) b) site := by
  obtain ⟨lv, lt, lsl, lsf⟩ := mkRec_later k
  unfold indexBody
  rw [hitems]
  refine Visits.bind_first ?_ (fun _ => Keeps.pure _)
  refine Visits.forIn_unit _ ipre item ipost ?_ ?_ ?_ ?_
  · intro x c st c1 h
    obtain ⟨_, _, _, j⟩ := IxM.run_bind_ok h
    simp only [StateT.run_pure] at j; cases j; rfl
  · intro y
    exact Keeps.bind (preR_of_pass k fun R _ _ _ hv ht hsl hsf => Index.indexBodyItem_keeps hv ht y) fun _ => Keeps.pure _
  · intro y
    exact Keeps.bind (Index.indexBodyItem_keeps lv lt y) fun _ => Keeps.pure _
  · exact Visits.bind_first hu (fun _ => Keeps.pure _)

/-- static description: the record body `rb` has a parent class list node and a body in which `item`
is an `ItemUse` of `id` -/
structure RBodyUse (rb id : PTree) : Prop where
  parents : ∃ pcl, Ast.recordBodyParentClassList rb = some pcl
  body : ∃ b ipre item ipost, Ast.recordBodyBody rb = some b ∧ Ast.bodyItems b = ipre ++ item :: ipost ∧ ItemUse item id

theorem recordBody_visits (rb id : PTree) (hu : RBodyUse rb id) :
    Visits (indexRecordBody (mkRec k) rb) (indexIdentifierValue id) := by
  obtain ⟨pcl, hp⟩ := hu.parents
  obtain ⟨b, ipre, item, ipost, hb, hitems, hfu⟩ := hu.body
  unfold indexRecordBody
  simp only [hp, hb]
  refine Visits.bind_second (preR_of_pass k fun R _ _ _ hv ht hsl hsf => Index.indexParentClassList_keeps hv ht pcl) fun _ => ?_
  exact body_visits k b ipre item ipost hitems (bodyItem_visits k item id hfu)

/-- static description of `class C { … item … }` -/
structure ClassSite (n id : PTree) : Prop where
  kind : n.kind = .Class
  name : ∃ nameNode name se, Ast.className n = some nameNode ∧ Ast.identifierValue nameNode = some name ∧
    Ast.identifierRange nameNode = some se
  body : ∃ rb, Ast.classRecordBody n = some rb ∧ RBodyUse rb id

theorem class_visits (n id : PTree) (hu : ClassSite n id) :
    Visits (indexClass (mkRec k) n) (indexIdentifierValue id) := by
  obtain ⟨nameNode, name, se, h1, h2, h3⟩ := hu.name
  obtain ⟨rb, hrb, hbu⟩ := hu.body
  obtain ⟨lv, lt, lsl, lsf⟩ := mkRec_later k
  unfold indexClass
  simp only [h1, hrb]
  refine Visits.bind_second' (fun a => ∃ f, a = some (name, ⟨f, se.1, se.2⟩))
    (by pre_prim (utilsIdentifier_keeps _)) (utilsIdentifier_some nameNode name se h2 h3) ?_
  rintro _ ⟨f, rfl⟩
  simp only
  refine Visits.bind_second (by pre_prim (addRecord_keeps _ _ ⟨rfl, rfl⟩)) fun rid => ?_
  refine Visits.bind_second (scopesPush_preR _ (fun _ _ h => nomatch h)) fun _ => ?_
  have htail : Visits (do indexRecordBody (mkRec k) rb; scopesPop) (indexIdentifierValue id) :=
    Visits.bind_first (recordBody_visits k rb id hbu) (fun _ => scopesPop_keeps)
  cases Ast.classTemplateArgList n with
  | none => exact htail
  | some list =>
    exact Visits.bind_second (preR_of_pass k fun R _ _ _ hv ht _ _ => Index.indexTemplateArgList_keeps hv ht list)
      fun _ => htail

/-- static description of `def d { … item … }` -/
structure DefSite (n id : PTree) : Prop where
  kind : n.kind = .Def
  name : DefNameOK n
  body : ∃ rb, Ast.defRecordBody n = some rb ∧ RBodyUse rb id

theorem def_visits (n id : PTree) (hu : DefSite n id) :
    Visits (indexDef (mkRec k) n) (indexIdentifierValue id) := by
  obtain ⟨rb, hrb, hbu⟩ := hu.body
  have htail : ∀ rid : Nat, Visits (do
      scopesPush (.record rid)
      indexRecordBody (mkRec k) rb
      scopesPop : IxM Unit) (indexIdentifierValue id) := fun rid =>
    Visits.bind_second (scopesPush_preR _ (fun _ _ h => nomatch h)) fun _ =>
      Visits.bind_first (recordBody_visits k rb id hbu) (fun _ => scopesPop_keeps)
  unfold indexDef
  simp only [hrb]
  refine Visits.bind_second (by pre_prim (by unfold defDefset sameFileDefset; keeps)) fun ds => ?_
  rcases hu.name with hnone | ⟨nameValue, inner, sv, name, se, h1, h2, h3, h4, h5, h6⟩
  · simp only [hnone, pure_bind]
    refine Visits.bind_second (by pre_prim nextAnonymousDefName_keeps) fun nm => ?_
    refine Visits.bind_second (by pre_prim currentFileId_keeps) fun f => ?_
    refine Visits.bind_second (by pre_prim (addAnonymousDef_keeps _ ⟨rfl, rfl⟩)) fun rid => ?_
    exact htail rid
  · simp only [h1]
    refine Visits.bind_second' (fun a => ∃ f, a = some (name, ⟨f, se.1, se.2⟩))
      (by pre_prim (by unfold indexNameValue; keeps)) ?_ ?_
    · intro c a c1 h
      unfold indexNameValue at h
      simp only [h2, h3, h4, beq_self_eq_true, if_true] at h
      exact utilsIdentifier_some sv name se h5 h6 c a c1 h
    rintro _ ⟨f, rfl⟩
    simp only
    refine Visits.bind_second (by pre_prim currentMulticlassId_keeps) fun m => ?_
    split
    · refine Visits.bind_second (by pre_prim (addMulticlassDef_keeps _ ⟨rfl, rfl⟩)) fun rid => ?_
      cases ds with
      | none => exact htail rid
      | some dsid => exact Visits.bind_second (by pre_prim (defsetMut_keeps _ _ (fun _ => ⟨rfl, rfl⟩))) fun _ => htail rid
    · refine Visits.bind_second (by pre_prim (addRecord_keeps _ _ ⟨rfl, rfl⟩)) fun rid => ?_
      cases ds with
      | none => exact htail rid
      | some dsid => exact Visits.bind_second (by pre_prim (defsetMut_keeps _ _ (fun _ => ⟨rfl, rfl⟩))) fun _ => htail rid

/-- a statement list executes what one of its statements executes -/
theorem statementList_visits {β : Type} {site : IxM β} (sl : PTree) (spre : List PTree) (s : PTree) (spost : List PTree)
    (hsplit : Ast.statementListStatements sl = spre ++ s :: spost)
    (hu : Visits (indexStatement (mkRec k) s) site) : Visits (indexStatementList (mkRec k) sl) site := by
  obtain ⟨lv, lt, lsl, lsf⟩ := mkRec_later k
  unfold indexStatementList
  rw [hsplit]
  refine Visits.bind_first ?_ (fun _ => Keeps.pure _)
  refine Visits.forIn_unit _ spre s spost ?_ ?_ ?_ ?_
  · intro x c st c1 h
    obtain ⟨_, _, _, j⟩ := IxM.run_bind_ok h
    simp only [StateT.run_pure] at j; cases j; rfl
  · intro y
    exact Keeps.bind (preR_of_pass k fun R _ _ _ hv ht hsl hsf => Index.indexStatement_keeps hv ht hsl hsf y)
      fun _ => Keeps.pure _
  · intro y
    exact Keeps.bind (Index.indexStatement_keeps lv lt lsl lsf y) fun _ => Keeps.pure _
  · exact Visits.bind_first hu (fun _ => Keeps.pure _)

/-- a `foreach` with a well-formed head executes what its body executes -/
theorem foreach_visits {β : Type} {site : IxM β} (n body : PTree) (hh : ForeachHead n body)
    (hb : Visits ((mkRec k).statementList body) site) : Visits (indexForeach (mkRec k) n) site := by
  obtain ⟨it, nn, name, se, init, hit, hn, hiv, hir, hinit⟩ := hh.iter
  obtain ⟨g1, g2, _, _⟩ := mkRec_gid k
  obtain ⟨c1, c2, _, _⟩ := mkRec_cont k
  obtain ⟨d1, d2, _, _⟩ := mkRec_brel (T := 0) (Good := fun _ => True) (fun _ _ => trivial) k
  obtain ⟨a1, a2, _, _⟩ := mkRec_attr k
  intro c a c' hrun
  unfold indexForeach at hrun
  simp only [hit] at hrun
  obtain ⟨x1, s1, h1, hrun⟩ := IxM.run_bind_ok hrun
  obtain ⟨vid, rfl⟩ := iterator_some (mkRec k) it nn name se init hn hiv hir hinit c x1 s1 h1
  simp only at hrun
  obtain ⟨x2, s2, h2, hrun⟩ := IxM.run_bind_ok hrun
  have hs2 : s2 = { s1 with scopes := s1.scopes.push (.foreach name vid) } := by
    unfold scopesPush at h2
    rw [IxM.run_modify] at h2
    cases h2; rfl
  simp only [hh.body] at hrun
  obtain ⟨x3, s3, h3, hrun⟩ := IxM.run_bind_ok hrun
  obtain ⟨cs, b, cs', p, hs, l⟩ := hb s2 x3 s3 h3
  have htr : s1.fileTrace = c.fileTrace := ((Index.indexForeachIterator_keeps a1 a2 it).run _ _ _ h1).trace
  have p0 : PreR c s2 := by
    rw [hs2]
    exact ⟨foreachHead_live g1 g2 c1 c2 d1 d2 it c s1 name vid h1, htr⟩
  have l3 : LaterRel s3 c' := (scopesPop_keeps (R := LaterRel)).run _ _ _ hrun
  exact ⟨cs, b, cs', KeepRel.trans p0 p, hs, SmLater.trans l l3⟩

end descent

/-! ### statements -/

/-- a statement that executes the identifier site `id`: a `class` / `def` with such an item in its body,
`defvar x = id;`, `dump id;`, or a `foreach` (with a well-formed head) around such a statement -/
inductive StmtUse : PTree → PTree → Prop
  | cls {s id : PTree} (h : ClassSite s id) : StmtUse s id
  | def_ {s id : PTree} (h : DefSite s id) : StmtUse s id
  | defvar {s id : PTree} (h : DefvarUse s id) : StmtUse s id
  | dump {s id : PTree} (h : DumpUse s id) : StmtUse s id
  | foreach {s body id : PTree} (spre : List PTree) (s' : PTree) (spost : List PTree) (hh : ForeachHead s body)
      (hsplit : Ast.statementListStatements body = spre ++ s' :: spost) (h : StmtUse s' id) : StmtUse s id

theorem statement_visits {s id : PTree} (hu : StmtUse s id) :
    ∀ k, Visits (indexStatement (mkRec k) s) (indexIdentifierValue id) := by
  induction hu with
  | cls h => intro k; unfold indexStatement; simp only [h.kind]; exact class_visits k _ _ h
  | def_ h => intro k; unfold indexStatement; simp only [h.kind]; exact def_visits k _ _ h
  | defvar h => intro k; unfold indexStatement; simp only [h.kind]; exact defvar_visits k _ _ h
  | dump h => intro k; unfold indexStatement; simp only [h.kind]; exact dump_visits k _ _ h
  | @foreach s body id spre s' spost hh hsplit h ih =>
    intro k
    unfold indexStatement
    simp only [hh.kind]
    refine foreach_visits k _ _ hh ?_
    cases k with
    | zero => exact Visits.of_fail (fun c a c' h => by cases h)
    | succ k => exact statementList_visits k body spre s' spost hsplit (ih k)

/-- a statement list executes the site of each such statement -/
theorem stmts_visits (k : Nat) (sl : PTree) (spre : List PTree) (s : PTree) (spost : List PTree) (id : PTree)
    (hsplit : Ast.statementListStatements sl = spre ++ s :: spost) (hu : StmtUse s id) :
    Visits (indexStatementList (mkRec k) sl) (indexIdentifierValue id) :=
  statementList_visits k sl spre s spost hsplit (statement_visits hu k)

theorem RBodyUse.of_old {rb id : PTree} (h : BodyUse rb id) : RBodyUse rb id := by
  obtain ⟨b, ipre, item, ipost, h1, h2, h3⟩ := h.body
  exact ⟨h.parents, b, ipre, item, ipost, h1, h2, .field h3⟩

theorem StmtUse.of_old {s id : PTree} (h : ClassUse s id ∨ DefUse s id) : StmtUse s id := by
  rcases h with h | h
  · obtain ⟨rb, h1, h2⟩ := h.body
    exact .cls ⟨h.kind, h.name, rb, h1, .of_old h2⟩
  · obtain ⟨rb, h1, h2⟩ := h.body
    exact .def_ ⟨h.kind, h.name, rb, h1, .of_old h2⟩

/-! ### an executable form of the static conditions -/

def defvarUseId (n : PTree) : Option PTree :=
  if n.kind == .Defvar then
    match Ast.defvarName n, Ast.defvarValue n with
    | some nameNode, some v => if identOKB nameNode then identValueNode v else none
    | _, _ => none
  else none

theorem defvarUseId_sound {n id : PTree} (h : defvarUseId n = some id) : DefvarUse n id := by
  unfold defvarUseId at h
  split at h
  · rename_i hk
    split at h
    · rename_i nameNode v h1 h2
      split at h
      · rename_i hc
        obtain ⟨name, se, a, b⟩ := identOKB_sound hc
        exact ⟨by simpa using hk, ⟨nameNode, name, se, h1, a, b⟩, ⟨v, h2, h⟩⟩
      · cases h
    · cases h
  · cases h

def fieldLetUseId (n : PTree) : Option PTree :=
  if n.kind == .FieldLet then
    match Ast.fieldLetName n, Ast.fieldLetValue n with
    | some nameNode, some v => if identOKB nameNode then identValueNode v else none
    | _, _ => none
  else none

theorem fieldLetUseId_sound {n id : PTree} (h : fieldLetUseId n = some id) : FieldLetUse n id := by
  unfold fieldLetUseId at h
  split at h
  · rename_i hk
    split at h
    · rename_i nameNode v h1 h2
      split at h
      · rename_i hc
        obtain ⟨name, se, a, b⟩ := identOKB_sound hc
        exact ⟨by simpa using hk, ⟨nameNode, name, se, h1, a, b⟩, ⟨v, h2, h⟩⟩
      · cases h
    · cases h
  · cases h

def dumpUseId (n : PTree) : Option PTree :=
  if n.kind == .Dump then
    match Ast.dumpValue n with
    | some v => identValueNode v
    | none => none
  else none

theorem dumpUseId_sound {n id : PTree} (h : dumpUseId n = some id) : DumpUse n id := by
  unfold dumpUseId at h
  split at h
  · rename_i hk
    split at h
    · rename_i v hv
      exact ⟨by simpa using hk, v, hv, h⟩
    · cases h
  · cases h

/-- the identifier site of the body item `item` -/
def itemUseId (item : PTree) : Option PTree :=
  match fieldUseId item with
  | some id => some id
  | none =>
    match fieldLetUseId item with
    | some id => some id
    | none =>
      match defvarUseId item with
      | some id => some id
      | none => dumpUseId item

theorem itemUseId_sound {item id : PTree} (h : itemUseId item = some id) : ItemUse item id := by
  unfold itemUseId at h
  split at h
  · rename_i x hx; cases h; exact .field (fieldUseId_sound hx)
  · split at h
    · rename_i x hx; cases h; exact .fieldLet (fieldLetUseId_sound hx)
    · split at h
      · rename_i x hx; cases h; exact .defvar (defvarUseId_sound hx)
      · exact .dump (dumpUseId_sound h)

/-- … of the `i`-th body item of the record body `rb` -/
def rbodyUseId (rb : PTree) (i : Nat) : Option PTree :=
  if (Ast.recordBodyParentClassList rb).isSome then
    match Ast.recordBodyBody rb with
    | some b => (Ast.bodyItems b)[i]?.bind itemUseId
    | none => none
  else none

theorem rbodyUseId_sound {rb id : PTree} {i : Nat} (h : rbodyUseId rb i = some id) : RBodyUse rb id := by
  unfold rbodyUseId at h
  split at h
  · rename_i hp
    split at h
    · rename_i b hb
      cases hi : (Ast.bodyItems b)[i]? with
      | none => rw [hi] at h; cases h
      | some item =>
        rw [hi] at h
        obtain ⟨pre, post, hsp⟩ := split_of_getElem? _ _ _ hi
        exact ⟨Option.isSome_iff_exists.1 hp, b, pre, item, post, hb, hsp, itemUseId_sound h⟩
    · cases h
  · cases h

/-- the body of a `foreach` with a well-formed head -/
def foreachBodyOf (n : PTree) : Option PTree :=
  if n.kind == .Foreach then
    match Ast.foreachIterator n with
    | some it =>
      match Ast.foreachIteratorName it, Ast.foreachIteratorInit it with
      | some nn, some _ => if identOKB nn then Ast.foreachBody n else none
      | _, _ => none
    | none => none
  else none

theorem foreachBodyOf_sound {n body : PTree} (h : foreachBodyOf n = some body) : ForeachHead n body := by
  unfold foreachBodyOf at h
  split at h
  · rename_i hk
    split at h
    · rename_i it hit
      split at h
      · rename_i nn init h1 h2
        split at h
        · rename_i hc
          obtain ⟨name, se, a, b⟩ := identOKB_sound hc
          exact ⟨by simpa using hk, ⟨it, nn, name, se, init, hit, h1, a, b, h2⟩, h⟩
        · cases h
      · cases h
    · cases h
  · cases h

/-- the identifier site of the statement `s` at `path`: `[]` for `defvar` / `dump`, `[i]` for the `i`-th
body item of a `class` / `def`, `i :: path'` for the site at `path'` of the `i`-th statement of the body of
a `foreach` -/
def stmtUseAt (s : PTree) : List Nat → Option PTree
  | [] =>
    match defvarUseId s with
    | some id => some id
    | none => dumpUseId s
  | i :: rest =>
    if s.kind == .Class then
      match rest, Ast.className s with
      | [], some nameNode => if identOKB nameNode then (Ast.classRecordBody s).bind (rbodyUseId · i) else none
      | _, _ => none
    else if s.kind == .Def then
      match rest with
      | [] => if defNameOKB s then (Ast.defRecordBody s).bind (rbodyUseId · i) else none
      | _ => none
    else
      match foreachBodyOf s with
      | some body =>
        match (Ast.statementListStatements body)[i]? with
        | some s' => stmtUseAt s' rest
        | none => none
      | none => none

theorem stmtUseAt_sound {path : List Nat} : ∀ {s id : PTree}, stmtUseAt s path = some id → StmtUse s id := by
  induction path with
  | nil =>
    intro s id h
    unfold stmtUseAt at h
    split at h
    · rename_i x hx; cases h; exact .defvar (defvarUseId_sound hx)
    · exact .dump (dumpUseId_sound h)
  | cons i rest ih =>
    intro s id h
    unfold stmtUseAt at h
    split at h
    · rename_i hk
      split at h
      · rename_i nameNode hn
        split at h
        · rename_i hok
          obtain ⟨name, se, a, b⟩ := identOKB_sound hok
          cases hrb : Ast.classRecordBody s with
          | none => rw [hrb] at h; cases h
          | some rb =>
            rw [hrb] at h
            exact .cls ⟨by simpa using hk, ⟨nameNode, name, se, hn, a, b⟩, rb, hrb, rbodyUseId_sound h⟩
        · cases h
      · cases h
    · split at h
      · rename_i hk
        split at h
        · split at h
          · rename_i hok
            cases hrb : Ast.defRecordBody s with
            | none => rw [hrb] at h; cases h
            | some rb =>
              rw [hrb] at h
              exact .def_ ⟨by simpa using hk, defNameOKB_sound hok, rb, hrb, rbodyUseId_sound h⟩
          · cases h
        · cases h
      · split at h
        · rename_i body hb
          split at h
          · rename_i s' hs'
            obtain ⟨pre, post, hsp⟩ := split_of_getElem? _ _ _ hs'
            exact .foreach pre s' post (foreachBodyOf_sound hb) hsp (ih h)
          · cases h
        · cases h

end Ix10
end Ide
end Tg
