/-
Every file that a run of the indexer enters is entered in a LIVE state: `HistRel c c'` records, for each
file `g` marked as indexed between `c` and `c'` (with a source-file tree), the state `cs` in which
`indexSourceFile (mkRec j) sf` was started for it - related to `c` by the state invariants (`LiveRel`),
with `g` on top of the file trace - and that the run continued to `c'` from the state `cs'` in which it
ended (`LaterRel`).  The relation is kept by every function of `mkRec k` (`mkRec_hist`; pass of
`Ix10Pass.lean`, the case of `include` by hand), so for a successful `Index.index` every file reachable
through top-level includes was entered like that (`index_enters`), and every statement use site
(`StmtUse`, `Ix10Visits.lean`) of every such file is visited in a live state (`file_use_visited`).
-/
import TgModel.Lemmas.Ix10Pass
import TgModel.Lemmas.Ix10Visits
import TgModel.Lemmas.IdeInclude
namespace Tg
namespace Ide
open Index

namespace Ix10

/-! ### the relation -/

/-- workspace and set of indexed files are unchanged -/
def FrameRel (c c' : IndexCtx) : Prop := c'.ws = c.ws ∧ c'.indexedFiles = c.indexedFiles

instance : KeepRel FrameRel where
  refl := fun _ => ⟨rfl, rfl⟩
  trans := fun h1 h2 => ⟨h2.1.trans h1.1, h2.2.trans h1.2⟩

/-- the files entered between `c` and `c'` -/
def Hist (c c' : IndexCtx) : Prop :=
  ∀ g, g ∈ c'.indexedFiles → g ∉ c.indexedFiles → ∀ sf, Ast.sourceFileCast (c.ws.tree g) = some sf →
    ∃ (j : Nat) (cs cs' : IndexCtx) (rest : List Nat), LiveRel c cs ∧ cs.ws = c.ws ∧ cs.fileTrace = g :: rest ∧
      (indexSourceFile (mkRec j) sf).run cs = .ok ((), cs') ∧ LaterRel cs' c'

structure HistRel (c c' : IndexCtx) : Prop where
  live : LiveRel c c'
  later : LaterRel c c'
  ws : c'.ws = c.ws
  hist : Hist c c'

theorem HistRel.of_parts {c c' : IndexCtx} (l : LiveRel c c') (la : LaterRel c c') (f : FrameRel c c') :
    HistRel c c' :=
  ⟨l, la, f.1, fun _ h1 h2 => absurd (f.2 ▸ h1) h2⟩

instance : KeepRel HistRel where
  refl := fun c => ⟨KeepRel.refl c, SmLater.refl _, rfl, fun _ h1 h2 => absurd h1 h2⟩
  trans := fun {_ b _} h1 h2 => by
    refine ⟨KeepRel.trans h1.live h2.live, SmLater.trans h1.later h2.later, h2.ws.trans h1.ws, ?_⟩
    intro g hg hn sf hsf
    by_cases hm : g ∈ b.indexedFiles
    · obtain ⟨j, cs, cs', rest, l, w, t, r, la⟩ := h1.hist g hm hn sf hsf
      exact ⟨j, cs, cs', rest, l, w, t, r, SmLater.trans la h2.later⟩
    · obtain ⟨j, cs, cs', rest, l, w, t, r, la⟩ := h2.hist g hg hm sf (by rw [h1.ws]; exact hsf)
      exact ⟨j, cs, cs', rest, KeepRel.trans h1.live l, w.trans h1.ws, t, r, la⟩

theorem hist_of {α : Type} {m : IxM α} (g : Keeps GidRel m) (k : Keeps ContRel m)
    (b : Keeps (BRel 0 (fun _ => True)) m) (l : Keeps LaterRel m) (f : Keeps FrameRel m) : Keeps HistRel m :=
  ⟨fun _ _ _ h => .of_parts ⟨g.run _ _ _ h, k.run _ _ _ h, b.run _ _ _ h⟩ (l.run _ _ _ h) (f.run _ _ _ h)⟩

theorem LiveRel.of_same {c c' : IndexCtx} (hws : c'.ws = c.ws) (hsm : c'.symbolMap = c.symbolMap)
    (hsc : c'.scopes = c.scopes) : LiveRel c c' :=
  ⟨fun h => hsm ▸ h, fun h => hsm ▸ h, StdRel.of_eq c c' hws hsm hsc⟩

theorem LaterRel.of_same {c c' : IndexCtx} (hsm : c'.symbolMap = c.symbolMap) : LaterRel c c' := by
  unfold LaterRel
  rw [hsm]
  exact SmLater.refl _

/-! ### the primitives -/

theorem frame_anon : Keeps FrameRel nextAnonymousDefName :=
  Keeps.modifyGet _ fun _ => ⟨rfl, rfl⟩

theorem frame_error (rg : Nat × Nat) (msg : String) : Keeps FrameRel (error rg msg) := by
  unfold error
  keeps
  exact Keeps.modify _ fun _ => ⟨rfl, rfl⟩

theorem frame_push (k : ScopeKind) : Keeps FrameRel (scopesPush k) :=
  Keeps.modify _ fun _ => ⟨rfl, rfl⟩

theorem frame_pop : Keeps FrameRel scopesPop := by
  unfold scopesPop
  keeps
  exact Keeps.modify _ fun _ => ⟨rfl, rfl⟩

theorem frame_addVariable (v : Variable) : Keeps FrameRel (scopesAddVariable v) := by
  unfold scopesAddVariable addVariable modifySM
  refine Keeps.bind (Keeps.modifyGet _ fun _ => ⟨rfl, rfl⟩) fun _ => ?_
  refine Keeps.bind (Keeps.modifyGet _ fun c => ?_) fun ok => ?_
  · dsimp only
    split <;> exact ⟨rfl, rfl⟩
  · cases ok
    · exact Keeps.throw _
    · exact Keeps.pure _

instance : Inc2.CoreRel HistRel where
  sm := fun c sm' h => .of_parts
    ⟨CoreRel.sm (R := GidRel) c sm' h, CoreRel.sm (R := ContRel) c sm' h, CoreRel.sm (R := BRel 0 (fun _ => True)) c sm' h⟩
    (CoreRel.sm (R := LaterRel) c sm' h) ⟨rfl, rfl⟩
  anon := hist_of nextAnonymousDefName_keeps nextAnonymousDefName_keeps nextAnonymousDefName_keeps
    nextAnonymousDefName_keeps frame_anon
  error := fun rg msg => hist_of (error_keeps rg msg) (error_keeps rg msg) (error_keeps rg msg) (error_keeps rg msg)
    (frame_error rg msg)

instance : VarRel HistRel where
  addVariable := fun v => hist_of (scopesAddVariable_keeps v) (scopesAddVariable_keeps v)
    ((BRel.varRel hT0).addVariable v) (scopesAddVariable_keeps v) (frame_addVariable v)

theorem hist_push (k : ScopeKind) (hk : ∀ nm id, k ≠ ScopeKind.foreach nm id) : Keeps HistRel (scopesPush k) :=
  hist_of (scopesPush_keeps k hk) (scopesPush_keeps k hk) (BRel.push hT0 k hk) (scopesPush_keeps k hk) (frame_push k)

theorem hist_pop : Keeps HistRel scopesPop :=
  hist_of scopesPop_keeps scopesPop_keeps (BRel.pop hT0) scopesPop_keeps frame_pop

theorem hist_foreach (r : Rec) (hv : ∀ n, Keeps HistRel (r.value n)) (ht : ∀ n, Keeps HistRel (r.typ n))
    (hsl : ∀ n, Keeps HistRel (r.statementList n)) (n : PTree) : Keeps HistRel (indexForeach r n) := by
  have gv : ∀ n, Keeps GidRel (r.value n) := fun n => Keeps.mono (fun _ _ h => h.live.1) (hv n)
  have gt : ∀ n, Keeps GidRel (r.typ n) := fun n => Keeps.mono (fun _ _ h => h.live.1) (ht n)
  have cv : ∀ n, Keeps ContRel (r.value n) := fun n => Keeps.mono (fun _ _ h => h.live.2.1) (hv n)
  have ct : ∀ n, Keeps ContRel (r.typ n) := fun n => Keeps.mono (fun _ _ h => h.live.2.1) (ht n)
  have bv : ∀ n, Keeps (BRel 0 (fun _ => True)) (r.value n) := fun n => Keeps.mono (fun _ _ h => h.live.2.2) (hv n)
  have bt : ∀ n, Keeps (BRel 0 (fun _ => True)) (r.typ n) := fun n => Keeps.mono (fun _ _ h => h.live.2.2) (ht n)
  refine ⟨fun c a c' hrun => ?_⟩
  unfold Index.indexForeach at hrun
  split at hrun
  · rename_i it _
    obtain ⟨x1, c1, h1, hrun⟩ := IxM.run_bind_ok hrun
    have r1 : HistRel c c1 := (Inc2.Index.indexForeachIterator_keeps hv ht it).run c x1 c1 h1
    split at hrun
    · rename_i name id
      obtain ⟨hlo, hhi⟩ := indexForeachIterator_id hT0 bv bt it c c1 name id h1
      obtain ⟨x2, c2, h2, hrun⟩ := IxM.run_bind_ok hrun
      have hc2 : c2 = { c1 with scopes := c1.scopes.push (.foreach name id) } := by
        unfold scopesPush at h2
        rw [IxM.run_modify] at h2
        cases h2; rfl
      have r2 : HistRel c1 c2 := by
        rw [hc2]
        exact .of_parts ⟨fun h => h, fun h => h, BRel.pushForeach hT0 name id c1 hhi (Nat.zero_le _)⟩
          (SmLater.refl _) ⟨rfl, rfl⟩
      split at hrun
      · obtain ⟨x3, c3, h3, hrun⟩ := IxM.run_bind_ok hrun
        have r3 := (hsl _).run c2 x3 c3 h3
        have r4 := hist_pop.run c3 a c' hrun
        exact KeepRel.trans r1 (KeepRel.trans r2 (KeepRel.trans r3 r4))
      · simp only [StateT.run_pure] at hrun
        cases hrun
        exact KeepRel.trans r1 r2
    · simp only [StateT.run_pure] at hrun
      cases hrun
      exact r1
  · simp only [StateT.run_pure] at hrun
    cases hrun
    exact KeepRel.refl _

instance : BlockRel HistRel where
  push := hist_push
  pop := hist_pop
  foreach := hist_foreach

/-! ### `include` -/

theorem mkRec_hist_include (k : Nat) (hsf : ∀ n, Keeps HistRel ((mkRec k).sourceFile n)) (n : PTree) :
    Keeps HistRel (indexInclude (mkRec k) n) := by
  refine ⟨fun c a c' h => ?_⟩
  cases hft : c.fileTrace with
  | nil =>
    unfold Index.indexInclude currentFileId at h
    simp only [StateT.run_bind, IxM.run_get, Except.ok_bind, hft] at h
    cases h
  | cons f rest =>
    rcases indexInclude_cases (mkRec k) n c c' f rest hft h with ⟨_, rfl⟩ | ⟨t, _, _, rfl⟩ |
        ⟨t, _, hnot, hcast, rfl⟩ | ⟨t, sf, c3, x, rest', _, hnot, hcast, h3, htr, rfl⟩
    · exact .of_parts (LiveRel.of_same rfl rfl rfl) (LaterRel.of_same rfl) ⟨rfl, rfl⟩
    · exact KeepRel.refl _
    · refine ⟨LiveRel.of_same rfl rfl rfl, LaterRel.of_same rfl, rfl, ?_⟩
      intro g hg hn sf hsf'
      rcases List.mem_cons.mp hg with rfl | hg
      · rw [hcast] at hsf'; cases hsf'
      · exact absurd hg hn
    · have r3 := (hsf sf).run _ _ _ h3
      refine ⟨KeepRel.trans (LiveRel.of_same rfl rfl rfl) (KeepRel.trans r3.live (LiveRel.of_same rfl rfl rfl)),
        SmLater.trans (LaterRel.of_same rfl) (SmLater.trans r3.later (LaterRel.of_same rfl)), r3.ws, ?_⟩
      intro g hg hn sf' hsf'
      by_cases hgt : g = t
      · subst hgt
        rw [hcast] at hsf'
        cases hsf'
        cases k with
        | zero => cases h3
        | succ k =>
          exact ⟨k, { c with indexedFiles := g :: c.indexedFiles, fileTrace := g :: c.fileTrace }, c3, c.fileTrace,
            LiveRel.of_same rfl rfl rfl, rfl, rfl, h3, LaterRel.of_same rfl⟩
      · have hn0 : g ∉ t :: c.indexedFiles := by
          intro hm
          rcases List.mem_cons.mp hm with h1 | h1
          · exact hgt h1
          · exact hn h1
        obtain ⟨j, cs, cs', rs, l, w, tr, r, la⟩ := r3.hist g hg hn0 sf' hsf'
        exact ⟨j, cs, cs', rs, KeepRel.trans (LiveRel.of_same rfl rfl rfl) l, w, tr, r,
          SmLater.trans la (LaterRel.of_same rfl)⟩

theorem mkRec_hist (k : Nat) :
    (∀ n, Keeps HistRel ((mkRec k).value n)) ∧ (∀ n, Keeps HistRel ((mkRec k).typ n)) ∧
    (∀ n, Keeps HistRel ((mkRec k).statementList n)) ∧ (∀ n, Keeps HistRel ((mkRec k).sourceFile n)) := by
  induction k with
  | zero => exact ⟨fun _ => Keeps.throw _, fun _ => Keeps.throw _, fun _ => Keeps.throw _, fun _ => Keeps.throw _⟩
  | succ k ih =>
    obtain ⟨hv, ht, hsl, hsf⟩ := ih
    have hinc := mkRec_hist_include k hsf
    exact ⟨fun n => Inc2.Index.indexValue_keeps hv ht hsl hsf hinc n, fun n => Inc2.Index.indexType_keeps hv ht n,
      fun n => Inc2.Index.indexStatementList_keeps hv ht hsl hsf hinc n,
      fun n => Inc2.Index.indexSourceFile_keeps hv ht hsl hsf hinc n⟩

/-! ### the files of a successful `Index.index` -/

/-- **every file reachable through top-level includes is entered in a live state**, with itself on top of
the file trace, and the run continues from the end of its source file to the final result -/
theorem index_enters (ws : Workspace) (res : IndexResult) (h : Index.index ws = .ok res) (g : Nat)
    (hg : TopReach ws g) (sf : PTree) (hsf : Ast.sourceFileCast (ws.tree g) = some sf) :
    ∃ (j : Nat) (cs cs' : IndexCtx) (rest : List Nat), LiveInv cs ∧ cs.fileTrace = g :: rest ∧
      (indexSourceFile (mkRec j) sf).run cs = .ok ((), cs') ∧ SmLater cs'.symbolMap res.symbolMap := by
  obtain ⟨sf0, ctx, hcast, hrun, hres, _, _, _, _, hreach⟩ := index_files ws res h
  subst hres
  by_cases hne : g = ws.root
  · subst hne
    rw [hcast] at hsf
    cases hsf
    exact ⟨ws.depthBound, IndexCtx.new ws, ctx, [], LiveInv.new ws, rfl, hrun, SmLater.refl _⟩
  · have hrun' : ((mkRec (ws.depthBound + 1)).sourceFile sf0).run (IndexCtx.new ws) = .ok ((), ctx) := hrun
    have hh := ((mkRec_hist (ws.depthBound + 1)).2.2.2 sf0).run _ _ _ hrun'
    have hnot : g ∉ (IndexCtx.new ws).indexedFiles := by simpa [IndexCtx.new] using hne
    obtain ⟨j, cs, cs', rest, l, w, tr, r, la⟩ := hh.hist g (hreach g hg) hnot sf hsf
    exact ⟨j, cs, cs', rest, l.inv (LiveInv.new ws), tr, r, la⟩

/-- **every statement use site of every such file is visited in a live state** -/
theorem file_use_visited (ws : Workspace) (res : IndexResult) (h : Index.index ws = .ok res) (g : Nat)
    (hg : TopReach ws g) (sf sl : PTree) (hsf : Ast.sourceFileCast (ws.tree g) = some sf)
    (hsl : Ast.sourceFileStatementList sf = some sl) (spre : List PTree) (s : PTree) (spost : List PTree)
    (hsplit : Ast.statementListStatements sl = spre ++ s :: spost) (id : PTree) (hu : StmtUse s id) :
    ∃ (c : IndexCtx) (t : Option Ty) (c' : IndexCtx) (rest : List Nat), c.fileTrace = g :: rest ∧ LiveInv c ∧
      (indexIdentifierValue id).run c = .ok (t, c') ∧ SmLater c'.symbolMap res.symbolMap := by
  obtain ⟨j, cs, cs', rest, hlive, htr, hrun, hla⟩ := index_enters ws res h g hg sf hsf
  have heq : indexSourceFile (mkRec j) sf = (mkRec j).statementList sl := by
    unfold indexSourceFile
    rw [hsl]
  rw [heq] at hrun
  cases j with
  | zero => cases hrun
  | succ j =>
    obtain ⟨c, t, c', hpre, hsite, hlater⟩ := stmts_visits j sl spre s spost id hsplit hu _ _ _ hrun
    exact ⟨c, t, c', rest, hpre.2.trans htr, hpre.1.inv hlive, hsite, SmLater.trans hlater hla⟩

end Ix10
end Ide
end Tg
