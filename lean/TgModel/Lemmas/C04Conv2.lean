/-
C04 converse, widened (part 2): statement skeletons, with `Value` abstract.

`DV V` is derivability in the documented grammar *extended by*: every word in `V` counts as a `Value`.
`VW w` says that `w` is what some clean run of the `value` parser consumed.  The skeleton theorems say: if
the parser of `dump` / `defvar` / `assert` / `class` runs without recording an error, what it consumed is
`DV VW`-derivable from the documented nonterminal.  `ValueOK` (every `VW` word is a documented `Value`)
is the named hypothesis that turns this into plain `Derives` (`DV.collapse`).  **`ValueOK` is not true of
the parser as a whole** (`[]` and `[1,]` are taken cleanly, the documented `List` wants a non-empty
`ValueList` without trailing comma), which is why the theorems are stated relative to `VW` and the
hypothesis is kept out of them; `value_ok_literal` (C04Conv3) settles the one-token literals.
-/
import TgModel.Lemmas.C04Conv

namespace Tg
namespace C04L
open Prog Grammar Frag Doc

local notation "rcv" => Tables.recoverTokens

/-- the documented grammar, with every word of `V` admitted as a `Value` -/
inductive DV (V : List TokenKind → Prop) : E → List TokenKind → Prop where
  | val {w : List TokenKind} : V w → DV V (.nt .Value_) w
  | tok {ks : List TokenKind} {k : TokenKind} : k ∈ ks → DV V (.tok ks) [k]
  | nt {n : NT} {w : List TokenKind} : DV V (rule n) w → DV V (.nt n) w
  | eps : DV V .eps []
  | seq {a b : E} {u v : List TokenKind} : DV V a u → DV V b v → DV V (.seq a b) (u ++ v)
  | altL {a b : E} {w : List TokenKind} : DV V a w → DV V (.alt a b) w
  | altR {a b : E} {w : List TokenKind} : DV V b w → DV V (.alt a b) w
  | optNone {a : E} : DV V (.opt a) []
  | optSome {a : E} {w : List TokenKind} : DV V a w → DV V (.opt a) w
  | starNil {a : E} : DV V (.star a) []
  | starCons {a : E} {u v : List TokenKind} : DV V a u → DV V (.star a) v → DV V (.star a) (u ++ v)
  | plus {a : E} {u v : List TokenKind} : DV V a u → DV V (.star a) v → DV V (.plus a) (u ++ v)

/-- the documented grammar is contained in the extended one -/
theorem DV.of {V : List TokenKind → Prop} {e : E} {w : List TokenKind} (h : Derives e w) : DV V e w := by
  induction h with
  | tok h => exact .tok h
  | nt _ ih => exact .nt ih
  | eps => exact .eps
  | seq _ _ i1 i2 => exact .seq i1 i2
  | altL _ ih => exact .altL ih
  | altR _ ih => exact .altR ih
  | optNone => exact .optNone
  | optSome _ ih => exact .optSome ih
  | starNil => exact .starNil
  | starCons _ _ i1 i2 => exact .starCons i1 i2
  | plus _ _ i1 i2 => exact .plus i1 i2

theorem DV.mono {V V' : List TokenKind → Prop} (hV : ∀ w, V w → V' w) {e : E} {w : List TokenKind}
    (h : DV V e w) : DV V' e w := by
  induction h with
  | val h => exact .val (hV _ h)
  | tok h => exact .tok h
  | nt _ ih => exact .nt ih
  | eps => exact .eps
  | seq _ _ i1 i2 => exact .seq i1 i2
  | altL _ ih => exact .altL ih
  | altR _ ih => exact .altR ih
  | optNone => exact .optNone
  | optSome _ ih => exact .optSome ih
  | starNil => exact .starNil
  | starCons _ _ i1 i2 => exact .starCons i1 i2
  | plus _ _ i1 i2 => exact .plus i1 i2

/-- if every admitted word is a documented `Value`, the extension adds nothing -/
theorem DV.collapse {V : List TokenKind → Prop} (hV : ∀ w, V w → Derives (.nt .Value_) w) {e : E}
    {w : List TokenKind} (h : DV V e w) : Derives e w := by
  induction h with
  | val h => exact hV _ h
  | tok h => exact .tok h
  | nt _ ih => exact .nt ih
  | eps => exact .eps
  | seq _ _ i1 i2 => exact .seq i1 i2
  | altL _ ih => exact .altL ih
  | altR _ ih => exact .altR ih
  | optNone => exact .optNone
  | optSome _ ih => exact .optSome ih
  | starNil => exact .starNil
  | starCons _ _ i1 i2 => exact .starCons i1 i2
  | plus _ _ i1 i2 => exact .plus i1 i2

theorem dv_cast {V : List TokenKind → Prop} {e : E} {w w' : List TokenKind} (h : DV V e w) (hw : w = w') :
    DV V e w' := hw ▸ h

theorem dv_tok1 {V : List TokenKind → Prop} (k : TokenKind) : DV V (.tok [k]) [k] :=
  .tok (List.mem_singleton.mpr rfl)

theorem dv_tokSeq {V : List TokenKind → Prop} {k : TokenKind} {b : E} {v : List TokenKind} (h : DV V b v) :
    DV V (.seq (.tok [k]) b) (k :: v) :=
  DV.seq (dv_tok1 k) h

theorem dv_seq_nil {V : List TokenKind → Prop} {a b : E} {u : List TokenKind} (ha : DV V a u) (hb : DV V b []) :
    DV V (.seq a b) u :=
  dv_cast (DV.seq ha hb) (List.append_nil u)

theorem dv_identifier {V : List TokenKind → Prop} : DV V (.nt .Identifier_) [TokenKind.Id] := DV.of d_identifier

/-- `w` is what a clean run of the `value` parser consumed (from a state looking at a proper token) -/
def VW (w : List TokenKind) : Prop :=
  ∃ (fuel : Nat) (a b : PState), Norm a ∧ exec defs rcv fuel (call .value) a = .ok b ∧ Clean a b ∧
    a.kinds = w ++ b.kinds

/-- **hypothesis**: whatever a clean run of `value` consumes is a documented `Value` -/
def ValueOK : Prop := ∀ w, VW w → Derives (.nt .Value_) w

theorem lift_fuel {n : Nat} {p : Prog} {s s' : PState} (h : exec defs rcv n p s = .ok s') (k : Nat) :
    exec defs rcv (n + k) p s = .ok s' :=
  Progress.exec_mono defs rcv n _ _ _ h (by simp) (n + k) (by omega)

theorem startNode_kinds (s : PState) (k : SyntaxKind) : (s.startNode k).kinds = s.kinds := rfl

/-- `expect(k)` on a clean run from a state with `afterError = false` eats `k` -/
theorem expect_clean {n : Nat} {k : TokenKind} {msg : Option String} {s s' : PState} (hp : plain k = true)
    (h : exec defs rcv (n+1) (expect k msg) s = .ok s') (hc : Clean s s') (ha : s.afterError = false) :
    s.kinds = k :: s'.kinds ∧ s'.afterError = false := by
  obtain ⟨hk, he⟩ := expect_inv defs rcv h hc ha
  obtain ⟨h1, h2, _⟩ := eat_plain hk hp he
  exact ⟨h1, h2⟩

theorem assertTok_clean {n : Nat} {k : TokenKind} {s s' : PState} (hp : plain k = true)
    (h : exec defs rcv (n+1) (assertTok k) s = .ok s') :
    s.kinds = k :: s'.kinds ∧ s'.afterError = false := by
  obtain ⟨hk, he⟩ := assertTok_inv defs rcv h
  obtain ⟨h1, h2, _⟩ := eat_plain hk hp he
  exact ⟨h1, h2⟩

theorem expect_cleanN {n : Nat} {k : TokenKind} {msg : Option String} {s s' : PState} (hp : plain k = true)
    (h : exec defs rcv (n+1) (expect k msg) s = .ok s') (hc : Clean s s') (ha : s.afterError = false) :
    s.kinds = k :: s'.kinds ∧ s'.afterError = false ∧ Norm s' := by
  obtain ⟨hk, he⟩ := expect_inv defs rcv h hc ha
  have hp' : k.isTrivia = false ∧ k ≠ .Error ∧ k ≠ .Eof := by simpa [plain, and_assoc] using hp
  have hn : Norm s := by unfold Norm; rw [hk]; exact hp'.1
  obtain ⟨h1, h2, _, h4⟩ := eat_props hn (by rw [hk]; exact hp'.2.1) (by rw [hk]; exact hp'.2.2) he
  exact ⟨by rw [h1, hk], h4, h2⟩

theorem assertTok_cleanN {n : Nat} {k : TokenKind} {s s' : PState} (hp : plain k = true)
    (h : exec defs rcv (n+1) (assertTok k) s = .ok s') :
    s.kinds = k :: s'.kinds ∧ s'.afterError = false ∧ Norm s' := by
  obtain ⟨hk, he⟩ := assertTok_inv defs rcv h
  have hp' : k.isTrivia = false ∧ k ≠ .Error ∧ k ≠ .Eof := by simpa [plain, and_assoc] using hp
  have hn : Norm s := by unfold Norm; rw [hk]; exact hp'.1
  obtain ⟨h1, h2, _, h4⟩ := eat_props hn (by rw [hk]; exact hp'.2.1) (by rw [hk]; exact hp'.2.2) he
  exact ⟨by rw [h1, hk], h4, h2⟩

/-- a clean run of `value`: what it consumed is a `VW` word -/
theorem value_clean {input : List Char} {n : Nat} {s s' : PState} (hi : Inv input s)
    (h : exec defs rcv n (call .value) s = .ok s') (hc : Clean s s') (ha : s.afterError = false) (hn : Norm s) :
    ∃ w, s.kinds = w ++ s'.kinds ∧ VW w ∧ s'.afterError = false := by
  obtain ⟨w, hw⟩ := suffix_exec defs rcv input _ _ _ _ hi h
  exact ⟨w, hw, ⟨n, s, s', hn, h, hc, hw⟩, clean_afterError defs rcv h hc ha⟩

theorem ident_clean {n : Nat} {msg : String} {s s' : PState}
    (h : exec defs rcv (n+11) (orError (call .identifier) msg) s = .ok s') (hc : Clean s s') :
    s.kinds = TokenKind.Id :: s'.kinds ∧ s'.afterError = false := by
  obtain ⟨h1, f1⟩ := orError_inv h hc
  exact identifier_inv h1 hc f1

/-! ### `dump`, `defvar`, `assert` -/

theorem conv_dump (input : List Char) (n : Nat) (s s' : PState) (hi : Inv input s)
    (h : exec defs rcv n (call .dump) s = .ok s') (hc : Clean s s') :
    ∃ w, s.kinds = w ++ s'.kinds ∧ DV VW (.nt .Dump_) w := by
  have h := call_inv defs rcv (lift_fuel h 30)
  simp only [defs, seqs] at h
  obtain ⟨s1, h1, _, h, hc⟩ := seq_inv defs rcv h hc
  have i1 := inv_exec defs rcv input _ _ _ _ hi h1
  have e1 := startNode_inv defs rcv h1; subst e1
  obtain ⟨s2, h2, _, h, hc⟩ := seq_inv defs rcv h hc
  have i2 := inv_exec defs rcv input _ _ _ _ i1 h2
  obtain ⟨k2, a2, n2⟩ := assertTok_cleanN (by decide) h2
  obtain ⟨s3, h3, c3, h, hc⟩ := seq_inv defs rcv h hc
  obtain ⟨wv, k3, dv, a3⟩ := value_clean i2 h3 c3 a2 n2
  obtain ⟨s4, h4, c4, h, hc⟩ := seq_inv defs rcv h hc
  obtain ⟨k4, _⟩ := expect_clean (by decide) h4 c4 a3
  obtain ⟨k5, _, _, _⟩ := finishNode_same (finishNode_inv defs rcv h)
  refine ⟨TokenKind.Dump :: (wv ++ [TokenKind.Semi]), ?_, ?_⟩
  · rw [← startNode_kinds s .Dump, k2, k3, k4, k5]; simp
  · exact DV.nt (dv_tokSeq (DV.seq (DV.val dv) (dv_tok1 _)))

theorem conv_defvar (input : List Char) (n : Nat) (s s' : PState) (hi : Inv input s)
    (h : exec defs rcv n (call .defvar) s = .ok s') (hc : Clean s s') :
    ∃ w, s.kinds = w ++ s'.kinds ∧ DV VW (.nt .Defvar_) w := by
  have h := call_inv defs rcv (lift_fuel h 30)
  simp only [defs, seqs] at h
  obtain ⟨s1, h1, _, h, hc⟩ := seq_inv defs rcv h hc
  have i1 := inv_exec defs rcv input _ _ _ _ hi h1
  have e1 := startNode_inv defs rcv h1; subst e1
  obtain ⟨s2, h2, _, h, hc⟩ := seq_inv defs rcv h hc
  have i2 := inv_exec defs rcv input _ _ _ _ i1 h2
  obtain ⟨k2, a2⟩ := assertTok_clean (by decide) h2
  obtain ⟨s3, h3, c3, h, hc⟩ := seq_inv defs rcv h hc
  have i3 := inv_exec defs rcv input _ _ _ _ i2 h3
  obtain ⟨k3, a3⟩ := ident_clean h3 c3
  obtain ⟨s4, h4, c4, h, hc⟩ := seq_inv defs rcv h hc
  have i4 := inv_exec defs rcv input _ _ _ _ i3 h4
  obtain ⟨k4, a4, n4⟩ := expect_cleanN (by decide) h4 c4 a3
  obtain ⟨s5, h5, c5, h, hc⟩ := seq_inv defs rcv h hc
  obtain ⟨wv, k5, dv, a5⟩ := value_clean i4 h5 c5 a4 n4
  obtain ⟨s6, h6, c6, h, hc⟩ := seq_inv defs rcv h hc
  obtain ⟨k6, _⟩ := expect_clean (by decide) h6 c6 a5
  obtain ⟨k7, _, _, _⟩ := finishNode_same (finishNode_inv defs rcv h)
  refine ⟨TokenKind.Defvar :: TokenKind.Id :: TokenKind.Equal :: (wv ++ [TokenKind.Semi]), ?_, ?_⟩
  · rw [← startNode_kinds s .Defvar, k2, k3, k4, k5, k6, k7]; simp
  · exact DV.nt (dv_tokSeq (DV.seq (u := [TokenKind.Id]) dv_identifier
      (dv_tokSeq (DV.seq (DV.val dv) (dv_tok1 _)))))

theorem conv_assert (input : List Char) (n : Nat) (s s' : PState) (hi : Inv input s)
    (h : exec defs rcv n (call .assert_) s = .ok s') (hc : Clean s s') :
    ∃ w, s.kinds = w ++ s'.kinds ∧ DV VW (.nt .Assert_) w := by
  have h := call_inv defs rcv (lift_fuel h 30)
  simp only [defs, seqs] at h
  obtain ⟨s1, h1, _, h, hc⟩ := seq_inv defs rcv h hc
  have i1 := inv_exec defs rcv input _ _ _ _ hi h1
  have e1 := startNode_inv defs rcv h1; subst e1
  obtain ⟨s2, h2, _, h, hc⟩ := seq_inv defs rcv h hc
  have i2 := inv_exec defs rcv input _ _ _ _ i1 h2
  obtain ⟨k2, a2, n2⟩ := assertTok_cleanN (by decide) h2
  obtain ⟨s3, h3, c3, h, hc⟩ := seq_inv defs rcv h hc
  have i3 := inv_exec defs rcv input _ _ _ _ i2 h3
  obtain ⟨w1, k3, d1, a3⟩ := value_clean i2 h3 c3 a2 n2
  obtain ⟨s4, h4, c4, h, hc⟩ := seq_inv defs rcv h hc
  have i4 := inv_exec defs rcv input _ _ _ _ i3 h4
  obtain ⟨k4, a4, n4⟩ := expect_cleanN (by decide) h4 c4 a3
  obtain ⟨s5, h5, c5, h, hc⟩ := seq_inv defs rcv h hc
  obtain ⟨w2, k5, d2, a5⟩ := value_clean i4 h5 c5 a4 n4
  obtain ⟨s6, h6, c6, h, hc⟩ := seq_inv defs rcv h hc
  obtain ⟨k6, _⟩ := expect_clean (by decide) h6 c6 a5
  obtain ⟨k7, _, _, _⟩ := finishNode_same (finishNode_inv defs rcv h)
  refine ⟨TokenKind.Assert :: (w1 ++ TokenKind.Comma :: (w2 ++ [TokenKind.Semi])), ?_, ?_⟩
  · rw [← startNode_kinds s .Assert, k2, k3, k4, k5, k6, k7]; simp
  · exact DV.nt (dv_tokSeq (DV.seq (DV.val d1) (dv_tokSeq (DV.seq (DV.val d2) (dv_tok1 _)))))

end C04L
end Tg
