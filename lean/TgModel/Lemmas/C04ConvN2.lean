/-
C04 converse for whole statements (part 2): comma-separated lists with a shape condition that sees the
token before each item, bit ranges, and types under the shape predicate.
-/
import TgModel.Lemmas.C04ConvN1

namespace Tg
namespace C04L
open Prog Grammar Frag Doc

local notation "rcv" => Tables.recoverTokens

theorem eat_inv {n : Nat} {s s' : PState} (h : exec defs rcv (n+1) eat s = .ok s') : s.eat = .ok s' := by
  rw [exec] at h; exact h

/-- `eat` on a plain look-ahead -/
theorem eat_cleanN {n : Nat} {k : TokenKind} {s s' : PState} (hk : s.cur = k) (hp : plain k = true)
    (h : exec defs rcv (n+1) eat s = .ok s') :
    s.kinds = k :: s'.kinds ∧ s'.afterError = false ∧ Norm s' := by
  have he := eat_inv h
  have hp' : k.isTrivia = false ∧ k ≠ .Error ∧ k ≠ .Eof := by simpa [plain, and_assoc] using hp
  have hn : Norm s := by unfold Norm; rw [hk]; exact hp'.1
  obtain ⟨h1, h2, _, h4⟩ := eat_props hn (by rw [hk]; exact hp'.2.1) (by rw [hk]; exact hp'.2.2) he
  exact ⟨by rw [h1, hk], h4, h2⟩

/-! ### separator loops whose items want a proper look-ahead -/

/-- `sep_inv` with `Norm` handed to every item (the loop is entered after a token was eaten, and every
further item comes after an eaten comma) -/
theorem sepN_inv (input : List Char) (stop : List TokenKind) (item : Prog) (Q : List TokenKind → Prop)
    (hitem : ∀ (n : Nat) (a b : PState), Inv input a → Norm a → exec defs rcv n item a = .ok b → Clean a b →
      a.afterError = false → ∃ w, a.kinds = w ++ b.kinds ∧ b.afterError = false ∧ Q w) :
    ∀ (n : Nat) (s s' : PState),
      exec defs rcv n (loop (ifAt stop (retB false) (seq item (eatIf .Comma))) nop) s = .ok s' → Clean s s' →
      s.afterError = false → Inv input s → Norm s →
      ∃ w b, s.kinds = w ++ s'.kinds ∧ s'.afterError = false ∧ SepList Q b w ∧
        (b = true → stop.contains s'.cur = true) ∧ (b = false → s'.cur ≠ .Comma ∧ stop.contains s.cur = false) := by
  intro n
  induction n with
  | zero => intro s s' h; simp [exec] at h
  | succ n ih =>
    intro s s' h hc ha hi hn
    obtain ⟨s1, h1, c1, hcase⟩ := loop_inv h hc
    have h1 := lift_fuel h1 5
    rcases ifAt_inv defs rcv h1 with ⟨hstop, h1⟩ | ⟨hnstop, h1⟩
    · have e1 := retB_inv defs rcv h1; subst e1
      rcases hcase with ⟨_, rfl⟩ | ⟨hf, _⟩
      · exact ⟨[], true, rfl, ha, SepList.nil, fun _ => hstop, fun hb => by cases hb⟩
      · simp at hf
    · obtain ⟨sa, h2, c2, h3, c3⟩ := seq_inv defs rcv h1 c1
      obtain ⟨w1, k1, a1, q1⟩ := hitem _ _ _ hi hn h2 c2 ha
      have ia := inv_exec defs rcv input _ _ _ _ hi h2
      rcases eatIf_clean (by decide) h3 with ⟨_, hfl, kc, ac, nc⟩ | ⟨hne, rfl⟩
      · rcases hcase with ⟨hf, _⟩ | ⟨_, s2, hb, _, hl, cl⟩
        · rw [hfl] at hf; cases hf
        · have e2 := nop_inv defs rcv (lift_fuel hb 1)
          rw [e2] at hl cl
          have ib := inv_exec defs rcv input _ _ _ _ ia h3
          obtain ⟨w2, b, k2, a2, sl, hs1, hs2⟩ := ih _ _ hl cl ac ib nc
          refine ⟨w1 ++ TokenKind.Comma :: w2, b, by rw [k1, kc, k2]; simp, a2, SepList.cons q1 sl, hs1, ?_⟩
          intro hb'
          exact ⟨(hs2 hb').1, hnstop⟩
      · rcases hcase with ⟨_, rfl⟩ | ⟨hf, _⟩
        · exact ⟨w1, false, k1, a1, SepList.last q1, (fun hb => by cases hb), fun _ => ⟨hne, hnstop⟩⟩
        · simp at hf

/-- an item that derives from `A` if the word, *together with the token before it*, has the shape -/
def QP (P0 : List TokenKind) (A : E) (w : List TokenKind) : Prop := ∀ p ∈ P0, Shape (p :: w) → DS A w

theorem sepP_star {P0 : List TokenKind} (hC : TokenKind.Comma ∈ P0) {A : E} {w : List TokenKind}
    (h : SepList (QP P0 A) false w) (hT : Shape (TokenKind.Comma :: w)) :
    DS (.star (.seq (.tok [TokenKind.Comma]) A)) (TokenKind.Comma :: w) := by
  generalize hb : false = b at h
  induction h with
  | nil => cases hb
  | last hq => exact ds_cast (DVN.starCons (ds_tokSeq (hq _ hC hT)) DVN.starNil) (by simp)
  | @cons u rest b hq _ ih =>
    have h1 : Shape (TokenKind.Comma :: u) := Shape.left (u := TokenKind.Comma :: u) (v := TokenKind.Comma :: rest) hT
    have h2 : Shape (TokenKind.Comma :: rest) := Shape.right (u := TokenKind.Comma :: u) (v := TokenKind.Comma :: rest) hT
    exact ds_cast (DVN.starCons (ds_tokSeq (hq _ hC h1)) (ih h2 hb)) (by simp)

/-- `A ("," A)*` -/
theorem sepP_derives {P0 : List TokenKind} (hC : TokenKind.Comma ∈ P0) {A : E} {w : List TokenKind} {p0 : TokenKind}
    (hp0 : p0 ∈ P0) (h : SepList (QP P0 A) false w) (hT : Shape (p0 :: w)) :
    DS (.seq A (.star (.seq (.tok [TokenKind.Comma]) A))) w := by
  cases h with
  | last hq => exact ds_seq_nil (hq _ hp0 hT) DVN.starNil
  | @cons u rest _ hq hr =>
    have h1 : Shape (p0 :: u) := Shape.left (u := p0 :: u) (v := TokenKind.Comma :: rest) hT
    have h2 : Shape (TokenKind.Comma :: rest) := Shape.right (u := p0 :: u) (v := TokenKind.Comma :: rest) hT
    exact DVN.seq (hq _ hp0 h1) (sepP_star hC hr h2)

theorem qp_of {P0 : List TokenKind} {A : E} {w : List TokenKind} (h : Shape w → DS A w) : QP P0 A w :=
  fun _ _ hs => h hs.tail

theorem qp_always {P0 : List TokenKind} {A : E} {w : List TokenKind} (h : DS A w) : QP P0 A w :=
  fun _ _ _ => h

/-! ### bit ranges -/

theorem range_piece_inv (n : Nat) (s s' : PState) (h : exec defs rcv n (call .range_piece) s = .ok s')
    (hc : Clean s s') :
    ∃ w, s.kinds = w ++ s'.kinds ∧ s'.afterError = false ∧ Derives (.nt .RangePiece_) w := by
  have h := call_inv defs rcv (lift_fuel h 40)
  simp only [defs, seqs] at h
  obtain ⟨s1, h1, _, h, hc⟩ := seq_inv defs rcv h hc
  have e1 := startNode_inv defs rcv h1; subst e1
  obtain ⟨s2, h2, c2, h, hc⟩ := seq_inv defs rcv h hc
  obtain ⟨h2, f2⟩ := orError_inv h2 c2
  obtain ⟨b1, k2, a2⟩ := integer_inv h2 c2 f2
  obtain ⟨s3, h3, c3, h, hc⟩ := seq_inv defs rcv h hc
  obtain ⟨s4, h4, c4, h5, _⟩ := seq_inv defs rcv h hc
  have e5 := same_retB h5
  have e4 := same_finishNode h4
  have kk : s'.kinds = s3.kinds := by rw [e5.kinds, e4.kinds]
  have aa : s'.afterError = s3.afterError := by rw [e5.after, e4.after]
  have k0 : (s.startNode SyntaxKind.RangePiece).kinds = s.kinds := rfl
  rcases ifAt_inv defs rcv h3 with ⟨hat, h3⟩ | ⟨_, h3⟩
  · obtain ⟨s6, h6, c6, h7, c7⟩ := seq_inv defs rcv h3 c3
    obtain ⟨h7, f7⟩ := orError_inv h7 c7
    obtain ⟨b2, k7, a7⟩ := integer_inv h7 c7 f7
    have hcur : s2.cur = .DotDotDot ∨ s2.cur = .Minus := by
      simpa using hat
    rcases hcur with hcur | hcur
    · obtain ⟨k6, _, _⟩ := eat_cleanN hcur (by decide) h6
      exact ⟨_, by rw [← k0, k2, k6, k7, kk]; rfl, by rw [aa]; exact a7, d_rangePiece (.dots b1 b2)⟩
    · obtain ⟨k6, _, _⟩ := eat_cleanN hcur (by decide) h6
      exact ⟨_, by rw [← k0, k2, k6, k7, kk]; rfl, by rw [aa]; exact a7, d_rangePiece (.minus b1 b2)⟩
  · rcases ifAt_inv defs rcv h3 with ⟨_, h3⟩ | ⟨_, h3⟩
    · obtain ⟨h3, f3⟩ := orError_inv h3 c3
      obtain ⟨b2, k3, a3⟩ := integer_inv h3 c3 f3
      exact ⟨[intKind b1, intKind b2], by rw [← k0, k2, k3, kk]; rfl, by rw [aa]; exact a3,
        Derives.nt (Derives.altR (Derives.altR (Derives.altR (Derives.seq (d_integer b1) (d_integer b2)))))⟩
    · have e3 := same_nop h3
      exact ⟨_, by rw [← k0, k2, kk, e3.kinds]; rfl, by rw [aa, e3.after]; exact a2, d_rangePiece (.single b1)⟩

/-- `RangePiece ("," RangePiece)*`; left at the end of the input otherwise -/
theorem range_list_inv (input : List Char) (n : Nat) (s s' : PState) (hi : Inv input s)
    (h : exec defs rcv n (call .range_list) s = .ok s') (hc : Clean s s') (ha : s.afterError = false) :
    ∃ w, s.kinds = w ++ s'.kinds ∧ s'.afterError = false ∧ (s'.cur = .Eof ∨ Derives (.nt .RangeList_) w) := by
  have h := call_inv defs rcv (lift_fuel h 40)
  simp only [defs, seqs, sepLoop] at h
  obtain ⟨s1, h1, _, h, hc⟩ := seq_inv defs rcv h hc
  have i1 := inv_exec defs rcv input _ _ _ _ hi h1
  have e1 := startNode_inv defs rcv h1; subst e1
  obtain ⟨s2, h2, c2, h, hc⟩ := seq_inv defs rcv h hc
  obtain ⟨s3, h3, _, h4, _⟩ := seq_inv defs rcv h hc
  have e3 := same_finishNode h3
  have e4 := same_retB h4
  obtain ⟨w, b, k2, a2, sl, hb1, _⟩ := sep_inv _ _ (fun w => Derives (.nt .RangePiece_) w) (Inv input)
    (fun n p a b ia hab => inv_exec defs rcv input n p a b ia hab)
    (fun n a b _ hab cab _ => range_piece_inv n a b hab cab) _ _ _ h2 c2 ha i1
  refine ⟨w, by rw [e4.kinds, e3.kinds]; exact k2, by rw [e4.after, e3.after]; exact a2, ?_⟩
  cases b with
  | true =>
    left
    have := hb1 rfl
    rw [e4.cur, e3.cur]
    simpa using this
  | false =>
    right
    -- `A ("," A)*` from the separated list
    have key : ∀ {b : Bool} {w : List TokenKind}, SepList (fun w => Derives (.nt .RangePiece_) w) b w → b = false →
        Derives (.star (.seq (.tok [TokenKind.Comma]) (.nt .RangePiece_))) (TokenKind.Comma :: w) := by
      intro b w sl
      induction sl with
      | nil => intro hb; cases hb
      | last hq =>
        intro _
        exact d_cast (Derives.starCons (d_tokSeq (List.mem_singleton.mpr rfl) hq) Derives.starNil) (by simp)
      | cons hq _ ih =>
        intro hb
        exact d_cast (Derives.starCons (d_tokSeq (List.mem_singleton.mpr rfl) hq) (ih hb)) (by simp)
    cases sl with
    | last hq => exact Derives.nt (d_seq_nil hq Derives.starNil)
    | cons hq hr => exact Derives.nt (Derives.seq hq (key hr rfl))

/-- `(bra RangeList ket)?` -/
theorem opt_range_inv (input : List Char) (bra ket : TokenKind) (msg : Option String) (hb : plain bra = true)
    (hk : plain ket = true) (n : Nat) (s s' : PState) (hi : Inv input s)
    (h : exec defs rcv n (ifEatIf bra (seq (call .range_list) (expect ket msg)) nop) s = .ok s') (hc : Clean s s')
    (ha : s.afterError = false) :
    ∃ w, s.kinds = w ++ s'.kinds ∧ s'.afterError = false ∧
      Derives (.opt (.seq (.tok [bra]) (.seq (.nt .RangeList_) (.tok [ket])))) w := by
  have h := lift_fuel h 10
  simp only [ifEatIf] at h
  obtain ⟨s1, h1, c1, h2, c2⟩ := seq_inv defs rcv h hc
  have i1 := inv_exec defs rcv input _ _ _ _ hi h1
  rcases eatIf_clean hb h1 with ⟨_, hfl, k1, a1, _⟩ | ⟨_, rfl⟩
  · rcases ifFlag_inv defs rcv h2 with ⟨_, h2⟩ | ⟨hf, _⟩
    · obtain ⟨s3, h3, c3, h4, c4⟩ := seq_inv defs rcv h2 c2
      obtain ⟨w, k3, a3, d3⟩ := range_list_inv input _ _ _ i1 h3 c3 a1
      obtain ⟨hcur, k4, a4, _⟩ := expect_cleanC hk h4 c4 a3
      refine ⟨bra :: (w ++ [ket]), by rw [k1, k3, k4]; simp, a4, ?_⟩
      rcases d3 with he | d3
      · rw [he] at hcur; subst hcur; simp [plain] at hk
      · exact Derives.optSome (d_tokSeq (List.mem_singleton.mpr rfl) (Derives.seq d3 (d_tok1 _)))
    · rw [hfl] at hf; cases hf
  · rcases ifFlag_inv defs rcv h2 with ⟨hf, _⟩ | ⟨_, h2⟩
    · simp at hf
    · have e := same_nop h2
      exact ⟨[], by rw [e.kinds]; rfl, by rw [e.after]; exact ha, Derives.optNone⟩

end C04L
end Tg
