/-
C04 converse for values, tree-checked lists (part 5): class values, bang operators, `!cond`, the dispatch of
`simple_value`.  (The lemmas of `C04ConvV5`, relative to a context.)
-/
import TgModel.Lemmas.C04VJ4

namespace Tg
namespace C04L
open Prog Grammar Frag Doc

local notation "rcv" => Tables.recoverTokens

/-! ### argument values, with `value` by the induction hypothesis -/

theorem arg_valueV_invJ (C : RunCtx) (L : Nat) (hV : ValHJ C L) (n : Nat) (a b : PState) (hl : a.kinds.length < L)
    (hi : C.I a) (h : exec defs rcv n (call .arg_value) a = .ok b) (hc : Clean a b) :
    ∃ w, a.kinds = w ++ b.kinds ∧ b.afterError = false ∧ (C.J b → QV0 (.nt .ArgValue_) w) := by
  have h := call_inv defs rcv (lift_fuel h 40)
  simp only [defs, seqs, ifEatIf] at h
  obtain ⟨s1, h1, _, h, hc⟩ := seq_inv defs rcv h hc
  have i1 := C.hI _ _ _ _ hi h1
  have e1 := same_pushCp h1
  obtain ⟨s2, h2, c2, h, hc⟩ := seq_inv defs rcv h hc
  have i2 := C.hI _ _ _ _ i1 h2
  have b2 := C.hJ _ _ _ _ i2 h
  obtain ⟨w1, k2, a2, d1⟩ := hV _ _ _ (by rw [e1.kinds]; exact hl) i1 h2 c2
  obtain ⟨s3, h3, c3, h9, _⟩ := seq_inv defs rcv h hc
  have i3 := C.hI _ _ _ _ i2 h3
  have b9 := C.hJ _ _ _ _ i3 h9
  have e9 := same_popCp h9
  obtain ⟨s4, h4, c4, h5, c5⟩ := seq_inv defs rcv h3 c3
  have i4 := C.hI _ _ _ _ i2 h4
  have l2 : s2.kinds.length ≤ a.kinds.length := by
    have : a.kinds = w1 ++ s2.kinds := by rw [← e1.kinds]; exact k2
    exact kinds_len_le this
  rcases eatIf_clean (by decide) h4 with ⟨_, hfl, k4, a4, _⟩ | ⟨_, rfl⟩
  · rcases ifFlag_inv defs rcv h5 with ⟨_, h5⟩ | ⟨hf, _⟩
    · obtain ⟨s6, h6, c6, h5, c5⟩ := seq_inv defs rcv h5 c5
      have i6 := C.hI _ _ _ _ i4 h6
      have e6 := same_startNodeAtCp h6
      obtain ⟨s7, h7, c7, h5, c5⟩ := seq_inv defs rcv h5 c5
      have i7 := C.hI _ _ _ _ i6 h7
      have b7 := C.hJ _ _ _ _ i7 h5
      have l6 : s6.kinds.length < L := by
        have : s2.kinds = [TokenKind.Equal] ++ s4.kinds := k4
        rw [e6.kinds]
        exact Nat.lt_trans (kinds_len_lt this (by simp)) (Nat.lt_of_le_of_lt l2 hl)
      obtain ⟨w2, k7, a7, d2⟩ := hV _ _ _ l6 i6 h7 c7
      obtain ⟨s8, h8, _, h10, _⟩ := seq_inv defs rcv h5 c5
      have e8 := same_finishNode h8
      have e10 := same_setLocal h10
      refine ⟨w1 ++ TokenKind.Equal :: w2, ?_, by rw [e9.after, e10.after, e8.after]; exact a7, ?_⟩
      · rw [← e1.kinds, k2, k4, ← e6.kinds, k7, e9.kinds, e10.kinds, e8.kinds]; simp
      · intro j hs
        have hs2 : VShape0 w2 := (hs.right (u := w1)).tail
        exact Derives.nt (Derives.altR (Derives.nt (Derives.seq (d1 (b2 j) hs.left)
          (d_tokSeq (List.mem_singleton.mpr rfl) (d2 (b7 (b9 j)) hs2)))))
    · rw [hfl] at hf; cases hf
  · rcases ifFlag_inv defs rcv h5 with ⟨hf, _⟩ | ⟨_, h5⟩
    · simp at hf
    · obtain ⟨s6, h6, c6, h5, c5⟩ := seq_inv defs rcv h5 c5
      have e6 := same_startNodeAtCp h6
      obtain ⟨s7, h7, c7, h8, c8⟩ := seq_inv defs rcv h5 c5
      have e7 := same_finishNode h7
      have e8 : Same s7 s3 := by
        rcases ifLocal_inv h8 with h8 | h8
        · exact (error_inv defs rcv h8 c8).elim
        · exact same_nop h8
      have e6' : s6.kinds = s2.kinds := e6.kinds
      have e6'' : s6.afterError = s2.afterError := e6.after
      refine ⟨w1, ?_, by rw [e9.after, e8.after, e7.after, e6'']; exact a2, fun j hs => ?_⟩
      · rw [← e1.kinds, k2, e9.kinds, e8.kinds, e7.kinds, e6']
      · exact Derives.nt (Derives.altL (Derives.nt (d1 (b2 j) hs)))

theorem arg_value_listV_invJ (C : RunCtx) (L : Nat) (hV : ValHJ C L) (n : Nat) (s s' : PState) (hl : s.kinds.length < L)
    (hi : C.I s) (h : exec defs rcv n (call .arg_value_list) s = .ok s') (hc : Clean s s')
    (ha : s.afterError = false) :
    ∃ w, s.kinds = w ++ s'.kinds ∧ s'.afterError = false ∧
      (s'.cur = .Eof ∨ (C.J s' → QV0 (.nt .ArgValueList_) w)) := by
  have h := call_inv defs rcv (lift_fuel h 40)
  simp only [defs, seqs, sepLoop] at h
  obtain ⟨s1, h1, _, h, hc⟩ := seq_inv defs rcv h hc
  have i1 := C.hI _ _ _ _ hi h1
  have e1 := same_startNode h1
  obtain ⟨s2, h2, c2, h, _⟩ := seq_inv defs rcv h hc
  have i2 := C.hI _ _ _ _ i1 h2
  have b2 := C.hJ _ _ _ _ i2 h
  have e9 := same_finishNode h
  rcases ifAt_inv defs rcv h2 with ⟨_, h2⟩ | ⟨_, h2⟩
  · obtain ⟨s3, h3, c3, h2, c2⟩ := seq_inv defs rcv h2 c2
    have i3 := C.hI _ _ _ _ i1 h3
    have e3 := same_pushLocal h3
    obtain ⟨s4, h4, c4, h5, _⟩ := seq_inv defs rcv h2 c2
    have i4 := C.hI _ _ _ _ i3 h4
    have b4 := C.hJ _ _ _ _ i4 h5
    have e5 := same_popLocal h5
    obtain ⟨w, b, k4, a4, sl, hb1⟩ := sepLJ_inv C L [TokenKind.Eof] _ _ (arg_valueV_invJ C L hV) _ _ _
      (by rw [e3.kinds, e1.kinds]; exact hl) i3 h4 c4 (by rw [e3.after, e1.after]; exact ha)
    refine ⟨w, ?_, by rw [e9.after, e5.after]; exact a4, ?_⟩
    · rw [← e1.kinds, ← e3.kinds, k4, e9.kinds, e5.kinds]
    · cases b with
      | true =>
        left
        have := hb1 rfl
        rw [e9.cur, e5.cur]
        simpa using this
      | false => exact Or.inr fun j hs => Derives.nt (Derives.optSome (sepV0_derives (sl (b4 (b2 j))) hs))
  · have e2 := same_nop h2
    exact ⟨[], by rw [e9.kinds, e2.kinds, e1.kinds]; rfl, by rw [e9.after, e2.after, e1.after]; exact ha,
      Or.inr fun _ _ => Derives.nt Derives.optNone⟩

/-- an identifier, or a class value `Id "<" args ">"` -/
theorem ident_armJ (C : RunCtx) (L : Nat) (hV : ValHJ C L) {n : Nat} {s s' : PState} (hl : s.kinds.length ≤ L) (hi : C.I s)
    (hcur : s.cur = .Id)
    (h : exec defs rcv n (call .identifier_or_class_value) s = .ok s') (hc : Clean s s') :
    VConvJ C s s' (.nt .SimpleValue_) := by
  have h := call_inv defs rcv (lift_fuel h 40)
  simp only [defs, seqs, ifEatIf, classValueTail] at h
  obtain ⟨s1, h1, _, h, hc⟩ := seq_inv defs rcv h hc
  have i1 := C.hI _ _ _ _ hi h1
  have e1 := same_pushCp h1
  obtain ⟨s2, h2, c2, h, hc⟩ := seq_inv defs rcv h hc
  have i2 := C.hI _ _ _ _ i1 h2
  obtain ⟨k2, f2, a2, _⟩ := ident_at h2 c2 (show s1.cur = .Id by rw [e1.cur]; exact hcur)
  obtain ⟨s3, h3, c3, h9, _⟩ := seq_inv defs rcv h hc
  have i3 := C.hI _ _ _ _ i2 h3
  have b9 := C.hJ _ _ _ _ i3 h9
  have e9 := same_popCp h9
  have k02 : s.kinds = [TokenKind.Id] ++ s2.kinds := by rw [← e1.kinds, k2]; rfl
  rcases ifFlag_inv defs rcv h3 with ⟨_, h3⟩ | ⟨hf, _⟩
  · obtain ⟨s4, h4, c4, h5, c5⟩ := seq_inv defs rcv h3 c3
    have i4 := C.hI _ _ _ _ i2 h4
    rcases eatIf_clean (by decide) h4 with ⟨_, hfl, k4, a4, _⟩ | ⟨_, rfl⟩
    · rcases ifFlag_inv defs rcv h5 with ⟨_, h5⟩ | ⟨hf, _⟩
      · obtain ⟨s6, h6, _, h5, c5⟩ := seq_inv defs rcv h5 c5
        have i6 := C.hI _ _ _ _ i4 h6
        have e6 := same_startNodeAtCp h6
        obtain ⟨s7, h7, c7, h5, c5⟩ := seq_inv defs rcv h5 c5
        have i7 := C.hI _ _ _ _ i6 h7
        have b7 := C.hJ _ _ _ _ i7 h5
        have l6 : s6.kinds.length < L := by
          have : s.kinds = [TokenKind.Id, TokenKind.Less] ++ s4.kinds := by rw [k02, k4]; rfl
          rw [e6.kinds]
          exact Nat.lt_of_lt_of_le (kinds_len_lt this (by simp)) hl
        obtain ⟨wa, k7, a7, d7⟩ := arg_value_listV_invJ C L hV _ _ _ l6 i6 h7 c7 (by rw [e6.after]; exact a4)
        obtain ⟨s8, h8, c8, h5, c5⟩ := seq_inv defs rcv h5 c5
        obtain ⟨hcur8, k8, a8, _⟩ := expect_cleanC (by decide) h8 c8 a7
        obtain ⟨s10, h10, _, h11, _⟩ := seq_inv defs rcv h5 c5
        have e10 := same_finishNode h10
        have e11 := same_retB h11
        refine ⟨TokenKind.Id :: TokenKind.Less :: (wa ++ [TokenKind.Greater]), ?_,
          by rw [e9.after, e11.after, e10.after]; exact a8, ?_⟩
        · rw [k02, k4, ← e6.kinds, k7, k8, e9.kinds, e11.kinds, e10.kinds]; simp
        · intro j hs
          rcases d7 with he | d7
          · rw [he] at hcur8; cases hcur8
          · have hw : VShape0 wa := VShape0.infix (u := [TokenKind.Id, TokenKind.Less]) (x := [TokenKind.Greater])
              (by simpa using hs)
            exact sv9 (Derives.nt (Derives.altL (Derives.seq (u := [TokenKind.Id]) d_identifier
              (d_tokSeq (List.mem_singleton.mpr rfl) (Derives.seq (d7 (b7 (b9 j)) hw) (d_tok1 _))))))
      · rw [hfl] at hf; cases hf
    · rcases ifFlag_inv defs rcv h5 with ⟨hf, _⟩ | ⟨_, h5⟩
      · simp at hf
      · have e5 := same_retB h5
        have e5' : s3.kinds = s2.kinds := e5.kinds
        have e5'' : s3.afterError = s2.afterError := e5.after
        exact ⟨[TokenKind.Id], by rw [k02, e9.kinds, e5'], by rw [e9.after, e5'']; exact a2,
          fun _ _ => sv8 d_identifier⟩
  · rw [f2] at hf; cases hf

/-! ### bang operators and `!cond` -/

theorem bang_plain' {k : TokenKind} (hk : Tables.bangOps.contains k = true) : plain k = true := by
  have h : ∀ x ∈ Tables.bangOps, plain x = true := by decide
  exact h k (by simpa using hk)

theorem bang_armJ (C : RunCtx) (L : Nat) (hV : ValHJ C L) {n : Nat} {s s' : PState} (hl : s.kinds.length ≤ L)
    (hi : C.I s) (hcur : Tables.bangOps.contains s.cur = true)
    (h : exec defs rcv n (call .bang_operator) s = .ok s') (hc : Clean s s') : VConvJ C s s' (.nt .SimpleValue_) := by
  have h := call_inv defs rcv (lift_fuel h 40)
  simp only [defs, seqs, ifEatIf] at h
  obtain ⟨s1, h1, _, h, hc⟩ := seq_inv defs rcv h hc
  have i1 := C.hI _ _ _ _ hi h1
  have e1 := same_startNode h1
  rcases ifAt_inv defs rcv h with ⟨_, h⟩ | ⟨hat, _⟩
  · obtain ⟨s2, h2, _, h, hc⟩ := seq_inv defs rcv h hc
    have i2 := C.hI _ _ _ _ i1 h2
    obtain ⟨k2, a2, _⟩ := eat_cleanN (k := s.cur) e1.cur (bang_plain hcur) h2
    have k02 : s.kinds = [s.cur] ++ s2.kinds := by rw [← e1.kinds, k2]; rfl
    obtain ⟨s3, h3, c3, h, hc⟩ := seq_inv defs rcv h hc
    have i3 := C.hI _ _ _ _ i2 h3
    obtain ⟨s4, h4, c4, h, hc⟩ := seq_inv defs rcv h hc
    have i4 := C.hI _ _ _ _ i3 h4
    have b4 := C.hJ _ _ _ _ i4 h
    obtain ⟨s5, h5, _, h6, _⟩ := seq_inv defs rcv h hc
    have e5 := same_finishNode h5
    have e6 := same_retB h6
    -- the optional type
    have hty : ∃ wt, s2.kinds = wt ++ s3.kinds ∧ s3.afterError = false ∧
        (VShape0 wt → Derives (.opt (.seq (.tok [TokenKind.Less]) (.seq (.nt .Type_) (.tok [TokenKind.Greater])))) wt) := by
      obtain ⟨t1, g1, gc1, g2, gc2⟩ := seq_inv defs rcv h3 c3
      rcases eatIf_clean (by decide) g1 with ⟨_, hfl, kk1, aa1, _⟩ | ⟨_, rfl⟩
      · rcases ifFlag_inv defs rcv g2 with ⟨_, g2⟩ | ⟨hf, _⟩
        · obtain ⟨t3, g3, gc3, g4, gc4⟩ := seq_inv defs rcv g2 gc2
          obtain ⟨t, kt, at'⟩ := type_inv _ _ _ _ (Nat.le_refl _) g3 gc3
          obtain ⟨kg, ag⟩ := expect_clean (by decide) g4 gc4 at'
          refine ⟨TokenKind.Less :: (t.render ++ [TokenKind.Greater]), by rw [kk1, kt, kg]; simp, ag, fun hs => ?_⟩
          have ht : VShape0 (TokenKind.Less :: t.render) :=
            VShape0.left (u := TokenKind.Less :: t.render) (v := [TokenKind.Greater]) (by simpa using hs)
          exact Derives.optSome (d_tokSeq (List.mem_singleton.mpr rfl) (Derives.seq (ty_docV0 ht) (d_tok1 _)))
        · rw [hfl] at hf; cases hf
      · rcases ifFlag_inv defs rcv g2 with ⟨hf, _⟩ | ⟨_, g2⟩
        · simp at hf
        · have e := same_nop g2
          have e' : s3.kinds = s2.kinds := e.kinds
          have e'' : s3.afterError = s2.afterError := e.after
          exact ⟨[], by rw [e']; rfl, by rw [e'']; exact a2, fun _ => Derives.optNone⟩
    obtain ⟨wt, kt, at3, dt⟩ := hty
    have l3 : s3.kinds.length ≤ L := by
      have : s.kinds = ([s.cur] ++ wt) ++ s3.kinds := by rw [k02, kt]; simp
      exact Nat.le_trans (kinds_len_le this) hl
    obtain ⟨ws, b, kd, ad, _, sl⟩ := delimJ_inv C L .LParen .RParen _ _ (by decide) (by decide)
      (value_itemJ C L hV) _ _ _ l3 i3 (Or.inr at3) h4 c4
    refine ⟨s.cur :: (wt ++ (TokenKind.LParen :: (ws ++ [TokenKind.RParen]))), ?_,
      by rw [e6.after, e5.after]; exact ad, ?_⟩
    · rw [k02, kt, kd, e6.kinds, e5.kinds]; simp
    · intro j hs
      have h1 : VShape0 (wt ++ (TokenKind.LParen :: (ws ++ [TokenKind.RParen]))) := hs.tail
      have d := delim0_derives (bra := .LParen) (ket := .RParen) (x := []) (by decide) (by decide) (sl (b4 j))
        (by simpa using h1.right)
      exact sv10 (Derives.nt (Derives.altR (d_tokSeq (bang_doc s.cur hcur) (Derives.seq (dt h1.left)
        (d_tokSeq (List.mem_singleton.mpr rfl) (Derives.seq (Derives.nt d) (d_tok1 _)))))))
  · rw [e1.cur, hcur] at hat; cases hat

theorem cond_clause_invJ (C : RunCtx) (L : Nat) (hV : ValHJ C L) (n : Nat) (a b : PState) (hl : a.kinds.length < L)
    (hi : C.I a) (h : exec defs rcv n (call .cond_clause) a = .ok b) (hc : Clean a b) :
    ∃ w, a.kinds = w ++ b.kinds ∧ b.afterError = false ∧ (C.J b → QV0 (.nt .CondClause_) w) := by
  have h := call_inv defs rcv (lift_fuel h 40)
  simp only [defs, seqs] at h
  obtain ⟨s1, h1, _, h, hc⟩ := seq_inv defs rcv h hc
  have i1 := C.hI _ _ _ _ hi h1
  have e1 := same_startNode h1
  obtain ⟨s2, h2, c2, h, hc⟩ := seq_inv defs rcv h hc
  have i2 := C.hI _ _ _ _ i1 h2
  have b2 := C.hJ _ _ _ _ i2 h
  obtain ⟨w1, k2, a2, d1⟩ := hV _ _ _ (by rw [e1.kinds]; exact hl) i1 h2 c2
  obtain ⟨s3, h3, c3, h, hc⟩ := seq_inv defs rcv h hc
  have i3 := C.hI _ _ _ _ i2 h3
  obtain ⟨k3, a3⟩ := expect_clean (by decide) h3 c3 a2
  obtain ⟨s4, h4, c4, h, hc⟩ := seq_inv defs rcv h hc
  have i4 := C.hI _ _ _ _ i3 h4
  have b4 := C.hJ _ _ _ _ i4 h
  have l3 : s3.kinds.length < L := by
    have : a.kinds = (w1 ++ [TokenKind.Colon]) ++ s3.kinds := by rw [← e1.kinds, k2, k3]; simp
    exact Nat.lt_of_le_of_lt (kinds_len_le this) hl
  obtain ⟨w2, k4, a4, d2⟩ := hV _ _ _ l3 i3 h4 c4
  obtain ⟨s5, h5, _, h6, _⟩ := seq_inv defs rcv h hc
  have e5 := same_finishNode h5
  have e6 := same_retB h6
  refine ⟨w1 ++ TokenKind.Colon :: w2, ?_, by rw [e6.after, e5.after]; exact a4, ?_⟩
  · rw [← e1.kinds, k2, k3, k4, e6.kinds, e5.kinds]; simp
  · intro j hs
    have hs2 : VShape0 w2 := (hs.right (u := w1)).tail
    exact Derives.nt (Derives.seq (d1 (b2 j) hs.left) (d_tokSeq (List.mem_singleton.mpr rfl) (d2 (b4 j) hs2)))

theorem cond_armJ (C : RunCtx) (L : Nat) (hV : ValHJ C L) {n : Nat} {s s' : PState} (hl : s.kinds.length ≤ L)
    (hi : C.I s) (hcur : s.cur = .XCond)
    (h : exec defs rcv n (call .cond_operator) s = .ok s') (hc : Clean s s') : VConvJ C s s' (.nt .SimpleValue_) := by
  have h := call_inv defs rcv (lift_fuel h 40)
  simp only [defs, seqs] at h
  obtain ⟨s1, h1, _, h, hc⟩ := seq_inv defs rcv h hc
  have i1 := C.hI _ _ _ _ hi h1
  have e1 := same_startNode h1
  obtain ⟨s2, h2, _, h, hc⟩ := seq_inv defs rcv h hc
  have i2 := C.hI _ _ _ _ i1 h2
  obtain ⟨k2, a2, _⟩ := expect_hit (by decide) (show s1.cur = .XCond by rw [e1.cur]; exact hcur) h2
  have k02 : s.kinds = [TokenKind.XCond] ++ s2.kinds := by rw [← e1.kinds, k2]; rfl
  have l2 : s2.kinds.length < s.kinds.length := kinds_len_lt k02 (by simp)
  obtain ⟨s3, h3, c3, h, hc⟩ := seq_inv defs rcv h hc
  have i3 := C.hI _ _ _ _ i2 h3
  have b3 := C.hJ _ _ _ _ i3 h
  obtain ⟨ws, b, kd, ad, _, sl⟩ := delimJ_inv C L .LParen .RParen _ _ (by decide) (by decide)
    (cond_clause_invJ C L hV) _ _ _ (by omega) i2 (Or.inr a2) h3 c3
  obtain ⟨s5, h5, _, h6, _⟩ := seq_inv defs rcv h hc
  have e5 := same_finishNode h5
  have e6 := same_retB h6
  refine ⟨TokenKind.XCond :: TokenKind.LParen :: (ws ++ [TokenKind.RParen]), ?_,
    by rw [e6.after, e5.after]; exact ad, ?_⟩
  · rw [k02, kd, e6.kinds, e5.kinds]; simp
  · intro j hs
    have d := delim0_derives (bra := .LParen) (ket := .RParen) (x := []) (by decide) (by decide) (sl (b3 j))
      (by simpa using hs.tail)
    cases d with
    | seq d1 d2 =>
      exact sv11 (Derives.nt (d_tokSeq (List.mem_singleton.mpr rfl) (d_tokSeq (List.mem_singleton.mpr rfl)
        (d_cast (Derives.seq d1 (Derives.seq d2 (d_tok1 _))) (by simp)))))

/-! ### `simple_value` -/

theorem simple_value_invJ (C : RunCtx) (H : ListHook C) (L : Nat) (hV : ValHJ C L) {n : Nat} {s s' : PState}
    (hl : s.kinds.length ≤ L) (hi : C.I s)
    (h : exec defs rcv n (call .simple_value) s = .ok s') (hc : Clean s s') : VConvJ C s s' (.nt .SimpleValue_) := by
  have h := call_inv defs rcv (lift_fuel h 40)
  simp only [defs, matchPeek, simpleValueArms] at h
  rcases ifAt_inv defs rcv h with ⟨hat, h⟩ | ⟨_, h⟩
  · exact integer_armJ C h hc (by simpa using hat)
  rcases ifAt_inv defs rcv h with ⟨hat, h⟩ | ⟨_, h⟩
  · exact string_armJ C h hc (by simpa using hat)
  rcases ifAt_inv defs rcv h with ⟨hat, h⟩ | ⟨_, h⟩
  · exact code_armJ C h hc (by simpa using hat)
  rcases ifAt_inv defs rcv h with ⟨hat, h⟩ | ⟨_, h⟩
  · exact boolean_armJ C h hc (by simpa using hat)
  rcases ifAt_inv defs rcv h with ⟨hat, h⟩ | ⟨_, h⟩
  · exact uninit_armJ C h hc (by simpa using hat)
  rcases ifAt_inv defs rcv h with ⟨hat, h⟩ | ⟨_, h⟩
  · exact bits_armJ C L hV hl hi (by simpa using hat) h hc
  rcases ifAt_inv defs rcv h with ⟨hat, h⟩ | ⟨_, h⟩
  · exact list_armJ C H L hV hl hi (by simpa using hat) h hc
  rcases ifAt_inv defs rcv h with ⟨hat, h⟩ | ⟨_, h⟩
  · exact dag_armJ C L hV hl hi (by simpa using hat) h hc
  rcases ifAt_inv defs rcv h with ⟨hat, h⟩ | ⟨_, h⟩
  · exact ident_armJ C L hV hl hi (by simpa using hat) h hc
  rcases ifAt_inv defs rcv h with ⟨hat, h⟩ | ⟨_, h⟩
  · exact bang_armJ C L hV hl hi hat h hc
  rcases ifAt_inv defs rcv h with ⟨hat, h⟩ | ⟨_, h⟩
  · exact cond_armJ C L hV hl hi (by simpa using hat) h hc
  · obtain ⟨s1, h1, c1, _, _⟩ := seq_inv defs rcv h hc
    exact (errorAndRecover_inv defs rcv h1 c1).elim

end C04L
end Tg
