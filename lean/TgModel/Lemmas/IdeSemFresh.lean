/-
Variables of a block that has ended are never found again: which variable ids a scope stack binds
(`bindsVar`), the invariants `BInv` (bound ids are allocated and outside a sealed window), kept by
every function of the indexer.
-/
import TgModel.Lemmas.IdeSemGlobal
namespace Tg
namespace Ide

/-! ### which variable ids the scope stack binds -/

/-- the scope binds the variable `v` (under some name, or as the loop variable of a `foreach`) -/
def Scope.bindsVar (sc : Scope) (v : Nat) : Prop :=
  (∃ name : String, sc.nameToVariable[name]? = some v) ∨ (∃ nm, sc.kind = .foreach nm v)

def Scopes.bindsVar (s : Scopes) (v : Nat) : Prop := ∃ sc ∈ s.scopes, sc.bindsVar v

/-- number of variables allocated so far -/
def vsize (c : IndexCtx) : Nat := c.symbolMap.variableList.size

theorem findVariable_binds {sc : Scope} {name : String} {v : Nat} (h : sc.findVariable name = some v) :
    sc.bindsVar v := by
  unfold Scope.findVariable at h
  split at h
  · rename_i v' hv; cases h; exact Or.inl ⟨name, hv⟩
  · split at h
    · rename_i nm vid hk
      split at h
      · cases h; exact Or.inr ⟨nm, hk⟩
      · cases h
    · cases h

/-- a variable returned by `find_local` is bound by the scope stack -/
theorem findLocal_var_binds {s : Scopes} {sm : SymMap} {name : String} {v : Nat}
    (h : s.findLocal sm name = some (.var v)) : s.bindsVar v := by
  unfold Scopes.findLocal at h
  obtain ⟨sc, hsc, hx⟩ := List.exists_of_findSome?_eq_some h
  refine ⟨sc, hsc, ?_⟩
  cases hf : sc.findVariable name with
  | some id =>
    rw [hf] at hx
    simp only [Option.some.injEq, SymbolId.var.injEq] at hx
    subst hx
    exact findVariable_binds hf
  | none =>
    rw [hf] at hx
    simp only at hx
    split at hx
    · rename_i r hr
      split at hr
      · split at hr
        · cases hr; cases hx
        · split at hr
          · cases hr; cases hx
          · cases hr
      · cases hr
    · split at hx
      · split at hx
        · cases hx
        · cases hx
      · cases hx

@[simp] theorem pushFileSymbol_variableList (sm : SymMap) (f : Nat) (s : SymbolId) :
    (sm.pushFileSymbol f s).variableList = sm.variableList := by
  unfold SymMap.pushFileSymbol
  split <;> rfl

theorem SmStep.vsize_le {sm sm' : SymMap} (h : SmStep sm sm') :
    sm.variableList.size ≤ sm'.variableList.size := by
  cases h with
  | addRecord r g =>
    unfold SymMap.addRecord
    cases r.kind <;> cases g <;> simp [SymMap.logDefine]
  | addVariable v => simp [SymMap.addVariable, SymMap.logDefine]
  | addDefm d g => unfold SymMap.addDefm; cases g <;> simp [SymMap.logDefine]
  | _ =>
    simp [SymMap.addAnonymousDef, SymMap.addMulticlassDef, SymMap.registerDefsetName,
      SymMap.addTemplateArgument, SymMap.addRecordField, SymMap.addDefset,
      SymMap.addMulticlass, SymMap.addAnonymousDefm, SymMap.addReference, SymMap.logDefine]

/-! ### the invariant and the relation -/

/-- every bound variable id is allocated and `Good`; at least `T` variables are allocated -/
def BInv (T : Nat) (Good : Nat → Prop) (c : IndexCtx) : Prop :=
  T ≤ vsize c ∧ ∀ v, c.scopes.bindsVar v → v < vsize c ∧ Good v

/-- variables are only ever allocated, and `BInv` is kept -/
def BRel (T : Nat) (Good : Nat → Prop) (c c' : IndexCtx) : Prop :=
  vsize c ≤ vsize c' ∧ (BInv T Good c → BInv T Good c')

theorem insertVariableGo_binds {name : String} {id : Nat} {l l' : List Scope}
    (h : Scopes.insertVariableGo name id l = some l') {v : Nat} (hv : ∃ sc ∈ l', sc.bindsVar v) :
    (∃ sc ∈ l, sc.bindsVar v) ∨ v = id := by
  induction l generalizing l' with
  | nil => cases h
  | cons x t ih =>
    unfold Scopes.insertVariableGo at h
    split at h
    · cases hr : Scopes.insertVariableGo name id t with
      | none => rw [hr] at h; cases h
      | some r =>
        rw [hr] at h
        simp only [Option.map_some, Option.some.injEq] at h
        subst h
        obtain ⟨sc, hsc, hb⟩ := hv
        rcases List.mem_cons.1 hsc with rfl | hsc
        · exact Or.inl ⟨_, List.mem_cons_self, hb⟩
        · rcases ih hr ⟨sc, hsc, hb⟩ with ⟨sc', h1, h2⟩ | h
          · exact Or.inl ⟨sc', List.mem_cons_of_mem _ h1, h2⟩
          · exact Or.inr h
    · cases h
      obtain ⟨sc, hsc, hb⟩ := hv
      rcases List.mem_cons.1 hsc with rfl | hsc
      · rcases hb with ⟨n, hn⟩ | ⟨nm, hk⟩
        · simp only at hn
          rw [Std.HashMap.getElem?_insert] at hn
          split at hn
          · cases hn; exact Or.inr rfl
          · exact Or.inl ⟨x, List.mem_cons_self, Or.inl ⟨n, hn⟩⟩
        · exact Or.inl ⟨x, List.mem_cons_self, Or.inr ⟨nm, hk⟩⟩
      · exact Or.inl ⟨sc, List.mem_cons_of_mem _ hsc, hb⟩

section inst
variable {T : Nat} {Good : Nat → Prop}

instance BRel.keepRel : KeepRel (BRel T Good) where
  refl := fun _ => ⟨Nat.le_refl _, id⟩
  trans := fun h1 h2 => ⟨Nat.le_trans h1.1 h2.1, fun h => h2.2 (h1.2 h)⟩

instance BRel.stdRel : StdRel (BRel T Good) where
  of_eq := fun c c' _ hsm hsc => by
    have hv : vsize c' = vsize c := by unfold vsize; rw [hsm]
    refine ⟨Nat.le_of_eq hv.symm, fun h => ?_⟩
    unfold BInv
    rw [hv, hsc]
    exact h
  sm := fun c sm' hs => by
    have hle : vsize c ≤ vsize { c with symbolMap := sm' } := hs.vsize_le
    refine ⟨hle, fun h => ⟨Nat.le_trans h.1 hle, fun v hv => ?_⟩⟩
    obtain ⟨h1, h2⟩ := h.2 v hv
    exact ⟨Nat.lt_of_lt_of_le h1 hle, h2⟩

theorem scopesAddVariable_run' (v : Variable) (c c' : IndexCtx) (a : Unit)
    (h : (scopesAddVariable v).run c = .ok (a, c')) :
    ∃ s', c.scopes.insertVariable v.name (vsize c) = some s' ∧ c'.scopes = s' ∧ vsize c' = vsize c + 1 := by
  unfold scopesAddVariable addVariable modifySM at h
  simp only [StateT.run_bind, IxM.run_modifyGet, Except.ok_bind] at h
  have hid : (c.symbolMap.addVariable v).1 = vsize c := rfl
  have hsz : (c.symbolMap.addVariable v).2.variableList.size = vsize c + 1 := by
    simp [SymMap.addVariable, SymMap.logDefine, vsize]
  cases hi : c.scopes.insertVariable v.name (c.symbolMap.addVariable v).1 with
  | none => simp only [hi] at h; cases h
  | some s =>
    simp only [hi] at h
    cases h
    exact ⟨s, by rw [← hid]; exact hi, rfl, hsz⟩

theorem BRel.varRel (hT : ∀ v, T ≤ v → Good v) : VarRel (BRel T Good) where
  addVariable := fun var => ⟨fun c a c' h => by
    obtain ⟨s', h1, h2, h3⟩ := scopesAddVariable_run' var c c' a h
    refine ⟨by omega, fun hinv => ⟨by have := hinv.1; omega, fun v hv => ?_⟩⟩
    rw [h2] at hv
    unfold Scopes.insertVariable at h1
    cases hg : Scopes.insertVariableGo var.name (vsize c) c.scopes.scopes with
    | none => rw [hg] at h1; cases h1
    | some l =>
      rw [hg] at h1
      cases h1
      rcases insertVariableGo_binds hg hv with hold | rfl
      · obtain ⟨a1, a2⟩ := hinv.2 v hold
        exact ⟨by omega, a2⟩
      · exact ⟨by omega, hT _ hinv.1⟩⟩

end inst

section foreachSec
variable {T : Nat} {Good : Nat → Prop} (hT : ∀ v, T ≤ v → Good v)
include hT

theorem empty_scope_binds (k : ScopeKind) (hk : ∀ nm id, k ≠ ScopeKind.foreach nm id) (v : Nat) :
    ¬ ({ kind := k } : Scope).bindsVar v := by
  rintro (⟨n, hn⟩ | ⟨nm, hk'⟩)
  · simp at hn
  · exact hk nm v hk'

theorem BRel.push (k : ScopeKind) (hk : ∀ nm id, k ≠ ScopeKind.foreach nm id) :
    Keeps (BRel T Good) (scopesPush k) :=
  Keeps.modify _ fun c => ⟨Nat.le_refl _, fun h => ⟨h.1, fun v hv => by
    obtain ⟨sc, hsc, hb⟩ := hv
    rcases List.mem_cons.1 hsc with rfl | hsc
    · exact absurd hb (empty_scope_binds hT k hk v)
    · exact h.2 v ⟨sc, hsc, hb⟩⟩⟩

theorem BRel.pop : Keeps (BRel T Good) scopesPop :=
  ⟨fun c a c' h => by
    obtain ⟨x, hx⟩ := scopesPop_run_s h
    have hsm : vsize c' = vsize c := by
      unfold scopesPop at h
      simp only [StateT.run_bind, IxM.run_get, Except.ok_bind] at h
      cases hs : c.scopes.pop with
      | none => simp only [hs] at h; cases h
      | some s => simp only [hs, IxM.run_modify] at h; cases h; rfl
    refine ⟨Nat.le_of_eq hsm.symm, fun hinv => ⟨by rw [hsm]; exact hinv.1, fun v hv => ?_⟩⟩
    rw [hsm]
    obtain ⟨sc, hsc, hb⟩ := hv
    exact hinv.2 v ⟨sc, by rw [hx]; exact List.mem_cons_of_mem _ hsc, hb⟩⟩

/-- the loop variable of a `foreach` is freshly allocated -/
theorem indexForeachIterator_id {r : Rec} (hv : ∀ n, Keeps (BRel T Good) (r.value n))
    (ht : ∀ n, Keeps (BRel T Good) (r.typ n)) (it : PTree) (c c' : IndexCtx) (name : String) (id : Nat)
    (h : (Index.indexForeachIterator r it).run c = .ok (some (name, id), c')) :
    vsize c ≤ id ∧ id < vsize c' := by
  unfold Index.indexForeachIterator at h
  split at h
  · rename_i nameNode _
    obtain ⟨x1, c1, h1, h⟩ := IxM.run_bind_ok h
    have r1 := ((utilsIdentifier_keeps (R := BRel T Good) nameNode).run c x1 c1 h1).1
    split at h
    · split at h
      · rename_i init _
        obtain ⟨x2, c2, h2, h⟩ := IxM.run_bind_ok h
        have r2 := ((Index.indexForeachIteratorInit_keeps hv ht init).run c1 x2 c2 h2).1
        obtain ⟨x3, c3, h3, h⟩ := IxM.run_bind_ok h
        have hid : x3 = vsize c2 ∧ vsize c3 = vsize c2 + 1 := by
          unfold addVariable modifySM at h3
          rw [IxM.run_modifyGet] at h3
          simp only [Except.ok.injEq, Prod.mk.injEq] at h3
          obtain ⟨e1, e2⟩ := h3
          rw [← e1, ← e2]
          exact ⟨rfl, by simp [SymMap.addVariable, SymMap.logDefine, vsize]⟩
        simp only [StateT.run_pure] at h
        cases h
        omega
      · simp only [StateT.run_pure] at h; cases h
    · simp only [StateT.run_pure] at h; cases h
  · simp only [StateT.run_pure] at h; cases h

end foreachSec

section foreachSec2
variable {T : Nat} {Good : Nat → Prop} (hT : ∀ v, T ≤ v → Good v)
include hT

theorem BRel.pushForeach (name : String) (id : Nat) (c : IndexCtx) (hid : id < vsize c) (hg : T ≤ id) :
    BRel T Good c { c with scopes := c.scopes.push (.foreach name id) } :=
  ⟨Nat.le_refl _, fun h => ⟨h.1, fun v hv => by
    obtain ⟨sc, hsc, hb⟩ := hv
    rcases List.mem_cons.1 hsc with rfl | hsc
    · rcases hb with ⟨n, hn⟩ | ⟨nm, hk⟩
      · simp at hn
      · cases hk
        exact ⟨hid, hT _ hg⟩
    · exact h.2 v ⟨sc, hsc, hb⟩⟩⟩

theorem BRel.indexForeach {r : Rec} (hv : ∀ n, Keeps (BRel T Good) (r.value n))
    (ht : ∀ n, Keeps (BRel T Good) (r.typ n)) (hsl : ∀ n, Keeps (BRel T Good) (r.statementList n))
    (n : PTree) : Keeps (BRel T Good) (Index.indexForeach r n) := by
  refine ⟨fun c a c' hrun => ?_⟩
  unfold Index.indexForeach at hrun
  split at hrun
  · rename_i it _
    obtain ⟨x1, c1, h1, hrun⟩ := IxM.run_bind_ok hrun
    have r1 := (Index.indexForeachIterator_keeps hv ht it).run c x1 c1 h1
    split at hrun
    · rename_i name id
      obtain ⟨hlo, hhi⟩ := indexForeachIterator_id hT hv ht it c c1 name id h1
      obtain ⟨x2, c2, h2, hrun⟩ := IxM.run_bind_ok hrun
      have hc2 : c2 = { c1 with scopes := c1.scopes.push (.foreach name id) } := by
        unfold scopesPush at h2
        rw [IxM.run_modify] at h2
        cases h2; rfl
      -- the push keeps the invariant when it holds before the whole construct
      have r2 : BRel T Good c c2 := by
        refine ⟨by rw [hc2]; exact r1.1, fun hinv => ?_⟩
        rw [hc2]
        exact (BRel.pushForeach hT name id c1 hhi (by have := hinv.1; omega)).2 (r1.2 hinv)
      split at hrun
      · obtain ⟨x3, c3, h3, hrun⟩ := IxM.run_bind_ok hrun
        have r3 := (hsl _).run c2 x3 c3 h3
        have r4 := (BRel.pop hT).run c3 a c' hrun
        exact KeepRel.trans r2 (KeepRel.trans r3 r4)
      · simp only [StateT.run_pure] at hrun
        cases hrun
        exact r2
    · simp only [StateT.run_pure] at hrun
      cases hrun
      exact r1
  · simp only [StateT.run_pure] at hrun
    cases hrun
    exact KeepRel.refl _

theorem BRel.blockRel : BlockRel (BRel T Good) where
  push := fun k hk => BRel.push hT k hk
  pop := BRel.pop hT
  foreach := fun _ hv ht hsl n => BRel.indexForeach hT hv ht hsl n

/-- every function of the indexer keeps `BRel` -/
theorem mkRec_brel (fuel : Nat) :
    (∀ n, Keeps (BRel T Good) ((Index.mkRec fuel).value n)) ∧ (∀ n, Keeps (BRel T Good) ((Index.mkRec fuel).typ n)) ∧
    (∀ n, Keeps (BRel T Good) ((Index.mkRec fuel).statementList n)) ∧
    (∀ n, Keeps (BRel T Good) ((Index.mkRec fuel).sourceFile n)) :=
  haveI := BRel.varRel hT
  haveI := BRel.blockRel hT
  mkRec_keeps fuel

end foreachSec2

end Ide
end Tg
