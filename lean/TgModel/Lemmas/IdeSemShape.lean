/-
Every node of a parse tree has the child nodes its grammar function always creates (a `Foreach` has
its `StatementList` body, a `Def` its `RecordBody`, …): a must-analysis over the parser DSL
(`absStep`), sound w.r.t. `exec`, with every grammar function checked by kernel evaluation.
-/
import TgModel.Lemmas.ParserShape
namespace Tg
namespace Bodied

/-- the child nodes a node of kind `k` always has in parser output -/
def required : SyntaxKind → List SyntaxKind
  | .Foreach => [.ForeachIterator, .StatementList]
  | .Def => [.RecordBody]
  | .Defm => [.ParentClassList]
  | .Defset => [.StatementList]
  | .Class => [.RecordBody]
  | .Let => [.LetList, .StatementList]
  | .If => [.StatementList]
  | .MultiClass => [.ParentClassList, .StatementList]
  | .RecordBody => [.ParentClassList, .Body]
  | .Value => [.InnerValue]
  | _ => []

/-- the kinds of the child nodes -/
def nodeKinds : List Tree → List SyntaxKind
  | [] => []
  | .node k _ :: t => k :: nodeKinds t
  | .token _ _ :: t => nodeKinds t

mutual
/-- every node has its required child nodes -/
def bodied : Tree → Prop
  | .token _ _ => True
  | .node k cs => (∀ r ∈ required k, r ∈ nodeKinds cs) ∧ bodiedL cs
def bodiedL : List Tree → Prop
  | [] => True
  | c :: cs => bodied c ∧ bodiedL cs
end

@[simp] theorem bodiedL_nil : bodiedL [] = True := by simp [bodiedL]
@[simp] theorem bodiedL_cons (c : Tree) (cs : List Tree) : bodiedL (c :: cs) = (bodied c ∧ bodiedL cs) := by simp [bodiedL]
@[simp] theorem bodied_token (k : SyntaxKind) (t : List Char) : bodied (.token k t) = True := by simp [bodied]
@[simp] theorem bodied_node (k : SyntaxKind) (cs : List Tree) :
    bodied (.node k cs) = ((∀ r ∈ required k, r ∈ nodeKinds cs) ∧ bodiedL cs) := by simp [bodied]

theorem bodiedL_iff {l : List Tree} : bodiedL l ↔ ∀ t ∈ l, bodied t := by
  induction l with
  | nil => simp
  | cons x xs ih => simp [ih]

theorem bodiedL_append {a b : List Tree} : bodiedL (a ++ b) ↔ bodiedL a ∧ bodiedL b := by
  simp only [bodiedL_iff, List.mem_append]
  constructor
  · intro h; exact ⟨fun t ht => h t (Or.inl ht), fun t ht => h t (Or.inr ht)⟩
  · rintro ⟨h1, h2⟩ t (ht | ht)
    · exact h1 t ht
    · exact h2 t ht

theorem bodiedL_reverse {a : List Tree} : bodiedL a.reverse ↔ bodiedL a := by
  simp only [bodiedL_iff, List.mem_reverse]

theorem bodiedL_of_tokens {l : List Tree} (h : ∀ t ∈ l, isTokenTree t = true) : bodiedL l := by
  rw [bodiedL_iff]
  intro t ht
  have := h t ht
  cases t with
  | token k txt => simp
  | node k cs => simp [isTokenTree] at this

theorem mem_nodeKinds {k : SyntaxKind} {l : List Tree} : k ∈ nodeKinds l ↔ ∃ cs, Tree.node k cs ∈ l := by
  induction l with
  | nil => simp [nodeKinds]
  | cons x t ih =>
    cases x with
    | node k' cs' =>
      simp only [nodeKinds, List.mem_cons, ih]
      constructor
      · rintro (rfl | ⟨cs, h⟩)
        · exact ⟨cs', Or.inl rfl⟩
        · exact ⟨cs, Or.inr h⟩
      · rintro ⟨cs, h | h⟩
        · cases h; exact Or.inl rfl
        · exact Or.inr ⟨cs, h⟩
    | token k' txt =>
      simp only [nodeKinds, List.mem_cons, ih]
      constructor
      · rintro ⟨cs, h⟩; exact ⟨cs, Or.inr h⟩
      · rintro ⟨cs, h | h⟩
        · cases h
        · exact ⟨cs, h⟩

theorem nodeKinds_append (a b : List Tree) : nodeKinds (a ++ b) = nodeKinds a ++ nodeKinds b := by
  induction a with
  | nil => rfl
  | cons x t ih => cases x <;> simp [nodeKinds, ih]

theorem mem_nodeKinds_reverse {k : SyntaxKind} {l : List Tree} : k ∈ nodeKinds l.reverse ↔ k ∈ nodeKinds l := by
  simp only [mem_nodeKinds, List.mem_reverse]

/-- `H` lists kinds of child nodes that are certainly among `l` -/
def Has (H : List SyntaxKind) (l : List Tree) : Prop := ∀ k ∈ H, k ∈ nodeKinds l

theorem Has.nil (l : List Tree) : Has [] l := fun _ h => by cases h

theorem Has.append_left {H : List SyntaxKind} {l : List Tree} (h : Has H l) (xs : List Tree) : Has H (xs ++ l) :=
  fun k hk => by rw [nodeKinds_append]; exact List.mem_append_right _ (h k hk)

theorem Has.add {H H' : List SyntaxKind} {l xs : List Tree} (h : Has H l) (h' : Has H' xs) : Has (H' ++ H) (xs ++ l) := by
  intro k hk
  rw [nodeKinds_append]
  rcases List.mem_append.1 hk with hk | hk
  · exact List.mem_append_left _ (h' k hk)
  · exact List.mem_append_right _ (h k hk)

theorem Has.mono {H H' : List SyntaxKind} {l : List Tree} (h : Has H l) (hsub : ∀ k ∈ H', k ∈ H) : Has H' l :=
  fun k hk => h k (hsub k hk)

/-! ### the abstract state -/

inductive Item where
  | frame (k : SyntaxKind) (H : List SyntaxKind)
  | cp (H : List SyntaxKind)
deriving DecidableEq, Repr

/-- open nodes / checkpoints (innermost first), each with the kinds of child nodes it certainly has
(for a checkpoint: certainly added since it was taken); and the kinds certainly added to the frame
the program started in -/
abbrev AState := List Item × List SyntaxKind

def addK (ks : List SyntaxKind) : AState → AState
  | ([], h0) => ([], ks ++ h0)
  | (.frame k H :: σ, h0) => (.frame k (ks ++ H) :: σ, h0)
  | (.cp H :: σ, h0) => (.cp (ks ++ H) :: σ, h0)

theorem addK_nil (st : AState) : addK [] st = st := by
  obtain ⟨σ, h0⟩ := st
  cases σ with
  | nil => rfl
  | cons x t => cases x <;> rfl

def subK (a b : List SyntaxKind) : Bool := a.all b.contains

theorem subK_mem {a b : List SyntaxKind} (h : subK a b = true) : ∀ k ∈ a, k ∈ b := by
  intro k hk
  simp only [subK, List.all_eq_true] at h
  simpa using h k hk

def leItem : Item → Item → Bool
  | .frame k H, .frame k' H' => k == k' && subK H H'
  | .cp H, .cp H' => subK H H'
  | _, _ => false

def leStack : List Item → List Item → Bool
  | [], [] => true
  | a :: as, b :: bs => leItem a b && leStack as bs
  | _, _ => false

/-- `a` claims less than `b` -/
def le (a b : AState) : Bool := leStack a.1 b.1 && subK a.2 b.2

def meetItem : Item → Item → Item
  | .frame k H, .frame _ H' => .frame k (H.filter H'.contains)
  | .cp H, .cp H' => .cp (H.filter H'.contains)
  | a, _ => a

def meetStack : List Item → List Item → List Item
  | a :: as, b :: bs => meetItem a b :: meetStack as bs
  | _, _ => []

/-- what both states claim (checked, not trusted: the result must be below both) -/
def joinA : Option AState → Option AState → Option AState
  | some a, some b =>
    let m : AState := (meetStack a.1 b.1, a.2.filter b.2.contains)
    if le m a && le m b then some m else none
  | _, _ => none

/-- the (must-)summary of a grammar function: the node kinds it certainly adds to the current frame -/
def adds : Fn → List SyntaxKind
  | .statement_list_top | .statement_list_block | .statement_list_single_or_block
  | .multi_class_statements => [.StatementList]
  | .record_body => [.RecordBody]
  | .parent_class_list => [.ParentClassList]
  | .body => [.Body]
  | .let_list => [.LetList]
  | .foreach_iterator => [.ForeachIterator]
  | .inner_value | .inner_name_value => [.InnerValue]
  | _ => []

def absStep : Prog → AState → Option AState
  | .nop, st => some st
  | .startNode k, st => some (.frame k [] :: st.1, st.2)
  | .finishNode, st =>
    match st.1 with
    | .frame k H :: σ' => if subK (required k) H then some (addK [k] (σ', st.2)) else none
    | _ => none
  | .pushCp, st => some (.cp [] :: st.1, st.2)
  | .popCp, st => match st.1 with | .cp H :: σ' => some (addK H (σ', st.2)) | _ => none
  | .startNodeAtCp k, st =>
    match st.1 with
    | .cp H :: σ' => some (.frame k H :: .cp [] :: σ', st.2)
    | _ => none
  | .eat, st => some st
  | .skip, st => some st
  | .eatIf _, st => some st
  | .expect _ _, st => some st
  | .assertTok _, st => some st
  | .error _, st => some st
  | .errorAndEat _, st => some st
  | .errorAndRecover _, st => some st
  | .retB _, st => some st
  | .seq a b, st => (absStep a st).bind (absStep b)
  | .ifAt _ t e, st => joinA (absStep t st) (absStep e st)
  | .ifFlag t e, st => joinA (absStep t st) (absStep e st)
  | .loop c b, st =>
    match absStep c st, absStep b st with
    | some s1, some s2 => if le st s1 && le st s2 then some st else none
    | _, _ => none
  | .call f, st => some (addK (adds f) st)
  | .pushLocal, st => some st
  | .popLocal, st => some st
  | .setLocal, st => some st
  | .ifLocal t e, st => joinA (absStep t st) (absStep e st)

/-- every grammar function passes the check and delivers its summary (kernel evaluation) -/
theorem defs_checked : ∀ f ∈ Fn.all,
    (match absStep (Grammar.defs f) ([], []) with
     | some ([], h) => subK (adds f) h
     | _ => false) = true := by
  decide +kernel


/-! ### the relation between the abstract state and the builder -/

/-- the part of the builder below the program under consideration -/
structure Base where
  parents : List (SyntaxKind × List Tree)
  cur : List Tree
  cps : List (Nat × Nat)

inductive Rel (B : Base) : List Item → List SyntaxKind → List (SyntaxKind × List Tree) → List Tree →
    List (Nat × Nat) → Prop
  | nil {new : List Tree} {H0 : List SyntaxKind} : bodiedL new → Has H0 new →
      Rel B [] H0 B.parents (new ++ B.cur) B.cps
  | cp {σ : List Item} {H0 H : List SyntaxKind} {ps : List (SyntaxKind × List Tree)} {old added : List Tree}
      {cps : List (Nat × Nat)} :
      Rel B σ H0 ps old cps → bodiedL added → Has H added →
      Rel B (.cp H :: σ) H0 ps (added ++ old) ((ps.length, old.length) :: cps)
  | frame {σ : List Item} {H0 H : List SyntaxKind} {ps : List (SyntaxKind × List Tree)} {sibs ch : List Tree}
      {cps : List (Nat × Nat)} {k : SyntaxKind} :
      Rel B σ H0 ps sibs cps → bodiedL ch → Has H ch → Rel B (.frame k H :: σ) H0 ((k, sibs) :: ps) ch cps

/-- pushing bodied trees, among them nodes of the kinds `ks` -/
theorem Rel.pushMany {B : Base} {σ : List Item} {H0 : List SyntaxKind} {ps : List (SyntaxKind × List Tree)}
    {cur : List Tree} {cps : List (Nat × Nat)} (h : Rel B σ H0 ps cur cps) {xs : List Tree}
    {ks : List SyntaxKind} (hb : bodiedL xs) (hk : Has ks xs) :
    Rel B (addK ks (σ, H0)).1 (addK ks (σ, H0)).2 ps (xs ++ cur) cps := by
  cases h with
  | nil hnew hH =>
    rw [← List.append_assoc]
    exact Rel.nil (bodiedL_append.mpr ⟨hb, hnew⟩) (hH.add hk)
  | cp hr hadd hH =>
    rw [← List.append_assoc]
    exact Rel.cp hr (bodiedL_append.mpr ⟨hb, hadd⟩) (hH.add hk)
  | frame hr hch hH =>
    exact Rel.frame hr (bodiedL_append.mpr ⟨hb, hch⟩) (hH.add hk)

theorem Rel.pushTokens {B : Base} {σ : List Item} {H0 : List SyntaxKind} {ps : List (SyntaxKind × List Tree)}
    {cur : List Tree} {cps : List (Nat × Nat)} (h : Rel B σ H0 ps cur cps) {xs : List Tree}
    (hx : ∀ t ∈ xs, isTokenTree t = true) : Rel B σ H0 ps (xs ++ cur) cps := by
  have := h.pushMany (ks := []) (bodiedL_of_tokens hx) (Has.nil _)
  rw [addK_nil] at this
  exact this

theorem leStack_cons {a : Item} {as : List Item} {l : List Item} (h : leStack (a :: as) l = true) :
    ∃ b bs, l = b :: bs ∧ leItem a b = true ∧ leStack as bs = true := by
  cases l with
  | nil => simp [leStack] at h
  | cons b bs =>
    simp only [leStack, Bool.and_eq_true] at h
    exact ⟨b, bs, rfl, h.1, h.2⟩

/-- claiming less is sound -/
theorem Rel.weaken {B : Base} {σ : List Item} {H0 : List SyntaxKind} {ps : List (SyntaxKind × List Tree)}
    {cur : List Tree} {cps : List (Nat × Nat)} (h : Rel B σ H0 ps cur cps) :
    ∀ {σ' : List Item} {H0' : List SyntaxKind}, leStack σ' σ = true → subK H0' H0 = true →
      Rel B σ' H0' ps cur cps := by
  induction h with
  | nil hnew hH =>
    intro σ' H0' hs h0
    cases σ' with
    | nil => exact Rel.nil hnew (hH.mono (subK_mem h0))
    | cons a as => simp [leStack] at hs
  | cp hr hadd hH ih =>
    intro σ' H0' hs h0
    cases σ' with
    | nil => simp [leStack] at hs
    | cons a as =>
      simp only [leStack, Bool.and_eq_true] at hs
      cases a with
      | frame k' H' => simp [leItem] at hs
      | cp H' =>
        simp only [leItem] at hs
        exact Rel.cp (ih hs.2 h0) hadd (hH.mono (subK_mem hs.1))
  | frame hr hch hH ih =>
    intro σ' H0' hs h0
    cases σ' with
    | nil => simp [leStack] at hs
    | cons a as =>
      simp only [leStack, Bool.and_eq_true] at hs
      cases a with
      | cp H' => simp [leItem] at hs
      | frame k' H' =>
        simp only [leItem, Bool.and_eq_true, beq_iff_eq] at hs
        obtain ⟨⟨rfl, hsub⟩, hrest⟩ := hs
        exact Rel.frame (ih hrest h0) hch (hH.mono (subK_mem hsub))

theorem subK_append_right (ks a : List SyntaxKind) : subK a (ks ++ a) = true := by
  simp only [subK, List.all_eq_true]
  intro k hk
  simp [hk]

theorem subK_refl (a : List SyntaxKind) : subK a a = true := subK_append_right [] a

theorem leItem_refl (a : Item) : leItem a a = true := by
  cases a <;> simp [leItem, subK_refl]

theorem leStack_refl (l : List Item) : leStack l l = true := by
  induction l with
  | nil => rfl
  | cons a t ih => simp [leStack, leItem_refl, ih]

theorem le_addK (ks : List SyntaxKind) (st : AState) : le st (addK ks st) = true := by
  obtain ⟨σ, h0⟩ := st
  cases σ with
  | nil => simp [le, addK, leStack, subK_append_right]
  | cons x t => cases x <;> simp [le, addK, leStack, leItem, subK_append_right, leStack_refl, subK_refl]

/-- the state invariant -/
def SInv (B : Base) (st : AState) (s : PState) : Prop := Rel B st.1 st.2 s.b.parents s.b.cur s.cps

namespace SInv
variable {B : Base} {st : AState} {s s' : PState}

theorem weaken (h : SInv B st s) {st' : AState} (hle : le st' st = true) : SInv B st' s := by
  simp only [le, Bool.and_eq_true] at hle
  exact Rel.weaken h hle.1 hle.2

theorem eat (h : SInv B st s) (he : s.eat = .ok s') : SInv B st s' := by
  obtain ⟨_, h2, h3, ⟨tr, h4, h5⟩, _⟩ := PState.eat_spec he
  unfold SInv
  rw [h2, h3, h4]
  have := Rel.pushTokens h (xs := tr ++ [Tree.token s.cur.toSyntax s.curText]) (by
    intro t ht
    rcases List.mem_append.1 ht with ht | ht
    · exact h5 t ht
    · simp at ht; subst ht; rfl)
  simpa [List.append_assoc] using this

theorem skip (h : SInv B st s) {fuel : Nat} (he : PState.skip fuel s = .ok s') : SInv B st s' := by
  obtain ⟨_, h2, h3, ⟨tr, h4, h5⟩, _⟩ := PState.skip_spec _ _ _ he
  unfold SInv
  rw [h2, h3, h4]
  exact Rel.pushTokens h h5

theorem error (h : SInv B st s) (msg : String) : SInv B st (s.error msg) := h
theorem setFlag (h : SInv B st s) (b : Bool) : SInv B st { s with flag := b } := h
theorem setLocals (h : SInv B st s) (l : List Bool) : SInv B st { s with locals := l } := h

theorem startNode (h : SInv B st s) (k : SyntaxKind) : SInv B (.frame k [] :: st.1, st.2) (s.startNode k) := by
  unfold SInv
  simp only [PState.startNode]
  exact Rel.frame h (by simp) (Has.nil _)

theorem finishNode {k : SyntaxKind} {H : List SyntaxKind} {σ : List Item} {h0 : List SyntaxKind}
    (h : SInv B (.frame k H :: σ, h0) s) (hreq : subK (required k) H = true) (hf : s.finishNode = .ok s') :
    SInv B (addK [k] (σ, h0)) s' := by
  unfold SInv at h
  unfold PState.finishNode at hf
  generalize hps : s.b.parents = ps at h hf
  generalize hcur : s.b.cur = cur at h hf
  cases h with
  | frame hr hch hH =>
    simp only [Res.ok.injEq] at hf
    subst hf
    unfold SInv
    simp only
    have := hr.pushMany (xs := [Tree.node k cur.reverse]) (ks := [k])
      (by
        simp only [bodiedL_cons, bodied_node, bodiedL_nil, and_true]
        exact ⟨fun r hr' => mem_nodeKinds_reverse.mpr (hH r (subK_mem hreq r hr')), bodiedL_reverse.mpr hch⟩)
      (by intro k' hk'; simp at hk'; subst hk'; simp [nodeKinds])
    simpa using this

theorem pushCp (h : SInv B st s) :
    SInv B (.cp [] :: st.1, st.2) { s with cps := (s.b.parents.length, s.b.cur.length) :: s.cps } := by
  unfold SInv
  have := Rel.cp (added := []) (H := []) h (by simp) (Has.nil _)
  simpa using this

theorem popCp {H : List SyntaxKind} {σ : List Item} {h0 : List SyntaxKind}
    (h : SInv B (.cp H :: σ, h0) s) : SInv B (addK H (σ, h0)) { s with cps := s.cps.tail } := by
  unfold SInv at h ⊢
  generalize hcps : s.cps = cps at h
  generalize hcur : s.b.cur = cur at h
  cases h with
  | cp hr hadd hH =>
    simp only [hcps, List.tail_cons, hcur]
    exact hr.pushMany hadd hH

theorem startNodeAtCp {k : SyntaxKind} {H : List SyntaxKind} {σ : List Item} {h0 : List SyntaxKind}
    (h : SInv B (.cp H :: σ, h0) s) {cp : Nat × Nat} {rest : List (Nat × Nat)} (hcps : s.cps = cp :: rest)
    (hs : s.startNodeAt cp k = .ok s') : SInv B (.frame k H :: .cp [] :: σ, h0) s' := by
  unfold SInv at h
  generalize hps : s.b.parents = ps at h
  generalize hcur : s.b.cur = cur at h
  rw [hcps] at h
  cases h with
  | @cp _ _ _ _ old added _ hr hadd hH =>
    unfold PState.startNodeAt at hs
    simp only [hps, bne_self_eq_false, Bool.false_eq_true, if_false, hcur, List.length_append] at hs
    have : ¬ (old.length > added.length + old.length) := by omega
    simp only [this, if_false, Res.ok.injEq] at hs
    subst hs
    unfold SInv
    have hn : added.length + old.length - old.length = added.length := by omega
    simp only [hn, List.take_left', List.drop_left', hcps]
    refine Rel.frame ?_ hadd hH
    have := Rel.cp (added := []) (H := []) hr (by simp) (Has.nil _)
    simpa using this

/-- `start_node(Error); eat; finish_node` -/
theorem errorNode (h : SInv B st s) (msg : String) {s1 s2 : PState}
    (he : ((s.error msg).startNode .Error).eat = .ok s1) (hf : s1.finishNode = .ok s2) : SInv B st s2 := by
  have h1 := ((h.error msg).startNode .Error).eat he
  have h2 := finishNode (k := .Error) h1 (by decide) hf
  exact h2.weaken (le_addK _ _)

end SInv

/-! ### soundness -/

theorem joinA_some {a b : Option AState} {r : AState} (h : joinA a b = some r) :
    ∃ a' b', a = some a' ∧ b = some b' ∧ le r a' = true ∧ le r b' = true := by
  unfold joinA at h
  split at h
  · rename_i a' b'
    simp only at h
    split at h
    · rename_i hc
      simp only [Option.some.injEq] at h
      subst h
      simp only [Bool.and_eq_true] at hc
      exact ⟨a', b', rfl, rfl, hc.1, hc.2⟩
    · cases h
  · cases h

theorem defs_summary (f : Fn) : ∃ h, absStep (Grammar.defs f) ([], []) = some ([], h) ∧ subK (adds f) h = true := by
  have := defs_checked f (Fn.mem_all f)
  split at this
  · rename_i h heq
    exact ⟨h, heq, this⟩
  · cases this

/-- **soundness** of the must-analysis -/
theorem absStep_sound (rc : List TokenKind) :
    ∀ (fuel : Nat) (B : Base) (p : Prog) (st st' : AState) (s s' : PState), absStep p st = some st' →
      SInv B st s → exec Grammar.defs rc fuel p s = .ok s' → SInv B st' s' := by
  intro fuel
  induction fuel using Nat.strongRecOn with
  | _ fuel ih =>
    intro B p st st' s s' ha hi hx
    cases fuel with
    | zero => simp [exec] at hx
    | succ n =>
      have ihn : ∀ (B : Base) (p : Prog) (st st' : AState) (s s' : PState), absStep p st = some st' →
          SInv B st s → exec Grammar.defs rc n p s = .ok s' → SInv B st' s' :=
        fun B p st st' s s' => ih n (Nat.lt_succ_self n) B p st st' s s'
      cases p with
      | nop =>
        simp only [exec, Res.ok.injEq] at hx; subst hx
        simp only [absStep, Option.some.injEq] at ha; subst ha
        exact hi
      | startNode k =>
        simp only [exec, Res.ok.injEq] at hx; subst hx
        simp only [absStep, Option.some.injEq] at ha; subst ha
        exact hi.startNode k
      | finishNode =>
        simp only [exec] at hx
        obtain ⟨σ, h0⟩ := st
        simp only [absStep] at ha
        split at ha
        · rename_i _ k H σ'
          split at ha
          · rename_i hreq
            simp only [Option.some.injEq] at ha; subst ha
            exact SInv.finishNode hi hreq hx
          · cases ha
        · cases ha
      | pushCp =>
        simp only [exec, Res.ok.injEq] at hx; subst hx
        simp only [absStep, Option.some.injEq] at ha; subst ha
        exact hi.pushCp
      | popCp =>
        simp only [exec, Res.ok.injEq] at hx; subst hx
        obtain ⟨σ, h0⟩ := st
        simp only [absStep] at ha
        split at ha
        · rename_i _ H σ'
          simp only [Option.some.injEq] at ha; subst ha
          exact SInv.popCp hi
        · cases ha
      | startNodeAtCp k =>
        simp only [exec] at hx
        obtain ⟨σ, h0⟩ := st
        simp only [absStep] at ha
        split at ha
        · rename_i _ H σ'
          simp only [Option.some.injEq] at ha; subst ha
          split at hx
          · rename_i cp rest hcps
            exact SInv.startNodeAtCp hi hcps hx
          · cases hx
        · cases ha
      | eat =>
        simp only [exec] at hx
        simp only [absStep, Option.some.injEq] at ha; subst ha
        exact hi.eat hx
      | skip =>
        simp only [exec] at hx
        simp only [absStep, Option.some.injEq] at ha; subst ha
        exact hi.skip hx
      | eatIf k =>
        simp only [exec] at hx
        simp only [absStep, Option.some.injEq] at ha; subst ha
        split at hx
        · split at hx
          · rename_i s1 he
            simp only [Res.ok.injEq] at hx; subst hx
            exact (hi.eat he).setFlag true
          · rename_i hne; first | exact (hne _ hx).elim | cases hx
        · simp only [Res.ok.injEq] at hx; subst hx
          exact hi.setFlag false
      | expect k msg =>
        simp only [exec] at hx
        simp only [absStep, Option.some.injEq] at ha; subst ha
        split at hx
        · exact hi.eat hx
        · split at hx
          · simp only [Res.ok.injEq] at hx; subst hx; exact hi
          · simp only [Res.ok.injEq] at hx; subst hx; exact hi.error _
      | assertTok k =>
        simp only [exec] at hx
        simp only [absStep, Option.some.injEq] at ha; subst ha
        split at hx
        · exact hi.eat hx
        · cases hx
      | error msg =>
        simp only [exec, Res.ok.injEq] at hx; subst hx
        simp only [absStep, Option.some.injEq] at ha; subst ha
        exact hi.error _
      | errorAndEat msg =>
        simp only [exec] at hx
        simp only [absStep, Option.some.injEq] at ha; subst ha
        split at hx
        · rename_i s1 he
          exact hi.errorNode msg he hx
        · rename_i hne; first | exact (hne _ hx).elim | cases hx
      | errorAndRecover msg =>
        simp only [exec] at hx
        simp only [absStep, Option.some.injEq] at ha; subst ha
        split at hx
        · split at hx
          · rename_i s2 he
            exact hi.errorNode msg he hx
          · rename_i hne; first | exact (hne _ hx).elim | cases hx
        · simp only [Res.ok.injEq] at hx; subst hx; exact hi.error _
      | retB b =>
        simp only [exec, Res.ok.injEq] at hx; subst hx
        simp only [absStep, Option.some.injEq] at ha; subst ha
        exact hi.setFlag b
      | seq a b =>
        simp only [exec] at hx
        simp only [absStep, Option.bind_eq_some_iff] at ha
        obtain ⟨st1, ha1, ha2⟩ := ha
        split at hx
        · rename_i s1 h1
          exact ihn B b st1 st' s1 s' ha2 (ihn B a st st1 s s1 ha1 hi h1) hx
        · rename_i hne; first | exact (hne _ hx).elim | cases hx
      | ifAt ks t e =>
        simp only [exec] at hx
        simp only [absStep] at ha
        obtain ⟨a', b', h1, h2, l1, l2⟩ := joinA_some ha
        split at hx
        · exact (ihn B t st a' s s' h1 hi hx).weaken l1
        · exact (ihn B e st b' s s' h2 hi hx).weaken l2
      | ifFlag t e =>
        simp only [exec] at hx
        simp only [absStep] at ha
        obtain ⟨a', b', h1, h2, l1, l2⟩ := joinA_some ha
        split at hx
        · exact (ihn B t st a' s s' h1 hi hx).weaken l1
        · exact (ihn B e st b' s s' h2 hi hx).weaken l2
      | ifLocal t e =>
        simp only [exec] at hx
        simp only [absStep] at ha
        obtain ⟨a', b', h1, h2, l1, l2⟩ := joinA_some ha
        split at hx
        · exact (ihn B t st a' s s' h1 hi hx).weaken l1
        · exact (ihn B e st b' s s' h2 hi hx).weaken l2
      | loop c b =>
        simp only [exec] at hx
        have ha0 := ha
        simp only [absStep] at ha
        split at ha
        · rename_i s1a s2a hc hb
          split at ha
          · rename_i hcond
            simp only [Bool.and_eq_true] at hcond
            simp only [Option.some.injEq] at ha; subst ha
            split at hx
            · rename_i s1 h1
              have i1 := (ihn B c st s1a s s1 hc hi h1).weaken hcond.1
              split at hx
              · split at hx
                · rename_i s2 h2
                  have i2 := (ihn B b st s2a s1 s2 hb i1 h2).weaken hcond.2
                  exact ihn B (.loop c b) st st s2 s' ha0 i2 hx
                · rename_i hne; first | exact (hne _ hx).elim | cases hx
              · simp only [Res.ok.injEq] at hx; subst hx; exact i1
            · rename_i hne; first | exact (hne _ hx).elim | cases hx
          · cases ha
        · cases ha
      | call f =>
        simp only [exec] at hx
        simp only [absStep, Option.some.injEq] at ha; subst ha
        obtain ⟨h, hchk, hsub⟩ := defs_summary f
        -- run the body of `f` relative to the current builder
        let B' : Base := ⟨s.b.parents, s.b.cur, s.cps⟩
        have hi0 : SInv B' ([], []) s := by
          have := Rel.nil (B := B') (new := []) (H0 := []) (by simp) (Has.nil _)
          simpa [SInv] using this
        have hr := ihn B' (Grammar.defs f) ([], []) ([], h) s s' hchk hi0 hx
        unfold SInv at hr
        try simp only at hr
        generalize hps' : s'.b.parents = ps' at hr
        generalize hcur' : s'.b.cur = cur' at hr
        generalize hcps' : s'.cps = cps' at hr
        cases hr with
        | @nil new _ hnew hH =>
          unfold SInv
          rw [hps', hcur', hcps']
          exact Rel.pushMany hi hnew (hH.mono (subK_mem hsub))
      | pushLocal =>
        simp only [exec, Res.ok.injEq] at hx; subst hx
        simp only [absStep, Option.some.injEq] at ha; subst ha
        exact hi.setLocals _
      | popLocal =>
        simp only [exec, Res.ok.injEq] at hx; subst hx
        simp only [absStep, Option.some.injEq] at ha; subst ha
        exact hi.setLocals _
      | setLocal =>
        simp only [exec, Res.ok.injEq] at hx; subst hx
        simp only [absStep, Option.some.injEq] at ha; subst ha
        exact hi.setLocals _

/-- **every parse tree is bodied** -/
theorem parse_bodied (input : List Char) (r : Grammar.ParseResult) (h : Grammar.parse input = .ok r) :
    bodied r.tree := by
  unfold Grammar.parse at h
  split at h
  · rename_i s hx
    split at h
    · rename_i t hcur hpar
      simp only [Grammar.ParseOut.ok.injEq] at h
      subst h
      simp only
      let B : Base := ⟨[], [], []⟩
      have hi0 : SInv B ([], []) (PState.init input) := by
        have := Rel.nil (B := B) (new := []) (H0 := []) (by simp) (Has.nil _)
        simpa [SInv, PState.init] using this
      have hr := absStep_sound _ _ B (.call .source_file) ([], []) _ _ s rfl hi0 hx
      unfold SInv at hr
      try simp only at hr
      rw [hcur, hpar] at hr
      generalize hcps' : s.cps = cps' at hr
      generalize hst : (addK (adds .source_file) ([], [])) = st at hr
      have hst1 : st.1 = [] := by rw [← hst]; rfl
      rw [hst1] at hr
      generalize hc0 : [t] = c0 at hr
      generalize hp0 : ([] : List (SyntaxKind × List Tree)) = p0 at hr
      cases hr with
      | @nil new _ hnew hH =>
        simp only [B, List.append_nil] at hc0
        subst hc0
        simpa using hnew
    · cases h
  · cases h
  · cases h


end Bodied
end Tg
