/-
C04 converse, widened (part 3): `include` (the parser takes any number of adjacent string literals,
the documented rule exactly one), and `ValueOK` for one-token literal values.
-/
import TgModel.Lemmas.C04Conv2

namespace Tg
namespace C04L
open Prog Grammar Frag Doc

local notation "rcv" => Tables.recoverTokens

theorem loop_inv {n : Nat} {c b : Prog} {s s' : PState} (h : exec defs rcv (n+1) (loop c b) s = .ok s')
    (hc : Clean s s') :
    ∃ s1, exec defs rcv n c s = .ok s1 ∧ Clean s s1 ∧
      ((s1.flag = false ∧ s' = s1) ∨
       (s1.flag = true ∧ ∃ s2, exec defs rcv n b s1 = .ok s2 ∧ Clean s1 s2 ∧
          exec defs rcv n (loop c b) s2 = .ok s' ∧ Clean s2 s')) := by
  rw [exec] at h
  split at h
  · rename_i s1 h1
    have g1 := grow_len (grow_exec defs rcv n c s s1 h1)
    split at h
    · rename_i hf
      split at h
      · rename_i s2 h2
        have g2 := grow_len (grow_exec defs rcv n b s1 s2 h2)
        have g3 := grow_len (grow_exec defs rcv n _ s2 s' h)
        unfold Clean at *
        exact ⟨s1, h1, by omega, Or.inr ⟨hf, s2, h2, by omega, h, by omega⟩⟩
      · rename_i hne; exact (hne _ h).elim
    · rename_i hf
      simp only [Res.ok.injEq] at h; subst h
      exact ⟨s1, h1, hc, Or.inl ⟨by simpa using hf, rfl⟩⟩
  · rename_i hne; exact (hne _ h).elim

/-- `eat_if(k)` on a plain token kind -/
theorem eatIf_clean {n : Nat} {k : TokenKind} {s s' : PState} (hp : plain k = true)
    (h : exec defs rcv (n+1) (eatIf k) s = .ok s') :
    (s.cur = k ∧ s'.flag = true ∧ s.kinds = k :: s'.kinds ∧ s'.afterError = false ∧ Norm s') ∨
    (s.cur ≠ k ∧ s' = { s with flag := false }) := by
  rcases eatIf_inv defs rcv h with ⟨hk, s1, he, rfl⟩ | ⟨hk, rfl⟩
  · left
    have hp' : k.isTrivia = false ∧ k ≠ .Error ∧ k ≠ .Eof := by simpa [plain, and_assoc] using hp
    have hn : Norm s := by unfold Norm; rw [hk]; exact hp'.1
    obtain ⟨h1, h2, _, h4⟩ := eat_props hn (by rw [hk]; exact hp'.2.1) (by rw [hk]; exact hp'.2.2) he
    exact ⟨hk, rfl, by rw [h1, hk]; rfl, h4, h2⟩
  · exact Or.inr ⟨hk, rfl⟩

/-- the loop of `string_`: any number of adjacent string literals -/
theorem str_loop_inv : ∀ (n : Nat) (s s' : PState),
    exec defs rcv n (loop (eatIf .StrVal) nop) s = .ok s' → Clean s s' →
    ∃ m, s.kinds = List.replicate m TokenKind.StrVal ++ s'.kinds ∧ s'.cur ≠ .StrVal ∧
      (s.afterError = false → s'.afterError = false) ∧ (s.cur = .StrVal → 1 ≤ m) ∧ (Norm s → Norm s') := by
  intro n
  induction n with
  | zero => intro s s' h; simp [exec] at h
  | succ n ih =>
    intro s s' h hc
    obtain ⟨s1, h1, c1, hcase⟩ := loop_inv h hc
    cases n with
    | zero => simp [exec] at h1
    | succ n =>
      rcases hcase with ⟨hf, rfl⟩ | ⟨hf, s2, h2, c2, h3, c3⟩
      · rcases eatIf_clean (by decide) h1 with ⟨_, hfl, _, _, _⟩ | ⟨hk, rfl⟩
        · rw [hfl] at hf; cases hf
        · exact ⟨0, rfl, hk, id, fun h => absurd h hk, id⟩
      · rcases eatIf_clean (by decide) h1 with ⟨_, _, hk, ha, hn1⟩ | ⟨_, rfl⟩
        · have e2 := nop_inv defs rcv h2; subst e2
          obtain ⟨m, hm, hcur, ham, _, hnm⟩ := ih _ _ h3 c3
          exact ⟨m + 1, by rw [hk, hm]; rfl, hcur, fun _ => ham ha, fun _ => by omega, fun _ => hnm hn1⟩
        · simp at hf

/-- **`include`**: consumed `include` and `m+1` string literals; documented when `m = 0` -/
theorem conv_include (n : Nat) (s s' : PState) (h : exec defs rcv n (call .include) s = .ok s')
    (hc : Clean s s') :
    ∃ m, s.kinds = (TokenKind.Include :: List.replicate (m + 1) TokenKind.StrVal) ++ s'.kinds ∧
      (m = 0 → Derives (.nt .Include_) [TokenKind.Include, TokenKind.StrVal]) := by
  have h := call_inv defs rcv (lift_fuel h 30)
  simp only [defs, seqs] at h
  obtain ⟨s1, h1, _, h, hc⟩ := seq_inv defs rcv h hc
  have e1 := startNode_inv defs rcv h1; subst e1
  obtain ⟨s2, h2, _, h, hc⟩ := seq_inv defs rcv h hc
  obtain ⟨k2, a2⟩ := assertTok_clean (by decide) h2
  obtain ⟨s3, h3, c3, h, hc⟩ := seq_inv defs rcv h hc
  obtain ⟨h3, f3⟩ := orError_inv h3 c3
  -- string_
  have h3 := call_inv defs rcv h3
  simp only [defs, seqs] at h3
  obtain ⟨s4, h4, _, h3, c3⟩ := seq_inv defs rcv h3 c3
  have e4 := startNode_inv defs rcv h4; subst e4
  obtain ⟨k5, _, _, _⟩ := finishNode_same (finishNode_inv defs rcv h)
  rcases ifAt_inv defs rcv h3 with ⟨hat, h3⟩ | ⟨_, h3⟩
  · obtain ⟨s5, h5, c5, h3, c3⟩ := seq_inv defs rcv h3 c3
    have hcur0 : (s2.startNode SyntaxKind.String).cur = .StrVal := by simpa using hat
    obtain ⟨m, hm, _, _, hpos, _⟩ := str_loop_inv _ _ _ h5 c5
    obtain ⟨k6, _, _⟩ := finRet_inv h3 c3
    obtain ⟨m', rfl⟩ : ∃ m', m = m' + 1 := ⟨m - 1, by have := hpos hcur0; omega⟩
    refine ⟨m', ?_, fun _ => Derives.nt (d_tokSeq (List.mem_singleton.mpr rfl) (Derives.nt (d_tok1 _)))⟩
    rw [show s.kinds = (s.startNode .Include).kinds from rfl, k2,
      show s2.kinds = (s2.startNode .String).kinds from rfl, hm, k5, k6]
    simp
  · -- not at a string: `string_` answers false, `or_error` reports
    obtain ⟨_, _, f6⟩ := finRet_inv h3 c3
    rw [f6] at f3; cases f3

/-! ### `ValueOK` for one-token literals -/

/-- the arm `match p.peek()` selects -/
def pick : List (List TokenKind × Prog) → Prog → TokenKind → Prog
  | [], dflt, _ => dflt
  | (ks, p) :: rest, dflt, k => if ks.contains k = true then p else pick rest dflt k

theorem matchPeek_inv (arms : List (List TokenKind × Prog)) (dflt : Prog) :
    ∀ (n : Nat) (s s' : PState), exec defs rcv n (matchPeek arms dflt) s = .ok s' →
      ∃ m, exec defs rcv m (pick arms dflt s.cur) s = .ok s' := by
  induction arms with
  | nil => intro n s s' h; exact ⟨n, h⟩
  | cons a rest ih =>
    intro n s s' h
    obtain ⟨ks, p⟩ := a
    cases n with
    | zero => simp [exec] at h
    | succ n =>
      simp only [matchPeek] at h
      rcases ifAt_inv defs rcv h with ⟨hc, h⟩ | ⟨hc, h⟩
      · exact ⟨n, by simp only [pick, hc, if_true]; exact h⟩
      · obtain ⟨m, hm⟩ := ih n s s' h
        exact ⟨m, by simp only [pick, hc]; exact hm⟩

/-- `finish_node; return b` keeps everything the token view sees -/
theorem finRet_inv' {n : Nat} {b : Bool} {s s' : PState}
    (h : exec defs rcv (n+2) (seq finishNode (retB b)) s = .ok s') (hc : Clean s s') :
    s'.kinds = s.kinds ∧ s'.afterError = s.afterError ∧ s'.flag = b ∧ s'.cur = s.cur := by
  obtain ⟨s1, h1, _, h, _⟩ := seq_inv defs rcv h hc
  have e := retB_inv defs rcv h; subst e
  obtain ⟨k2, a2, c2, _⟩ := finishNode_same (finishNode_inv defs rcv h1)
  exact ⟨k2, a2, rfl, c2⟩

/-- what a literal parser achieves -/
def AteLit (k : TokenKind) (s s' : PState) : Prop :=
  s.kinds = k :: s'.kinds ∧ s'.flag = true ∧ s'.afterError = false ∧ Norm s'

/-- `start_node; if eat_if(k1) {…true} else if eat_if(k2) {…true} else {…false}` at `k1` or `k2` -/
theorem leaf2_inv {n : Nat} {node : SyntaxKind} {k1 k2 : TokenKind} {s s' : PState}
    (hp1 : plain k1 = true) (hp2 : plain k2 = true)
    (h : exec defs rcv (n+10) (seq (startNode node) (seq (eatIf k1) (ifFlag (seq finishNode (retB true))
      (seq (eatIf k2) (ifFlag (seq finishNode (retB true)) (seq finishNode (retB false))))))) s = .ok s')
    (hc : Clean s s') (hcur : s.cur = k1 ∨ s.cur = k2) : AteLit s.cur s s' := by
  obtain ⟨s1, h1, _, h, hc⟩ := seq_inv defs rcv h hc
  have e1 := startNode_inv defs rcv h1; subst e1
  obtain ⟨s2, h2, _, h, hc⟩ := seq_inv defs rcv h hc
  rcases eatIf_clean hp1 h2 with ⟨hk, hfl, hkin, ha, hn⟩ | ⟨hk, rfl⟩
  · rcases ifFlag_inv defs rcv h with ⟨_, h⟩ | ⟨hf, _⟩
    · obtain ⟨k3, a3, f3, c3⟩ := finRet_inv' h hc
      have hk' : s.cur = k1 := hk
      exact ⟨by rw [k3, hk']; exact hkin, f3, by rw [a3]; exact ha, by unfold Norm at *; rw [c3]; exact hn⟩
    · rw [hfl] at hf; cases hf
  · rcases ifFlag_inv defs rcv h with ⟨hf, _⟩ | ⟨_, h⟩
    · simp at hf
    · obtain ⟨s3, h3, _, h, hc⟩ := seq_inv defs rcv h hc
      rcases eatIf_clean hp2 h3 with ⟨hk2, hfl, hkin, ha, hn⟩ | ⟨hk2, rfl⟩
      · rcases ifFlag_inv defs rcv h with ⟨_, h⟩ | ⟨hf, _⟩
        · obtain ⟨k3, a3, f3, c3⟩ := finRet_inv' h hc
          have hk' : s.cur = k2 := hk2
          exact ⟨by rw [k3, hk']; exact hkin, f3, by rw [a3]; exact ha, by unfold Norm at *; rw [c3]; exact hn⟩
        · rw [hfl] at hf; cases hf
      · rcases hcur with h' | h'
        · exact absurd h' hk
        · exact absurd h' hk2

/-- `leaf1 node k` at `k` -/
theorem leaf1_inv {n : Nat} {node : SyntaxKind} {k : TokenKind} {s s' : PState} (hp : plain k = true)
    (h : exec defs rcv (n+10) (leaf1 node k) s = .ok s') (hc : Clean s s') (hcur : s.cur = k) :
    AteLit k s s' := by
  simp only [leaf1, seqs, ifEatIf] at h
  obtain ⟨s1, h1, _, h, hc⟩ := seq_inv defs rcv h hc
  have e1 := startNode_inv defs rcv h1; subst e1
  obtain ⟨s2, h2, _, h, hc⟩ := seq_inv defs rcv h hc
  rcases eatIf_clean hp h2 with ⟨hk, hfl, hkin, ha, hn⟩ | ⟨hk, rfl⟩
  · rcases ifFlag_inv defs rcv h with ⟨_, h⟩ | ⟨hf, _⟩
    · obtain ⟨k3, a3, f3, c3⟩ := finRet_inv' h hc
      exact ⟨by rw [k3]; exact hkin, f3, by rw [a3]; exact ha, by unfold Norm at *; rw [c3]; exact hn⟩
    · rw [hfl] at hf; cases hf
  · exact absurd hcur hk

/-- the one-token literal kinds -/
def litToks : List TokenKind := [.IntVal, .BinaryIntVal, .StrVal, .CodeFragment, .TrueVal, .FalseVal, .Question, .Id]

theorem string_lit_inv {n : Nat} {s s' : PState} {rest : List TokenKind}
    (h : exec defs rcv (n+20) (call .string_) s = .ok s') (hc : Clean s s')
    (hk : s.kinds = TokenKind.StrVal :: rest) (hcur : s.cur = .StrVal) (hS : rest.headD .Eof ≠ .StrVal) :
    AteLit .StrVal s s' := by
  have h := call_inv defs rcv h
  simp only [defs, seqs] at h
  obtain ⟨s1, h1, _, h, hc⟩ := seq_inv defs rcv h hc
  have e1 := startNode_inv defs rcv h1; subst e1
  rcases ifAt_inv defs rcv h with ⟨_, h⟩ | ⟨hat, _⟩
  · obtain ⟨s2, h2, c2, h, hc⟩ := seq_inv defs rcv h hc
    -- first iteration by hand, to get at the state after the literal
    obtain ⟨s3, h3, c3, hcase⟩ := loop_inv h2 c2
    rcases eatIf_clean (by decide) h3 with ⟨_, hfl, hkin, ha, hn⟩ | ⟨hne, _⟩
    · rcases hcase with ⟨hf, _⟩ | ⟨_, s4, h4, _, h5, c5⟩
      · rw [hfl] at hf; cases hf
      · have e4 := nop_inv defs rcv h4
        rw [e4] at h5 c5
        obtain ⟨m, hm, _, ham, hpos, hnm⟩ := str_loop_inv _ _ _ h5 c5
        have hrest : s3.kinds = rest := by
          have : (s.startNode SyntaxKind.String).kinds = s.kinds := rfl
          rw [this, hk] at hkin
          exact (List.cons.inj hkin).2.symm
        -- no second string follows
        have hm0 : m = 0 := by
          cases m with
          | zero => rfl
          | succ m =>
            exfalso
            rw [hrest] at hm
            rw [hm] at hS
            exact hS rfl
        subst hm0
        obtain ⟨k6, a6, f6, c6⟩ := finRet_inv' h hc
        simp only [List.replicate, List.nil_append] at hm
        refine ⟨?_, f6, by rw [a6]; exact ham ha, by unfold Norm at *; rw [c6]; exact hnm hn⟩
        rw [k6, ← hm, hrest]; exact hk
    · exact absurd hcur hne
  · rw [show (s.startNode SyntaxKind.String).cur = s.cur from rfl, hcur] at hat
    exact absurd hat (by decide)

theorem ident_lit_inv {n : Nat} {s s' : PState} {rest : List TokenKind}
    (h : exec defs rcv (n+30) (call .identifier_or_class_value) s = .ok s') (hc : Clean s s')
    (hk : s.kinds = TokenKind.Id :: rest) (hcur : s.cur = .Id) (hL : rest.headD .Eof ≠ .Less) :
    AteLit .Id s s' := by
  have h := call_inv defs rcv h
  simp only [defs, seqs] at h
  obtain ⟨s1, h1, _, h, hc⟩ := seq_inv defs rcv h hc
  have e1 : s1 = { s with cps := (s.b.parents.length, s.b.cur.length) :: s.cps } := by
    rw [exec] at h1; simp only [Res.ok.injEq] at h1; exact h1.symm
  subst e1
  obtain ⟨s2, h2, c2, h, hc⟩ := seq_inv defs rcv h hc
  have h2' := call_inv defs rcv h2
  simp only [defs] at h2'
  obtain ⟨k2, f2, a2, n2⟩ := leaf1_inv (by decide) h2' c2 hcur
  have hrest : s2.kinds = rest := by
    have : ({ s with cps := (s.b.parents.length, s.b.cur.length) :: s.cps } : PState).kinds = s.kinds := rfl
    rw [this, hk] at k2
    exact (List.cons.inj k2).2.symm
  have hcur2 : s2.cur ≠ .Less := by rw [cur_eq_head n2, hrest]; exact hL
  obtain ⟨s3, h3, c3, h, hc⟩ := seq_inv defs rcv h hc
  rcases ifFlag_inv defs rcv h3 with ⟨_, h3⟩ | ⟨hf, _⟩
  · simp only [ifEatIf] at h3
    obtain ⟨s4, h4, _, h3, c3'⟩ := seq_inv defs rcv h3 c3
    rcases eatIf_clean (by decide) h4 with ⟨hk4, _⟩ | ⟨_, rfl⟩
    · exact absurd hk4 hcur2
    · rcases ifFlag_inv defs rcv h3 with ⟨hf, _⟩ | ⟨_, h3⟩
      · simp at hf
      · have e5 := retB_inv defs rcv h3; subst e5
        have e6 : s' = { ({ ({ s2 with flag := false } : PState) with flag := true } : PState) with
            cps := ({ ({ s2 with flag := false } : PState) with flag := true } : PState).cps.tail } := by
          rw [exec] at h; simp only [Res.ok.injEq] at h; exact h.symm
        subst e6
        exact ⟨by show s.kinds = _ :: s2.kinds; rw [hrest]; exact hk, rfl, a2, n2⟩
  · rw [f2] at hf; cases hf

/-- `simple_value` at a one-token literal -/
theorem simple_lit_inv {n : Nat} {s s' : PState} {k : TokenKind} {rest : List TokenKind}
    (h : exec defs rcv n (call .simple_value) s = .ok s') (hc : Clean s s')
    (hk : s.kinds = k :: rest) (hcur : s.cur = k) (hlit : k ∈ litToks)
    (hS : rest.headD .Eof ≠ .StrVal) (hL : rest.headD .Eof ≠ .Less) :
    s'.kinds = rest ∧ s'.flag = true ∧ s'.afterError = false ∧ Norm s' := by
  have h := call_inv defs rcv (lift_fuel h 1)
  simp only [defs] at h
  obtain ⟨m, hm⟩ := matchPeek_inv _ _ _ _ _ h
  rw [hcur] at hm
  have fin : AteLit k s s' → s'.kinds = rest ∧ s'.flag = true ∧ s'.afterError = false ∧ Norm s' := by
    intro ⟨h1, h2, h3, h4⟩
    rw [hk] at h1
    exact ⟨(List.cons.inj h1).2.symm, h2, h3, h4⟩
  simp only [litToks, List.mem_cons, List.not_mem_nil, or_false] at hlit
  rcases hlit with rfl | rfl | rfl | rfl | rfl | rfl | rfl | rfl
  · have hm := call_inv defs rcv (lift_fuel (show exec defs rcv m (call .integer) s = .ok s' from hm) 20)
    simp only [defs, seqs, ifEatIf] at hm
    have := leaf2_inv (by decide) (by decide) hm hc (Or.inl hcur)
    rw [hcur] at this; exact fin this
  · have hm := call_inv defs rcv (lift_fuel (show exec defs rcv m (call .integer) s = .ok s' from hm) 20)
    simp only [defs, seqs, ifEatIf] at hm
    have := leaf2_inv (by decide) (by decide) hm hc (Or.inr hcur)
    rw [hcur] at this; exact fin this
  · exact fin (string_lit_inv (lift_fuel (show exec defs rcv m (call .string_) s = .ok s' from hm) 20) hc hk hcur hS)
  · have hm := call_inv defs rcv (lift_fuel (show exec defs rcv m (call .code) s = .ok s' from hm) 20)
    simp only [defs] at hm
    exact fin (leaf1_inv (by decide) hm hc hcur)
  · have hm := call_inv defs rcv (lift_fuel (show exec defs rcv m (call .boolean) s = .ok s' from hm) 20)
    simp only [defs, seqs, ifEatIf] at hm
    have := leaf2_inv (by decide) (by decide) hm hc (Or.inl hcur)
    rw [hcur] at this; exact fin this
  · have hm := call_inv defs rcv (lift_fuel (show exec defs rcv m (call .boolean) s = .ok s' from hm) 20)
    simp only [defs, seqs, ifEatIf] at hm
    have := leaf2_inv (by decide) (by decide) hm hc (Or.inr hcur)
    rw [hcur] at this; exact fin this
  · have hm := call_inv defs rcv (lift_fuel (show exec defs rcv m (call .uninitialized) s = .ok s' from hm) 20)
    simp only [defs] at hm
    exact fin (leaf1_inv (by decide) hm hc hcur)
  · exact fin (ident_lit_inv (lift_fuel (show exec defs rcv m (call .identifier_or_class_value) s = .ok s' from hm) 30)
      hc hk hcur hL)

/-- what may follow a one-token value: not a suffix (`{`, `[`, `.`), not `#`, not `<`, not another string -/
def litValFollow (k : TokenKind) : Bool :=
  !(k == .LBrace || k == .LSquare || k == .Dot || k == .Less || k == .StrVal || k == .Paste)

theorem lit_derives {k : TokenKind} (hlit : k ∈ litToks) : Derives (.nt .Value_) [k] := by
  simp only [litToks, List.mem_cons, List.not_mem_nil, or_false] at hlit
  rcases hlit with rfl | rfl | rfl | rfl | rfl | rfl | rfl | rfl
  · exact d_val (.mk (.safe (.int false)) .nil .nil)
  · exact d_val (.mk (.safe (.int true)) .nil .nil)
  · exact d_val (.mk .str .nil .nil)
  · exact d_val (.mk (.safe .code) .nil .nil)
  · exact d_val (.mk (.safe .tru) .nil .nil)
  · exact d_val (.mk (.safe .fls) .nil .nil)
  · exact d_val (.mk (.safe (.op .uninit)) .nil .nil)
  · exact d_val (.mk (.safe (.op .id)) .nil .nil)

/-- **`ValueOK` on one-token literals**: at a literal token (integer, string, code fragment,
`true`/`false`, `?`, identifier) that is not followed by a suffix, a paste, `<` or another string, a
clean run of `value` consumes exactly that token — a documented `Value` -/
theorem value_ok_literal (n : Nat) (s s' : PState) (h : exec defs rcv n (call .value) s = .ok s') (hc : Clean s s')
    (k : TokenKind) (rest : List TokenKind) (hk : s.kinds = k :: rest) (hcur : s.cur = k) (hlit : k ∈ litToks)
    (hf : litValFollow (rest.headD .Eof) = true) :
    s'.kinds = rest ∧ Derives (.nt .Value_) [k] := by
  refine ⟨?_, lit_derives hlit⟩
  obtain ⟨hB, hSq, hD, hL, hS, hP⟩ : (rest.headD .Eof == TokenKind.LBrace) = false ∧
      (rest.headD .Eof == TokenKind.LSquare) = false ∧ (rest.headD .Eof == TokenKind.Dot) = false ∧
      (rest.headD .Eof == TokenKind.Less) = false ∧ (rest.headD .Eof == TokenKind.StrVal) = false ∧
      (rest.headD .Eof == TokenKind.Paste) = false := by
    simpa [litValFollow, and_assoc] using hf
  have h := call_inv defs rcv (lift_fuel h 40)
  simp only [defs, seqs] at h
  obtain ⟨s1, h1, _, h, hc⟩ := seq_inv defs rcv h hc
  have e1 := startNode_inv defs rcv h1; subst e1
  obtain ⟨s2, h2, c2, h, hc⟩ := seq_inv defs rcv h hc
  -- inner_value
  have h2 := call_inv defs rcv h2
  simp only [defs, seqs] at h2
  obtain ⟨s3, h3, _, h2, c2⟩ := seq_inv defs rcv h2 c2
  have e3 := startNode_inv defs rcv h3; subst e3
  obtain ⟨s4, h4, c4, h2, c2⟩ := seq_inv defs rcv h2 c2
  obtain ⟨k4, f4, a4, n4⟩ := simple_lit_inv (s := (s.startNode .Value).startNode .InnerValue) h4 c4 hk hcur hlit
    (by simpa using hS) (by simpa using hL)
  have hc4 : s4.cur = rest.headD .Eof := by rw [cur_eq_head n4, k4]
  rcases ifFlag_inv defs rcv h2 with ⟨_, h2⟩ | ⟨hf4, _⟩
  · obtain ⟨s5, h5, c5, h2, c2⟩ := seq_inv defs rcv h2 c2
    -- the suffix loop stops at once
    obtain ⟨s6, h6, c6, hcase⟩ := loop_inv h5 c5
    have h6 := call_inv defs rcv h6
    simp only [defs] at h6
    obtain ⟨m, hm⟩ := matchPeek_inv _ _ _ _ _ h6
    have hpick : pick [([TokenKind.LBrace], seq (call .range_suffix) (retB true)),
        ([TokenKind.LSquare], seq (call .slice_suffix) (retB true)),
        ([TokenKind.Dot], seq (call .field_suffix) (retB true))] (retB false) s4.cur = retB false := by
      rw [hc4]
      simp only [pick, List.contains_cons, List.contains_nil, Bool.or_false, hB, hSq, hD]
      rfl
    rw [hpick] at hm
    cases m with
    | zero => simp [exec] at hm
    | succ m =>
      have e6 := retB_inv defs rcv hm; subst e6
      rcases hcase with ⟨_, rfl⟩ | ⟨hf6, _⟩
      · obtain ⟨k7, a7, f7, c7⟩ := finRet_inv' h2 c2
        -- back in `value`: the paste loop stops at once
        obtain ⟨s8, h8, c8, h, hc⟩ := seq_inv defs rcv h hc
        obtain ⟨s9, h9, _, hcase9⟩ := loop_inv h8 c8
        have hc2 : s2.cur = rest.headD .Eof := by rw [c7]; exact hc4
        rcases eatIf_clean (by decide) h9 with ⟨hk9, _⟩ | ⟨_, rfl⟩
        · rw [hc2] at hk9
          rw [hk9] at hP; cases hP
        · rcases hcase9 with ⟨_, rfl⟩ | ⟨hf9, _⟩
          · obtain ⟨k10, _, _, _⟩ := finRet_inv' h hc
            rw [k10]
            show s2.kinds = rest
            rw [k7]; exact k4
          · simp at hf9
      · simp at hf6
  · rw [f4] at hf4; cases hf4

end C04L
end Tg
