/-
C04: the token-level view of a parser state.  `PState.kinds` (DocSpec.lean) is the sequence of
non-trivia token kinds a state is looking at; here: `eat` removes exactly its head, `skip` leaves
it alone, a normalised state's look-ahead is its head, and it is never longer than the input.
-/
import TgModel.DocSpec
import TgModel.Lemmas.ProgressSound

namespace Tg
namespace C04L

theorem feed_eof (n : Nat) (src : Src) : feed n .Eof src = [] := by
  cases n <;> simp [feed]

theorem takeError_rest (src : Src) : src.takeError.2.rest = src.rest := by
  unfold Src.takeError; split <;> rfl

/-- the source the next token is read from -/
def srcAfter (k : TokenKind) (src : Src) : Src := if k == .Error then src.takeError.2 else src

theorem srcAfter_rest (k : TokenKind) (src : Src) : (srcAfter k src).rest = src.rest := by
  unfold srcAfter; split
  · exact takeError_rest src
  · rfl

theorem feed_succ (n : Nat) (k : TokenKind) (src : Src) :
    feed (n+1) k src =
      if k == .Eof then [] else
      if k.isTrivia then feed n ((srcAfter k src).eat).1.kind ((srcAfter k src).eat).2
      else k :: feed n ((srcAfter k src).eat).1.kind ((srcAfter k src).eat).2 := by
  simp only [feed, srcAfter]

theorem eat_rest_lt (src : Src) (h : (src.eat).1.kind ≠ .Eof) : (src.eat).2.rest.length + 1 ≤ src.rest.length := by
  have h1 := congrArg List.length (Src.eat_append src)
  have h2 := List.length_pos_iff.mpr (Src.eat_text_ne_nil src h)
  simp only [List.length_append] at h1
  omega

/-- more fuel than `rest.length + 2` changes nothing -/
theorem feed_stable : ∀ (f : Nat) (k : TokenKind) (src : Src), src.rest.length + 2 ≤ f →
    feed (f+1) k src = feed f k src := by
  intro f
  induction f with
  | zero => intro k src h; omega
  | succ f ih =>
    intro k src h
    rw [feed_succ (f+1) k src, feed_succ f k src]
    have key : feed (f+1) ((srcAfter k src).eat).1.kind ((srcAfter k src).eat).2 =
        feed f ((srcAfter k src).eat).1.kind ((srcAfter k src).eat).2 := by
      by_cases he : ((srcAfter k src).eat).1.kind = .Eof
      · rw [he, feed_eof, feed_eof]
      · apply ih
        have := eat_rest_lt _ he
        rw [srcAfter_rest] at this
        omega
    rw [key]

theorem feed_ge (k : TokenKind) (src : Src) (f : Nat) (h : src.rest.length + 2 ≤ f) :
    feed f k src = feed (src.rest.length + 2) k src := by
  induction f with
  | zero => omega
  | succ f ih =>
    by_cases hf : src.rest.length + 2 ≤ f
    · rw [feed_stable f k src hf]; exact ih hf
    · have : f + 1 = src.rest.length + 2 := by omega
      rw [this]

/-- one unfolding of `kinds`, in terms of the `kinds` of the state after `save; lex` -/
theorem feed_step (k : TokenKind) (src : Src) (hk : k ≠ .Eof) :
    feed (src.rest.length + 2) k src =
      (if k.isTrivia then [] else [k]) ++
        feed (((srcAfter k src).eat).2.rest.length + 2) ((srcAfter k src).eat).1.kind ((srcAfter k src).eat).2 := by
  rw [feed_succ]
  have hk' : (k == TokenKind.Eof) = false := by simpa using hk
  rw [hk']
  simp only [Bool.false_eq_true, if_false]
  have key : feed (src.rest.length + 1) ((srcAfter k src).eat).1.kind ((srcAfter k src).eat).2 =
      feed (((srcAfter k src).eat).2.rest.length + 2) ((srcAfter k src).eat).1.kind ((srcAfter k src).eat).2 := by
    by_cases he : ((srcAfter k src).eat).1.kind = .Eof
    · rw [he, feed_eof, feed_eof]
    · apply feed_ge
      have := eat_rest_lt _ he
      rw [srcAfter_rest] at this
      omega
  rw [key]
  split <;> simp

theorem kinds_def (s : PState) : s.kinds = feed (s.src.rest.length + 2) s.cur s.src := rfl

theorem kinds_eof {s : PState} (h : s.cur = .Eof) : s.kinds = [] := by
  rw [kinds_def, h, feed_eof]

/-- a state whose look-ahead is not trivia (what `skip` establishes) -/
def Norm (s : PState) : Prop := s.cur.isTrivia = false

theorem kinds_cons {s : PState} (hn : Norm s) (h : s.cur ≠ .Eof) : ∃ tl, s.kinds = s.cur :: tl := by
  rw [kinds_def, feed_step _ _ h, hn]
  exact ⟨_, rfl⟩

/-- the look-ahead of a normalised state is the head of its `kinds` -/
theorem cur_eq_head {s : PState} (hn : Norm s) : s.cur = s.kinds.headD .Eof := by
  by_cases h : s.cur = .Eof
  · rw [kinds_eof h, h]; rfl
  · obtain ⟨tl, e⟩ := kinds_cons hn h
    rw [e]; rfl

theorem kinds_nil_cur {s : PState} (hn : Norm s) (h : s.kinds = []) : s.cur = .Eof := by
  rw [cur_eq_head hn, h]; rfl

/-! ### `save; lex` -/

/-- what `save` does when the look-ahead is not an `Error` token -/
theorem save_plain {s : PState} (h : s.cur ≠ .Error) :
    s.save = .ok { s.pushTok with afterError := false } := by
  unfold PState.save
  have : (s.cur == TokenKind.Error) = false := by simpa using h
  rw [this]; rfl

/-- all trees of the list are token leaves -/
def allTok : List Tree → Bool
  | [] => true
  | .token _ _ :: ts => allTok ts
  | .node _ _ :: _ => false

theorem allTok_append (a b : List Tree) : allTok (a ++ b) = (allTok a && allTok b) := by
  induction a with
  | nil => simp [allTok]
  | cons t ts ih => cases t <;> simp [allTok, ih]

/-- the frame facts shared by `eat` and `skip` -/
structure Keeps (s s' : PState) : Prop where
  errors : s'.errors = s.errors
  flag : s'.flag = s.flag
  cps : s'.cps = s.cps
  locals : s'.locals = s.locals
  parents : s'.b.parents = s.b.parents
  cur : ∃ new, s'.b.cur = new ++ s.b.cur ∧ allTok new = true

theorem Keeps.refl (s : PState) : Keeps s s := ⟨rfl, rfl, rfl, rfl, rfl, ⟨[], rfl, rfl⟩⟩

theorem Keeps.trans {a b c : PState} (h1 : Keeps a b) (h2 : Keeps b c) : Keeps a c := by
  obtain ⟨n1, e1, t1⟩ := h1.cur
  obtain ⟨n2, e2, t2⟩ := h2.cur
  exact ⟨h2.errors.trans h1.errors, h2.flag.trans h1.flag, h2.cps.trans h1.cps,
    h2.locals.trans h1.locals, h2.parents.trans h1.parents,
    ⟨n2 ++ n1, by rw [e2, e1, List.append_assoc], by rw [allTok_append, t1, t2]; rfl⟩⟩

/-- `save; lex` on a non-`Error`, non-`Eof` look-ahead -/
theorem save_lex_props {s : PState} (hE : s.cur ≠ .Error) (hF : s.cur ≠ .Eof) :
    ∃ s1, s.save = .ok s1 ∧
      s.kinds = (if s.cur.isTrivia then [] else [s.cur]) ++ s1.lex.kinds ∧
      Keeps s s1.lex ∧ s1.lex.afterError = false := by
  refine ⟨_, save_plain hE, ?_, ?_, rfl⟩
  · rw [kinds_def, feed_step _ _ hF]
    have : srcAfter s.cur s.src = s.src := by
      unfold srcAfter
      have : (s.cur == TokenKind.Error) = false := by simpa using hE
      rw [this]; rfl
    rw [this]
    rfl
  · exact ⟨rfl, rfl, rfl, rfl, rfl, ⟨[_], rfl, rfl⟩⟩

theorem trivia_ne_error {k : TokenKind} (h : k.isTrivia = true) : k ≠ .Error ∧ k ≠ .Eof := by
  constructor <;> (intro hk; rw [hk] at h; exact absurd h (by decide))

/-- `skip` only moves over trivia -/
theorem skip_props (n : Nat) {s s' : PState} (h : PState.skip n s = .ok s') :
    s'.kinds = s.kinds ∧ Norm s' ∧ Keeps s s' ∧ (s'.afterError = true → s.afterError = true) := by
  induction n generalizing s with
  | zero => simp [PState.skip] at h
  | succ n ih =>
    simp only [PState.skip] at h
    split at h
    · rename_i htr
      obtain ⟨hE, hF⟩ := trivia_ne_error htr
      obtain ⟨s1, hs, hk, hkeep, ha⟩ := save_lex_props hE hF
      rw [hs] at h
      simp only [] at h
      obtain ⟨k2, n2, keep2, a2⟩ := ih h
      refine ⟨?_, n2, hkeep.trans keep2, ?_⟩
      · rw [k2, hk, htr]; simp
      · intro hh; rw [ha] at a2; exact absurd (a2 hh) (by simp)
    · rename_i htr
      simp only [Res.ok.injEq] at h; subst h
      exact ⟨rfl, by simpa [Norm] using htr, Keeps.refl _, id⟩

/-- **`eat` removes exactly the head of `kinds`** (look-ahead neither `Error` nor `Eof` nor trivia) -/
theorem eat_props {s s' : PState} (hn : Norm s) (hE : s.cur ≠ .Error) (hF : s.cur ≠ .Eof)
    (h : s.eat = .ok s') :
    s.kinds = s.cur :: s'.kinds ∧ Norm s' ∧ Keeps s s' ∧ s'.afterError = false := by
  unfold PState.eat at h
  obtain ⟨s1, hs, hk, hkeep, ha⟩ := save_lex_props hE hF
  rw [hs] at h
  simp only [] at h
  obtain ⟨k2, n2, keep2, a2⟩ := skip_props _ h
  refine ⟨?_, n2, hkeep.trans keep2, ?_⟩
  · rw [hk, hn, k2]; simp
  · cases hb : s'.afterError with
    | false => rfl
    | true => rw [ha] at a2; exact absurd (a2 hb) (by simp)

/-- existence part, from the C02 development -/
theorem eat_ok {input : List Char} {s : PState} (hi : Inv input s) :
    ∃ s', s.eat = .ok s' ∧ Inv input s' := by
  obtain ⟨s', h, i, _, _⟩ := Progress.eat_good s hi
  exact ⟨s', h, i⟩

theorem skip_ok {input : List Char} {s : PState} (hi : Inv input s) :
    ∃ s', PState.skip s.skipFuel s = .ok s' ∧ Inv input s' := by
  have hc := hi.capOk
  obtain ⟨s', h, i, _, _⟩ := Progress.skip_good s.skipFuel s hi (by unfold PState.skipFuel Progress.mu; omega)
  exact ⟨s', h, i⟩

/-! ### length bound -/

theorem feed_length : ∀ (f : Nat) (k : TokenKind) (src : Src),
    (feed f k src).length ≤ (if k = .Eof then 0 else 1) + src.rest.length := by
  intro f
  induction f with
  | zero => intro k src; simp [feed]
  | succ f ih =>
    intro k src
    rw [feed_succ]
    by_cases hk : k = .Eof
    · simp [hk]
    · have hk' : (k == TokenKind.Eof) = false := by simpa using hk
      rw [hk']
      simp only [Bool.false_eq_true, if_false, hk]
      have h1 := ih ((srcAfter k src).eat).1.kind ((srcAfter k src).eat).2
      have h2 : (if ((srcAfter k src).eat).1.kind = TokenKind.Eof then 0 else 1) +
          ((srcAfter k src).eat).2.rest.length ≤ src.rest.length := by
        by_cases he : ((srcAfter k src).eat).1.kind = .Eof
        · have := congrArg List.length (Src.eat_append (srcAfter k src))
          rw [srcAfter_rest] at this
          simp only [List.length_append] at this
          simp [he]; omega
        · have := eat_rest_lt _ he
          rw [srcAfter_rest] at this
          simp [he]; omega
      split
      · omega
      · simp only [List.length_cons]; omega

theorem kinds_length_le {input : List Char} {s : PState} (hi : Inv input s) :
    s.kinds.length ≤ s.curText.length + s.src.rest.length := by
  have h := feed_length (s.src.rest.length + 2) s.cur s.src
  rw [← kinds_def] at h
  by_cases hk : s.cur = .Eof
  · simp [hk] at h; omega
  · have := List.length_pos_iff.mpr (hi.ne hk)
    simp [hk] at h; omega

theorem init_kinds_length (input : List Char) : (PState.init input).kinds.length ≤ input.length := by
  have hi := PState.inv_init input
  have h := kinds_length_le hi
  have ht := congrArg List.length hi.text
  simp only [List.length_append] at ht
  omega

end C04L
end Tg
