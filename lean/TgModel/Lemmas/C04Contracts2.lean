/-
C04 forward direction, step 3 (continued): contracts for record bodies and statements.
-/
import TgModel.Lemmas.C04Values3

namespace Tg
namespace C04L
open Prog Grammar Frag

set_option linter.unusedSimpArgs false

variable (fl : Bool) (d : Nat) (loc : List Bool) (cps : CpStack) (cur : List SyntaxKind) (ps : List (SyntaxKind × List SyntaxKind))

/-! ### template arguments -/

/-- push `k` unless the optional construct was empty -/
def optPush (k : SyntaxKind) (cur : List SyntaxKind) : Bool → List SyntaxKind
  | true => cur
  | false => k :: cur

def Frag.ArgVal.nk : ArgVal → SyntaxKind
  | .pos _ => .PositionalArgValue
  | .named _ _ => .NamedArgValue

def Frag.BodyItem.nk : BodyItem → SyntaxKind
  | .fieldDef _ _ _ => .FieldDef
  | .letField _ _ => .FieldLet
  | .defvar _ => .Defvar
  | .assert_ _ _ => .Assert
  | .dump _ => .Dump

/-- a type node is what the `type` accessors of declarations cast -/
theorem good_decl2 (k : SyntaxKind) (hk : k = .TemplateArgDecl ∨ k = .FieldDef) (t : Ty) :
    goodNode k (List.reverse [.Identifier, t.nk]) = true ∧ goodNode k (List.reverse [.Value, .Identifier, t.nk]) = true := by
  rcases hk with rfl | rfl <;> cases t <;> exact ⟨rfl, rfl⟩

theorem valFollowOk_of_mem {k : TokenKind} {S : List TokenKind} (h : S.contains k = true)
    (hS : S.all valFollowOk = true) : valFollowOk k = true := prop_of_mem valFollowOk h hS

theorem c_targ (a : TArg) (X : List TokenKind) (hX : [TokenKind.Comma, .Greater].contains (X.headD .Eof) = true)
    (n : Nat) (hn : 64 * a.render.length + 448 ≤ n) :
    ax n (call .template_arg_decl) ⟨a.render ++ X, fl, d, loc, cps, true, cur, ps⟩ = some ⟨X, a.dflt.isSome, d, loc, cps, true, SyntaxKind.TemplateArgDecl :: cur, ps⟩ := by
  obtain ⟨⟨t, ht⟩, dflt⟩ := a
  have hv := valFollowOk_of_mem hX (by decide)
  have hE : (X.headD .Eof == .Equal) = false := ne_of_mem hX (by decide)
  obtain ⟨hg1, hg2⟩ := good_decl2 .TemplateArgDecl (Or.inl rfl) t
  cases dflt with
  | none =>
    simp only [TArg.render, DTy.render, optInit, List.length_cons, List.length_append, List.length_nil] at hn ⊢
    obtain ⟨m, rfl⟩ : ∃ m, n = m + 40 := ⟨n - 40, by omega⟩
    ax_eval [ax_call (f := .template_arg_decl), c_type, c_identifier, Option.isSome]
  | some v =>
    simp only [TArg.render, DTy.render, optInit, List.length_cons, List.length_append, List.length_nil] at hn ⊢
    obtain ⟨m, rfl⟩ : ∃ m, n = m + 40 := ⟨n - 40, by omega⟩
    ax_eval [ax_call (f := .template_arg_decl), c_type, c_identifier, c_value, Option.isSome]

theorem targ_head (a : TArg) (Z : List TokenKind) :
    Tables.typeFirst.contains ((a.render ++ Z).headD .Eof) = true := by
  obtain ⟨⟨t, ht⟩, dflt⟩ := a
  simp only [TArg.render, DTy.render, List.append_assoc]
  exact ty_head t _

/-- the loop of `delimited('<', '>', ',', template_arg_decl)` -/
theorem c_targs_loop (as : List TArg) (X : List TokenKind) :
    ∀ (a : TArg) (n : Nat) (fl : Bool) (cur : List SyntaxKind), 64 * (a.render.length + (targsTail as).length) + 512 ≤ n →
      ax n (loop (ifAt [.Greater, .Eof] (retB false) (seq (call .template_arg_decl) (eatIf .Comma))) nop)
        ⟨a.render ++ (targsTail as ++ TokenKind.Greater :: X), fl, d, loc, cps, true, cur, ps⟩ =
        some ⟨TokenKind.Greater :: X, false, d, loc, cps, true, pushAll (List.replicate (as.length + 1) SyntaxKind.TemplateArgDecl) cur, ps⟩ := by
  induction as with
  | nil =>
    intro a n fl cur hn
    simp only [targsTail, List.length_append, List.length_nil] at hn
    obtain ⟨m, rfl⟩ : ∃ m, n = m + 20 := ⟨n - 20, by omega⟩
    have hh : ∀ Z, [TokenKind.Greater, .Eof].contains ((a.render ++ Z).headD .Eof) = false :=
      fun Z => notin_of_mem (targ_head a Z) (by decide)
    rw [ax_loop]
    ax_eval [targsTail, c_targ, List.length_nil]
  | cons a2 as ih =>
    intro a n fl cur hn
    simp only [targsTail, List.length_append, List.length_cons] at hn
    obtain ⟨m, rfl⟩ : ∃ m, n = m + 20 := ⟨n - 20, by omega⟩
    have hh : ∀ Z, [TokenKind.Greater, .Eof].contains ((a.render ++ Z).headD .Eof) = false :=
      fun Z => notin_of_mem (targ_head a Z) (by decide)
    rw [ax_loop]
    ax_eval [targsTail, c_targ, ih, List.length_cons]

def optFlag (fl : Bool) : Bool → Bool
  | true => fl
  | false => false

theorem c_opt_targs (ta : List TArg) (X : List TokenKind) (hX : (X.headD .Eof == .Less) = false)
    (n : Nat) (hn : 64 * (targsRender ta).length + 576 ≤ n) :
    ax n (call .opt_template_arg_list) ⟨targsRender ta ++ X, fl, d, loc, cps, true, cur, ps⟩ =
      some ⟨X, optFlag fl ta.isEmpty, d, loc, cps, true, optPush .TemplateArgList cur ta.isEmpty, ps⟩ := by
  cases ta with
  | nil =>
    obtain ⟨m, rfl⟩ : ∃ m, n = m + 20 := ⟨n - 20, by omega⟩
    ax_eval [ax_call, targsRender, optFlag, optPush, List.isEmpty_nil, hX]
  | cons a as =>
    simp only [targsRender, List.length_cons, List.length_append, List.length_nil] at hn
    obtain ⟨m, rfl⟩ : ∃ m, n = m + 40 := ⟨n - 40, by omega⟩
    have hg : goodNode .TemplateArgList (pushAll (List.replicate as.length .TemplateArgDecl) [.TemplateArgDecl]).reverse = true :=
      good_all_push .TemplateArgList ⟨"args", .all, [.TemplateArgDecl]⟩ rfl rfl (List.replicate (as.length + 1) .TemplateArgDecl)
        (by intro x hx; rw [List.eq_of_mem_replicate hx]; rfl)
    ax_eval [ax_call, targsRender, optFlag, optPush, List.isEmpty_cons, c_targs_loop _ _ _ _ as X]

/-! ### parent classes -/

/-- no positional argument after a named one (`seen`: a named one came before) -/
def okAfter : Bool → List ArgVal → Bool
  | _, [] => true
  | seen, .pos _ :: as => !seen && okAfter false as
  | _, .named _ _ :: as => okAfter true as

def seenAfter : Bool → List ArgVal → Bool
  | seen, [] => seen
  | seen, a :: as => seenAfter (seen || a.isNamed) as

theorem okAfter_cons {seen : Bool} {a : ArgVal} {as : List ArgVal} (h : okAfter seen (a :: as) = true) :
    (a.isNamed = true ∨ seen = false) ∧ okAfter (seen || a.isNamed) as = true := by
  cases a with
  | pos v =>
    simp only [okAfter, Bool.and_eq_true, Bool.not_eq_true'] at h
    obtain ⟨h1, h2⟩ := h
    subst h1
    exact ⟨Or.inr rfl, by simpa [ArgVal.isNamed] using h2⟩
  | named n v =>
    simp only [okAfter] at h
    exact ⟨Or.inl rfl, by simpa [ArgVal.isNamed] using h⟩

theorem okAfter_named (seen : Bool) (l : List (Val × Val)) :
    okAfter seen (l.map (fun p => ArgVal.named p.1 p.2)) = true := by
  induction l generalizing seen with
  | nil => rfl
  | cons p ps ih => simp only [List.map_cons, okAfter]; exact ih true

theorem okAfter_toList (l : ArgList) : okAfter false l.toList = true := by
  obtain ⟨pos, named⟩ := l
  simp only [ArgList.toList]
  induction pos with
  | nil => exact okAfter_named false named
  | cons v vs ih => simp only [List.map_cons, List.cons_append, okAfter]; simpa using ih

theorem arg_head (a : ArgVal) (Z : List TokenKind) : valFirst.contains ((a.render ++ Z).headD .Eof) = true := by
  cases a with
  | pos v => exact val_head v Z
  | named n v => simp only [ArgVal.render, List.append_assoc]; exact val_head n _

theorem arg_length_pos (a : ArgVal) : 1 ≤ a.render.length := by
  cases a with
  | pos v => exact val_length_pos v
  | named n v => simp only [ArgVal.render, List.length_append]; have := val_length_pos n; omega

theorem c_arg_value (seen : Bool) (a : ArgVal) (hok : a.isNamed = true ∨ seen = false) (X : List TokenKind)
    (hX : [TokenKind.Comma, .Greater].contains (X.headD .Eof) = true) (h0 : hasTop cps = false)
    (n : Nat) (hn : 64 * a.render.length + 512 ≤ n) :
    ax n (call .arg_value) ⟨a.render ++ X, fl, d, seen :: loc, cps, true, cur, ps⟩ =
      some ⟨X, a.isNamed, d, (seen || a.isNamed) :: loc, cps, true, a.nk :: cur, ps⟩ := by
  have hv := valFollowOk_of_mem hX (by decide)
  have hE : (X.headD .Eof == .Equal) = false := ne_of_mem hX (by decide)
  cases a with
  | pos v =>
    have hs : seen = false := by simpa [ArgVal.isNamed] using hok
    subst hs
    simp only [ArgVal.render] at hn ⊢
    obtain ⟨m, rfl⟩ : ∃ m, n = m + 40 := ⟨n - 40, by omega⟩
    ax_eval [ax_call (f := .arg_value), c_value, ArgVal.isNamed, ArgVal.nk, Bool.or_false]
  | named nm v =>
    simp only [ArgVal.render, List.length_append, List.length_cons] at hn ⊢
    obtain ⟨m, rfl⟩ : ∃ m, n = m + 40 := ⟨n - 40, by omega⟩
    ax_eval [ax_call (f := .arg_value), c_value, ArgVal.isNamed, ArgVal.nk, Bool.or_true]

/-- the loop of `arg_value_list` -/
theorem c_args_loop (as : List ArgVal) (X : List TokenKind) (h0 : hasTop cps = false) :
    ∀ (a : ArgVal) (seen : Bool) (n : Nat) (fl : Bool) (cur : List SyntaxKind), okAfter seen (a :: as) = true →
      64 * (a.render.length + (argsTail as).length) + 576 ≤ n →
      ax n (loop (ifAt [.Eof] (retB false) (seq (call .arg_value) (eatIf .Comma))) nop)
        ⟨a.render ++ (argsTail as ++ TokenKind.Greater :: X), fl, d, seen :: loc, cps, true, cur, ps⟩ =
        some ⟨TokenKind.Greater :: X, false, d, seenAfter seen (a :: as) :: loc, cps, true, pushAll ((a :: as).map ArgVal.nk) cur, ps⟩ := by
  induction as with
  | nil =>
    intro a seen n fl cur hok hn
    simp only [argsTail, List.length_nil] at hn
    obtain ⟨m, rfl⟩ : ∃ m, n = m + 20 := ⟨n - 20, by omega⟩
    have hh : ∀ Z, [TokenKind.Eof].contains ((a.render ++ Z).headD .Eof) = false :=
      fun Z => notin_of_mem (arg_head a Z) (by decide)
    have hok' := (okAfter_cons hok).1
    rw [ax_loop]
    ax_eval [argsTail, c_arg_value, seenAfter, List.map_cons, List.map_nil]
  | cons b bs ih =>
    intro a seen n fl cur hok hn
    simp only [argsTail, List.length_cons, List.length_append] at hn
    obtain ⟨m, rfl⟩ : ∃ m, n = m + 20 := ⟨n - 20, by omega⟩
    have hh : ∀ Z, [TokenKind.Eof].contains ((a.render ++ Z).headD .Eof) = false :=
      fun Z => notin_of_mem (arg_head a Z) (by decide)
    obtain ⟨hok1, hok2⟩ := okAfter_cons hok
    rw [ax_loop]
    ax_eval [argsTail, c_arg_value, ih, seenAfter, List.map_cons]

theorem c_arg_value_list (l : List ArgVal) (hok : okAfter false l = true) (X : List TokenKind)
    (n : Nat) (hn : 64 * (argsRender l).length + 640 ≤ n) :
    ax n (call .arg_value_list) ⟨argsRender l ++ TokenKind.Greater :: X, fl, d, loc, cps, true, cur, ps⟩ =
      some ⟨TokenKind.Greater :: X, optFlag fl l.isEmpty, d, loc, cps, true, SyntaxKind.ArgValueList :: cur, ps⟩ := by
  cases l with
  | nil =>
    obtain ⟨m, rfl⟩ : ∃ m, n = m + 20 := ⟨n - 20, by omega⟩
    ax_eval [ax_call, argsRender, optFlag, List.isEmpty_nil]
  | cons a as =>
    simp only [argsRender, List.length_append] at hn
    obtain ⟨m, rfl⟩ : ∃ m, n = m + 20 := ⟨n - 20, by omega⟩
    have hh : ∀ Z, Tables.valueStart.contains ((a.render ++ Z).headD .Eof) = true :=
      fun Z => in_of_mem (arg_head a Z) (by decide)
    have hg : goodNode .ArgValueList (pushAll (List.map ArgVal.nk as) [a.nk]).reverse = true :=
      good_all_push .ArgValueList ⟨"arg_values", .all, [.PositionalArgValue, .NamedArgValue]⟩ rfl rfl
        ((a :: as).map ArgVal.nk) (by
          intro x hx
          obtain ⟨y, _, rfl⟩ := List.mem_map.mp hx
          cases y <;> rfl)
    ax_eval [ax_call (f := .arg_value_list), argsRender, optFlag, List.isEmpty_cons, List.map_cons,
      c_args_loop _ loc (cpsUp cps) _ as X (hasTop_cpsUp cps) a false]

def classRefFlag : Option ArgList → Bool
  | none => false
  | some l => optFlag true l.toList.isEmpty

theorem c_class_ref (r : ClassRef) (X : List TokenKind) (hL : (X.headD .Eof == .Less) = false)
    (n : Nat) (hn : 64 * r.render.length + 704 ≤ n) :
    ax n (call .class_ref) ⟨r.render ++ X, fl, d, loc, cps, true, cur, ps⟩ = some ⟨X, classRefFlag r.args, d, loc, cps, true, SyntaxKind.ClassRef :: cur, ps⟩ := by
  obtain ⟨args⟩ := r
  cases args with
  | none =>
    obtain ⟨m, rfl⟩ : ∃ m, n = m + 40 := ⟨n - 40, by omega⟩
    ax_eval [ax_call (f := .class_ref), ClassRef.render, optArgs, classRefFlag, c_identifier, hL]
  | some l =>
    simp only [ClassRef.render, optArgs, ArgList.render, List.length_cons, List.length_append, List.length_nil] at hn
    obtain ⟨m, rfl⟩ : ∃ m, n = m + 40 := ⟨n - 40, by omega⟩
    have hok := okAfter_toList l
    ax_eval [ax_call (f := .class_ref), ClassRef.render, optArgs, ArgList.render, classRefFlag, c_identifier,
      c_arg_value_list]

theorem classRef_length_pos (r : ClassRef) : 1 ≤ r.render.length := by
  simp [ClassRef.render]

theorem c_parents_loop (rs : List ClassRef) (X : List TokenKind)
    (hX : [TokenKind.Semi, .LBrace].contains (X.headD .Eof) = true) :
    ∀ (r : ClassRef) (n : Nat) (fl : Bool) (cur : List SyntaxKind), 64 * (r.render.length + (parentsTail rs).length) + 768 ≤ n →
      ax n (loop (ifAt [.Eof] (retB false) (seq (call .class_ref) (eatIf .Comma))) nop)
        ⟨r.render ++ (parentsTail rs ++ X), fl, d, loc, cps, true, cur, ps⟩ = some ⟨X, false, d, loc, cps, true, pushAll (List.replicate (rs.length + 1) SyntaxKind.ClassRef) cur, ps⟩ := by
  have hL : (X.headD .Eof == .Less) = false := ne_of_mem hX (by decide)
  have hC : (X.headD .Eof == .Comma) = false := ne_of_mem hX (by decide)
  induction rs with
  | nil =>
    intro r n fl cur hn
    simp only [parentsTail, List.length_nil] at hn
    obtain ⟨m, rfl⟩ : ∃ m, n = m + 20 := ⟨n - 20, by omega⟩
    have hh : ∀ Z, [TokenKind.Eof].contains ((r.render ++ Z).headD .Eof) = false := fun Z => rfl
    rw [ax_loop]
    ax_eval [parentsTail, c_class_ref, List.length_nil]
  | cons q qs ih =>
    intro r n fl cur hn
    simp only [parentsTail, List.length_cons, List.length_append] at hn
    obtain ⟨m, rfl⟩ : ∃ m, n = m + 20 := ⟨n - 20, by omega⟩
    have hh : ∀ Z, [TokenKind.Eof].contains ((r.render ++ Z).headD .Eof) = false := fun Z => rfl
    rw [ax_loop]
    ax_eval [parentsTail, c_class_ref, ih, List.length_cons]

theorem c_parent_class_list (p : List ClassRef) (X : List TokenKind)
    (hX : [TokenKind.Semi, .LBrace].contains (X.headD .Eof) = true)
    (n : Nat) (hn : 64 * (parentsRender p).length + 832 ≤ n) :
    ax n (call .parent_class_list) ⟨parentsRender p ++ X, fl, d, loc, cps, true, cur, ps⟩ = some ⟨X, false, d, loc, cps, true, SyntaxKind.ParentClassList :: cur, ps⟩ := by
  cases p with
  | nil =>
    have hC : (X.headD .Eof == .Colon) = false := ne_of_mem hX (by decide)
    obtain ⟨m, rfl⟩ : ∃ m, n = m + 20 := ⟨n - 20, by omega⟩
    ax_eval [ax_call, parentsRender]
  | cons r rs =>
    simp only [parentsRender, List.length_cons, List.length_append] at hn
    obtain ⟨m, rfl⟩ : ∃ m, n = m + 20 := ⟨n - 20, by omega⟩
    have hg : goodNode .ParentClassList (pushAll (List.replicate rs.length .ClassRef) [.ClassRef]).reverse = true :=
      good_all_push .ParentClassList ⟨"classes", .all, [.ClassRef]⟩ rfl rfl (List.replicate (rs.length + 1) .ClassRef)
        (by intro x hx; rw [List.eq_of_mem_replicate hx]; rfl)
    ax_eval [ax_call, parentsRender, c_parents_loop _ _ _ _ rs X hX]

/-! ### body items -/

theorem fty_head (t : FTy) (Z : List TokenKind) :
    Tables.typeFirst.contains ((t.render ++ Z).headD .Eof) = true := by
  simp only [FTy.render]; exact ty_head _ _

theorem c_field_def (f : Bool) (t : FTy) (i : Option Val) (Y : List TokenKind)
    (n : Nat) (hn : 64 * (BodyItem.fieldDef f t i).render.length + 448 ≤ n) :
    ax n (call .field_def) ⟨(BodyItem.fieldDef f t i).render ++ Y, fl, d, loc, cps, true, cur, ps⟩ =
      some ⟨Y, i.isSome, d, loc, cps, true, SyntaxKind.FieldDef :: cur, ps⟩ := by
  have hF : ∀ Z, ((t.toTy.render ++ Z).headD .Eof == TokenKind.Field) = false :=
    fun Z => ne_of_mem (ty_head t.toTy Z) (by decide)
  obtain ⟨hg1, hg2⟩ := good_decl2 .FieldDef (Or.inr rfl) t.toTy
  cases f <;> cases i <;>
  · simp only [BodyItem.render, FTy.render, optInit, List.length_cons, List.length_append, List.length_nil,
      if_true, if_false, Bool.false_eq_true] at hn ⊢
    obtain ⟨m, rfl⟩ : ∃ m, n = m + 40 := ⟨n - 40, by omega⟩
    ax_eval [ax_call (f := .field_def), c_type, c_identifier, c_value, Option.isSome]

theorem c_body_item (i : BodyItem) (Y : List TokenKind) (n : Nat) (hn : 64 * i.render.length + 512 ≤ n) :
    ax n (call .body_item) ⟨i.render ++ Y, fl, d, loc, cps, true, cur, ps⟩ = some ⟨Y, true, d, loc, cps, true, i.nk :: cur, ps⟩ := by
  cases i with
  | fieldDef f t i =>
    have hh : ∀ Z, (Tables.typeFirst ++ [TokenKind.Field]).contains ((t.toTy.render ++ Z).headD .Eof) = true :=
      fun Z => in_of_mem (ty_head t.toTy Z) (by decide)
    obtain ⟨m, rfl⟩ : ∃ m, n = m + 20 := ⟨n - 20, by omega⟩
    rw [ax_call]
    simp only [Grammar.defs]
    have h1 : (Tables.typeFirst ++ [TokenKind.Field]).contains
        (((BodyItem.fieldDef f t i).render ++ Y).headD .Eof) = true := by
      cases f
      · simp only [BodyItem.render, FTy.render, Bool.false_eq_true, if_false, List.nil_append, List.append_assoc]
        exact hh _
      · rfl
    rw [ax_ifAt_pos _ _ _ _ _ _ _ _ _ _ _ h1]
    ax_eval [c_field_def, BodyItem.nk]
  | letField r v =>
    cases r with
    | none =>
      simp only [BodyItem.render, optRange, List.length_cons, List.length_append, List.length_nil] at hn ⊢
      obtain ⟨m, rfl⟩ : ∃ m, n = m + 40 := ⟨n - 40, by omega⟩
      ax_eval [ax_call (f := .body_item), ax_call (f := .field_let), bodyItemArms, BodyItem.nk, c_identifier, c_value]
    | some r =>
      simp only [BodyItem.render, optRange, List.length_cons, List.length_append, List.length_nil] at hn ⊢
      obtain ⟨m, rfl⟩ : ∃ m, n = m + 40 := ⟨n - 40, by omega⟩
      ax_eval [ax_call (f := .body_item), ax_call (f := .field_let), bodyItemArms, BodyItem.nk, c_identifier, c_value,
        c_range_list]
  | defvar v =>
    simp only [BodyItem.render, List.length_cons, List.length_append, List.length_nil] at hn ⊢
    obtain ⟨m, rfl⟩ : ∃ m, n = m + 40 := ⟨n - 40, by omega⟩
    ax_eval [ax_call (f := .body_item), ax_call (f := .defvar), bodyItemArms, BodyItem.nk, c_identifier, c_value]
  | assert_ c msg =>
    simp only [BodyItem.render, List.length_cons, List.length_append, List.length_nil] at hn ⊢
    obtain ⟨m, rfl⟩ : ∃ m, n = m + 40 := ⟨n - 40, by omega⟩
    ax_eval [ax_call (f := .body_item), ax_call (f := .assert_), bodyItemArms, BodyItem.nk, c_value]
  | dump v =>
    simp only [BodyItem.render, List.length_cons, List.length_append, List.length_nil] at hn ⊢
    obtain ⟨m, rfl⟩ : ∃ m, n = m + 40 := ⟨n - 40, by omega⟩
    ax_eval [ax_call (f := .body_item), ax_call (f := .dump), bodyItemArms, BodyItem.nk, c_value]

/-- the tokens a body item can start with -/
def itemFirst : List TokenKind := Tables.typeFirst ++ [.Field, .Let, .Defvar, .Assert, .Dump]

theorem item_head (i : BodyItem) (Z : List TokenKind) : itemFirst.contains ((i.render ++ Z).headD .Eof) = true := by
  cases i with
  | fieldDef f t i =>
    cases f
    · simp only [BodyItem.render, FTy.render, Bool.false_eq_true, if_false, List.nil_append, List.append_assoc]
      exact in_of_mem (ty_head t.toTy _) (by decide)
    · rfl
  | _ => rfl

theorem item_length_pos (i : BodyItem) : 0 < i.render.length := by
  cases i <;> simp [BodyItem.render] <;> omega

theorem c_items_loop (is : List BodyItem) (X : List TokenKind) :
    ∀ (n : Nat) (fl : Bool) (cur : List SyntaxKind), 64 * (itemsRender is).length + 576 ≤ n →
      ax n (loop (ifAt [.RBrace, .Eof] (retB false) (call .body_item)) nop)
        ⟨itemsRender is ++ TokenKind.RBrace :: X, fl, d, loc, cps, true, cur, ps⟩ =
        some ⟨TokenKind.RBrace :: X, false, d, loc, cps, true, pushAll (is.map BodyItem.nk) cur, ps⟩ := by
  induction is with
  | nil =>
    intro n fl cur hn
    obtain ⟨m, rfl⟩ : ∃ m, n = m + 20 := ⟨n - 20, by omega⟩
    rw [ax_loop]
    ax_eval [itemsRender, List.map_nil]
  | cons i is ih =>
    intro n fl cur hn
    simp only [itemsRender, List.length_append] at hn
    obtain ⟨m, rfl⟩ : ∃ m, n = m + 20 := ⟨n - 20, by omega⟩
    have hh : ∀ Z, [TokenKind.RBrace, .Eof].contains ((i.render ++ Z).headD .Eof) = false :=
      fun Z => notin_of_mem (item_head i Z) (by decide)
    have hpos := item_length_pos i
    rw [ax_loop]
    ax_eval [itemsRender, c_body_item, ih, List.map_cons]

def Frag.Body.isSemi : Body → Bool
  | .semi => true
  | .braces _ => false

theorem c_body (b : Body) (X : List TokenKind) (n : Nat) (hn : 64 * b.render.length + 640 ≤ n) :
    ax n (call .body) ⟨b.render ++ X, fl, d, loc, cps, true, cur, ps⟩ = some ⟨X, b.isSemi, d, loc, cps, true, SyntaxKind.Body :: cur, ps⟩ := by
  cases b with
  | semi =>
    obtain ⟨m, rfl⟩ : ∃ m, n = m + 20 := ⟨n - 20, by omega⟩
    ax_eval [ax_call, Body.render, Body.isSemi]
  | braces is =>
    simp only [Body.render, List.length_cons, List.length_append, List.length_nil] at hn
    obtain ⟨m, rfl⟩ : ∃ m, n = m + 20 := ⟨n - 20, by omega⟩
    have hg : goodNode .Body (pushAll (List.map BodyItem.nk is) []).reverse = true :=
      good_all_push .Body ⟨"items", .all, [.FieldDef, .FieldLet, .Defvar, .Assert, .Dump]⟩ rfl rfl _ (by
        intro x hx
        obtain ⟨y, _, rfl⟩ := List.mem_map.mp hx
        cases y <;> rfl)
    ax_eval [ax_call, Body.render, Body.isSemi, c_items_loop _ _ _ _ is X]

theorem body_head (b : Body) (Z : List TokenKind) :
    [TokenKind.Semi, .LBrace].contains ((b.render ++ Z).headD .Eof) = true := by
  cases b <;> rfl

theorem c_record_body (p : List ClassRef) (b : Body) (X : List TokenKind)
    (n : Nat) (hn : 64 * (recordBodyRender p b).length + 896 ≤ n) :
    ax n (call .record_body) ⟨recordBodyRender p b ++ X, fl, d, loc, cps, true, cur, ps⟩ = some ⟨X, b.isSemi, d, loc, cps, true, SyntaxKind.RecordBody :: cur, ps⟩ := by
  simp only [recordBodyRender, List.length_append] at hn
  obtain ⟨m, rfl⟩ : ∃ m, n = m + 20 := ⟨n - 20, by omega⟩
  have hb := body_head b X
  ax_eval [ax_call (f := .record_body), recordBodyRender, c_parent_class_list, c_body]

theorem recordBody_head (p : List ClassRef) (b : Body) (Z : List TokenKind) :
    [TokenKind.Colon, .Semi, .LBrace].contains ((recordBodyRender p b ++ Z).headD .Eof) = true := by
  cases p with
  | nil =>
    simp only [recordBodyRender, parentsRender, List.nil_append]
    exact in_of_mem (body_head b Z) (by decide)
  | cons r rs => rfl

end C04L
end Tg
