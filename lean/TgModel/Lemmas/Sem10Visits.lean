/-
`VisitsA A m site`: `Visits` (`Lemmas/IdeSemVisits.lean`) for an arbitrary relation `A` between the state in
which the site ends and the state in which `m` ends - any relation that every indexer function keeps
(`CoreRel`, `VarRel`, `BlockRel`), e.g. `TypRel` (the typed arenas are only appended to).

The descent from the statement list of a file to an arbitrary site inside
* a body item of a `class` / `def` (`InClass`, `InDef`), or
* a template parameter declaration of a `class` (`ParamOfClass`),
under static conditions on the tree that make sure the site is reached.
-/
import TgModel.Lemmas.IdeSemVisits
namespace Tg
namespace Ide
open Index

/-- every successful run of `m` executes `site`: it is entered in a state related to the start by `PreR`, and
the state at the end of `m` is related by `A` to the one at the end of the site -/
def VisitsA (A : IndexCtx → IndexCtx → Prop) {α β : Type} (m : IxM α) (site : IxM β) : Prop :=
  ∀ c a c', m.run c = .ok (a, c') → ∃ cs b cs', PreR c cs ∧ site.run cs = .ok (b, cs') ∧ A cs' c'

section combinators
variable {A : IndexCtx → IndexCtx → Prop} [KeepRel A]

theorem VisitsA.self {β : Type} (site : IxM β) : VisitsA A site site :=
  fun c a c' h => ⟨c, a, c', KeepRel.refl c, h, KeepRel.refl _⟩

theorem VisitsA.of_run_eq {α β : Type} {m : IxM α} {site : IxM β}
    (h : ∀ c a c', m.run c = .ok (a, c') → ∃ b, site.run c = .ok (b, c')) : VisitsA A m site :=
  fun c a c' hr => let ⟨b, hb⟩ := h c a c' hr; ⟨c, b, c', KeepRel.refl c, hb, KeepRel.refl _⟩

theorem VisitsA.bind_first {α β γ : Type} {m : IxM α} {f : α → IxM γ} {site : IxM β} (hin : VisitsA A m site)
    (hf : ∀ a, Keeps A (f a)) : VisitsA A (m >>= f) site := by
  intro c a c' h
  obtain ⟨x, c1, h1, h2⟩ := IxM.run_bind_ok h
  obtain ⟨cs, b, cs', p, hs, l⟩ := hin c x c1 h1
  exact ⟨cs, b, cs', p, hs, KeepRel.trans l ((hf x).run _ _ _ h2)⟩

theorem VisitsA.bind_second {α β γ : Type} {m : IxM α} {f : α → IxM γ} {site : IxM β} (hm : Keeps PreR m)
    (hin : ∀ a, VisitsA A (f a) site) : VisitsA A (m >>= f) site := by
  intro c a c' h
  obtain ⟨x, c1, h1, h2⟩ := IxM.run_bind_ok h
  obtain ⟨cs, b, cs', p, hs, l⟩ := hin x c1 a c' h2
  exact ⟨cs, b, cs', KeepRel.trans (hm.run _ _ _ h1) p, hs, l⟩

theorem VisitsA.bind_second' {α β γ : Type} {m : IxM α} {f : α → IxM γ} {site : IxM β} (P : α → Prop)
    (hm : Keeps PreR m) (hres : ∀ c a c1, m.run c = .ok (a, c1) → P a)
    (hin : ∀ a, P a → VisitsA A (f a) site) : VisitsA A (m >>= f) site := by
  intro c a c' h
  obtain ⟨x, c1, h1, h2⟩ := IxM.run_bind_ok h
  obtain ⟨cs, b, cs', p, hs, l⟩ := hin x (hres _ _ _ h1) c1 a c' h2
  exact ⟨cs, b, cs', KeepRel.trans (hm.run _ _ _ h1) p, hs, l⟩

theorem VisitsA.forIn_unit {α β : Type} (body : α → PUnit → IxM (ForInStep PUnit)) (pre : List α) (x : α) (post : List α)
    {site : IxM β}
    (hy : ∀ x c st c1, (body x PUnit.unit).run c = .ok (st, c1) → st = .yield PUnit.unit)
    (hp : ∀ y, Keeps PreR (body y PUnit.unit)) (hl : ∀ y, Keeps A (body y PUnit.unit))
    (hin : VisitsA A (body x PUnit.unit) site) :
    VisitsA A (forIn (pre ++ x :: post) PUnit.unit body) site := by
  intro c a c' h
  obtain ⟨c1, c2, i1, i2, i3⟩ := forIn_unit_split' body pre x post c c' a hy h
  obtain ⟨cs, b, cs', p, hs, l⟩ := hin c1 _ c2 i2
  have p1 : PreR c c1 := (Keeps.forIn pre PUnit.unit body (fun y _ => hp y)).run _ _ _ i1
  have l3 : A c2 c' := (Keeps.forIn post PUnit.unit body (fun y _ => hl y)).run _ _ _ i3
  exact ⟨cs, b, cs', KeepRel.trans p1 p, hs, KeepRel.trans l l3⟩

end combinators

/-! ### static descriptions -/

/-- `item` is a body item of the record body `rb` (which has a parent class list node) -/
structure InBody (rb item : PTree) : Prop where
  parents : ∃ pcl, Ast.recordBodyParentClassList rb = some pcl
  body : ∃ b ipre ipost, Ast.recordBodyBody rb = some b ∧ Ast.bodyItems b = ipre ++ item :: ipost

/-- `class C … { … item … }` -/
structure InClass (n item : PTree) : Prop where
  kind : n.kind = .Class
  name : ∃ nameNode name se, Ast.className n = some nameNode ∧ Ast.identifierValue nameNode = some name ∧
    Ast.identifierRange nameNode = some se
  body : ∃ rb, Ast.classRecordBody n = some rb ∧ InBody rb item

/-- `def d … { … item … }` (anonymous, or named by one identifier) -/
structure InDef (n item : PTree) : Prop where
  kind : n.kind = .Def
  name : DefNameOK n
  body : ∃ rb, Ast.defRecordBody n = some rb ∧ InBody rb item

/-- `class C<…, d, …>`: `d` is a template parameter declaration of the class -/
structure ParamOfClass (n d : PTree) : Prop where
  kind : n.kind = .Class
  name : ∃ nameNode name se, Ast.className n = some nameNode ∧ Ast.identifierValue nameNode = some name ∧
    Ast.identifierRange nameNode = some se
  param : ∃ list pre post, Ast.classTemplateArgList n = some list ∧ Ast.templateArgListArgs list = pre ++ d :: post

section descent
variable {A : IndexCtx → IndexCtx → Prop} [CoreRel A] [VarRel A] [BlockRel A]
variable (k : Nat)

theorem body_visitsA {β : Type} {site : IxM β} (b : PTree) (ipre : List PTree) (item : PTree) (ipost : List PTree)
    (hitems : Ast.bodyItems b = ipre ++ item :: ipost)
    (hin : VisitsA A (indexBodyItem (mkRec (k + 1)) item) site) :
    VisitsA A (indexBody (mkRec (k + 1)) b) site := by
  obtain ⟨lv, lt, lsl, lsf⟩ := mkRec_keeps (R := A) (k + 1)
  unfold indexBody
  rw [hitems]
  refine VisitsA.bind_first ?_ (fun _ => Keeps.pure _)
  refine VisitsA.forIn_unit _ ipre item ipost ?_ ?_ ?_ ?_
  · intro x c st c1 h
    obtain ⟨_, _, _, j⟩ := IxM.run_bind_ok h
    simp only [StateT.run_pure] at j; cases j; rfl
  · intro y
    exact Keeps.bind (bodyItem_preR k y) fun _ => Keeps.pure _
  · intro y
    exact Keeps.bind (Index.indexBodyItem_keeps lv lt y) fun _ => Keeps.pure _
  · exact VisitsA.bind_first hin (fun _ => Keeps.pure _)

theorem recordBody_visitsA {β : Type} {site : IxM β} (rb item : PTree) (hu : InBody rb item)
    (hin : VisitsA A (indexBodyItem (mkRec (k + 1)) item) site) :
    VisitsA A (indexRecordBody (mkRec (k + 1)) rb) site := by
  obtain ⟨pcl, hp⟩ := hu.parents
  obtain ⟨b, ipre, ipost, hb, hitems⟩ := hu.body
  unfold indexRecordBody
  simp only [hp, hb]
  refine VisitsA.bind_second (preR_of_pass k fun R _ _ _ hv ht hsl hsf => Index.indexParentClassList_keeps hv ht pcl) fun _ => ?_
  exact body_visitsA k b ipre item ipost hitems hin

theorem class_visitsA {β : Type} {site : IxM β} (n item : PTree) (hu : InClass n item)
    (hin : VisitsA A (indexBodyItem (mkRec (k + 1)) item) site) :
    VisitsA A (indexClass (mkRec (k + 1)) n) site := by
  obtain ⟨nameNode, name, se, h1, h2, h3⟩ := hu.name
  obtain ⟨rb, hrb, hbu⟩ := hu.body
  unfold indexClass
  simp only [h1, hrb]
  refine VisitsA.bind_second' (fun a => ∃ f, a = some (name, ⟨f, se.1, se.2⟩))
    (by pre_prim (utilsIdentifier_keeps _)) (utilsIdentifier_some nameNode name se h2 h3) ?_
  rintro _ ⟨f, rfl⟩
  simp only
  refine VisitsA.bind_second (by pre_prim (addRecord_keeps _ _ ⟨rfl, rfl⟩)) fun rid => ?_
  refine VisitsA.bind_second (scopesPush_preR _ (fun _ _ h => nomatch h)) fun _ => ?_
  have htail : VisitsA A (do indexRecordBody (mkRec (k + 1)) rb; scopesPop) site :=
    VisitsA.bind_first (recordBody_visitsA k rb item hbu hin) (fun _ => scopesPop_keeps)
  cases Ast.classTemplateArgList n with
  | none => exact htail
  | some list =>
    exact VisitsA.bind_second (preR_of_pass k fun R _ _ _ hv ht _ _ => Index.indexTemplateArgList_keeps hv ht list)
      fun _ => htail

theorem classParam_visitsA (n d : PTree) (hu : ParamOfClass n d) :
    VisitsA A (indexClass (mkRec (k + 1)) n) (indexTemplateArgDecl (mkRec (k + 1)) d) := by
  obtain ⟨nameNode, name, se, h1, h2, h3⟩ := hu.name
  obtain ⟨list, pre, post, hl, hsplit⟩ := hu.param
  obtain ⟨lv, lt, lsl, lsf⟩ := mkRec_keeps (R := A) (k + 1)
  unfold indexClass
  simp only [h1, hl]
  refine VisitsA.bind_second' (fun a => ∃ f, a = some (name, ⟨f, se.1, se.2⟩))
    (by pre_prim (utilsIdentifier_keeps _)) (utilsIdentifier_some nameNode name se h2 h3) ?_
  rintro _ ⟨f, rfl⟩
  simp only
  refine VisitsA.bind_second (by pre_prim (addRecord_keeps _ _ ⟨rfl, rfl⟩)) fun rid => ?_
  refine VisitsA.bind_second (scopesPush_preR _ (fun _ _ h => nomatch h)) fun _ => ?_
  refine VisitsA.bind_first ?_ (fun _ => by
    cases Ast.classRecordBody n with
    | none => exact scopesPop_keeps
    | some rb => exact Keeps.bind (Index.indexRecordBody_keeps lv lt rb) fun _ => scopesPop_keeps)
  unfold indexTemplateArgList
  rw [hsplit]
  refine VisitsA.bind_first ?_ (fun _ => Keeps.pure _)
  refine VisitsA.forIn_unit _ pre d post ?_ ?_ ?_ ?_
  · intro x c st c1 h
    obtain ⟨_, _, _, j⟩ := IxM.run_bind_ok h
    simp only [StateT.run_pure] at j; cases j; rfl
  · intro y
    exact Keeps.bind (preR_of_pass k fun R _ _ _ hv ht _ _ => Index.indexTemplateArgDecl_keeps hv ht y) fun _ => Keeps.pure _
  · intro y
    exact Keeps.bind (Index.indexTemplateArgDecl_keeps lv lt y) fun _ => Keeps.pure _
  · exact VisitsA.bind_first (VisitsA.self _) (fun _ => Keeps.pure _)

theorem def_visitsA {β : Type} {site : IxM β} (n item : PTree) (hu : InDef n item)
    (hin : VisitsA A (indexBodyItem (mkRec (k + 1)) item) site) :
    VisitsA A (indexDef (mkRec (k + 1)) n) site := by
  obtain ⟨rb, hrb, hbu⟩ := hu.body
  have htail : ∀ rid : Nat, VisitsA A (do
      scopesPush (.record rid)
      indexRecordBody (mkRec (k + 1)) rb
      scopesPop : IxM Unit) site := fun rid =>
    VisitsA.bind_second (scopesPush_preR _ (fun _ _ h => nomatch h)) fun _ =>
      VisitsA.bind_first (recordBody_visitsA k rb item hbu hin) (fun _ => scopesPop_keeps)
  unfold indexDef
  simp only [hrb]
  refine VisitsA.bind_second (by pre_prim (by unfold defDefset sameFileDefset; keeps)) fun ds => ?_
  rcases hu.name with hnone | ⟨nameValue, inner, sv, name, se, h1, h2, h3, h4, h5, h6⟩
  · simp only [hnone, pure_bind]
    refine VisitsA.bind_second (by pre_prim nextAnonymousDefName_keeps) fun nm => ?_
    refine VisitsA.bind_second (by pre_prim currentFileId_keeps) fun f => ?_
    refine VisitsA.bind_second (by pre_prim (addAnonymousDef_keeps _ ⟨rfl, rfl⟩)) fun rid => ?_
    exact htail rid
  · simp only [h1]
    refine VisitsA.bind_second' (fun a => ∃ f, a = some (name, ⟨f, se.1, se.2⟩))
      (by pre_prim (by unfold indexNameValue; keeps)) ?_ ?_
    · intro c a c1 h
      unfold indexNameValue at h
      simp only [h2, h3, h4, beq_self_eq_true, if_true] at h
      exact utilsIdentifier_some sv name se h5 h6 c a c1 h
    rintro _ ⟨f, rfl⟩
    simp only
    refine VisitsA.bind_second (by pre_prim currentMulticlassId_keeps) fun m => ?_
    split
    · refine VisitsA.bind_second (by pre_prim (addMulticlassDef_keeps _ ⟨rfl, rfl⟩)) fun rid => ?_
      cases ds with
      | none => exact htail rid
      | some dsid => exact VisitsA.bind_second (by pre_prim (defsetMut_keeps _ _ (fun _ => ⟨rfl, rfl⟩))) fun _ => htail rid
    · refine VisitsA.bind_second (by pre_prim (addRecord_keeps _ _ ⟨rfl, rfl⟩)) fun rid => ?_
      cases ds with
      | none => exact htail rid
      | some dsid => exact VisitsA.bind_second (by pre_prim (defsetMut_keeps _ _ (fun _ => ⟨rfl, rfl⟩))) fun _ => htail rid

/-- from the statement list down to a site inside a statement -/
theorem statementList_visitsA {β : Type} {site : IxM β} (sl : PTree) (spre : List PTree) (s : PTree) (spost : List PTree)
    (hsplit : Ast.statementListStatements sl = spre ++ s :: spost)
    (hin : VisitsA A (indexStatement (mkRec (k + 1)) s) site) :
    VisitsA A (indexStatementList (mkRec (k + 1)) sl) site := by
  obtain ⟨lv, lt, lsl, lsf⟩ := mkRec_keeps (R := A) (k + 1)
  unfold indexStatementList
  rw [hsplit]
  refine VisitsA.bind_first ?_ (fun _ => Keeps.pure _)
  refine VisitsA.forIn_unit _ spre s spost ?_ ?_ ?_ ?_
  · intro x c st c1 h
    obtain ⟨_, _, _, j⟩ := IxM.run_bind_ok h
    simp only [StateT.run_pure] at j; cases j; rfl
  · intro y
    exact Keeps.bind (preR_of_pass k fun R _ _ _ hv ht hsl hsf => Index.indexStatement_keeps hv ht hsl hsf y)
      fun _ => Keeps.pure _
  · intro y
    exact Keeps.bind (Index.indexStatement_keeps lv lt lsl lsf y) fun _ => Keeps.pure _
  · exact VisitsA.bind_first hin (fun _ => Keeps.pure _)

/-- a body item of a `class` / `def` statement -/
theorem statement_item_visitsA {β : Type} {site : IxM β} (s item : PTree) (hu : InClass s item ∨ InDef s item)
    (hin : VisitsA A (indexBodyItem (mkRec (k + 1)) item) site) :
    VisitsA A (indexStatement (mkRec (k + 1)) s) site := by
  unfold indexStatement
  rcases hu with hu | hu
  · simp only [hu.kind]; exact class_visitsA k s item hu hin
  · simp only [hu.kind]; exact def_visitsA k s item hu hin

theorem statement_param_visitsA (s d : PTree) (hu : ParamOfClass s d) :
    VisitsA A (indexStatement (mkRec (k + 1)) s) (indexTemplateArgDecl (mkRec (k + 1)) d) := by
  unfold indexStatement
  simp only [hu.kind]
  exact classParam_visitsA k s d hu

end descent

/-- the root statement list of a successful `index` run executes what it visits, from a live state with the
root as current file; the final symbol map is related by `A` to the one in which the site ended -/
theorem index_visitsA {A : IndexCtx → IndexCtx → Prop} {β : Type} {site : Nat → IxM β}
    {ws : Workspace} {res : Index.IndexResult} (hr : Index.index ws = .ok res)
    (sf sl : PTree) (hsf : Ast.sourceFileCast (ws.tree ws.root) = some sf)
    (hsl : Ast.sourceFileStatementList sf = some sl)
    (hv : ∀ j, VisitsA A (indexStatementList (mkRec (j + 1)) sl) (site j)) :
    ∃ j c b c' cfin, c.fileTrace = [ws.root] ∧ LiveInv c ∧ (site j).run c = .ok (b, c') ∧ A c' cfin ∧
      cfin.symbolMap = res.symbolMap := by
  unfold Index.index at hr
  rw [hsf] at hr
  simp only at hr
  obtain ⟨j, hj⟩ : ∃ j, ws.depthBound = j + 2 := ⟨ws.depthBound - 2, by have := depthBound_ge ws; omega⟩
  rw [hj] at hr
  split at hr
  · cases hr
  · rename_i u ctx hrun
    cases hr
    have hrun' : (Index.indexStatementList (Index.mkRec (j + 1)) sl).run (IndexCtx.new ws) = .ok (u, ctx) := by
      have : Index.indexSourceFile (Index.mkRec (j + 2)) sf = Index.indexStatementList (Index.mkRec (j + 1)) sl := by
        unfold Index.indexSourceFile
        rw [hsl]
        rfl
      rw [this] at hrun
      exact hrun
    obtain ⟨c, b, c', hpre, hsite, hlater⟩ := hv j _ _ _ hrun'
    exact ⟨j, c, b, c', ctx, hpre.2, hpre.1.inv (LiveInv.new ws), hsite, hlater, rfl⟩

/-! ### an executable form of the static conditions -/

/-- the `i`-th body item of the record body `rb` -/
def bodyItemAt (rb : PTree) (i : Nat) : Option PTree :=
  if (Ast.recordBodyParentClassList rb).isSome then
    match Ast.recordBodyBody rb with
    | some b => (Ast.bodyItems b)[i]?
    | none => none
  else none

theorem bodyItemAt_sound {rb item : PTree} {i : Nat} (h : bodyItemAt rb i = some item) : InBody rb item := by
  unfold bodyItemAt at h
  split at h
  · rename_i hp
    split at h
    · rename_i b hb
      obtain ⟨pre, post, hsp⟩ := split_of_getElem? _ _ _ h
      exact ⟨Option.isSome_iff_exists.1 hp, b, pre, post, hb, hsp⟩
    · cases h
  · cases h

/-- the `i`-th body item of the `class` / `def` statement `s` -/
def stmtItemAt (s : PTree) (i : Nat) : Option PTree :=
  if s.kind == .Class then
    match Ast.className s with
    | some nameNode => if identOKB nameNode then (Ast.classRecordBody s).bind (bodyItemAt · i) else none
    | none => none
  else if s.kind == .Def then
    if defNameOKB s then (Ast.defRecordBody s).bind (bodyItemAt · i) else none
  else none

theorem stmtItemAt_sound {s item : PTree} {i : Nat} (h : stmtItemAt s i = some item) : InClass s item ∨ InDef s item := by
  unfold stmtItemAt at h
  split at h
  · rename_i hk
    left
    split at h
    · rename_i nameNode hn
      split at h
      · rename_i hok
        obtain ⟨name, se, a, b⟩ := identOKB_sound hok
        cases hrb : Ast.classRecordBody s with
        | none => rw [hrb] at h; cases h
        | some rb =>
          rw [hrb] at h
          exact ⟨by simpa using hk, ⟨nameNode, name, se, hn, a, b⟩, rb, hrb, bodyItemAt_sound h⟩
      · cases h
    · cases h
  · split at h
    · rename_i hk
      right
      split at h
      · rename_i hok
        cases hrb : Ast.defRecordBody s with
        | none => rw [hrb] at h; cases h
        | some rb =>
          rw [hrb] at h
          exact ⟨by simpa using hk, defNameOKB_sound hok, rb, hrb, bodyItemAt_sound h⟩
      · cases h
    · cases h

/-- the `i`-th template parameter declaration of the `class` statement `s` -/
def stmtParamAt (s : PTree) (i : Nat) : Option PTree :=
  if s.kind == .Class then
    match Ast.className s with
    | some nameNode =>
      if identOKB nameNode then (Ast.classTemplateArgList s).bind fun l => (Ast.templateArgListArgs l)[i]? else none
    | none => none
  else none

theorem stmtParamAt_sound {s d : PTree} {i : Nat} (h : stmtParamAt s i = some d) : ParamOfClass s d := by
  unfold stmtParamAt at h
  split at h
  · rename_i hk
    split at h
    · rename_i nameNode hn
      split at h
      · rename_i hok
        obtain ⟨name, se, a, b⟩ := identOKB_sound hok
        cases hl : Ast.classTemplateArgList s with
        | none => rw [hl] at h; cases h
        | some l =>
          rw [hl] at h
          obtain ⟨pre, post, hsp⟩ := split_of_getElem? _ _ _ h
          exact ⟨by simpa using hk, ⟨nameNode, name, se, hn, a, b⟩, l, pre, post, hl, hsp⟩
      · cases h
    · cases h
  · cases h

/-- the `i`-th statement of the root file -/
def rootStatement (ws : Workspace) (i : Nat) : Option PTree :=
  match (Ast.sourceFileCast (ws.tree ws.root)).bind Ast.sourceFileStatementList with
  | none => none
  | some sl => (Ast.statementListStatements sl)[i]?

theorem rootStatement_sound {ws : Workspace} {i : Nat} {s : PTree} (h : rootStatement ws i = some s) :
    ∃ sf sl spre spost, Ast.sourceFileCast (ws.tree ws.root) = some sf ∧ Ast.sourceFileStatementList sf = some sl ∧
      Ast.statementListStatements sl = spre ++ s :: spost := by
  unfold rootStatement at h
  split at h
  · cases h
  · rename_i sl hsl
    cases hsf : Ast.sourceFileCast (ws.tree ws.root) with
    | none => rw [hsf] at hsl; cases hsl
    | some sf =>
      rw [hsf] at hsl
      obtain ⟨pre, post, hsp⟩ := split_of_getElem? _ _ _ h
      exact ⟨sf, sl, pre, post, rfl, hsl, hsp⟩

end Ide
end Tg
