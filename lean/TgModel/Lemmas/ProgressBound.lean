/-
A quantitative refinement of `check_sound`: an explicit, linear bound on the fuel `exec` needs.

How `exec` spends fuel: one unit per *level of nesting* of the evaluation — `seq`/`if`/`call`
pass `fuel - 1` to their parts (both parts of a `seq` get the same amount), and every iteration of a
`loop` runs one level deeper than the previous one.  So the fuel a run needs is the depth of its
evaluation tree, not the number of steps; it is bounded by

    W p  +  T (remaining input)

where `W p` is the syntactic depth of the program fragment (calls count 1) and the potential `T`
pays for everything dynamic: a loop iteration that continues consumes input, so the next one has at
least 1 less potential; a call either happens after input was consumed since the caller was
entered, or goes to a function of lower rank (this is what `Progress.check` verifies), so the
callee's budget `W (defs g) + 92 * remaining + 13 * rank g` fits under the caller's potential.
With `W (defs f) ≤ 13` and `rank f ≤ 6` for the grammar (kernel evaluation), the bound for
`source_file` on `input` is `92 * input.length + 92`.

Primitives are not re-proved: their `exec` does not depend on the amount of fuel (beyond 1), so
`analyze_sound` applies as it is.
-/
import TgModel.Lemmas.ProgressSound

namespace Tg
namespace Progress

/-- syntactic depth of a program (a call counts 1) -/
def W : Prog → Nat
  | .seq a b => 1 + max (W a) (W b)
  | .ifAt _ t e => 1 + max (W t) (W e)
  | .ifFlag t e => 1 + max (W t) (W e)
  | .ifLocal t e => 1 + max (W t) (W e)
  | .loop c b => 1 + max (W c) (W b)
  | _ => 1

def isPrim : Prog → Bool
  | .seq _ _ => false
  | .ifAt _ _ _ => false
  | .ifFlag _ _ => false
  | .ifLocal _ _ => false
  | .loop _ _ => false
  | .call _ => false
  | _ => true

variable (defs : Defs) (rc : List TokenKind)

/-- a primitive runs in one step, whatever the fuel -/
theorem exec_prim {p : Prog} (hp : isPrim p = true) (n m : Nat) (s : PState) :
    exec defs rc (n + 1) p s = exec defs rc (m + 1) p s := by
  cases p <;> first | (simp [isPrim] at hp; done) | rfl

theorem W_prim {p : Prog} (hp : isPrim p = true) : W p = 1 := by
  cases p <;> first | (simp [isPrim] at hp; done) | rfl

/-! ### the remaining input never grows -/

theorem mu_eq {s s' : PState} (h1 : s'.curText = s.curText) (h2 : s'.src.rest = s.src.rest) : mu s' = mu s := by
  unfold mu; rw [h1, h2]

theorem mu_eat_le {input : List Char} {s s' : PState} (hi : Inv input s) (he : s.eat = .ok s') : mu s' ≤ mu s := by
  obtain ⟨s'', he', _, hm, _⟩ := eat_good s hi
  rw [he] at he'
  cases he'
  omega

theorem mu_skip_le {input : List Char} {s s' : PState} (hi : Inv input s)
    (he : PState.skip s.skipFuel s = .ok s') : mu s' ≤ mu s := by
  have hcap := hi.capOk
  obtain ⟨s'', he', _, hm, _⟩ := skip_good (PState.skipFuel s) s hi (by unfold PState.skipFuel mu; omega)
  rw [he] at he'
  cases he'
  exact hm

theorem mu_finishNode {s s' : PState} (h : s.finishNode = .ok s') : mu s' = mu s := by
  unfold PState.finishNode at h
  split at h
  · cases h
  · simp only [Res.ok.injEq] at h; subst h; rfl

theorem mu_startNodeAt {s s' : PState} {cp : Nat × Nat} {k : SyntaxKind} (h : s.startNodeAt cp k = .ok s') :
    mu s' = mu s := by
  unfold PState.startNodeAt at h
  split at h
  · cases h
  · split at h
    · cases h
    · simp only [Res.ok.injEq] at h; subst h; rfl

theorem mu_exec_le (input : List Char) : ∀ (n : Nat) (p : Prog) (s s' : PState), Inv input s →
    exec defs rc n p s = .ok s' → mu s' ≤ mu s := by
  intro n
  induction n with
  | zero => intro p s s' _ h; simp [exec] at h
  | succ n ih =>
    intro p s s' hi h
    have inv' : ∀ (p : Prog) (s s' : PState), Inv input s → exec defs rc n p s = .ok s' → Inv input s' :=
      fun p s s' => inv_exec defs rc input n p s s'
    cases p with
    | nop => simp only [exec, Res.ok.injEq] at h; subst h; exact Nat.le_refl _
    | startNode k => simp only [exec, Res.ok.injEq] at h; subst h; exact Nat.le_refl _
    | finishNode => simp only [exec] at h; exact Nat.le_of_eq (mu_finishNode h)
    | pushCp => simp only [exec, Res.ok.injEq] at h; subst h; exact Nat.le_refl _
    | popCp => simp only [exec, Res.ok.injEq] at h; subst h; exact Nat.le_refl _
    | startNodeAtCp k =>
      simp only [exec] at h
      split at h
      · exact Nat.le_of_eq (mu_startNodeAt h)
      · cases h
    | eat => simp only [exec] at h; exact mu_eat_le hi h
    | skip => simp only [exec] at h; exact mu_skip_le hi h
    | eatIf k =>
      simp only [exec] at h
      split at h
      · split at h
        · rename_i s1 he
          simp only [Res.ok.injEq] at h; subst h
          exact (mu_eat_le hi he : mu s1 ≤ mu s)
        · rename_i hne; first | exact (hne _ h).elim | cases h
      · simp only [Res.ok.injEq] at h; subst h; exact Nat.le_refl _
    | expect k msg =>
      simp only [exec] at h
      split at h
      · exact mu_eat_le hi h
      · split at h
        · simp only [Res.ok.injEq] at h; subst h; exact Nat.le_refl _
        · simp only [Res.ok.injEq] at h; subst h; exact Nat.le_refl _
    | assertTok k =>
      simp only [exec] at h
      split at h
      · exact mu_eat_le hi h
      · cases h
    | error msg => simp only [exec, Res.ok.injEq] at h; subst h; exact Nat.le_refl _
    | errorAndEat msg =>
      simp only [exec] at h
      split at h
      · rename_i s1 he
        have h1 := mu_eat_le (PState.inv_startNode (PState.inv_error hi msg) .Error) he
        have h2 := mu_finishNode h
        have h3 : mu ((s.error msg).startNode .Error) = mu s := rfl
        omega
      · rename_i hne; first | exact (hne _ h).elim | cases h
    | errorAndRecover msg =>
      simp only [exec] at h
      split at h
      · split at h
        · rename_i s2 he
          have h1 := mu_eat_le (PState.inv_startNode (PState.inv_error hi msg) .Error) he
          have h2 := mu_finishNode h
          have h3 : mu ((s.error msg).startNode .Error) = mu s := rfl
          omega
        · rename_i hne; first | exact (hne _ h).elim | cases h
      · simp only [Res.ok.injEq] at h; subst h; exact Nat.le_refl _
    | retB b => simp only [exec, Res.ok.injEq] at h; subst h; exact Nat.le_refl _
    | seq a b =>
      simp only [exec] at h
      split at h
      · rename_i s1 h1
        exact Nat.le_trans (ih b s1 s' (inv' a s s1 hi h1) h) (ih a s s1 hi h1)
      · rename_i hne; first | exact (hne _ h).elim | cases h
    | ifAt ks t e => simp only [exec] at h; split at h <;> exact ih _ s s' hi h
    | ifFlag t e => simp only [exec] at h; split at h <;> exact ih _ s s' hi h
    | ifLocal t e => simp only [exec] at h; split at h <;> exact ih _ s s' hi h
    | loop c b =>
      simp only [exec] at h
      split at h
      · rename_i s1 h1
        have i1 := inv' c s s1 hi h1
        have l1 := ih c s s1 hi h1
        split at h
        · split at h
          · rename_i s2 h2
            have l2 := ih b s1 s2 i1 h2
            have l3 := ih (.loop c b) s2 s' (inv' b s1 s2 i1 h2) h
            omega
          · rename_i hne; first | exact (hne _ h).elim | cases h
        · simp only [Res.ok.injEq] at h; subst h; exact l1
      · rename_i hne; first | exact (hne _ h).elim | cases h
    | call f => simp only [exec] at h; exact ih _ s s' hi h
    | pushLocal => simp only [exec, Res.ok.injEq] at h; subst h; exact Nat.le_refl _
    | popLocal => simp only [exec, Res.ok.injEq] at h; subst h; exact Nat.le_refl _
    | setLocal => simp only [exec, Res.ok.injEq] at h; subst h; exact Nat.le_refl _

/-! ### the potential -/

/-- potential of a state with `m` characters left, inside a function of rank `rs` that was entered
with `Mf` characters left: after input has been consumed any function may be called, before that
only functions of lower rank -/
def T (Mf rs m : Nat) : Nat := if m < Mf then 92 * m + 91 else 92 * Mf + 13 * rs

theorem T_mono {Mf rs m1 m2 : Nat} (h : m1 ≤ m2) (h2 : m2 ≤ Mf) : T Mf rs m1 ≤ T Mf rs m2 := by
  unfold T; split <;> split <;> omega

theorem T_strict {Mf rs m1 m2 : Nat} (h : m1 < m2) (h2 : m2 ≤ Mf) : T Mf rs m1 + 1 ≤ T Mf rs m2 := by
  unfold T; split <;> split <;> omega

/-! ### the quantitative version of `analyze_sound` -/

section bound
variable (input : List Char) (summs : Summs) (ranks : Ranks) (self : Fn) (Mf : Nat)

/-- the budget of a function body: syntactic depth plus the potential at its entry -/
def budget (g : Fn) (m : Nat) : Nat := W (defs g) + 92 * m + 13 * ranks g

/-- the induction hypothesis about calls, with the budget -/
def CallIHB : Prop :=
  ∀ g sm, sm ∈ summs g → ∀ s', Inv input s' → sm.pre.holds s'.cur →
    (mu s' < Mf ∨ (mu s' ≤ Mf ∧ ranks g < ranks self)) →
    Fine (fun s'' => Inv input s'' ∧ ∃ e ∈ sm.exits, ExitSat e s' s'')
      (exec defs rc (budget defs ranks g (mu s')) (defs g) s')

variable (hW : ∀ f, W (defs f) ≤ 13) (hR : ∀ f, ranks f ≤ 6)
include hW hR

theorem analyze_bound (IH : CallIHB defs rc input summs ranks self Mf) :
    ∀ (p : Prog) (a : AS) (outs : List AS), analyze summs (ltOfRanks ranks) rc self p a = some outs →
    ∀ (M : Nat) (s : PState), Inv input s → Sat a Mf M s →
      Fine (QA input outs Mf M) (exec defs rc (W p + T Mf (ranks self) (mu s)) p s) := by
  have IHq : CallIH defs rc input summs (ltOfRanks ranks) self Mf := by
    intro g sm hsm s' hi' hpre' hmeas
    refine ⟨_, IH g sm hsm s' hi' hpre' ?_⟩
    rcases hmeas with h | ⟨h1, h2⟩
    · exact Or.inl h
    · exact Or.inr ⟨h1, by simpa [ltOfRanks] using h2⟩
  -- primitives: the qualitative theorem, and `exec` does not look at the fuel
  have prim : ∀ (p : Prog), isPrim p = true → ∀ (a : AS) (outs : List AS),
      analyze summs (ltOfRanks ranks) rc self p a = some outs →
      ∀ (M : Nat) (s : PState), Inv input s → Sat a Mf M s →
        Fine (QA input outs Mf M) (exec defs rc (W p + T Mf (ranks self) (mu s)) p s) := by
    intro p hp a outs h M s hi hs
    obtain ⟨n, hn⟩ := analyze_sound defs rc input summs (ltOfRanks ranks) self Mf IHq p a outs h M s hi hs
    cases n with
    | zero => simp [exec, Fine] at hn
    | succ n =>
      rw [W_prim hp, Nat.add_comm 1, exec_prim defs rc hp _ n]
      exact hn
  intro p
  induction p with
  | seq p q ihp ihq =>
    intro a outs h M s hi hs
    simp only [analyze] at h
    cases hp : analyze summs (ltOfRanks ranks) rc self p a with
    | none => rw [hp] at h; cases h
    | some outsP =>
      rw [hp] at h; simp only [] at h
      have hq := seqOuts_some (fun o => analyze summs (ltOfRanks ranks) rc self q o) outsP outs h
      have h1 := ihp a outsP hp M s hi hs
      have hfuel : W (.seq p q) + T Mf (ranks self) (mu s) = (max (W p) (W q) + T Mf (ranks self) (mu s)) + 1 := by
        simp only [W]; omega
      rw [hfuel]
      simp only [exec]
      cases hr : exec defs rc (W p + T Mf (ranks self) (mu s)) p s with
      | ok s1 =>
        rw [hr] at h1
        obtain ⟨hi1, o, ho, hso⟩ := h1
        have hle : mu s1 ≤ mu s := mu_exec_le defs rc input _ p s s1 hi hr
        rw [exec_mono defs rc _ p s _ hr (by simp) _ (by omega)]
        simp only []
        obtain ⟨l', hl', hsub⟩ := hq o ho
        have h2 := ihq o l' hl' M s1 hi1 hso
        have hT := T_mono (rs := ranks self) hle hs.c1
        have h3 := fine_mono defs rc h2
          (by omega : W q + T Mf (ranks self) (mu s1) ≤ max (W p) (W q) + T Mf (ranks self) (mu s))
        cases hr2 : exec defs rc (max (W p) (W q) + T Mf (ranks self) (mu s)) q s1 with
        | ok s2 =>
          rw [hr2] at h3
          obtain ⟨hi2, o2, ho2, hs2⟩ := h3
          exact ⟨hi2, o2, hsub o2 ho2, hs2⟩
        | panic w => rw [hr2] at h3; exact h3
        | outOfFuel => rw [hr2] at h3; exact h3
      | panic w =>
        rw [hr] at h1
        rw [exec_mono defs rc _ p s _ hr (by simp) _ (by omega)]
        exact h1
      | outOfFuel => rw [hr] at h1; exact h1.elim
  | ifAt ks t e iht ihe =>
    intro a outs h M s hi hs
    simp only [analyze] at h
    obtain ⟨l1, l2, h1, h2, h3⟩ := both_some h
    subst h3
    have hfuel : W (.ifAt ks t e) + T Mf (ranks self) (mu s) = (max (W t) (W e) + T Mf (ranks self) (mu s)) + 1 := by
      simp only [W]; omega
    rw [hfuel]
    by_cases hc : ks.contains s.cur = true
    · have hin : s.cur ∈ ks := by simpa using hc
      have hft := Fact.meetIn_sound a.fact ks s.cur hs.fact hin
      have hnb : (a.fact.meetIn ks).isBot = false := by
        cases hb : (a.fact.meetIn ks).isBot with
        | false => rfl
        | true => exact absurd hft (Fact.isBot_sound _ _ hb)
      simp only [hnb, Bool.false_eq_true, if_false] at h1
      have hn := fine_mono defs rc (iht _ l1 h1 M s hi ⟨hft, hs.fl, hs.m1, hs.m2, hs.c1, hs.c2⟩)
        (by omega : W t + T Mf (ranks self) (mu s) ≤ max (W t) (W e) + T Mf (ranks self) (mu s))
      simp only [exec, hc, if_true]
      cases hr : exec defs rc (max (W t) (W e) + T Mf (ranks self) (mu s)) t s with
      | ok s' => rw [hr] at hn; obtain ⟨g1, o, ho, g2⟩ := hn; exact ⟨g1, o, by simp [ho], g2⟩
      | panic w => rw [hr] at hn; exact hn
      | outOfFuel => rw [hr] at hn; exact hn
    · have hnin : s.cur ∉ ks := by simpa using hc
      have hfe := Fact.meetNotIn_sound a.fact ks s.cur hs.fact hnin
      have hne : a.fact.entails (.inS ks) = false := by
        cases he : a.fact.entails (.inS ks) with
        | false => rfl
        | true => exact absurd (Fact.entails_sound he s.cur hs.fact) hnin
      simp only [hne, Bool.false_eq_true, if_false] at h2
      have hn := fine_mono defs rc (ihe _ l2 h2 M s hi ⟨hfe, hs.fl, hs.m1, hs.m2, hs.c1, hs.c2⟩)
        (by omega : W e + T Mf (ranks self) (mu s) ≤ max (W t) (W e) + T Mf (ranks self) (mu s))
      have hcf : ks.contains s.cur = false := by simpa using hc
      simp only [exec, hcf, Bool.false_eq_true, if_false]
      cases hr : exec defs rc (max (W t) (W e) + T Mf (ranks self) (mu s)) e s with
      | ok s' => rw [hr] at hn; obtain ⟨g1, o, ho, g2⟩ := hn; exact ⟨g1, o, by simp [ho], g2⟩
      | panic w => rw [hr] at hn; exact hn
      | outOfFuel => rw [hr] at hn; exact hn
  | ifFlag t e iht ihe =>
    intro a outs h M s hi hs
    simp only [analyze] at h
    have hfuel : W (.ifFlag t e) + T Mf (ranks self) (mu s) = (max (W t) (W e) + T Mf (ranks self) (mu s)) + 1 := by
      simp only [W]; omega
    rw [hfuel]
    have run : ∀ (p : Prog) (l : List AS) (a' : AS), (∀ x ∈ l, x ∈ outs) → W p ≤ max (W t) (W e) →
        (∀ (M : Nat) (s : PState), Inv input s → Sat a' Mf M s →
          Fine (QA input l Mf M) (exec defs rc (W p + T Mf (ranks self) (mu s)) p s)) →
        Sat a' Mf M s →
        Fine (QA input outs Mf M) (exec defs rc (max (W t) (W e) + T Mf (ranks self) (mu s)) p s) := by
      intro p l a' hsub hw hg hsa
      have hn := fine_mono defs rc (hg M s hi hsa)
        (by omega : W p + T Mf (ranks self) (mu s) ≤ max (W t) (W e) + T Mf (ranks self) (mu s))
      cases hr : exec defs rc (max (W t) (W e) + T Mf (ranks self) (mu s)) p s with
      | ok s' => rw [hr] at hn; obtain ⟨g1, o, ho, g2⟩ := hn; exact ⟨g1, o, hsub o ho, g2⟩
      | panic w => rw [hr] at hn; exact hn
      | outOfFuel => rw [hr] at hn; exact hn
    by_cases hf : s.flag = true
    · have key : Fine (QA input outs Mf M) (exec defs rc (max (W t) (W e) + T Mf (ranks self) (mu s)) t s) := by
        cases hfl : a.fl with
        | none =>
          rw [hfl] at h; simp only [] at h
          obtain ⟨l1, l2, h1, h2, h3⟩ := both_some h
          subst h3
          exact run t l1 _ (fun x hx => by simp [hx]) (by omega) (iht _ l1 h1)
            ⟨hs.fact, by intro b hb; simp only [Option.some.injEq] at hb; subst hb; exact hf, hs.m1, hs.m2, hs.c1, hs.c2⟩
        | some b =>
          have hb := hs.fl b hfl
          rw [hf] at hb; subst hb
          rw [hfl] at h; simp only [] at h
          exact run t outs a (fun x hx => hx) (by omega) (iht a outs h) hs
      simp only [exec, hf, if_true]; exact key
    · have hff : s.flag = false := by simpa using hf
      have key : Fine (QA input outs Mf M) (exec defs rc (max (W t) (W e) + T Mf (ranks self) (mu s)) e s) := by
        cases hfl : a.fl with
        | none =>
          rw [hfl] at h; simp only [] at h
          obtain ⟨l1, l2, h1, h2, h3⟩ := both_some h
          subst h3
          exact run e l2 _ (fun x hx => by simp [hx]) (by omega) (ihe _ l2 h2)
            ⟨hs.fact, by intro b hb; simp only [Option.some.injEq] at hb; subst hb; exact hff, hs.m1, hs.m2, hs.c1, hs.c2⟩
        | some b =>
          have hb := hs.fl b hfl
          rw [hff] at hb; subst hb
          rw [hfl] at h; simp only [] at h
          exact run e outs a (fun x hx => hx) (by omega) (ihe a outs h) hs
      simp only [exec, hff, Bool.false_eq_true, if_false]; exact key
  | ifLocal t e iht ihe =>
    intro a outs h M s hi hs
    simp only [analyze] at h
    obtain ⟨l1, l2, h1, h2, h3⟩ := both_some h
    subst h3
    have hfuel : W (.ifLocal t e) + T Mf (ranks self) (mu s) = (max (W t) (W e) + T Mf (ranks self) (mu s)) + 1 := by
      simp only [W]; omega
    rw [hfuel]
    by_cases hl : (s.locals.head? == some true) = true
    · have hn := fine_mono defs rc (iht a l1 h1 M s hi hs)
        (by omega : W t + T Mf (ranks self) (mu s) ≤ max (W t) (W e) + T Mf (ranks self) (mu s))
      simp only [exec, hl, if_true]
      cases hr : exec defs rc (max (W t) (W e) + T Mf (ranks self) (mu s)) t s with
      | ok s' => rw [hr] at hn; obtain ⟨g1, o, ho, g2⟩ := hn; exact ⟨g1, o, by simp [ho], g2⟩
      | panic w => rw [hr] at hn; exact hn
      | outOfFuel => rw [hr] at hn; exact hn
    · have hn := fine_mono defs rc (ihe a l2 h2 M s hi hs)
        (by omega : W e + T Mf (ranks self) (mu s) ≤ max (W t) (W e) + T Mf (ranks self) (mu s))
      simp only [exec, hl, Bool.false_eq_true, if_false]
      cases hr : exec defs rc (max (W t) (W e) + T Mf (ranks self) (mu s)) e s with
      | ok s' => rw [hr] at hn; obtain ⟨g1, o, ho, g2⟩ := hn; exact ⟨g1, o, by simp [ho], g2⟩
      | panic w => rw [hr] at hn; exact hn
      | outOfFuel => rw [hr] at hn; exact hn
  | call g =>
    intro a outs h M s hi hs
    simp only [analyze] at h
    cases hfs : findSumm (summs g) a.fact with
    | none => rw [hfs] at h; cases h
    | some sm =>
      rw [hfs] at h; simp only [] at h
      obtain ⟨hmem, hent⟩ := findSumm_sound hfs
      split at h
      · rename_i hcond
        simp only [Option.some.injEq] at h; subst h
        have hpre := Fact.entails_sound hent s.cur hs.fact
        have hmeas : mu s < Mf ∨ (mu s ≤ Mf ∧ ranks g < ranks self) := by
          simp only [Bool.or_eq_true] at hcond
          rcases hcond with hc | hl
          · exact Or.inl (hs.c2 hc)
          · exact Or.inr ⟨hs.c1, by simpa [ltOfRanks] using hl⟩
        have hn0 := IH g sm hmem s hi hpre hmeas
        -- the callee's budget fits under the caller's potential
        have hfit : budget defs ranks g (mu s) ≤ T Mf (ranks self) (mu s) := by
          have h1 := hW g
          have h2 := hR g
          have h3 := hR self
          unfold budget T
          rcases hmeas with hlt | ⟨hle, hrk⟩
          · rw [if_pos hlt]; omega
          · split <;> omega
        have hn := fine_mono defs rc hn0 hfit
        have hfuel : W (.call g) + T Mf (ranks self) (mu s) = T Mf (ranks self) (mu s) + 1 := by
          simp only [W]; omega
        rw [hfuel]
        simp only [exec]
        cases hr : exec defs rc (T Mf (ranks self) (mu s)) (defs g) s with
        | ok s' =>
          rw [hr] at hn
          obtain ⟨hi', e, he, hes⟩ := hn
          refine ⟨hi', { fact := e.fact, fl := e.fl, must := a.must || e.must, c := a.c || e.c },
                  List.mem_map.mpr ⟨e, he, rfl⟩, ⟨hes.fact, hes.fl, ?_, ?_, ?_, ?_⟩⟩
          · have := hs.m1; have := hes.le; omega
          · intro hm
            simp only [Bool.or_eq_true] at hm
            rcases hm with hm | hm
            · have := hs.m2 hm; have := hes.le; omega
            · have := hes.m hm; have := hs.m1; omega
          · have := hs.c1; have := hes.le; omega
          · intro hm
            simp only [Bool.or_eq_true] at hm
            rcases hm with hm | hm
            · have := hs.c2 hm; have := hes.le; omega
            · have := hes.c hm; have := hs.c1; omega
        | panic w => rw [hr] at hn; exact hn
        | outOfFuel => rw [hr] at hn; exact hn
      · cases h
  | loop cnd body ihc ihb =>
    intro a outs h M s hi hs
    simp only [analyze] at h
    cases hc : analyze summs (ltOfRanks ranks) rc self cnd { fact := .any, fl := none, must := false, c := a.c } with
    | none => rw [hc] at h; cases h
    | some outsC =>
      rw [hc] at h; simp only [] at h
      split at h
      · rename_i hbody
        simp only [Option.some.injEq] at h; subst h
        -- strong induction on the remaining input at the loop head
        suffices H : ∀ (k : Nat) (s : PState), mu s ≤ k → Inv input s → mu s ≤ M → (a.must = true → mu s < M) →
            mu s ≤ Mf → (a.c = true → mu s < Mf) →
            Fine (QA input
              ((outsC.filter (fun oc => oc.fl != some true)).map
                (fun oc => { fact := oc.fact, fl := some false, must := a.must || oc.must, c := a.c || oc.c })) Mf M)
              (exec defs rc (W (.loop cnd body) + T Mf (ranks self) (mu s)) (.loop cnd body) s) from
          H (mu s) s (Nat.le_refl _) hi hs.m1 hs.m2 hs.c1 hs.c2
        intro k
        induction k with
        | zero =>
          intro s hk hi hm1 hm2 hc1 hc2
          have hfuel : W (.loop cnd body) + T Mf (ranks self) (mu s) =
              (max (W cnd) (W body) + T Mf (ranks self) (mu s)) + 1 := by simp only [W]; omega
          rw [hfuel]
          have hhead : Sat { fact := .any, fl := none, must := false, c := a.c } Mf (mu s) s :=
            ⟨trivial, (by intro b hb; cases hb), Nat.le_refl _, (by intro h; cases h), hc1, hc2⟩
          have h1 := fine_mono defs rc (ihc _ outsC hc (mu s) s hi hhead)
            (by omega : W cnd + T Mf (ranks self) (mu s) ≤ max (W cnd) (W body) + T Mf (ranks self) (mu s))
          simp only [exec]
          cases hr : exec defs rc (max (W cnd) (W body) + T Mf (ranks self) (mu s)) cnd s with
          | ok s1 =>
            rw [hr] at h1
            obtain ⟨hi1, oc, hoc, hsoc⟩ := h1
            simp only []
            by_cases hf : s1.flag = true
            · -- continuing needs consumption, impossible at mu = 0
              have hne : (oc.fl == some false) = false := by
                cases hfl : oc.fl with
                | none => rfl
                | some b => have := hsoc.fl b hfl; rw [hf] at this; subst this; rfl
              have hb := List.all_eq_true.mp hbody oc hoc
              simp only [hne, Bool.false_eq_true, if_false] at hb
              cases hab : analyze summs (ltOfRanks ranks) rc self body { oc with fl := some true } with
              | none => rw [hab] at hb; cases hb
              | some outsB =>
                rw [hab] at hb; simp only [] at hb
                have hle1 : mu s1 ≤ mu s := hsoc.m1
                have h2 := fine_mono defs rc (ihb _ outsB hab (mu s) s1 hi1
                  ⟨hsoc.fact, by intro b hb'; simp only [Option.some.injEq] at hb'; subst hb'; exact hf,
                   hsoc.m1, hsoc.m2, hsoc.c1, hsoc.c2⟩)
                  (by have := T_mono (rs := ranks self) hle1 hc1; omega :
                    W body + T Mf (ranks self) (mu s1) ≤ max (W cnd) (W body) + T Mf (ranks self) (mu s))
                simp only [hf, if_true]
                cases hr2 : exec defs rc (max (W cnd) (W body) + T Mf (ranks self) (mu s)) body s1 with
                | ok s2 =>
                  rw [hr2] at h2
                  obtain ⟨_, ob, hob, hsob⟩ := h2
                  have := hsob.m2 (List.all_eq_true.mp hb ob hob)
                  omega
                | panic w => rw [hr2] at h2; exact h2
                | outOfFuel => rw [hr2] at h2; exact h2.elim
            · have hff : s1.flag = false := by simpa using hf
              simp only [hff, Bool.false_eq_true, if_false, Fine]
              have hnt : (oc.fl != some true) = true := by
                cases hfl : oc.fl with
                | none => rfl
                | some b => have := hsoc.fl b hfl; rw [hff] at this; subst this; rfl
              refine ⟨hi1, { fact := oc.fact, fl := some false, must := a.must || oc.must, c := a.c || oc.c },
                      List.mem_map.mpr ⟨oc, List.mem_filter.mpr ⟨hoc, hnt⟩, rfl⟩, ?_⟩
              refine ⟨hsoc.fact, by intro b hb; simp only [Option.some.injEq] at hb; subst hb; exact hff, ?_, ?_, ?_, ?_⟩
              · have := hsoc.m1; omega
              · intro hm
                simp only [Bool.or_eq_true] at hm
                rcases hm with hm | hm
                · have := hm2 hm; have := hsoc.m1; omega
                · have := hsoc.m2 hm; omega
              · exact hsoc.c1
              · intro hm
                simp only [Bool.or_eq_true] at hm
                rcases hm with hm | hm
                · have := hc2 hm; have := hsoc.m1; omega
                · exact hsoc.c2 hm
          | panic w => rw [hr] at h1; exact h1
          | outOfFuel => rw [hr] at h1; exact h1.elim
        | succ k ihk =>
          intro s hk hi hm1 hm2 hc1 hc2
          have hfuel : W (.loop cnd body) + T Mf (ranks self) (mu s) =
              (max (W cnd) (W body) + T Mf (ranks self) (mu s)) + 1 := by simp only [W]; omega
          rw [hfuel]
          have hhead : Sat { fact := .any, fl := none, must := false, c := a.c } Mf (mu s) s :=
            ⟨trivial, (by intro b hb; cases hb), Nat.le_refl _, (by intro h; cases h), hc1, hc2⟩
          have h1 := fine_mono defs rc (ihc _ outsC hc (mu s) s hi hhead)
            (by omega : W cnd + T Mf (ranks self) (mu s) ≤ max (W cnd) (W body) + T Mf (ranks self) (mu s))
          simp only [exec]
          cases hr : exec defs rc (max (W cnd) (W body) + T Mf (ranks self) (mu s)) cnd s with
          | ok s1 =>
            rw [hr] at h1
            obtain ⟨hi1, oc, hoc, hsoc⟩ := h1
            simp only []
            by_cases hf : s1.flag = true
            · have hne : (oc.fl == some false) = false := by
                cases hfl : oc.fl with
                | none => rfl
                | some b => have := hsoc.fl b hfl; rw [hf] at this; subst this; rfl
              have hb := List.all_eq_true.mp hbody oc hoc
              simp only [hne, Bool.false_eq_true, if_false] at hb
              cases hab : analyze summs (ltOfRanks ranks) rc self body { oc with fl := some true } with
              | none => rw [hab] at hb; cases hb
              | some outsB =>
                rw [hab] at hb; simp only [] at hb
                have hle1 : mu s1 ≤ mu s := hsoc.m1
                have h2 := fine_mono defs rc (ihb _ outsB hab (mu s) s1 hi1
                  ⟨hsoc.fact, by intro b hb'; simp only [Option.some.injEq] at hb'; subst hb'; exact hf,
                   hsoc.m1, hsoc.m2, hsoc.c1, hsoc.c2⟩)
                  (by have := T_mono (rs := ranks self) hle1 hc1; omega :
                    W body + T Mf (ranks self) (mu s1) ≤ max (W cnd) (W body) + T Mf (ranks self) (mu s))
                simp only [hf, if_true]
                cases hr2 : exec defs rc (max (W cnd) (W body) + T Mf (ranks self) (mu s)) body s1 with
                | ok s2 =>
                  rw [hr2] at h2
                  obtain ⟨hi2, ob, hob, hsob⟩ := h2
                  have hlt := hsob.m2 (List.all_eq_true.mp hb ob hob)
                  have h3 := ihk s2 (by omega) hi2 (by omega) (fun _ => by omega) hsob.c1
                    (fun hcc => by have := hc2 hcc; omega)
                  simp only []
                  refine fine_mono defs rc h3 ?_
                  have := T_strict (rs := ranks self) hlt hc1
                  simp only [W]
                  omega
                | panic w => rw [hr2] at h2; exact h2
                | outOfFuel => rw [hr2] at h2; exact h2.elim
            · have hff : s1.flag = false := by simpa using hf
              simp only [hff, Bool.false_eq_true, if_false, Fine]
              have hnt : (oc.fl != some true) = true := by
                cases hfl : oc.fl with
                | none => rfl
                | some b => have := hsoc.fl b hfl; rw [hff] at this; subst this; rfl
              refine ⟨hi1, { fact := oc.fact, fl := some false, must := a.must || oc.must, c := a.c || oc.c },
                      List.mem_map.mpr ⟨oc, List.mem_filter.mpr ⟨hoc, hnt⟩, rfl⟩, ?_⟩
              refine ⟨hsoc.fact, by intro b hb; simp only [Option.some.injEq] at hb; subst hb; exact hff, ?_, ?_, ?_, ?_⟩
              · have := hsoc.m1; omega
              · intro hm
                simp only [Bool.or_eq_true] at hm
                rcases hm with hm | hm
                · have := hm2 hm; have := hsoc.m1; omega
                · have := hsoc.m2 hm; omega
              · exact hsoc.c1
              · intro hm
                simp only [Bool.or_eq_true] at hm
                rcases hm with hm | hm
                · have := hc2 hm; have := hsoc.m1; omega
                · exact hsoc.c2 hm
          | panic w => rw [hr] at h1; exact h1
          | outOfFuel => rw [hr] at h1; exact h1.elim
      · cases h
  | nop => exact prim _ rfl
  | startNode k => exact prim _ rfl
  | finishNode => exact prim _ rfl
  | pushCp => exact prim _ rfl
  | popCp => exact prim _ rfl
  | startNodeAtCp k => exact prim _ rfl
  | eat => exact prim _ rfl
  | skip => exact prim _ rfl
  | eatIf k => exact prim _ rfl
  | expect k msg => exact prim _ rfl
  | assertTok k => exact prim _ rfl
  | error msg => exact prim _ rfl
  | errorAndEat msg => exact prim _ rfl
  | errorAndRecover msg => exact prim _ rfl
  | retB b => exact prim _ rfl
  | pushLocal => exact prim _ rfl
  | popLocal => exact prim _ rfl
  | setLocal => exact prim _ rfl

end bound

/-- **the quantitative soundness of the checker**: a function whose summaries pass `checkFn` runs
within its budget — syntactic depth of its body, plus 92 per remaining character, plus 13 per rank -/
theorem check_bound (summs : Summs) (ranks : Ranks) (input : List Char)
    (hcheck : ∀ f, checkFn defs summs (ltOfRanks ranks) rc f = true)
    (hW : ∀ f, W (defs f) ≤ 13) (hR : ∀ f, ranks f ≤ 6) :
    ∀ (M r : Nat) (f : Fn) (sm : Summ), sm ∈ summs f → ∀ (s : PState), ranks f ≤ r → mu s ≤ M →
      Inv input s → sm.pre.holds s.cur →
      Fine (fun s'' => Inv input s'' ∧ ∃ e ∈ sm.exits, ExitSat e s s'')
        (exec defs rc (budget defs ranks f (mu s)) (defs f) s) := by
  intro M
  induction M using Nat.strongRecOn with
  | _ M ihM =>
    intro r
    induction r using Nat.strongRecOn with
    | _ r ihr =>
      intro f sm hsm s hr hM hi hpre
      have hc := List.all_eq_true.mp (hcheck f) sm hsm
      unfold checkSumm at hc
      cases ha : analyze summs (ltOfRanks ranks) rc f (defs f) { fact := sm.pre, fl := none, must := false, c := false } with
      | none => rw [ha] at hc; cases hc
      | some outs =>
        rw [ha] at hc; simp only [] at hc
        have IH : CallIHB defs rc input summs ranks f (mu s) := by
          intro g sm' hsm' s' hi' hpre' hmeas
          rcases hmeas with hlt | ⟨hle, hrk⟩
          · exact ihM (mu s') (by omega) (ranks g) g sm' hsm' s' (Nat.le_refl _) (Nat.le_refl _) hi' hpre'
          · rcases Nat.lt_or_eq_of_le (Nat.le_trans hle hM) with hlt | heq
            · exact ihM (mu s') hlt (ranks g) g sm' hsm' s' (Nat.le_refl _) (Nat.le_refl _) hi' hpre'
            · exact ihr (ranks g) (by omega) g sm' hsm' s' (Nat.le_refl _) (by omega) hi' hpre'
        have hsat : Sat { fact := sm.pre, fl := none, must := false, c := false } (mu s) (mu s) s :=
          ⟨hpre, (by intro b hb; cases hb), Nat.le_refl _, (by intro h; cases h), Nat.le_refl _, (by intro h; cases h)⟩
        have hn := analyze_bound defs rc input summs ranks f (mu s) hW hR IH (defs f) _ outs ha (mu s) s hi hsat
        have hfuel : W (defs f) + T (mu s) (ranks f) (mu s) = budget defs ranks f (mu s) := by
          unfold T budget; simp; omega
        rw [hfuel] at hn
        cases hres : exec defs rc (budget defs ranks f (mu s)) (defs f) s with
        | ok s' =>
          rw [hres] at hn
          obtain ⟨hi', o, ho, hso⟩ := hn
          have := List.all_eq_true.mp hc o ho
          obtain ⟨e, he, hcov⟩ := List.any_eq_true.mp this
          exact ⟨hi', e, he, covers_sound hcov (Mf := 0) hso⟩
        | panic w => rw [hres] at hn; exact hn
        | outOfFuel => rw [hres] at hn; exact hn

end Progress
end Tg
