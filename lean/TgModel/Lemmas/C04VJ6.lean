/-
C04 converse for values, tree-checked lists (part 6): `inner_value`, `value`, the induction, the name-mode
value.  (The lemmas of `C04ConvV6`, relative to a context.)
-/
import TgModel.Lemmas.C04VJ5

namespace Tg
namespace C04L
open Prog Grammar Frag Doc

local notation "rcv" => Tables.recoverTokens

theorem inner_coreJ (C : RunCtx) (H : ListHook C) (L : Nat) (hV : ValHJ C L) (c : Prog)
    (hcond : ∀ (n : Nat) (a b : PState), a.kinds.length ≤ L → C.I a → exec defs rcv n c a = .ok b → Clean a b →
      SufStepJ C a b)
    {n : Nat} {s s' : PState} (hl : s.kinds.length ≤ L) (hi : C.I s)
    (h : exec defs rcv n (seq (startNode .InnerValue) (seq (call .simple_value)
      (ifFlag (seq (loop c nop) (seq finishNode (retB true))) (seq finishNode (retB false))))) s = .ok s')
    (hc : Clean s s') :
    ∃ w, s.kinds = w ++ s'.kinds ∧ s'.afterError = false ∧
      (C.J s' → VShape0 w → Derives (.seq (.nt .SimpleValue_) (.star (.nt .ValueSuffix_))) w) := by
  have h := lift_fuel h 10
  obtain ⟨s1, h1, _, h, hc⟩ := seq_inv defs rcv h hc
  have i1 := C.hI _ _ _ _ hi h1
  have e1 := same_startNode h1
  obtain ⟨s2, h2, c2, h, hc⟩ := seq_inv defs rcv h hc
  have i2 := C.hI _ _ _ _ i1 h2
  have b2 := C.hJ _ _ _ _ i2 h
  obtain ⟨w1, k2, a2, d2⟩ := simple_value_invJ C H L hV (by rw [e1.kinds]; exact hl) i1 h2 c2
  have l2 : s2.kinds.length ≤ L := by
    have : s.kinds = w1 ++ s2.kinds := by rw [← e1.kinds]; exact k2
    exact Nat.le_trans (kinds_len_le this) hl
  rcases ifFlag_inv defs rcv h with ⟨_, h⟩ | ⟨_, h⟩
  · obtain ⟨s3, h3, c3, h, hc⟩ := seq_inv defs rcv h hc
    have i3 := C.hI _ _ _ _ i2 h3
    have b3 := C.hJ _ _ _ _ i3 h
    obtain ⟨w2, k3, a3, d3⟩ := suffix_loopJ C L c hcond _ _ _ l2 i2 a2 h3 c3
    obtain ⟨k4, a4, _⟩ := finRet_inv h hc
    refine ⟨w1 ++ w2, by rw [← e1.kinds, k2, k3, k4]; simp, by rw [a4]; exact a3, fun j hs => ?_⟩
    exact Derives.seq (d2 (b2 j) hs.left) (d3 (b3 j) hs.right)
  · obtain ⟨k4, a4, _⟩ := finRet_inv h hc
    exact ⟨w1, by rw [← e1.kinds, k2, k4], by rw [a4]; exact a2,
      fun j hs => d_seq_nil (d2 (b2 j) hs) Derives.starNil⟩

theorem inner_value_invJ (C : RunCtx) (H : ListHook C) (L : Nat) (hV : ValHJ C L) (n : Nat) (s s' : PState)
    (hl : s.kinds.length ≤ L) (hi : C.I s)
    (h : exec defs rcv n (call .inner_value) s = .ok s') (hc : Clean s s') : VConvJ C s s' (.nt .InnerValue_) := by
  have h := call_inv defs rcv (lift_fuel h 5)
  simp only [defs, seqs] at h
  obtain ⟨w, k, a, d⟩ := inner_coreJ C H L hV _
    (fun n a b hla hia hab cab => value_suffix_invJ C L hV hla hia hab cab) hl hi h hc
  exact ⟨w, k, a, fun j hs => Derives.nt (d j hs)⟩

theorem inner_name_value_invJ (C : RunCtx) (H : ListHook C) (L : Nat) (hV : ValHJ C L) (n : Nat) (s s' : PState)
    (hl : s.kinds.length ≤ L) (hi : C.I s)
    (h : exec defs rcv n (call .inner_name_value) s = .ok s') (hc : Clean s s') :
    VConvJ C s s' (.nt .InnerValue_NameMode_) := by
  have h := call_inv defs rcv (lift_fuel h 5)
  simp only [defs, seqs] at h
  obtain ⟨w, k, a, d⟩ := inner_coreJ C H L hV _
    (fun n a b hla hia hab cab => name_suffix_invJ C L hV hla hia hab cab) hl hi h hc
  exact ⟨w, k, a, fun j hs => Derives.nt (d j hs)⟩

/-- the paste loop `("#" inner)*` -/
theorem paste_loopJ (C : RunCtx) (L : Nat) (fi : Fn) (A : E)
    (hInner : ∀ (n : Nat) (a b : PState), a.kinds.length ≤ L → C.I a → exec defs rcv n (call fi) a = .ok b →
      Clean a b → VConvJ C a b A) :
    ∀ (n : Nat) (s s' : PState), s.kinds.length ≤ L → C.I s → s.afterError = false →
      exec defs rcv n (loop (eatIf .Paste) (call fi)) s = .ok s' → Clean s s' →
      ∃ w, s.kinds = w ++ s'.kinds ∧ s'.afterError = false ∧
        (C.J s' → VShape0 w → Derives (.star (.seq (.tok [TokenKind.Paste]) A)) w) := by
  intro n
  induction n with
  | zero => intro s s' _ _ _ h; simp [exec] at h
  | succ n ih =>
    intro s s' hl hi ha h hc
    obtain ⟨s1, h1, c1, hcase⟩ := loop_inv h hc
    have i1 := C.hI _ _ _ _ hi h1
    have h1 := lift_fuel h1 1
    rcases eatIf_clean (by decide) h1 with ⟨_, hfl, k1, a1, _⟩ | ⟨_, rfl⟩
    · rcases hcase with ⟨hf, _⟩ | ⟨_, s2, hb, cb, hl2, cl⟩
      · rw [hfl] at hf; cases hf
      · have i2 := C.hI _ _ _ _ i1 hb
        have l1 : s1.kinds.length ≤ L := by
          have : s.kinds = [TokenKind.Paste] ++ s1.kinds := k1
          exact Nat.le_trans (kinds_len_le this) hl
        obtain ⟨w1, k2, a2, d2⟩ := hInner _ _ _ l1 i1 hb cb
        obtain ⟨w2, k3, a3, d3⟩ := ih _ _ (Nat.le_trans (kinds_len_le k2) l1) i2 a2 hl2 cl
        refine ⟨TokenKind.Paste :: (w1 ++ w2), by rw [k1, k2, k3]; simp, a3, fun j hs => ?_⟩
        have h12 : VShape0 (w1 ++ w2) := hs.tail
        exact d_cast (Derives.starCons (d_tokSeq (List.mem_singleton.mpr rfl) (d2 (C.hJ _ _ _ _ i2 hl2 j) h12.left))
          (d3 j h12.right)) (by simp)
    · rcases hcase with ⟨_, rfl⟩ | ⟨hf, _⟩
      · exact ⟨[], rfl, ha, fun _ _ => Derives.starNil⟩
      · simp at hf

/-- `inner ("#" inner)*` (both `value` and `name_value`) -/
theorem value_coreJ (C : RunCtx) (L : Nat) (fi : Fn) (A : E)
    (hInner : ∀ (n : Nat) (a b : PState), a.kinds.length ≤ L → C.I a → exec defs rcv n (call fi) a = .ok b →
      Clean a b → VConvJ C a b A)
    {n : Nat} {s s' : PState} (hl : s.kinds.length ≤ L) (hi : C.I s)
    (h : exec defs rcv n (seq (startNode .Value) (seq (call fi) (seq (loop (eatIf .Paste) (call fi))
      (seq finishNode (retB true))))) s = .ok s') (hc : Clean s s') :
    ∃ w, s.kinds = w ++ s'.kinds ∧ s'.afterError = false ∧
      (C.J s' → VShape0 w → Derives (.seq A (.star (.seq (.tok [TokenKind.Paste]) A))) w) := by
  have h := lift_fuel h 10
  obtain ⟨s1, h1, _, h, hc⟩ := seq_inv defs rcv h hc
  have i1 := C.hI _ _ _ _ hi h1
  have e1 := same_startNode h1
  obtain ⟨s2, h2, c2, h, hc⟩ := seq_inv defs rcv h hc
  have i2 := C.hI _ _ _ _ i1 h2
  have b2 := C.hJ _ _ _ _ i2 h
  obtain ⟨w1, k2, a2, d2⟩ := hInner _ _ _ (by rw [e1.kinds]; exact hl) i1 h2 c2
  have l2 : s2.kinds.length ≤ L := by
    have : s.kinds = w1 ++ s2.kinds := by rw [← e1.kinds]; exact k2
    exact Nat.le_trans (kinds_len_le this) hl
  obtain ⟨s3, h3, c3, h, hc⟩ := seq_inv defs rcv h hc
  have i3 := C.hI _ _ _ _ i2 h3
  have b3 := C.hJ _ _ _ _ i3 h
  obtain ⟨w2, k3, a3, d3⟩ := paste_loopJ C L fi A hInner _ _ _ l2 i2 a2 h3 c3
  obtain ⟨k4, a4, _⟩ := finRet_inv h hc
  exact ⟨w1 ++ w2, by rw [← e1.kinds, k2, k3, k4]; simp, by rw [a4]; exact a3,
    fun j hs => Derives.seq (d2 (b2 j) hs.left) (d3 (b3 j) hs.right)⟩

theorem value_stepJ (C : RunCtx) (H : ListHook C) (L : Nat) (hV : ValHJ C L) : ValHJ C (L + 1) := by
  intro n s s' hl hi h hc
  have hl : s.kinds.length ≤ L := Nat.le_of_lt_succ hl
  have h := call_inv defs rcv (lift_fuel h 5)
  simp only [defs, seqs] at h
  obtain ⟨w, k, a, d⟩ := value_coreJ C L .inner_value (.nt .InnerValue_) (inner_value_invJ C H L hV) hl hi h hc
  exact ⟨w, k, a, fun j hs => Derives.nt (d j hs)⟩

theorem valHJ_all (C : RunCtx) (H : ListHook C) : ∀ L, ValHJ C L
  | 0 => fun _ _ _ hl => (Nat.not_lt_zero _ hl).elim
  | L + 1 => value_stepJ C H L (valHJ_all C H L)

/-- **converse for `value`, lists checked by the hook** -/
theorem valueJ_run_converse (C : RunCtx) (H : ListHook C) (n : Nat) (s s' : PState) (hi : C.I s)
    (h : exec defs rcv n (call .value) s = .ok s') (hc : Clean s s') :
    ∃ w, s.kinds = w ++ s'.kinds ∧ (C.J s' → VShape0 w → Derives (.nt .Value_) w) := by
  obtain ⟨w, k, _, d⟩ := valHJ_all C H (s.kinds.length + 1) n s s' (Nat.lt_succ_self _) hi h hc
  exact ⟨w, k, d⟩

theorem nameJ_run_converse (C : RunCtx) (H : ListHook C) (n : Nat) (s s' : PState) (hi : C.I s)
    (h : exec defs rcv n (call .name_value) s = .ok s') (hc : Clean s s') :
    ∃ w, s.kinds = w ++ s'.kinds ∧ (C.J s' → VShape0 w → Derives (.nt .Value_NameMode_) w) := by
  have h := call_inv defs rcv (lift_fuel h 5)
  simp only [defs, seqs] at h
  obtain ⟨w, k, _, d⟩ := value_coreJ C s.kinds.length .inner_name_value (.nt .InnerValue_NameMode_)
    (inner_name_value_invJ C H _ (valHJ_all C H _)) (Nat.le_refl _) hi h hc
  exact ⟨w, k, fun j hs => Derives.nt (d j hs)⟩

end C04L
end Tg
