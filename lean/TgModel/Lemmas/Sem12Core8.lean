/-
The eighth core (`def` names as values of class-typed fields): the pieces about the symbol map.

* `DInv` (`Lemmas/IdeSemCoreP.lean`) files the defs by name and the ancestors of every record by id; the generic `def` /
  `class` steps (`indexDefG_step`, `indexClassG_step`) maintain it (`DefBranch`, `closeTab`, `defOwn`, `classOwn`);
* `PInv.pushParent8`: a new parent and its ancestors become ancestors of the record (`dt.own`);
* `indexIdentifierValue_def`: the `.record` arm of an identifier value, with its second `findDef` lookup;
* `DInv.cast_def`: a def whose ancestors (filed in the table) contain the class of the field can be cast to the field's type,
  in the current symbol map.

The initialiser oracle, the parent loop with `pushParent8` and the checker itself are in `Lemmas/Sem12Checker8.lean`.
-/
import TgModel.Lemmas.Sem11Core7
namespace Tg
namespace Ide
open Index

/-- the run of the identifier site on a name that no scope answers and that names a def -/
theorem indexIdentifierValue_def (id : PTree) (c : IndexCtx) (f : Nat) (rest : List Nat) (hft : c.fileTrace = f :: rest)
    (name : String) (loc : FileRange) (hid : identOf f id = some (name, loc)) (d : Nat)
    (hloc : c.scopes.findLocal c.symbolMap name = none) (hdef : c.symbolMap.nameToDef[name]? = some d)
    (hkind : (c.symbolMap.record d).kind = .def_) :
    (indexIdentifierValue id).run c =
      .ok (some (.record d name), c.setSM (c.symbolMap.addReference (.record d) loc)) := by
  have hkind' : ((c.symbolMap.addReference (.record d) loc).record d).kind = .def_ := hkind
  have hdef' : (c.symbolMap.addReference (.record d) loc).nameToDef[name]? = some d := hdef
  unfold indexIdentifierValue resolveId
  simp only [StateT.run_bind, utilsIdentifier_runOf id c f rest hft, hid, Except.ok_bind, IxM.run_get, hloc,
    SymMap.findDef, hdef, addReference_run, withSM_run, IndexCtx.setSM_symbolMap, hkind', hdef', StateT.run_pure,
    pure_bind]
  have hb : (RecordKind.def_ == RecordKind.def_) = true := rfl
  simp only [hb, if_true, StateT.run_bind, withSM_run, IndexCtx.setSM_symbolMap, hdef', Except.ok_bind, StateT.run_pure]
  rfl

/-- the cast of a def value to a class-typed field: the class is among the ancestors filed for the def -/
theorem DInv.cast_def {dt : DTabs} {B : Nat} {sm : SymMap} (h : DInv dt B sm) (hB : B < sm.recordList.size)
    (dname : String) (d : Nat) (as : List Nat) (cid : Nat) (cname : String)
    (hd : dt.defs.get dname = some d) (ha : ancGet dt.anc d = some as) (hc : cid ∈ as) :
    sm.canBeCastedTo (.record d dname) (.record cid cname) = true := by
  obtain ⟨hlt, hfacts⟩ := h.ancs d as ha
  have := (hfacts cid hc).isSubclassOf (by omega)
  unfold SymMap.canBeCastedTo
  simp only [Ty.canBeCastedTo, this, Bool.or_true]

/-- a new (last) parent `cid` with exactly the fields `flds`, whose ancestors `as` are filed: `cid` and `as` are
ancestors of the record now -/
theorem PInv.pushParent8 {cenv : CEnv} {N : Std.HashMap String Nat} {rid : Nat} {ps : Params} {bv gv : Env}
    {outer : List Scope} {xt : XTab} {dt : DTabs} {env : Env} {c : IndexCtx}
    (h : PInv cenv N rid ps bv gv outer xt dt env c) (cid : Nat) (hcid : cid < rid) (flds : Env)
    (hex : Exact c.symbolMap cid flds) (as : List Nat) (has : ancGet dt.anc cid = some as ∨ as = []) :
    PInv cenv N rid ps bv gv outer xt { dt with own := dt.own ++ cid :: as } (env ++ flds) (withParent c rid cid) := by
  have h0 := h.pushParent cid hcid flds hex
  have hrid : rid < c.symbolMap.recordList.size := by have := h.newest; omega
  have hrec : ∀ i, i < c.symbolMap.recordList.size →
      (withParent c rid cid).symbolMap.record i =
        (if rid = i then { (c.symbolMap.record i) with parentList := (c.symbolMap.record i).parentList.push cid }
        else c.symbolMap.record i) := by
    intro i hi
    show (Array.modify c.symbolMap.recordList rid _)[i]! = _
    rw [sGetElem!_modify _ _ _ _ hi]
    rfl
  have hd := h.d.push (sm' := (withParent c rid cid).symbolMap) h.older1
    (fun i hi => by rw [hrec i (by omega), if_neg (by omega)])
    (fun i hi => by rw [hrec i (by omega)]; split <;> rfl)
    (fun _ _ _ => rfl) cid hcid (by rw [hrec rid hrid, if_pos rfl]) (cid :: as)
    (fun a ha => by
      rcases List.mem_cons.1 ha with rfl | ha
      · exact Or.inl rfl
      · rcases has with has | has
        · exact Or.inr ((h.d.ancs cid as has).2 a ha)
        · subst has; cases ha)
  exact ⟨h0.k, h0.top, h0.newest, h0.exact, h0.tas, h0.trace, h0.ntc, h0.x, hd⟩

end Ide
end Tg
