/-
`SymRun.runFast` (arrays + hash index, used for long hook logs) computes the reference semantics
`SymbolMap.run`.
-/
import TgModel.Ide.SymRun
import TgModel.Lemmas.SymbolMapLemmas
namespace Tg
namespace Ide
namespace SymRun
open Tg.SymbolMap

def keyOf (l : Loc) : Nat × Nat × Nat := (l.file, l.start, l.stop)

theorem keyOf_inj {a b : Loc} (h : keyOf a = keyOf b) : a = b := by
  cases a; cases b; simp [keyOf] at h; simp [h]

/-- `insertPos` replaces at the first (here: only) entry with that interval -/
theorem insertPos_set (pos : List (Loc × Nat)) (l : Loc) (s : Nat) (i : Nat) (hi : i < pos.length)
    (hl : pos[i].1 = l) (hfirst : ∀ j (hj : j < pos.length), j < i → pos[j].1 ≠ l) :
    insertPos pos l s = pos.set i (l, s) := by
  induction pos generalizing i with
  | nil => simp at hi
  | cons x t ih =>
    obtain ⟨l', s'⟩ := x
    cases i with
    | zero =>
      simp at hl
      subst hl
      simp [insertPos]
    | succ i =>
      have hne : l' ≠ l := fun h => hfirst 0 (by simp) (by omega) (by simpa using h)
      simp only [insertPos, hne, if_false, List.set_cons_succ, List.cons.injEq, true_and]
      exact ih i (by simpa using hi) (by simpa using hl) (fun j hj hji h =>
        hfirst (j + 1) (by simp; omega) (by omega) (by simpa using h))

theorem insertPos_append (pos : List (Loc × Nat)) (l : Loc) (s : Nat) (h : ∀ e ∈ pos, e.1 ≠ l) :
    insertPos pos l s = pos ++ [(l, s)] := by
  induction pos with
  | nil => rfl
  | cons x t ih =>
    obtain ⟨l', s'⟩ := x
    have hne : l' ≠ l := h (l', s') (by simp)
    simp only [insertPos, hne, if_false, List.cons_append, List.cons.injEq, true_and]
    exact ih fun e he => h e (by simp [he])

theorem getElem_set! {α : Type} (a : Array α) (i j : Nat) (v : α) (hj : j < a.size)
    (h : j < (a.set! i v).size) : (a.set! i v)[j] = if i = j then v else a[j] := by
  simp [Array.set!_eq_setIfInBounds, Array.getElem_setIfInBounds hj]

/-- the index is exactly the position of every interval of `pos` -/
structure IdxOK (fs : FastState) : Prop where
  sound : ∀ key i, fs.idx[key]? = some i → ∃ h : i < fs.pos.size, keyOf fs.pos[i].1 = key
  complete : ∀ i (h : i < fs.pos.size), fs.idx[keyOf fs.pos[i].1]? = some i

theorem IdxOK.syms {fs : FastState} (h : IdxOK fs) (syms : Array Sym) : IdxOK { fs with syms := syms } :=
  ⟨h.sound, h.complete⟩

theorem addPos_sim (fs : FastState) (hok : IdxOK fs) (l : Loc) (s : Nat) :
    IdxOK (addPos fs l s) ∧ (addPos fs l s).syms = fs.syms ∧
    (addPos fs l s).pos.toList =
      (Tg.SymbolMap.addPos { syms := [], pos := fs.pos.toList } l s).pos := by
  unfold addPos Tg.SymbolMap.addPos
  by_cases he : l.isEmpty = true
  · rw [if_pos he, if_pos he]; exact ⟨hok, rfl, rfl⟩
  · rw [if_neg he, if_neg he]
    cases hidx : fs.idx[(l.file, l.start, l.stop)]? with
    | some i =>
      simp only [hidx]
      obtain ⟨hi, hkey⟩ := hok.sound _ i hidx
      have hl : fs.pos[i].1 = l := keyOf_inj hkey
      refine ⟨⟨?_, ?_⟩, by first | rfl | trivial, ?_⟩
      · intro key j hj
        obtain ⟨hj', hk⟩ := hok.sound key j hj
        refine ⟨by simpa using hj', ?_⟩
        simp only
        rw [getElem_set! _ _ _ _ hj']
        split
        · rename_i hij; subst hij; rw [← hk, hl]
        · exact hk
      · intro j hj
        have hj' : j < fs.pos.size := by simpa using hj
        simp only
        rw [getElem_set! _ _ _ _ hj']
        split
        · rename_i hij; subst hij; exact hidx
        · exact hok.complete j hj'
      · simp only [Array.set!_eq_setIfInBounds, Array.toList_setIfInBounds]
        rw [insertPos_set fs.pos.toList l s i (by simpa using hi) (by simpa using hl)]
        intro j hj hji hjl
        have hj' : j < fs.pos.size := by simpa using hj
        have h1 := hok.complete j hj'
        have : fs.pos[j].1 = l := by simpa using hjl
        rw [this] at h1
        have h2 : fs.idx[keyOf l]? = some i := hidx
        rw [h1] at h2
        cases h2
        omega
    | none =>
      simp only [hidx]
      have hnone : ∀ e ∈ fs.pos.toList, e.1 ≠ l := by
        intro e he hel
        obtain ⟨j, hj, hje⟩ := List.getElem_of_mem he
        have hj' : j < fs.pos.size := by simpa using hj
        have h1 := hok.complete j hj'
        have : fs.pos[j].1 = l := by
          have : fs.pos[j] = e := by simpa using hje
          rw [this]; exact hel
        rw [this] at h1
        have h2 : fs.idx[keyOf l]? = none := hidx
        rw [h1] at h2
        cases h2
      refine ⟨⟨?_, ?_⟩, by first | rfl | trivial, ?_⟩
      · intro key j hj
        rw [Std.HashMap.getElem?_insert] at hj
        split at hj
        · rename_i hk
          cases hj
          refine ⟨by simp, ?_⟩
          simp only [Array.getElem_push_eq]
          simpa [keyOf] using hk
        · obtain ⟨hj', hk⟩ := hok.sound key j hj
          refine ⟨by simp; omega, ?_⟩
          rw [Array.getElem_push_lt hj']
          exact hk
      · intro j hj
        rw [Std.HashMap.getElem?_insert]
        by_cases hjs : j = fs.pos.size
        · subst hjs
          simp [keyOf]
        · have hj' : j < fs.pos.size := by simp at hj; omega
          rw [Array.getElem_push_lt hj']
          split
          · rename_i hk
            exfalso
            have : keyOf l = keyOf fs.pos[j].1 := by simpa [keyOf] using hk
            exact hnone fs.pos[j] (by simp) (keyOf_inj this.symm)
          · exact hok.complete j hj'
      · rw [insertPos_append _ _ _ hnone]
        simp


def revRefs (x : Sym) : Sym := { x with refs := x.refs.reverse }

/-- the array state represents the list state -/
structure Rel (fs : FastState) (st : State) : Prop where
  idx : IdxOK fs
  pos : st.pos = fs.pos.toList
  syms : st.syms = fs.syms.toList.map revRefs

theorem addPos_pos_only (st : State) (l : Loc) (s : Nat) :
    (Tg.SymbolMap.addPos st l s).pos = (Tg.SymbolMap.addPos { syms := [], pos := st.pos } l s).pos := by
  unfold Tg.SymbolMap.addPos
  split <;> rfl

theorem Rel.addPos {fs : FastState} {st : State} (h : Rel fs st) (l : Loc) (s : Nat) :
    Rel (SymRun.addPos fs l s) (Tg.SymbolMap.addPos st l s) := by
  obtain ⟨h1, h2, h3⟩ := addPos_sim fs h.idx l s
  refine ⟨h1, ?_, ?_⟩
  · rw [addPos_pos_only, h.pos, h3]
  · rw [Tg.SymbolMap.addPos_syms, h2, h.syms]

theorem addRef_map (l : List Sym) (s : Nat) (loc : Loc) :
    addRef (l.map revRefs) s loc = (l.modify s fun x => { x with refs := loc :: x.refs }).map revRefs := by
  apply List.ext_getElem?
  intro i
  rw [getElem?_addRef, List.getElem?_map, List.getElem?_map, List.getElem?_modify]
  cases l[i]? with
  | none => rfl
  | some x =>
    simp only [Option.map_some]
    by_cases h : i = s
    · subst h; simp [revRefs]
    · have : ¬ s = i := fun h' => h h'.symm
      simp [h, this]

theorem Rel.step {fs : FastState} {st : State} (h : Rel fs st) (op : Op) :
    Rel (SymRun.step fs op) (Tg.SymbolMap.step st op) := by
  have hlen : st.syms.length = fs.syms.size := by rw [h.syms]; simp
  cases op with
  | define name loc =>
    simp only [SymRun.step, Tg.SymbolMap.step, hlen]
    exact Rel.addPos (fs := { fs with syms := fs.syms.push { name := name, define := loc } })
      (st := { st with syms := st.syms ++ [{ name := name, define := loc }] })
      ⟨h.idx.syms _, h.pos, by simp [h.syms, revRefs]⟩ loc _
  | defineAnon name loc =>
    simp only [SymRun.step, Tg.SymbolMap.step]
    exact ⟨h.idx.syms _, h.pos, by simp [h.syms, revRefs]⟩
  | reference s loc =>
    simp only [SymRun.step, Tg.SymbolMap.step, hlen]
    split
    · exact Rel.addPos
        (fs := { fs with syms := fs.syms.modify s fun x => { x with refs := loc :: x.refs } })
        (st := { st with syms := addRef st.syms s loc })
        ⟨h.idx.syms _, h.pos, by simp only [h.syms, addRef_map, Array.toList_modify]⟩ loc _
    · exact h

theorem Rel.foldl {fs : FastState} {st : State} (h : Rel fs st) (ops : List Op) :
    Rel (ops.foldl SymRun.step fs) (ops.foldl Tg.SymbolMap.step st) := by
  induction ops generalizing fs st with
  | nil => exact h
  | cons op t ih => exact ih (h.step op)

/-- the array implementation computes the reference semantics -/
theorem runFast_eq_run (ops : Array Op) : runFast ops = Tg.SymbolMap.run ops.toList := by
  have h0 : Rel {} {} := ⟨⟨fun key i h => by simp at h, fun i h => by simp at h⟩, rfl, rfl⟩
  have h := h0.foldl ops.toList
  unfold runFast Tg.SymbolMap.run
  rw [← Array.foldl_toList]
  cases hst : List.foldl Tg.SymbolMap.step {} ops.toList with
  | mk syms pos =>
    rw [hst] at h
    simp only [State.mk.injEq]
    refine ⟨?_, h.pos.symm⟩
    have := h.syms
    simp only at this
    rw [this]
    simp [revRefs]

end SymRun
end Ide
end Tg
