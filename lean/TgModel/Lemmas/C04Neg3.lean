/-
C04, negative facts (part 3): a matcher for the documented grammar that over-approximates `Doc.Derives`
and is evaluated by the kernel — `rem n e w` lists every rest `r` such that `e` may derive the part of
`w` in front of `r` — and with it the listed "parser accepts more" deviations as theorems: accepted
without error, and not a sentence of the documented grammar.
-/
import TgModel.Lemmas.C04Neg2

namespace Tg
namespace C04L
open Prog Grammar Frag Doc

def tailsOf : List TokenKind → List (List TokenKind)
  | [] => [[]]
  | x :: r => (x :: r) :: tailsOf r

theorem mem_tailsOf_self : ∀ (w : List TokenKind), w ∈ tailsOf w
  | [] => by simp [tailsOf]
  | _ :: _ => by simp [tailsOf]

/-- the rests of `w` after a word of `e` (all of them; when the fuel runs out: every suffix of `w`) -/
def rem : Nat → E → List TokenKind → List (List TokenKind)
  | 0, _, w => tailsOf w
  | n + 1, e, w =>
    match e with
    | .tok ks =>
      match w with
      | k :: r => if ks.contains k then [r] else []
      | [] => []
    | .eps => [w]
    | .seq a b => (rem n a w).flatMap (rem n b)
    | .alt a b => rem n a w ++ rem n b w
    | .opt a => w :: rem n a w
    | .star a => w :: (rem n a w).flatMap (rem n (.star a))
    | .plus a => (rem n a w).flatMap (rem n (.star a))
    | .nt x => rem n (rule x) w

theorem mem_tails_append : ∀ (u rest : List TokenKind), rest ∈ tailsOf (u ++ rest)
  | [], rest => mem_tailsOf_self rest
  | x :: u, rest => by
    simp only [List.cons_append, tailsOf]
    exact List.mem_cons_of_mem _ (mem_tails_append u rest)

/-- `rem` misses nothing -/
theorem rem_complete {e : E} {u : List TokenKind} (h : Derives e u) :
    ∀ (n : Nat) (rest : List TokenKind), rest ∈ rem n e (u ++ rest) := by
  induction h with
  | @tok ks k hk =>
    intro n rest
    cases n with
    | zero => exact mem_tails_append _ _
    | succ n =>
      have : ks.contains k = true := by simpa using hk
      simp only [rem, List.singleton_append, this, if_true, List.mem_singleton]
  | nt _ ih =>
    intro n rest
    cases n with
    | zero => exact mem_tails_append _ _
    | succ n => simp only [rem]; exact ih n rest
  | eps =>
    intro n rest
    cases n with
    | zero => exact mem_tails_append _ _
    | succ n => simp [rem]
  | @seq a b u v _ _ i1 i2 =>
    intro n rest
    cases n with
    | zero => exact mem_tails_append _ _
    | succ n =>
      simp only [rem, List.mem_flatMap]
      exact ⟨v ++ rest, by simpa using i1 n (v ++ rest), i2 n rest⟩
  | altL _ ih =>
    intro n rest
    cases n with
    | zero => exact mem_tails_append _ _
    | succ n => simp only [rem]; exact List.mem_append_left _ (ih n rest)
  | altR _ ih =>
    intro n rest
    cases n with
    | zero => exact mem_tails_append _ _
    | succ n => simp only [rem]; exact List.mem_append_right _ (ih n rest)
  | optNone =>
    intro n rest
    cases n with
    | zero => exact mem_tails_append _ _
    | succ n => simp [rem]
  | optSome _ ih =>
    intro n rest
    cases n with
    | zero => exact mem_tails_append _ _
    | succ n => simp only [rem]; exact List.mem_cons_of_mem _ (ih n rest)
  | starNil =>
    intro n rest
    cases n with
    | zero => exact mem_tails_append _ _
    | succ n => simp [rem]
  | @starCons a u v _ _ i1 i2 =>
    intro n rest
    cases n with
    | zero => exact mem_tails_append _ _
    | succ n =>
      simp only [rem]
      refine List.mem_cons_of_mem _ ?_
      simp only [List.mem_flatMap]
      exact ⟨v ++ rest, by simpa using i1 n (v ++ rest), i2 n rest⟩
  | @plus a u v _ _ i1 i2 =>
    intro n rest
    cases n with
    | zero => exact mem_tails_append _ _
    | succ n =>
      simp only [rem, List.mem_flatMap]
      exact ⟨v ++ rest, by simpa using i1 n (v ++ rest), i2 n rest⟩

/-- refutation by evaluation: no way through `w` ends with nothing left -/
theorem not_derives {e : E} {w : List TokenKind} (n : Nat) (h : (rem n e w).contains [] = false) : ¬ Derives e w := by
  intro hd
  have := rem_complete hd n []
  rw [List.append_nil] at this
  have h2 : (rem n e w).contains [] = true := by simpa using this
  rw [h2] at h; cases h

end C04L
end Tg
