/-
C04 converse, partial (types): if `type_` returns without having recorded a new error, what it
consumed is the rendering of a `Frag.Ty`.

Inversion lemmas for `exec` on successful runs, with the "no new error" fact (`Clean`) pushed
through sequential composition by `grow_exec` (errors only grow).
-/
import TgModel.Grammar
import TgModel.Lemmas.C04Report
import TgModel.Lemmas.C04Kinds
import TgModel.Lemmas.C04Doc

namespace Tg
namespace C04L
open Prog Grammar Frag

/-- the run from `s` to `s'` recorded no error (given that errors only grow) -/
def Clean (s s' : PState) : Prop := s'.errors.length ≤ s.errors.length

theorem grow_len {s s' : PState} (g : Grow s s') : s.errors.length ≤ s'.errors.length := by
  obtain ⟨⟨new, e⟩, _⟩ := g
  rw [e, List.length_append]; omega

section inv
variable (defs : Defs) (rc : List TokenKind)

theorem seq_inv {n : Nat} {a b : Prog} {s s' : PState} (h : exec defs rc (n+1) (seq a b) s = .ok s')
    (hc : Clean s s') :
    ∃ s1, exec defs rc n a s = .ok s1 ∧ Clean s s1 ∧ exec defs rc n b s1 = .ok s' ∧ Clean s1 s' := by
  rw [exec] at h
  split at h
  · rename_i s1 h1
    have g1 := grow_len (grow_exec defs rc n a s s1 h1)
    have g2 := grow_len (grow_exec defs rc n b s1 s' h)
    unfold Clean at *
    exact ⟨s1, h1, by omega, h, by omega⟩
  · rename_i hne; exact (hne _ h).elim

theorem call_inv {n : Nat} {f : Fn} {s s' : PState} (h : exec defs rc (n+1) (call f) s = .ok s') :
    exec defs rc n (defs f) s = .ok s' := by
  rw [exec] at h; exact h

theorem ifAt_inv {n : Nat} {ks : List TokenKind} {t e : Prog} {s s' : PState}
    (h : exec defs rc (n+1) (ifAt ks t e) s = .ok s') :
    (ks.contains s.cur = true ∧ exec defs rc n t s = .ok s') ∨
    (ks.contains s.cur = false ∧ exec defs rc n e s = .ok s') := by
  rw [exec] at h
  split at h
  · rename_i hc; exact Or.inl ⟨hc, h⟩
  · rename_i hc; exact Or.inr ⟨by simpa using hc, h⟩

theorem ifFlag_inv {n : Nat} {t e : Prog} {s s' : PState}
    (h : exec defs rc (n+1) (ifFlag t e) s = .ok s') :
    (s.flag = true ∧ exec defs rc n t s = .ok s') ∨ (s.flag = false ∧ exec defs rc n e s = .ok s') := by
  rw [exec] at h
  split at h
  · rename_i hc; exact Or.inl ⟨hc, h⟩
  · rename_i hc; exact Or.inr ⟨by simpa using hc, h⟩

theorem startNode_inv {n : Nat} {k : SyntaxKind} {s s' : PState}
    (h : exec defs rc (n+1) (startNode k) s = .ok s') : s' = s.startNode k := by
  rw [exec] at h; simp only [Res.ok.injEq] at h; exact h.symm

theorem finishNode_inv {n : Nat} {s s' : PState}
    (h : exec defs rc (n+1) finishNode s = .ok s') : s.finishNode = .ok s' := by
  rw [exec] at h; exact h

theorem nop_inv {n : Nat} {s s' : PState} (h : exec defs rc (n+1) nop s = .ok s') : s' = s := by
  rw [exec] at h; simp only [Res.ok.injEq] at h; exact h.symm

theorem retB_inv {n : Nat} {b : Bool} {s s' : PState}
    (h : exec defs rc (n+1) (retB b) s = .ok s') : s' = { s with flag := b } := by
  rw [exec] at h; simp only [Res.ok.injEq] at h; exact h.symm

theorem error_inv {n : Nat} {m : String} {s s' : PState}
    (h : exec defs rc (n+1) (error m) s = .ok s') (hc : Clean s s') : False := by
  rw [exec] at h; simp only [Res.ok.injEq] at h; subst h
  unfold Clean at hc; simp [PState.error] at hc; omega

theorem errorAndRecover_inv {n : Nat} {m : String} {s s' : PState}
    (h : exec defs rc (n+1) (errorAndRecover m) s = .ok s') (hc : Clean s s') : False := by
  have hne := (error_prims_report defs rc (n+1) m s s').2.2 h
  have g := grow_exec defs rc (n+1) _ s s' h
  -- the first thing it does is record an error
  rw [exec] at h
  have key : ∀ s2 : PState, Grow (s.error m) s2 → s2.errors.length ≤ s.errors.length → False := by
    intro s2 g2 hl
    have := grow_len g2
    simp [PState.error] at this; omega
  split at h
  · split at h
    · rename_i s2 he
      exact key s' ((grow_startNode _ _).trans ((grow_eat he).trans (grow_finishNode h))) hc
    · rename_i hne; first | exact (hne _ h).elim | cases h
  · simp only [Res.ok.injEq] at h; subst h
    exact key _ (Grow.refl _) hc

theorem assertTok_inv {n : Nat} {k : TokenKind} {s s' : PState}
    (h : exec defs rc (n+1) (assertTok k) s = .ok s') : s.cur = k ∧ s.eat = .ok s' := by
  rw [exec] at h
  split at h
  · rename_i hc; exact ⟨by simpa using hc, h⟩
  · cases h

theorem expect_inv {n : Nat} {k : TokenKind} {msg : Option String} {s s' : PState}
    (h : exec defs rc (n+1) (expect k msg) s = .ok s') (hc : Clean s s') (ha : s.afterError = false) :
    s.cur = k ∧ s.eat = .ok s' := by
  rw [exec] at h
  split at h
  · rename_i hk; exact ⟨by simpa using hk, h⟩
  · split at h
    · rename_i hae; rw [ha] at hae; cases hae
    · simp only [Res.ok.injEq] at h; subst h
      unfold Clean at hc; simp [PState.error] at hc; omega

theorem eatIf_inv {n : Nat} {k : TokenKind} {s s' : PState}
    (h : exec defs rc (n+1) (eatIf k) s = .ok s') :
    (s.cur = k ∧ ∃ s1, s.eat = .ok s1 ∧ s' = { s1 with flag := true }) ∨
    (s.cur ≠ k ∧ s' = { s with flag := false }) := by
  rw [exec] at h
  split at h
  · rename_i hk
    split at h
    · rename_i s1 he
      simp only [Res.ok.injEq] at h
      exact Or.inl ⟨by simpa using hk, s1, he, h.symm⟩
    · rename_i hne; first | exact (hne _ h).elim | cases h
  · rename_i hk
    simp only [Res.ok.injEq] at h
    exact Or.inr ⟨by simpa using hk, h.symm⟩

end inv

/-! ### token-level facts -/

/-- a token that is none of trivia / `Error` / `Eof` -/
def plain (k : TokenKind) : Bool := !k.isTrivia && !(k == .Error) && !(k == .Eof)

theorem eat_plain {s s' : PState} {k : TokenKind} (hk : s.cur = k) (hp : plain k = true) (h : s.eat = .ok s') :
    s.kinds = k :: s'.kinds ∧ s'.afterError = false ∧ s'.errors = s.errors := by
  have hp' : k.isTrivia = false ∧ k ≠ .Error ∧ k ≠ .Eof := by
    simpa [plain, and_assoc] using hp
  have hn : Norm s := by unfold Norm; rw [hk]; exact hp'.1
  obtain ⟨h1, _, keep, h4⟩ := eat_props hn (by rw [hk]; exact hp'.2.1) (by rw [hk]; exact hp'.2.2) h
  exact ⟨by rw [h1, hk], h4, keep.errors⟩

theorem finishNode_same {s s' : PState} (h : s.finishNode = .ok s') :
    s'.kinds = s.kinds ∧ s'.afterError = s.afterError ∧ s'.cur = s.cur ∧ s'.flag = s.flag := by
  unfold PState.finishNode at h
  split at h
  · cases h
  · simp only [Res.ok.injEq] at h; subst h; exact ⟨rfl, rfl, rfl, rfl⟩

/-! ### the type functions -/

section
variable (input : List Char)
local notation "rcv" => Tables.recoverTokens

/-- `startNode; assertTok k; finishNode` -/
theorem keywordType_inv {n : Nat} {node : SyntaxKind} {k : TokenKind} {s s' : PState} (hp : plain k = true)
    (h : exec defs rcv (n+4) (keywordType node k) s = .ok s') (hc : Clean s s') :
    s.kinds = k :: s'.kinds ∧ s'.afterError = false := by
  simp only [keywordType, seqs] at h
  obtain ⟨s1, h1, c1, h, hc⟩ := seq_inv defs rcv h hc
  have e1 := startNode_inv defs rcv h1; subst e1
  obtain ⟨s2, h2, c2, h, hc⟩ := seq_inv defs rcv h hc
  obtain ⟨hk, he⟩ := assertTok_inv defs rcv h2
  obtain ⟨k1, a1, _⟩ := eat_plain (s := s.startNode node) hk hp he
  obtain ⟨k2, a2, _, _⟩ := finishNode_same (finishNode_inv defs rcv h)
  exact ⟨by rw [k2, ← k1]; rfl, by rw [a2, a1]⟩

/-- `seq finishNode (retB b)` -/
theorem finRet_inv {n : Nat} {b : Bool} {s s' : PState}
    (h : exec defs rcv (n+2) (seq finishNode (retB b)) s = .ok s') (hc : Clean s s') :
    s'.kinds = s.kinds ∧ s'.afterError = s.afterError ∧ s'.flag = b := by
  obtain ⟨s1, h1, _, h, _⟩ := seq_inv defs rcv h hc
  have e := retB_inv defs rcv h; subst e
  obtain ⟨k2, a2, _, _⟩ := finishNode_same (finishNode_inv defs rcv h1)
  exact ⟨k2, a2, rfl⟩

/-- `integer` on a clean run that answers `true` -/
theorem integer_inv {n : Nat} {s s' : PState}
    (h : exec defs rcv (n+8) (call .integer) s = .ok s') (hc : Clean s s') (hf : s'.flag = true) :
    ∃ b, s.kinds = intKind b :: s'.kinds ∧ s'.afterError = false := by
  have h := call_inv defs rcv h
  simp only [defs, seqs, ifEatIf] at h
  obtain ⟨s1, h1, _, h, hc⟩ := seq_inv defs rcv h hc
  have e1 := startNode_inv defs rcv h1; subst e1
  obtain ⟨s2, h2, _, h, hc⟩ := seq_inv defs rcv h hc
  rcases eatIf_inv defs rcv h2 with ⟨hk, s3, he, rfl⟩ | ⟨hk, rfl⟩
  · rcases ifFlag_inv defs rcv h with ⟨_, h⟩ | ⟨hfl, _⟩
    · obtain ⟨k1, a1, _⟩ := eat_plain (s := s.startNode .Integer) hk (by decide) he
      obtain ⟨k2, a2, _⟩ := finRet_inv h hc
      exact ⟨false, by rw [k2]; exact k1, by rw [a2]; exact a1⟩
    · simp at hfl
  · rcases ifFlag_inv defs rcv h with ⟨hfl, _⟩ | ⟨_, h⟩
    · simp at hfl
    · obtain ⟨s3, h3, _, h, hc⟩ := seq_inv defs rcv h hc
      rcases eatIf_inv defs rcv h3 with ⟨hk2, s4, he, rfl⟩ | ⟨hk2, rfl⟩
      · rcases ifFlag_inv defs rcv h with ⟨_, h⟩ | ⟨hfl, _⟩
        · obtain ⟨k1, a1, _⟩ := eat_plain (s := { s.startNode .Integer with flag := false }) hk2 (by decide) he
          obtain ⟨k2, a2, _⟩ := finRet_inv h hc
          exact ⟨true, by rw [k2]; exact k1, by rw [a2]; exact a1⟩
        · simp at hfl
      · rcases ifFlag_inv defs rcv h with ⟨hfl, _⟩ | ⟨_, h⟩
        · simp at hfl
        · obtain ⟨_, _, f2⟩ := finRet_inv h hc
          rw [f2] at hf; cases hf

/-- `identifier` on a clean run that answers `true` -/
theorem identifier_inv {n : Nat} {s s' : PState}
    (h : exec defs rcv (n+8) (call .identifier) s = .ok s') (hc : Clean s s') (hf : s'.flag = true) :
    s.kinds = TokenKind.Id :: s'.kinds ∧ s'.afterError = false := by
  have h := call_inv defs rcv h
  simp only [defs, leaf1, seqs, ifEatIf] at h
  obtain ⟨s1, h1, _, h, hc⟩ := seq_inv defs rcv h hc
  have e1 := startNode_inv defs rcv h1; subst e1
  obtain ⟨s2, h2, _, h, hc⟩ := seq_inv defs rcv h hc
  rcases eatIf_inv defs rcv h2 with ⟨hk, s3, he, rfl⟩ | ⟨hk, rfl⟩
  · rcases ifFlag_inv defs rcv h with ⟨_, h⟩ | ⟨hfl, _⟩
    · obtain ⟨k1, a1, _⟩ := eat_plain (s := s.startNode .Identifier) hk (by decide) he
      obtain ⟨k2, a2, _⟩ := finRet_inv h hc
      exact ⟨by rw [k2]; exact k1, by rw [a2]; exact a1⟩
    · simp at hfl
  · rcases ifFlag_inv defs rcv h with ⟨hfl, _⟩ | ⟨_, h⟩
    · simp at hfl
    · obtain ⟨_, _, f2⟩ := finRet_inv h hc
      rw [f2] at hf; cases hf

/-- `x.or_error(msg)` on a clean run: `x` answered `true` -/
theorem orError_inv {n : Nat} {p : Prog} {msg : String} {s s' : PState}
    (h : exec defs rcv (n+3) (orError p msg) s = .ok s') (hc : Clean s s') :
    exec defs rcv (n+2) p s = .ok s' ∧ s'.flag = true := by
  simp only [orError] at h
  obtain ⟨s1, h1, c1, h, hc⟩ := seq_inv defs rcv h hc
  rcases ifFlag_inv defs rcv h with ⟨hfl, h⟩ | ⟨_, h⟩
  · have e := nop_inv defs rcv h; subst e
    exact ⟨h1, hfl⟩
  · exact (error_inv defs rcv h hc).elim

theorem bits_type_inv {n : Nat} {s s' : PState}
    (h : exec defs rcv (n+20) (call .bits_type) s = .ok s') (hc : Clean s s') :
    ∃ b, s.kinds = (Ty.bits b).render ++ s'.kinds ∧ s'.afterError = false := by
  have h := call_inv defs rcv h
  simp only [defs, seqs] at h
  obtain ⟨s1, h1, _, h, hc⟩ := seq_inv defs rcv h hc
  have e1 := startNode_inv defs rcv h1; subst e1
  obtain ⟨s2, h2, _, h, hc⟩ := seq_inv defs rcv h hc
  obtain ⟨hk2, he2⟩ := assertTok_inv defs rcv h2
  obtain ⟨k2, a2, _⟩ := eat_plain (s := s.startNode .BitsType) hk2 (by decide) he2
  obtain ⟨s3, h3, c3, h, hc⟩ := seq_inv defs rcv h hc
  obtain ⟨hk3, he3⟩ := expect_inv defs rcv h3 c3 a2
  obtain ⟨k3, a3, _⟩ := eat_plain hk3 (by decide) he3
  obtain ⟨s4, h4, c4, h, hc⟩ := seq_inv defs rcv h hc
  obtain ⟨h4, f4⟩ := orError_inv h4 c4
  obtain ⟨b, k4, a4⟩ := integer_inv h4 c4 f4
  obtain ⟨s5, h5, c5, h, hc⟩ := seq_inv defs rcv h hc
  obtain ⟨hk5, he5⟩ := expect_inv defs rcv h5 c5 a4
  obtain ⟨k5, a5, _⟩ := eat_plain hk5 (by decide) he5
  obtain ⟨k6, a6, _, _⟩ := finishNode_same (finishNode_inv defs rcv h)
  refine ⟨b, ?_, by rw [a6, a5]⟩
  show s.kinds = _
  have : (s.startNode SyntaxKind.BitsType).kinds = s.kinds := rfl
  rw [← this, k2, k3, k4, k5, k6]; rfl

theorem class_id_inv {n : Nat} {s s' : PState}
    (h : exec defs rcv (n+20) (call .class_id) s = .ok s') (hc : Clean s s') :
    s.kinds = Ty.cls.render ++ s'.kinds ∧ s'.afterError = false := by
  have h := call_inv defs rcv h
  simp only [defs, seqs] at h
  obtain ⟨s1, h1, _, h, hc⟩ := seq_inv defs rcv h hc
  have e1 := startNode_inv defs rcv h1; subst e1
  obtain ⟨s2, h2, c2, h, hc⟩ := seq_inv defs rcv h hc
  obtain ⟨h2, f2⟩ := orError_inv h2 c2
  obtain ⟨k2, a2⟩ := identifier_inv h2 c2 f2
  obtain ⟨k3, a3, _, _⟩ := finishNode_same (finishNode_inv defs rcv h)
  refine ⟨?_, by rw [a3, a2]⟩
  have : (s.startNode SyntaxKind.ClassId).kinds = s.kinds := rfl
  rw [← this, k2, k3]; rfl

/-- **converse for types**: a clean run of `type_` consumed the rendering of a `Ty` -/
theorem type_inv : ∀ (L n : Nat) (s s' : PState), s.kinds.length ≤ L →
    exec defs rcv n (call .type_) s = .ok s' → Clean s s' →
    ∃ t : Ty, s.kinds = t.render ++ s'.kinds ∧ s'.afterError = false := by
  intro L
  induction L with
  | zero =>
    intro n s s' hL h hc
    -- no tokens: `type_` reports
    have h := Progress.exec_mono defs rcv n _ _ _ h (by simp) (n + 40) (by omega)
    have h := call_inv defs rcv h
    simp only [defs, matchPeek, typeArms] at h
    have hk : s.kinds = [] := List.length_eq_zero_iff.mp (Nat.le_zero.mp hL)
    have key : ∀ {m : Nat} {k : TokenKind} {node : SyntaxKind}, plain k = true →
        exec defs rcv (m+4) (keywordType node k) s = .ok s' → False := by
      intro m k node hp hh
      have := (keywordType_inv hp hh hc).1
      rw [hk] at this; cases this
    rcases ifAt_inv defs rcv h with ⟨_, h⟩ | ⟨_, h⟩
    · have h := call_inv defs rcv h; simp only [defs] at h; exact (key (by decide) h).elim
    rcases ifAt_inv defs rcv h with ⟨_, h⟩ | ⟨_, h⟩
    · have h := call_inv defs rcv h; simp only [defs] at h; exact (key (by decide) h).elim
    rcases ifAt_inv defs rcv h with ⟨_, h⟩ | ⟨_, h⟩
    · have h := call_inv defs rcv h; simp only [defs] at h; exact (key (by decide) h).elim
    rcases ifAt_inv defs rcv h with ⟨_, h⟩ | ⟨_, h⟩
    · have h := call_inv defs rcv h; simp only [defs] at h; exact (key (by decide) h).elim
    rcases ifAt_inv defs rcv h with ⟨_, h⟩ | ⟨_, h⟩
    · obtain ⟨b, k1, _⟩ := bits_type_inv h hc
      rw [hk] at k1; cases k1
    rcases ifAt_inv defs rcv h with ⟨_, h⟩ | ⟨_, h⟩
    · have h := call_inv defs rcv h
      simp only [defs, seqs] at h
      obtain ⟨s1, h1, _, h, hc⟩ := seq_inv defs rcv h hc
      have e1 := startNode_inv defs rcv h1; subst e1
      obtain ⟨s2, h2, _, h, hc⟩ := seq_inv defs rcv h hc
      obtain ⟨hk2, he2⟩ := assertTok_inv defs rcv h2
      obtain ⟨k2, _, _⟩ := eat_plain (s := s.startNode .ListType) hk2 (by decide) he2
      have : (s.startNode SyntaxKind.ListType).kinds = s.kinds := rfl
      rw [this, hk] at k2; cases k2
    rcases ifAt_inv defs rcv h with ⟨_, h⟩ | ⟨_, h⟩
    · have h := call_inv defs rcv h; simp only [defs] at h; exact (key (by decide) h).elim
    rcases ifAt_inv defs rcv h with ⟨_, h⟩ | ⟨_, h⟩
    · obtain ⟨k1, _⟩ := class_id_inv h hc
      rw [hk] at k1; cases k1
    exact (errorAndRecover_inv defs rcv h hc).elim
  | succ L ih =>
    intro n s s' hL h hc
    have h := Progress.exec_mono defs rcv n _ _ _ h (by simp) (n + 40) (by omega)
    have h := call_inv defs rcv h
    simp only [defs, matchPeek, typeArms] at h
    rcases ifAt_inv defs rcv h with ⟨_, h⟩ | ⟨_, h⟩
    · have h := call_inv defs rcv h; simp only [defs] at h
      obtain ⟨k1, a1⟩ := keywordType_inv (by decide) h hc
      exact ⟨.bit, k1, a1⟩
    rcases ifAt_inv defs rcv h with ⟨_, h⟩ | ⟨_, h⟩
    · have h := call_inv defs rcv h; simp only [defs] at h
      obtain ⟨k1, a1⟩ := keywordType_inv (by decide) h hc
      exact ⟨.int, k1, a1⟩
    rcases ifAt_inv defs rcv h with ⟨_, h⟩ | ⟨_, h⟩
    · have h := call_inv defs rcv h; simp only [defs] at h
      obtain ⟨k1, a1⟩ := keywordType_inv (by decide) h hc
      exact ⟨.string, k1, a1⟩
    rcases ifAt_inv defs rcv h with ⟨_, h⟩ | ⟨_, h⟩
    · have h := call_inv defs rcv h; simp only [defs] at h
      obtain ⟨k1, a1⟩ := keywordType_inv (by decide) h hc
      exact ⟨.dag, k1, a1⟩
    rcases ifAt_inv defs rcv h with ⟨_, h⟩ | ⟨_, h⟩
    · obtain ⟨b, k1, a1⟩ := bits_type_inv h hc
      exact ⟨.bits b, k1, a1⟩
    rcases ifAt_inv defs rcv h with ⟨_, h⟩ | ⟨_, h⟩
    · have h := call_inv defs rcv h
      simp only [defs, seqs] at h
      obtain ⟨s1, h1, _, h, hc⟩ := seq_inv defs rcv h hc
      have e1 := startNode_inv defs rcv h1; subst e1
      obtain ⟨s2, h2, _, h, hc⟩ := seq_inv defs rcv h hc
      obtain ⟨hk2, he2⟩ := assertTok_inv defs rcv h2
      obtain ⟨k2, a2, _⟩ := eat_plain (s := s.startNode .ListType) hk2 (by decide) he2
      obtain ⟨s3, h3, c3, h, hc⟩ := seq_inv defs rcv h hc
      obtain ⟨hk3, he3⟩ := expect_inv defs rcv h3 c3 a2
      obtain ⟨k3, a3, _⟩ := eat_plain hk3 (by decide) he3
      obtain ⟨s4, h4, c4, h, hc⟩ := seq_inv defs rcv h hc
      have hs : (s.startNode SyntaxKind.ListType).kinds = s.kinds := rfl
      have hlen : s3.kinds.length ≤ L := by
        have := congrArg List.length k2
        rw [hs, k3] at this
        simp only [List.length_cons] at this
        omega
      obtain ⟨t, k4, a4⟩ := ih _ s3 s4 hlen h4 c4
      obtain ⟨s5, h5, c5, h, hc⟩ := seq_inv defs rcv h hc
      obtain ⟨hk5, he5⟩ := expect_inv defs rcv h5 c5 a4
      obtain ⟨k5, a5, _⟩ := eat_plain hk5 (by decide) he5
      obtain ⟨k6, a6, _, _⟩ := finishNode_same (finishNode_inv defs rcv h)
      refine ⟨.list t, ?_, by rw [a6, a5]⟩
      rw [← hs, k2, k3, k4, k5, k6]
      simp [Ty.render]
    rcases ifAt_inv defs rcv h with ⟨_, h⟩ | ⟨_, h⟩
    · have h := call_inv defs rcv h; simp only [defs] at h
      obtain ⟨k1, a1⟩ := keywordType_inv (by decide) h hc
      exact ⟨.code, k1, a1⟩
    rcases ifAt_inv defs rcv h with ⟨_, h⟩ | ⟨_, h⟩
    · obtain ⟨k1, a1⟩ := class_id_inv h hc
      exact ⟨.cls, k1, a1⟩
    exact (errorAndRecover_inv defs rcv h hc).elim

theorem type_converse_partial (fuel : Nat) (s s' : PState) (input : List Char) (_hinv : Inv input s)
    (h : exec defs Tables.recoverTokens fuel (.call .type_) s = .ok s') (hclean : s'.errors = s.errors) :
    ∃ t : Frag.Ty, s.kinds = t.render ++ s'.kinds ∧ (t.usesCode = false → Doc.Derives (.nt .Type_) t.render) := by
  obtain ⟨t, hk, _⟩ := type_inv s.kinds.length fuel s s' (Nat.le_refl _) h (by unfold Clean; rw [hclean]; exact Nat.le_refl _)
  exact ⟨t, hk, d_type t⟩

end

end C04L
end Tg
