/-
A pass over the indexer model for relations between the state before and after a successful run (`Keeps`),
in which the case of `include` is a HYPOTHESIS about the particular `Rec` (`hinc`) instead of a field of the
class of relations - like `IdeInclPass.lean`, but with the finer steps `SmStepC` of the symbol map (so that
`ContRel` is an instance).  Script-generated from `IdeSemKeeps.lean` / `IdeSemKeepsB.lean`: the class
`CoreRel` is replaced by `Inc2.CoreRel` (no `incl`), the lemmas are otherwise the same.
-/
import TgModel.Lemmas.IdeSemKeepsB

namespace Tg
namespace Ide
namespace Inc2

/-- the steps of the `SymMap` API as the indexer performs them, drawing an anonymous name, reporting a diagnostic -/
class CoreRel (R : IndexCtx → IndexCtx → Prop) : Prop extends KeepRel R where
  sm : ∀ c sm', SmStepC c.symbolMap sm' → R c { c with symbolMap := sm' }
  anon : Keeps R nextAnonymousDefName
  error : ∀ rg msg, Keeps R (error rg msg)

set_option linter.unusedSectionVars false

section prims0
variable {R : IndexCtx → IndexCtx → Prop} [KeepRel R]

theorem currentFileId_keeps : Keeps R currentFileId := by
  unfold currentFileId panic
  keeps
macro_rules | `(tactic| keeps_prim) => `(tactic| exact currentFileId_keeps)

theorem panic_keeps {α : Type} (msg : String) : Keeps R (panic msg : IxM α) := Keeps.throw _
macro_rules | `(tactic| keeps_prim) => `(tactic| exact panic_keeps _)

end prims0

section prims
variable {R : IndexCtx → IndexCtx → Prop} [CoreRel R]

theorem resolveId_keeps (name : String) : Keeps R (resolveId name) := by
  unfold resolveId
  keeps
macro_rules | `(tactic| keeps_prim) => `(tactic| exact resolveId_keeps _)

theorem error_keeps (rg : Nat × Nat) (msg : String) : Keeps R (error rg msg) := CoreRel.error rg msg
macro_rules | `(tactic| keeps_prim) => `(tactic| exact error_keeps _ _)

theorem nextAnonymousDefName_keeps : Keeps R nextAnonymousDefName := CoreRel.anon
macro_rules | `(tactic| keeps_prim) => `(tactic| exact nextAnonymousDefName_keeps)

theorem currentRecordId_keeps : Keeps R currentRecordId := by unfold currentRecordId; keeps
theorem currentDefsetId_keeps : Keeps R currentDefsetId := by unfold currentDefsetId; keeps
theorem currentMulticlassId_keeps : Keeps R currentMulticlassId := by unfold currentMulticlassId; keeps
theorem currentDefmId_keeps : Keeps R currentDefmId := by unfold currentDefmId; keeps
macro_rules | `(tactic| keeps_prim) => `(tactic| exact currentRecordId_keeps)
macro_rules | `(tactic| keeps_prim) => `(tactic| exact currentDefsetId_keeps)
macro_rules | `(tactic| keeps_prim) => `(tactic| exact currentMulticlassId_keeps)
macro_rules | `(tactic| keeps_prim) => `(tactic| exact currentDefmId_keeps)

theorem withSM_keeps {α : Type} (f : SymMap → α) : Keeps R (withSM f) := by
  unfold withSM
  keeps
macro_rules | `(tactic| keeps_prim) => `(tactic| exact withSM_keeps _)

theorem canBeCastedTo_keeps (a b : Ty) : Keeps R (canBeCastedTo a b) := withSM_keeps _
macro_rules | `(tactic| keeps_prim) => `(tactic| exact canBeCastedTo_keeps _ _)

/-- `modifySM` with a function whose effect is one API step -/
theorem modifySM_keeps {α : Type} (f : SymMap → α × SymMap) (hf : ∀ sm, SmStepC sm (f sm).2) :
    Keeps R (modifySM f) :=
  Keeps.modifyGet _ fun c => CoreRel.sm c _ (hf c.symbolMap)

theorem addRecord_keeps (r : Record) (g : Bool) (hr : r.nameToRecordField = #[] ∧ r.nameToTemplateArg = #[]) :
    Keeps R (addRecord r g) :=
  modifySM_keeps _ fun sm => .addRecord sm r g hr
theorem addAnonymousDef_keeps (r : Record) (hr : r.nameToRecordField = #[] ∧ r.nameToTemplateArg = #[]) :
    Keeps R (addAnonymousDef r) :=
  modifySM_keeps _ fun sm => .addAnonymousDef sm r hr
theorem addMulticlassDef_keeps (r : Record) (hr : r.nameToRecordField = #[] ∧ r.nameToTemplateArg = #[]) :
    Keeps R (addMulticlassDef r) :=
  modifySM_keeps _ fun sm => .addMulticlassDef sm r hr
theorem registerDefsetName_keeps (id : Nat) : Keeps R (registerDefsetName id) :=
  modifySM_keeps _ fun sm => .registerDefsetName sm id
theorem addTemplateArgument_keeps (a : TemplateArgument) : Keeps R (addTemplateArgument a) :=
  modifySM_keeps _ fun sm => .addTemplateArgument sm a
theorem addRecordField_keeps (f : RecordField) : Keeps R (addRecordField f) :=
  modifySM_keeps _ fun sm => .addRecordField sm f
theorem addVariable_keeps (v : Variable) : Keeps R (addVariable v) :=
  modifySM_keeps _ fun sm => .addVariable sm v
theorem addDefset_keeps (d : Defset) : Keeps R (addDefset d) :=
  modifySM_keeps _ fun sm => .addDefset sm d
theorem addMulticlass_keeps (m : Multiclass) (hm : m.nameToTemplateArg = #[]) : Keeps R (addMulticlass m) :=
  modifySM_keeps _ fun sm => .addMulticlass sm m hm
theorem addDefm_keeps (d : Defm) (g : Bool) : Keeps R (addDefm d g) :=
  modifySM_keeps _ fun sm => .addDefm sm d g
theorem addAnonymousDefm_keeps (d : Defm) : Keeps R (addAnonymousDefm d) :=
  modifySM_keeps _ fun sm => .addAnonymousDefm sm d
theorem addReference_keeps (s : SymbolId) (loc : FileRange) : Keeps R (addReference s loc) :=
  modifySM_keeps _ fun sm => .addReference sm s loc
macro_rules | `(tactic| keeps_prim) => `(tactic| exact addRecord_keeps _ _ ⟨rfl, rfl⟩)
macro_rules | `(tactic| keeps_prim) => `(tactic| exact addAnonymousDef_keeps _ ⟨rfl, rfl⟩)
macro_rules | `(tactic| keeps_prim) => `(tactic| exact addMulticlassDef_keeps _ ⟨rfl, rfl⟩)
macro_rules | `(tactic| keeps_prim) => `(tactic| exact registerDefsetName_keeps _)
macro_rules | `(tactic| keeps_prim) => `(tactic| exact addTemplateArgument_keeps _)
macro_rules | `(tactic| keeps_prim) => `(tactic| exact addRecordField_keeps _)
macro_rules | `(tactic| keeps_prim) => `(tactic| exact addVariable_keeps _)
macro_rules | `(tactic| keeps_prim) => `(tactic| exact addDefset_keeps _)
macro_rules | `(tactic| keeps_prim) => `(tactic| exact addMulticlass_keeps _ rfl)
macro_rules | `(tactic| keeps_prim) => `(tactic| exact addDefm_keeps _ _)
macro_rules | `(tactic| keeps_prim) => `(tactic| exact addAnonymousDefm_keeps _)
macro_rules | `(tactic| keeps_prim) => `(tactic| exact addReference_keeps _ _)

theorem recordMut_keeps (id : Nat) (f : Record → Record)
    (hf : ∀ r, (f r).name = r.name ∧ (f r).defineLoc = r.defineLoc)
    (hc : ∀ r, (f r).nameToRecordField = r.nameToRecordField ∧ (f r).nameToTemplateArg = r.nameToTemplateArg) :
    Keeps R (recordMut id f) :=
  modifySM_keeps _ fun sm => .recordMut sm id f hf hc
theorem multiclassMut_keeps (id : Nat) (f : Multiclass → Multiclass)
    (hf : ∀ r, (f r).name = r.name ∧ (f r).defineLoc = r.defineLoc)
    (hc : ∀ r, (f r).nameToTemplateArg = r.nameToTemplateArg) : Keeps R (multiclassMut id f) :=
  modifySM_keeps _ fun sm => .multiclassMut sm id f hf hc
theorem defmMut_keeps (id : Nat) (f : Defm → Defm)
    (hf : ∀ r, (f r).name = r.name ∧ (f r).defineLoc = r.defineLoc) : Keeps R (defmMut id f) :=
  modifySM_keeps _ fun sm => .defmMut sm id f hf
theorem defsetMut_keeps (id : Nat) (f : Defset → Defset)
    (hf : ∀ r, (f r).name = r.name ∧ (f r).defineLoc = r.defineLoc) : Keeps R (defsetMut id f) :=
  modifySM_keeps _ fun sm => .defsetMut sm id f hf
macro_rules | `(tactic| keeps_prim) => `(tactic| exact recordMut_keeps _ _ (fun _ => ⟨rfl, rfl⟩) (fun _ => ⟨rfl, rfl⟩))
macro_rules | `(tactic| keeps_prim) => `(tactic| exact multiclassMut_keeps _ _ (fun _ => ⟨rfl, rfl⟩) (fun _ => rfl))
macro_rules | `(tactic| keeps_prim) => `(tactic| exact defmMut_keeps _ _ (fun _ => ⟨rfl, rfl⟩))
macro_rules | `(tactic| keeps_prim) => `(tactic| exact defsetMut_keeps _ _ (fun _ => ⟨rfl, rfl⟩))

theorem utilsIdentifier_keeps (n : PTree) : Keeps R (utilsIdentifier n) := by
  unfold utilsIdentifier
  keeps
macro_rules | `(tactic| keeps_prim) => `(tactic| exact utilsIdentifier_keeps _)

theorem scopesAddVariable_keeps [VarRel R] (v : Variable) : Keeps R (scopesAddVariable v) :=
  VarRel.addVariable v
macro_rules | `(tactic| keeps_prim) => `(tactic| exact scopesAddVariable_keeps _)

/-! registering an allocated field / template argument in its record or multiclass -/

theorem addRecordField_id (f : RecordField) (c c3 : IndexCtx) (id : Nat) (h3 : (addRecordField f).run c = .ok (id, c3)) :
    R c c3 ∧ id < c3.symbolMap.recordFieldList.size := by
  have e3 : (addRecordField f).run c = .ok ((c.symbolMap.addRecordField f).1,
      { c with symbolMap := (c.symbolMap.addRecordField f).2 }) := rfl
  rw [e3] at h3
  cases h3
  exact ⟨CoreRel.sm c _ (.addRecordField c.symbolMap f), by simp [SymMap.addRecordField, SymMap.logDefine]⟩

theorem addTemplateArgument_id (a : TemplateArgument) (c c3 : IndexCtx) (id : Nat)
    (h3 : (addTemplateArgument a).run c = .ok (id, c3)) :
    R c c3 ∧ id < c3.symbolMap.templateArgList.size := by
  have e3 : (addTemplateArgument a).run c = .ok ((c.symbolMap.addTemplateArgument a).1,
      { c with symbolMap := (c.symbolMap.addTemplateArgument a).2 }) := rfl
  rw [e3] at h3
  cases h3
  exact ⟨CoreRel.sm c _ (.addTemplateArgument c.symbolMap a), by simp [SymMap.addTemplateArgument, SymMap.logDefine]⟩

theorem insertField_step (rid : Nat) (name : String) (id : Nat) (c c4 : IndexCtx) (hid : id < c.symbolMap.recordFieldList.size)
    (h4 : (recordMut rid fun rec => { rec with nameToRecordField := indexMapInsert rec.nameToRecordField name id }).run c =
      .ok ((), c4)) : R c c4 := by
  have e4 : (recordMut rid fun rec => { rec with nameToRecordField := indexMapInsert rec.nameToRecordField name id }).run c
      = .ok ((), _) := rfl
  rw [e4] at h4
  cases h4
  exact CoreRel.sm c _ (.insertField _ rid name id hid)

theorem insertTARecord_step (rid : Nat) (name : String) (id : Nat) (c c4 : IndexCtx)
    (hid : id < c.symbolMap.templateArgList.size)
    (h4 : (recordMut rid fun rec => { rec with nameToTemplateArg := indexMapInsert rec.nameToTemplateArg name id }).run c =
      .ok ((), c4)) : R c c4 := by
  have e4 : (recordMut rid fun rec => { rec with nameToTemplateArg := indexMapInsert rec.nameToTemplateArg name id }).run c
      = .ok ((), _) := rfl
  rw [e4] at h4
  cases h4
  exact CoreRel.sm c _ (.insertTARecord _ rid name id hid)

theorem insertTAMulticlass_step (mid : Nat) (name : String) (id : Nat) (c c4 : IndexCtx)
    (hid : id < c.symbolMap.templateArgList.size)
    (h4 : (multiclassMut mid fun mc => { mc with nameToTemplateArg := indexMapInsert mc.nameToTemplateArg name id }).run c =
      .ok ((), c4)) : R c c4 := by
  have e4 : (multiclassMut mid fun mc => { mc with nameToTemplateArg := indexMapInsert mc.nameToTemplateArg name id }).run c
      = .ok ((), _) := rfl
  rw [e4] at h4
  cases h4
  exact CoreRel.sm c _ (.insertTAMulticlass _ mid name id hid)

end prims

/-! ### the functions of `Bang.lean` and `Index.lean` that do not push or pop scopes -/

section passA
set_option linter.unusedSectionVars false
set_option linter.unusedVariables false
variable {R : IndexCtx → IndexCtx → Prop} [CoreRel R] {r : Rec}
  (hv : ∀ n, Keeps R (r.value n)) (ht : ∀ n, Keeps R (r.typ n))
include hv ht

theorem Bang.unexpectTypeAnnotation_keeps (a0 : _) : Keeps R (Bang.unexpectTypeAnnotation a0) := by
  unfold Bang.unexpectTypeAnnotation
  keeps
macro_rules | `(tactic| keeps_prim) => `(tactic| (apply Bang.unexpectTypeAnnotation_keeps <;> assumption))

theorem Bang.expectValues_keeps (a0 a1 a2 : _) : Keeps R (Bang.expectValues a0 a1 a2) := by
  unfold Bang.expectValues
  keeps
macro_rules | `(tactic| keeps_prim) => `(tactic| (apply Bang.expectValues_keeps <;> assumption))

theorem Bang.checkNext_keeps (a0 a1 a2 : _) : Keeps R (Bang.checkNext a0 a1 a2) := by
  unfold Bang.checkNext
  keeps
macro_rules | `(tactic| keeps_prim) => `(tactic| (apply Bang.checkNext_keeps <;> assumption))

theorem Bang.variableIdentifier_keeps (a0 : _) : Keeps R (Bang.variableIdentifier a0) := by
  unfold Bang.variableIdentifier
  keeps
macro_rules | `(tactic| keeps_prim) => `(tactic| (apply Bang.variableIdentifier_keeps <;> assumption))

theorem Bang.expectTypeAnnotation_keeps (a0 : _) : Keeps R (Bang.expectTypeAnnotation r a0) := by
  unfold Bang.expectTypeAnnotation
  keeps
macro_rules | `(tactic| keeps_prim) => `(tactic| (apply Bang.expectTypeAnnotation_keeps <;> assumption))

theorem Bang.indexValues_keeps (a0 : _) : Keeps R (Bang.indexValues r a0) := by
  unfold Bang.indexValues
  keeps
macro_rules | `(tactic| keeps_prim) => `(tactic| (apply Bang.indexValues_keeps <;> assumption))

theorem Bang.indexValuesAndCheckTypes_keeps (a0 a1 : _) : Keeps R (Bang.indexValuesAndCheckTypes r a0 a1) := by
  unfold Bang.indexValuesAndCheckTypes
  keeps
macro_rules | `(tactic| keeps_prim) => `(tactic| (apply Bang.indexValuesAndCheckTypes_keeps <;> assumption))

theorem Bang.arithN_keeps (a0 : _) : Keeps R (Bang.arithN r a0) := by
  unfold Bang.arithN
  keeps
macro_rules | `(tactic| keeps_prim) => `(tactic| (apply Bang.arithN_keeps <;> assumption))

theorem Bang.arith2_keeps (a0 : _) : Keeps R (Bang.arith2 r a0) := by
  unfold Bang.arith2
  keeps
macro_rules | `(tactic| keeps_prim) => `(tactic| (apply Bang.arith2_keeps <;> assumption))

theorem Bang.xCast_keeps (a0 : _) : Keeps R (Bang.xCast r a0) := by
  unfold Bang.xCast
  keeps
macro_rules | `(tactic| keeps_prim) => `(tactic| (apply Bang.xCast_keeps <;> assumption))

theorem Bang.xCon_keeps (a0 : _) : Keeps R (Bang.xCon r a0) := by
  unfold Bang.xCon
  keeps
macro_rules | `(tactic| keeps_prim) => `(tactic| (apply Bang.xCon_keeps <;> assumption))

theorem Bang.xDag_keeps (a0 : _) : Keeps R (Bang.xDag r a0) := by
  unfold Bang.xDag
  keeps
macro_rules | `(tactic| keeps_prim) => `(tactic| (apply Bang.xDag_keeps <;> assumption))

theorem Bang.xEmpty_keeps (a0 : _) : Keeps R (Bang.xEmpty r a0) := by
  unfold Bang.xEmpty
  keeps
macro_rules | `(tactic| keeps_prim) => `(tactic| (apply Bang.xEmpty_keeps <;> assumption))

theorem Bang.xEqNe_keeps (a0 : _) : Keeps R (Bang.xEqNe r a0) := by
  unfold Bang.xEqNe
  keeps
macro_rules | `(tactic| keeps_prim) => `(tactic| (apply Bang.xEqNe_keeps <;> assumption))

theorem Bang.xExists_keeps (a0 : _) : Keeps R (Bang.xExists r a0) := by
  unfold Bang.xExists
  keeps
macro_rules | `(tactic| keeps_prim) => `(tactic| (apply Bang.xExists_keeps <;> assumption))

theorem Bang.xFind_keeps (a0 : _) : Keeps R (Bang.xFind r a0) := by
  unfold Bang.xFind
  keeps
macro_rules | `(tactic| keeps_prim) => `(tactic| (apply Bang.xFind_keeps <;> assumption))

theorem Bang.xCompare_keeps (a0 : _) : Keeps R (Bang.xCompare r a0) := by
  unfold Bang.xCompare
  keeps
macro_rules | `(tactic| keeps_prim) => `(tactic| (apply Bang.xCompare_keeps <;> assumption))

theorem Bang.xGetDagArg_keeps (a0 : _) : Keeps R (Bang.xGetDagArg r a0) := by
  unfold Bang.xGetDagArg
  keeps
macro_rules | `(tactic| keeps_prim) => `(tactic| (apply Bang.xGetDagArg_keeps <;> assumption))

theorem Bang.xGetDagName_keeps (a0 : _) : Keeps R (Bang.xGetDagName r a0) := by
  unfold Bang.xGetDagName
  keeps
macro_rules | `(tactic| keeps_prim) => `(tactic| (apply Bang.xGetDagName_keeps <;> assumption))

theorem Bang.xGetDagOp_keeps (a0 : _) : Keeps R (Bang.xGetDagOp r a0) := by
  unfold Bang.xGetDagOp
  keeps
macro_rules | `(tactic| keeps_prim) => `(tactic| (apply Bang.xGetDagOp_keeps <;> assumption))

theorem Bang.xHead_keeps (a0 : _) : Keeps R (Bang.xHead r a0) := by
  unfold Bang.xHead
  keeps
macro_rules | `(tactic| keeps_prim) => `(tactic| (apply Bang.xHead_keeps <;> assumption))

theorem Bang.xIf_keeps (a0 : _) : Keeps R (Bang.xIf r a0) := by
  unfold Bang.xIf
  keeps
macro_rules | `(tactic| keeps_prim) => `(tactic| (apply Bang.xIf_keeps <;> assumption))

theorem Bang.xInitialized_keeps (a0 : _) : Keeps R (Bang.xInitialized r a0) := by
  unfold Bang.xInitialized
  keeps
macro_rules | `(tactic| keeps_prim) => `(tactic| (apply Bang.xInitialized_keeps <;> assumption))

theorem Bang.xInterleave_keeps (a0 : _) : Keeps R (Bang.xInterleave r a0) := by
  unfold Bang.xInterleave
  keeps
macro_rules | `(tactic| keeps_prim) => `(tactic| (apply Bang.xInterleave_keeps <;> assumption))

theorem Bang.xIsA_keeps (a0 : _) : Keeps R (Bang.xIsA r a0) := by
  unfold Bang.xIsA
  keeps
macro_rules | `(tactic| keeps_prim) => `(tactic| (apply Bang.xIsA_keeps <;> assumption))

theorem Bang.xListConcat_keeps (a0 : _) : Keeps R (Bang.xListConcat r a0) := by
  unfold Bang.xListConcat
  keeps
macro_rules | `(tactic| keeps_prim) => `(tactic| (apply Bang.xListConcat_keeps <;> assumption))

theorem Bang.xListFlatten_keeps (a0 : _) : Keeps R (Bang.xListFlatten r a0) := by
  unfold Bang.xListFlatten
  keeps
macro_rules | `(tactic| keeps_prim) => `(tactic| (apply Bang.xListFlatten_keeps <;> assumption))

theorem Bang.xListRemove_keeps (a0 : _) : Keeps R (Bang.xListRemove r a0) := by
  unfold Bang.xListRemove
  keeps
macro_rules | `(tactic| keeps_prim) => `(tactic| (apply Bang.xListRemove_keeps <;> assumption))

theorem Bang.xListSplat_keeps (a0 : _) : Keeps R (Bang.xListSplat r a0) := by
  unfold Bang.xListSplat
  keeps
macro_rules | `(tactic| keeps_prim) => `(tactic| (apply Bang.xListSplat_keeps <;> assumption))

theorem Bang.xLog2_keeps (a0 : _) : Keeps R (Bang.xLog2 r a0) := by
  unfold Bang.xLog2
  keeps
macro_rules | `(tactic| keeps_prim) => `(tactic| (apply Bang.xLog2_keeps <;> assumption))

theorem Bang.xNot_keeps (a0 : _) : Keeps R (Bang.xNot r a0) := by
  unfold Bang.xNot
  keeps
macro_rules | `(tactic| keeps_prim) => `(tactic| (apply Bang.xNot_keeps <;> assumption))

theorem Bang.xRange_keeps (a0 : _) : Keeps R (Bang.xRange r a0) := by
  unfold Bang.xRange
  keeps
macro_rules | `(tactic| keeps_prim) => `(tactic| (apply Bang.xRange_keeps <;> assumption))

theorem Bang.xRepr_keeps (a0 : _) : Keeps R (Bang.xRepr r a0) := by
  unfold Bang.xRepr
  keeps
macro_rules | `(tactic| keeps_prim) => `(tactic| (apply Bang.xRepr_keeps <;> assumption))

theorem Bang.xSetDagArg_keeps (a0 : _) : Keeps R (Bang.xSetDagArg r a0) := by
  unfold Bang.xSetDagArg
  keeps
macro_rules | `(tactic| keeps_prim) => `(tactic| (apply Bang.xSetDagArg_keeps <;> assumption))

theorem Bang.xSetDagName_keeps (a0 : _) : Keeps R (Bang.xSetDagName r a0) := by
  unfold Bang.xSetDagName
  keeps
macro_rules | `(tactic| keeps_prim) => `(tactic| (apply Bang.xSetDagName_keeps <;> assumption))

theorem Bang.xSetDagOp_keeps (a0 : _) : Keeps R (Bang.xSetDagOp r a0) := by
  unfold Bang.xSetDagOp
  keeps
macro_rules | `(tactic| keeps_prim) => `(tactic| (apply Bang.xSetDagOp_keeps <;> assumption))

theorem Bang.xSize_keeps (a0 : _) : Keeps R (Bang.xSize r a0) := by
  unfold Bang.xSize
  keeps
macro_rules | `(tactic| keeps_prim) => `(tactic| (apply Bang.xSize_keeps <;> assumption))

theorem Bang.xStrConcat_keeps (a0 : _) : Keeps R (Bang.xStrConcat r a0) := by
  unfold Bang.xStrConcat
  keeps
macro_rules | `(tactic| keeps_prim) => `(tactic| (apply Bang.xStrConcat_keeps <;> assumption))

theorem Bang.xSubst_keeps (a0 : _) : Keeps R (Bang.xSubst r a0) := by
  unfold Bang.xSubst
  keeps
macro_rules | `(tactic| keeps_prim) => `(tactic| (apply Bang.xSubst_keeps <;> assumption))

theorem Bang.xSubstr_keeps (a0 : _) : Keeps R (Bang.xSubstr r a0) := by
  unfold Bang.xSubstr
  keeps
macro_rules | `(tactic| keeps_prim) => `(tactic| (apply Bang.xSubstr_keeps <;> assumption))

theorem Bang.xTail_keeps (a0 : _) : Keeps R (Bang.xTail r a0) := by
  unfold Bang.xTail
  keeps
macro_rules | `(tactic| keeps_prim) => `(tactic| (apply Bang.xTail_keeps <;> assumption))

theorem Bang.xToLowerUpper_keeps (a0 : _) : Keeps R (Bang.xToLowerUpper r a0) := by
  unfold Bang.xToLowerUpper
  keeps
macro_rules | `(tactic| keeps_prim) => `(tactic| (apply Bang.xToLowerUpper_keeps <;> assumption))

theorem Index.sameFileDefset_keeps  : Keeps R (Index.sameFileDefset) := by
  unfold Index.sameFileDefset
  keeps
macro_rules | `(tactic| keeps_prim) => `(tactic| (apply Index.sameFileDefset_keeps <;> assumption))

theorem Index.defDefset_keeps  : Keeps R (Index.defDefset) := by
  unfold Index.defDefset
  keeps
macro_rules | `(tactic| keeps_prim) => `(tactic| (apply Index.defDefset_keeps <;> assumption))

theorem Index.checkTemplateArgs_keeps (a0 a1 a2 : _) : Keeps R (Index.checkTemplateArgs a0 a1 a2) := by
  unfold Index.checkTemplateArgs
  keeps
macro_rules | `(tactic| keeps_prim) => `(tactic| (apply Index.checkTemplateArgs_keeps <;> assumption))

theorem Index.templateArgsOf_keeps (a0 : _) : Keeps R (Index.templateArgsOf a0) := by
  unfold Index.templateArgsOf
  keeps
macro_rules | `(tactic| keeps_prim) => `(tactic| (apply Index.templateArgsOf_keeps <;> assumption))

theorem Index.indexNameValue_keeps (a0 : _) : Keeps R (Index.indexNameValue a0) := by
  unfold Index.indexNameValue
  keeps
macro_rules | `(tactic| keeps_prim) => `(tactic| (apply Index.indexNameValue_keeps <;> assumption))

theorem Index.indexIdentifierValue_keeps (a0 : _) : Keeps R (Index.indexIdentifierValue a0) := by
  unfold Index.indexIdentifierValue
  keeps
macro_rules | `(tactic| keeps_prim) => `(tactic| (apply Index.indexIdentifierValue_keeps <;> assumption))

theorem Index.indexAssert_keeps (a0 : _) : Keeps R (Index.indexAssert r a0) := by
  unfold Index.indexAssert
  keeps
macro_rules | `(tactic| keeps_prim) => `(tactic| (apply Index.indexAssert_keeps <;> assumption))

variable [VarRel R] in
theorem Index.indexDefvar_keeps (a0 : _) : Keeps R (Index.indexDefvar r a0) := by
  unfold Index.indexDefvar
  keeps
macro_rules | `(tactic| keeps_prim) => `(tactic| (apply Index.indexDefvar_keeps <;> assumption))

theorem Index.indexDump_keeps (a0 : _) : Keeps R (Index.indexDump r a0) := by
  unfold Index.indexDump
  keeps
macro_rules | `(tactic| keeps_prim) => `(tactic| (apply Index.indexDump_keeps <;> assumption))

theorem Index.indexForeachIteratorInit_keeps (a0 : _) : Keeps R (Index.indexForeachIteratorInit r a0) := by
  unfold Index.indexForeachIteratorInit
  keeps
macro_rules | `(tactic| keeps_prim) => `(tactic| (apply Index.indexForeachIteratorInit_keeps <;> assumption))

theorem Index.indexForeachIterator_keeps (a0 : _) : Keeps R (Index.indexForeachIterator r a0) := by
  unfold Index.indexForeachIterator
  keeps
macro_rules | `(tactic| keeps_prim) => `(tactic| (apply Index.indexForeachIterator_keeps <;> assumption))

theorem Index.indexLetItem_keeps (a0 : _) : Keeps R (Index.indexLetItem r a0) := by
  unfold Index.indexLetItem
  keeps
macro_rules | `(tactic| keeps_prim) => `(tactic| (apply Index.indexLetItem_keeps <;> assumption))

theorem Index.indexLetList_keeps (a0 : _) : Keeps R (Index.indexLetList r a0) := by
  unfold Index.indexLetList
  keeps
macro_rules | `(tactic| keeps_prim) => `(tactic| (apply Index.indexLetList_keeps <;> assumption))

theorem Index.indexTemplateArgDecl_keeps (a0 : _) : Keeps R (Index.indexTemplateArgDecl r a0) := by
  refine ⟨fun c a c' hrun => ?_⟩
  unfold Index.indexTemplateArgDecl at hrun
  split at hrun
  · rename_i nameNode _
    obtain ⟨x1, c1, h1, hrun⟩ := IxM.run_bind_ok hrun
    have r1 : R c c1 := (utilsIdentifier_keeps _).run _ _ _ h1
    split at hrun
    · rename_i name loc
      split at hrun
      · rename_i typNode _
        obtain ⟨x2, c2, h2, hrun⟩ := IxM.run_bind_ok hrun
        have r2 : R c c2 := KeepRel.trans r1 ((ht _).run _ _ _ h2)
        split at hrun
        · rename_i typ
          obtain ⟨tid, c3, h3, hrun⟩ := IxM.run_bind_ok hrun
          obtain ⟨r3', hid⟩ := addTemplateArgument_id (R := R) _ c2 c3 tid h3
          have r3 : R c c3 := KeepRel.trans r2 r3'
          obtain ⟨rid?, c4, h4, hrun⟩ := IxM.run_bind_ok hrun
          have e4 : currentRecordId.run c3 = .ok (c3.scopes.currentRecordId, c3) := rfl
          rw [e4] at h4
          cases h4
          cases hrid : c3.scopes.currentRecordId with
          | some recordId =>
            simp only [hrid] at hrun
            obtain ⟨_, c6, h6, hrun⟩ := IxM.run_bind_ok hrun
            have r6 : R c c6 := KeepRel.trans r3 (insertTARecord_step recordId name tid c3 c6 hid h6)
            refine KeepRel.trans r6 ((?_ : Keeps R _).run _ _ _ hrun)
            keeps
          | none =>
            simp only [hrid] at hrun
            obtain ⟨mid?, c5, h5, hrun⟩ := IxM.run_bind_ok hrun
            have e5 : currentMulticlassId.run c3 = .ok (c3.scopes.currentMulticlassId, c3) := rfl
            rw [e5] at h5
            cases h5
            cases hmid : c3.scopes.currentMulticlassId with
            | some mcId =>
              simp only [hmid] at hrun
              obtain ⟨_, c6, h6, hrun⟩ := IxM.run_bind_ok hrun
              have r6 : R c c6 := KeepRel.trans r3 (insertTAMulticlass_step mcId name tid c3 c6 hid h6)
              refine KeepRel.trans r6 ((?_ : Keeps R _).run _ _ _ hrun)
              keeps
            | none =>
              simp only [hmid] at hrun
              obtain ⟨_, _, h6, _⟩ := IxM.run_bind_ok hrun
              cases h6
        · cases hrun; exact r2
      · cases hrun; exact r1
    · cases hrun; exact r1
  · cases hrun; exact KeepRel.refl _
macro_rules | `(tactic| keeps_prim) => `(tactic| (apply Index.indexTemplateArgDecl_keeps <;> assumption))

theorem Index.indexTemplateArgList_keeps (a0 : _) : Keeps R (Index.indexTemplateArgList r a0) := by
  unfold Index.indexTemplateArgList
  keeps
macro_rules | `(tactic| keeps_prim) => `(tactic| (apply Index.indexTemplateArgList_keeps <;> assumption))

theorem Index.indexArgValue_keeps (a0 : _) : Keeps R (Index.indexArgValue r a0) := by
  unfold Index.indexArgValue
  keeps
macro_rules | `(tactic| keeps_prim) => `(tactic| (apply Index.indexArgValue_keeps <;> assumption))

theorem Index.indexArgValueList_keeps (a0 : _) : Keeps R (Index.indexArgValueList r a0) := by
  unfold Index.indexArgValueList
  keeps
macro_rules | `(tactic| keeps_prim) => `(tactic| (apply Index.indexArgValueList_keeps <;> assumption))

theorem Index.resolveClassRefAsClass_keeps (a0 : _) : Keeps R (Index.resolveClassRefAsClass r a0) := by
  unfold Index.resolveClassRefAsClass
  keeps
macro_rules | `(tactic| keeps_prim) => `(tactic| (apply Index.resolveClassRefAsClass_keeps <;> assumption))

theorem Index.resolveClassRefAsMulticlass_keeps (a0 : _) : Keeps R (Index.resolveClassRefAsMulticlass r a0) := by
  unfold Index.resolveClassRefAsMulticlass
  keeps
macro_rules | `(tactic| keeps_prim) => `(tactic| (apply Index.resolveClassRefAsMulticlass_keeps <;> assumption))

theorem Index.namesClassOnly_keeps (a0 : _) : Keeps R (Index.namesClassOnly a0) := by
  unfold Index.namesClassOnly
  keeps
macro_rules | `(tactic| keeps_prim) => `(tactic| (apply Index.namesClassOnly_keeps <;> assumption))

theorem Index.multiclassParent_keeps (a0 a1 : _) : Keeps R (Index.multiclassParent r a0 a1) := by
  unfold Index.multiclassParent
  keeps
macro_rules | `(tactic| keeps_prim) => `(tactic| (apply Index.multiclassParent_keeps <;> assumption))

theorem Index.defmMulticlassParent_keeps (a0 a1 : _) : Keeps R (Index.defmMulticlassParent r a0 a1) := by
  unfold Index.defmMulticlassParent
  keeps
macro_rules | `(tactic| keeps_prim) => `(tactic| (apply Index.defmMulticlassParent_keeps <;> assumption))

theorem Index.indexParentClassList_keeps (a0 : _) : Keeps R (Index.indexParentClassList r a0) := by
  unfold Index.indexParentClassList
  keeps
macro_rules | `(tactic| keeps_prim) => `(tactic| (apply Index.indexParentClassList_keeps <;> assumption))

theorem Index.indexFieldDef_keeps (a0 : _) : Keeps R (Index.indexFieldDef r a0) := by
  refine ⟨fun c a c' hrun => ?_⟩
  unfold Index.indexFieldDef at hrun
  obtain ⟨x0, c0, h0, hrun⟩ := IxM.run_bind_ok hrun
  have r0 : R c c0 := currentRecordId_keeps.run _ _ _ h0
  split at hrun
  · rename_i recordId
    split at hrun
    · rename_i nameNode _
      obtain ⟨x1, c1, h1, hrun⟩ := IxM.run_bind_ok hrun
      have r1 : R c c1 := KeepRel.trans r0 ((utilsIdentifier_keeps _).run _ _ _ h1)
      split at hrun
      · rename_i name loc
        split at hrun
        · rename_i typNode _
          obtain ⟨x2, c2, h2, hrun⟩ := IxM.run_bind_ok hrun
          have r2 : R c c2 := KeepRel.trans r1 ((ht _).run _ _ _ h2)
          split at hrun
          · rename_i typ
            obtain ⟨fid, c3, h3, hrun⟩ := IxM.run_bind_ok hrun
            obtain ⟨r3', hid⟩ := addRecordField_id (R := R) _ c2 c3 fid h3
            obtain ⟨_, c4, h4, hrun⟩ := IxM.run_bind_ok hrun
            have r4 : R c c4 := KeepRel.trans (KeepRel.trans r2 r3') (insertField_step recordId name fid c3 c4 hid h4)
            refine KeepRel.trans r4 ((?_ : Keeps R _).run _ _ _ hrun)
            keeps
          · cases hrun; exact r2
        · cases hrun; exact r1
      · cases hrun; exact r1
    · cases hrun; exact r0
  · cases hrun
macro_rules | `(tactic| keeps_prim) => `(tactic| (apply Index.indexFieldDef_keeps <;> assumption))

theorem Index.indexFieldLet_keeps (a0 : _) : Keeps R (Index.indexFieldLet r a0) := by
  refine ⟨fun c a c' hrun => ?_⟩
  unfold Index.indexFieldLet at hrun
  split at hrun
  · rename_i nameNode _
    obtain ⟨x1, c1, h1, hrun⟩ := IxM.run_bind_ok hrun
    have r1 : R c c1 := (utilsIdentifier_keeps _).run _ _ _ h1
    split at hrun
    · rename_i name loc
      obtain ⟨x2, c2, h2, hrun⟩ := IxM.run_bind_ok hrun
      have r2 : R c c2 := KeepRel.trans r1 (currentRecordId_keeps.run _ _ _ h2)
      split at hrun
      · rename_i recordId
        obtain ⟨x3, c3, h3, hrun⟩ := IxM.run_bind_ok hrun
        have r3 : R c c3 := KeepRel.trans r2 ((withSM_keeps _).run _ _ _ h3)
        split at hrun
        · rename_i fieldId
          obtain ⟨fieldTyp, c4, h4, hrun⟩ := IxM.run_bind_ok hrun
          have r4 : R c c4 := KeepRel.trans r3 ((withSM_keeps _).run _ _ _ h4)
          obtain ⟨par, c5, h5, hrun⟩ := IxM.run_bind_ok hrun
          have r5 : R c c5 := KeepRel.trans r4 ((withSM_keeps _).run _ _ _ h5)
          by_cases hp : (par != recordId) = true
          · simp only [hp, if_true] at hrun
            obtain ⟨fid, c7, h7, hrun⟩ := IxM.run_bind_ok hrun
            obtain ⟨r7, hid⟩ := addRecordField_id (R := R) _ c5 c7 fid h7
            obtain ⟨_, c6, h8, hrun⟩ := IxM.run_bind_ok hrun
            have r6 : R c c6 :=
              KeepRel.trans (KeepRel.trans r5 r7) (insertField_step recordId name fid c7 c6 hid h8)
            refine KeepRel.trans r6 ((?_ : Keeps R _).run _ _ _ hrun)
            keeps
          · simp only [hp, Bool.false_eq_true, if_false] at hrun
            refine KeepRel.trans r5 ((?_ : Keeps R _).run _ _ _ hrun)
            keeps
        · refine KeepRel.trans r3 ((?_ : Keeps R _).run _ _ _ hrun)
          keeps
      · cases hrun
    · cases hrun; exact r1
  · cases hrun; exact KeepRel.refl _
macro_rules | `(tactic| keeps_prim) => `(tactic| (apply Index.indexFieldLet_keeps <;> assumption))

variable [VarRel R] in
theorem Index.indexBodyItem_keeps (a0 : _) : Keeps R (Index.indexBodyItem r a0) := by
  unfold Index.indexBodyItem
  keeps
macro_rules | `(tactic| keeps_prim) => `(tactic| (apply Index.indexBodyItem_keeps <;> assumption))

variable [VarRel R] in
theorem Index.indexBody_keeps (a0 : _) : Keeps R (Index.indexBody r a0) := by
  unfold Index.indexBody
  keeps
macro_rules | `(tactic| keeps_prim) => `(tactic| (apply Index.indexBody_keeps <;> assumption))

variable [VarRel R] in
theorem Index.indexRecordBody_keeps (a0 : _) : Keeps R (Index.indexRecordBody r a0) := by
  unfold Index.indexRecordBody
  keeps
macro_rules | `(tactic| keeps_prim) => `(tactic| (apply Index.indexRecordBody_keeps <;> assumption))

theorem Index.indexType_keeps (a0 : _) : Keeps R (Index.indexType r a0) := by
  unfold Index.indexType
  keeps
macro_rules | `(tactic| keeps_prim) => `(tactic| (apply Index.indexType_keeps <;> assumption))

theorem Index.indexClassValue_keeps (a0 : _) : Keeps R (Index.indexClassValue r a0) := by
  unfold Index.indexClassValue
  keeps
macro_rules | `(tactic| keeps_prim) => `(tactic| (apply Index.indexClassValue_keeps <;> assumption))

end passA

section passB
set_option maxHeartbeats 1600000
set_option linter.unusedSectionVars false
set_option linter.unusedVariables false
variable {R : IndexCtx → IndexCtx → Prop} [CoreRel R] [VarRel R] [BlockRel R] {r : Rec}
  (hv : ∀ n, Keeps R (r.value n)) (ht : ∀ n, Keeps R (r.typ n))
  (hsl : ∀ n, Keeps R (r.statementList n)) (hsf : ∀ n, Keeps R (r.sourceFile n))
  (hinc : ∀ n, Keeps R (Index.indexInclude r n))

omit [CoreRel R] [VarRel R] in
theorem scopesPush_keeps (k : ScopeKind) (hk : ∀ nm id, k ≠ ScopeKind.foreach nm id) : Keeps R (scopesPush k) :=
  BlockRel.push k hk
macro_rules | `(tactic| keeps_prim) => `(tactic| exact scopesPush_keeps _ (fun _ _ h => nomatch h))

omit [CoreRel R] [VarRel R] in
theorem scopesPop_keeps : Keeps R scopesPop := BlockRel.pop
macro_rules | `(tactic| keeps_prim) => `(tactic| exact scopesPop_keeps)

include hv ht hsl hsf hinc

theorem Bang.xFilter_keeps (a0 : _) : Keeps R (Bang.xFilter r a0) := by
  unfold Bang.xFilter
  keeps
macro_rules | `(tactic| keeps_prim) => `(tactic| (apply Bang.xFilter_keeps <;> assumption))

theorem Bang.xFoldl_keeps (a0 : _) : Keeps R (Bang.xFoldl r a0) := by
  unfold Bang.xFoldl
  keeps
macro_rules | `(tactic| keeps_prim) => `(tactic| (apply Bang.xFoldl_keeps <;> assumption))

theorem Bang.xForEach_keeps (a0 : _) : Keeps R (Bang.xForEach r a0) := by
  unfold Bang.xForEach
  keeps
macro_rules | `(tactic| keeps_prim) => `(tactic| (apply Bang.xForEach_keeps <;> assumption))

theorem Bang.indexBangOperator_keeps (a0 : _) : Keeps R (Bang.indexBangOperator r a0) := by
  unfold Bang.indexBangOperator
  keeps
macro_rules | `(tactic| keeps_prim) => `(tactic| (apply Bang.indexBangOperator_keeps <;> assumption))

theorem Index.indexSimpleValue_keeps (a0 : _) : Keeps R (Index.indexSimpleValue r a0) := by
  unfold Index.indexSimpleValue
  keeps
macro_rules | `(tactic| keeps_prim) => `(tactic| (apply Index.indexSimpleValue_keeps <;> assumption))

theorem Index.indexInnerValue_keeps (a0 : _) : Keeps R (Index.indexInnerValue r a0) := by
  unfold Index.indexInnerValue
  keeps
macro_rules | `(tactic| keeps_prim) => `(tactic| (apply Index.indexInnerValue_keeps <;> assumption))

theorem Index.indexValue_keeps (a0 : _) : Keeps R (Index.indexValue r a0) := by
  unfold Index.indexValue
  keeps
macro_rules | `(tactic| keeps_prim) => `(tactic| (apply Index.indexValue_keeps <;> assumption))

theorem Index.indexForeach_keeps (a0 : _) : Keeps R (Index.indexForeach r a0) :=
  BlockRel.foreach r hv ht hsl a0
macro_rules | `(tactic| keeps_prim) => `(tactic| (apply Index.indexForeach_keeps <;> assumption))

theorem Index.indexIf_keeps (a0 : _) : Keeps R (Index.indexIf r a0) := by
  unfold Index.indexIf
  keeps
macro_rules | `(tactic| keeps_prim) => `(tactic| (apply Index.indexIf_keeps <;> assumption))

theorem Index.indexLet_keeps (a0 : _) : Keeps R (Index.indexLet r a0) := by
  unfold Index.indexLet
  keeps
macro_rules | `(tactic| keeps_prim) => `(tactic| (apply Index.indexLet_keeps <;> assumption))

theorem Index.indexClass_keeps (a0 : _) : Keeps R (Index.indexClass r a0) := by
  unfold Index.indexClass
  keeps
macro_rules | `(tactic| keeps_prim) => `(tactic| (apply Index.indexClass_keeps <;> assumption))

theorem Index.indexDef_keeps (a0 : _) : Keeps R (Index.indexDef r a0) := by
  unfold Index.indexDef
  keeps
macro_rules | `(tactic| keeps_prim) => `(tactic| (apply Index.indexDef_keeps <;> assumption))

theorem Index.indexDefm_keeps (a0 : _) : Keeps R (Index.indexDefm r a0) := by
  unfold Index.indexDefm
  keeps
macro_rules | `(tactic| keeps_prim) => `(tactic| (apply Index.indexDefm_keeps <;> assumption))

theorem Index.indexDefset_keeps (a0 : _) : Keeps R (Index.indexDefset r a0) := by
  unfold Index.indexDefset
  keeps
macro_rules | `(tactic| keeps_prim) => `(tactic| (apply Index.indexDefset_keeps <;> assumption))

theorem Index.indexMultiClass_keeps (a0 : _) : Keeps R (Index.indexMultiClass r a0) := by
  unfold Index.indexMultiClass
  keeps
macro_rules | `(tactic| keeps_prim) => `(tactic| (apply Index.indexMultiClass_keeps <;> assumption))

theorem Index.indexInclude_keeps (a0 : _) : Keeps R (Index.indexInclude r a0) :=
  hinc a0
macro_rules | `(tactic| keeps_prim) => `(tactic| (apply Index.indexInclude_keeps <;> assumption))

theorem Index.indexStatement_keeps (a0 : _) : Keeps R (Index.indexStatement r a0) := by
  unfold Index.indexStatement
  keeps
macro_rules | `(tactic| keeps_prim) => `(tactic| (apply Index.indexStatement_keeps <;> assumption))

theorem Index.indexStatementList_keeps (a0 : _) : Keeps R (Index.indexStatementList r a0) := by
  unfold Index.indexStatementList
  keeps
macro_rules | `(tactic| keeps_prim) => `(tactic| (apply Index.indexStatementList_keeps <;> assumption))

theorem Index.indexSourceFile_keeps (a0 : _) : Keeps R (Index.indexSourceFile r a0) := by
  unfold Index.indexSourceFile
  keeps
macro_rules | `(tactic| keeps_prim) => `(tactic| (apply Index.indexSourceFile_keeps <;> assumption))

end passB

end Inc2
end Ide
end Tg
