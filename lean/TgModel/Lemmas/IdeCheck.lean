/-
Executable checkers for the tree-shape hypotheses (`BangOK`, `TriviaOK`, root is a `SourceFile`
node), sound w.r.t. the propositions; used for the non-vacuity examples (concrete parse trees are
checked by kernel evaluation).
-/
import TgModel.Lemmas.IdeWorkspace

namespace Tg
namespace Ide

/-- `p` holds for the tree and all its descendants (`fuel` > depth of the tree) -/
def allDesc (p : PTree → Bool) : Nat → PTree → Bool
  | 0, _ => false
  | fuel + 1, t => p t && t.children.all (allDesc p fuel)

theorem allDesc_desc (p : PTree → Bool) {a b : PTree} (hd : Desc a b) :
    ∀ fuel, allDesc p fuel a = true → ∃ fuel', allDesc p fuel' b = true := by
  induction hd with
  | refl => intro fuel h; exact ⟨fuel, h⟩
  | step _ hqd ih =>
    intro fuel h
    obtain ⟨f', hf'⟩ := ih fuel h
    cases f' with
    | zero => simp [allDesc] at hf'
    | succ f' =>
      simp only [allDesc, Bool.and_eq_true, Array.all_eq_true'] at hf'
      exact ⟨f', hf'.2 _ (by simpa using hqd)⟩

theorem allDesc_sound (p : PTree → Bool) (fuel : Nat) (root n : PTree) (h : allDesc p fuel root = true)
    (hd : Desc root n) : p n = true := by
  obtain ⟨f', hf'⟩ := allDesc_desc p hd fuel h
  cases f' with
  | zero => simp [allDesc] at hf'
  | succ f' => simp only [allDesc, Bool.and_eq_true] at hf'; exact hf'.1

def bangCheck (n : PTree) : Bool :=
  !(n.isNode && n.kind == .BangOperator) ||
    (match Ast.bangOperatorKind n with
     | some k => bangKinds.contains k
     | none => true)

def triviaCheck (n : PTree) : Bool :=
  !(n.isNode && (Tables.foldingKinds.contains n.kind || n.kind == .String)) ||
    (match n.firstToken with
     | some t => !t.kind.isTrivia
     | none => true)

def shapeCheck (t : PTree) : Bool :=
  t.isNode && t.kind == .SourceFile && allDesc (fun n => bangCheck n && triviaCheck n) (t.height + 2) t

theorem shapeCheck_sound {t : PTree} (h : shapeCheck t = true) : TreeShape t := by
  simp only [shapeCheck, Bool.and_eq_true, beq_iff_eq] at h
  obtain ⟨⟨h1, h2⟩, h3⟩ := h
  refine ⟨?_, ?_, h1, h2⟩
  · intro n hn hnode hkind k hk
    have := allDesc_sound _ _ _ _ h3 hn
    simp only [Bool.and_eq_true] at this
    have hb := this.1
    simp only [bangCheck, hnode, hkind, beq_self_eq_true, Bool.and_self, Bool.not_true, Bool.false_or, hk] at hb
    simpa using hb
  · intro A hA hnode hkind t' ht'
    have := allDesc_sound _ _ _ _ h3 hA
    simp only [Bool.and_eq_true] at this
    have hb := this.2
    have hk : (Tables.foldingKinds.contains A.kind || A.kind == .String) = true := by
      rcases hkind with hk | hk
      · rw [hk]; rfl
      · rw [hk]; simp
    simp only [triviaCheck, hnode, hk, Bool.and_self, Bool.not_true, Bool.false_or, ht'] at hb
    simpa using hb

/-- a one-file workspace from a green tree that passes the shape check -/
def wsOfTree (t : Tree) : Workspace :=
  { files := #[{ path := "a.td", tree := PTree.ofTree t, errors := [] }], root := 0, fileSet := [0] }

theorem wsOfTree_wf {t : Tree} (h : shapeCheck (PTree.ofTree t) = true) :
    (wsOfTree t).WF ∧ Index.Workspace.RootOK (wsOfTree t) ∧ ∀ f, TriviaOK ((wsOfTree t).tree f) := by
  refine wf_of_files (by simp [wsOfTree]) ?_ (by simp [wsOfTree])
  intro f hf
  have hf0 : f = 0 := by simp [wsOfTree] at hf; omega
  subst hf0
  refine ⟨⟨⟨t.text, (ofTree_spans t).1, (ofTree_spans t).2⟩, by intro e he; simp [wsOfTree] at he,
    shapeCheck_sound h⟩, by intro e he; simp [wsOfTree] at he⟩

end Ide
end Tg
