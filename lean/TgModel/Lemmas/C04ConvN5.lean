/-
C04 converse for whole statements (part 5): statement lists and the statements that contain statements
(`defset`, `let`, `foreach`, `if`, `multiclass`), by induction on the number of tokens left; then
`statement`, `source_file` and `parse`.
-/
import TgModel.Lemmas.C04ConvN4

namespace Tg
namespace C04L
open Prog Grammar Frag Doc

local notation "rcv" => Tables.recoverTokens

/-- induction hypothesis: the converse for `statement` on every state with fewer than `L` tokens left -/
def StmtH (input : List Char) (L : Nat) : Prop :=
  ∀ (n : Nat) (s s' : PState), s.kinds.length < L → Inv input s → exec defs rcv n (call .statement) s = .ok s' →
    Clean s s' → ∃ w, s.kinds = w ++ s'.kinds ∧ (Shape w → DS (.nt .Statement_) w)

/-- the same for an arbitrary item parser -/
def ItemH (input : List Char) (item : Prog) (A : E) (L : Nat) : Prop :=
  ∀ (n : Nat) (s s' : PState), s.kinds.length < L → Inv input s → exec defs rcv n item s = .ok s' →
    Clean s s' → ∃ w, s.kinds = w ++ s'.kinds ∧ (Shape w → DS A w)

theorem kinds_len_lt {s a : PState} {w : List TokenKind} (h : s.kinds = w ++ a.kinds) (hw : w ≠ []) :
    a.kinds.length < s.kinds.length := by
  rw [h, List.length_append]
  have : 0 < w.length := List.length_pos_iff.mpr hw
  omega

theorem kinds_len_le {s a : PState} {w : List TokenKind} (h : s.kinds = w ++ a.kinds) :
    a.kinds.length ≤ s.kinds.length := by
  rw [h, List.length_append]; omega

/-- `while !at(ks) && !eof { item }` -/
theorem while_loop (input : List Char) (item : Prog) (A : E) (L : Nat) (hItem : ItemH input item A L)
    (ks : List TokenKind) : ∀ (n : Nat) (s s' : PState), s.kinds.length < L → Inv input s →
    exec defs rcv n (whileNotAt ks item) s = .ok s' → Clean s s' →
    ∃ w, s.kinds = w ++ s'.kinds ∧ (Shape w → DS (.star A) w) := by
  intro n
  induction n with
  | zero => intro s s' _ _ h; simp [exec] at h
  | succ n ih =>
    intro s s' hl hi h hc
    simp only [whileNotAt] at h ih
    obtain ⟨s1, h1, c1, hcase⟩ := loop_inv h hc
    have h1 := lift_fuel h1 5
    rcases ifAt_inv defs rcv h1 with ⟨_, h1⟩ | ⟨_, h1⟩
    · have e1 := retB_inv defs rcv h1; subst e1
      rcases hcase with ⟨_, rfl⟩ | ⟨hf, _⟩
      · exact ⟨[], rfl, fun _ => DVN.starNil⟩
      · simp at hf
    · have e1 := retB_inv defs rcv h1; subst e1
      rcases hcase with ⟨hf, _⟩ | ⟨_, s2, hb, cb, hl2, cl⟩
      · simp at hf
      · have i1 : Inv input { s with flag := true } := inv_exec defs rcv input _ _ _ _ hi h1
        obtain ⟨w1, k1, d1⟩ := hItem _ ({ s with flag := true } : PState) _ hl i1 hb cb
        have k1' : s.kinds = w1 ++ s2.kinds := k1
        have i2 := inv_exec defs rcv input _ _ _ _ i1 hb
        obtain ⟨w2, k2, d2⟩ := ih _ _ (Nat.lt_of_le_of_lt (kinds_len_le k1') hl) i2 hl2 cl
        exact ⟨w1 ++ w2, by rw [k1', k2]; simp, fun hs => DVN.starCons (d1 hs.left) (d2 hs.right)⟩

/-- `"{" Statement* "}"` -/
def braceE : E := .seq (.tok [TokenKind.LBrace]) (.seq (.star (.nt .Statement_)) (.tok [TokenKind.RBrace]))

/-- `"{" Statement* "}" | Statement` -/
def sobE : E := .alt braceE (.nt .Statement_)

theorem block_inv (input : List Char) (L : Nat) (hS : StmtH input L) (n : Nat) (s s' : PState)
    (hl : s.kinds.length ≤ L) (hi : Inv input s) (h : exec defs rcv n (call .statement_list_block) s = .ok s')
    (hc : Clean s s') (ha : s.afterError = false) :
    ∃ w, s.kinds = w ++ s'.kinds ∧ (Shape w → DS braceE w) := by
  have h := call_inv defs rcv (lift_fuel h 40)
  simp only [defs, seqs] at h
  obtain ⟨s1, h1, _, h, hc⟩ := seq_inv defs rcv h hc
  have i1 := inv_exec defs rcv input _ _ _ _ hi h1
  have e1 := same_startNode h1
  obtain ⟨s2, h2, c2, h, hc⟩ := seq_inv defs rcv h hc
  have i2 := inv_exec defs rcv input _ _ _ _ i1 h2
  obtain ⟨k2, _, a2⟩ := skip_inv h2
  obtain ⟨s3, h3, c3, h, hc⟩ := seq_inv defs rcv h hc
  have i3 := inv_exec defs rcv input _ _ _ _ i2 h3
  obtain ⟨k3, a3⟩ := expect_clean (by decide) h3 c3 (a2 (by rw [e1.after]; exact ha))
  obtain ⟨s4, h4, c4, h, hc⟩ := seq_inv defs rcv h hc
  have k03 : s.kinds = [TokenKind.LBrace] ++ s3.kinds := by rw [← e1.kinds, ← k2, k3]; rfl
  have l3 : s3.kinds.length < L := Nat.lt_of_lt_of_le (kinds_len_lt k03 (by simp)) hl
  obtain ⟨ws, k4, d4⟩ := while_loop input _ _ L hS _ _ _ _ l3 i3 h4 c4
  have a4 := clean_afterError defs rcv h4 c4 a3
  obtain ⟨s5, h5, c5, h, _⟩ := seq_inv defs rcv h hc
  obtain ⟨k5, _⟩ := expect_clean (by decide) h5 c5 a4
  have e6 := same_finishNode h
  refine ⟨TokenKind.LBrace :: (ws ++ [TokenKind.RBrace]), ?_, ?_⟩
  · rw [k03, k4, k5, e6.kinds]; simp
  · intro hs
    have hw : Shape ws := Shape.infix (u := [TokenKind.LBrace]) (x := [TokenKind.RBrace]) (by simpa using hs)
    exact ds_tokSeq (DVN.seq (d4 hw) (ds_tok1 _))

theorem single_or_block_inv (input : List Char) (L : Nat) (hS : StmtH input L) (n : Nat) (s s' : PState)
    (hl : s.kinds.length < L) (hi : Inv input s)
    (h : exec defs rcv n (call .statement_list_single_or_block) s = .ok s') (hc : Clean s s')
    (ha : s.afterError = false) :
    ∃ w, s.kinds = w ++ s'.kinds ∧ (Shape w → DS sobE w) := by
  have h := call_inv defs rcv (lift_fuel h 40)
  simp only [defs, seqs, ifEatIf] at h
  obtain ⟨s1, h1, _, h, hc⟩ := seq_inv defs rcv h hc
  have i1 := inv_exec defs rcv input _ _ _ _ hi h1
  have e1 := same_startNode h1
  obtain ⟨s2, h2, c2, h, hc⟩ := seq_inv defs rcv h hc
  have i2 := inv_exec defs rcv input _ _ _ _ i1 h2
  obtain ⟨k2, _, a2⟩ := skip_inv h2
  have a2' : s2.afterError = false := a2 (by rw [e1.after]; exact ha)
  have k02 : s2.kinds = s.kinds := by rw [k2, e1.kinds]
  obtain ⟨s3, h3, c3, h, _⟩ := seq_inv defs rcv h hc
  have e9 := same_finishNode h
  obtain ⟨s4, h4, c4, h5, c5⟩ := seq_inv defs rcv h3 c3
  have i4 := inv_exec defs rcv input _ _ _ _ i2 h4
  rcases eatIf_clean (by decide) h4 with ⟨_, hfl, k4, a4, _⟩ | ⟨_, rfl⟩
  · rcases ifFlag_inv defs rcv h5 with ⟨_, h5⟩ | ⟨hf, _⟩
    · obtain ⟨s6, h6, c6, h7, c7⟩ := seq_inv defs rcv h5 c5
      have l4 : s4.kinds.length < L := by
        have : s.kinds = [TokenKind.LBrace] ++ s4.kinds := by rw [← k02, k4]; rfl
        exact Nat.lt_trans (kinds_len_lt this (by simp)) hl
      obtain ⟨ws, k6, d6⟩ := while_loop input _ _ L hS _ _ _ _ l4 i4 h6 c6
      have a6 := clean_afterError defs rcv h6 c6 a4
      obtain ⟨k7, _⟩ := expect_clean (by decide) h7 c7 a6
      refine ⟨TokenKind.LBrace :: (ws ++ [TokenKind.RBrace]), ?_, ?_⟩
      · rw [← k02, k4, k6, k7, e9.kinds]; simp
      · intro hs
        have hw : Shape ws := Shape.infix (u := [TokenKind.LBrace]) (x := [TokenKind.RBrace]) (by simpa using hs)
        exact DVN.altL (ds_tokSeq (DVN.seq (d6 hw) (ds_tok1 _)))
    · rw [hfl] at hf; cases hf
  · rcases ifFlag_inv defs rcv h5 with ⟨hf, _⟩ | ⟨_, h5⟩
    · simp at hf
    · have l2 : ({ s2 with flag := false } : PState).kinds.length < L := by
        have : ({ s2 with flag := false } : PState).kinds = s.kinds := k02
        rw [this]; exact hl
      obtain ⟨w, k5, d5⟩ := hS _ _ _ l2 i4 h5 c5
      have k5' : s2.kinds = w ++ s3.kinds := k5
      exact ⟨w, by rw [← k02, k5', e9.kinds], fun hs => DVN.altR (d5 hs)⟩

/-! ### the statements that contain statements -/

theorem conv_defset (input : List Char) (L : Nat) (hS : StmtH input L) (n : Nat) (s s' : PState)
    (hl : s.kinds.length ≤ L) (hi : Inv input s) (h : exec defs rcv n (call .defset) s = .ok s') (hc : Clean s s') :
    ∃ w, s.kinds = w ++ s'.kinds ∧ (Shape w → DS (.nt .Defset_) w) := by
  have h := call_inv defs rcv (lift_fuel h 40)
  simp only [defs, seqs] at h
  obtain ⟨s1, h1, _, h, hc⟩ := seq_inv defs rcv h hc
  have i1 := inv_exec defs rcv input _ _ _ _ hi h1
  have e1 := same_startNode h1
  obtain ⟨s2, h2, _, h, hc⟩ := seq_inv defs rcv h hc
  have i2 := inv_exec defs rcv input _ _ _ _ i1 h2
  obtain ⟨k2, a2⟩ := assertTok_clean (by decide) h2
  obtain ⟨s3, h3, c3, h, hc⟩ := seq_inv defs rcv h hc
  have i3 := inv_exec defs rcv input _ _ _ _ i2 h3
  obtain ⟨t, k3, a3⟩ := type_inv _ _ _ _ (Nat.le_refl _) h3 c3
  obtain ⟨s4, h4, c4, h, hc⟩ := seq_inv defs rcv h hc
  have i4 := inv_exec defs rcv input _ _ _ _ i3 h4
  obtain ⟨k4, a4⟩ := ident_clean h4 c4
  obtain ⟨s5, h5, c5, h, hc⟩ := seq_inv defs rcv h hc
  have i5 := inv_exec defs rcv input _ _ _ _ i4 h5
  obtain ⟨k5, a5⟩ := expect_clean (by decide) h5 c5 a4
  obtain ⟨s6, h6, c6, h, _⟩ := seq_inv defs rcv h hc
  have k05 : s.kinds = (TokenKind.Defset :: (t.render ++ [TokenKind.Id, TokenKind.Equal])) ++ s5.kinds := by
    rw [← e1.kinds, k2, k3, k4, k5]; simp
  have l5 : s5.kinds.length ≤ L := Nat.le_trans (kinds_len_le k05) hl
  have l5' : s5.kinds.length < s.kinds.length := kinds_len_lt k05 (by simp)
  obtain ⟨wb, k6, d6⟩ := block_inv input L hS _ _ _ l5 i5 h6 c6 a5
  have e7 := same_finishNode h
  refine ⟨TokenKind.Defset :: (t.render ++ (TokenKind.Id :: TokenKind.Equal :: wb)), ?_, ?_⟩
  · rw [k05, k6, e7.kinds]; simp
  · intro hs
    have ht : Shape (TokenKind.Defset :: t.render) :=
      Shape.left (u := TokenKind.Defset :: t.render) (v := TokenKind.Id :: TokenKind.Equal :: wb) (by simpa using hs)
    have hb : Shape wb := Shape.right (u := TokenKind.Defset :: (t.render ++ [TokenKind.Id, TokenKind.Equal]))
      (by simpa using hs)
    have db := d6 hb
    unfold braceE at db
    cases db with
    | seq b1 b2 =>
      exact DVN.nt (ds_tokSeq (DVN.seq (DVN.of (ty_doc (by decide) ht)) (ds_idSeq (ds_tokSeq (DVN.seq b1 b2)))))

theorem conv_let (input : List Char) (L : Nat) (hS : StmtH input L) (n : Nat) (s s' : PState)
    (hl : s.kinds.length ≤ L) (hi : Inv input s) (h : exec defs rcv n (call .let_) s = .ok s') (hc : Clean s s') :
    ∃ w, s.kinds = w ++ s'.kinds ∧ (Shape w → DS (.nt .Let_) w) := by
  have h := call_inv defs rcv (lift_fuel h 40)
  simp only [defs, seqs] at h
  obtain ⟨s1, h1, _, h, hc⟩ := seq_inv defs rcv h hc
  have i1 := inv_exec defs rcv input _ _ _ _ hi h1
  have e1 := same_startNode h1
  obtain ⟨s2, h2, _, h, hc⟩ := seq_inv defs rcv h hc
  have i2 := inv_exec defs rcv input _ _ _ _ i1 h2
  obtain ⟨k2, a2⟩ := assertTok_clean (by decide) h2
  obtain ⟨s3, h3, c3, h, hc⟩ := seq_inv defs rcv h hc
  have i3 := inv_exec defs rcv input _ _ _ _ i2 h3
  obtain ⟨wl, k3, d3⟩ := let_list_inv input _ _ _ i2 h3 c3 a2
  have a3 := clean_afterError defs rcv h3 c3 a2
  obtain ⟨s4, h4, c4, h, hc⟩ := seq_inv defs rcv h hc
  have i4 := inv_exec defs rcv input _ _ _ _ i3 h4
  obtain ⟨hcur, k4, a4, _⟩ := expect_cleanC (by decide) h4 c4 a3
  obtain ⟨s5, h5, c5, h, _⟩ := seq_inv defs rcv h hc
  have k04 : s.kinds = (TokenKind.Let :: (wl ++ [TokenKind.In])) ++ s4.kinds := by
    rw [← e1.kinds, k2, k3, k4]; simp
  have l4 : s4.kinds.length < L := Nat.lt_of_lt_of_le (kinds_len_lt k04 (by simp)) hl
  obtain ⟨wb, k5, d5⟩ := single_or_block_inv input L hS _ _ _ l4 i4 h5 c5 a4
  have e6 := same_finishNode h
  refine ⟨TokenKind.Let :: (wl ++ (TokenKind.In :: wb)), ?_, ?_⟩
  · rw [k04, k5, e6.kinds]; simp
  · intro hs
    have hb : Shape wb := Shape.right (u := TokenKind.Let :: (wl ++ [TokenKind.In])) (by simpa using hs)
    rcases d3 with he | d3
    · rw [he] at hcur; cases hcur
    · exact DVN.nt (ds_tokSeq (DVN.seq d3 (ds_tokSeq (d5 hb))))

theorem conv_foreach (input : List Char) (L : Nat) (hS : StmtH input L) (n : Nat) (s s' : PState)
    (hl : s.kinds.length ≤ L) (hi : Inv input s) (h : exec defs rcv n (call .foreach) s = .ok s') (hc : Clean s s') :
    ∃ w, s.kinds = w ++ s'.kinds ∧ (Shape w → DS (.nt .Foreach_) w) := by
  have h := call_inv defs rcv (lift_fuel h 40)
  simp only [defs, seqs] at h
  obtain ⟨s1, h1, _, h, hc⟩ := seq_inv defs rcv h hc
  have i1 := inv_exec defs rcv input _ _ _ _ hi h1
  have e1 := same_startNode h1
  obtain ⟨s2, h2, _, h, hc⟩ := seq_inv defs rcv h hc
  have i2 := inv_exec defs rcv input _ _ _ _ i1 h2
  obtain ⟨k2, a2⟩ := assertTok_clean (by decide) h2
  obtain ⟨s3, h3, c3, h, hc⟩ := seq_inv defs rcv h hc
  have i3 := inv_exec defs rcv input _ _ _ _ i2 h3
  obtain ⟨wi, k3, d3⟩ := foreach_iterator_inv input _ _ _ i2 h3 c3
  have a3 := clean_afterError defs rcv h3 c3 a2
  obtain ⟨s4, h4, c4, h, hc⟩ := seq_inv defs rcv h hc
  have i4 := inv_exec defs rcv input _ _ _ _ i3 h4
  obtain ⟨k4, a4⟩ := expect_clean (by decide) h4 c4 a3
  obtain ⟨s5, h5, c5, h, _⟩ := seq_inv defs rcv h hc
  have k04 : s.kinds = (TokenKind.Foreach :: (wi ++ [TokenKind.In])) ++ s4.kinds := by
    rw [← e1.kinds, k2, k3, k4]; simp
  have l4 : s4.kinds.length < L := Nat.lt_of_lt_of_le (kinds_len_lt k04 (by simp)) hl
  obtain ⟨wb, k5, d5⟩ := single_or_block_inv input L hS _ _ _ l4 i4 h5 c5 a4
  have e6 := same_finishNode h
  refine ⟨TokenKind.Foreach :: (wi ++ (TokenKind.In :: wb)), ?_, ?_⟩
  · rw [k04, k5, e6.kinds]; simp
  · intro hs
    have hb : Shape wb := Shape.right (u := TokenKind.Foreach :: (wi ++ [TokenKind.In])) (by simpa using hs)
    exact DVN.nt (ds_tokSeq (DVN.seq d3 (ds_tokSeq (d5 hb))))

theorem conv_if (input : List Char) (L : Nat) (hS : StmtH input L) (n : Nat) (s s' : PState)
    (hl : s.kinds.length ≤ L) (hi : Inv input s) (h : exec defs rcv n (call .if_) s = .ok s') (hc : Clean s s') :
    ∃ w, s.kinds = w ++ s'.kinds ∧ (Shape w → DS (.nt .If_) w) := by
  have h := call_inv defs rcv (lift_fuel h 40)
  simp only [defs, seqs, ifEatIf] at h
  obtain ⟨s1, h1, _, h, hc⟩ := seq_inv defs rcv h hc
  have i1 := inv_exec defs rcv input _ _ _ _ hi h1
  have e1 := same_startNode h1
  obtain ⟨s2, h2, _, h, hc⟩ := seq_inv defs rcv h hc
  have i2 := inv_exec defs rcv input _ _ _ _ i1 h2
  obtain ⟨k2, a2, n2⟩ := assertTok_cleanN (by decide) h2
  obtain ⟨s3, h3, c3, h, hc⟩ := seq_inv defs rcv h hc
  have i3 := inv_exec defs rcv input _ _ _ _ i2 h3
  obtain ⟨wv, k3, dv, a3⟩ := value_clean i2 h3 c3 a2 n2
  obtain ⟨s4, h4, c4, h, hc⟩ := seq_inv defs rcv h hc
  have i4 := inv_exec defs rcv input _ _ _ _ i3 h4
  obtain ⟨k4, a4⟩ := expect_clean (by decide) h4 c4 a3
  obtain ⟨s5, h5, c5, h, hc⟩ := seq_inv defs rcv h hc
  have i5 := inv_exec defs rcv input _ _ _ _ i4 h5
  have k04 : s.kinds = (TokenKind.If :: (wv ++ [TokenKind.Then])) ++ s4.kinds := by
    rw [← e1.kinds, k2, k3, k4]; simp
  have l4 : s4.kinds.length < L := Nat.lt_of_lt_of_le (kinds_len_lt k04 (by simp)) hl
  obtain ⟨wt, k5, d5⟩ := single_or_block_inv input L hS _ _ _ l4 i4 h5 c5 a4
  have a5 := clean_afterError defs rcv h5 c5 a4
  obtain ⟨s6, h6, c6, h, _⟩ := seq_inv defs rcv h hc
  have e9 := same_finishNode h
  obtain ⟨s7, h7, c7, h8, c8⟩ := seq_inv defs rcv h6 c6
  have i7 := inv_exec defs rcv input _ _ _ _ i5 h7
  rcases eatIf_clean (by decide) h7 with ⟨_, hfl, k7, a7, _⟩ | ⟨_, rfl⟩
  · rcases ifFlag_inv defs rcv h8 with ⟨_, h8⟩ | ⟨hf, _⟩
    · have l7 : s7.kinds.length < L := by
        have : s4.kinds = (wt ++ [TokenKind.ElseKw]) ++ s7.kinds := by rw [k5, k7]; simp
        exact Nat.lt_of_le_of_lt (kinds_len_le this) l4
      obtain ⟨we, k8, d8⟩ := single_or_block_inv input L hS _ _ _ l7 i7 h8 c8 a7
      refine ⟨TokenKind.If :: (wv ++ (TokenKind.Then :: (wt ++ (TokenKind.ElseKw :: we)))), ?_, ?_⟩
      · rw [k04, k5, k7, k8, e9.kinds]; simp
      · intro hs
        have h1 : Shape (wt ++ (TokenKind.ElseKw :: we)) :=
          Shape.right (u := TokenKind.If :: (wv ++ [TokenKind.Then])) (by simpa using hs)
        have ht : Shape wt := h1.left
        have he : Shape we := Shape.right (u := wt ++ [TokenKind.ElseKw]) (by simpa using h1)
        exact DVN.nt (ds_tokSeq (DVN.seq (DVN.val dv) (ds_tokSeq (DVN.seq (d5 ht) (DVN.optSome (ds_tokSeq (d8 he)))))))
    · rw [hfl] at hf; cases hf
  · rcases ifFlag_inv defs rcv h8 with ⟨hf, _⟩ | ⟨_, h8⟩
    · simp at hf
    · have e8 := same_nop h8
      have e8' : s6.kinds = s5.kinds := e8.kinds
      refine ⟨TokenKind.If :: (wv ++ (TokenKind.Then :: wt)), ?_, ?_⟩
      · rw [k04, k5, e9.kinds, e8']; simp
      · intro hs
        have ht : Shape wt := Shape.right (u := TokenKind.If :: (wv ++ [TokenKind.Then])) (by simpa using hs)
        exact DVN.nt (ds_tokSeq (DVN.seq (DVN.val dv) (ds_tokSeq (ds_seq_nil (d5 ht) DVN.optNone))))

end C04L
end Tg
