/- The lexer model parks a message only together with an `Error` token (converse of
`Lex.next_error_msg`): a token of any other kind leaves `Lexer::error` alone. -/
import TgModel.Lemmas.LexLemmas

namespace Tg
namespace Lex

/-- the call set `Lexer::error` only if it returned `Error` -/
def ErrKind (o : Out) : Prop := o.err.isSome = true → o.kind = .Error

theorem errKind_lexNumber (c : Char) (r : List Char) : ErrKind (lexNumber c r) := by
  unfold lexNumber ErrKind
  split
  · simp
  · simp only []
    split <;> simp

theorem errKind_arms : ∀ a ∈ arms, ∀ c r o, a c r = some o → ErrKind o := by
  intro a ha c r o h
  simp only [arms, List.mem_cons, List.not_mem_nil, or_false] at ha
  rcases ha with rfl | rfl | rfl | rfl | rfl | rfl | rfl | rfl | rfl | rfl | rfl | rfl | rfl
  · unfold armWhitespace at h
    split at h
    · simp at h; subst h; simp [ErrKind]
    · simp at h
  · unfold armLineComment at h
    split at h
    · simp at h; subst h; simp [ErrKind]
    · simp at h
  · unfold armBlockComment at h
    split at h
    · simp at h; subst h; simp [ErrKind]
    · simp at h
  · unfold armDigit at h
    split at h
    · split at h
      · simp at h; subst h; simp [ErrKind]
      · simp at h; subst h; exact errKind_lexNumber c r
    · simp at h
  · unfold armSign at h
    split at h
    · simp at h; subst h; exact errKind_lexNumber c r
    · simp at h
  · unfold armIdent at h
    split at h
    · simp at h; subst h; simp [ErrKind]
    · simp at h
  · unfold armString at h
    split at h
    · simp at h; subst h
      split <;> simp [ErrKind]
    · simp at h
  · unfold armVarName at h
    split at h
    · simp at h; subst h
      split
      · split <;> simp [ErrKind]
      · simp [ErrKind]
    · simp at h
  · unfold armCode at h
    split at h
    · simp at h; subst h
      split <;> simp [ErrKind]
    · simp at h
  · unfold armBang at h
    split at h
    · simp at h; subst h
      split <;> simp [ErrKind]
    · simp at h
  · unfold armHash at h
    split at h
    · simp at h; subst h
      split <;> simp [ErrKind]
    · simp at h
  · unfold armPunct at h
    split at h
    · simp at h; subst h; simp [ErrKind]
    · simp at h
  · unfold armDot at h
    split at h
    · simp at h; subst h
      split <;> simp [ErrKind]
    · simp at h

theorem errKind_firstArm (as : List (Char → List Char → Option Out)) (hs : ∀ a ∈ as, a ∈ arms)
    (c : Char) (r : List Char) (o : Out) (h : firstArm as c r = some o) : ErrKind o := by
  induction as with
  | nil => simp [firstArm] at h
  | cons a rest ih =>
    simp only [firstArm] at h
    split at h
    · rename_i o' ho
      simp at h; subst h
      exact errKind_arms a (hs a (by simp)) c r _ ho
    · exact ih (fun a ha => hs a (by simp [ha])) h

/-- a lexer call parks a message only when it returns an `Error` token -/
theorem next_err_kind (s : List Char) (h : (next s).err.isSome = true) : (next s).kind = .Error := by
  cases s with
  | nil => simp [next] at h
  | cons c r =>
    simp only [next] at h ⊢
    split
    · rename_i o ho
      rw [ho] at h
      exact errKind_firstArm arms (fun _ h => h) c r o ho h
    · rfl

theorem next_err_iff (s : List Char) : (next s).err.isSome = true ↔ (next s).kind = .Error :=
  ⟨next_err_kind s, next_error_msg s⟩

end Lex
end Tg
