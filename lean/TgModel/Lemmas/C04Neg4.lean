/-
C04, negative facts (part 4): each listed deviation where the parser takes more than the documented
grammar, as a theorem — the text is accepted without any error (kernel evaluation of the parser model) and
its token kinds are not a sentence of the documented grammar (kernel evaluation of the matcher `rem`,
which misses no derivation).
-/
import TgModel.Lemmas.C04Neg3

namespace Tg
namespace C04L
open Prog Grammar Frag Doc

/-- accepted without error, and not documented -/
def AcceptedNotDocumented (text : String) : Prop :=
  (∃ r, parse text.toList = .ok r ∧ r.errors = []) ∧ ¬ Doc.Sentence (PState.init text.toList).kinds

theorem accepted_not_documented {text : String} (h1 : acceptsClean text.toList = true)
    (h2 : (rem 300 (.nt .SourceFile_) (PState.init text.toList).kinds).contains [] = false) :
    AcceptedNotDocumented text :=
  ⟨acceptsClean_spec h1, not_derives 300 h2⟩

/-- string-concat: adjacent string literals (the documented `String` is one literal) -/
theorem deviation_string_concat_accepted_not_documented :
    AcceptedNotDocumented "include \"a\" \"b\"" ∧ AcceptedNotDocumented "defvar a = \"x\" \"y\";" :=
  ⟨accepted_not_documented (by decide +kernel) (by decide +kernel),
   accepted_not_documented (by decide +kernel) (by decide +kernel)⟩

/-- type-code: `code` where the documented `Type` is wanted (template argument, `list<code>`, `defset`,
the type of a bang operator) -/
theorem deviation_type_code_accepted_not_documented :
    AcceptedNotDocumented "class A<code c>;" ∧ AcceptedNotDocumented "def d { list<code> l; }" ∧
    AcceptedNotDocumented "defset code x = { }" ∧ AcceptedNotDocumented "defvar a = !cast<code>(\"x\");" :=
  ⟨accepted_not_documented (by decide +kernel) (by decide +kernel),
   accepted_not_documented (by decide +kernel) (by decide +kernel),
   accepted_not_documented (by decide +kernel) (by decide +kernel),
   accepted_not_documented (by decide +kernel) (by decide +kernel)⟩

/-- empty-value-list: `[]`, `{}`, `!op()`, `!cond()` (the documented `ValueList` is not empty) -/
theorem deviation_empty_value_list_accepted_not_documented :
    AcceptedNotDocumented "defvar a = [];" ∧ AcceptedNotDocumented "defvar a = {};" ∧
    AcceptedNotDocumented "defvar a = !add();" ∧ AcceptedNotDocumented "defvar a = !cond();" :=
  ⟨accepted_not_documented (by decide +kernel) (by decide +kernel),
   accepted_not_documented (by decide +kernel) (by decide +kernel),
   accepted_not_documented (by decide +kernel) (by decide +kernel),
   accepted_not_documented (by decide +kernel) (by decide +kernel)⟩

/-- list-type-suffix: `[1, 2]<int>` (the documented `List` has no suffix) -/
theorem deviation_list_type_suffix_accepted_not_documented :
    AcceptedNotDocumented "defvar a = [1, 2]<int>;" :=
  accepted_not_documented (by decide +kernel) (by decide +kernel)

/-- trailing separator and empty list where the parser uses `delimited`: template arguments, value lists,
bang operator arguments, `!cond` clauses -/
theorem deviation_trailing_separator_accepted_not_documented :
    AcceptedNotDocumented "class A<int x,>;" ∧ AcceptedNotDocumented "class A<>;" ∧
    AcceptedNotDocumented "defvar a = [1,];" ∧ AcceptedNotDocumented "defvar a = {1,};" ∧
    AcceptedNotDocumented "defvar a = !add(1,);" ∧ AcceptedNotDocumented "defvar a = !cond(1 : 2,);" :=
  ⟨accepted_not_documented (by decide +kernel) (by decide +kernel),
   accepted_not_documented (by decide +kernel) (by decide +kernel),
   accepted_not_documented (by decide +kernel) (by decide +kernel),
   accepted_not_documented (by decide +kernel) (by decide +kernel),
   accepted_not_documented (by decide +kernel) (by decide +kernel),
   accepted_not_documented (by decide +kernel) (by decide +kernel)⟩

/-- the matcher does not refute what is documented: the documented forms next to the deviations are
sentences (through the parser and the converse), and `rem` finds a way through them -/
example : (rem 300 (.nt .SourceFile_) (PState.init "def d { code c = [{x}]; int x = l[1,]; }".toList).kinds).contains []
    = true := by decide +kernel

end C04L
end Tg
