/-
Soundness of the progress checker (`Progress.check`): total correctness of the parser DSL.
Part 1: semantic facts (fuel monotonicity, consumption of `eat`/`skip`).
-/
import TgModel.Progress
import TgModel.Lemmas.ParserInv

namespace Tg
namespace Progress

/-- remaining input: characters of the look-ahead token plus unread characters -/
def mu (s : PState) : Nat := s.curText.length + s.src.rest.length

/-- panics of the tree builder (rowan); the checker does not rule these out (see C02 notes) -/
def builderWhy : Why → Prop
  | .finishWithoutStart => True
  | .badCheckpoint => True
  | .noCheckpoint => True
  | _ => False

/-- acceptable results: a state satisfying `Q`, or a builder panic; never out-of-fuel, never
`assertFailed` / `errorTokenWithoutMessage` -/
def Fine (Q : PState → Prop) : Res → Prop
  | .ok s' => Q s'
  | .panic w => builderWhy w
  | .outOfFuel => False

variable (defs : Defs) (rc : List TokenKind)

def Good (p : Prog) (s : PState) (Q : PState → Prop) : Prop := ∃ n, Fine Q (exec defs rc n p s)

theorem exec_mono : ∀ (n : Nat) (p : Prog) (s : PState) (r : Res), exec defs rc n p s = r → r ≠ .outOfFuel →
    ∀ m, n ≤ m → exec defs rc m p s = r := by
  intro n
  induction n with
  | zero => intro p s r h hr; simp [exec] at h; exact absurd h.symm hr
  | succ n ih =>
    intro p s r h hr m hm
    obtain ⟨m, rfl⟩ : ∃ m', m = m' + 1 := ⟨m - 1, by omega⟩
    have hm' : n ≤ m := by omega
    cases p with
    | seq a b =>
      simp only [exec] at h ⊢
      cases ha : exec defs rc n a s with
      | ok s1 =>
        rw [ha] at h; simp only [] at h
        rw [ih a s _ ha (by simp) m hm']; exact ih b s1 r h hr m hm'
      | panic w =>
        rw [ha] at h; simp only [] at h
        rw [ih a s _ ha (by simp) m hm']; exact h
      | outOfFuel => rw [ha] at h; simp only [] at h; exact absurd h.symm hr
    | ifAt ks t e =>
      simp only [exec] at h ⊢
      split
      · rename_i hc; simp only [hc, if_true] at h; exact ih t s r h hr m hm'
      · rename_i hc; simp only [hc, if_false] at h; exact ih e s r h hr m hm'
    | ifFlag t e =>
      simp only [exec] at h ⊢
      split
      · rename_i hc; simp only [hc, if_true] at h; exact ih t s r h hr m hm'
      · rename_i hc; simp only [hc, if_false] at h; exact ih e s r h hr m hm'
    | ifLocal t e =>
      simp only [exec] at h ⊢
      split
      · rename_i hc; simp only [hc, if_true] at h; exact ih t s r h hr m hm'
      · rename_i hc; simp only [hc, if_false] at h; exact ih e s r h hr m hm'
    | loop c b =>
      simp only [exec] at h ⊢
      cases hc : exec defs rc n c s with
      | ok s1 =>
        rw [hc] at h; simp only [] at h
        rw [ih c s _ hc (by simp) m hm']
        simp only []
        split
        · rename_i hf
          simp only [hf, if_true] at h
          cases hb : exec defs rc n b s1 with
          | ok s2 =>
            rw [hb] at h; simp only [] at h
            rw [ih b s1 _ hb (by simp) m hm']; exact ih _ s2 r h hr m hm'
          | panic w =>
            rw [hb] at h; simp only [] at h
            rw [ih b s1 _ hb (by simp) m hm']; exact h
          | outOfFuel => rw [hb] at h; simp only [] at h; exact absurd h.symm hr
        · rename_i hf; simp only [hf, if_false] at h; exact h
      | panic w =>
        rw [hc] at h; simp only [] at h
        rw [ih c s _ hc (by simp) m hm']; exact h
      | outOfFuel => rw [hc] at h; simp only [] at h; exact absurd h.symm hr
    | call f => simp only [exec] at h ⊢; exact ih _ s r h hr m hm'
    | nop => simpa [exec] using h
    | startNode k => simpa [exec] using h
    | finishNode => simpa [exec] using h
    | pushCp => simpa [exec] using h
    | popCp => simpa [exec] using h
    | startNodeAtCp k => simpa [exec] using h
    | eat => simpa [exec] using h
    | skip => simpa [exec] using h
    | eatIf k => simpa [exec] using h
    | expect k msg => simpa [exec] using h
    | assertTok k => simpa [exec] using h
    | error msg => simpa [exec] using h
    | errorAndEat msg => simpa [exec] using h
    | errorAndRecover msg => simpa [exec] using h
    | retB b => simpa [exec] using h
    | pushLocal => simpa [exec] using h
    | popLocal => simpa [exec] using h
    | setLocal => simpa [exec] using h

theorem fine_mono {Q p s n m} (h : Fine Q (exec defs rc n p s)) (hm : n ≤ m) : Fine Q (exec defs rc m p s) := by
  have hr : exec defs rc n p s ≠ .outOfFuel := by
    intro he; rw [he] at h; exact h
  rw [exec_mono defs rc n p s _ rfl hr m hm]; exact h

theorem good_weaken {p s} {Q Q' : PState → Prop} (h : Good defs rc p s Q) (hq : ∀ s', Q s' → Q' s') :
    Good defs rc p s Q' := by
  obtain ⟨n, hn⟩ := h
  refine ⟨n, ?_⟩
  cases hr : exec defs rc n p s with
  | ok s' => rw [hr] at hn; exact hq s' hn
  | panic w => rw [hr] at hn; exact hn
  | outOfFuel => rw [hr] at hn; exact hn

/-! ### consumption facts for the token-moving primitives -/

theorem save_flag {s s1 : PState} (h : s.save = .ok s1) : s1.flag = s.flag ∧ s1.cps = s.cps ∧ s1.locals = s.locals := by
  unfold PState.save at h
  split at h
  · split at h
    · simp only [Res.ok.injEq] at h; subst h; exact ⟨rfl, rfl, rfl⟩
    · cases h
  · simp only [Res.ok.injEq] at h; subst h; exact ⟨rfl, rfl, rfl⟩

theorem mu_save_lex {input s s1} (h : Inv input s) (hs : s.save = .ok s1) :
    mu s1.lex = s.src.rest.length ∧ s1.lex.flag = s.flag := by
  obtain ⟨_, _, _, _, _, _, h7, _⟩ := PState.inv_save h hs
  have ha := Src.eat_append s1.src
  have hl := congrArg List.length ha
  simp only [List.length_append] at hl
  refine ⟨?_, ?_⟩
  · simp only [mu, PState.lex]; rw [← h7]; exact hl
  · simp only [PState.lex]; exact (save_flag hs).1

theorem skip_good {input} (fuel : Nat) (s : PState) (h : Inv input s) (hf : mu s < fuel) :
    ∃ s', PState.skip fuel s = .ok s' ∧ Inv input s' ∧ mu s' ≤ mu s ∧ s'.flag = s.flag := by
  induction fuel generalizing s with
  | zero => omega
  | succ n ih =>
    simp only [PState.skip]
    split
    · rename_i htr
      obtain ⟨s1, hs1⟩ := PState.save_ok h
      rw [hs1]
      simp only []
      have hne : s.cur ≠ .Eof := by intro he; rw [he] at htr; exact absurd htr (by decide)
      have hpos : 0 < s.curText.length := List.length_pos_iff.mpr (h.ne hne)
      obtain ⟨hm, hfl⟩ := mu_save_lex h hs1
      have hlt : mu s1.lex < mu s := by rw [hm]; unfold mu; omega
      obtain ⟨s', e, i, m, f⟩ := ih s1.lex (PState.inv_save_lex h hs1) (by omega)
      exact ⟨s', e, i, by omega, by rw [f, hfl]⟩
    · exact ⟨s, rfl, h, Nat.le_refl _, rfl⟩

/-- `eat` always succeeds under the invariant and consumes the look-ahead token -/
theorem eat_good {input} (s : PState) (h : Inv input s) :
    ∃ s', s.eat = .ok s' ∧ Inv input s' ∧ mu s' + s.curText.length ≤ mu s ∧ s'.flag = s.flag := by
  unfold PState.eat
  obtain ⟨s1, hs1⟩ := PState.save_ok h
  rw [hs1]
  simp only []
  obtain ⟨hm, hfl⟩ := mu_save_lex h hs1
  have hi := PState.inv_save_lex h hs1
  have hcap := hi.capOk
  obtain ⟨s', e, i, m, f⟩ := skip_good (PState.skipFuel s1.lex) s1.lex hi (by unfold PState.skipFuel mu; omega)
  refine ⟨s', e, i, ?_, by rw [f, hfl]⟩
  rw [hm] at m; unfold mu at m ⊢; omega

theorem eat_lt {input} (s s' : PState) (h : Inv input s) (hne : s.cur ≠ .Eof)
    (hm : mu s' + s.curText.length ≤ mu s) : mu s' < mu s := by
  have : 0 < s.curText.length := List.length_pos_iff.mpr (h.ne hne)
  omega

/-! ### abstract facts -/

theorem Fact.entails_sound {f g : Fact} (h : f.entails g = true) (k : TokenKind) : f.holds k → g.holds k := by
  cases f <;> cases g <;> simp [Fact.entails, Fact.holds] at * <;> intro hk
  · exact h k hk
  · exact h k hk
  · intro hb; exact hk (h k hb)

theorem Fact.meetIn_sound (f : Fact) (ks : List TokenKind) (k : TokenKind) :
    f.holds k → k ∈ ks → (f.meetIn ks).holds k := by
  cases f <;> simp [Fact.meetIn, Fact.holds] <;> intros <;> simp_all

theorem Fact.meetNotIn_sound (f : Fact) (ks : List TokenKind) (k : TokenKind) :
    f.holds k → k ∉ ks → (f.meetNotIn ks).holds k := by
  cases f <;> simp [Fact.meetNotIn, Fact.holds] <;> intros <;> simp_all

theorem Fact.isBot_sound (f : Fact) (k : TokenKind) (h : f.isBot = true) : ¬ f.holds k := by
  cases f with
  | any => simp [Fact.isBot] at h
  | notInS l => simp [Fact.isBot] at h
  | inS l =>
    cases l with
    | nil => simp [Fact.holds]
    | cons a t => simp [Fact.isBot] at h

theorem notEof_sound (f : Fact) (k : TokenKind) (h : notEof f = true) (hk : f.holds k) : k ≠ .Eof := by
  have := Fact.entails_sound h k hk
  simpa [Fact.holds] using this

/-- concretisation of an abstract state, relative to the remaining-input values at function
entry (`Mf`) and at the current reference point (`M`) -/
structure Sat (a : AS) (Mf M : Nat) (s : PState) : Prop where
  fact : a.fact.holds s.cur
  fl : ∀ b, a.fl = some b → s.flag = b
  m1 : mu s ≤ M
  m2 : a.must = true → mu s < M
  c1 : mu s ≤ Mf
  c2 : a.c = true → mu s < Mf

def QA (input : List Char) (outs : List AS) (Mf M : Nat) (s' : PState) : Prop :=
  Inv input s' ∧ ∃ o ∈ outs, Sat o Mf M s'

/-- what a summary exit promises about the state after the call, relative to the state before -/
structure ExitSat (e : AS) (s s' : PState) : Prop where
  fact : e.fact.holds s'.cur
  fl : ∀ b, e.fl = some b → s'.flag = b
  le : mu s' ≤ mu s
  m : e.must = true → mu s' < mu s
  c : e.c = true → mu s' < mu s

theorem findSumm_sound {l : List Summ} {f : Fact} {sm : Summ} (h : findSumm l f = some sm) :
    sm ∈ l ∧ f.entails sm.pre = true := by
  induction l with
  | nil => simp [findSumm] at h
  | cons x t ih =>
    simp only [findSumm] at h
    split at h
    · rename_i he; simp only [Option.some.injEq] at h; subst h; exact ⟨by simp, he⟩
    · obtain ⟨h1, h2⟩ := ih h; exact ⟨by simp [h1], h2⟩

theorem both_some {r1 r2 : Option (List AS)} {outs : List AS} (h : both r1 r2 = some outs) :
    ∃ l1 l2, r1 = some l1 ∧ r2 = some l2 ∧ outs = l1 ++ l2 := by
  unfold both at h
  split at h
  · rename_i l1 l2
    simp only [Option.some.injEq] at h
    exact ⟨l1, l2, rfl, rfl, h.symm⟩
  · cases h

theorem seqOuts_some (g : AS → Option (List AS)) (outs : List AS) (res : List AS)
    (h : seqOuts g outs = some res) : ∀ o ∈ outs, ∃ l', g o = some l' ∧ ∀ x ∈ l', x ∈ res := by
  induction outs generalizing res with
  | nil => intro o ho; simp at ho
  | cons a t ih =>
    simp only [seqOuts, List.foldr_cons] at h
    obtain ⟨l1, l2, h1, h2, h3⟩ := both_some h
    subst h3
    intro o ho
    simp only [List.mem_cons] at ho
    rcases ho with rfl | ho
    · exact ⟨l1, h1, fun x hx => by simp [hx]⟩
    · obtain ⟨l', h4, h5⟩ := ih l2 h2 o ho
      exact ⟨l', h4, fun x hx => by simp [h5 x hx]⟩

theorem sat_eaten {a : AS} {Mf M : Nat} {s s' : PState} (hs : Sat a Mf M s) (hle : mu s' ≤ mu s)
    (consumed : Bool) (hc : consumed = true → mu s' < mu s) (fl : Option Bool)
    (hfl : ∀ b, fl = some b → s'.flag = b) : Sat (a.eaten fl consumed) Mf M s' := by
  refine ⟨trivial, hfl, ?_, ?_, ?_, ?_⟩
  · have := hs.m1; omega
  · intro h
    simp only [AS.eaten, Bool.or_eq_true] at h
    rcases h with h | h
    · have := hs.m2 h; omega
    · have := hc h; have := hs.m1; omega
  · have := hs.c1; omega
  · intro h
    simp only [AS.eaten, Bool.or_eq_true] at h
    rcases h with h | h
    · have := hs.c2 h; omega
    · have := hc h; have := hs.c1; omega

theorem sat_same {a : AS} {Mf M : Nat} {s s' : PState} (hs : Sat a Mf M s)
    (hcur : s'.cur = s.cur) (hfl : s'.flag = s.flag) (hmu : mu s' = mu s) : Sat a Mf M s' :=
  ⟨by rw [hcur]; exact hs.fact, by rw [hfl]; exact hs.fl, by rw [hmu]; exact hs.m1, by rw [hmu]; exact hs.m2,
   by rw [hmu]; exact hs.c1, by rw [hmu]; exact hs.c2⟩

section sound
variable (input : List Char) (summs : Summs) (lt : Fn → Fn → Bool) (self : Fn) (Mf : Nat)

/-- the induction hypothesis about calls: summaries of callees are valid for smaller remaining
input, or for the same remaining input when the callee is `lt`-smaller than the caller -/
def CallIH : Prop :=
  ∀ g sm, sm ∈ summs g → ∀ s', Inv input s' → sm.pre.holds s'.cur →
    (mu s' < Mf ∨ (mu s' ≤ Mf ∧ lt g self = true)) →
    Good defs rc (defs g) s' (fun s'' => Inv input s'' ∧ ∃ e ∈ sm.exits, ExitSat e s' s'')

/-- a primitive that runs in one step -/
theorem good_of_step {p : Prog} {s : PState} {Q : PState → Prop}
    (h : Fine Q (exec defs rc 1 p s)) : Good defs rc p s Q := ⟨1, h⟩

theorem analyze_sound (IH : CallIH defs rc input summs lt self Mf) :
    ∀ (p : Prog) (a : AS) (outs : List AS), analyze summs lt rc self p a = some outs →
    ∀ (M : Nat) (s : PState), Inv input s → Sat a Mf M s → Good defs rc p s (QA input outs Mf M) := by
  intro p
  induction p with
  | nop =>
    intro a outs h M s hi hs
    simp only [analyze, Option.some.injEq] at h; subst h
    exact good_of_step defs rc (by simp only [exec, Fine]; exact ⟨hi, a, by simp, hs⟩)
  | startNode k =>
    intro a outs h M s hi hs
    simp only [analyze, Option.some.injEq] at h; subst h
    exact good_of_step defs rc (by
      simp only [exec, Fine]
      exact ⟨PState.inv_startNode hi k, a, by simp, sat_same hs rfl rfl rfl⟩)
  | finishNode =>
    intro a outs h M s hi hs
    simp only [analyze, Option.some.injEq] at h; subst h
    refine good_of_step defs rc ?_
    simp only [exec]
    cases hf : s.finishNode with
    | ok s' =>
      simp only [Fine]
      have hi' := PState.inv_finishNode hi hf
      unfold PState.finishNode at hf
      split at hf
      · cases hf
      · simp only [Res.ok.injEq] at hf; subst hf
        exact ⟨hi', a, by simp, sat_same hs rfl rfl rfl⟩
    | panic w =>
      simp only [Fine]
      unfold PState.finishNode at hf
      split at hf
      · simp only [Res.panic.injEq] at hf; subst hf; trivial
      · cases hf
    | outOfFuel =>
      unfold PState.finishNode at hf
      split at hf <;> cases hf
  | pushCp =>
    intro a outs h M s hi hs
    simp only [analyze, Option.some.injEq] at h; subst h
    exact good_of_step defs rc (by
      simp only [exec, Fine]
      exact ⟨⟨hi.text, hi.pos, hi.eof, hi.err, hi.errs, hi.ne, hi.capOk, hi.chain⟩, a, by simp, sat_same hs rfl rfl rfl⟩)
  | popCp =>
    intro a outs h M s hi hs
    simp only [analyze, Option.some.injEq] at h; subst h
    exact good_of_step defs rc (by
      simp only [exec, Fine]
      exact ⟨⟨hi.text, hi.pos, hi.eof, hi.err, hi.errs, hi.ne, hi.capOk, hi.chain⟩, a, by simp, sat_same hs rfl rfl rfl⟩)
  | pushLocal =>
    intro a outs h M s hi hs
    simp only [analyze, Option.some.injEq] at h; subst h
    exact good_of_step defs rc (by
      simp only [exec, Fine]
      exact ⟨⟨hi.text, hi.pos, hi.eof, hi.err, hi.errs, hi.ne, hi.capOk, hi.chain⟩, a, by simp, sat_same hs rfl rfl rfl⟩)
  | popLocal =>
    intro a outs h M s hi hs
    simp only [analyze, Option.some.injEq] at h; subst h
    exact good_of_step defs rc (by
      simp only [exec, Fine]
      exact ⟨⟨hi.text, hi.pos, hi.eof, hi.err, hi.errs, hi.ne, hi.capOk, hi.chain⟩, a, by simp, sat_same hs rfl rfl rfl⟩)
  | setLocal =>
    intro a outs h M s hi hs
    simp only [analyze, Option.some.injEq] at h; subst h
    exact good_of_step defs rc (by
      simp only [exec, Fine]
      exact ⟨⟨hi.text, hi.pos, hi.eof, hi.err, hi.errs, hi.ne, hi.capOk, hi.chain⟩, a, by simp, sat_same hs rfl rfl rfl⟩)
  | startNodeAtCp k =>
    intro a outs h M s hi hs
    simp only [analyze, Option.some.injEq] at h; subst h
    refine good_of_step defs rc ?_
    simp only [exec]
    split
    · rename_i cp rest hcp
      cases hf : s.startNodeAt cp k with
      | ok s' =>
        simp only [Fine]
        have hi' := PState.inv_startNodeAt hi cp k hf
        unfold PState.startNodeAt at hf
        split at hf
        · cases hf
        · split at hf
          · cases hf
          · simp only [Res.ok.injEq] at hf; subst hf
            exact ⟨hi', a, by simp, sat_same hs rfl rfl rfl⟩
      | panic w =>
        simp only [Fine]
        unfold PState.startNodeAt at hf
        split at hf
        · simp only [Res.panic.injEq] at hf; subst hf; trivial
        · split at hf
          · simp only [Res.panic.injEq] at hf; subst hf; trivial
          · cases hf
      | outOfFuel =>
        unfold PState.startNodeAt at hf
        split at hf
        · cases hf
        · split at hf <;> cases hf
    · simp only [Fine]; trivial
  | eat =>
    intro a outs h M s hi hs
    simp only [analyze, Option.some.injEq] at h; subst h
    obtain ⟨s', he, hi', hm, hfl⟩ := eat_good s hi
    refine good_of_step defs rc ?_
    simp only [exec, he, Fine]
    refine ⟨hi', a.eaten a.fl (notEof a.fact), by simp, sat_eaten hs (by omega) _ ?_ a.fl (by intro b hb; rw [hfl]; exact hs.fl b hb)⟩
    intro hc
    exact eat_lt s s' hi (notEof_sound _ _ hc hs.fact) hm
  | skip =>
    intro a outs h M s hi hs
    simp only [analyze, Option.some.injEq] at h; subst h
    have hcap := hi.capOk
    obtain ⟨s', he, hi', hm, hfl⟩ := skip_good (PState.skipFuel s) s hi (by unfold PState.skipFuel mu; omega)
    refine good_of_step defs rc ?_
    simp only [exec, he, Fine]
    refine ⟨hi', { a with fact := .any }, by simp, ⟨trivial, by rw [hfl]; exact hs.fl, ?_, ?_, ?_, ?_⟩⟩
    · have := hs.m1; omega
    · intro h; have := hs.m2 h; omega
    · have := hs.c1; omega
    · intro h; have := hs.c2 h; omega
  | eatIf k =>
    intro a outs h M s hi hs
    simp only [analyze, Option.some.injEq] at h; subst h
    refine good_of_step defs rc ?_
    by_cases hk : s.cur = k
    · obtain ⟨s', he, hi', hm, hfl⟩ := eat_good s hi
      have hkb : (s.cur == k) = true := by simp [hk]
      simp only [exec, hkb, if_true, he, Fine]
      have hnb : (a.fact.meetIn [k]).isBot = false := by
        cases hb : (a.fact.meetIn [k]).isBot with
        | false => rfl
        | true => exact absurd (Fact.meetIn_sound a.fact [k] s.cur hs.fact (by simp [hk])) (Fact.isBot_sound _ _ hb)
      refine ⟨⟨hi'.text, hi'.pos, hi'.eof, hi'.err, hi'.errs, hi'.ne, hi'.capOk, hi'.chain⟩, a.eaten (some true) (k != .Eof), by simp [hnb], ?_⟩
      refine sat_eaten (s := s) (s' := { s' with flag := true }) hs (by show mu s' ≤ mu s; omega) _ ?_ _
        (by intro b hb; simp at hb; subst hb; rfl)
      intro hc
      simp at hc
      show mu s' < mu s
      exact eat_lt s s' hi (by rw [hk]; exact hc) hm
    · have hkb : (s.cur == k) = false := by simp [hk]
      simp only [exec, hkb, Bool.false_eq_true, if_false, Fine]
      have hne : a.fact.entails (.inS [k]) = false := by
        cases he : a.fact.entails (.inS [k]) with
        | false => rfl
        | true =>
          have := Fact.entails_sound he s.cur hs.fact
          simp [Fact.holds] at this; exact absurd this hk
      refine ⟨PState.inv_flag hi false, { a with fact := a.fact.meetNotIn [k], fl := some false }, by simp [hne], ?_⟩
      exact ⟨Fact.meetNotIn_sound _ _ _ hs.fact (by simp [hk]), by intro b hb; simp at hb; subst hb; rfl,
             hs.m1, hs.m2, hs.c1, hs.c2⟩
  | expect k msg =>
    intro a outs h M s hi hs
    simp only [analyze, Option.some.injEq] at h; subst h
    refine good_of_step defs rc ?_
    by_cases hk : s.cur = k
    · obtain ⟨s', he, hi', hm, hfl⟩ := eat_good s hi
      have hkb : (s.cur == k) = true := by simp [hk]
      simp only [exec, hkb, if_true, he, Fine]
      have hnb : (a.fact.meetIn [k]).isBot = false := by
        cases hb : (a.fact.meetIn [k]).isBot with
        | false => rfl
        | true => exact absurd (Fact.meetIn_sound a.fact [k] s.cur hs.fact (by simp [hk])) (Fact.isBot_sound _ _ hb)
      refine ⟨hi', a.eaten a.fl (k != .Eof), by simp [hnb], ?_⟩
      refine sat_eaten (s := s) hs (by omega) _ ?_ _ (by intro b hb; rw [hfl]; exact hs.fl b hb)
      intro hc
      simp at hc
      exact eat_lt s s' hi (by rw [hk]; exact hc) hm
    · have hkb : (s.cur == k) = false := by simp [hk]
      have hne : a.fact.entails (.inS [k]) = false := by
        cases he : a.fact.entails (.inS [k]) with
        | false => rfl
        | true =>
          have := Fact.entails_sound he s.cur hs.fact
          simp [Fact.holds] at this; exact absurd this hk
      have hsat : ∀ s'', s''.cur = s.cur → s''.flag = s.flag → mu s'' = mu s →
          Sat { a with fact := a.fact.meetNotIn [k] } Mf M s'' := by
        intro s'' h1 h2 h3
        exact ⟨by rw [h1]; exact Fact.meetNotIn_sound _ _ _ hs.fact (by simp [hk]), by rw [h2]; exact hs.fl,
               by rw [h3]; exact hs.m1, by rw [h3]; exact hs.m2, by rw [h3]; exact hs.c1, by rw [h3]; exact hs.c2⟩
      by_cases hae : s.afterError = true
      · simp only [exec, hkb, Bool.false_eq_true, if_false, hae, if_true, Fine]
        exact ⟨hi, _, by simp [hne], hsat s rfl rfl rfl⟩
      · simp only [exec, hkb, Bool.false_eq_true, if_false, hae, Fine]
        exact ⟨PState.inv_error hi _, _, by simp [hne], hsat _ rfl rfl rfl⟩
  | assertTok k =>
    intro a outs h M s hi hs
    simp only [analyze] at h
    split at h
    · rename_i he
      simp only [Option.some.injEq] at h; subst h
      have hk : s.cur = k := by
        have := Fact.entails_sound he s.cur hs.fact
        simpa [Fact.holds] using this
      subst hk
      obtain ⟨s', hex, hi', hm, hfl⟩ := eat_good s hi
      refine good_of_step defs rc ?_
      simp only [exec, beq_self_eq_true, if_true, hex, Fine]
      refine ⟨hi', a.eaten a.fl (s.cur != .Eof), by simp, sat_eaten (s := s) hs (by omega) _ ?_ _ (by intro b hb; rw [hfl]; exact hs.fl b hb)⟩
      intro hc
      simp at hc
      exact eat_lt s s' hi hc hm
    · cases h
  | error msg =>
    intro a outs h M s hi hs
    simp only [analyze, Option.some.injEq] at h; subst h
    exact good_of_step defs rc (by
      simp only [exec, Fine]
      exact ⟨PState.inv_error hi _, a, by simp, sat_same hs rfl rfl rfl⟩)
  | errorAndEat msg =>
    intro a outs h M s hi hs
    simp only [analyze, Option.some.injEq] at h; subst h
    have hi1 : Inv input ((s.error msg).startNode .Error) := PState.inv_startNode (PState.inv_error hi _) _
    obtain ⟨s1, he, hi', hm, hfl⟩ := eat_good _ hi1
    refine good_of_step defs rc ?_
    simp only [exec, he]
    cases hf : s1.finishNode with
    | ok s' =>
      simp only [Fine]
      have hi'' := PState.inv_finishNode hi' hf
      have : s'.cur = s1.cur ∧ s'.flag = s1.flag ∧ mu s' = mu s1 := by
        unfold PState.finishNode at hf
        split at hf
        · cases hf
        · simp only [Res.ok.injEq] at hf; subst hf; exact ⟨rfl, rfl, rfl⟩
      obtain ⟨e1, e2, e3⟩ := this
      refine ⟨hi'', a.eaten a.fl (notEof a.fact), by simp, sat_eaten (s := s) hs (by rw [e3]; show mu s1 ≤ mu s; have : mu ((s.error msg).startNode .Error) = mu s := rfl; omega) _ ?_ _ ?_⟩
      · intro hc
        rw [e3]
        have : mu ((s.error msg).startNode .Error) = mu s := rfl
        have hlt := eat_lt _ s1 hi1 (notEof_sound _ _ hc hs.fact) hm
        omega
      · intro b hb; rw [e2, hfl]; exact hs.fl b hb
    | panic w =>
      simp only [Fine]
      unfold PState.finishNode at hf
      split at hf
      · simp only [Res.panic.injEq] at hf; subst hf; trivial
      · cases hf
    | outOfFuel =>
      unfold PState.finishNode at hf
      split at hf <;> cases hf
  | errorAndRecover msg =>
    intro a outs h M s hi hs
    simp only [analyze, Option.some.injEq] at h; subst h
    refine good_of_step defs rc ?_
    by_cases hcond : (!rc.contains (s.error msg).cur && (s.error msg).cur != TokenKind.Eof) = true
    · have hnr : s.cur ∉ (TokenKind.Eof :: rc) := by
        simp only [PState.error, Bool.and_eq_true, Bool.not_eq_true', bne_iff_ne, ne_eq] at hcond
        simp only [List.mem_cons, not_or]
        refine ⟨hcond.2, ?_⟩
        have := hcond.1
        simpa using this
      have hi1 : Inv input ((s.error msg).startNode .Error) := PState.inv_startNode (PState.inv_error hi _) _
      obtain ⟨s1, he, hi', hm, hfl⟩ := eat_good _ hi1
      simp only [exec, hcond, if_true, he]
      cases hf : s1.finishNode with
      | ok s' =>
        simp only [Fine]
        have hi'' := PState.inv_finishNode hi' hf
        have : s'.cur = s1.cur ∧ s'.flag = s1.flag ∧ mu s' = mu s1 := by
          unfold PState.finishNode at hf
          split at hf
          · cases hf
          · simp only [Res.ok.injEq] at hf; subst hf; exact ⟨rfl, rfl, rfl⟩
        obtain ⟨e1, e2, e3⟩ := this
        have hne : a.fact.entails (.inS (.Eof :: rc)) = false := by
          cases he' : a.fact.entails (.inS (.Eof :: rc)) with
          | false => rfl
          | true =>
            have := Fact.entails_sound he' s.cur hs.fact
            exact absurd this hnr
        have hmu0 : mu ((s.error msg).startNode .Error) = mu s := rfl
        have hlt := eat_lt _ s1 hi1 (by show s.cur ≠ .Eof; intro h0; exact hnr (by simp [h0])) hm
        refine ⟨hi'', a.eaten a.fl true, by simp [hne], sat_eaten (s := s) hs (by rw [e3]; omega) _ (by intro _; rw [e3]; omega) _ ?_⟩
        intro b hb; rw [e2, hfl]; exact hs.fl b hb
      | panic w =>
        simp only [Fine]
        unfold PState.finishNode at hf
        split at hf
        · simp only [Res.panic.injEq] at hf; subst hf; trivial
        · cases hf
      | outOfFuel =>
        unfold PState.finishNode at hf
        split at hf <;> cases hf
    · have hin : s.cur ∈ (TokenKind.Eof :: rc) := by
        simp only [PState.error, Bool.and_eq_true, Bool.not_eq_true', bne_iff_ne, ne_eq, not_and, Decidable.not_not] at hcond
        simp only [List.mem_cons]
        by_cases h0 : s.cur = .Eof
        · exact Or.inl h0
        · right
          by_cases hm : s.cur ∈ rc
          · exact hm
          · exact absurd (hcond (by simpa using hm)) h0
      simp only [exec, hcond, Fine]
      have hstay := Fact.meetIn_sound a.fact (.Eof :: rc) s.cur hs.fact hin
      have hnb : (a.fact.meetIn (.Eof :: rc)).isBot = false := by
        cases hb : (a.fact.meetIn (.Eof :: rc)).isBot with
        | false => rfl
        | true => exact absurd hstay (Fact.isBot_sound _ _ hb)
      refine ⟨PState.inv_error hi _, { a with fact := a.fact.meetIn (.Eof :: rc) }, by simp [hnb], ?_⟩
      exact ⟨hstay, hs.fl, hs.m1, hs.m2, hs.c1, hs.c2⟩
  | retB b =>
    intro a outs h M s hi hs
    simp only [analyze, Option.some.injEq] at h; subst h
    exact good_of_step defs rc (by
      simp only [exec, Fine]
      exact ⟨PState.inv_flag hi b, { a with fl := some b }, by simp, ⟨hs.fact, by intro b' hb; simp only [Option.some.injEq] at hb; subst hb; rfl, hs.m1, hs.m2, hs.c1, hs.c2⟩⟩)
  | seq p q ihp ihq =>
    intro a outs h M s hi hs
    simp only [analyze] at h
    cases hp : analyze summs lt rc self p a with
    | none => rw [hp] at h; cases h
    | some outsP =>
      rw [hp] at h; simp only [] at h
      have hq := seqOuts_some (fun o => analyze summs lt rc self q o) outsP outs h
      obtain ⟨n1, h1⟩ := ihp a outsP hp M s hi hs
      cases hr : exec defs rc n1 p s with
      | ok s1 =>
        rw [hr] at h1
        obtain ⟨hi1, o, ho, hso⟩ := h1
        obtain ⟨l', hl', hsub⟩ := hq o ho
        obtain ⟨n2, h2⟩ := ihq o l' hl' M s1 hi1 hso
        refine ⟨max n1 n2 + 1, ?_⟩
        simp only [exec]
        rw [exec_mono defs rc n1 p s _ hr (by simp) _ (Nat.le_max_left _ _)]
        simp only []
        have h3 := fine_mono defs rc h2 (Nat.le_max_right n1 n2)
        cases hr2 : exec defs rc (max n1 n2) q s1 with
        | ok s2 =>
          rw [hr2] at h3
          obtain ⟨hi2, o2, ho2, hs2⟩ := h3
          exact ⟨hi2, o2, hsub o2 ho2, hs2⟩
        | panic w => rw [hr2] at h3; exact h3
        | outOfFuel => rw [hr2] at h3; exact h3
      | panic w =>
        rw [hr] at h1
        refine ⟨n1 + 1, ?_⟩
        simp only [exec, hr]; exact h1
      | outOfFuel => rw [hr] at h1; exact h1.elim
  | ifAt ks t e iht ihe =>
    intro a outs h M s hi hs
    simp only [analyze] at h
    obtain ⟨l1, l2, h1, h2, h3⟩ := both_some h
    subst h3
    by_cases hc : ks.contains s.cur = true
    · have hin : s.cur ∈ ks := by simpa using hc
      have hft := Fact.meetIn_sound a.fact ks s.cur hs.fact hin
      have hnb : (a.fact.meetIn ks).isBot = false := by
        cases hb : (a.fact.meetIn ks).isBot with
        | false => rfl
        | true => exact absurd hft (Fact.isBot_sound _ _ hb)
      simp only [hnb, Bool.false_eq_true, if_false] at h1
      obtain ⟨n, hn⟩ := iht _ l1 h1 M s hi ⟨hft, hs.fl, hs.m1, hs.m2, hs.c1, hs.c2⟩
      refine ⟨n + 1, ?_⟩
      simp only [exec, hc, if_true]
      cases hr : exec defs rc n t s with
      | ok s' => rw [hr] at hn; obtain ⟨g1, o, ho, g2⟩ := hn; exact ⟨g1, o, by simp [ho], g2⟩
      | panic w => rw [hr] at hn; exact hn
      | outOfFuel => rw [hr] at hn; exact hn
    · have hnin : s.cur ∉ ks := by simpa using hc
      have hfe := Fact.meetNotIn_sound a.fact ks s.cur hs.fact hnin
      have hne : a.fact.entails (.inS ks) = false := by
        cases he : a.fact.entails (.inS ks) with
        | false => rfl
        | true => exact absurd (Fact.entails_sound he s.cur hs.fact) hnin
      simp only [hne, Bool.false_eq_true, if_false] at h2
      obtain ⟨n, hn⟩ := ihe _ l2 h2 M s hi ⟨hfe, hs.fl, hs.m1, hs.m2, hs.c1, hs.c2⟩
      refine ⟨n + 1, ?_⟩
      have hcf : ks.contains s.cur = false := by simpa using hc
      simp only [exec, hcf, Bool.false_eq_true, if_false]
      cases hr : exec defs rc n e s with
      | ok s' => rw [hr] at hn; obtain ⟨g1, o, ho, g2⟩ := hn; exact ⟨g1, o, by simp [ho], g2⟩
      | panic w => rw [hr] at hn; exact hn
      | outOfFuel => rw [hr] at hn; exact hn
  | ifFlag t e iht ihe =>
    intro a outs h M s hi hs
    simp only [analyze] at h
    have run : ∀ (p : Prog) (l : List AS) (a' : AS), (∀ x ∈ l, x ∈ outs) →
        (∀ (M : Nat) (s : PState), Inv input s → Sat a' Mf M s → Good defs rc p s (QA input l Mf M)) →
        Sat a' Mf M s → exec defs rc 0 p s = exec defs rc 0 p s →
        ∃ n, Fine (QA input outs Mf M) (exec defs rc n p s) := by
      intro p l a' hsub hg hsa _
      obtain ⟨n, hn⟩ := hg M s hi hsa
      refine ⟨n, ?_⟩
      cases hr : exec defs rc n p s with
      | ok s' => rw [hr] at hn; obtain ⟨g1, o, ho, g2⟩ := hn; exact ⟨g1, o, hsub o ho, g2⟩
      | panic w => rw [hr] at hn; exact hn
      | outOfFuel => rw [hr] at hn; exact hn
    by_cases hf : s.flag = true
    · -- the then-branch runs
      have key : ∃ n, Fine (QA input outs Mf M) (exec defs rc n t s) := by
        cases hfl : a.fl with
        | none =>
          rw [hfl] at h; simp only [] at h
          obtain ⟨l1, l2, h1, h2, h3⟩ := both_some h
          subst h3
          exact run t l1 _ (fun x hx => by simp [hx]) (iht _ l1 h1)
            ⟨hs.fact, by intro b hb; simp only [Option.some.injEq] at hb; subst hb; exact hf, hs.m1, hs.m2, hs.c1, hs.c2⟩ rfl
        | some b =>
          have hb := hs.fl b hfl
          rw [hf] at hb; subst hb
          rw [hfl] at h; simp only [] at h
          exact run t outs a (fun x hx => hx) (iht a outs h) hs rfl
      obtain ⟨n, hn⟩ := key
      exact ⟨n + 1, by simp only [exec, hf, if_true]; exact hn⟩
    · have hff : s.flag = false := by simpa using hf
      have key : ∃ n, Fine (QA input outs Mf M) (exec defs rc n e s) := by
        cases hfl : a.fl with
        | none =>
          rw [hfl] at h; simp only [] at h
          obtain ⟨l1, l2, h1, h2, h3⟩ := both_some h
          subst h3
          exact run e l2 _ (fun x hx => by simp [hx]) (ihe _ l2 h2)
            ⟨hs.fact, by intro b hb; simp only [Option.some.injEq] at hb; subst hb; exact hff, hs.m1, hs.m2, hs.c1, hs.c2⟩ rfl
        | some b =>
          have hb := hs.fl b hfl
          rw [hff] at hb; subst hb
          rw [hfl] at h; simp only [] at h
          exact run e outs a (fun x hx => hx) (ihe a outs h) hs rfl
      obtain ⟨n, hn⟩ := key
      exact ⟨n + 1, by simp only [exec, hff, Bool.false_eq_true, if_false]; exact hn⟩
  | ifLocal t e iht ihe =>
    intro a outs h M s hi hs
    simp only [analyze] at h
    obtain ⟨l1, l2, h1, h2, h3⟩ := both_some h
    subst h3
    by_cases hl : (s.locals.head? == some true) = true
    · obtain ⟨n, hn⟩ := iht a l1 h1 M s hi hs
      refine ⟨n + 1, ?_⟩
      simp only [exec, hl, if_true]
      cases hr : exec defs rc n t s with
      | ok s' => rw [hr] at hn; obtain ⟨g1, o, ho, g2⟩ := hn; exact ⟨g1, o, by simp [ho], g2⟩
      | panic w => rw [hr] at hn; exact hn
      | outOfFuel => rw [hr] at hn; exact hn
    · obtain ⟨n, hn⟩ := ihe a l2 h2 M s hi hs
      refine ⟨n + 1, ?_⟩
      simp only [exec, hl, Bool.false_eq_true, if_false]
      cases hr : exec defs rc n e s with
      | ok s' => rw [hr] at hn; obtain ⟨g1, o, ho, g2⟩ := hn; exact ⟨g1, o, by simp [ho], g2⟩
      | panic w => rw [hr] at hn; exact hn
      | outOfFuel => rw [hr] at hn; exact hn
  | call g =>
    intro a outs h M s hi hs
    simp only [analyze] at h
    cases hfs : findSumm (summs g) a.fact with
    | none => rw [hfs] at h; cases h
    | some sm =>
      rw [hfs] at h; simp only [] at h
      obtain ⟨hmem, hent⟩ := findSumm_sound hfs
      split at h
      · rename_i hcond
        simp only [Option.some.injEq] at h; subst h
        have hpre := Fact.entails_sound hent s.cur hs.fact
        have hmeas : mu s < Mf ∨ (mu s ≤ Mf ∧ lt g self = true) := by
          simp only [Bool.or_eq_true] at hcond
          rcases hcond with hc | hl
          · exact Or.inl (hs.c2 hc)
          · exact Or.inr ⟨hs.c1, hl⟩
        obtain ⟨n, hn⟩ := IH g sm hmem s hi hpre hmeas
        refine ⟨n + 1, ?_⟩
        simp only [exec]
        cases hr : exec defs rc n (defs g) s with
        | ok s' =>
          rw [hr] at hn
          obtain ⟨hi', e, he, hes⟩ := hn
          refine ⟨hi', { fact := e.fact, fl := e.fl, must := a.must || e.must, c := a.c || e.c },
                  List.mem_map.mpr ⟨e, he, rfl⟩, ⟨hes.fact, hes.fl, ?_, ?_, ?_, ?_⟩⟩
          · have := hs.m1; have := hes.le; omega
          · intro hm
            simp only [Bool.or_eq_true] at hm
            rcases hm with hm | hm
            · have := hs.m2 hm; have := hes.le; omega
            · have := hes.m hm; have := hs.m1; omega
          · have := hs.c1; have := hes.le; omega
          · intro hm
            simp only [Bool.or_eq_true] at hm
            rcases hm with hm | hm
            · have := hs.c2 hm; have := hes.le; omega
            · have := hes.c hm; have := hs.c1; omega
        | panic w => rw [hr] at hn; exact hn
        | outOfFuel => rw [hr] at hn; exact hn
      · cases h
  | loop cnd body ihc ihb =>
    intro a outs h M s hi hs
    simp only [analyze] at h
    cases hc : analyze summs lt rc self cnd { fact := .any, fl := none, must := false, c := a.c } with
    | none => rw [hc] at h; cases h
    | some outsC =>
      rw [hc] at h; simp only [] at h
      split at h
      · rename_i hbody
        simp only [Option.some.injEq] at h; subst h
        -- strong induction on the remaining input at the loop head
        suffices H : ∀ (k : Nat) (s : PState), mu s ≤ k → Inv input s → mu s ≤ M → (a.must = true → mu s < M) →
            mu s ≤ Mf → (a.c = true → mu s < Mf) →
            Good defs rc (.loop cnd body) s (QA input
              ((outsC.filter (fun oc => oc.fl != some true)).map
                (fun oc => { fact := oc.fact, fl := some false, must := a.must || oc.must, c := a.c || oc.c })) Mf M) from
          H (mu s) s (Nat.le_refl _) hi hs.m1 hs.m2 hs.c1 hs.c2
        intro k
        induction k with
        | zero =>
          intro s hk hi hm1 hm2 hc1 hc2
          -- same argument as the successor case, but the body can never make progress from 0;
          -- handled uniformly below by the general step with an impossible recursive call
          have hhead : Sat { fact := .any, fl := none, must := false, c := a.c } Mf (mu s) s :=
            ⟨trivial, (by intro b hb; cases hb), Nat.le_refl _, (by intro h; cases h), hc1, hc2⟩
          obtain ⟨n1, h1⟩ := ihc _ outsC hc (mu s) s hi hhead
          cases hr : exec defs rc n1 cnd s with
          | ok s1 =>
            rw [hr] at h1
            obtain ⟨hi1, oc, hoc, hsoc⟩ := h1
            by_cases hf : s1.flag = true
            · -- continuing needs consumption, impossible at mu = 0
              have hne : (oc.fl == some false) = false := by
                cases hfl : oc.fl with
                | none => rfl
                | some b => have := hsoc.fl b hfl; rw [hf] at this; subst this; rfl
              have hb := List.all_eq_true.mp hbody oc hoc
              simp only [hne, Bool.false_eq_true, if_false] at hb
              cases hab : analyze summs lt rc self body { oc with fl := some true } with
              | none => rw [hab] at hb; cases hb
              | some outsB =>
                rw [hab] at hb; simp only [] at hb
                obtain ⟨n2, h2⟩ := ihb _ outsB hab (mu s) s1 hi1
                  ⟨hsoc.fact, by intro b hb'; simp only [Option.some.injEq] at hb'; subst hb'; exact hf,
                   hsoc.m1, hsoc.m2, hsoc.c1, hsoc.c2⟩
                cases hr2 : exec defs rc n2 body s1 with
                | ok s2 =>
                  rw [hr2] at h2
                  obtain ⟨_, ob, hob, hsob⟩ := h2
                  have := hsob.m2 (List.all_eq_true.mp hb ob hob)
                  omega
                | panic w =>
                  rw [hr2] at h2
                  refine ⟨max n1 n2 + 1, ?_⟩
                  simp only [exec]
                  rw [exec_mono defs rc n1 cnd s _ hr (by simp) _ (Nat.le_max_left _ _)]
                  simp only [hf, if_true]
                  rw [exec_mono defs rc n2 body s1 _ hr2 (by simp) _ (Nat.le_max_right _ _)]
                  exact h2
                | outOfFuel => rw [hr2] at h2; exact h2.elim
            · have hff : s1.flag = false := by simpa using hf
              refine ⟨n1 + 1, ?_⟩
              simp only [exec, hr, hff, Bool.false_eq_true, if_false, Fine]
              have hnt : (oc.fl != some true) = true := by
                cases hfl : oc.fl with
                | none => rfl
                | some b => have := hsoc.fl b hfl; rw [hff] at this; subst this; rfl
              refine ⟨hi1, { fact := oc.fact, fl := some false, must := a.must || oc.must, c := a.c || oc.c },
                      List.mem_map.mpr ⟨oc, List.mem_filter.mpr ⟨hoc, hnt⟩, rfl⟩, ?_⟩
              refine ⟨hsoc.fact, by intro b hb; simp only [Option.some.injEq] at hb; subst hb; exact hff, ?_, ?_, ?_, ?_⟩
              · have := hsoc.m1; omega
              · intro hm
                simp only [Bool.or_eq_true] at hm
                rcases hm with hm | hm
                · have := hm2 hm; have := hsoc.m1; omega
                · have := hsoc.m2 hm; omega
              · exact hsoc.c1
              · intro hm
                simp only [Bool.or_eq_true] at hm
                rcases hm with hm | hm
                · have := hc2 hm; have := hsoc.m1; omega
                · exact hsoc.c2 hm
          | panic w =>
            rw [hr] at h1
            exact ⟨n1 + 1, by simp only [exec, hr]; exact h1⟩
          | outOfFuel => rw [hr] at h1; exact h1.elim
        | succ k ihk =>
          intro s hk hi hm1 hm2 hc1 hc2
          have hhead : Sat { fact := .any, fl := none, must := false, c := a.c } Mf (mu s) s :=
            ⟨trivial, (by intro b hb; cases hb), Nat.le_refl _, (by intro h; cases h), hc1, hc2⟩
          obtain ⟨n1, h1⟩ := ihc _ outsC hc (mu s) s hi hhead
          cases hr : exec defs rc n1 cnd s with
          | ok s1 =>
            rw [hr] at h1
            obtain ⟨hi1, oc, hoc, hsoc⟩ := h1
            by_cases hf : s1.flag = true
            · have hne : (oc.fl == some false) = false := by
                cases hfl : oc.fl with
                | none => rfl
                | some b => have := hsoc.fl b hfl; rw [hf] at this; subst this; rfl
              have hb := List.all_eq_true.mp hbody oc hoc
              simp only [hne, Bool.false_eq_true, if_false] at hb
              cases hab : analyze summs lt rc self body { oc with fl := some true } with
              | none => rw [hab] at hb; cases hb
              | some outsB =>
                rw [hab] at hb; simp only [] at hb
                obtain ⟨n2, h2⟩ := ihb _ outsB hab (mu s) s1 hi1
                  ⟨hsoc.fact, by intro b hb'; simp only [Option.some.injEq] at hb'; subst hb'; exact hf,
                   hsoc.m1, hsoc.m2, hsoc.c1, hsoc.c2⟩
                cases hr2 : exec defs rc n2 body s1 with
                | ok s2 =>
                  rw [hr2] at h2
                  obtain ⟨hi2, ob, hob, hsob⟩ := h2
                  have hlt := hsob.m2 (List.all_eq_true.mp hb ob hob)
                  obtain ⟨n3, h3⟩ := ihk s2 (by omega) hi2 (by omega) (fun _ => by omega) hsob.c1
                    (fun hcc => by have := hc2 hcc; omega)
                  refine ⟨max n1 (max n2 n3) + 1, ?_⟩
                  simp only [exec]
                  rw [exec_mono defs rc n1 cnd s _ hr (by simp) _ (Nat.le_max_left _ _)]
                  simp only [hf, if_true]
                  rw [exec_mono defs rc n2 body s1 _ hr2 (by simp) _
                    (Nat.le_trans (Nat.le_max_left _ _) (Nat.le_max_right _ _))]
                  simp only []
                  exact fine_mono defs rc h3 (Nat.le_trans (Nat.le_max_right _ _) (Nat.le_max_right _ _))
                | panic w =>
                  rw [hr2] at h2
                  refine ⟨max n1 n2 + 1, ?_⟩
                  simp only [exec]
                  rw [exec_mono defs rc n1 cnd s _ hr (by simp) _ (Nat.le_max_left _ _)]
                  simp only [hf, if_true]
                  rw [exec_mono defs rc n2 body s1 _ hr2 (by simp) _ (Nat.le_max_right _ _)]
                  exact h2
                | outOfFuel => rw [hr2] at h2; exact h2.elim
            · have hff : s1.flag = false := by simpa using hf
              refine ⟨n1 + 1, ?_⟩
              simp only [exec, hr, hff, Bool.false_eq_true, if_false, Fine]
              have hnt : (oc.fl != some true) = true := by
                cases hfl : oc.fl with
                | none => rfl
                | some b => have := hsoc.fl b hfl; rw [hff] at this; subst this; rfl
              refine ⟨hi1, { fact := oc.fact, fl := some false, must := a.must || oc.must, c := a.c || oc.c },
                      List.mem_map.mpr ⟨oc, List.mem_filter.mpr ⟨hoc, hnt⟩, rfl⟩, ?_⟩
              refine ⟨hsoc.fact, by intro b hb; simp only [Option.some.injEq] at hb; subst hb; exact hff, ?_, ?_, ?_, ?_⟩
              · have := hsoc.m1; omega
              · intro hm
                simp only [Bool.or_eq_true] at hm
                rcases hm with hm | hm
                · have := hm2 hm; have := hsoc.m1; omega
                · have := hsoc.m2 hm; omega
              · exact hsoc.c1
              · intro hm
                simp only [Bool.or_eq_true] at hm
                rcases hm with hm | hm
                · have := hc2 hm; have := hsoc.m1; omega
                · exact hsoc.c2 hm
          | panic w =>
            rw [hr] at h1
            exact ⟨n1 + 1, by simp only [exec, hr]; exact h1⟩
          | outOfFuel => rw [hr] at h1; exact h1.elim
      · cases h

end sound

theorem covers_sound {e o : AS} (h : covers e o = true) {Mf : Nat} {s s' : PState}
    (hs : Sat o (mu s) (mu s) s') : ExitSat e s s' := by
  simp only [covers, Bool.and_eq_true, Bool.or_eq_true, Bool.not_eq_true', beq_iff_eq] at h
  obtain ⟨⟨⟨hfl, hm⟩, hc⟩, hf⟩ := h
  refine ⟨Fact.entails_sound hf _ hs.fact, ?_, hs.m1, ?_, ?_⟩
  · intro b hb
    rcases hfl with hfl | hfl
    · rw [hfl] at hb; cases hb
    · exact hs.fl b (by rw [← hfl]; exact hb)
  · intro he
    rcases hm with hm | hm
    · rw [he] at hm; cases hm
    · exact hs.m2 hm
  · intro he
    rcases hc with hc | hc
    · rw [he] at hc; cases hc
    · exact hs.c2 hc

/-- **Soundness of the checker.** If every function passes `checkFn`, then from every state
satisfying the invariant and a summary's entry fact, the function body terminates (for some
fuel) in a state described by one of the summary's exits — or stops at a tree-builder panic;
it never runs out of fuel for lack of progress and never hits `assert!`/`expect` panics. -/
theorem check_sound (summs : Summs) (ranks : Ranks) (input : List Char)
    (hcheck : ∀ f, checkFn defs summs (ltOfRanks ranks) rc f = true) :
    ∀ (M r : Nat) (f : Fn) (sm : Summ), sm ∈ summs f → ∀ (s : PState), ranks f ≤ r → mu s ≤ M →
      Inv input s → sm.pre.holds s.cur →
      Good defs rc (defs f) s (fun s'' => Inv input s'' ∧ ∃ e ∈ sm.exits, ExitSat e s s'') := by
  intro M
  induction M using Nat.strongRecOn with
  | _ M ihM =>
    intro r
    induction r using Nat.strongRecOn with
    | _ r ihr =>
      intro f sm hsm s hr hM hi hpre
      have hc := List.all_eq_true.mp (hcheck f) sm hsm
      unfold checkSumm at hc
      cases ha : analyze summs (ltOfRanks ranks) rc f (defs f) { fact := sm.pre, fl := none, must := false, c := false } with
      | none => rw [ha] at hc; cases hc
      | some outs =>
        rw [ha] at hc; simp only [] at hc
        have IH : CallIH defs rc input summs (ltOfRanks ranks) f (mu s) := by
          intro g sm' hsm' s' hi' hpre' hmeas
          rcases hmeas with hlt | ⟨hle, hrk⟩
          · exact ihM (mu s') (by omega) (ranks g) g sm' hsm' s' (Nat.le_refl _) (Nat.le_refl _) hi' hpre'
          · have hrk' : ranks g < ranks f := by simpa [ltOfRanks] using hrk
            rcases Nat.lt_or_eq_of_le (Nat.le_trans hle hM) with hlt | heq
            · exact ihM (mu s') hlt (ranks g) g sm' hsm' s' (Nat.le_refl _) (Nat.le_refl _) hi' hpre'
            · exact ihr (ranks g) (by omega) g sm' hsm' s' (Nat.le_refl _) (by omega) hi' hpre'
        have hsat : Sat { fact := sm.pre, fl := none, must := false, c := false } (mu s) (mu s) s :=
          ⟨hpre, (by intro b hb; cases hb), Nat.le_refl _, (by intro h; cases h), Nat.le_refl _, (by intro h; cases h)⟩
        obtain ⟨n, hn⟩ := analyze_sound defs rc input summs (ltOfRanks ranks) f (mu s) IH (defs f) _ outs ha (mu s) s hi hsat
        refine ⟨n, ?_⟩
        cases hres : exec defs rc n (defs f) s with
        | ok s' =>
          rw [hres] at hn
          obtain ⟨hi', o, ho, hso⟩ := hn
          have := List.all_eq_true.mp hc o ho
          obtain ⟨e, he, hcov⟩ := List.any_eq_true.mp this
          exact ⟨hi', e, he, covers_sound hcov (Mf := 0) hso⟩
        | panic w => rw [hres] at hn; exact hn
        | outOfFuel => rw [hres] at hn; exact hn

end Progress
end Tg
