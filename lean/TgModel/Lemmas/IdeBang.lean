/-
`Bang.lean`: the helpers of `mod common` and one preservation lemma per bang-operator arm.
-/
import TgModel.Lemmas.IdeCtx
import TgModel.Ide.Bang

namespace Tg
namespace Ide
namespace Bang

variable {r : Rec} {k : Nat} {c0 c : IndexCtx} {n : PTree}

/-- every range of an indexed value list is a node range of the current file -/
def AllIn (c0 : IndexCtx) (vt : ValueTypes) : Prop := ∀ x ∈ vt, RangeIn c0 x.1

theorem AllIn.nil (c0 : IndexCtx) : AllIn c0 [] := by intro x hx; cases hx
theorem AllIn.tail {vt : ValueTypes} (h : AllIn c0 vt) : AllIn c0 vt.tail :=
  fun x hx => h x (List.mem_of_mem_tail hx)
theorem AllIn.take {vt : ValueTypes} (h : AllIn c0 vt) (i : Nat) : AllIn c0 (vt.take i) :=
  fun x hx => h x (List.mem_of_mem_take hx)
theorem AllIn.of_cons {vt : ValueTypes} {x : Range × Option Ty} (h : AllIn c0 (x :: vt)) : AllIn c0 vt :=
  fun y hy => h y (List.mem_cons_of_mem _ hy)
theorem AllIn.head {vt : ValueTypes} {x : Range × Option Ty} (h : AllIn c0 (x :: vt)) : RangeIn c0 x.1 :=
  h x (by simp)
theorem AllIn.head? {vt : ValueTypes} (h : AllIn c0 vt) {rg : Range} {t : Option Ty}
    (hh : vt.head? = some (rg, t)) : RangeIn c0 rg := h _ (List.mem_of_head? hh)
theorem AllIn.getElem? {vt : ValueTypes} (h : AllIn c0 vt) {i : Nat} {rg : Range} {t : Option Ty}
    (hh : vt[i]? = some (rg, t)) : RangeIn c0 rg := h _ (List.mem_of_getElem? hh)

theorem unexpectTypeAnnotation_spec (h : PostV c0 c) (hn : Fits (k + 1) c0 n) :
    Holds (unexpectTypeAnnotation n) c (fun _ c' => PostV c0 c') := by
  unfold unexpectTypeAnnotation
  split
  · rename_i t ht
    exact error_specV h (hn.sub' (Ast.child_sub ht)).rangeIn _
  · exact Holds.pure h

theorem expectTypeAnnotation_spec (hr : RecOK r k) (h : PostV c0 c) (hn : Fits (k + 1) c0 n) :
    Holds (expectTypeAnnotation r n) c (fun _ c' => PostV c0 c') := by
  unfold expectTypeAnnotation
  split
  · rename_i t ht
    exact hr.typV h (hn.sub (Ast.child_sub ht))
  · refine Holds.bind (error_specV h hn.rangeIn _) ?_
    intro _ c1 h1
    exact Holds.pure h1

theorem expectValues_spec (h : PostV c0 c) (hn : Fits (k + 1) c0 n) (lo : Nat) (hi : Option Nat) :
    Holds (expectValues n lo hi) c (fun vs c' => PostV c0 c' ∧ ∀ v ∈ vs, Fits k c0 v) := by
  have hvs : ∀ v ∈ Ast.bangOperatorValues n, Fits k c0 v := fun v hv => hn.sub (Ast.children_sub hv)
  have hret : ∀ {c1 : IndexCtx}, PostV c0 c1 → Holds (pure (Ast.bangOperatorValues n) : IxM (List PTree)) c1
      (fun vs c' => PostV c0 c' ∧ ∀ v ∈ vs, Fits k c0 v) := fun h1 => Holds.pure ⟨h1, hvs⟩
  have herr : ∀ (msg : String), Holds (do let __r ← error (nodeRange n) msg; pure (Ast.bangOperatorValues n) :
      IxM (List PTree)) c (fun vs c' => PostV c0 c' ∧ ∀ v ∈ vs, Fits k c0 v) := by
    intro msg
    refine Holds.bind (error_specV h hn.rangeIn _) ?_
    intro _ c1 h1
    exact hret h1
  unfold expectValues
  dsimp only
  split
  · split
    · split
      · exact herr _
      · exact hret h
    · split
      · exact herr _
      · exact hret h
  · split
    · exact herr _
    · exact hret h

theorem indexValues_spec (hr : RecOK r k) (h : PostV c0 c) {values : List PTree}
    (hv : ∀ v ∈ values, Fits k c0 v) :
    Holds (indexValues r values) c (fun vt c' => PostV c0 c' ∧ AllIn c0 vt) := by
  unfold indexValues
  refine (Holds.mapM (fun c' => PostV c0 c') (fun (x : Range × Option Ty) => RangeIn c0 x.1) h ?_).mono
    (fun vt c' ⟨h1, _, h2⟩ => ⟨h1, h2⟩)
  intro v hvm c1 h1
  refine Holds.bind (hr.valueV h1 (hv v hvm)) ?_
  intro t c2 h2
  exact Holds.pure ⟨h2, (hv v hvm).rangeIn⟩

theorem indexValuesAndCheckTypes_spec (hr : RecOK r k) (h : PostV c0 c) {values : List PTree}
    (hv : ∀ v ∈ values, Fits k c0 v) (expected : Ty) :
    Holds (indexValuesAndCheckTypes r values expected) c (fun _ c' => PostV c0 c') := by
  unfold indexValuesAndCheckTypes
  refine Holds.bind (Holds.forIn_mem (fun _ c' => PostV c0 c') h ?_) (fun _ c' h' => Holds.pure h')
  intro v hvm b c1 h1
  refine Holds.bind (hr.valueV h1 (hv v hvm)) ?_
  intro t c2 h2
  split
  · refine canBeCastedTo_spec _ _ ?_
    intro b
    split
    · refine Holds.bind (error_specV h2 (hv v hvm).rangeIn _) ?_
      intro _ c3 h3
      exact Holds.pure h3
    · exact Holds.pure h2
  · exact Holds.pure h2

theorem checkNext_spec (h : PostV c0 c) {vt : ValueTypes} (hvt : AllIn c0 vt) (ok : SymMap → Ty → Bool)
    (msg : Ty → String) :
    Holds (checkNext vt ok msg) c (fun vt' c' => PostV c0 c' ∧ AllIn c0 vt') := by
  unfold checkNext
  split
  · exact Holds.pure ⟨h, AllIn.nil c0⟩
  · rename_i range typ rest
    dsimp only
    split
    · refine Holds.bind (withSM_spec _) ?_
      rintro b c' ⟨hcc, _⟩
      subst hcc
      split
      · refine Holds.bind (error_specV h hvt.head _) ?_
        intro _ c1 h1
        exact Holds.pure ⟨h1, hvt.of_cons⟩
      · exact Holds.pure ⟨h, hvt.of_cons⟩
    · exact Holds.pure ⟨h, hvt.of_cons⟩

theorem variableIdentifier_spec (h : PostV c0 c) (hn : Fits (k + 2) c0 n) :
    Holds (variableIdentifier n) c (fun x c' => c = c' ∧ ∀ name loc, x = some (name, loc) → TokIn c0 loc name) := by
  unfold variableIdentifier
  split
  · rename_i inner hinner
    split
    · rename_i sv hsv
      split
      · rename_i hk
        exact utilsIdentifier_spec h.toPost ((hn.sub (Ast.head?_children_sub hinner)).sub (Ast.child_sub hsv))
          (by simpa using hk)
      · exact Holds.pure ⟨rfl, by intro _ _ hl; cases hl⟩
    · exact Holds.pure ⟨rfl, by intro _ _ hl; cases hl⟩
  · exact Holds.pure ⟨rfl, by intro _ _ hl; cases hl⟩

/-- a loop that only checks the types of already indexed values -/
theorem checkLoop_spec {β : Type} {init : β} (h : PostV c0 c) {vt : ValueTypes} (hvt : AllIn c0 vt)
    (f : Range × Option Ty → β → IxM (ForInStep β))
    (hf : ∀ x, RangeIn c0 x.1 → ∀ b c1, PostV c0 c1 → Holds (f x b) c1 (fun s c2 => PostV c0 c2)) :
    Holds (forIn vt init f) c (fun _ c' => PostV c0 c') :=
  Holds.forIn_mem (fun _ c' => PostV c0 c') h (fun x hx b c1 h1 => hf x (hvt x hx) b c1 h1)


/-! ### the common prefixes of the arms -/

/-- `unexpect_type_annotation; expect_values; index_values; rest` -/
theorem prefixU {α : Type} (hr : RecOK r k) (h : PostV c0 c) (hn : Fits (k + 1) c0 n) (lo : Nat) (hi : Option Nat)
    {rest : ValueTypes → IxM α} {Q : α → IndexCtx → Prop}
    (hrest : ∀ vt c1, PostV c0 c1 → AllIn c0 vt → Holds (rest vt) c1 Q) :
    Holds (do
      unexpectTypeAnnotation n
      let values ← expectValues n lo hi
      let vt ← indexValues r values
      rest vt) c Q := by
  refine Holds.bind (unexpectTypeAnnotation_spec h hn) ?_
  intro _ c1 h1
  refine Holds.bind (expectValues_spec h1 hn lo hi) ?_
  rintro values c2 ⟨h2, hv⟩
  refine Holds.bind (indexValues_spec hr h2 hv) ?_
  rintro vt c3 ⟨h3, hvt⟩
  exact hrest vt c3 h3 hvt

/-- `unexpect_type_annotation; expect_values; rest` -/
theorem prefixV {α : Type} (h : PostV c0 c) (hn : Fits (k + 1) c0 n) (lo : Nat) (hi : Option Nat)
    {rest : List PTree → IxM α} {Q : α → IndexCtx → Prop}
    (hrest : ∀ vs c1, PostV c0 c1 → (∀ v ∈ vs, Fits k c0 v) → Holds (rest vs) c1 Q) :
    Holds (do
      unexpectTypeAnnotation n
      let values ← expectValues n lo hi
      rest values) c Q := by
  refine Holds.bind (unexpectTypeAnnotation_spec h hn) ?_
  intro _ c1 h1
  refine Holds.bind (expectValues_spec h1 hn lo hi) ?_
  rintro values c2 ⟨h2, hv⟩
  exact hrest values c2 h2 hv

/-- `expect_values; index_values; rest` (after a type annotation has been dealt with) -/
theorem prefixI {α : Type} (hr : RecOK r k) (h : PostV c0 c) (hn : Fits (k + 1) c0 n) (lo : Nat) (hi : Option Nat)
    {rest : ValueTypes → IxM α} {Q : α → IndexCtx → Prop}
    (hrest : ∀ vt c1, PostV c0 c1 → AllIn c0 vt → Holds (rest vt) c1 Q) :
    Holds (do
      let values ← expectValues n lo hi
      let vt ← indexValues r values
      rest vt) c Q := by
  refine Holds.bind (expectValues_spec h hn lo hi) ?_
  rintro values c2 ⟨h2, hv⟩
  refine Holds.bind (indexValues_spec hr h2 hv) ?_
  rintro vt c3 ⟨h3, hvt⟩
  exact hrest vt c3 h3 hvt

/-- closes goals that are a chain of `checkNext` calls followed by `pure` -/
macro "bang_tail" : tactic => `(tactic| repeat (first
  | exact Holds.pure (by assumption)
  | (refine Holds.bind (checkNext_spec (by assumption)
      (by first | assumption | exact AllIn.tail (by assumption)) _ _) ?_
     rintro _ _ ⟨_, _⟩)))

abbrev ArmSpec (arm : Rec → PTree → IxM (Option Ty)) : Prop :=
  ∀ {r : Rec} {k : Nat} {c0 c : IndexCtx} {n : PTree}, RecOK r k → PostV c0 c → Fits (k + 1) c0 n →
    Holds (arm r n) c (fun _ c' => PostV c0 c')

theorem arithN_spec : ArmSpec arithN := by
  intro r k c0 c n hr h hn
  unfold arithN
  refine prefixV h hn _ _ ?_
  intro vs c1 h1 hv
  refine Holds.bind (indexValuesAndCheckTypes_spec hr h1 hv _) ?_
  intro _ c2 h2
  exact Holds.pure h2

theorem arith2_spec : ArmSpec arith2 := by
  intro r k c0 c n hr h hn
  unfold arith2
  refine prefixV h hn _ _ ?_
  intro vs c1 h1 hv
  refine Holds.bind (indexValuesAndCheckTypes_spec hr h1 hv _) ?_
  intro _ c2 h2
  exact Holds.pure h2

theorem xCon_spec : ArmSpec xCon := by
  intro r k c0 c n hr h hn
  unfold xCon
  refine prefixV h hn _ _ ?_
  intro vs c1 h1 hv
  refine Holds.bind (indexValuesAndCheckTypes_spec hr h1 hv _) ?_
  intro _ c2 h2
  exact Holds.pure h2

theorem xCast_spec : ArmSpec xCast := by
  intro r k c0 c n hr h hn
  unfold xCast
  refine Holds.bind (expectTypeAnnotation_spec hr h hn) ?_
  intro _ c1 h1
  refine prefixI hr h1 hn _ _ ?_
  intro vt c2 h2 hvt
  bang_tail

theorem xDag_spec : ArmSpec xDag := by
  intro r k c0 c n hr h hn
  unfold xDag
  refine prefixU hr h hn _ _ ?_
  intro vt c2 h2 hvt
  dsimp only
  bang_tail

theorem xEmpty_spec : ArmSpec xEmpty := by
  intro r k c0 c n hr h hn
  unfold xEmpty
  refine prefixU hr h hn _ _ ?_
  intro vt c2 h2 hvt
  bang_tail

theorem xExists_spec : ArmSpec xExists := by
  intro r k c0 c n hr h hn
  unfold xExists
  refine Holds.bind (expectTypeAnnotation_spec hr h hn) ?_
  intro _ c1 h1
  refine prefixI hr h1 hn _ _ ?_
  intro vt c2 h2 hvt
  bang_tail

theorem xFind_spec : ArmSpec xFind := by
  intro r k c0 c n hr h hn
  unfold xFind
  refine prefixU hr h hn _ _ ?_
  intro vt c2 h2 hvt
  bang_tail

theorem xGetDagArg_spec : ArmSpec xGetDagArg := by
  intro r k c0 c n hr h hn
  unfold xGetDagArg
  refine Holds.bind (expectTypeAnnotation_spec hr h hn) ?_
  intro _ c1 h1
  refine prefixI hr h1 hn _ _ ?_
  intro vt c2 h2 hvt
  bang_tail

theorem xGetDagName_spec : ArmSpec xGetDagName := by
  intro r k c0 c n hr h hn
  unfold xGetDagName
  refine prefixU hr h hn _ _ ?_
  intro vt c2 h2 hvt
  bang_tail

theorem xGetDagOp_spec : ArmSpec xGetDagOp := by
  intro r k c0 c n hr h hn
  unfold xGetDagOp
  have hrest : ∀ (t : Option Ty) {c1 : IndexCtx}, PostV c0 c1 → Holds (do
      let values ← expectValues n 1 (some 1)
      let vt ← indexValues r values
      let _ ← checkNext vt (castOk .dag) (expectedFound "dag")
      return some (t.getD .unknown) : IxM (Option Ty)) c1 (fun _ c' => PostV c0 c') := by
    intro t c1 h1
    refine prefixI hr h1 hn _ _ ?_
    intro vt c2 h2 hvt
    bang_tail
  split
  · rename_i t ht
    refine Holds.bind (hr.typV h (hn.sub (Ast.child_sub ht))) ?_
    intro ty c1 h1
    exact hrest ty h1
  · refine Holds.bind (Holds.pure (Q := fun _ c' => c = c') rfl) ?_
    rintro ty c' hcc
    subst hcc
    exact hrest ty h

theorem xInitialized_spec : ArmSpec xInitialized := by
  intro r k c0 c n hr h hn
  unfold xInitialized
  refine prefixU hr h hn _ _ ?_
  intro vt c2 h2 hvt
  bang_tail

theorem xInterleave_spec : ArmSpec xInterleave := by
  intro r k c0 c n hr h hn
  unfold xInterleave
  refine prefixU hr h hn _ _ ?_
  intro vt c2 h2 hvt
  dsimp only
  bang_tail

theorem xIsA_spec : ArmSpec xIsA := by
  intro r k c0 c n hr h hn
  unfold xIsA
  refine Holds.bind (expectTypeAnnotation_spec hr h hn) ?_
  intro _ c1 h1
  refine prefixI hr h1 hn _ _ ?_
  intro vt c2 h2 hvt
  bang_tail

theorem xLog2_spec : ArmSpec xLog2 := by
  intro r k c0 c n hr h hn
  unfold xLog2
  refine prefixU hr h hn _ _ ?_
  intro vt c2 h2 hvt
  bang_tail

theorem xNot_spec : ArmSpec xNot := by
  intro r k c0 c n hr h hn
  unfold xNot
  refine prefixU hr h hn _ _ ?_
  intro vt c2 h2 hvt
  bang_tail

theorem xRepr_spec : ArmSpec xRepr := by
  intro r k c0 c n hr h hn
  unfold xRepr
  refine prefixU hr h hn _ _ ?_
  intro vt c2 h2 hvt
  bang_tail

theorem xSetDagArg_spec : ArmSpec xSetDagArg := by
  intro r k c0 c n hr h hn
  unfold xSetDagArg
  refine prefixU hr h hn _ _ ?_
  intro vt c2 h2 hvt
  bang_tail

theorem xSetDagName_spec : ArmSpec xSetDagName := by
  intro r k c0 c n hr h hn
  unfold xSetDagName
  refine prefixU hr h hn _ _ ?_
  intro vt c2 h2 hvt
  bang_tail

theorem xSetDagOp_spec : ArmSpec xSetDagOp := by
  intro r k c0 c n hr h hn
  unfold xSetDagOp
  refine prefixU hr h hn _ _ ?_
  intro vt c2 h2 hvt
  bang_tail

theorem xSize_spec : ArmSpec xSize := by
  intro r k c0 c n hr h hn
  unfold xSize
  refine prefixU hr h hn _ _ ?_
  intro vt c2 h2 hvt
  bang_tail

theorem xSubstr_spec : ArmSpec xSubstr := by
  intro r k c0 c n hr h hn
  unfold xSubstr
  refine prefixU hr h hn _ _ ?_
  intro vt c2 h2 hvt
  bang_tail

theorem xToLowerUpper_spec : ArmSpec xToLowerUpper := by
  intro r k c0 c n hr h hn
  unfold xToLowerUpper
  refine prefixU hr h hn _ _ ?_
  intro vt c2 h2 hvt
  bang_tail


/-! ### arms with their own control flow -/

/-- finds the `RangeIn` fact for a range taken out of an indexed value list -/
macro "bang_rng" : tactic => `(tactic| first
  | assumption
  | exact AllIn.head? (by assumption) (by assumption)
  | exact AllIn.head? (AllIn.tail (by assumption)) (by assumption)
  | exact AllIn.getElem? (by assumption) (by assumption))

/-- symbolic execution of code that only inspects types and reports errors -/
macro "bang_leaf" : tactic => `(tactic| repeat (first
  | exact Holds.pure (by assumption)
  | (refine canBeCastedTo_spec _ _ ?_
     intro _)
  | (refine Holds.bind (error_specV (by assumption) (by bang_rng) _) ?_
     intro _ _ _)
  | exact error_specV (by assumption) (by bang_rng) _
  | (refine Holds.bind (withSM_spec _) ?_
     rintro _ _ ⟨hcc, _⟩
     subst hcc)
  | split))

/-- the body of the type-checking loops: `let some typ := typ | continue; if !ok then error ..` -/
macro "bang_loop" : tactic => `(tactic| (
  rintro ⟨rg, t⟩ hrg b c1 h1
  simp only at hrg
  dsimp only
  bang_leaf))

theorem xEqNe_spec : ArmSpec xEqNe := by
  intro r k c0 c n hr h hn
  unfold xEqNe
  refine prefixU hr h hn _ _ ?_
  intro vt c2 h2 hvt
  refine Holds.bind (checkLoop_spec h2 (hvt.take 2) _ ?_) (fun _ c3 h3 => Holds.pure h3)
  rintro ⟨rg, t⟩ hrg b c1 h1
  simp only at hrg
  dsimp only
  split
  · refine Holds.bind (withSM_spec _) ?_
    rintro ok c' ⟨hcc, _⟩
    subst hcc
    bang_leaf
  · exact Holds.pure h1

theorem xCompare_spec : ArmSpec xCompare := by
  intro r k c0 c n hr h hn
  unfold xCompare
  refine prefixU hr h hn _ _ ?_
  intro vt c2 h2 hvt
  refine Holds.bind (checkLoop_spec h2 (hvt.take 2) _ ?_) (fun _ c3 h3 => Holds.pure h3)
  rintro ⟨rg, t⟩ hrg b c1 h1
  simp only at hrg
  dsimp only
  split
  · refine Holds.bind (withSM_spec _) ?_
    rintro ok c' ⟨hcc, _⟩
    subst hcc
    bang_leaf
  · exact Holds.pure h1

theorem xStrConcat_spec : ArmSpec xStrConcat := by
  intro r k c0 c n hr h hn
  unfold xStrConcat
  refine prefixU hr h hn _ _ ?_
  intro vt c2 h2 hvt
  refine Holds.bind (checkLoop_spec h2 hvt _ ?_) (fun _ c3 h3 => Holds.pure h3)
  bang_loop

theorem xHead_spec : ArmSpec xHead := by
  intro r k c0 c n hr h hn
  unfold xHead
  refine prefixU hr h hn _ _ ?_
  intro vt c2 h2 hvt
  bang_leaf

theorem xIf_spec : ArmSpec xIf := by
  intro r k c0 c n hr h hn
  unfold xIf
  refine prefixU hr h hn _ _ ?_
  intro vt c2 h2 hvt
  refine Holds.bind (checkNext_spec h2 hvt _ _) ?_
  rintro vt2 c3 ⟨h3, hvt2⟩
  dsimp only
  bang_leaf

theorem xListConcat_spec : ArmSpec xListConcat := by
  intro r k c0 c n hr h hn
  unfold xListConcat
  refine prefixU hr h hn _ _ ?_
  intro vt c2 h2 hvt
  split
  · split
    · bang_leaf
    · refine Holds.bind (checkLoop_spec h2 hvt.tail _ ?_) (fun _ c3 h3 => Holds.pure h3)
      bang_loop
  · exact Holds.pure h2

theorem xListFlatten_spec : ArmSpec xListFlatten := by
  intro r k c0 c n hr h hn
  unfold xListFlatten
  refine prefixU hr h hn _ _ ?_
  intro vt c2 h2 hvt
  bang_leaf

theorem xListRemove_spec : ArmSpec xListRemove := by
  intro r k c0 c n hr h hn
  unfold xListRemove
  refine prefixU hr h hn _ _ ?_
  intro vt c2 h2 hvt
  bang_leaf

theorem xListSplat_spec : ArmSpec xListSplat := by
  intro r k c0 c n hr h hn
  unfold xListSplat
  refine prefixU hr h hn _ _ ?_
  intro vt c2 h2 hvt
  split
  · bang_tail
  · exact Holds.pure h2

theorem xRange_spec : ArmSpec xRange := by
  intro r k c0 c n hr h hn
  unfold xRange
  refine prefixU hr h hn _ _ ?_
  intro vt c2 h2 hvt
  dsimp only
  split
  · refine canBeCastedTo_spec _ _ ?_
    intro b
    split
    · refine Holds.bind (checkLoop_spec h2 (hvt.tail.take 2) _ ?_) (fun _ c3 h3 => Holds.pure h3)
      bang_loop
    · bang_leaf
  · exact Holds.pure h2

theorem xSubst_spec : ArmSpec xSubst := by
  intro r k c0 c n hr h hn
  unfold xSubst
  refine prefixU hr h hn _ _ ?_
  intro vt c2 h2 hvt
  dsimp only
  bang_leaf

theorem xTail_spec : ArmSpec xTail := by
  intro r k c0 c n hr h hn
  unfold xTail
  refine prefixU hr h hn _ _ ?_
  intro vt c2 h2 hvt
  dsimp only
  bang_leaf


/-! ### arms that open a scope -/

theorem xFilter_spec : ArmSpec xFilter := by
  intro r k c0 c n hr h hn
  unfold xFilter
  refine prefixV h hn _ _ ?_
  intro vs c1 h1 hv
  split
  · rename_i var hvar
    split
    · rename_i list hlist
      split
      · rename_i pred hpred
        refine Holds.bind (hr.valueV h1 (hv _ (List.mem_of_getElem? hlist))) ?_
        intro lt c2 h2
        split
        · split
          · refine Holds.bind (variableIdentifier_spec h2 (hv _ (List.mem_of_getElem? hvar)).mono.mono) ?_
            rintro x c' ⟨hcc, hx⟩
            subst hcc
            split
            · rename_i name loc
              have hloc := hx name loc rfl
              refine Holds.bind (scopesPush_spec h2.toPost (kind := .xFilter) trivial (by intro id hid; cases hid)) ?_
              rintro _ c3 ⟨hc3, h3⟩
              refine Holds.bind (scopesAddVariable_specV (PostV.refl h3.inv) (hloc.ext h3.ext)) ?_
              intro _ c4 h4
              refine Holds.bind (hr.valueV h4 ((hv _ (List.mem_of_getElem? hpred)).ext h3.ext)) ?_
              intro _ c5 h5
              refine Holds.bind (scopesPop_specV h2 hc3 h5) ?_
              intro _ c6 h6
              exact Holds.pure h6
            · exact Holds.pure h2
          · exact Holds.pure h2
        · exact Holds.pure h2
      · exact Holds.pure h1
    · exact Holds.pure h1
  · exact Holds.pure h1

theorem xForEach_spec : ArmSpec xForEach := by
  intro r k c0 c n hr h hn
  unfold xForEach
  refine prefixV h hn _ _ ?_
  intro vs c1 h1 hv
  split
  · rename_i var hvar
    split
    · rename_i seq hseq
      split
      · rename_i expr hexpr
        refine Holds.bind (hr.valueV h1 (hv _ (List.mem_of_getElem? hseq))) ?_
        intro lt c2 h2
        split
        · split
          · refine Holds.bind (variableIdentifier_spec h2 (hv _ (List.mem_of_getElem? hvar)).mono.mono) ?_
            rintro x c' ⟨hcc, hx⟩
            subst hcc
            split
            · rename_i name loc
              have hloc := hx name loc rfl
              refine Holds.bind (scopesPush_spec h2.toPost (kind := .xForeach) trivial (by intro id hid; cases hid)) ?_
              rintro _ c3 ⟨hc3, h3⟩
              refine Holds.bind (scopesAddVariable_specV (PostV.refl h3.inv) (hloc.ext h3.ext)) ?_
              intro _ c4 h4
              refine Holds.bind (hr.valueV h4 ((hv _ (List.mem_of_getElem? hexpr)).ext h3.ext)) ?_
              intro _ c5 h5
              refine Holds.bind (scopesPop_specV h2 hc3 h5) ?_
              intro _ c6 h6
              exact Holds.pure h6
            · exact Holds.pure h2
          · exact Holds.pure h2
        · exact Holds.pure h2
      · exact Holds.pure h1
    · exact Holds.pure h1
  · exact Holds.pure h1

theorem xFoldl_spec : ArmSpec xFoldl := by
  intro r k c0 c n hr h hn
  unfold xFoldl
  refine prefixV h hn _ _ ?_
  intro vs c1 h1 hv
  split
  · rename_i init hinit
    split
    · rename_i list hlist
      split
      · rename_i acc hacc
        split
        · rename_i var hvar
          split
          · rename_i expr hexpr
            refine Holds.bind (hr.valueV h1 (hv _ (List.mem_of_getElem? hinit))) ?_
            intro it c2 h2
            split
            · refine Holds.bind (hr.valueV h2 (hv _ (List.mem_of_getElem? hlist))) ?_
              intro lt c3 h3
              split
              · split
                · refine Holds.bind (variableIdentifier_spec h3 (hv _ (List.mem_of_getElem? hacc)).mono.mono) ?_
                  rintro x c' ⟨hcc, hx⟩
                  subst hcc
                  split
                  · rename_i aname aloc
                    have haloc := hx aname aloc rfl
                    refine Holds.bind (variableIdentifier_spec h3 (hv _ (List.mem_of_getElem? hvar)).mono.mono) ?_
                    rintro y c' ⟨hcc, hy⟩
                    subst hcc
                    split
                    · rename_i vname vloc
                      have hvloc := hy vname vloc rfl
                      refine Holds.bind (scopesPush_spec h3.toPost (kind := .xFoldl) trivial (by intro id hid; cases hid)) ?_
                      rintro _ c4 ⟨hc4, h4⟩
                      refine Holds.bind (scopesAddVariable_specV (PostV.refl h4.inv) (haloc.ext h4.ext)) ?_
                      intro _ c5 h5
                      refine Holds.bind (scopesAddVariable_specV h5 (hvloc.ext h4.ext)) ?_
                      intro _ c6 h6
                      refine Holds.bind (hr.valueV h6 ((hv _ (List.mem_of_getElem? hexpr)).ext h4.ext)) ?_
                      intro _ c7 h7
                      refine Holds.bind (scopesPop_specV h3 hc4 h7) ?_
                      intro _ c8 h8
                      exact Holds.pure h8
                    · exact Holds.pure h3
                  · exact Holds.pure h3
                · exact Holds.pure h3
              · exact Holds.pure h3
            · exact Holds.pure h2
          · exact Holds.pure h1
        · exact Holds.pure h1
      · exact Holds.pure h1
    · exact Holds.pure h1
  · exact Holds.pure h1

/-- `impl Indexable for ast::BangOperator`: the `unreachable!` arm is never taken on a tree whose
`BangOperator` nodes start with a bang-operator token -/
theorem indexBangOperator_spec {r : Rec} {k : Nat} {c0 c : IndexCtx} {n : PTree} (hr : RecOK r k)
    (h : PostV c0 c) (hn : Fits (k + 1) c0 n) (hkind : ∀ kd, Ast.bangOperatorKind n = some kd → kd ∈ bangKinds) :
    Holds (indexBangOperator r n) c (fun _ c' => PostV c0 c') := by
  unfold indexBangOperator
  split
  · rename_i kd hkd
    have hmem := hkind kd hkd
    split
    all_goals first
      | with_reducible exact arithN_spec hr h hn
      | with_reducible exact arith2_spec hr h hn
      | with_reducible exact xCast_spec hr h hn
      | with_reducible exact xCon_spec hr h hn
      | with_reducible exact xDag_spec hr h hn
      | with_reducible exact xEmpty_spec hr h hn
      | with_reducible exact xEqNe_spec hr h hn
      | with_reducible exact xExists_spec hr h hn
      | with_reducible exact xFilter_spec hr h hn
      | with_reducible exact xFind_spec hr h hn
      | with_reducible exact xFoldl_spec hr h hn
      | with_reducible exact xForEach_spec hr h hn
      | with_reducible exact xCompare_spec hr h hn
      | with_reducible exact xGetDagArg_spec hr h hn
      | with_reducible exact xGetDagName_spec hr h hn
      | with_reducible exact xGetDagOp_spec hr h hn
      | with_reducible exact xHead_spec hr h hn
      | with_reducible exact xIf_spec hr h hn
      | with_reducible exact xInitialized_spec hr h hn
      | with_reducible exact xInterleave_spec hr h hn
      | with_reducible exact xIsA_spec hr h hn
      | with_reducible exact xListConcat_spec hr h hn
      | with_reducible exact xListFlatten_spec hr h hn
      | with_reducible exact xListRemove_spec hr h hn
      | with_reducible exact xListSplat_spec hr h hn
      | with_reducible exact xLog2_spec hr h hn
      | with_reducible exact xNot_spec hr h hn
      | with_reducible exact xRange_spec hr h hn
      | with_reducible exact xRepr_spec hr h hn
      | with_reducible exact xSetDagArg_spec hr h hn
      | with_reducible exact xSetDagName_spec hr h hn
      | with_reducible exact xSetDagOp_spec hr h hn
      | with_reducible exact xSize_spec hr h hn
      | with_reducible exact xStrConcat_spec hr h hn
      | with_reducible exact xSubst_spec hr h hn
      | with_reducible exact xSubstr_spec hr h hn
      | with_reducible exact xTail_spec hr h hn
      | with_reducible exact xToLowerUpper_spec hr h hn
      | skip
    -- the catch-all arm
    exfalso
    simp only [bangKinds, List.mem_cons, List.not_mem_nil, or_false] at hmem
    rcases hmem with h' | h' | h' | h' | h' | h' | h' | h' | h' | h' | h' | h' | h' | h' | h' | h' | h' |
      h' | h' | h' | h' | h' | h' | h' | h' | h' | h' | h' | h' | h' | h' | h' | h' | h' | h' | h' | h' |
      h' | h' | h' | h' | h' | h' | h' | h' | h' | h' | h' | h' | h' | h' <;> subst h' <;> simp_all
  · exact Holds.pure h

end Bang
end Ide
end Tg
