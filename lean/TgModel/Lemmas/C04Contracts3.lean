/-
C04 forward direction, step 3 (continued): contracts for statements and statement lists.
-/
import TgModel.Lemmas.C04Contracts2

namespace Tg
namespace C04L
open Prog Grammar Frag

set_option linter.unusedSimpArgs false

/-! ### flags left behind by statements (needed to state the contracts as equations) -/

mutual
def Frag.Stmt.flagOut : Stmt → Bool
  | .include => true
  | .cls _ _ b => b.isSemi
  | .def_ _ _ b => b.isSemi
  | .defvar _ => true
  | .dump _ => true
  | .assert_ _ _ => true
  | .defset _ _ => false
  | .ifThen _ _ => false
  | .ifElse _ _ e => e.flagOut
  | .let_ _ b => b.flagOut
  | .foreach _ b => b.flagOut
  | .defm _ _ => false
  | .multiclass _ _ _ => false
def Frag.Block.flagOut : Block → Bool
  | .single s => s.flagOut
  | .braces _ => false
end

/-- the grammar function that parses a statement, and the keyword it starts with -/
def Frag.Stmt.fn : Stmt → Fn
  | .include => .include
  | .cls _ _ _ => .class_
  | .def_ _ _ _ => .def_
  | .defvar _ => .defvar
  | .dump _ => .dump
  | .assert_ _ _ => .assert_
  | .defset _ _ => .defset
  | .ifThen _ _ => .if_
  | .ifElse _ _ _ => .if_
  | .let_ _ _ => .let_
  | .foreach _ _ => .foreach
  | .defm _ _ => .defm
  | .multiclass _ _ _ => .multi_class

def Frag.Stmt.first : Stmt → TokenKind
  | .include => .Include
  | .cls _ _ _ => .Class
  | .def_ _ _ _ => .Def
  | .defvar _ => .Defvar
  | .dump _ => .Dump
  | .assert_ _ _ => .Assert
  | .defset _ _ => .Defset
  | .ifThen _ _ => .If
  | .ifElse _ _ _ => .If
  | .let_ _ _ => .Let
  | .foreach _ _ => .Foreach
  | .defm _ _ => .Defm
  | .multiclass _ _ _ => .MultiClass

/-- the node kind of a statement -/
def Frag.Stmt.nk : Stmt → SyntaxKind
  | .include => .Include
  | .cls _ _ _ => .Class
  | .def_ _ _ _ => .Def
  | .defvar _ => .Defvar
  | .dump _ => .Dump
  | .assert_ _ _ => .Assert
  | .defset _ _ => .Defset
  | .ifThen _ _ => .If
  | .ifElse _ _ _ => .If
  | .let_ _ _ => .Let
  | .foreach _ _ => .Foreach
  | .defm _ _ => .Defm
  | .multiclass _ _ _ => .MultiClass

def Frag.Stmts.kinds : Stmts → List SyntaxKind
  | .nil => []
  | .cons s ss => s.nk :: ss.kinds

def Frag.ForeachInit.nk : ForeachInit → SyntaxKind
  | .braces _ => .RangeList
  | .piece _ => .RangePiece
  | .value _ => .Value

/-- a statement list node hands every statement to its accessor -/
theorem good_stmts (ss : Stmts) :
    goodNode .StatementList (pushAll ss.kinds []).reverse = true := by
  refine good_all_push .StatementList _ rfl rfl _ ?_
  have key : ∀ (ss : Stmts), ∀ x ∈ ss.kinds, (AstTable.Field.casts ⟨"statements", .all, [SyntaxKind.Include, SyntaxKind.Assert, SyntaxKind.Class, SyntaxKind.Def, SyntaxKind.Defm, SyntaxKind.Defset, SyntaxKind.Defvar, SyntaxKind.Dump, SyntaxKind.Foreach, SyntaxKind.If, SyntaxKind.Let, SyntaxKind.MultiClass]⟩).contains x = true := by
    intro ss
    induction ss using Stmts.rec (motive_1 := fun _ => True) (motive_2 := fun _ => True) with
    | nil => intro x hx; simp [Stmts.kinds] at hx
    | cons s ss _ ih =>
      intro x hx
      rcases List.mem_cons.mp hx with rfl | hx
      · cases s <;> rfl
      · exact ih x hx
    | _ => trivial
  exact key ss

theorem stmt_render_cons (s : Stmt) (Z : List TokenKind) : ∃ tl, s.render ++ Z = s.first :: tl := by
  cases s <;> exact ⟨_, rfl⟩

section
variable (fl : Bool) (d : Nat) (loc : List Bool) (cps : CpStack) (cur : List SyntaxKind) (ps : List (SyntaxKind × List SyntaxKind))

/-! ### dispatch -/

def stmtTable : List (TokenKind × Fn) := [
  (.Include, .include), (.Assert, .assert_), (.Class, .class_), (.Def, .def_), (.Defm, .defm),
  (.Defset, .defset), (.Defvar, .defvar), (.Dump, .dump), (.Foreach, .foreach), (.If, .if_), (.Let, .let_),
  (.MultiClass, .multi_class)]

def mcTable : List (TokenKind × Fn) := [
  (.Assert, .assert_), (.Def, .def_), (.Defm, .defm), (.Dump, .dump), (.Foreach, .foreach), (.Let, .let_),
  (.If, .if_)]

/-- `statement` calls the function its first token selects -/
theorem dispatch_stmt {k : TokenKind} {f : Fn} (hkf : (k, f) ∈ stmtTable) (ks : List TokenKind) (a' : AState)
    (m : Nat) (h : ax m (call f) ⟨k :: ks, fl, d, loc, cps, true, cur, ps⟩ = some a') :
    ax (m + 16) (call .statement) ⟨k :: ks, fl, d, loc, cps, true, cur, ps⟩ = some a' := by
  simp only [stmtTable, List.mem_cons, Prod.mk.injEq, List.not_mem_nil, or_false] at hkf
  rcases hkf with ⟨rfl, rfl⟩ | ⟨rfl, rfl⟩ | ⟨rfl, rfl⟩ | ⟨rfl, rfl⟩ | ⟨rfl, rfl⟩ | ⟨rfl, rfl⟩ | ⟨rfl, rfl⟩ |
    ⟨rfl, rfl⟩ | ⟨rfl, rfl⟩ | ⟨rfl, rfl⟩ | ⟨rfl, rfl⟩ | ⟨rfl, rfl⟩ <;>
  · rw [ax_call]
    ax_eval [statementArms]
    exact aexec_mono _ _ _ _ _ h _ (by omega)

theorem dispatch_mcstmt {k : TokenKind} {f : Fn} (hkf : (k, f) ∈ mcTable) (ks : List TokenKind) (a' : AState)
    (m : Nat) (h : ax m (call f) ⟨k :: ks, fl, d, loc, cps, true, cur, ps⟩ = some a') :
    ax (m + 16) (call .multi_class_statement) ⟨k :: ks, fl, d, loc, cps, true, cur, ps⟩ = some a' := by
  simp only [mcTable, List.mem_cons, Prod.mk.injEq, List.not_mem_nil, or_false] at hkf
  rcases hkf with ⟨rfl, rfl⟩ | ⟨rfl, rfl⟩ | ⟨rfl, rfl⟩ | ⟨rfl, rfl⟩ | ⟨rfl, rfl⟩ | ⟨rfl, rfl⟩ | ⟨rfl, rfl⟩ <;>
  · rw [ax_call]
    ax_eval [mcStatementArms]
    exact aexec_mono _ _ _ _ _ h _ (by omega)

theorem stmt_table_mem (s : Stmt) : (s.first, s.fn) ∈ stmtTable := by
  cases s <;> simp [Stmt.first, Stmt.fn, stmtTable]

theorem mc_table_mem (s : Stmt) (h : s.isMC = true) : (s.first, s.fn) ∈ mcTable := by
  cases s <;> simp [Stmt.isMC] at h <;> simp [Stmt.first, Stmt.fn, mcTable]

/-- from the contract of the selected function to the contract of `statement` -/
theorem c_stmt_of_fn (s : Stmt) (X : List TokenKind) (fl' : Bool) (k : SyntaxKind)
    (hfn : ∀ (n : Nat) (fl : Bool) (d : Nat) (cps : CpStack) (cur : List SyntaxKind) (ps : List (SyntaxKind × List SyntaxKind)), 64 * s.render.length + 1024 ≤ n →
      ax n (call s.fn) ⟨s.render ++ X, fl, d, loc, cps, true, cur, ps⟩ = some ⟨X, fl', d, loc, cps, true, k :: cur, ps⟩) :
    ∀ (n : Nat) (fl : Bool) (d : Nat) (cps : CpStack) (cur : List SyntaxKind) (ps : List (SyntaxKind × List SyntaxKind)), 64 * s.render.length + 1088 ≤ n →
      ax n (call .statement) ⟨s.render ++ X, fl, d, loc, cps, true, cur, ps⟩ = some ⟨X, fl', d, loc, cps, true, k :: cur, ps⟩ := by
  intro n fl d cps cur ps hn
  obtain ⟨m, rfl⟩ : ∃ m, n = m + 16 := ⟨n - 16, by omega⟩
  have h := hfn m fl d cps cur ps (by omega)
  obtain ⟨tl, e⟩ := stmt_render_cons s X
  rw [e] at h ⊢
  exact dispatch_stmt fl d loc cps cur ps (stmt_table_mem s) tl _ m h

theorem c_mcstmt_of_fn (s : Stmt) (hmc : s.isMC = true) (X : List TokenKind) (fl' : Bool) (k : SyntaxKind)
    (hfn : ∀ (n : Nat) (fl : Bool) (d : Nat) (cps : CpStack) (cur : List SyntaxKind) (ps : List (SyntaxKind × List SyntaxKind)), 64 * s.render.length + 1024 ≤ n →
      ax n (call s.fn) ⟨s.render ++ X, fl, d, loc, cps, true, cur, ps⟩ = some ⟨X, fl', d, loc, cps, true, k :: cur, ps⟩) :
    ∀ (n : Nat) (fl : Bool) (d : Nat) (cps : CpStack) (cur : List SyntaxKind) (ps : List (SyntaxKind × List SyntaxKind)), 64 * s.render.length + 1088 ≤ n →
      ax n (call .multi_class_statement) ⟨s.render ++ X, fl, d, loc, cps, true, cur, ps⟩ = some ⟨X, fl', d, loc, cps, true, k :: cur, ps⟩ := by
  intro n fl d cps cur ps hn
  obtain ⟨m, rfl⟩ : ∃ m, n = m + 16 := ⟨n - 16, by omega⟩
  have h := hfn m fl d cps cur ps (by omega)
  obtain ⟨tl, e⟩ := stmt_render_cons s X
  rw [e] at h ⊢
  exact dispatch_mcstmt fl d loc cps cur ps (mc_table_mem s hmc) tl _ m h

/-! ### simple statements -/

theorem c_include (X : List TokenKind) (hS : (X.headD .Eof == .StrVal) = false) (n : Nat) (hn : 192 ≤ n) :
    ax n (call .include) ⟨TokenKind.Include :: TokenKind.StrVal :: X, fl, d, loc, cps, true, cur, ps⟩ =
      some ⟨X, true, d, loc, cps, true, SyntaxKind.Include :: cur, ps⟩ := by
  obtain ⟨m, rfl⟩ : ∃ m, n = m + 40 := ⟨n - 40, by omega⟩
  ax_eval [ax_call, ax_loop, hS]

theorem c_defvar (v : Val) (X : List TokenKind) (n : Nat) (hn : 64 * v.render.length + 640 ≤ n) :
    ax n (call .defvar) ⟨TokenKind.Defvar :: TokenKind.Id :: TokenKind.Equal :: (v.render ++ TokenKind.Semi :: X), fl, d, loc, cps, true, cur, ps⟩ =
      some ⟨X, true, d, loc, cps, true, SyntaxKind.Defvar :: cur, ps⟩ := by
  obtain ⟨m, rfl⟩ : ∃ m, n = m + 40 := ⟨n - 40, by omega⟩
  ax_eval [ax_call (f := .defvar), c_identifier, c_value]

theorem c_dump (v : Val) (X : List TokenKind) (n : Nat) (hn : 64 * v.render.length + 640 ≤ n) :
    ax n (call .dump) ⟨TokenKind.Dump :: (v.render ++ TokenKind.Semi :: X), fl, d, loc, cps, true, cur, ps⟩ =
      some ⟨X, true, d, loc, cps, true, SyntaxKind.Dump :: cur, ps⟩ := by
  obtain ⟨m, rfl⟩ : ∃ m, n = m + 40 := ⟨n - 40, by omega⟩
  ax_eval [ax_call (f := .dump), c_value]

theorem c_assert (c msg : Val) (X : List TokenKind) (n : Nat)
    (hn : 64 * (c.render.length + msg.render.length) + 640 ≤ n) :
    ax n (call .assert_) ⟨TokenKind.Assert :: (c.render ++ TokenKind.Comma :: (msg.render ++ TokenKind.Semi :: X)), fl, d, loc, cps, true, cur, ps⟩ =
      some ⟨X, true, d, loc, cps, true, SyntaxKind.Assert :: cur, ps⟩ := by
  obtain ⟨m, rfl⟩ : ∃ m, n = m + 40 := ⟨n - 40, by omega⟩
  ax_eval [ax_call (f := .assert_), c_value]

/-! ### `class`, `def`, `defm` -/

theorem c_class (ta : List TArg) (p : List ClassRef) (b : Body) (X : List TokenKind) (n : Nat)
    (hn : 64 * ((targsRender ta).length + (recordBodyRender p b).length) + 960 ≤ n) :
    ax n (call .class_) ⟨TokenKind.Class :: TokenKind.Id :: (targsRender ta ++ (recordBodyRender p b ++ X)), fl, d, loc, cps, true, cur, ps⟩ =
      some ⟨X, b.isSemi, d, loc, cps, true, SyntaxKind.Class :: cur, ps⟩ := by
  obtain ⟨m, rfl⟩ : ∃ m, n = m + 40 := ⟨n - 40, by omega⟩
  have hL : ((recordBodyRender p b ++ X).headD .Eof == .Less) = false :=
    ne_of_mem (recordBody_head p b X) (by decide)
  have hg : goodNode .Class (SyntaxKind.RecordBody :: optPush .TemplateArgList [.Identifier] ta.isEmpty).reverse = true := by
    cases ta.isEmpty <;> rfl
  ax_eval [ax_call (f := .class_), c_identifier, c_opt_targs, c_record_body]

theorem nvalFollowOk_of_mem {k : TokenKind} {S : List TokenKind} (h : S.contains k = true)
    (hS : S.all nvalFollowOk = true) : nvalFollowOk k = true := prop_of_mem nvalFollowOk h hS

def namePush (cur : List SyntaxKind) : Option NameVal → List SyntaxKind
  | none => cur
  | some _ => .Value :: cur

def nameFlag (fl : Bool) : Option NameVal → Bool
  | none => fl
  | some _ => true

theorem c_object_name (o : Option NameVal) (Z : List TokenKind)
    (hZ : [TokenKind.Colon, .Semi, .LBrace].contains (Z.headD .Eof) = true)
    (n : Nat) (hn : 64 * (optName o).length + 512 ≤ n) :
    ax n (call .object_name) ⟨optName o ++ Z, fl, d, loc, cps, true, cur, ps⟩ = some ⟨Z, nameFlag fl o, d, loc, cps, true, namePush cur o, ps⟩ := by
  cases o with
  | none =>
    obtain ⟨m, rfl⟩ : ∃ m, n = m + 20 := ⟨n - 20, by omega⟩
    ax_eval [ax_call, optName, nameFlag, namePush]
  | some v =>
    simp only [optName] at hn
    obtain ⟨m, rfl⟩ : ∃ m, n = m + 20 := ⟨n - 20, by omega⟩
    have hv := nvalFollowOk_of_mem hZ (by decide)
    have h1 : ∀ Y, [TokenKind.Colon, .Semi, .LBrace].contains ((v.render ++ Y).headD .Eof) = false :=
      fun Y => (nameval_head v Y).2
    have h2 : ∀ Y, Tables.valueStart.contains ((v.render ++ Y).headD .Eof) = true :=
      fun Y => (nameval_head v Y).1
    ax_eval [ax_call (f := .object_name), ax_call (f := .opt_name_value), optName, nameFlag, namePush, c_name_value]

theorem c_def (o : Option NameVal) (p : List ClassRef) (b : Body) (X : List TokenKind) (n : Nat)
    (hn : 64 * ((optName o).length + (recordBodyRender p b).length) + 960 ≤ n) :
    ax n (call .def_) ⟨TokenKind.Def :: (optName o ++ (recordBodyRender p b ++ X)), fl, d, loc, cps, true, cur, ps⟩ =
      some ⟨X, b.isSemi, d, loc, cps, true, SyntaxKind.Def :: cur, ps⟩ := by
  obtain ⟨m, rfl⟩ : ∃ m, n = m + 40 := ⟨n - 40, by omega⟩
  have hZ := recordBody_head p b X
  have hg : goodNode .Def (SyntaxKind.RecordBody :: namePush [] o).reverse = true := by cases o <;> rfl
  ax_eval [ax_call (f := .def_), c_object_name, c_record_body]

theorem parents_head (p : List ClassRef) (k : TokenKind) (Z : List TokenKind) :
    [TokenKind.Colon, k].contains ((parentsRender p ++ k :: Z).headD .Eof) = true := by
  cases p with
  | nil => simp [parentsRender]
  | cons r rs => rfl

theorem c_defm (o : Option NameVal) (p : List ClassRef) (X : List TokenKind) (n : Nat)
    (hn : 64 * ((optName o).length + (parentsRender p).length) + 960 ≤ n) :
    ax n (call .defm) ⟨TokenKind.Defm :: (optName o ++ (parentsRender p ++ TokenKind.Semi :: X)), fl, d, loc, cps, true, cur, ps⟩ =
      some ⟨X, false, d, loc, cps, true, SyntaxKind.Defm :: cur, ps⟩ := by
  obtain ⟨m, rfl⟩ : ∃ m, n = m + 40 := ⟨n - 40, by omega⟩
  have hZ : [TokenKind.Colon, .Semi, .LBrace].contains ((parentsRender p ++ TokenKind.Semi :: X).headD .Eof) = true :=
    in_of_mem (parents_head p .Semi X) (by decide)
  have hg : goodNode .Defm (SyntaxKind.ParentClassList :: namePush [] o).reverse = true := by cases o <;> rfl
  ax_eval [ax_call (f := .defm), c_object_name, c_parent_class_list]

/-! ### `let` lists, `foreach` iterators -/

theorem c_let_item (i : LetItem) (X : List TokenKind)
    (hX : [TokenKind.Comma, .In].contains (X.headD .Eof) = true)
    (n : Nat) (hn : 64 * i.render.length + 512 ≤ n) :
    ax n (call .let_item) ⟨i.render ++ X, fl, d, loc, cps, true, cur, ps⟩ = some ⟨X, true, d, loc, cps, true, SyntaxKind.LetItem :: cur, ps⟩ := by
  obtain ⟨r, v⟩ := i
  have hv := valFollowOk_of_mem hX (by decide)
  cases r with
  | none =>
    simp only [LetItem.render, optRange, List.length_cons, List.length_append, List.length_nil] at hn ⊢
    obtain ⟨m, rfl⟩ : ∃ m, n = m + 40 := ⟨n - 40, by omega⟩
    ax_eval [ax_call (f := .let_item), c_identifier, c_value]
  | some r =>
    simp only [LetItem.render, optRange, List.length_cons, List.length_append, List.length_nil] at hn ⊢
    obtain ⟨m, rfl⟩ : ∃ m, n = m + 40 := ⟨n - 40, by omega⟩
    ax_eval [ax_call (f := .let_item), c_identifier, c_value, c_range_list]

theorem c_let_loop (tl : List LetItem) (X : List TokenKind) :
    ∀ (i : LetItem) (n : Nat) (fl : Bool) (cur : List SyntaxKind), 64 * (i.render.length + (letTail tl).length) + 576 ≤ n →
      ax n (loop (ifAt [.Eof] (retB false) (seq (call .let_item) (eatIf .Comma))) nop)
        ⟨i.render ++ (letTail tl ++ TokenKind.In :: X), fl, d, loc, cps, true, cur, ps⟩ =
        some ⟨TokenKind.In :: X, false, d, loc, cps, true, pushAll (List.replicate (tl.length + 1) SyntaxKind.LetItem) cur, ps⟩ := by
  induction tl with
  | nil =>
    intro i n fl cur hn
    simp only [letTail, List.length_nil] at hn
    obtain ⟨m, rfl⟩ : ∃ m, n = m + 20 := ⟨n - 20, by omega⟩
    have hh : ∀ Z, [TokenKind.Eof].contains ((i.render ++ Z).headD .Eof) = false := fun Z => rfl
    rw [ax_loop]
    ax_eval [letTail, c_let_item, List.length_nil]
  | cons j js ih =>
    intro i n fl cur hn
    simp only [letTail, List.length_cons, List.length_append] at hn
    obtain ⟨m, rfl⟩ : ∃ m, n = m + 20 := ⟨n - 20, by omega⟩
    have hh : ∀ Z, [TokenKind.Eof].contains ((i.render ++ Z).headD .Eof) = false := fun Z => rfl
    rw [ax_loop]
    ax_eval [letTail, c_let_item, ih, List.length_cons]

theorem c_let_list (l : LetList) (X : List TokenKind) (n : Nat) (hn : 64 * l.render.length + 640 ≤ n) :
    ax n (call .let_list) ⟨l.render ++ TokenKind.In :: X, fl, d, loc, cps, true, cur, ps⟩ =
      some ⟨TokenKind.In :: X, false, d, loc, cps, true, SyntaxKind.LetList :: cur, ps⟩ := by
  obtain ⟨i, tl⟩ := l
  simp only [LetList.render, List.length_append] at hn ⊢
  obtain ⟨m, rfl⟩ : ∃ m, n = m + 20 := ⟨n - 20, by omega⟩
  have hg : goodNode .LetList (pushAll (List.replicate tl.length .LetItem) [.LetItem]).reverse = true :=
    good_all_push .LetList ⟨"items", .all, [.LetItem]⟩ rfl rfl (List.replicate (tl.length + 1) .LetItem)
      (by intro x hx; rw [List.eq_of_mem_replicate hx]; rfl)
  ax_eval [ax_call (f := .let_list), c_let_loop _ _ _ _ tl X]

theorem c_foreach_init (i : ForeachInit) (hwf : i.wf = true) (X : List TokenKind)
    (n : Nat) (hn : 64 * i.render.length + 512 ≤ n) :
    ax n (call .foreach_iterator_init) ⟨i.render ++ TokenKind.In :: X, fl, d, loc, cps, true, cur, ps⟩ =
      some ⟨TokenKind.In :: X, true, d, loc, cps, true, i.nk :: cur, ps⟩ := by
  cases i with
  | braces r =>
    simp only [ForeachInit.render, List.length_cons, List.length_append, List.length_nil] at hn ⊢
    obtain ⟨m, rfl⟩ : ∃ m, n = m + 40 := ⟨n - 40, by omega⟩
    ax_eval [ax_call (f := .foreach_iterator_init), c_range_list, ForeachInit.nk]
  | piece p =>
    simp only [ForeachInit.render] at hn ⊢
    obtain ⟨m, rfl⟩ : ∃ m, n = m + 40 := ⟨n - 40, by omega⟩
    have hb : p.firstBin = false := by simpa [ForeachInit.wf] using hwf
    have h1 : ∀ Z, [TokenKind.LBrace].contains ((p.render ++ Z).headD .Eof) = false :=
      fun Z => notin_of_mem (piece_head p Z) (by decide)
    have h2 : ∀ Z, [TokenKind.IntVal].contains ((p.render ++ Z).headD .Eof) = true := by
      intro Z
      cases p <;> simp only [RangePiece.firstBin] at hb <;> subst hb <;> rfl
    ax_eval [ax_call (f := .foreach_iterator_init), c_range_piece, ForeachInit.nk]
  | value v =>
    simp only [ForeachInit.render] at hn ⊢
    obtain ⟨m, rfl⟩ : ∃ m, n = m + 40 := ⟨n - 40, by omega⟩
    have hl : (v.firstTok == TokenKind.IntVal) = false ∧ (v.firstTok == TokenKind.LBrace) = false := by
      simpa [ForeachInit.wf] using hwf
    have h1 : ∀ Z, [TokenKind.LBrace].contains ((v.render ++ Z).headD .Eof) = false := by
      intro Z; rw [val_head_eq]; simp only [List.contains_cons, List.contains_nil, hl.2, Bool.or_false]
    have h2 : ∀ Z, [TokenKind.IntVal].contains ((v.render ++ Z).headD .Eof) = false := by
      intro Z; rw [val_head_eq]; simp only [List.contains_cons, List.contains_nil, hl.1, Bool.or_false]
    ax_eval [ax_call (f := .foreach_iterator_init), c_value, ForeachInit.nk]

theorem c_foreach_iterator (i : ForeachInit) (hwf : i.wf = true) (X : List TokenKind)
    (n : Nat) (hn : 64 * i.render.length + 640 ≤ n) :
    ax n (call .foreach_iterator) ⟨TokenKind.Id :: TokenKind.Equal :: (i.render ++ TokenKind.In :: X), fl, d, loc, cps, true, cur, ps⟩ =
      some ⟨TokenKind.In :: X, true, d, loc, cps, true, SyntaxKind.ForeachIterator :: cur, ps⟩ := by
  obtain ⟨m, rfl⟩ : ∃ m, n = m + 40 := ⟨n - 40, by omega⟩
  have hg : goodNode .ForeachIterator (List.reverse [i.nk, .Identifier]) = true := by cases i <;> rfl
  ax_eval [ax_call (f := .foreach_iterator), c_identifier, c_foreach_init]

end

/-! ### statements -/

def stmtFirst : List TokenKind :=
  [.Include, .Class, .Def, .Defvar, .Dump, .Assert, .Defset, .If, .Let, .Foreach, .Defm, .MultiClass]

theorem stmt_head (s : Stmt) (Z : List TokenKind) : stmtFirst.contains ((s.render ++ Z).headD .Eof) = true := by
  cases s <;> rfl

theorem stmt_length_pos (s : Stmt) : 1 ≤ s.render.length := by
  cases s <;> simp [Stmt.render] <;> omega

/-- after a statement list comes the closing token `k` or another statement -/
theorem stmts_head (ss : Stmts) (k : TokenKind) (Z : List TokenKind) :
    (k :: stmtFirst).contains ((ss.render ++ k :: Z).headD .Eof) = true := by
  cases ss with
  | nil => simp [Stmts.render]
  | cons s ss =>
    simp only [Stmts.render, List.append_assoc]
    exact in_of_mem (stmt_head s _) (by simp [stmtFirst])

theorem stmts_head_top (ss : Stmts) : (TokenKind.Eof :: stmtFirst).contains (ss.render.headD .Eof) = true := by
  cases ss with
  | nil => rfl
  | cons s ss =>
    simp only [Stmts.render]
    exact in_of_mem (stmt_head s _) (by decide)

mutual

/-- the function selected by a statement's first token, on that statement -/
theorem c_fn (loc : List Bool) : (s : Stmt) → s.wf = true → (X : List TokenKind) →
    (X.headD .Eof == .StrVal) = false → (s.openIf = true → (X.headD .Eof == .ElseKw) = false) →
    ∀ (n : Nat) (fl : Bool) (d : Nat) (cps : CpStack) (cur : List SyntaxKind) (ps : List (SyntaxKind × List SyntaxKind)), 64 * s.render.length + 1024 ≤ n →
      ax n (call s.fn) ⟨s.render ++ X, fl, d, loc, cps, true, cur, ps⟩ = some ⟨X, s.flagOut, d, loc, cps, true, s.nk :: cur, ps⟩
  | .include, _, X, hS, _, n, fl, d, cps, cur, ps, hn => by
    simp only [Stmt.render, List.length_cons, List.length_nil] at hn
    ax_eval [Stmt.fn, Stmt.nk, Stmt.render, Stmt.flagOut, c_include]
  | .cls ta p b, _, X, hS, _, n, fl, d, cps, cur, ps, hn => by
    simp only [Stmt.render, List.length_cons, List.length_append] at hn
    ax_eval [Stmt.fn, Stmt.nk, Stmt.render, Stmt.flagOut, c_class]
  | .def_ o p b, _, X, hS, _, n, fl, d, cps, cur, ps, hn => by
    simp only [Stmt.render, List.length_cons, List.length_append] at hn
    ax_eval [Stmt.fn, Stmt.nk, Stmt.render, Stmt.flagOut, c_def]
  | .defvar v, _, X, hS, _, n, fl, d, cps, cur, ps, hn => by
    simp only [Stmt.render, List.length_cons, List.length_append, List.length_nil] at hn
    ax_eval [Stmt.fn, Stmt.nk, Stmt.render, Stmt.flagOut, c_defvar]
  | .dump v, _, X, hS, _, n, fl, d, cps, cur, ps, hn => by
    simp only [Stmt.render, List.length_cons, List.length_append, List.length_nil] at hn
    ax_eval [Stmt.fn, Stmt.nk, Stmt.render, Stmt.flagOut, c_dump]
  | .assert_ c msg, _, X, hS, _, n, fl, d, cps, cur, ps, hn => by
    simp only [Stmt.render, List.length_cons, List.length_append, List.length_nil] at hn
    ax_eval [Stmt.fn, Stmt.nk, Stmt.render, Stmt.flagOut, c_assert]
  | .defm o p, _, X, hS, _, n, fl, d, cps, cur, ps, hn => by
    simp only [Stmt.render, List.length_cons, List.length_append, List.length_nil] at hn
    ax_eval [Stmt.fn, Stmt.nk, Stmt.render, Stmt.flagOut, c_defm]
  | .defset t body, hwf, X, hS, _, n, fl, d, cps, cur, ps, hn => by
    obtain ⟨t, ht⟩ := t
    simp only [Stmt.render, DTy.render, List.length_cons, List.length_append, List.length_nil] at hn
    obtain ⟨m, rfl⟩ : ∃ m, n = m + 60 := ⟨n - 60, by omega⟩
    have hwf' : body.wf = true := by simpa [Stmt.wf] using hwf
    have ih := c_stmts_loop loc body hwf' X
    have hgs := good_stmts body
    have hg2 : goodNode .Defset (List.reverse [.StatementList, .Identifier, t.nk]) = true := by cases t <;> rfl
    ax_eval [Stmt.fn, Stmt.nk, ax_call (f := .defset), ax_call (f := .statement_list_block), Stmt.render,
      DTy.render, Stmt.flagOut, c_type, c_identifier, ih]
  | .ifThen c thn, hwf, X, hS, hE, n, fl, d, cps, cur, ps, hn => by
    simp only [Stmt.render, List.length_cons, List.length_append] at hn
    obtain ⟨m, rfl⟩ : ∃ m, n = m + 60 := ⟨n - 60, by omega⟩
    have hwf' : thn.wf = true := by simpa [Stmt.wf] using hwf
    have hE' : (X.headD .Eof == .ElseKw) = false := hE rfl
    have hpos := val_length_pos c
    have ih := c_block loc thn hwf' X hS (fun _ => hE')
    ax_eval [Stmt.fn, Stmt.nk, ax_call (f := .if_), Stmt.render, Stmt.flagOut, c_value, ih]
  | .ifElse c thn els, hwf, X, hS, hE, n, fl, d, cps, cur, ps, hn => by
    simp only [Stmt.render, List.length_cons, List.length_append] at hn
    obtain ⟨m, rfl⟩ : ∃ m, n = m + 60 := ⟨n - 60, by omega⟩
    have hwf' : thn.wf = true ∧ thn.openIf = false ∧ els.wf = true := by
      simpa [Stmt.wf, and_assoc] using hwf
    have ih1 := c_block loc thn hwf'.1 (TokenKind.ElseKw :: (els.render ++ X)) rfl
      (fun h => by rw [hwf'.2.1] at h; cases h)
    have ih2 := c_block loc els hwf'.2.2 X hS (fun h => hE (by simpa [Stmt.openIf] using h))
    have hpos := val_length_pos c
    ax_eval [Stmt.fn, Stmt.nk, ax_call (f := .if_), Stmt.render, Stmt.flagOut, c_value, ih1, ih2]
  | .let_ is body, hwf, X, hS, hE, n, fl, d, cps, cur, ps, hn => by
    simp only [Stmt.render, List.length_cons, List.length_append] at hn
    obtain ⟨m, rfl⟩ : ∃ m, n = m + 60 := ⟨n - 60, by omega⟩
    have hwf' : body.wf = true := by simpa [Stmt.wf] using hwf
    have ih := c_block loc body hwf' X hS (fun h => hE (by simpa [Stmt.openIf] using h))
    have hpos : 1 ≤ is.render.length := by
      obtain ⟨i, tl⟩ := is
      simp [LetList.render, LetItem.render]
    ax_eval [Stmt.fn, Stmt.nk, ax_call (f := .let_), Stmt.render, Stmt.flagOut, c_let_list, ih]
  | .foreach i body, hwf, X, hS, hE, n, fl, d, cps, cur, ps, hn => by
    simp only [Stmt.render, List.length_cons, List.length_append] at hn
    obtain ⟨m, rfl⟩ : ∃ m, n = m + 60 := ⟨n - 60, by omega⟩
    have hwf' : i.wf = true ∧ body.wf = true := by simpa [Stmt.wf] using hwf
    have hiw := hwf'.1
    have ih := c_block loc body hwf'.2 X hS (fun h => hE (by simpa [Stmt.openIf] using h))
    ax_eval [Stmt.fn, Stmt.nk, ax_call (f := .foreach), Stmt.render, Stmt.flagOut, c_foreach_iterator, ih]
  | .multiclass ta p body, hwf, X, hS, _, n, fl, d, cps, cur, ps, hn => by
    simp only [Stmt.render, List.length_cons, List.length_append, List.length_nil] at hn
    obtain ⟨m, rfl⟩ : ∃ m, n = m + 60 := ⟨n - 60, by omega⟩
    have hwf' : body.isNil = false ∧ body.allMC = true ∧ body.wf = true := by
      simpa [Stmt.wf, and_assoc] using hwf
    have ih := c_mcstmts loc body hwf'.1 hwf'.2.1 hwf'.2.2 X
    have hL : ∀ Z, ((parentsRender p ++ TokenKind.LBrace :: Z).headD .Eof == TokenKind.Less) = false :=
      fun Z => ne_of_mem (parents_head p .LBrace Z) (by decide)
    have hg : goodNode .MultiClass (SyntaxKind.StatementList :: SyntaxKind.ParentClassList ::
        optPush .TemplateArgList [.Identifier] ta.isEmpty).reverse = true := by cases ta.isEmpty <;> rfl
    ax_eval [Stmt.fn, Stmt.nk, ax_call (f := .multi_class), Stmt.render, Stmt.flagOut, c_identifier, c_opt_targs,
      c_parent_class_list, ih]

/-- **`statement_list_single_or_block`** on a statement or a braced list -/
theorem c_block (loc : List Bool) : (b : Block) → b.wf = true → (X : List TokenKind) →
    (X.headD .Eof == .StrVal) = false → (b.openIf = true → (X.headD .Eof == .ElseKw) = false) →
    ∀ (n : Nat) (fl : Bool) (d : Nat) (cps : CpStack) (cur : List SyntaxKind) (ps : List (SyntaxKind × List SyntaxKind)), 64 * b.render.length + 1152 ≤ n →
      ax n (call .statement_list_single_or_block) ⟨b.render ++ X, fl, d, loc, cps, true, cur, ps⟩ =
        some ⟨X, b.flagOut, d, loc, cps, true, SyntaxKind.StatementList :: cur, ps⟩
  | .single s, hwf, X, hS, hE, n, fl, d, cps, cur, ps, hn => by
    simp only [Block.render] at hn
    obtain ⟨m, rfl⟩ : ∃ m, n = m + 20 := ⟨n - 20, by omega⟩
    have hwf' : s.wf = true := by simpa [Block.wf] using hwf
    have ih := c_stmt_of_fn loc s X _ _ (c_fn loc s hwf' X hS (fun h => hE (by simpa [Block.openIf] using h)))
    have hB : ∀ Z, ((s.render ++ Z).headD .Eof == TokenKind.LBrace) = false :=
      fun Z => ne_of_mem (stmt_head s Z) (by decide)
    have hg : goodNode .StatementList (List.reverse [s.nk]) = true := by cases s <;> rfl
    ax_eval [ax_call (f := .statement_list_single_or_block), Block.render, Block.flagOut, ih]
  | .braces ss, hwf, X, hS, hE, n, fl, d, cps, cur, ps, hn => by
    simp only [Block.render, List.length_cons, List.length_append, List.length_nil] at hn
    obtain ⟨m, rfl⟩ : ∃ m, n = m + 20 := ⟨n - 20, by omega⟩
    have hwf' : ss.wf = true := by simpa [Block.wf] using hwf
    have ih := c_stmts_loop loc ss hwf' X
    have hgs := good_stmts ss
    ax_eval [ax_call (f := .statement_list_single_or_block), Block.render, Block.flagOut, ih]

/-- the statement loop of a braced list -/
theorem c_stmts_loop (loc : List Bool) : (ss : Stmts) → ss.wf = true → (X : List TokenKind) →
    ∀ (n : Nat) (fl : Bool) (d : Nat) (cps : CpStack) (cur : List SyntaxKind) (ps : List (SyntaxKind × List SyntaxKind)), 64 * ss.render.length + 1152 ≤ n →
      ax n (loop (ifAt [.Eof, .RBrace] (retB false) (retB true)) (call .statement))
        ⟨ss.render ++ TokenKind.RBrace :: X, fl, d, loc, cps, true, cur, ps⟩ =
        some ⟨TokenKind.RBrace :: X, false, d, loc, cps, true, pushAll ss.kinds cur, ps⟩
  | .nil, _, X, n, fl, d, cps, cur, ps, hn => by
    obtain ⟨m, rfl⟩ : ∃ m, n = m + 20 := ⟨n - 20, by omega⟩
    rw [ax_loop]
    ax_eval [Stmts.render, Stmts.kinds]
  | .cons s ss, hwf, X, n, fl, d, cps, cur, ps, hn => by
    simp only [Stmts.render, List.length_append] at hn
    obtain ⟨m, rfl⟩ : ∃ m, n = m + 20 := ⟨n - 20, by omega⟩
    have hwf' : s.wf = true ∧ ss.wf = true := by simpa [Stmts.wf] using hwf
    have hpos := stmt_length_pos s
    have hh : ∀ Z, [TokenKind.Eof, .RBrace].contains ((s.render ++ Z).headD .Eof) = false :=
      fun Z => notin_of_mem (stmt_head s Z) (by decide)
    have hS : ((ss.render ++ TokenKind.RBrace :: X).headD .Eof == TokenKind.StrVal) = false :=
      ne_of_mem (stmts_head ss .RBrace X) (by decide)
    have hE : ((ss.render ++ TokenKind.RBrace :: X).headD .Eof == TokenKind.ElseKw) = false :=
      ne_of_mem (stmts_head ss .RBrace X) (by decide)
    have ih1 := c_stmt_of_fn loc s (ss.render ++ TokenKind.RBrace :: X) _ _
      (c_fn loc s hwf'.1 (ss.render ++ TokenKind.RBrace :: X) hS (fun _ => hE))
    have ih2 := c_stmts_loop loc ss hwf'.2 X
    rw [ax_loop]
    ax_eval [Stmts.render, Stmts.kinds, ih1, ih2]

/-- the statement loop of a `multiclass` body -/
theorem c_mcstmts_loop (loc : List Bool) : (ss : Stmts) → ss.allMC = true → ss.wf = true → (X : List TokenKind) →
    ∀ (n : Nat) (fl : Bool) (d : Nat) (cps : CpStack) (cur : List SyntaxKind) (ps : List (SyntaxKind × List SyntaxKind)), 64 * ss.render.length + 1152 ≤ n →
      ax n (loop (ifAt [.Eof, .RBrace] (retB false) (retB true)) (call .multi_class_statement))
        ⟨ss.render ++ TokenKind.RBrace :: X, fl, d, loc, cps, true, cur, ps⟩ =
        some ⟨TokenKind.RBrace :: X, false, d, loc, cps, true, pushAll ss.kinds cur, ps⟩
  | .nil, _, _, X, n, fl, d, cps, cur, ps, hn => by
    obtain ⟨m, rfl⟩ : ∃ m, n = m + 20 := ⟨n - 20, by omega⟩
    rw [ax_loop]
    ax_eval [Stmts.render, Stmts.kinds]
  | .cons s ss, hmc, hwf, X, n, fl, d, cps, cur, ps, hn => by
    simp only [Stmts.render, List.length_append] at hn
    obtain ⟨m, rfl⟩ : ∃ m, n = m + 20 := ⟨n - 20, by omega⟩
    have hwf' : s.wf = true ∧ ss.wf = true := by simpa [Stmts.wf] using hwf
    have hmc' : s.isMC = true ∧ ss.allMC = true := by simpa [Stmts.allMC] using hmc
    have hpos := stmt_length_pos s
    have hh : ∀ Z, [TokenKind.Eof, .RBrace].contains ((s.render ++ Z).headD .Eof) = false :=
      fun Z => notin_of_mem (stmt_head s Z) (by decide)
    have hS : ((ss.render ++ TokenKind.RBrace :: X).headD .Eof == TokenKind.StrVal) = false :=
      ne_of_mem (stmts_head ss .RBrace X) (by decide)
    have hE : ((ss.render ++ TokenKind.RBrace :: X).headD .Eof == TokenKind.ElseKw) = false :=
      ne_of_mem (stmts_head ss .RBrace X) (by decide)
    have ih1 := c_mcstmt_of_fn loc s hmc'.1 (ss.render ++ TokenKind.RBrace :: X) _ _
      (c_fn loc s hwf'.1 (ss.render ++ TokenKind.RBrace :: X) hS (fun _ => hE))
    have ih2 := c_mcstmts_loop loc ss hmc'.2 hwf'.2 X
    rw [ax_loop]
    ax_eval [Stmts.render, Stmts.kinds, ih1, ih2]

/-- **`multi_class_statements`** on a non-empty list of multiclass statements (after the `{`) -/
theorem c_mcstmts (loc : List Bool) : (ss : Stmts) → ss.isNil = false → ss.allMC = true → ss.wf = true →
    (X : List TokenKind) →
    ∀ (n : Nat) (fl : Bool) (d : Nat) (cps : CpStack) (cur : List SyntaxKind) (ps : List (SyntaxKind × List SyntaxKind)), 64 * ss.render.length + 1216 ≤ n →
      ax n (call .multi_class_statements) ⟨ss.render ++ TokenKind.RBrace :: X, fl, d, loc, cps, true, cur, ps⟩ =
        some ⟨X, false, d, loc, cps, true, SyntaxKind.StatementList :: cur, ps⟩
  | .nil, hnil, _, _, _, _, _, _, _, _, _, _ => by simp [Stmts.isNil] at hnil
  | .cons s ss, _, hmc, hwf, X, n, fl, d, cps, cur, ps, hn => by
    simp only [Stmts.render, List.length_append] at hn
    obtain ⟨m, rfl⟩ : ∃ m, n = m + 20 := ⟨n - 20, by omega⟩
    have hwf' : s.wf = true ∧ ss.wf = true := by simpa [Stmts.wf] using hwf
    have hmc' : s.isMC = true ∧ ss.allMC = true := by simpa [Stmts.allMC] using hmc
    have hS : ((ss.render ++ TokenKind.RBrace :: X).headD .Eof == TokenKind.StrVal) = false :=
      ne_of_mem (stmts_head ss .RBrace X) (by decide)
    have hE : ((ss.render ++ TokenKind.RBrace :: X).headD .Eof == TokenKind.ElseKw) = false :=
      ne_of_mem (stmts_head ss .RBrace X) (by decide)
    have ih1 := c_mcstmt_of_fn loc s hmc'.1 (ss.render ++ TokenKind.RBrace :: X) _ _
      (c_fn loc s hwf'.1 (ss.render ++ TokenKind.RBrace :: X) hS (fun _ => hE))
    have ih2 := c_mcstmts_loop loc ss hmc'.2 hwf'.2 X
    have hg : goodNode .StatementList (pushAll ss.kinds [s.nk]).reverse = true := good_stmts (.cons s ss)
    ax_eval [ax_call (f := .multi_class_statements), Stmts.render, ih1, ih2]

end

/-- the top-level statement loop -/
theorem c_stmts_top (loc : List Bool) : (ss : Stmts) → ss.wf = true →
    ∀ (n : Nat) (fl : Bool) (d : Nat) (cps : CpStack) (cur : List SyntaxKind) (ps : List (SyntaxKind × List SyntaxKind)), 64 * ss.render.length + 1152 ≤ n →
      ax n (loop (ifAt [.Eof] (retB false) (retB true)) (call .statement)) ⟨ss.render, fl, d, loc, cps, true, cur, ps⟩ =
        some ⟨[], false, d, loc, cps, true, pushAll ss.kinds cur, ps⟩
  | .nil, _, n, fl, d, cps, cur, ps, hn => by
    obtain ⟨m, rfl⟩ : ∃ m, n = m + 20 := ⟨n - 20, by omega⟩
    rw [ax_loop]
    ax_eval [Stmts.render, Stmts.kinds]
  | .cons s ss, hwf, n, fl, d, cps, cur, ps, hn => by
    simp only [Stmts.render, List.length_append] at hn
    obtain ⟨m, rfl⟩ : ∃ m, n = m + 20 := ⟨n - 20, by omega⟩
    have hwf' : s.wf = true ∧ ss.wf = true := by simpa [Stmts.wf] using hwf
    have hpos := stmt_length_pos s
    have hh : ∀ Z, [TokenKind.Eof].contains ((s.render ++ Z).headD .Eof) = false :=
      fun Z => notin_of_mem (stmt_head s Z) (by decide)
    have hS : (ss.render.headD .Eof == TokenKind.StrVal) = false :=
      ne_of_mem (stmts_head_top ss) (by decide)
    have hE : (ss.render.headD .Eof == TokenKind.ElseKw) = false :=
      ne_of_mem (stmts_head_top ss) (by decide)
    have ih1 := c_stmt_of_fn loc s ss.render _ _ (c_fn loc s hwf'.1 ss.render hS (fun _ => hE))
    have ih2 := c_stmts_top loc ss hwf'.2
    rw [ax_loop]
    ax_eval [Stmts.render, Stmts.kinds, ih1, ih2]

/-- **`statement_list_top`** on a fragment program (from a state that may still be at trivia) -/
theorem c_statement_list_top (p : Program) (fl : Bool) (d : Nat) (loc : List Bool) (cps : CpStack) (cur : List SyntaxKind) (ps : List (SyntaxKind × List SyntaxKind)) (nm : Bool) (n : Nat)
    (hn : 64 * p.render.length + 1216 ≤ n) :
    ax n (call .statement_list_top) ⟨p.render, fl, d, loc, cps, nm, cur, ps⟩ = some ⟨[], false, d, loc, cps, true, SyntaxKind.StatementList :: cur, ps⟩ := by
  obtain ⟨ss, hwf⟩ := p
  simp only [Program.render] at hn ⊢
  obtain ⟨m, rfl⟩ : ∃ m, n = m + 20 := ⟨n - 20, by omega⟩
  have hgs := good_stmts ss
  ax_eval [ax_call, c_stmts_top loc ss hwf]

end C04L
end Tg
