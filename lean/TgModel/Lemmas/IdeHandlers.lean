/-
The handlers (`Handlers.lean`) on `Analysis.new ws` for a well-formed workspace: none of them
panics (C03), and every range they return is a valid range of a workspace file (C17).
-/
import TgModel.Lemmas.IdeTop
import TgModel.Lemmas.IdeNav
import TgModel.Ide.Handlers
import TgModel.Lemmas.QSortMem

namespace Tg
namespace Ide

open Tg.SymbolMap (Loc Op State Sym)

/-- `(f, a, b)` names a file of the workspace and a valid range of its text -/
def LocValid (ws : Workspace) (f a b : Nat) : Prop :=
  f < ws.files.size ∧ ValidRange (ws.tree f).chars a b

theorem NodeLoc.valid {ws : Workspace} (hws : ws.WF) {f a b : Nat} (h : NodeLoc ws f a b) : LocValid ws f a b := by
  obtain ⟨hf, t, hd, ⟨rfl, rfl⟩ | ⟨htok, rfl, hb, mid, hq⟩⟩ := h
  · obtain ⟨txt, hs, h0⟩ := hws.tree_spans f
    refine ⟨hf, ?_⟩
    rw [hs.chars_eq]
    exact hs.desc_validRange h0 hd
  · obtain ⟨txt, hs, h0⟩ := hws.tree_spans f
    refine ⟨hf, ?_⟩
    rw [hs.chars_eq]
    have := (hs.token_inner_valid h0 hd htok hq).1
    have hb' : b = t.stop - 1 := by omega
    rw [hb']; exact this

/-! ### the position map / reference lists only contain locations of the hook log -/

structure StateOK (P : Loc → Prop) (st : State) : Prop where
  pos : ∀ e ∈ st.pos, P e.1
  defs : ∀ s ∈ st.syms, P s.define
  refs : ∀ s ∈ st.syms, ∀ r ∈ s.refs, P r

theorem insertPos_ok {P : Loc → Prop} : ∀ (pos : List (Loc × Nat)) (l : Loc) (s : Nat),
    (∀ e ∈ pos, P e.1) → P l → ∀ e ∈ Tg.SymbolMap.insertPos pos l s, P e.1
  | [], l, s, _, hl, e, he => by
    simp only [Tg.SymbolMap.insertPos, List.mem_singleton] at he
    subst he; exact hl
  | (l', s') :: t, l, s, hp, hl, e, he => by
    simp only [Tg.SymbolMap.insertPos] at he
    split at he
    · simp only [List.mem_cons] at he
      rcases he with rfl | he
      · exact hl
      · exact hp e (by simp [he])
    · simp only [List.mem_cons] at he
      rcases he with rfl | he
      · exact hp _ (by simp)
      · exact insertPos_ok t l s (fun x hx => hp x (by simp [hx])) hl e he

theorem addPos_ok {P : Loc → Prop} {st : State} (h : StateOK P st) {l : Loc} (hl : P l) (s : Nat) :
    StateOK P (Tg.SymbolMap.addPos st l s) := by
  unfold Tg.SymbolMap.addPos
  split
  · exact h
  · exact ⟨insertPos_ok _ _ _ h.pos hl, h.defs, h.refs⟩

theorem addRef_ok {P : Loc → Prop} : ∀ (syms : List Sym) (s : Nat) (l : Loc), P l →
    (∀ x ∈ syms, P x.define) → (∀ x ∈ syms, ∀ r ∈ x.refs, P r) →
    (∀ x ∈ Tg.SymbolMap.addRef syms s l, P x.define) ∧ (∀ x ∈ Tg.SymbolMap.addRef syms s l, ∀ r ∈ x.refs, P r)
  | [], _, _, _, _, _ => by simp [Tg.SymbolMap.addRef]
  | x :: t, 0, l, hl, hd, hr => by
    simp only [Tg.SymbolMap.addRef]
    constructor
    · intro y hy
      simp only [List.mem_cons] at hy
      rcases hy with rfl | hy
      · exact hd x (by simp)
      · exact hd y (by simp [hy])
    · intro y hy r hr'
      simp only [List.mem_cons] at hy
      rcases hy with rfl | hy
      · simp only [List.mem_append, List.mem_singleton] at hr'
        rcases hr' with hr' | rfl
        · exact hr x (by simp) r hr'
        · exact hl
      · exact hr y (by simp [hy]) r hr'
  | x :: t, n + 1, l, hl, hd, hr => by
    simp only [Tg.SymbolMap.addRef]
    obtain ⟨h1, h2⟩ := addRef_ok t n l hl (fun y hy => hd y (by simp [hy])) (fun y hy => hr y (by simp [hy]))
    constructor
    · intro y hy
      simp only [List.mem_cons] at hy
      rcases hy with rfl | hy
      · exact hd _ (by simp)
      · exact h1 y hy
    · intro y hy r hr'
      simp only [List.mem_cons] at hy
      rcases hy with rfl | hy
      · exact hr _ (by simp) r hr'
      · exact h2 y hy r hr'

theorem step_ok {P : Loc → Prop} {st : State} (h : StateOK P st) (op : Op) (hop : P (opLoc op)) :
    StateOK P (Tg.SymbolMap.step st op) := by
  cases op with
  | define name loc =>
    simp only [Tg.SymbolMap.step]
    have hop' : P loc := hop
    refine addPos_ok (st := { syms := st.syms ++ [{ name := name, define := loc }], pos := st.pos })
      ⟨h.pos, ?_, ?_⟩ hop' _
    · intro s hs
      simp only [List.mem_append, List.mem_singleton] at hs
      rcases hs with hs | rfl
      · exact h.defs s hs
      · exact hop
    · intro s hs r hr
      simp only [List.mem_append, List.mem_singleton] at hs
      rcases hs with hs | rfl
      · exact h.refs s hs r hr
      · simp at hr
  | defineAnon name loc =>
    simp only [Tg.SymbolMap.step]
    refine ⟨h.pos, ?_, ?_⟩
    · intro s hs
      simp only [List.mem_append, List.mem_singleton] at hs
      rcases hs with hs | rfl
      · exact h.defs s hs
      · exact hop
    · intro s hs r hr
      simp only [List.mem_append, List.mem_singleton] at hs
      rcases hs with hs | rfl
      · exact h.refs s hs r hr
      · simp at hr
  | reference s loc =>
    simp only [Tg.SymbolMap.step]
    split
    · have hop' : P loc := hop
      obtain ⟨h1, h2⟩ := addRef_ok st.syms s loc hop' h.defs h.refs
      exact addPos_ok (st := { syms := Tg.SymbolMap.addRef st.syms s loc, pos := st.pos }) ⟨h.pos, h1, h2⟩ hop' _
    · exact h

theorem run_ok {P : Loc → Prop} (ops : List Op) (hops : ∀ o ∈ ops, P (opLoc o)) :
    StateOK P (Tg.SymbolMap.run ops) := by
  unfold Tg.SymbolMap.run
  have : ∀ (l : List Op) (st : State), StateOK P st → (∀ o ∈ l, P (opLoc o)) → StateOK P (l.foldl Tg.SymbolMap.step st) := by
    intro l
    induction l with
    | nil => intro st h _; exact h
    | cons o os ih =>
      intro st h ho
      exact ih _ (step_ok h o (ho o (by simp))) (fun x hx => ho x (by simp [hx]))
  exact this ops {} ⟨by simp, by simp, by simp⟩ hops


/-! the array implementation used for long logs -/

structure FastOK (P : Loc → Prop) (st : SymRun.FastState) : Prop where
  pos : ∀ e ∈ st.pos.toList, P e.1
  defs : ∀ s ∈ st.syms.toList, P s.define
  refs : ∀ s ∈ st.syms.toList, ∀ r ∈ s.refs, P r

theorem mem_set!_cases {α : Type} {a : Array α} {i : Nat} {v x : α} (h : x ∈ (a.set! i v).toList) :
    x ∈ a.toList ∨ x = v := by
  rw [Array.mem_toList_iff, Array.mem_iff_getElem] at h
  obtain ⟨j, hj, rfl⟩ := h
  simp only [Array.set!_eq_setIfInBounds, Array.size_setIfInBounds] at hj
  simp only [Array.set!_eq_setIfInBounds]
  rw [Array.getElem_setIfInBounds (by simpa using hj)]
  split
  · exact Or.inr rfl
  · exact Or.inl (by simp)

theorem mem_modify_cases' {α : Type} {a : Array α} {i : Nat} {f : α → α} {x : α} (h : x ∈ (a.modify i f).toList) :
    x ∈ a.toList ∨ ∃ y ∈ a.toList, x = f y := by
  rw [Array.mem_toList_iff, Array.mem_iff_getElem] at h
  obtain ⟨j, hj, rfl⟩ := h
  simp only [Array.size_modify] at hj
  simp only [Array.getElem_modify]
  split
  · exact Or.inr ⟨_, by simp, rfl⟩
  · exact Or.inl (by simp)

theorem fastAddPos_ok {P : Loc → Prop} {st : SymRun.FastState} (h : FastOK P st) {l : Loc} (hl : P l) (s : Nat) :
    FastOK P (SymRun.addPos st l s) := by
  unfold SymRun.addPos
  split
  · exact h
  · dsimp only
    split
    · refine ⟨?_, h.defs, h.refs⟩
      intro e he
      rcases mem_set!_cases he with he | rfl
      · exact h.pos e he
      · exact hl
    · refine ⟨?_, h.defs, h.refs⟩
      intro e he
      simp only [Array.toList_push, List.mem_append, List.mem_singleton] at he
      rcases he with he | rfl
      · exact h.pos e he
      · exact hl

theorem fastStep_ok {P : Loc → Prop} {st : SymRun.FastState} (h : FastOK P st) (op : Op) (hop : P (opLoc op)) :
    FastOK P (SymRun.step st op) := by
  cases op with
  | define name loc =>
    have hop' : P loc := hop
    simp only [SymRun.step]
    refine fastAddPos_ok (st := { st with syms := st.syms.push { name := name, define := loc } }) ⟨h.pos, ?_, ?_⟩ hop' _
    · intro s hs
      simp only [Array.toList_push, List.mem_append, List.mem_singleton] at hs
      rcases hs with hs | rfl
      · exact h.defs s hs
      · exact hop'
    · intro s hs r hr
      simp only [Array.toList_push, List.mem_append, List.mem_singleton] at hs
      rcases hs with hs | rfl
      · exact h.refs s hs r hr
      · simp at hr
  | defineAnon name loc =>
    have hop' : P loc := hop
    simp only [SymRun.step]
    refine ⟨h.pos, ?_, ?_⟩
    · intro s hs
      simp only [Array.toList_push, List.mem_append, List.mem_singleton] at hs
      rcases hs with hs | rfl
      · exact h.defs s hs
      · exact hop'
    · intro s hs r hr
      simp only [Array.toList_push, List.mem_append, List.mem_singleton] at hs
      rcases hs with hs | rfl
      · exact h.refs s hs r hr
      · simp at hr
  | reference s loc =>
    have hop' : P loc := hop
    simp only [SymRun.step]
    split
    · refine fastAddPos_ok (st := { st with syms := st.syms.modify s fun x => { x with refs := loc :: x.refs } })
        ⟨h.pos, ?_, ?_⟩ hop' _
      · intro x hx
        rcases mem_modify_cases' hx with hx | ⟨y, hy, rfl⟩
        · exact h.defs x hx
        · exact h.defs y hy
      · intro x hx r hr
        rcases mem_modify_cases' hx with hx | ⟨y, hy, rfl⟩
        · exact h.refs x hx r hr
        · simp only [List.mem_cons] at hr
          rcases hr with rfl | hr
          · exact hop'
          · exact h.refs y hy r hr
    · exact h

theorem runFast_ok {P : Loc → Prop} (ops : Array Op) (hops : ∀ o ∈ ops.toList, P (opLoc o)) :
    StateOK P (SymRun.runFast ops) := by
  unfold SymRun.runFast
  have hfold : FastOK P (ops.foldl SymRun.step {}) := by
    rw [← Array.foldl_toList]
    have : ∀ (l : List Op) (st : SymRun.FastState), FastOK P st → (∀ o ∈ l, P (opLoc o)) →
        FastOK P (l.foldl SymRun.step st) := by
      intro l
      induction l with
      | nil => intro st h _; exact h
      | cons o os ih =>
        intro st h ho
        exact ih _ (fastStep_ok h o (ho o (by simp))) (fun x hx => ho x (by simp [hx]))
    exact this ops.toList {} ⟨by simp, by simp, by simp⟩ hops
  refine ⟨by simpa using hfold.pos, ?_, ?_⟩
  · intro s hs
    simp only [Array.toList_map, List.mem_map] at hs
    obtain ⟨x, hx, rfl⟩ := hs
    exact hfold.defs x hx
  · intro s hs r hr
    simp only [Array.toList_map, List.mem_map] at hs
    obtain ⟨x, hx, rfl⟩ := hs
    exact hfold.refs x hx r (by simpa using hr)

/-! ### the analysis of a well-formed workspace -/

theorem analysis_index {ws : Workspace} (hws : ws.WF) (hroot : Index.Workspace.RootOK ws) :
    ∃ r, (Analysis.new ws).index = .ok r ∧ Index.index ws = .ok r ∧ r.symbolMap.IdsOK ∧ r.symbolMap.LocsOK ws ∧
      (∀ d ∈ r.diagnostics.toList, NodeLocR ws d.location) ∧
      StateOK (NodeLocL ws) (Analysis.new ws).symState.get ∧ r.symbolMap.FilesOK := by
  obtain ⟨r, hr, hi, hl, hd, hf⟩ := Index.index_ok hws hroot
  refine ⟨r, by simp [Analysis.new, hr], hr, hi, hl, hd, ?_, hf⟩
  simp only [Analysis.new, hr, Thunk.get]
  split
  · exact runFast_ok _ hl.ops
  · exact run_ok _ (by simpa using hl.ops)


namespace Handlers

/-! ### diagnostics -/

def DiagValid (ws : Workspace) (d : Diagnostic) : Prop :=
  LocValid ws d.location.file d.location.start d.location.stop

/-- the grouping step of `diagnostics::exec` -/
def groupStep (m : List (Nat × List Diagnostic)) (d : Diagnostic) : List (Nat × List Diagnostic) :=
  let f := d.location.file
  if m.any (·.1 == f) then m.map fun e => if e.1 == f then (e.1, e.2 ++ [d]) else e
  else m ++ [(f, [d])]

theorem groupStep_ok {ws : Workspace} {m : List (Nat × List Diagnostic)} {d : Diagnostic}
    (hm : ∀ e ∈ m, e.1 < ws.files.size ∧ ∀ x ∈ e.2, x.location.file = e.1 ∧ DiagValid ws x)
    (hd : DiagValid ws d) :
    ∀ e ∈ groupStep m d, e.1 < ws.files.size ∧ ∀ x ∈ e.2, x.location.file = e.1 ∧ DiagValid ws x := by
  intro e he
  unfold groupStep at he
  dsimp only at he
  split at he
  · simp only [List.mem_map] at he
    obtain ⟨e', he', rfl⟩ := he
    split
    · rename_i heq
      refine ⟨(hm e' he').1, ?_⟩
      intro x hx
      simp only [List.mem_append, List.mem_singleton] at hx
      rcases hx with hx | rfl
      · exact (hm e' he').2 x hx
      · exact ⟨(beq_iff_eq.mp heq).symm, hd⟩
    · exact hm e' he'
  · simp only [List.mem_append, List.mem_singleton] at he
    rcases he with he | rfl
    · exact hm e he
    · refine ⟨hd.1, ?_⟩
      intro x hx
      simp only [List.mem_singleton] at hx
      subst hx
      exact ⟨rfl, hd⟩

theorem diagnosticsExec_ok {ws : Workspace} (hws : ws.WF) (hroot : Index.Workspace.RootOK ws) :
    ∃ res, diagnosticsExec (Analysis.new ws) = .ok res ∧
      ∀ e ∈ res, e.1 < ws.files.size ∧ ∀ d ∈ e.2, d.location.file = e.1 ∧ DiagValid ws d := by
  obtain ⟨r, hidx, _, _, _, hd, _⟩ := analysis_index hws hroot
  unfold diagnosticsExec
  simp only [hidx, bind, Except.bind, pure, Except.pure]
  refine ⟨_, rfl, ?_⟩
  have hws' : (Analysis.new ws).ws = ws := rfl
  rw [hws']
  -- every reported diagnostic is valid
  have hall : ∀ d ∈ (ws.fileSet.flatMap fun fid =>
      match ws.file? fid with
      | some f => f.errors.map fun e => ({ location := ⟨fid, e.start, e.stop⟩, message := e.msg } : Diagnostic)
      | none => []) ++ r.diagnostics.toList, DiagValid ws d := by
    intro d hdm
    simp only [List.mem_append, List.mem_flatMap] at hdm
    rcases hdm with ⟨fid, hfid, hdm⟩ | hdm
    · have hlt := hws.fileSet fid hfid
      have hf : ws.file? fid = some ws.files[fid] := by simp [Workspace.file?, Array.getElem?_eq_getElem hlt]
      rw [hf] at hdm
      simp only [List.mem_map] at hdm
      obtain ⟨e, he, rfl⟩ := hdm
      refine ⟨hlt, ?_⟩
      simp only
      rw [ws.tree_of_lt hlt]
      exact hws.errs fid hlt e he
    · exact (hd d hdm).valid hws
  -- the fold
  have hfold : ∀ (l : List Diagnostic) (m : List (Nat × List Diagnostic)),
      (∀ d ∈ l, DiagValid ws d) →
      (∀ e ∈ m, e.1 < ws.files.size ∧ ∀ x ∈ e.2, x.location.file = e.1 ∧ DiagValid ws x) →
      ∀ e ∈ l.foldl groupStep m, e.1 < ws.files.size ∧ ∀ x ∈ e.2, x.location.file = e.1 ∧ DiagValid ws x := by
    intro l
    induction l with
    | nil => intro m _ hm; simpa using hm
    | cons d ds ih =>
      intro m hl hm
      simp only [List.foldl_cons]
      exact ih _ (fun x hx => hl x (by simp [hx])) (groupStep_ok hm (hl d (by simp)))
  refine hfold _ _ hall ?_
  intro e he
  simp only [List.mem_map] at he
  obtain ⟨f, hf, rfl⟩ := he
  exact ⟨hws.fileSet f hf, by simp⟩


/-! ### document symbols -/

/-- the range of the symbol and of every (transitive) child satisfies `P` -/
inductive DocSymOK (P : Nat × Nat → Prop) : DocumentSymbol → Prop
  | mk (s : DocumentSymbol) : P s.range → (∀ c ∈ s.children, DocSymOK P c) → DocSymOK P s

/-- a range that is valid in file `f` of the workspace -/
def InFile (ws : Workspace) (f : Nat) (rg : Nat × Nat) : Prop := LocValid ws f rg.1 rg.2

theorem getElem!_mem {α : Type} [Inhabited α] {a : Array α} {i : Nat} (h : i < a.size) : a[i]! ∈ a.toList := by
  rw [getElem!_pos a i h]; simp

theorem rangeOf_in {ws : Workspace} (hws : ws.WF) {loc : FileRange} (h : NodeLocR ws loc) {f : Nat}
    (hf : loc.file = f) : InFile ws f (rangeOf loc) := by
  subst hf; exact NodeLoc.valid hws h

theorem fieldSymbols_ok {ws : Workspace} (hws : ws.WF) {sm : SymMap} (hi : sm.IdsOK) (hl : sm.LocsOK ws)
    (hfl : sm.FilesOK) {r : Record} (hr : r ∈ sm.recordList.toList) {f : Nat} (hf : r.defineLoc.file = f) :
    ∀ s ∈ fieldSymbols sm r, DocSymOK (InFile ws f) s := by
  intro s hs
  simp only [fieldSymbols, List.mem_map] at hs
  obtain ⟨e, he, rfl⟩ := hs
  refine DocSymOK.mk _ ?_ (by simp)
  exact rangeOf_in hws (hl.flds _ (getElem!_mem ((hi.recs r hr).flds e he))) ((hfl.recFlds r hr e he).trans hf)

theorem recordToDocumentSymbol_ok {ws : Workspace} (hws : ws.WF) {sm : SymMap} (hi : sm.IdsOK)
    (hl : sm.LocsOK ws) (hfl : sm.FilesOK) {r : Record} (hr : r ∈ sm.recordList.toList) {f : Nat}
    (hf : r.defineLoc.file = f) : DocSymOK (InFile ws f) (recordToDocumentSymbol sm r) := by
  unfold recordToDocumentSymbol
  split
  · rename_i hk
    refine DocSymOK.mk _ (rangeOf_in hws (hl.recs r hr) hf) ?_
    intro c hc
    simp only [List.mem_append, List.mem_map] at hc
    rcases hc with ⟨e, he, rfl⟩ | hc
    · refine DocSymOK.mk _ ?_ (by simp)
      exact rangeOf_in hws (hl.tas _ (getElem!_mem ((hi.recs r hr).tas e he))) ((hfl.recTas r hr hk e he).trans hf)
    · exact fieldSymbols_ok hws hi hl hfl hr hf c hc
  · exact DocSymOK.mk _ (rangeOf_in hws (hl.recs r hr) hf) (fun c hc => fieldSymbols_ok hws hi hl hfl hr hf c hc)

theorem symbolToDocumentSymbol_ok {ws : Workspace} (hws : ws.WF) {sm : SymMap} (hi : sm.IdsOK)
    (hl : sm.LocsOK ws) (hfl : sm.FilesOK) {s : SymbolId} (hs : SymOK sm.sizes s) {f : Nat}
    (hf : (sm.symLoc s).file = f) {d : DocumentSymbol}
    (hd : symbolToDocumentSymbol sm s = some d) : DocSymOK (InFile ws f) d := by
  unfold symbolToDocumentSymbol at hd
  split at hd
  · rename_i id
    cases hd
    have hm : sm.record id ∈ sm.recordList.toList := getElem!_mem hs
    exact recordToDocumentSymbol_ok hws hi hl hfl hm hf
  · rename_i id
    cases hd
    have hm : sm.defset id ∈ sm.defsetList.toList := getElem!_mem hs
    refine DocSymOK.mk _ (rangeOf_in hws (hl.dss _ hm) hf) ?_
    intro c hc
    simp only [List.mem_map] at hc
    obtain ⟨x, hx, rfl⟩ := hc
    have hx' : x ∈ (sm.defset id).defList.toList := by simpa using hx
    have hxr : x < sm.recordList.size := hi.dss _ hm x hx'
    have hm' : sm.record x ∈ sm.recordList.toList := getElem!_mem hxr
    exact recordToDocumentSymbol_ok hws hi hl hfl hm' ((hfl.dsDefs _ hm x hx').trans hf)
  · rename_i id
    cases hd
    have hm : sm.multiclass id ∈ sm.multiclassList.toList := getElem!_mem hs
    refine DocSymOK.mk _ (rangeOf_in hws (hl.mcs _ hm) hf) ?_
    intro c hc
    simp only [List.mem_map] at hc
    obtain ⟨e, he, rfl⟩ := hc
    refine DocSymOK.mk _ ?_ (by simp)
    exact rangeOf_in hws (hl.tas _ (getElem!_mem ((hi.mcs _ hm).tas e he))) ((hfl.mcTas _ hm e he).trans hf)
  · cases hd

/-- **document symbols: every symbol and (transitive) child range is valid in the requested file** -/
theorem documentSymbolExec_ok {ws : Workspace} (hws : ws.WF) (hroot : Index.Workspace.RootOK ws) (fileId : Nat) :
    ∃ res, documentSymbolExec (Analysis.new ws) fileId = .ok res ∧
      ∀ l, res = some l → ∀ d ∈ l, DocSymOK (InFile ws fileId) d := by
  obtain ⟨r, hidx, _, hi, hl, _, _, hfl⟩ := analysis_index hws hroot
  unfold documentSymbolExec
  simp only [hidx, bind, Except.bind, pure, Except.pure]
  split
  · rename_i iter hiter
    refine ⟨_, rfl, ?_⟩
    intro l hl'
    cases hl'
    intro d hd
    simp only [List.mem_filterMap] at hd
    obtain ⟨s, hs, hsd⟩ := hd
    unfold SymMap.iterSymbolsInFile at hiter
    simp only [Option.map_eq_some_iff] at hiter
    obtain ⟨e, he, rfl⟩ := hiter
    have hem : e ∈ r.symbolMap.fileToSymbolList.toList := by simpa using Array.mem_of_find?_eq_some he
    have hef : e.1 = fileId := by simpa using Array.find?_some he
    exact symbolToDocumentSymbol_ok hws hi hl hfl (hi.files e hem s hs) ((hfl.files e hem s hs).trans hef) hsd
  · exact ⟨_, rfl, by intro l hl'; cases hl'⟩


/-! ### folding ranges and document links -/

/-- `range_excluding_trivia` of a cursor of a workspace file: both ends are character boundaries of
the file; if the node does not begin with trivia the range is valid (`start ≤ end`) -/
theorem rangeExcludingTrivia_valid {ws : Workspace} (hws : ws.WF) (f : Nat) (fuel : Nat) {c : Cursor}
    (hc : Cursor.OK (ws.tree f) c) :
    Boundary (ws.tree f).chars (rangeExcludingTrivia fuel c).1 ∧
    Boundary (ws.tree f).chars (rangeExcludingTrivia fuel c).2 ∧
    ((∀ t, c.here.firstToken = some t → t.kind.isTrivia = false) →
      ValidRange (ws.tree f).chars (rangeExcludingTrivia fuel c).1 (rangeExcludingTrivia fuel c).2) := by
  obtain ⟨txt, hs, h0⟩ := hws.tree_spans f
  rw [hs.chars_eq]
  obtain ⟨b1, b2⟩ := rangeExcludingTrivia_boundaries hs h0 fuel hc
  refine ⟨b1, b2, ?_⟩
  intro hft
  obtain ⟨mid, hmid⟩ := hs.desc_spans hc.desc
  refine ValidRange.of_boundaries b1 b2 (rangeExcludingTrivia_le hmid ?_ fuel)
  intro t ht
  have := Cursor.firstToken_here c
  rw [ht] at this
  exact hft t.here this.symm

theorem foldingRangeExec_ok {ws : Workspace} (hws : ws.WF) (fileId : Nat) :
    ∃ res, foldingRangeExec (Analysis.new ws) fileId = .ok (some res) ∧
      ∀ rg ∈ res, Boundary (ws.tree fileId).chars rg.1 ∧ Boundary (ws.tree fileId).chars rg.2 ∧
        (TriviaOK (ws.tree fileId) → ValidRange (ws.tree fileId).chars rg.1 rg.2) := by
  unfold foldingRangeExec
  refine ⟨_, rfl, ?_⟩
  intro rg hrg
  simp only [List.mem_map] at hrg
  obtain ⟨c, hc, rfl⟩ := hrg
  have hws' : (Analysis.new ws).ws = ws := rfl
  rw [hws'] at hc ⊢
  obtain ⟨hok, hnode, hkind⟩ := descendants_ok _ c hc
  obtain ⟨b1, b2, hv⟩ := rangeExcludingTrivia_valid hws fileId ((ws.tree fileId).stop + 2) hok
  exact ⟨b1, b2, fun htr => hv (htr c.here hok.desc hnode (Or.inl hkind))⟩

theorem documentLinkExec_ok {ws : Workspace} (hws : ws.WF) {fileId : Nat} (hf : fileId < ws.files.size) :
    ∃ res, documentLinkExec (Analysis.new ws) fileId = .ok (some res) ∧
      ∀ e ∈ res, e.2 < ws.files.size ∧
        Boundary (ws.tree fileId).chars e.1.1 ∧ Boundary (ws.tree fileId).chars e.1.2 ∧
        (TriviaOK (ws.tree fileId) → ValidRange (ws.tree fileId).chars e.1.1 e.1.2) := by
  unfold documentLinkExec
  refine ⟨_, rfl, ?_⟩
  intro e he
  have hws' : (Analysis.new ws).ws = ws := rfl
  rw [hws'] at he
  simp only [List.mem_filterMap] at he
  obtain ⟨c, hc, he⟩ := he
  obtain ⟨hok, hnode, hkind⟩ := descendants_ok _ c hc
  split at he
  · cases he
  · rename_i i hi
    split at he
    · cases he
    · rename_i pc hpc
      split at he
      · cases he
      · rename_i target htarget
        cases he
        have hpok := hok.child_ok hpc
        obtain ⟨b1, b2, hv⟩ := rangeExcludingTrivia_valid hws fileId ((ws.tree fileId).stop + 2) hpok
        have hpath := (Array.findIdx?_eq_some_iff_getElem.mp hi).2.1
        have hi' := (Array.findIdx?_eq_some_iff_getElem.mp hi).1
        have hpchere : pc.here = c.here.children[i] := by
          simp only [Cursor.child, Array.getElem?_eq_getElem hi', Option.map_some, Option.some.injEq] at hpc
          rw [← hpc]
        simp only [Bool.and_eq_true, beq_iff_eq] at hpath
        refine ⟨?_, b1, b2, fun htr => hv (htr pc.here hpok.desc (hpchere ▸ hpath.1) (Or.inr (hpchere ▸ hpath.2)))⟩
        have hfl : ws.file? fileId = some ws.files[fileId] := by
          simp [Workspace.file?, Array.getElem?_eq_getElem hf]
        rw [hfl] at htarget
        obtain ⟨k', hk'⟩ := Index.lookup_mem htarget
        exact hws.incl fileId hf (k', target) hk'


/-! ### go-to-definition and references -/

theorem findSymbolAt_mem {st : State} {file p : Nat} {S : Sym}
    (h : Tg.SymbolMap.findSymbolAt st file p = some S) : S ∈ st.syms := by
  unfold Tg.SymbolMap.findSymbolAt at h
  split at h
  · exact List.mem_of_getElem? h
  · cases h

theorem gotoDefinitionExec_ok {ws : Workspace} (hws : ws.WF) (hroot : Index.Workspace.RootOK ws) (file pos : Nat) :
    ∃ res, gotoDefinitionExec (Analysis.new ws) file pos = .ok res ∧
      ∀ l, res = some l → LocValid ws l.file l.start l.stop := by
  obtain ⟨r, hidx, _, _, _, _, hst, _⟩ := analysis_index hws hroot
  unfold gotoDefinitionExec
  simp only [hidx, bind, Except.bind, pure, Except.pure]
  refine ⟨_, rfl, ?_⟩
  intro l hl
  simp only [Tg.SymbolMap.gotoDef, Option.map_eq_some_iff] at hl
  obtain ⟨S, hS, rfl⟩ := hl
  exact NodeLoc.valid hws (hst.defs S (findSymbolAt_mem hS))

theorem referencesExec_ok {ws : Workspace} (hws : ws.WF) (hroot : Index.Workspace.RootOK ws) (file pos : Nat) :
    ∃ res, referencesExec (Analysis.new ws) file pos = .ok res ∧
      ∀ ls, res = some ls → ∀ l ∈ ls, LocValid ws l.file l.start l.stop := by
  obtain ⟨r, hidx, _, _, _, _, hst, _⟩ := analysis_index hws hroot
  unfold referencesExec
  simp only [hidx, bind, Except.bind, pure, Except.pure]
  refine ⟨_, rfl, ?_⟩
  intro ls hls l hl
  simp only [Tg.SymbolMap.references, Option.map_eq_some_iff] at hls
  obtain ⟨S, hS, rfl⟩ := hls
  exact NodeLoc.valid hws (hst.refs S (findSymbolAt_mem hS) l hl)

/-! ### hover -/

theorem NodeLoc.within {ws : Workspace} (hws : ws.WF) {f a b : Nat} (h : NodeLoc ws f a b) :
    (ws.tree f).start ≤ a ∧ b ≤ (ws.tree f).stop := by
  obtain ⟨_, t, hd, ⟨rfl, rfl⟩ | ⟨htok, rfl, hb, mid, hq⟩⟩ := h
  · obtain ⟨txt, hs, _⟩ := hws.tree_spans f
    have := hs.desc_within hd
    omega
  · obtain ⟨txt, hs, h0⟩ := hws.tree_spans f
    have := hs.desc_within hd
    have := (hs.token_inner_valid h0 hd htok hq).2
    omega

/-- the doc-comment search only fails in `covering_element` -/
theorem extractDocComments_ok {root : PTree} {txt : List Char} (hs : Spans root txt) {rs re : Nat}
    (h1 : root.start ≤ rs) (h2 : re ≤ root.stop) : ∃ r, extractDocComments root rs re = .ok r := by
  obtain ⟨c, hc, _⟩ := coveringElement_ok hs h1 h2
  unfold extractDocComments
  simp only [hc, bind, Except.bind, pure, Except.pure]
  repeat (first | exact ⟨_, rfl⟩ | split)

theorem symbolDefineLoc_ok {ws : Workspace} {sm : SymMap} (hl : sm.LocsOK ws) {s : SymbolId}
    (hs : SymOK sm.sizes s) : NodeLocR ws (symbolDefineLoc sm s) := by
  cases s <;> simp only [symbolDefineLoc]
  · exact hl.recs _ (getElem!_mem hs)
  · exact hl.tas _ (getElem!_mem hs)
  · exact hl.flds _ (getElem!_mem hs)
  · exact hl.vars _ (getElem!_mem hs)
  · exact hl.dss _ (getElem!_mem hs)
  · exact hl.mcs _ (getElem!_mem hs)
  · exact hl.dms _ (getElem!_mem hs)

theorem hoverExec_ok {ws : Workspace} (hws : ws.WF) (hroot : Index.Workspace.RootOK ws) (file pos : Nat) :
    ∃ res, hoverExec (Analysis.new ws) file pos = .ok res := by
  obtain ⟨r, hidx, _, hi, hl, _, _⟩ := analysis_index hws hroot
  unfold hoverExec
  simp only [hidx, bind, Except.bind, pure, Except.pure]
  split
  · rename_i sig loc hsig
    -- the define location of the symbol is a node range of a workspace file
    have hloc : NodeLocR ws loc := by
      unfold extractSymbolSignature at hsig
      split at hsig
      · cases hsig
      · rename_i symbol hsym
        simp only [Option.some.injEq, Prod.mk.injEq] at hsig
        obtain ⟨_, rfl⟩ := hsig
        refine symbolDefineLoc_ok hl ?_
        unfold findSymbolAt at hsym
        split at hsym
        · exact hi.gids _ (List.mem_of_getElem? (by simpa using hsym))
        · cases hsym
    have hws' : (Analysis.new ws).ws = ws := rfl
    rw [hws']
    obtain ⟨txt, hs, _⟩ := hws.tree_spans loc.file
    obtain ⟨w1, w2⟩ := NodeLoc.within hws hloc
    obtain ⟨d, hd⟩ := extractDocComments_ok hs w1 w2
    simp only [hd]
    exact ⟨_, rfl⟩
  · exact ⟨_, rfl⟩


/-! ### inlay hints -/

theorem except_forIn {α σ ε : Type} {l : List α} {init : σ} {f : α → σ → Except ε (ForInStep σ)}
    (I : σ → Prop) (h0 : I init)
    (hstep : ∀ a ∈ l, ∀ b, I b → ∃ s, f a b = .ok s ∧ I s.value) :
    ∃ b, forIn l init f = .ok b ∧ I b := by
  induction l generalizing init with
  | nil => exact ⟨init, rfl, h0⟩
  | cons x xs ih =>
    obtain ⟨s, hs, hI⟩ := hstep x (by simp) init h0
    rw [List.forIn_cons]
    simp only [hs, bind, Except.bind]
    cases s with
    | done b => exact ⟨b, rfl, hI⟩
    | yield b => exact ih hI (fun a ha => hstep a (by simp [ha]))

theorem except_forIn_bind {α σ ε β : Type} {l : List α} {init : σ} {f : α → σ → Except ε (ForInStep σ)}
    {k : σ → Except ε β} (I : σ → Prop) (Q : β → Prop) (h0 : I init)
    (hstep : ∀ a ∈ l, ∀ b, I b → ∃ s, f a b = .ok s ∧ I s.value)
    (hk : ∀ b, I b → ∃ r, k b = .ok r ∧ Q r) :
    ∃ r, Except.bind (forIn l init f) k = .ok r ∧ Q r := by
  obtain ⟨b, hb, hI⟩ := except_forIn I h0 hstep
  rw [hb]
  exact hk b hI

theorem identifierNodeOf_ok {root : PTree} {c r : Cursor} {b : Bool} (hc : Cursor.OK root c)
    (h : identifierNodeOf c b = some r) : Cursor.OK root r := by
  unfold identifierNodeOf at h
  split at h
  · exact hc.parent_ok h
  · split at h
    · cases h; exact hc
    · cases h
  · cases h

theorem inlayHintTemplateArgs_ok {ws : Workspace} (hws : ws.WF) (names : List String) {loc : FileRange}
    (hloc : NodeLocR ws loc) :
    ∃ res, inlayHintTemplateArgs (Analysis.new ws) names loc = .ok res ∧
      ∀ hs, res = some hs → ∀ h ∈ hs, Boundary (ws.tree loc.file).chars h.position := by
  obtain ⟨txt, hs, h0⟩ := hws.tree_spans loc.file
  obtain ⟨w1, w2⟩ := NodeLoc.within hws hloc
  obtain ⟨c, hc, hcok⟩ := coveringElement_ok hs w1 w2
  unfold inlayHintTemplateArgs
  have hws' : (Analysis.new ws).ws = ws := rfl
  simp only [hws', hc, bind, Except.bind, pure, Except.pure]
  split
  · rename_i idn hidn
    split
    · rename_i cn hcn
      have hcnok := (identifierNodeOf_ok hcok hidn).parent_ok hcn
      split
      · rename_i al hal
        refine ⟨_, rfl, ?_⟩
        intro hints hh h hmem
        cases hh
        simp only [List.mem_map] at hmem
        obtain ⟨⟨st, nm⟩, hz, rfl⟩ := hmem
        have hst := (List.of_mem_zip hz).1
        simp only [List.mem_map] at hst
        obtain ⟨a, ha, rfl⟩ := hst
        have ha' := (List.takeWhile_sublist _).subset ha
        have hal' : Sub cn.here al := by
          split at hal
          · exact Ast.child_sub hal
          · exact Ast.child_sub hal
          · cases hal
        have hd : Desc (ws.tree loc.file) a := (hcnok.desc.trans hal'.desc).trans (Ast.children_sub ha').desc
        rw [hs.chars_eq]
        exact (hs.desc_validRange h0 hd).boundary_start
      · exact ⟨_, rfl, by intro _ hh; cases hh⟩
    · exact ⟨_, rfl, by intro _ hh; cases hh⟩
  · exact ⟨_, rfl, by intro _ hh; cases hh⟩

theorem inlayHintClass_ok {ws : Workspace} (hws : ws.WF) (sm : SymMap) (cls : Record) {loc : FileRange}
    (hloc : NodeLocR ws loc) :
    ∃ res, inlayHintClass (Analysis.new ws) sm cls loc = .ok res ∧
      ∀ hs, res = some hs → ∀ h ∈ hs, Boundary (ws.tree loc.file).chars h.position :=
  inlayHintTemplateArgs_ok hws _ hloc

theorem inlayHintRecordField_ok {ws : Workspace} (hws : ws.WF) (field : RecordField) {loc : FileRange}
    (hloc : NodeLocR ws loc) :
    ∃ res, inlayHintRecordField (Analysis.new ws) field loc = .ok res ∧
      ∀ hs, res = some hs → ∀ h ∈ hs, Boundary (ws.tree loc.file).chars h.position := by
  obtain ⟨txt, hs, h0⟩ := hws.tree_spans loc.file
  obtain ⟨w1, w2⟩ := NodeLoc.within hws hloc
  obtain ⟨c, hc, hcok⟩ := coveringElement_ok hs w1 w2
  have hb : Boundary (ws.tree loc.file).chars loc.stop := (NodeLoc.valid hws hloc).2.boundary_stop
  unfold inlayHintRecordField
  have hws' : (Analysis.new ws).ws = ws := rfl
  simp only [hws', hc, bind, Except.bind, pure, Except.pure]
  split
  · split
    · split
      · exact ⟨_, rfl, by intro _ hh; cases hh⟩
      · refine ⟨_, rfl, ?_⟩
        intro hints hh h hmem
        cases hh
        simp only [List.mem_singleton] at hmem
        subst hmem
        exact hb
    · exact ⟨_, rfl, by intro _ hh; cases hh⟩
  · exact ⟨_, rfl, by intro _ hh; cases hh⟩

theorem mem_symbolsInRange {pos : List (Loc × Nat)} {file a b : Nat} {e : Loc × Nat}
    (h : e ∈ symbolsInRange pos file a b) : e ∈ pos ∧ e.1.file = file := by
  unfold symbolsInRange at h
  simp only [Array.mem_toList_iff] at h
  rw [Tg.QSort.mem_qsort] at h
  simp only [List.mem_toArray, List.mem_filter, Bool.and_eq_true, beq_iff_eq, decide_eq_true_eq] at h
  exact ⟨h.1, h.2.1.1⟩


theorem inlayHintExec_ok {ws : Workspace} (hws : ws.WF) (hroot : Index.Workspace.RootOK ws) (file a b : Nat) :
    ∃ res, inlayHintExec (Analysis.new ws) file a b = .ok res ∧
      ∀ hs, res = some hs → ∀ h ∈ hs, Boundary (ws.tree file).chars h.position := by
  obtain ⟨r, hidx, _, hi, hl, _, hst, _⟩ := analysis_index hws hroot
  unfold inlayHintExec
  simp only [hidx, bind, Except.bind, pure, Except.pure]
  split
  · exact ⟨_, rfl, by intro hs hh; cases hh; simp⟩
  · split
    · exact ⟨_, rfl, by intro _ hh; cases hh⟩
    · refine except_forIn_bind (fun (hs : List InlayHint) => ∀ h ∈ hs, Boundary (ws.tree file).chars h.position)
        (fun (res : Option (List InlayHint)) => ∀ hs, res = some hs → ∀ h ∈ hs,
          Boundary (ws.tree file).chars h.position) (by simp) ?_ ?_
      · rintro ⟨l, gid⟩ hmem acc hacc
        obtain ⟨hpos, hfile⟩ := mem_symbolsInRange hmem
        simp only at hfile
        have hloc : NodeLocR ws { file := file, start := l.start, stop := l.stop } := by
          have := hst.pos _ hpos
          simp only [NodeLocL, hfile] at this
          exact this
        dsimp only
        split
        · rename_i id _
          split
          · obtain ⟨v, hv, hvb⟩ := inlayHintClass_ok hws r.symbolMap (r.symbolMap.record id) hloc
            simp only [hv]
            split
            · refine ⟨_, rfl, ?_⟩
              intro h hm
              simp only [ForInStep.value, List.mem_append] at hm
              rcases hm with hm | hm
              · exact hacc h hm
              · exact hvb _ rfl h hm
            · exact ⟨_, rfl, hacc⟩
          · exact ⟨_, rfl, hacc⟩
        · rename_i id _
          obtain ⟨v, hv, hvb⟩ := inlayHintTemplateArgs_ok hws
            ((r.symbolMap.multiclass id).nameToTemplateArg.toList.map fun e => (r.symbolMap.templateArg e.2).name) hloc
          simp only [hv]
          split
          · refine ⟨_, rfl, ?_⟩
            intro h hm
            simp only [ForInStep.value, List.mem_append] at hm
            rcases hm with hm | hm
            · exact hacc h hm
            · exact hvb _ rfl h hm
          · exact ⟨_, rfl, hacc⟩
        · rename_i id _
          obtain ⟨v, hv, hvb⟩ := inlayHintRecordField_ok hws (r.symbolMap.recordField id) hloc
          simp only [hv]
          split
          · refine ⟨_, rfl, ?_⟩
            intro h hm
            simp only [ForInStep.value, List.mem_append] at hm
            rcases hm with hm | hm
            · exact hacc h hm
            · exact hvb _ rfl h hm
          · exact ⟨_, rfl, hacc⟩
        · exact ⟨_, rfl, hacc⟩
      · intro hints hI
        refine ⟨_, rfl, ?_⟩
        intro hs hh h hmem
        cases hh
        exact hI h (List.mem_filter.mp hmem).1

/-! ### completion -/

theorem completionExec_ok {ws : Workspace} (hws : ws.WF) (hroot : Index.Workspace.RootOK ws) (file pos : Nat)
    (trigger : Option String) (hpos : pos ≤ (ws.tree file).stop) :
    ∃ res, completionExec (Analysis.new ws) file pos trigger = .ok res := by
  obtain ⟨r, hidx, _, _, _, _, _⟩ := analysis_index hws hroot
  obtain ⟨txt, hs, h0⟩ := hws.tree_spans file
  obtain ⟨tok, htok, _⟩ := tokenAtOffsetLeft_ok hs (offset := pos) (by omega) hpos
  unfold completionExec
  have hws' : (Analysis.new ws).ws = ws := rfl
  simp only [hws', hidx, htok, bind, Except.bind, pure, Except.pure]
  repeat (first | exact ⟨_, rfl⟩ | split)

end Handlers
end Ide
end Tg
