/-
`Path.parent` and `Path.join` respect `PathBuf` equality (`Path.pathEq`: equality of the component sequences).
The functions of `Ide/Path.lean` work on the characters of a path; here a path is viewed as its `/`-separated
segments (`J segs`), the scanning functions are computed on that view, and the component sequence of the parent
/ of a join is expressed through the component sequence of the argument(s).
-/
import TgModel.Ide.Path
import TgModel.Lemmas.IdeTotal

namespace Tg
namespace Ide
namespace Path

/-! ### a path as its segments -/

/-- the segments joined by `/` -/
def J : List (List Char) → List Char
  | [] => []
  | [s] => s
  | s :: t :: ss => s ++ '/' :: J (t :: ss)

/-- no `/` inside -/
def NoSl (s : List Char) : Prop := ∀ c ∈ s, c ≠ '/'

theorem J_cons_cons (s t : List Char) (ss : List (List Char)) : J (s :: t :: ss) = s ++ '/' :: J (t :: ss) := rfl

theorem J_append_singleton : ∀ (ss : List (List Char)) (s : List Char), ss ≠ [] → J (ss ++ [s]) = J ss ++ '/' :: s
  | [], _, h => absurd rfl h
  | [a], s, _ => rfl
  | a :: b :: ss, s, _ => by
    show a ++ '/' :: J ((b :: ss) ++ [s]) = (a ++ '/' :: J (b :: ss)) ++ '/' :: s
    rw [J_append_singleton (b :: ss) s (by simp)]
    simp

/-- every path is the join of its segments -/
theorem exists_segs : ∀ cs : List Char, ∃ segs : List (List Char), segs ≠ [] ∧ (∀ s ∈ segs, NoSl s) ∧ cs = J segs
  | [] => by
    refine ⟨[[]], by simp, ?_, rfl⟩
    intro s hs
    simp at hs
    subst hs
    intro c hc
    cases hc
  | c :: cs => by
    obtain ⟨segs, hne, hns, rfl⟩ := exists_segs cs
    by_cases hc : c = '/'
    · subst hc
      refine ⟨[] :: segs, by simp, ?_, ?_⟩
      · intro s hs
        rcases List.mem_cons.mp hs with rfl | hs
        · intro c hc; cases hc
        · exact hns s hs
      · cases segs with
        | nil => exact absurd rfl hne
        | cons t ss => rfl
    · cases segs with
      | nil => exact absurd rfl hne
      | cons t ss =>
        refine ⟨(c :: t) :: ss, by simp, ?_, ?_⟩
        · intro s hs
          rcases List.mem_cons.mp hs with rfl | hs
          · intro d hd
            rcases List.mem_cons.mp hd with rfl | hd
            · exact hc
            · exact hns t (by simp) d hd
          · exact hns s (by simp [hs])
        · cases ss with
          | nil => rfl
          | cons u us => rfl

/-! ### `splitSlash` -/

/-- the fold of `splitSlash` from an intermediate state -/
def splitGo (cs : List Char) (st : List Char × List (List Char)) : List Char × List (List Char) :=
  cs.foldl (fun (st : List Char × List (List Char)) c =>
    if c == '/' then ([], st.1.reverse :: st.2) else (c :: st.1, st.2)) st

theorem splitGo_noSl : ∀ (a : List Char), NoSl a → ∀ cur acc, splitGo a (cur, acc) = (a.reverse ++ cur, acc)
  | [], _, cur, acc => rfl
  | c :: a, h, cur, acc => by
    have hc : (c == '/') = false := by simpa using h c (by simp)
    simp only [splitGo, List.foldl_cons, hc, Bool.false_eq_true, if_false]
    have := splitGo_noSl a (fun d hd => h d (by simp [hd])) (c :: cur) acc
    simp only [splitGo] at this
    rw [this]
    simp

theorem splitGo_append (a b : List Char) (st : List Char × List (List Char)) :
    splitGo (a ++ b) st = splitGo b (splitGo a st) := by
  simp [splitGo, List.foldl_append]

theorem splitGo_J : ∀ (segs : List (List Char)), (∀ s ∈ segs, NoSl s) → ∀ (s0 : List Char), NoSl s0 → ∀ cur acc,
    ((splitGo (J (s0 :: segs)) (cur, acc)).1.reverse :: (splitGo (J (s0 :: segs)) (cur, acc)).2).reverse =
      acc.reverse ++ (cur.reverse ++ s0) :: segs
  | [], _, s0, h0, cur, acc => by
    show ((splitGo s0 (cur, acc)).1.reverse :: (splitGo s0 (cur, acc)).2).reverse = _
    rw [splitGo_noSl s0 h0]
    simp
  | t :: ss, h, s0, h0, cur, acc => by
    rw [J_cons_cons, splitGo_append, splitGo_noSl s0 h0]
    have h1 : splitGo ('/' :: J (t :: ss)) (s0.reverse ++ cur, acc) =
        splitGo (J (t :: ss)) ([], (cur.reverse ++ s0) :: acc) := by
      simp [splitGo]
    rw [h1, splitGo_J ss (fun s hs => h s (by simp [hs])) t (h t (by simp)) [] _]
    simp

theorem splitSlash_J (segs : List (List Char)) (hne : segs ≠ []) (h : ∀ s ∈ segs, NoSl s) : splitSlash (J segs) = segs := by
  cases segs with
  | nil => exact absurd rfl hne
  | cons s0 ss =>
    have := splitGo_J ss (fun s hs => h s (by simp [hs])) s0 (h s0 (by simp)) [] []
    simpa [splitSlash, splitGo] using this

/-! ### `lastSlash`, `parseNextComponentBack` -/

def lastGo (l : List (Char × Nat)) (r : Option Nat) : Option Nat :=
  l.foldl (fun (r : Option Nat) (p : Char × Nat) => if p.1 == '/' then some p.2 else r) r

theorem lastGo_noSl : ∀ (b : List Char), NoSl b → ∀ k r, lastGo (b.zipIdx k) r = r
  | [], _, _, _ => rfl
  | c :: b, h, k, r => by
    have hc : (c == '/') = false := by simpa using h c (by simp)
    simp only [List.zipIdx_cons, lastGo, List.foldl_cons, hc, Bool.false_eq_true, if_false]
    exact lastGo_noSl b (fun d hd => h d (by simp [hd])) (k + 1) r

theorem lastSlash_noSl (b : List Char) (h : NoSl b) : lastSlash b = none := lastGo_noSl b h 0 none

theorem lastSlash_append (a b : List Char) (h : NoSl b) : lastSlash (a ++ '/' :: b) = some a.length := by
  unfold lastSlash
  rw [List.zipIdx_append, List.foldl_append]
  simp only [List.zipIdx_cons, List.foldl_cons, beq_self_eq_true, if_true, Nat.zero_add]
  exact lastGo_noSl b h _ _

/-- a segment that is a component: neither empty nor `.` -/
def real (s : List Char) : Bool := !(s.isEmpty || s == ['.'])

theorem parseBack_single (pre s : List Char) (hs : NoSl s) (hl : lenBeforeBody (pre ++ s) = pre.length) :
    parseNextComponentBack (pre ++ s) = (s.length, if real s then some s else none) := by
  unfold parseNextComponentBack
  rw [hl, List.drop_left]
  dsimp only
  rw [lastSlash_noSl s hs]
  simp only [real, Nat.add_zero]
  by_cases h : (s.isEmpty || s == ['.']) = true <;> simp [h]

theorem parseBack_snoc (pre : List Char) (ss : List (List Char)) (s : List Char) (hne : ss ≠ []) (hs : NoSl s)
    (hl : lenBeforeBody (pre ++ J (ss ++ [s])) = pre.length) :
    parseNextComponentBack (pre ++ J (ss ++ [s])) = (s.length + 1, if real s then some s else none) := by
  unfold parseNextComponentBack
  rw [hl, List.drop_left, J_append_singleton ss s hne]
  dsimp only
  rw [lastSlash_append _ _ hs]
  simp only [real, List.drop_left' rfl]
  by_cases h : (s.isEmpty || s == ['.']) = true <;> simp [h]

/-! ### the two loops of `parent` -/

theorem J_eq_nil_of_cons {s t : List Char} {ss : List (List Char)} : J (s :: t :: ss) ≠ [] := by
  rw [J_cons_cons]; simp

/-- one round of the loops: the last segment is taken off -/
theorem back_step (pre : List Char) (rs : List (List Char)) (s : List Char) (hs : NoSl s)
    (hl : lenBeforeBody (pre ++ J (rs.reverse ++ [s])) = pre.length) :
    parseNextComponentBack (pre ++ J (rs.reverse ++ [s])) =
      (s.length + (if rs = [] then 0 else 1), if real s then some s else none) ∧
    (pre ++ J (rs.reverse ++ [s])).take ((pre ++ J (rs.reverse ++ [s])).length - (s.length + (if rs = [] then 0 else 1))) =
      pre ++ J rs.reverse := by
  cases rs with
  | nil =>
    simp only [List.reverse_nil, List.nil_append, if_true, Nat.add_zero]
    refine ⟨parseBack_single pre s hs (by simpa [J] using hl), ?_⟩
    show List.take ((pre ++ s).length - s.length) (pre ++ s) = pre ++ []
    simp
  | cons r rs =>
    have hne : (r :: rs).reverse ≠ [] := by simp
    refine ⟨by simpa using parseBack_snoc pre _ s hne hs hl, ?_⟩
    rw [J_append_singleton _ s hne]
    simp only [List.length_append, List.length_cons, reduceCtorEq, if_false]
    have : pre.length + ((J (r :: rs).reverse).length + (s.length + 1)) - (s.length + 1) =
        (pre ++ J (r :: rs).reverse).length := by simp; omega
    rw [this, ← List.append_assoc, List.take_left]

/-- `nextBackBody` on reversed segments -/
def nbR (pre : List Char) : List (List Char) → Option (List Char) × List Char
  | [] => (none, pre)
  | s :: rs => if real s then (some s, pre ++ J rs.reverse) else nbR pre rs

/-- `trimRight` on reversed segments -/
def trR : List (List Char) → List (List Char)
  | [] => []
  | s :: rs => if real s then s :: rs else trR rs

theorem nextBackBody_segs (pre : List Char) : ∀ (rs : List (List Char)) (fuel : Nat), rs.length ≤ fuel →
    (∀ s ∈ rs, NoSl s) → (∀ k, lenBeforeBody (pre ++ J (rs.drop k).reverse) = pre.length) →
    nextBackBody fuel (pre ++ J rs.reverse) = nbR pre rs
  | [], fuel, hf, _, hl => by
    cases fuel with
    | zero => simp [nextBackBody, J, nbR]
    | succ n =>
      have h0 := hl 0
      simp only [List.drop_zero, List.reverse_nil, J, List.append_nil] at h0
      simp [nextBackBody, J, nbR, h0]
  | s :: rs, fuel, hf, hn, hl => by
    cases fuel with
    | zero => simp at hf
    | succ n =>
      have hl0 := hl 0
      simp only [List.drop_zero, List.reverse_cons] at hl0
      obtain ⟨hp, ht⟩ := back_step pre rs s (hn s (by simp)) hl0
      simp only [List.reverse_cons, nextBackBody, hl0]
      by_cases hlen : (pre ++ J (rs.reverse ++ [s])).length > pre.length
      · rw [if_pos hlen, hp]
        simp only [ht]
        have ih := nextBackBody_segs pre rs n (by simp at hf; omega) (fun x hx => hn x (by simp [hx]))
          (fun k => by have := hl (k + 1); simpa using this)
        by_cases hr : real s = true
        · simp [hr, nbR]
        · simp only [hr, Bool.false_eq_true, if_false, nbR]
          exact ih
      · rw [if_neg hlen]
        -- the body is empty: one empty segment
        have hJ : J (rs.reverse ++ [s]) = [] := by
          simp only [List.length_append] at hlen
          exact List.eq_nil_of_length_eq_zero (by omega)
        cases rs with
        | nil =>
          simp only [List.reverse_nil, List.nil_append, J] at hJ
          subst hJ
          simp [nbR, real, J]
        | cons r rs =>
          exfalso
          rw [J_append_singleton _ s (by simp)] at hJ
          simp at hJ

theorem trimRight_segs (pre : List Char) : ∀ (rs : List (List Char)) (fuel : Nat), rs.length ≤ fuel →
    (∀ s ∈ rs, NoSl s) → (∀ k, lenBeforeBody (pre ++ J (rs.drop k).reverse) = pre.length) →
    trimRight fuel (pre ++ J rs.reverse) = pre ++ J (trR rs).reverse
  | [], fuel, hf, _, hl => by
    cases fuel with
    | zero => simp [trimRight, J, trR]
    | succ n =>
      have h0 := hl 0
      simp only [List.drop_zero, List.reverse_nil, J, List.append_nil] at h0
      simp [trimRight, J, trR, h0]
  | s :: rs, fuel, hf, hn, hl => by
    cases fuel with
    | zero => simp at hf
    | succ n =>
      have hl0 := hl 0
      simp only [List.drop_zero, List.reverse_cons] at hl0
      obtain ⟨hp, ht⟩ := back_step pre rs s (hn s (by simp)) hl0
      simp only [List.reverse_cons, trimRight, hl0]
      by_cases hlen : (pre ++ J (rs.reverse ++ [s])).length > pre.length
      · rw [if_pos hlen, hp]
        simp only [ht]
        have ih := trimRight_segs pre rs n (by simp at hf; omega) (fun x hx => hn x (by simp [hx]))
          (fun k => by have := hl (k + 1); simpa using this)
        by_cases hr : real s = true
        · simp [hr, trR]
        · simp only [hr, Bool.false_eq_true, if_false, trR, Option.isSome_none]
          exact ih
      · rw [if_neg hlen]
        have hJ : J (rs.reverse ++ [s]) = [] := by
          simp only [List.length_append] at hlen
          exact List.eq_nil_of_length_eq_zero (by omega)
        cases rs with
        | nil =>
          simp only [List.reverse_nil, List.nil_append, J] at hJ
          subst hJ
          simp [trR, real, J]
        | cons r rs =>
          exfalso
          rw [J_append_singleton _ s (by simp)] at hJ
          simp at hJ

/-! ### `components` on segments -/

def compsOf (root : Bool) : List (List Char) → List (List Char)
  | [] => []
  | first :: rest => (if first == ['.'] && root then [] else [first]) ++ rest.filter (fun seg => seg != ['.'])

theorem components_J (s : String) (segs : List (List Char)) (hne : segs ≠ []) (hn : ∀ g ∈ segs, NoSl g)
    (hs : s.toList = J segs) :
    components s = (hasRoot (J segs),
      (compsOf (hasRoot (J segs)) (segs.filter fun seg => !seg.isEmpty)).map String.ofList) := by
  unfold components
  simp only [hs, splitSlash_J segs hne hn]
  cases segs.filter (fun seg => !seg.isEmpty) <;> rfl

theorem compsOf_true (l : List (List Char)) : compsOf true l = l.filter (fun seg => seg != ['.']) := by
  cases l with
  | nil => rfl
  | cons f r =>
    simp only [compsOf, Bool.and_true, List.filter_cons]
    by_cases hf : f = ['.']
    · simp [hf]
    · simp [hf]

theorem filter_real (l : List (List Char)) :
    (l.filter fun seg => !seg.isEmpty).filter (fun seg => seg != ['.']) = l.filter real := by
  rw [List.filter_filter]
  congr 1
  funext g
  simp only [real, Bool.not_or, bne, Bool.and_comm]

theorem hasRoot_cons_slash (x : List Char) : hasRoot ('/' :: x) = true := by simp [hasRoot]

theorem hasRoot_J_of_ne (s0 : List Char) (rest : List (List Char)) (h0 : s0 ≠ []) (hn : NoSl s0) :
    hasRoot (J (s0 :: rest)) = false := by
  cases s0 with
  | nil => exact absurd rfl h0
  | cons c t =>
    have hc : c ≠ '/' := hn c (by simp)
    cases rest with
    | nil => simp [J, hasRoot, hc]
    | cons r rs => simp [J, hasRoot, hc]

/-! ### `parent` on a path of the shape `pre ++ J bsegs` -/

theorem length_le_J : ∀ segs : List (List Char), segs.length ≤ (J segs).length + 1
  | [] => by simp
  | [s] => by simp
  | s :: t :: ss => by
    have := length_le_J (t :: ss)
    rw [J_cons_cons]
    simp only [List.length_cons, List.length_append] at this ⊢
    omega

theorem reverse_drop_reverse {α : Type} (l : List α) (k : Nat) : (l.reverse.drop k).reverse = l.take (l.length - k) := by
  rw [List.drop_reverse]; simp

/-- the segments from the back: all not real, or some not real ones, a real one, and the rest -/
theorem split_real : ∀ rs : List (List Char), (∀ x ∈ rs, real x = false) ∨
    ∃ nr s rs', rs = nr ++ s :: rs' ∧ (∀ x ∈ nr, real x = false) ∧ real s = true
  | [] => Or.inl (by intro x hx; cases hx)
  | s :: rs => by
    by_cases hs : real s = true
    · exact Or.inr ⟨[], s, rs, rfl, (fun x hx => by cases hx), hs⟩
    · rcases split_real rs with h | ⟨nr, t, rs', rfl, h1, h2⟩
      · exact Or.inl (by
          intro x hx
          rcases List.mem_cons.mp hx with rfl | hx
          · simpa using hs
          · exact h x hx)
      · exact Or.inr ⟨s :: nr, t, rs', rfl, by
          intro x hx
          rcases List.mem_cons.mp hx with rfl | hx
          · simpa using hs
          · exact h1 x hx, h2⟩

theorem nbR_append (pre : List Char) : ∀ (nr : List (List Char)), (∀ x ∈ nr, real x = false) → ∀ rs, nbR pre (nr ++ rs) = nbR pre rs
  | [], _, rs => rfl
  | x :: nr, h, rs => by
    simp only [List.cons_append, nbR, h x (by simp), Bool.false_eq_true, if_false]
    exact nbR_append pre nr (fun y hy => h y (by simp [hy])) rs

theorem trR_append : ∀ (nr : List (List Char)), (∀ x ∈ nr, real x = false) → ∀ rs, trR (nr ++ rs) = trR rs
  | [], _, rs => rfl
  | x :: nr, h, rs => by
    simp only [List.cons_append, trR, h x (by simp), Bool.false_eq_true, if_false]
    exact trR_append nr (fun y hy => h y (by simp [hy])) rs

theorem filter_real_append_nr (nr rs : List (List Char)) (h : ∀ x ∈ nr, real x = false) :
    (nr ++ rs).filter real = rs.filter real := by
  rw [List.filter_append]
  have : nr.filter real = [] := List.filter_eq_nil_iff.mpr (fun x hx => by simp [h x hx])
  rw [this]; rfl

/-- the result of `trimRight`, as a prefix of the segments -/
theorem trR_spec (rs : List (List Char)) : ∃ k, trR rs = rs.drop k ∧ (trR rs).filter real = rs.filter real := by
  rcases split_real rs with h | ⟨nr, s, rs', rfl, h1, h2⟩
  · refine ⟨rs.length, ?_, ?_⟩
    · have := trR_append rs h []
      simp only [List.append_nil] at this
      rw [this]; simp [trR]
    · have := trR_append rs h []
      simp only [List.append_nil] at this
      rw [this]
      have := filter_real_append_nr rs [] h
      simp only [List.append_nil] at this
      rw [this]; rfl
  · refine ⟨nr.length, ?_, ?_⟩
    · rw [trR_append nr h1]; simp [trR, h2]
    · rw [trR_append nr h1, filter_real_append_nr nr _ h1]; simp [trR, h2]

/-- what `parent` needs to know about the shape -/
structure Shape (pre : List Char) (bsegs : List (List Char)) (root : Bool) (X : List (List Char)) : Prop where
  noSl : ∀ g ∈ bsegs, NoSl g
  ne : bsegs ≠ []
  lbb : ∀ m, lenBeforeBody (pre ++ J (bsegs.take m)) = pre.length
  comps : ∀ (m : Nat) (str : String), str.toList = pre ++ J (bsegs.take m) →
    components str = (root, (X ++ (bsegs.take m).filter real).map String.ofList)
  /-- no component at all: what `parent` answers -/
  start : (X = [] ∧ ((hasRoot pre = true) ∨ (hasRoot pre = false ∧ includeCurDir pre = false))) ∨
    (X ≠ [] ∧ X.length = 1 ∧ hasRoot pre = false ∧ includeCurDir pre = true ∧ pre.length = 1 ∧ root = false)

/-- `Path::parent` on component sequences -/
def parentC (c : Bool × List String) : Option (Bool × List String) :=
  if c.2 = [] then none else some (c.1, c.2.dropLast)

theorem parent_of_shape {pre : List Char} {bsegs : List (List Char)} {root : Bool} {X : List (List Char)}
    (sh : Shape pre bsegs root X) (s : String) (hs : s.toList = pre ++ J bsegs) :
    (parent s).map components = parentC (components s) := by
  have hwhole : bsegs.take bsegs.length = bsegs := List.take_length
  have hcs := sh.comps bsegs.length s (by rw [hwhole]; exact hs)
  rw [hwhole] at hcs
  have hlk : ∀ (rs : List (List Char)), (∃ j, rs = bsegs.reverse.drop j) →
      ∀ k, lenBeforeBody (pre ++ J (rs.drop k).reverse) = pre.length := by
    rintro rs ⟨j, rfl⟩ k
    rw [List.drop_drop, reverse_drop_reverse]
    exact sh.lbb _
  have hns : ∀ g ∈ bsegs.reverse, NoSl g := fun g hg => sh.noSl g (List.mem_reverse.mp hg)
  have hfuel : bsegs.reverse.length ≤ (pre ++ J bsegs).length + 1 := by
    have := length_le_J bsegs
    simp only [List.length_reverse, List.length_append]
    omega
  have hnb := nextBackBody_segs pre bsegs.reverse ((pre ++ J bsegs).length + 1) hfuel hns
    (hlk _ ⟨0, by simp⟩)
  rw [List.reverse_reverse] at hnb
  unfold parent
  rw [hs]
  simp only [hnb]
  have hfr : bsegs.filter real = (bsegs.reverse.filter real).reverse := by
    rw [List.filter_reverse, List.reverse_reverse]
  rcases split_real bsegs.reverse with hall | ⟨nr, t, rs', hdec, h1, h2⟩
  · -- no component in the body
    have hnone : nbR pre bsegs.reverse = (none, pre) := by
      have := nbR_append pre bsegs.reverse hall []
      simp only [List.append_nil] at this
      rw [this]; rfl
    have hfe : bsegs.filter real = [] := by
      rw [hfr]
      have := filter_real_append_nr bsegs.reverse [] hall
      simp only [List.append_nil] at this
      rw [this]; rfl
    rw [hnone, hcs, hfe]
    simp only [List.append_nil]
    rcases sh.start with ⟨hX, hpre⟩ | ⟨hX, hX1, hr, hi, hp1, hroot⟩
    · subst hX
      rcases hpre with hr | ⟨hr, hi⟩
      · simp [hr, parentC]
      · simp [hr, hi, parentC]
    · simp only [hr, hi, Bool.false_eq_true, if_false, if_true, Option.map_some, parentC]
      have hXne : X.map String.ofList ≠ [] := by simpa using hX
      rw [if_neg hXne]
      have hempty : pre.take (pre.length - 1) = [] := by rw [hp1]; rfl
      rw [hempty]
      have hc0 : components (String.ofList []) = (false, []) := by decide
      rw [hc0]
      cases X with
      | nil => exact absurd rfl hX
      | cons x xs =>
        cases xs with
        | nil => simp [hroot]
        | cons y ys => simp at hX1
  · -- the last component is `t`
    have hsome : nbR pre bsegs.reverse = (some t, pre ++ J rs'.reverse) := by
      rw [hdec, nbR_append pre nr h1]; simp [nbR, h2]
    rw [hsome]
    simp only [Option.map_some]
    have hrs' : ∃ j, rs' = bsegs.reverse.drop j := ⟨nr.length + 1, by rw [hdec]; simp⟩
    have hns' : ∀ g ∈ rs', NoSl g := fun g hg => hns g (by rw [hdec]; simp [hg])
    have hfuel' : rs'.length ≤ (pre ++ J rs'.reverse).length + 1 := by
      have := length_le_J rs'.reverse
      simp only [List.length_reverse, List.length_append] at this ⊢
      omega
    rw [trimRight_segs pre rs' _ hfuel' hns' (hlk rs' hrs')]
    obtain ⟨k, hk, hkf⟩ := trR_spec rs'
    obtain ⟨j, hj⟩ := hrs'
    have htake : (trR rs').reverse = bsegs.take (bsegs.length - (j + k)) := by
      rw [hk, hj, List.drop_drop, reverse_drop_reverse]
    have hcp := sh.comps (bsegs.length - (j + k)) (String.ofList (pre ++ J (trR rs').reverse))
      (by rw [String.toList_ofList, htake])
    rw [hcp, ← htake, hcs]
    have hfa : bsegs.filter real = (rs'.filter real).reverse ++ [t] := by
      rw [hfr, hdec, filter_real_append_nr nr _ h1]
      simp [List.filter_cons, h2]
    have hfb : (trR rs').reverse.filter real = (rs'.filter real).reverse := by
      rw [List.filter_reverse, hkf]
    rw [hfa, hfb]
    simp only [parentC, List.map_append, List.map_cons, List.map_nil]
    rw [if_neg (by simp)]
    simp only [← List.append_assoc, List.dropLast_concat]

/-! ### the three shapes -/

theorem noSl_take {l : List (List Char)} (h : ∀ g ∈ l, NoSl g) (m : Nat) : ∀ g ∈ l.take m, NoSl g :=
  fun g hg => h g (List.mem_of_mem_take hg)

theorem real_nil : real [] = false := rfl

theorem filter_ne_nil (l : List (List Char)) : ([] :: l).filter (fun seg => !seg.isEmpty) = l.filter (fun seg => !seg.isEmpty) := rfl

/-- a rooted path: `/` and the segments of the body -/
theorem shape_root (rest : List (List Char)) (hne : rest ≠ []) (hn : ∀ g ∈ rest, NoSl g) :
    Shape ['/'] rest true [] := by
  refine ⟨hn, hne, fun m => by simp [lenBeforeBody, hasRoot], ?_, Or.inl ⟨rfl, Or.inl rfl⟩⟩
  intro m str hstr
  have hnl := noSl_take hn m
  generalize rest.take m = l at hstr hnl
  cases l with
  | nil =>
    have h1 : str.toList = J [[], []] := by rw [hstr]; rfl
    rw [components_J str [[], []] (by simp) (by intro g hg; simp at hg; subst hg; intro c hc; cases hc) h1]
    rfl
  | cons t ts =>
    have h1 : str.toList = J ([] :: t :: ts) := by rw [hstr]; rfl
    have hn' : ∀ g ∈ ([] :: t :: ts : List (List Char)), NoSl g := by
      intro g hg
      rcases List.mem_cons.mp hg with rfl | hg
      · intro c hc; cases hc
      · exact hnl g hg
    rw [components_J str _ (by simp) hn' h1]
    have hr : hasRoot (J ([] :: t :: ts)) = true := hasRoot_cons_slash _
    rw [hr, filter_ne_nil, compsOf_true, filter_real]
    simp

theorem J_dot_cons (rest : List (List Char)) : J (['.'] :: rest) = ['.'] ++ J ([] :: rest) := by
  cases rest with
  | nil => rfl
  | cons t ts => rfl

/-- a path that starts with the current directory: `.` and the segments after it -/
theorem shape_curDir (rest : List (List Char)) (hn : ∀ g ∈ rest, NoSl g) :
    Shape ['.'] ([] :: rest) false [['.']] := by
  have hn0 : ∀ g ∈ ([] :: rest : List (List Char)), NoSl g := by
    intro g hg
    rcases List.mem_cons.mp hg with rfl | hg
    · intro c hc; cases hc
    · exact hn g hg
  refine ⟨hn0, by simp, ?_, ?_, Or.inr ⟨by simp, rfl, rfl, rfl, rfl, rfl⟩⟩
  · intro m
    cases m with
    | zero => rfl
    | succ m =>
      simp only [List.take_succ_cons]
      rw [← J_dot_cons]
      generalize rest.take m = l
      cases l with
      | nil => rfl
      | cons t ts => rfl
  · intro m str hstr
    cases m with
    | zero =>
      have h1 : str.toList = J [['.']] := by rw [hstr]; rfl
      rw [components_J str [['.']] (by simp) (by intro g hg; simp at hg; subst hg; intro c hc; simp at hc; subst hc; decide) h1]
      rfl
    | succ m =>
      simp only [List.take_succ_cons] at hstr ⊢
      rw [← J_dot_cons] at hstr
      have hnl := noSl_take hn m
      generalize rest.take m = l at hstr hnl
      have hn' : ∀ g ∈ (['.'] :: l : List (List Char)), NoSl g := by
        intro g hg
        rcases List.mem_cons.mp hg with rfl | hg
        · intro c hc; simp at hc; subst hc; decide
        · exact hnl g hg
      rw [components_J str _ (by simp) hn' hstr]
      have hr : hasRoot (J (['.'] :: l)) = false :=
        hasRoot_J_of_ne ['.'] l (by simp) (by intro c hc; simp at hc; subst hc; decide)
      rw [hr]
      have hf : (['.'] :: l).filter (fun seg => !seg.isEmpty) = ['.'] :: l.filter (fun seg => !seg.isEmpty) := rfl
      rw [hf]
      simp only [compsOf, Bool.and_false, Bool.false_eq_true, if_false, filter_real]
      have : ([] :: l).filter real = l.filter real := rfl
      rw [this]

theorem icd_false_of {c : Char} (hc : c ≠ '.') (y : List Char) : includeCurDir (c :: y) = false := by
  unfold includeCurDir
  split
  · rename_i h; simp at h; exact absurd h.1 hc
  · rename_i h; simp at h; exact absurd h.1 hc
  · simp

theorem icd_false_dot {d : Char} (hd : d ≠ '/') (y : List Char) : includeCurDir ('.' :: d :: y) = false := by
  unfold includeCurDir
  split
  · rename_i h; simp at h
  · rename_i h; simp at h; exact absurd h.1 hd
  · simp

theorem J_cons_head (c : Char) (t : List Char) (l : List (List Char)) : ∃ y, J ((c :: t) :: l) = c :: (t ++ y) := by
  cases l with
  | nil => exact ⟨[], by simp [J]⟩
  | cons u us => exact ⟨'/' :: J (u :: us), by simp [J]⟩

theorem lbb_plain (s0 : List Char) (l : List (List Char)) (hn0 : NoSl s0) (hd : s0 ≠ ['.']) (h0 : s0 ≠ []) :
    lenBeforeBody (J (s0 :: l)) = 0 := by
  cases s0 with
  | nil => exact absurd rfl h0
  | cons c t =>
    obtain ⟨y, hy⟩ := J_cons_head c t l
    have hc : c ≠ '/' := hn0 c (by simp)
    have hroot : hasRoot (J ((c :: t) :: l)) = false := hasRoot_J_of_ne _ l (by simp) hn0
    have hicd : includeCurDir (J ((c :: t) :: l)) = false := by
      rw [hy]
      by_cases hcd : c = '.'
      · subst hcd
        cases t with
        | nil => exact absurd rfl hd
        | cons d t' =>
          have : d ≠ '/' := hn0 d (by simp)
          exact icd_false_dot this _
      · exact icd_false_of hcd _
    simp [lenBeforeBody, hroot, hicd]

/-- any other path -/
theorem shape_plain (s0 : List Char) (rest : List (List Char)) (hn : ∀ g ∈ s0 :: rest, NoSl g)
    (hd : s0 ≠ ['.']) (he : s0 ≠ [] ∨ rest = []) : Shape [] (s0 :: rest) false [] := by
  have hn0 : NoSl s0 := hn s0 (by simp)
  have hnr : ∀ g ∈ rest, NoSl g := fun g hg => hn g (by simp [hg])
  refine ⟨hn, by simp, ?_, ?_, Or.inl ⟨rfl, Or.inr ⟨rfl, rfl⟩⟩⟩
  · intro m
    cases m with
    | zero => rfl
    | succ m =>
      simp only [List.take_succ_cons, List.nil_append, List.length_nil]
      by_cases h0 : s0 = []
      · subst h0
        have : rest = [] := by rcases he with h | h; exact absurd rfl h; exact h
        subst this
        rw [List.take_nil]
        rfl
      · exact lbb_plain s0 _ hn0 hd h0
  · intro m str hstr
    simp only [List.nil_append] at hstr ⊢
    cases m with
    | zero =>
      have h1 : str.toList = J [[]] := by rw [hstr]; rfl
      rw [components_J str [[]] (by simp) (by intro g hg; simp at hg; subst hg; intro c hc; cases hc) h1]
      rfl
    | succ m =>
      simp only [List.take_succ_cons] at hstr ⊢
      have hnl := noSl_take hnr m
      by_cases h0 : s0 = []
      · subst h0
        have : rest = [] := by rcases he with h | h; exact absurd rfl h; exact h
        subst this
        rw [List.take_nil] at hstr ⊢
        have h1 : str.toList = J [[]] := by rw [hstr]
        rw [components_J str [[]] (by simp) (by intro g hg; simp at hg; subst hg; intro c hc; cases hc) h1]
        rfl
      · generalize rest.take m = l at hstr hnl
        have hn' : ∀ g ∈ s0 :: l, NoSl g := by
          intro g hg
          rcases List.mem_cons.mp hg with rfl | hg
          · exact hn0
          · exact hnl g hg
        rw [components_J str _ (by simp) hn' hstr, hasRoot_J_of_ne s0 l h0 hn0]
        have hne : (!s0.isEmpty) = true := by cases s0 with | nil => exact absurd rfl h0 | cons c t => rfl
        have hreal : real s0 = true := by
          simp only [real, Bool.not_or, Bool.and_eq_true, hne, true_and]
          simpa using hd
        have hf : (s0 :: l).filter (fun seg => !seg.isEmpty) = s0 :: l.filter (fun seg => !seg.isEmpty) := by
          simp [List.filter_cons, hne]
        rw [hf]
        simp only [compsOf, Bool.and_false, Bool.false_eq_true, if_false, filter_real, List.nil_append]
        have : (s0 :: l).filter real = s0 :: l.filter real := by simp [List.filter_cons, hreal]
        rw [this]
        rfl

/-- **`Path::parent` removes the last component**: the component sequence of the parent of a path is the component
sequence of the path without its last component; there is no parent exactly when there is no component -/
theorem parent_spec (s : String) : (parent s).map components = parentC (components s) := by
  obtain ⟨segs, hne, hn, hs⟩ := exists_segs s.toList
  cases segs with
  | nil => exact absurd rfl hne
  | cons s0 rest =>
    by_cases hA : s0 = [] ∧ rest ≠ []
    · obtain ⟨rfl, hr⟩ := hA
      have hs' : s.toList = ['/'] ++ J rest := by
        rw [hs]
        cases rest with
        | nil => exact absurd rfl hr
        | cons t ts => rfl
      exact parent_of_shape (shape_root rest hr (fun g hg => hn g (by simp [hg]))) s hs'
    · by_cases hB : s0 = ['.']
      · subst hB
        have hs' : s.toList = ['.'] ++ J ([] :: rest) := by rw [hs, J_dot_cons]
        exact parent_of_shape (shape_curDir rest (fun g hg => hn g (by simp [hg]))) s hs'
      · have he : s0 ≠ [] ∨ rest = [] := by
          by_cases h0 : s0 = []
          · right
            by_cases hr : rest = []
            · exact hr
            · exact absurd ⟨h0, hr⟩ hA
          · exact Or.inl h0
        exact parent_of_shape (shape_plain s0 rest hn hB he) s (by simpa using hs)

/-- **`parent` respects path equality** -/
theorem parent_congr {p q : String} (h : PEq p q) :
    (parent p = none ∧ parent q = none) ∨ ∃ a b, parent p = some a ∧ parent q = some b ∧ PEq a b := by
  have hp := parent_spec p
  have hq := parent_spec q
  rw [show components p = components q from h] at hp
  rw [← hq] at hp
  cases h1 : parent p with
  | none =>
    rw [h1] at hp
    cases h2 : parent q with
    | none => exact Or.inl ⟨rfl, rfl⟩
    | some b => rw [h2] at hp; simp at hp
  | some a =>
    rw [h1] at hp
    cases h2 : parent q with
    | none => rw [h2] at hp; simp at hp
    | some b =>
      rw [h2] at hp
      simp only [Option.map_some, Option.some.injEq] at hp
      exact Or.inr ⟨a, b, rfl, rfl, hp⟩

/-! ### `join` -/

theorem J_append : ∀ (a b : List (List Char)), a ≠ [] → b ≠ [] → J (a ++ b) = J a ++ '/' :: J b
  | [], _, h, _ => absurd rfl h
  | [x], b, _, hb => by
    cases b with
    | nil => exact absurd rfl hb
    | cons y ys => rfl
  | x :: y :: a, b, _, hb => by
    show x ++ '/' :: J ((y :: a) ++ b) = (x ++ '/' :: J (y :: a)) ++ '/' :: J b
    rw [J_append (y :: a) b (by simp) hb]
    simp

theorem NoSl_getLast {x : List Char} (h : NoSl x) {c : Char} (hc : x.getLast? = some c) : c ≠ '/' := by
  obtain ⟨ys, rfl⟩ := List.getLast?_eq_some_iff.mp hc
  exact h c (by simp)

theorem hasRoot_append_of_ne {a : List Char} (h : a ≠ []) (b : List Char) : hasRoot (a ++ b) = hasRoot a := by
  cases a with
  | nil => exact absurd rfl h
  | cons c t => rfl

/-- the characters of a join with a relative path: the segments of the directory (without a trailing empty one)
followed by the segments of the path -/
theorem join_segs (d n : String) (dsegs nsegs : List (List Char)) (hdne : dsegs ≠ []) (hdn : ∀ g ∈ dsegs, NoSl g)
    (hd : d.toList = J dsegs) (hnne : nsegs ≠ []) (hn : n.toList = J nsegs) (hrel : hasRoot n.toList = false) :
    ∃ ds, (join d n).toList = J (ds ++ nsegs) ∧ (∀ g ∈ ds, NoSl g) ∧
      ds.filter (fun seg => !seg.isEmpty) = dsegs.filter (fun seg => !seg.isEmpty) ∧
      hasRoot (J (ds ++ nsegs)) = hasRoot d.toList := by
  unfold join
  rw [if_neg (by rw [hrel]; simp)]
  rcases List.eq_nil_or_concat dsegs with h | ⟨ds, x, hdx⟩
  · exact absurd h hdne
  · rw [List.concat_eq_append] at hdx
    subst hdx
    have hnx : NoSl x := hdn x (by simp)
    have hnds : ∀ g ∈ ds, NoSl g := fun g hg => hdn g (by simp [hg])
    by_cases hds : ds = []
    · subst hds
      simp only [List.nil_append, J] at hd
      -- the directory is one segment
      by_cases hx : x = []
      · subst hx
        refine ⟨[], ?_, (fun g hg => by cases hg), by simp, ?_⟩
        · simp [hd, hn]
        · simp only [List.nil_append]
          rw [hd, ← hn, hrel]; rfl
      · have hlast : ∃ c, x.getLast? = some c := by
          cases hl : x.getLast? with
          | none => exact absurd (List.getLast?_eq_none_iff.mp hl) hx
          | some c => exact ⟨c, rfl⟩
        obtain ⟨c, hc⟩ := hlast
        have hcs : c ≠ '/' := NoSl_getLast hnx hc
        refine ⟨[x], ?_, hdn, rfl, ?_⟩
        · simp only [hd, hc, bne_iff_ne, ne_eq, hcs, not_false_eq_true, decide_true, if_true]
          rw [String.toList_append, String.toList_append, hd, hn, J_append [x] nsegs (by simp) hnne]
          simp [J]
        · rw [J_append [x] nsegs (by simp) hnne, hd]
          exact hasRoot_append_of_ne (by simpa [J] using hx) _
    · have hJ : J (ds ++ [x]) = J ds ++ '/' :: x := J_append_singleton ds x hds
      rw [hJ] at hd
      by_cases hx : x = []
      · subst hx
        -- the directory ends with a slash: no separator
        refine ⟨ds, ?_, hnds, by simp [List.filter_append], ?_⟩
        · have hl : d.toList.getLast? = some '/' := by rw [hd]; simp
          simp only [hl, bne_self_eq_false, Bool.false_eq_true, if_false]
          rw [String.toList_append, hd, hn, J_append ds nsegs hds hnne]
          simp
        · rw [J_append ds nsegs hds hnne, hd]
          cases hjd : J ds with
          | nil => rfl
          | cons c t => rfl
      · have hlast : ∃ c, x.getLast? = some c := by
          cases hl : x.getLast? with
          | none => exact absurd (List.getLast?_eq_none_iff.mp hl) hx
          | some c => exact ⟨c, rfl⟩
        obtain ⟨c, hc⟩ := hlast
        have hcs : c ≠ '/' := NoSl_getLast hnx hc
        refine ⟨ds ++ [x], ?_, hdn, rfl, ?_⟩
        · have hl : d.toList.getLast? = some c := by
            obtain ⟨ys, rfl⟩ := List.getLast?_eq_some_iff.mp hc
            rw [hd]
            have : J ds ++ '/' :: (ys ++ [c]) = (J ds ++ '/' :: ys) ++ [c] := by simp
            rw [this, List.getLast?_concat]
          simp only [hl, bne_iff_ne, ne_eq, hcs, not_false_eq_true, decide_true, if_true]
          rw [String.toList_append, String.toList_append, hd, hn, J_append (ds ++ [x]) nsegs (by simp) hnne, hJ]
          simp
        · rw [J_append (ds ++ [x]) nsegs (by simp) hnne, hJ, ← hd]
          exact hasRoot_append_of_ne (by rw [hd]; simp) _

theorem compsOf_cons_append (r : Bool) (f : List Char) (t B : List (List Char)) :
    compsOf r ((f :: t) ++ B) = compsOf r (f :: t) ++ B.filter (fun seg => seg != ['.']) := by
  simp [compsOf, List.filter_append]

theorem compsOf_eq_nil {r : Bool} {f : List Char} {t : List (List Char)} (h : compsOf r (f :: t) = []) : r = true := by
  cases r with
  | true => rfl
  | false => simp [compsOf] at h

theorem compsOf_append_congr (r : Bool) (A A' B : List (List Char)) (h : compsOf r A = compsOf r A') :
    compsOf r (A ++ B) = compsOf r (A' ++ B) := by
  cases A with
  | nil =>
    cases A' with
    | nil => rfl
    | cons f t =>
      have hr := compsOf_eq_nil h.symm
      subst hr
      rw [compsOf_cons_append, ← h, List.nil_append, compsOf_true]
      rfl
  | cons f t =>
    cases A' with
    | nil =>
      have hr := compsOf_eq_nil h
      subst hr
      rw [compsOf_cons_append, h, List.nil_append, compsOf_true, compsOf_true]
      rfl
    | cons f' t' => rw [compsOf_cons_append, compsOf_cons_append, h]

theorem ofList_map_inj : ∀ (a b : List (List Char)), a.map String.ofList = b.map String.ofList → a = b
  | [], [], _ => rfl
  | [], _ :: _, h => by simp at h
  | _ :: _, [], h => by simp at h
  | x :: a, y :: b, h => by
    simp only [List.map_cons, List.cons.injEq] at h
    have hx : x = y := by
      have := congrArg String.toList h.1
      simpa using this
    rw [hx, ofList_map_inj a b h.2]

/-- **`join` respects path equality of the directory** -/
theorem join_congr (d d' n : String) (h : PEq d d') : PEq (join d n) (join d' n) := by
  by_cases hrel : hasRoot n.toList = true
  · unfold join
    rw [if_pos hrel, if_pos hrel]
    exact PEq.refl n
  · have hrel' : hasRoot n.toList = false := by simpa using hrel
    obtain ⟨dsegs, hdne, hdn, hd⟩ := exists_segs d.toList
    obtain ⟨dsegs', hdne', hdn', hd'⟩ := exists_segs d'.toList
    obtain ⟨nsegs, hnne, hnn, hn⟩ := exists_segs n.toList
    obtain ⟨ds, j1, j2, j3, j4⟩ := join_segs d n dsegs nsegs hdne hdn hd hnne hn hrel'
    obtain ⟨ds', k1, k2, k3, k4⟩ := join_segs d' n dsegs' nsegs hdne' hdn' hd' hnne hn hrel'
    have hall : ∀ (x : List (List Char)), (∀ g ∈ x, NoSl g) → ∀ g ∈ x ++ nsegs, NoSl g := by
      intro x hx g hg
      rcases List.mem_append.mp hg with hg | hg
      · exact hx g hg
      · exact hnn g hg
    have c1 := components_J (join d n) (ds ++ nsegs) (by simp [hnne]) (hall ds j2) j1
    have c2 := components_J (join d' n) (ds' ++ nsegs) (by simp [hnne]) (hall ds' k2) k1
    have e1 := components_J d dsegs hdne hdn hd
    have e2 := components_J d' dsegs' hdne' hdn' hd'
    have he : components d = components d' := h
    rw [e1, e2, ← hd, ← hd'] at he
    simp only [Prod.mk.injEq] at he
    obtain ⟨hr, hc⟩ := he
    have hc' := ofList_map_inj _ _ hc
    show components (join d n) = components (join d' n)
    rw [c1, c2, j4, k4, List.filter_append, List.filter_append, j3, k3, ← hr]
    rw [← hr] at hc'
    rw [compsOf_append_congr _ _ _ _ hc']

/-- the `Path` functions respect path equality -/
theorem pathCongr : (∀ p q, PEq p q →
      (parent p = none ∧ parent q = none) ∨ ∃ a b, parent p = some a ∧ parent q = some b ∧ PEq a b) ∧
    (∀ d d' n, PEq d d' → PEq (join d n) (join d' n)) :=
  ⟨fun _ _ h => parent_congr h, fun d d' n h => join_congr d d' n h⟩

end Path
end Ide
end Tg
